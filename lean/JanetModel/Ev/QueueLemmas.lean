/- The janet_q_* ring buffer model (`Ev/Queue.lean`) refines a list: push appends, push_head prepends, pop removes the
   head, the resize (including the move of a wrapped first segment) changes nothing, and the index walk used by
   `janet_channel_has_reader` / the mark functions (`for (i = head; i != tail; i = i + 1 < capacity ? i + 1 : 0)`) visits
   exactly the abstract content. -/
import JanetModel.Ev.Queue
namespace JanetModel.Ev
namespace RingQ
variable {α : Type}

/-- physical slot of the i-th element -/
def slot (q : RingQ α) (i : Nat) : Nat := if q.head + i < q.cap then q.head + i else q.head + i - q.cap

theorem slot_lo (q : RingQ α) (i : Nat) (h : q.head + i < q.cap) : q.slot i = q.head + i := by
  unfold slot; rw [if_pos h]

theorem slot_hi (q : RingQ α) (i : Nat) (h : ¬ q.head + i < q.cap) : q.slot i = q.head + i - q.cap := by
  unfold slot; rw [if_neg h]

theorem mod_slot (q : RingQ α) (h : q.head < q.cap) (i : Nat) (hi : i < q.cap) : (q.head + i) % q.cap = q.slot i := by
  by_cases h1 : q.head + i < q.cap
  · rw [slot_lo q i h1]; exact Nat.mod_eq_of_lt h1
  · rw [slot_hi q i h1, Nat.mod_eq_sub_mod (by omega), Nat.mod_eq_of_lt (by omega)]

theorem count_cases (q : RingQ α) :
    (q.head > q.tail ∧ q.count = q.tail + q.cap - q.head) ∨ (q.head ≤ q.tail ∧ q.count = q.tail - q.head) := by
  unfold count
  by_cases h : q.head > q.tail
  · left; exact ⟨h, by rw [if_pos h]⟩
  · right; exact ⟨by omega, by rw [if_neg h]⟩

theorem count_lt (q : RingQ α) (h : q.WF) :
    (q.cap = 0 ∧ q.count = 0) ∨ (q.head < q.cap ∧ q.tail < q.cap ∧ q.count < q.cap) := by
  rcases h with ⟨h1, h2, h3⟩ | ⟨h1, h2⟩
  · left; rcases count_cases q with ⟨a, b⟩ | ⟨a, b⟩ <;> (refine ⟨h1, ?_⟩; omega)
  · right; rcases count_cases q with ⟨a, b⟩ | ⟨a, b⟩ <;> (refine ⟨h1, h2, ?_⟩; omega)

theorem toList_eq (q : RingQ α) (h : q.WF) : q.toList = (List.range q.count).map (fun i => q.data (q.slot i)) := by
  unfold toList
  rcases count_lt q h with ⟨_, h0⟩ | ⟨h1, _, h3⟩
  · rw [h0]; rfl
  · apply List.map_congr_left
    intro i hi
    rw [mod_slot q h1 i (by have := List.mem_range.mp hi; omega)]

/-- two ring buffers with the same number of elements and the same element in every logical position -/
theorem toList_ext (q q' : RingQ α) (h : q.WF) (h' : q'.WF) (hc : q'.count = q.count)
    (hd : ∀ i, i < q.count → q'.data (q'.slot i) = q.data (q.slot i)) : q'.toList = q.toList := by
  rw [toList_eq q h, toList_eq q' h', hc]
  apply List.map_congr_left
  intro i hi
  exact hd i (List.mem_range.mp hi)

/-- prepend: q' holds x in logical position 0 and q's elements after it -/
theorem toList_cons (q q' : RingQ α) (x : α) (h : q.WF) (h' : q'.WF) (hc : q'.count = q.count + 1)
    (h0 : q'.data (q'.slot 0) = x) (hd : ∀ i, i < q.count → q'.data (q'.slot (i + 1)) = q.data (q.slot i)) :
    q'.toList = x :: q.toList := by
  rw [toList_eq q h, toList_eq q' h', hc, List.range_succ_eq_map, List.map_cons, List.map_map, h0]
  congr 1
  apply List.map_congr_left
  intro i hi
  exact hd i (List.mem_range.mp hi)

/-- append -/
theorem toList_snoc (q q' : RingQ α) (x : α) (h : q.WF) (h' : q'.WF) (hc : q'.count = q.count + 1)
    (hl : q'.data (q'.slot q.count) = x) (hd : ∀ i, i < q.count → q'.data (q'.slot i) = q.data (q.slot i)) :
    q'.toList = q.toList ++ [x] := by
  rw [toList_eq q h, toList_eq q' h', hc, List.range_succ, List.map_append, List.map_cons, List.map_nil, hl]
  congr 1
  apply List.map_congr_left
  intro i hi
  exact hd i (List.mem_range.mp hi)

/-! ### pop -/

theorem pop_none (q : RingQ α) (h : q.WF) : q.pop = none ↔ q.toList = [] := by
  unfold pop
  rw [toList_eq q h]
  by_cases e : q.head = q.tail
  · have : q.count = 0 := by rcases count_cases q with ⟨a, b⟩ | ⟨a, b⟩ <;> omega
    simp [e, this]
  · rw [if_neg e]
    constructor
    · intro c; cases c
    · intro c
      have hz : q.count = 0 := by have := congrArg List.length c; simpa using this
      exfalso
      rcases count_lt q h with ⟨h1, _⟩ | ⟨h1, h2, _⟩
      · rcases h with ⟨_, a, b⟩ | ⟨a, _⟩ <;> omega
      · rcases count_cases q with ⟨a, b⟩ | ⟨a, b⟩ <;> omega

theorem pop_some (q : RingQ α) (h : q.WF) (x : α) (q' : RingQ α) (hp : q.pop = some (x, q')) :
    q.toList = x :: q'.toList ∧ q'.WF := by
  unfold pop at hp
  by_cases e : q.head = q.tail
  · rw [if_pos e] at hp; cases hp
  · rw [if_neg e] at hp
    simp only [Option.some.injEq, Prod.mk.injEq] at hp
    obtain ⟨hx, hq⟩ := hp
    have hhd : q'.head = if q.head + 1 < q.cap then q.head + 1 else 0 := by rw [← hq]
    have htl : q'.tail = q.tail := by rw [← hq]
    have hcp : q'.cap = q.cap := by rw [← hq]
    have hdt : q'.data = q.data := by rw [← hq]
    rcases count_lt q h with ⟨h1, _⟩ | ⟨h1, h2, h3⟩
    · rcases h with ⟨_, a, b⟩ | ⟨a, _⟩ <;> omega
    · have hwf' : q'.WF := by right; rw [hhd, htl, hcp]; constructor <;> (try split) <;> omega
      have hcnt : q.count = q'.count + 1 := by
        rcases count_cases q with ⟨a, b⟩ | ⟨a, b⟩ <;> rcases count_cases q' with ⟨a', b'⟩ | ⟨a', b'⟩ <;>
          (simp only [hhd, htl, hcp] at a' b'; (repeat' split at a') <;> (repeat' split at b') <;> omega)
      refine ⟨?_, hwf'⟩
      apply toList_cons q' q x hwf' h hcnt
      · rw [slot_lo q 0 (by omega)]; simpa using hx
      · intro i hi
        rw [hdt]
        congr 1
        unfold slot
        rw [hhd, hcp]
        rcases count_cases q with ⟨a, b⟩ | ⟨a, b⟩ <;> (repeat' split) <;> omega

/-! ### resize -/

theorem maybeResize_spec (maxCap : Nat) (q : RingQ α) (h : q.WF) (q' : RingQ α) (hr : q.maybeResize maxCap = some q') :
    q'.toList = q.toList ∧ q'.WF ∧ q'.count + 1 < q'.cap ∧ q'.count = q.count := by
  unfold maybeResize at hr
  by_cases hfull : q.count + 1 ≥ q.cap
  · rw [if_pos hfull] at hr
    by_cases hmax : q.count + 1 ≥ maxCap
    · rw [if_pos hmax] at hr; cases hr
    · rw [if_neg hmax] at hr
      generalize hnc : (if (q.count + 2) * 2 > maxCap then maxCap else (q.count + 2) * 2) = newcap at hr
      have hnc1 : q.count + 1 < newcap := by rw [← hnc]; split <;> omega
      have hnc2 : q.cap ≤ newcap := by omega
      by_cases hwrap : q.head > q.tail
      · simp only [hwrap, ↓reduceIte, Option.some.injEq] at hr
        have hhd : q'.head = q.head + (newcap - q.cap) := by rw [← hr]
        have htl : q'.tail = q.tail := by rw [← hr]
        have hcp : q'.cap = newcap := by rw [← hr]
        have hdt : ∀ j, q'.data j = if q.head + (newcap - q.cap) ≤ j ∧ j < q.head + (newcap - q.cap) + (q.cap - q.head)
            then q.data (j - (newcap - q.cap)) else q.data j := by intro j; rw [← hr]
        have hcq : q.count = q.tail + q.cap - q.head := by rcases count_cases q with ⟨a, b⟩ | ⟨a, b⟩ <;> omega
        rcases count_lt q h with ⟨h1, _⟩ | ⟨h1, h2, h3⟩
        · rcases h with ⟨_, a, b⟩ | ⟨a, _⟩ <;> omega
        · have hwf' : q'.WF := by right; rw [hhd, htl, hcp]; omega
          have hcnt : q'.count = q.count := by
            rcases count_cases q' with ⟨a', b'⟩ | ⟨a', b'⟩ <;> (simp only [hhd, htl, hcp] at a' b'; omega)
          refine ⟨?_, hwf', by rw [hcnt, hcp]; exact hnc1, hcnt⟩
          apply toList_ext q q' h hwf' hcnt
          intro i hi
          rw [hdt]
          by_cases hA : q.head + i < q.cap
          · rw [slot_lo q i hA, slot_lo q' i (by rw [hhd, hcp]; omega), hhd, if_pos ⟨by omega, by omega⟩]
            congr 1; omega
          · rw [slot_hi q i hA, slot_hi q' i (by rw [hhd, hcp]; omega), hhd, hcp, if_neg (by omega)]
            congr 1; omega
      · simp only [hwrap, ↓reduceIte, Option.some.injEq] at hr
        have hhd : q'.head = q.head := by rw [← hr]
        have htl : q'.tail = q.tail := by rw [← hr]
        have hcp : q'.cap = newcap := by rw [← hr]
        have hdt : q'.data = q.data := by rw [← hr]
        have hcq : q.count = q.tail - q.head := by rcases count_cases q with ⟨a, b⟩ | ⟨a, b⟩ <;> omega
        have hwf' : q'.WF := by
          right; rw [hhd, htl, hcp]
          rcases h with ⟨a, b, c⟩ | ⟨a, b⟩ <;> omega
        have hcnt : q'.count = q.count := by
          rcases count_cases q' with ⟨a', b'⟩ | ⟨a', b'⟩ <;> (simp only [hhd, htl] at a' b'; omega)
        refine ⟨?_, hwf', by rw [hcnt, hcp]; exact hnc1, hcnt⟩
        apply toList_ext q q' h hwf' hcnt
        intro i hi
        rw [hdt]
        have hlo : q.head + i < q.cap := by rcases h with ⟨a, b, c⟩ | ⟨a, b⟩ <;> omega
        have hlo' : q'.head + i < q'.cap := by rw [hhd, hcp]; omega
        rw [slot_lo q i hlo, slot_lo q' i hlo', hhd]
  · rw [if_neg hfull] at hr
    simp only [Option.some.injEq] at hr
    rw [← hr]
    exact ⟨rfl, h, by omega, rfl⟩

/-! ### push, push_head -/

theorem push_spec (maxCap : Nat) (q : RingQ α) (h : q.WF) (x : α) (q' : RingQ α) (hp : q.push maxCap x = some q') :
    q'.toList = q.toList ++ [x] ∧ q'.WF := by
  unfold push at hp
  cases hr : q.maybeResize maxCap with
  | none => rw [hr] at hp; cases hp
  | some q1 =>
    rw [hr] at hp
    simp only [Option.some.injEq] at hp
    obtain ⟨hl, hwf1, hroom, _⟩ := maybeResize_spec maxCap q h q1 hr
    rw [← hl]
    have hhd : q'.head = q1.head := by rw [← hp]
    have htl : q'.tail = if q1.tail + 1 < q1.cap then q1.tail + 1 else 0 := by rw [← hp]
    have hcp : q'.cap = q1.cap := by rw [← hp]
    have hdt : ∀ j, q'.data j = if j = q1.tail then x else q1.data j := by intro j; rw [← hp]
    rcases count_lt q1 hwf1 with ⟨h1, _⟩ | ⟨h1, h2, h3⟩
    · omega
    · have hwf' : q'.WF := by right; rw [hhd, htl, hcp]; constructor <;> (try split) <;> omega
      have hcnt : q'.count = q1.count + 1 := by
        rcases count_cases q1 with ⟨a, b⟩ | ⟨a, b⟩ <;> rcases count_cases q' with ⟨a', b'⟩ | ⟨a', b'⟩ <;>
          (simp only [hhd, htl, hcp] at a' b'; (repeat' split at a') <;> (repeat' split at b') <;> omega)
      refine ⟨?_, hwf'⟩
      have hsl : ∀ i, q'.slot i = q1.slot i := by intro i; unfold slot; rw [hhd, hcp]
      apply toList_snoc q1 q' x hwf1 hwf' hcnt
      · rw [hdt, hsl]
        have : q1.slot q1.count = q1.tail := by
          unfold slot; rcases count_cases q1 with ⟨a, b⟩ | ⟨a, b⟩ <;> (repeat' split) <;> omega
        rw [if_pos this]
      · intro i hi
        rw [hdt, hsl]
        have : q1.slot i ≠ q1.tail := by
          unfold slot; rcases count_cases q1 with ⟨a, b⟩ | ⟨a, b⟩ <;> (repeat' split) <;> omega
        rw [if_neg this]

theorem pushHead_spec (maxCap : Nat) (q : RingQ α) (h : q.WF) (x : α) (q' : RingQ α)
    (hp : q.pushHead maxCap x = some q') : q'.toList = x :: q.toList ∧ q'.WF := by
  unfold pushHead at hp
  cases hr : q.maybeResize maxCap with
  | none => rw [hr] at hp; cases hp
  | some q1 =>
    rw [hr] at hp
    simp only [Option.some.injEq] at hp
    obtain ⟨hl, hwf1, hroom, _⟩ := maybeResize_spec maxCap q h q1 hr
    rw [← hl]
    have hhd : q'.head = if q1.head = 0 then q1.cap - 1 else q1.head - 1 := by rw [← hp]
    have htl : q'.tail = q1.tail := by rw [← hp]
    have hcp : q'.cap = q1.cap := by rw [← hp]
    have hdt : ∀ j, q'.data j = if j = (if q1.head = 0 then q1.cap - 1 else q1.head - 1) then x else q1.data j := by
      intro j; rw [← hp]
    rcases count_lt q1 hwf1 with ⟨h1, _⟩ | ⟨h1, h2, h3⟩
    · omega
    · have hwf' : q'.WF := by right; rw [hhd, htl, hcp]; constructor <;> (try split) <;> omega
      have hcnt : q'.count = q1.count + 1 := by
        rcases count_cases q1 with ⟨a, b⟩ | ⟨a, b⟩ <;> rcases count_cases q' with ⟨a', b'⟩ | ⟨a', b'⟩ <;>
          (simp only [hhd, htl, hcp] at a' b'; (repeat' split at a') <;> (repeat' split at b') <;> omega)
      refine ⟨?_, hwf'⟩
      apply toList_cons q1 q' x hwf1 hwf' hcnt
      · rw [hdt]
        have : q'.slot 0 = (if q1.head = 0 then q1.cap - 1 else q1.head - 1) := by
          unfold slot; rw [hhd, hcp]; (repeat' split) <;> omega
        rw [if_pos this]
      · intro i hi
        rw [hdt]
        have hs : q'.slot (i + 1) = q1.slot i := by
          unfold slot; rw [hhd, hcp]; (repeat' split) <;> omega
        have hne : q1.slot i ≠ (if q1.head = 0 then q1.cap - 1 else q1.head - 1) := by
          unfold slot; rcases count_cases q1 with ⟨a, b⟩ | ⟨a, b⟩ <;> (repeat' split) <;> omega
        rw [hs, if_neg hne]

/-! ### the index walk `for (i = head; i != tail; i = i + 1 < capacity ? i + 1 : 0)` -/

/-- the loop used by janet_channel_has_reader, janet_chanat_mark_fq, janet_ev_mark (fuel = capacity) -/
def walkFrom (q : RingQ α) (i : Nat) : Nat → List α
  | 0 => []
  | fuel + 1 => if i = q.tail then [] else q.data i :: walkFrom q (if i + 1 < q.cap then i + 1 else 0) fuel

def walk (q : RingQ α) : List α := walkFrom q q.head q.cap

theorem walkFrom_eq (q : RingQ α) (h1 : q.head < q.cap) (h2 : q.tail < q.cap) :
    ∀ (fuel k : Nat), k ≤ q.count → q.count - k ≤ fuel →
      walkFrom q (q.slot k) fuel = ((List.range (q.count - k)).map (fun i => q.data (q.slot (k + i)))) := by
  intro fuel
  induction fuel with
  | zero =>
    intro k hk hf
    have : q.count - k = 0 := by omega
    rw [this]; rfl
  | succ n ih =>
    intro k hk hf
    unfold walkFrom
    by_cases hend : k = q.count
    · have e1 : q.slot k = q.tail := by
        rw [hend]; unfold slot; rcases count_cases q with ⟨a, b⟩ | ⟨a, b⟩ <;> (repeat' split) <;> omega
      rw [if_pos e1, hend]; simp
    · have hlt : k < q.count := by omega
      have e1 : q.slot k ≠ q.tail := by
        unfold slot; rcases count_cases q with ⟨a, b⟩ | ⟨a, b⟩ <;> (repeat' split) <;> omega
      have e2 : (if q.slot k + 1 < q.cap then q.slot k + 1 else 0) = q.slot (k + 1) := by
        unfold slot; rcases count_cases q with ⟨a, b⟩ | ⟨a, b⟩ <;> (repeat' split) <;> omega
      rw [if_neg e1, e2, ih (k + 1) (by omega) (by omega)]
      have : q.count - k = (q.count - (k + 1)) + 1 := by omega
      rw [this, List.range_succ_eq_map, List.map_cons, List.map_map]
      congr 1
      apply List.map_congr_left
      intro i _
      simp only [Function.comp]
      congr 2
      omega

theorem walk_eq_toList (q : RingQ α) (h : q.WF) : q.walk = q.toList := by
  rw [toList_eq q h]
  unfold walk
  rcases count_lt q h with ⟨h0, hc0⟩ | ⟨h1, h2, h3⟩
  · rw [h0, hc0]; rfl
  · have hs0 : q.slot 0 = q.head := slot_lo q 0 (by omega)
    have := walkFrom_eq q h1 h2 q.cap 0 (Nat.zero_le _) (by omega)
    rw [hs0] at this
    rw [this]
    simp

end RingQ
end JanetModel.Ev
