/- Executable model of the single-threaded part of janet's event loop (src/core/ev.c): fibers, channels, run queue,
   zero-delay timers.  CORE LEAN ONLY (linked into the driver).

   Layout (kept so that C07 / C20 can extend it: timers with deadlines, stream listeners, threaded calls):
     * `Cfg`      what the translator (tools/gen/ev.py) reads off the CURRENT source: comparison operators of the
                  capacity tests and whether three sched_id / waiting-reader checks are present;
     * `World`    one structure, one field per piece of `janet_vm` / heap state, ghost history in `World.ghost`;
     * one Lean function per C function: `scheduleGeneral`, `chanPush` (janet_channel_push_with_lock), `chanPop`
       (janet_channel_pop_with_lock), `choiceImmediate` / `choiceRegister` (the two loops of cfun_channel_choice),
       `chanClose` (cfun_channel_close), `loopRunTask` (one iteration of the run phase of janet_loop1, with the
       stale-task filter), `loopTimers` (timer phase), `awaitFiber` (janet_await + the bookkeeping loop1 does for a
       suspended fiber);
     * `Action` / `step`: every atomic transition, labelled; theorems quantify over arbitrary `List Action`;
       the driver's scheduler (`Ev/Exec.lean`) only ever calls `step`.
   The ring buffers `janet_q_*` are modelled separately in `Ev/Queue.lean` and shown to refine the lists used here. -/
namespace JanetModel.Ev

/-- Facts extracted from the current ev.c (see `JanetModel.Gen.Ev.cfg`). -/
structure Cfg where
  /-- `janet_q_count(&channel->items) > channel->limit` in push_with_lock (false: `>=`) -/
  pushBlocksStrict : Bool
  /-- `janet_q_count(&chan->items) < chan->limit` in the first loop of cfun_channel_choice (false: `<=`) -/
  choiceReadyStrict : Bool
  /-- first loop of cfun_channel_choice treats a live pending reader as "give is immediately ready" -/
  choiceGiveSeesReader : Bool
  /-- pop_with_lock skips pending writers whose sched_id is stale (as push_with_lock does for readers) -/
  popSkipsStaleWriter : Bool
  /-- cfun_channel_close wakes a local waiter only if its sched_id is current -/
  closeChecksSched : Bool
  /-- the run phase of janet_loop1 does `task.fiber->sched_id++` after the stale-task filter: a fiber's generation
      advances when it is scheduled AND when its task is resumed -/
  resumeBumps : Bool
  /-- the run phase of janet_loop1 does not push the supervisor event of a finished fiber into a CLOSED supervisor
      channel (false: it calls janet_channel_push, which panics outside any fiber - the thread ends) -/
  supervisorSkipsClosed : Bool := true
  deriving Repr, DecidableEq

/-- every check present, operators as in the reference source -/
def Cfg.good : Cfg := ⟨true, true, true, true, true, true, true⟩
/-- the pinned tree before any fix -/
def Cfg.pinned : Cfg := ⟨true, true, false, false, false, false, false⟩

/-- Janet values that occur as results of channel operations (items are natural numbers = their ghost ids). -/
inductive Val where
  | nil
  | num (n : Nat)
  | chan (c : Nat)
  | give (c : Nat)            -- [:give ch]
  | take (c : Nat) (x : Nat)  -- [:take ch x]
  | close (c : Nat)           -- [:close ch]
  | errClosed                 -- error "cannot write to closed channel"
  | errCancel                 -- the value given to ev/cancel
  | errDeadline               -- "deadline expired"
  | errTimeout                -- "timeout"
  deriving Repr, DecidableEq

/-- JANET_CP_MODE_* (MODE_CLOSE only travels in thread messages, not modelled here) -/
inductive Mode where
  | read | write | choiceRead | choiceWrite
  deriving Repr, DecidableEq

/-- JanetChannelPending (thread omitted: single-threaded) -/
structure Pending where
  fiber : Nat
  sched : Nat
  mode : Mode
  deriving Repr, DecidableEq

/-- struct JanetChannel; the three JanetQueues as lists (head first) -/
structure Chan where
  items : List Nat := []
  readPending : List Pending := []
  writePending : List Pending := []
  limit : Nat := 0
  closed : Bool := false
  deriving Repr, DecidableEq

inductive Sig where
  | ok | error
  deriving Repr, DecidableEq

/-- JanetTask -/
structure Task where
  fiber : Nat
  value : Val
  sig : Sig
  expected : Nat
  deriving Repr, DecidableEq

/-- janet_fiber_status, as far as the event loop distinguishes -/
inductive FStatus where
  | new | pending | alive | dead | error
  deriving Repr, DecidableEq

/-- the event-loop part of JanetFiber -/
structure Fiber where
  sched : Nat := 0
  status : FStatus := .new
  root : Bool := false        -- JANET_FIBER_FLAG_ROOT
  canceled : Bool := false    -- JANET_FIBER_EV_FLAG_CANCELED
  suspended : Bool := false   -- JANET_FIBER_EV_FLAG_SUSPENDED
  deriving Repr, DecidableEq

/-- JanetTimeout.  `curr = none`: a timeout of the fiber's current wait (ev/sleep: resumes with nil when `sched` is
    still current; `isError`: raises "timeout").  `curr = some s`: a deadline (ev/deadline with `tocheck` = coroutine
    `s`): when it expires and `s` is still resumable the task `fiber` is cancelled. -/
structure Timer where
  fiber : Nat
  sched : Nat
  when : Nat := 0
  isError : Bool := false
  curr : Option Nat := none
  deriving Repr, DecidableEq

/-- History variables (not in the C): used only to state the theorems. -/
structure Ghost where
  /-- (channel, item) for every value accepted by push_with_lock, in call order -/
  pushed : List (Nat × Nat) := []
  /-- (channel, item) for every item a channel handed out (to a pending reader, to a take, to a select) -/
  handed : List (Nat × Nat) := []
  /-- (fiber, item) every item that reached a fiber's code as the result of an operation -/
  received : List (Nat × Nat) := []
  /-- tasks discarded by the stale-task filter -/
  dropped : List Task := []
  deriving Repr

structure World where
  fibers : Nat → Fiber
  chans : Nat → Chan
  /-- janet_vm.spawn, head first -/
  runq : List Task := []
  /-- janet_vm.tq -/
  timers : List Timer := []
  /-- janet_vm.listener_count -/
  listeners : Nat := 0
  /-- janet_vm.root_fiber while a task is running -/
  current : Option Nat := none
  /-- the clock: value returned by the last `ts_now()`; every read advances it by `clockStep` (harness: virtual clock) -/
  clock : Nat := 0
  clockStep : Nat := 1
  /-- `janet_fiber_can_resume` of the body coroutines of `ev/with-deadline` (by scope id) -/
  scopes : Nat → Bool := fun _ => false
  ghost : Ghost := {}

def World.init (limits : Nat → Nat) : World :=
  { fibers := fun _ => {}, chans := fun c => { limit := limits c } }

def setFiber (w : World) (f : Nat) (x : Fiber) : World :=
  { w with fibers := fun i => if i = f then x else w.fibers i }

def setChan (w : World) (c : Nat) (x : Chan) : World :=
  { w with chans := fun i => if i = c then x else w.chans i }

/-! ### janet_schedule_general -/

def scheduleGeneral (w : World) (f : Nat) (v : Val) (sig : Sig) (soon : Bool) : World :=
  let fb := w.fibers f
  if fb.canceled then w else
  let t : Task := ⟨f, v, sig, fb.sched + 1⟩
  let fb' : Fiber := { fb with sched := fb.sched + 1, root := true,
                               canceled := (match sig with | .error => true | .ok => fb.canceled) }
  let w := setFiber w f fb'
  { w with runq := if soon then t :: w.runq else w.runq ++ [t] }

/-- janet_schedule -/
def schedule (w : World) (f : Nat) (v : Val) : World := scheduleGeneral w f v .ok false

/-- janet_cancel -/
def cancelFiber (w : World) (f : Nat) (v : Val) : World := scheduleGeneral w f v .error false

/-- janet_schedule_soon -/
def scheduleSoon (w : World) (f : Nat) (v : Val) (sig : Sig) : World := scheduleGeneral w f v sig true

/-- is this registration still the fiber's current one? -/
def Pending.live (fibers : Nat → Fiber) (p : Pending) : Bool := p.sched == (fibers p.fiber).sched

/-! ### janet_channel_push_with_lock -/

/-- `do { is_empty = janet_q_pop(&read_pending, &reader) } while (!is_empty && reader.sched_id != reader.fiber->sched_id)` -/
def popLiveReader (fibers : Nat → Fiber) : List Pending → Option Pending × List Pending
  | [] => (none, [])
  | p :: rest => if p.live fibers then (some p, rest) else popLiveReader fibers rest

def pushBlocks (cfg : Cfg) (count limit : Nat) : Bool :=
  if cfg.pushBlocksStrict then decide (count > limit) else decide (count ≥ limit)

inductive PushRes where
  | closedErr                          -- janet_panic("cannot write to closed channel")
  | ok (w : World) (blocked : Bool)    -- return value 1 = should block

def addPushed (w : World) (c x : Nat) : World := { w with ghost := { w.ghost with pushed := w.ghost.pushed ++ [(c, x)] } }
def addHanded (w : World) (c x : Nat) : World := { w with ghost := { w.ghost with handed := w.ghost.handed ++ [(c, x)] } }

/-- `f` = janet_vm.root_fiber; `mode` 0 = ev/give, 1 = select clause, 2 = from C without a root fiber -/
def chanPush (cfg : Cfg) (w : World) (f c x : Nat) (mode : Nat) : PushRes :=
  let ch := w.chans c
  if ch.closed then .closedErr else
  let w := addPushed w c x
  match popLiveReader w.fibers ch.readPending with
  | (none, rp) =>
    let ch' : Chan := { ch with readPending := rp, items := ch.items ++ [x] }
    if pushBlocks cfg ch'.items.length ch.limit then
      if mode = 2 then .ok (setChan w c ch') true
      else
        let pending : Pending := ⟨f, (w.fibers f).sched, if mode = 0 then .write else .choiceWrite⟩
        .ok (setChan w c { ch' with writePending := ch'.writePending ++ [pending] }) true
    else .ok (setChan w c ch') false
  | (some r, rp) =>
    let w := setChan w c { ch with readPending := rp }
    let w := addHanded w c x
    .ok (schedule w r.fiber (if r.mode = .choiceRead then .take c x else .num x)) false

/-! ### janet_channel_pop_with_lock -/

/-- `janet_q_pop(&write_pending, &writer)`; with the sched_id check when the source has it -/
def popWriter (skipStale : Bool) (fibers : Nat → Fiber) : List Pending → Option Pending × List Pending
  | [] => (none, [])
  | p :: rest => if skipStale && !p.live fibers then popWriter skipStale fibers rest else (some p, rest)

inductive PopRes where
  | got (w : World) (x : Option Nat)   -- return 1; `none` = nil from a closed channel
  | blocked (w : World)                -- return 0

def chanPop (cfg : Cfg) (w : World) (f c : Nat) (isChoice : Nat) : PopRes :=
  let ch := w.chans c
  if ch.closed then .got w none else
  match ch.items with
  | [] =>
    if isChoice = 2 then .blocked w
    else
      let pending : Pending := ⟨f, (w.fibers f).sched, if isChoice = 0 then .read else .choiceRead⟩
      .blocked (setChan w c { ch with readPending := ch.readPending ++ [pending] })
  | x :: rest =>
    let w := addHanded w c x
    match popWriter cfg.popSkipsStaleWriter w.fibers ch.writePending with
    | (none, wp) => .got (setChan w c { ch with items := rest, writePending := wp }) (some x)
    | (some wr, wp) =>
      let w := setChan w c { ch with items := rest, writePending := wp }
      .got (schedule w wr.fiber (if wr.mode = .choiceWrite then .give c else .chan c)) (some x)

/-! ### cfun_channel_choice -/

inductive Clause where
  | take (c : Nat)
  | give (c x : Nat)
  deriving Repr, DecidableEq

def Clause.chan : Clause → Nat
  | .take c => c
  | .give c _ => c

def choiceReady (cfg : Cfg) (count limit : Nat) : Bool :=
  if cfg.choiceReadyStrict then decide (count < limit) else decide (count ≤ limit)

def hasLiveReader (fibers : Nat → Fiber) (rp : List Pending) : Bool := rp.any (fun p => p.live fibers)

/-- first loop: "Check channels for immediate reads and writes" -/
def choiceImmediate (cfg : Cfg) (w : World) (f : Nat) : List Clause → Option (World × Val)
  | [] => none
  | .give c x :: rest =>
    let ch := w.chans c
    if ch.closed then some (w, .close c)
    else if choiceReady cfg ch.items.length ch.limit
            || (cfg.choiceGiveSeesReader && hasLiveReader w.fibers ch.readPending) then
      match chanPush cfg w f c x 1 with
      | .ok w' _ => some (w', .give c)
      | .closedErr => some (w, .close c)
    else choiceImmediate cfg w f rest
  | .take c :: rest =>
    let ch := w.chans c
    if ch.closed then some (w, .close c)
    else if ch.items ≠ [] then
      match chanPop cfg w f c 1 with
      | .got w' (some x) => some ({ w' with ghost := { w'.ghost with received := w'.ghost.received ++ [(f, x)] } }, .take c x)
      | .got w' none => some (w', .close c)
      | .blocked w' => some (w', .nil)
    else choiceImmediate cfg w f rest

/-- second loop: "Wait for all readers or writers" (results of push / pop are ignored by the C) -/
def choiceRegister (cfg : Cfg) (w : World) (f : Nat) : List Clause → World
  | [] => w
  | .give c x :: rest =>
    match chanPush cfg w f c x 1 with
    | .ok w' _ => choiceRegister cfg w' f rest
    | .closedErr => choiceRegister cfg w f rest
  | .take c :: rest =>
    match chanPop cfg w f c 1 with
    | .got w' _ => choiceRegister cfg w' f rest
    | .blocked w' => choiceRegister cfg w' f rest

/-! ### ev/count, ev/full, ev/capacity -/

/-- cfun_channel_count: `janet_q_count(&channel->items)` -/
def chanCount (w : World) (c : Nat) : Nat := (w.chans c).items.length
/-- cfun_channel_full: `janet_q_count(&channel->items) >= channel->limit` -/
def chanFull (w : World) (c : Nat) : Bool := decide ((w.chans c).items.length ≥ (w.chans c).limit)
/-- cfun_channel_capacity: `channel->limit` -/
def chanCapacity (w : World) (c : Nat) : Nat := (w.chans c).limit

/-! ### cfun_channel_close -/

def fiberCanResume (fb : Fiber) : Bool :=
  match fb.status with
  | .dead | .error => false
  | _ => true

def closeWake (cfg : Cfg) (c : Nat) (isWriter : Bool) (w : World) (p : Pending) : World :=
  if (!cfg.closeChecksSched || p.live w.fibers) && fiberCanResume (w.fibers p.fiber) then
    let choice := if isWriter then p.mode = .choiceWrite else p.mode = .choiceRead
    schedule w p.fiber (if choice then .close c else .nil)
  else w

def chanClose (cfg : Cfg) (w : World) (c : Nat) : World :=
  let ch := w.chans c
  if ch.closed then w else
  let w := setChan w c { ch with closed := true, readPending := [], writePending := [] }
  let w := ch.writePending.foldl (closeWake cfg c true) w
  ch.readPending.foldl (closeWake cfg c false) w

/-! ### janet_await and the event loop -/

/-- janet_await() + what janet_loop1 does when the continued fiber comes back with JANET_SIGNAL_EVENT -/
def awaitFiber (w : World) (f : Nat) : World :=
  let w := setFiber w f { w.fibers f with status := .pending, suspended := true }
  { w with listeners := w.listeners + 1, current := none }

def finishFiber (w : World) (f : Nat) (err : Bool) : World :=
  let w := setFiber w f { w.fibers f with status := if err then .error else .dead }
  { w with current := none }

inductive Outcome where
  | ret (v : Val)               -- the C function returned `v`; the fiber keeps running
  | await                       -- the fiber is suspended
  | err (v : Val)               -- the C function raised; the fiber is finished with an error
  | resumed (f : Nat) (v : Val) -- the loop continued fiber `f` with value `v`
  | resumedErr (f : Nat) (v : Val) -- the loop continued fiber `f` raising `v` in it (cancellation)
  | resumedDead (f : Nat)       -- the loop tried to continue a finished fiber
  | skipped                     -- stale task dropped
  | done                        -- fiber finished / loop bookkeeping
  | noop                        -- action not enabled in this state
  deriving Repr, DecidableEq

def receivedOf (f : Nat) : Val → List (Nat × Nat)
  | .num x => [(f, x)]
  | .take _ x => [(f, x)]
  | _ => []

/-- one iteration of the run phase of janet_loop1 -/
def loopRunTask (cfg : Cfg) (w : World) : World × Outcome :=
  match w.runq with
  | [] => (w, .noop)
  | t :: rest =>
    let fb := w.fibers t.fiber
    let w := { w with runq := rest, listeners := if fb.suspended then w.listeners - 1 else w.listeners }
    let fb' : Fiber := { fb with canceled := false, suspended := false }
    let w := setFiber w t.fiber fb'
    if t.expected ≠ fb.sched then
      ({ w with ghost := { w.ghost with dropped := w.ghost.dropped ++ [t] } }, .skipped)
    else
      -- `task.fiber->sched_id++` (when the source has it): before janet_continue_signal, whatever the fiber's status
      let fb' : Fiber := { fb' with sched := if cfg.resumeBumps then fb.sched + 1 else fb.sched }
      let w := setFiber w t.fiber fb'
      if !fiberCanResume fb then (w, .resumedDead t.fiber)
      else
        let w := setFiber w t.fiber { fb' with status := .alive }
        match t.sig with
        | .ok =>
          ({ w with current := some t.fiber,
                    ghost := { w.ghost with received := w.ghost.received ++ receivedOf t.fiber t.value } },
           .resumed t.fiber t.value)
        | .error => ({ w with current := some t.fiber }, .resumedErr t.fiber t.value)

/-- add_timeout: the timer heap as a list ordered by deadline (the harness keeps deadlines distinct, so the heap's
    pop order is the order of this list) -/
def insertTimer (t : Timer) : List Timer → List Timer
  | [] => [t]
  | u :: rest => if t.when < u.when then t :: u :: rest else u :: insertTimer t rest

/-- what the timer phase does with one expired timer -/
def fireTimer (w : World) (t : Timer) : World :=
  match t.curr with
  | some s => if w.scopes s then cancelFiber w t.fiber .errDeadline else w
  | none =>
    if (w.fibers t.fiber).sched = t.sched then
      (if t.isError then cancelFiber w t.fiber .errTimeout else schedule w t.fiber .nil)
    else w

/-- timer phase of janet_loop1: `now = ts_now(); while (peek_timeout(&to) && to.when <= now) { pop_timeout(0); ... }` -/
def loopTimers (w : World) : World :=
  let now := w.clock + w.clockStep
  let due := w.timers.takeWhile (fun t => t.when ≤ now)
  let rest := w.timers.dropWhile (fun t => t.when ≤ now)
  due.foldl fireTimer { w with clock := now, timers := rest }

/-- poll phase of janet_loop1, "Drop timeouts that are no longer needed": leading timers whose fiber has been
    rescheduled since are popped before the loop decides whether / how long to poll -/
def timerStale (w : World) (t : Timer) : Bool :=
  match t.curr with
  | some s => !w.scopes s
  | none => (w.fibers t.fiber).sched != t.sched

def loopPollDrop (w : World) : World :=
  { w with timers := w.timers.dropWhile (timerStale w) }

def loopDone (w : World) : Bool := w.runq.isEmpty && w.timers.isEmpty && w.listeners == 0

/-- run phase of janet_loop1 after janet_continue_signal returned with a signal the supervisor wants:
    `janet_channel_push(chan, make_supervisor_event(...), 2)` - mode 2: no root fiber, never blocks, never registers.
    A closed supervisor channel is skipped (source with the guard; without it janet_panic ends the thread - the
    scheduler `Ev/Exec.lean` stops the run there). -/
def supPush (cfg : Cfg) (w : World) (c x : Nat) : World × Outcome :=
  match chanPush cfg w 0 c x 2 with
  | .ok w' _ => (w', .done)
  | .closedErr => (w, .done)

/-! ### labelled transitions -/

inductive Action where
  | go (f : Nat)                -- ev/go on a new fiber
  | give (c x : Nat)            -- ev/give
  | take (c : Nat)              -- ev/take
  | select (cls : List Clause)  -- ev/select (ev/rselect = ev/select after the shuffle)
  | close (c : Nat)             -- ev/chan-close
  | sleep (ms : Nat)            -- (ev/sleep ms/1000)
  | cancel (g : Nat)            -- (ev/cancel g "cancelled"), g another fiber
  | deadline (s ms : Nat)       -- (ev/deadline ms/1000 nil s): start of an ev/with-deadline body, s = its coroutine
  | scopeEnd (s : Nat)          -- the body coroutine s has finished (returned or raised)
  | finish (err : Bool)         -- the running fiber returns / raises
  | runTask                     -- loop: run phase, one task
  | timers                      -- loop: timer phase
  | poll                        -- loop: poll phase (drops stale timers)
  | supEvent (c x : Nat)        -- loop: run phase, after a supervised fiber finished: push its event `x` to channel `c`
  deriving Repr, DecidableEq

def step (cfg : Cfg) (w : World) (a : Action) : World × Outcome :=
  match w.current, a with
  | none, .runTask => loopRunTask cfg w
  | none, .timers => (loopTimers w, .done)
  | none, .poll => (loopPollDrop w, .done)
  | none, .supEvent c x => supPush cfg w c x
  | some _, .go g =>
    -- ev/go on a fiber that has never been scheduled
    if (w.fibers g).status = .new ∧ (w.fibers g).sched = 0 then (schedule w g .nil, .ret .nil) else (w, .noop)
  | some f, .cancel g => if g = f then (w, .noop) else (cancelFiber w g .errCancel, .ret .nil)
  | some f, .deadline s ms =>
    let now := w.clock + w.clockStep
    ({ w with clock := now, scopes := fun i => if i = s then true else w.scopes i,
              timers := insertTimer ⟨f, (w.fibers f).sched, now + ms, false, some s⟩ w.timers }, .ret .nil)
  | _, .scopeEnd s => ({ w with scopes := fun i => if i = s then false else w.scopes i }, .done)
  | some f, .give c x =>
    match chanPush cfg w f c x 0 with
    | .closedErr => (finishFiber w f true, .err .errClosed)
    | .ok w' true => (awaitFiber w' f, .await)
    | .ok w' false => (w', .ret (.chan c))
  | some f, .take c =>
    match chanPop cfg w f c 0 with
    | .got w' (some x) => (awaitFiber (schedule w' f (.num x)) f, .await)
    | .got w' none => (awaitFiber (schedule w' f .nil) f, .await)
    | .blocked w' => (awaitFiber w' f, .await)
  | some _, .select [] => (w, .noop)   -- janet_arity(argc, 1, -1): an error before anything happens; not modelled
  | some f, .select cls =>
    match choiceImmediate cfg w f cls with
    | some (w', v) => (w', .ret v)
    | none => (awaitFiber (choiceRegister cfg w f cls) f, .await)
  | some _, .close c => (chanClose cfg w c, .ret (.chan c))
  | some f, .sleep ms =>
    let now := w.clock + w.clockStep
    (awaitFiber { w with clock := now, timers := insertTimer ⟨f, (w.fibers f).sched, now + ms, false, none⟩ w.timers } f,
     .await)
  | some f, .finish e => (finishFiber w f e, .done)
  | _, _ => (w, .noop)

/-- hypothesis of the wake-up theorems: a select names every channel at most once (a select with a give and a take
    clause on one channel can be matched with itself in the registration loop; see `Props/C06.lean`) -/
def Action.noSelfMatch : Action → Prop
  | .select cls => (cls.map Clause.chan).Nodup
  | _ => True

/-- run a list of actions -/
def run (cfg : Cfg) (w : World) (as : List Action) : World := as.foldl (fun w a => (step cfg w a).1) w

/-- `f` is suspended and nothing can ever resume it: no task, timer or channel registration carries its current
    sched_id (channels `0..nch-1`). -/
def lostWakeup (w : World) (f nch : Nat) : Bool :=
  (w.fibers f).status == .pending
  && w.runq.all (fun t => !(t.fiber == f && t.expected == (w.fibers f).sched))
  && w.timers.all (fun t => !(t.curr.isNone && t.fiber == f && t.sched == (w.fibers f).sched))
  && (List.range nch).all (fun c =>
        ((w.chans c).readPending ++ (w.chans c).writePending).all (fun p => !(p.fiber == f && p.live w.fibers)))

/-- the harness's start state: channels with the given capacities, main fiber 0 scheduled from outside the loop -/
def World.start (limits : Nat → Nat) : World := schedule (World.init limits) 0 .nil

end JanetModel.Ev
