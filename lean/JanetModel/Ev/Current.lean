/- The model instantiated with what the translator read off the CURRENT ev.c. -/
import JanetModel.Ev.Model
import JanetModel.Gen.Ev
namespace JanetModel.Ev

/-- configuration of the current source tree -/
abbrev currentCfg : Cfg :=
  ⟨Gen.Ev.pushBlocksStrict, Gen.Ev.choiceReadyStrict, Gen.Ev.choiceGiveSeesReader,
   Gen.Ev.popSkipsStaleWriter, Gen.Ev.closeChecksSched, Gen.Ev.resumeBumps, Gen.Ev.supervisorSkipsClosed⟩

/-- JANET_MAX_Q_CAPACITY -/
abbrev maxQCapacity : Nat := Gen.Ev.maxQCapacity

end JanetModel.Ev
