/- The model instantiated with what the translator read off the CURRENT ev.c. -/
import JanetModel.Ev.Model
import JanetModel.Ev.Mark
import JanetModel.Gen.Ev
namespace JanetModel.Ev

/-- configuration of the current source tree -/
abbrev currentCfg : Cfg :=
  ⟨Gen.Ev.pushBlocksStrict, Gen.Ev.choiceReadyStrict, Gen.Ev.choiceGiveSeesReader,
   Gen.Ev.popSkipsStaleWriter, Gen.Ev.closeChecksSched, Gen.Ev.resumeBumps, Gen.Ev.supervisorSkipsClosed⟩

/-- JANET_MAX_Q_CAPACITY -/
abbrev maxQCapacity : Nat := Gen.Ev.maxQCapacity

/-- the walk of janet_chanat_mark over the items ring, as extracted from the current source -/
abbrev currentMarkItems : MarkWalk := MarkWalk.ofCodes Gen.Ev.chanMarkItemsStraight Gen.Ev.chanMarkItemsWrapped
/-- the walk of janet_chanat_mark_fq over a pending queue, as extracted from the current source -/
abbrev currentMarkPending : MarkWalk := MarkWalk.ofCodes Gen.Ev.chanMarkPendingStraight Gen.Ev.chanMarkPendingWrapped

end JanetModel.Ev
