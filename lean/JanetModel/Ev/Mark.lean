/- Model of the walks that the channel's gcmark callback makes over a JanetQueue (ev.c: janet_chanat_mark for the items
   ring, janet_chanat_mark_fq for the two pending queues), as STRUCTURE extracted from the source by tools/gen/ev.py
   (Gen/Ev.lean: `chanMarkItems*`, `chanMarkPending*`), and of a channel's item ring under garbage collection
   (`GcChan`): give = allocate + janet_q_push, take = janet_q_pop, collect = everything that neither the given roots nor
   the channel's mark walk reaches is freed.  CORE LEAN ONLY (linked into the driver). -/
import JanetModel.Ev.Queue
namespace JanetModel.Ev

/-- a bound of a mark loop: the constant 0 or a field of the JanetQueue -/
inductive Bound where
  | zero | head | tail | cap
  deriving Repr, DecidableEq

/-- codes used by the translator: 0 = constant 0, 1 = head, 2 = tail, 3 = capacity -/
def Bound.ofCode : Nat → Bound
  | 1 => .head
  | 2 => .tail
  | 3 => .cap
  | _ => .zero

def Bound.eval {α : Type} (q : RingQ α) : Bound → Nat
  | .zero => 0
  | .head => q.head
  | .tail => q.tail
  | .cap => q.cap

/-- `for (int32_t i = lo; i < hi; i++) janet_mark(<slot i>);` -/
structure MarkLoop where
  lo : Bound
  hi : Bound
  deriving Repr, DecidableEq

/-- the slots one loop visits, in order -/
def MarkLoop.slots {α : Type} (q : RingQ α) (l : MarkLoop) : List Nat :=
  List.range' (l.lo.eval q) (l.hi.eval q - l.lo.eval q)

/-- `if (q->head <= q->tail) { straight } else { wrapped }` -/
structure MarkWalk where
  straight : List MarkLoop
  wrapped : List MarkLoop
  deriving Repr, DecidableEq

def MarkWalk.ofCodes (s w : List (Nat × Nat)) : MarkWalk :=
  ⟨s.map (fun p => ⟨Bound.ofCode p.1, Bound.ofCode p.2⟩), w.map (fun p => ⟨Bound.ofCode p.1, Bound.ofCode p.2⟩)⟩

def slotsOf {α : Type} (q : RingQ α) : List MarkLoop → List Nat
  | [] => []
  | l :: rest => l.slots q ++ slotsOf q rest

/-- the slots the walk visits on queue `q`, in order -/
def MarkWalk.slots {α : Type} (m : MarkWalk) (q : RingQ α) : List Nat :=
  if q.head ≤ q.tail then slotsOf q m.straight else slotsOf q m.wrapped

/-- what is passed to janet_mark -/
def MarkWalk.visit {α : Type} (m : MarkWalk) (q : RingQ α) : List α := (m.slots q).map q.data

/-- the walk of the reference source: `head .. tail`, or `head .. capacity` followed by `0 .. tail` -/
def MarkWalk.janet : MarkWalk := ⟨[⟨.head, .tail⟩], [⟨.head, .cap⟩, ⟨.zero, .tail⟩]⟩

/-! ### a channel's item ring under garbage collection -/

/-- The item ring of one channel holding heap objects (identified by natural numbers), the heap, and ghost history. -/
structure GcChan where
  q : RingQ Nat := RingQ.init 0
  /-- which objects are allocated -/
  live : Nat → Bool := fun _ => false
  /-- ghost: every value given, in order -/
  given : List Nat := []
  /-- ghost: every value handed out, in order, with whether it was still allocated at that moment -/
  taken : List (Nat × Bool) := []

inductive GcOp where
  /-- a fiber allocates object `x` and gives it: `janet_q_push(&chan->items, &x)` -/
  | give (x : Nat)
  /-- `janet_q_pop(&chan->items, &item)` -/
  | take
  /-- janet_collect: an object survives iff it is reachable from `roots` (anything outside the channel: stacks, other
      objects - arbitrary) or passed to janet_mark by the channel's mark walk; everything else is freed -/
  | collect (roots : List Nat)
  deriving Repr, DecidableEq

def GcChan.step (m : MarkWalk) (maxCap : Nat) (s : GcChan) : GcOp → GcChan
  | .give x =>
    match s.q.push maxCap x with
    | some q' => { s with q := q', live := fun y => y == x || s.live y, given := s.given ++ [x] }
    | none => s
  | .take =>
    match s.q.pop with
    | some (x, q') => { s with q := q', taken := s.taken ++ [(x, s.live x)] }
    | none => s
  | .collect roots => { s with live := fun y => s.live y && (roots.contains y || (m.visit s.q).contains y) }

def GcChan.run (m : MarkWalk) (maxCap : Nat) (ops : List GcOp) : GcChan := ops.foldl (GcChan.step m maxCap) {}

end JanetModel.Ev
