/- The mark walk of the reference source visits exactly the content of a well-formed JanetQueue, in queue order; hence a
   collection at any moment frees no queued value, and every value a channel hands out is still allocated and is the
   value that was given (`GcChan.run_inv`). -/
import JanetModel.Ev.Mark
import JanetModel.Ev.QueueLemmas
namespace JanetModel.Ev
open RingQ

theorem janet_slots {α : Type} (q : RingQ α) (h : q.WF) :
    MarkWalk.janet.slots q = (List.range q.count).map q.slot := by
  unfold MarkWalk.slots MarkWalk.janet
  rcases h with ⟨hc, hh, ht⟩ | ⟨hh, ht⟩
  · have : q.count = 0 := by unfold RingQ.count; simp [hh, ht]
    simp [slotsOf, MarkLoop.slots, Bound.eval, hh, ht, this]
  · by_cases hle : q.head ≤ q.tail
    · have hcnt : q.count = q.tail - q.head := by
        unfold RingQ.count; rw [if_neg (by omega)]
      rw [if_pos hle, hcnt]
      simp only [slotsOf, MarkLoop.slots, Bound.eval, List.append_nil]
      rw [List.range'_eq_map_range]
      apply List.map_congr_left
      intro i hi
      have hi' : i < q.tail - q.head := List.mem_range.mp hi
      rw [slot_lo q i (by omega)]
    · have hcnt : q.count = (q.cap - q.head) + q.tail := by
        unfold RingQ.count; rw [if_pos (by omega)]; omega
      rw [if_neg hle, hcnt, List.range_add, List.map_append, List.map_map]
      simp only [slotsOf, MarkLoop.slots, Bound.eval, List.append_nil, Nat.sub_zero]
      congr 1
      · rw [List.range'_eq_map_range]
        apply List.map_congr_left
        intro i hi
        have hi' : i < q.cap - q.head := List.mem_range.mp hi
        rw [slot_lo q i (by omega)]
      · rw [List.range'_eq_map_range]
        apply List.map_congr_left
        intro i hi
        have hi' : i < q.tail := List.mem_range.mp hi
        simp only [Function.comp]
        rw [slot_hi q _ (by omega)]
        omega

/-- **the reference mark walk visits exactly the queue's content, in order** -/
theorem janet_visit {α : Type} (q : RingQ α) (h : q.WF) : MarkWalk.janet.visit q = q.toList := by
  unfold MarkWalk.visit
  rw [janet_slots q h, toList_eq q h, List.map_map]
  rfl

/-! ### no queued value is freed, nothing dangling is handed out -/

structure GcChan.Inv (s : GcChan) : Prop where
  wf : s.q.WF
  queued_live : ∀ x ∈ s.q.toList, s.live x = true
  taken_live : ∀ p ∈ s.taken, p.2 = true
  fifo : s.taken.map Prod.fst ++ s.q.toList = s.given

theorem GcChan.init_inv : GcChan.Inv {} :=
  ⟨Or.inl ⟨rfl, rfl, rfl⟩, by intro x hx; simp [RingQ.toList, RingQ.count, RingQ.init] at hx, by intro p hp; simp at hp,
   by simp [RingQ.toList, RingQ.count, RingQ.init]⟩

theorem GcChan.step_inv (maxCap : Nat) (s : GcChan) (h : s.Inv) (op : GcOp) :
    (GcChan.step MarkWalk.janet maxCap s op).Inv := by
  cases op with
  | give x =>
    cases hp : s.q.push maxCap x with
    | none =>
      have e : GcChan.step MarkWalk.janet maxCap s (.give x) = s := by simp [GcChan.step, hp]
      rw [e]; exact h
    | some q' =>
      have e : GcChan.step MarkWalk.janet maxCap s (.give x)
          = { s with q := q', live := fun y => y == x || s.live y, given := s.given ++ [x] } := by simp [GcChan.step, hp]
      rw [e]
      obtain ⟨hl, hw⟩ := RingQ.push_spec maxCap s.q h.wf x q' hp
      refine ⟨hw, ?_, h.taken_live, ?_⟩
      · intro y hy
        have hy' : y ∈ s.q.toList ++ [x] := by rw [← hl]; exact hy
        rcases List.mem_append.mp hy' with hy' | hy'
        · simp [h.queued_live y hy']
        · simp [List.mem_singleton.mp hy']
      · show s.taken.map Prod.fst ++ q'.toList = s.given ++ [x]
        rw [hl, ← List.append_assoc, h.fifo]
  | take =>
    cases hp : s.q.pop with
    | none =>
      have e : GcChan.step MarkWalk.janet maxCap s .take = s := by simp [GcChan.step, hp]
      rw [e]; exact h
    | some r =>
      obtain ⟨x, q'⟩ := r
      have e : GcChan.step MarkWalk.janet maxCap s .take = { s with q := q', taken := s.taken ++ [(x, s.live x)] } := by
        simp [GcChan.step, hp]
      rw [e]
      obtain ⟨hl, hw⟩ := RingQ.pop_some s.q h.wf x q' hp
      have hx : s.live x = true := h.queued_live x (by rw [hl]; exact List.mem_cons_self ..)
      refine ⟨hw, ?_, ?_, ?_⟩
      · intro y hy; exact h.queued_live y (by rw [hl]; exact List.mem_cons_of_mem _ hy)
      · intro p hp'
        rcases List.mem_append.mp hp' with hp' | hp'
        · exact h.taken_live p hp'
        · rw [List.mem_singleton.mp hp']; exact hx
      · show (s.taken ++ [(x, s.live x)]).map Prod.fst ++ q'.toList = s.given
        have := h.fifo
        rw [hl] at this
        rw [← this]; simp
  | collect roots =>
    have e : GcChan.step MarkWalk.janet maxCap s (.collect roots)
        = { s with live := fun y => s.live y && (roots.contains y || (MarkWalk.janet.visit s.q).contains y) } := rfl
    rw [e]
    refine ⟨h.wf, ?_, h.taken_live, h.fifo⟩
    intro y hy
    have hy' : y ∈ s.q.toList := hy
    have hv : (MarkWalk.janet.visit s.q).contains y = true := by
      rw [janet_visit s.q h.wf]; exact List.contains_iff_mem.mpr hy'
    show (s.live y && (roots.contains y || (MarkWalk.janet.visit s.q).contains y)) = true
    rw [h.queued_live y hy', hv]; simp

theorem GcChan.run_inv (maxCap : Nat) (ops : List GcOp) : (GcChan.run MarkWalk.janet maxCap ops).Inv := by
  unfold GcChan.run
  suffices H : ∀ s : GcChan, s.Inv → (ops.foldl (GcChan.step MarkWalk.janet maxCap) s).Inv from H _ GcChan.init_inv
  induction ops with
  | nil => intro s h; exact h
  | cons op rest ih => intro s h; exact ih _ (GcChan.step_inv maxCap s h op)

end JanetModel.Ev
