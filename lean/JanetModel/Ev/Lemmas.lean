/- Lemmas about the event-loop model (`Ev/Model.lean`), for every configuration `cfg`; `Props/C06.lean` instantiates them
   with the configuration extracted from the current source. -/
import JanetModel.Ev.Model
namespace JanetModel.Ev

/-! ### basic facts about `schedule` -/

theorem scheduleGeneral_chans (w : World) (f : Nat) (v : Val) (s : Sig) (b : Bool) :
    (scheduleGeneral w f v s b).chans = w.chans := by
  unfold scheduleGeneral
  by_cases h : (w.fibers f).canceled = true <;> simp [h, setFiber]

theorem scheduleGeneral_ghost (w : World) (f : Nat) (v : Val) (s : Sig) (b : Bool) :
    (scheduleGeneral w f v s b).ghost = w.ghost := by
  unfold scheduleGeneral
  by_cases h : (w.fibers f).canceled = true <;> simp [h, setFiber]

theorem schedule_chans (w : World) (f : Nat) (v : Val) : (schedule w f v).chans = w.chans :=
  scheduleGeneral_chans w f v .ok false

theorem schedule_ghost (w : World) (f : Nat) (v : Val) : (schedule w f v).ghost = w.ghost :=
  scheduleGeneral_ghost w f v .ok false

theorem schedule_sched_mono (w : World) (f : Nat) (v : Val) (g : Nat) :
    (w.fibers g).sched ≤ ((schedule w f v).fibers g).sched := by
  unfold schedule scheduleGeneral
  by_cases h : (w.fibers f).canceled = true
  · simp [h]
  · by_cases hg : g = f <;> simp [h, setFiber, hg]

theorem schedule_status (w : World) (f : Nat) (v : Val) (g : Nat) :
    ((schedule w f v).fibers g).status = (w.fibers g).status ∧
    ((schedule w f v).fibers g).canceled = (w.fibers g).canceled := by
  unfold schedule scheduleGeneral
  by_cases h : (w.fibers f).canceled = true
  · simp [h]
  · by_cases hg : g = f
    · subst hg; simp [h, setFiber]
    · simp [h, setFiber, hg]

/-- scheduling a fiber that is not cancelled bumps its sched_id and appends a task carrying the new id -/
theorem schedule_bumps (w : World) (f : Nat) (v : Val) (h : (w.fibers f).canceled = false) :
    ((schedule w f v).fibers f).sched = (w.fibers f).sched + 1 ∧
    (schedule w f v).runq = w.runq ++ [⟨f, v, .ok, (w.fibers f).sched + 1⟩] := by
  unfold schedule scheduleGeneral
  simp [h, setFiber]

theorem schedule_runq_mono (w : World) (f : Nat) (v : Val) (t : Task) (ht : t ∈ w.runq) :
    t ∈ (schedule w f v).runq := by
  unfold schedule scheduleGeneral
  by_cases h : (w.fibers f).canceled = true <;> simp [h, setFiber, ht]

/-! ### push: the blocking rule -/

theorem popLiveReader_none_iff (fibers : Nat → Fiber) (rp : List Pending) :
    (popLiveReader fibers rp).1 = none ↔ hasLiveReader fibers rp = false := by
  induction rp with
  | nil => simp [popLiveReader, hasLiveReader]
  | cons p rest ih =>
    unfold popLiveReader
    by_cases h : p.live fibers = true
    · simp [h, hasLiveReader]
    · simp only [h]
      simp only [hasLiveReader] at ih ⊢
      simp [h, ih]

/-- **give_blocks_iff** (any state): on an open channel a give completes without blocking exactly when a live reader is
    pending or the channel is below capacity. -/
theorem give_blocks_iff (cfg : Cfg) (hs : cfg.pushBlocksStrict = true) (w : World) (f c x mode : Nat)
    (w' : World) (b : Bool) (h : chanPush cfg w f c x mode = .ok w' b) :
    b = false ↔ (hasLiveReader w.fibers (w.chans c).readPending = true ∨
                 (w.chans c).items.length < (w.chans c).limit) := by
  unfold chanPush at h
  by_cases hc : (w.chans c).closed = true
  · simp [hc] at h
  · simp only [hc] at h
    have hn := popLiveReader_none_iff w.fibers (w.chans c).readPending
    rcases hq : popLiveReader w.fibers (w.chans c).readPending with ⟨r, rp⟩
    rw [hq] at hn
    simp only [addPushed] at h
    rw [hq] at h
    cases r with
    | none =>
      have hno : hasLiveReader w.fibers (w.chans c).readPending = false := hn.mp rfl
      simp only [pushBlocks, hs, List.length_append, List.length_cons, List.length_nil] at h
      by_cases hb : (w.chans c).items.length + (0 + 1) > (w.chans c).limit
      · simp only [hb, decide_true] at h
        by_cases hm : mode = 2
        · simp [hm] at h
          rw [← h.2, hno]; simp; omega
        · simp [hm] at h
          rw [← h.2, hno]; simp; omega
      · simp only [hb, decide_false] at h
        simp at h
        rw [← h.2, hno]; simp; omega
    | some r =>
      have hyes : hasLiveReader w.fibers (w.chans c).readPending = true := by
        cases hh : hasLiveReader w.fibers (w.chans c).readPending
        · have := hn.mpr hh; simp at this
        · rfl
      simp at h
      rw [← h.2, hyes]; simp

/-- **take_blocks_iff** (any state): on an open channel a take has to wait exactly when the channel holds no item. -/
theorem take_blocks_iff (cfg : Cfg) (w : World) (f c mode : Nat) (ho : (w.chans c).closed = false) :
    (∃ w', chanPop cfg w f c mode = .blocked w') ↔ (w.chans c).items = [] := by
  unfold chanPop
  simp only [ho]
  cases hi : (w.chans c).items with
  | nil =>
    by_cases hm : mode = 2 <;> simp [hm]
  | cons x rest =>
    simp only []
    rcases popWriter cfg.popSkipsStaleWriter (addHanded w c x).fibers (w.chans c).writePending with ⟨wr, wp⟩
    cases wr <;> simp

/-- a take that does not block returns the head of `items` and leaves the tail (FIFO use of the queue) -/
theorem chanPop_head (cfg : Cfg) (w : World) (f c mode : Nat) (w' : World) (r : Option Nat)
    (ho : (w.chans c).closed = false) (h : chanPop cfg w f c mode = .got w' r) :
    ∃ x rest, (w.chans c).items = x :: rest ∧ r = some x ∧ (w'.chans c).items = rest := by
  unfold chanPop at h
  simp only [ho] at h
  cases hi : (w.chans c).items with
  | nil =>
    rw [hi] at h
    by_cases hm : mode = 2 <;> simp [hm] at h
  | cons x rest =>
    rw [hi] at h
    simp only [] at h
    rcases hq : popWriter cfg.popSkipsStaleWriter (addHanded w c x).fibers (w.chans c).writePending with ⟨wr, wp⟩
    rw [hq] at h
    cases wr with
    | none =>
      simp at h
      refine ⟨x, rest, rfl, h.2.symm, ?_⟩
      rw [← h.1]; simp [setChan]
    | some p =>
      simp at h
      refine ⟨x, rest, rfl, h.2.symm, ?_⟩
      rw [← h.1, schedule_chans]; simp [setChan]

/-- a give that finds no live reader appends to the tail of `items` -/
theorem chanPush_tail (cfg : Cfg) (w : World) (f c x mode : Nat) (w' : World) (b : Bool)
    (hr : hasLiveReader w.fibers (w.chans c).readPending = false)
    (h : chanPush cfg w f c x mode = .ok w' b) : (w'.chans c).items = (w.chans c).items ++ [x] := by
  unfold chanPush at h
  by_cases hc : (w.chans c).closed = true
  · simp [hc] at h
  · simp only [hc] at h
    have hn := (popLiveReader_none_iff w.fibers (w.chans c).readPending).mpr hr
    rcases hq : popLiveReader w.fibers (w.chans c).readPending with ⟨r, rp⟩
    rw [hq] at hn
    simp only [addPushed] at h
    rw [hq] at h
    simp only [] at hn
    subst hn
    simp only [] at h
    by_cases hb : pushBlocks cfg ((w.chans c).items.length + 1) (w.chans c).limit = true
    · by_cases hm : mode = 2
      · simp [hb, hm] at h; rw [← h.1]; simp [setChan]
      · simp [hb, hm] at h; rw [← h.1]; simp [setChan]
    · simp [hb] at h; rw [← h.1]; simp [setChan]

/-! ### select: exactly one clause -/

theorem chanPush_other (cfg : Cfg) (w : World) (f c x mode : Nat) (w' : World) (b : Bool)
    (h : chanPush cfg w f c x mode = .ok w' b) (c' : Nat) (hc : c' ≠ c) : w'.chans c' = w.chans c' := by
  unfold chanPush at h
  by_cases hcl : (w.chans c).closed = true
  · simp [hcl] at h
  · simp only [hcl] at h
    simp only [addPushed] at h
    rcases hq : popLiveReader w.fibers (w.chans c).readPending with ⟨r, rp⟩
    rw [hq] at h
    cases r with
    | none =>
      simp only [] at h
      by_cases hb : pushBlocks cfg ((w.chans c).items.length + 1) (w.chans c).limit = true
      · by_cases hm : mode = 2
        · simp [hb, hm] at h; rw [← h.1]; simp [setChan, hc]
        · simp [hb, hm] at h; rw [← h.1]; simp [setChan, hc]
      · simp [hb] at h; rw [← h.1]; simp [setChan, hc]
    | some r =>
      simp at h
      rw [← h.1, schedule_chans]; simp [addHanded, setChan, hc]

theorem chanPop_other (cfg : Cfg) (w : World) (f c mode : Nat) (c' : Nat) (hc : c' ≠ c) :
    (∀ w' r, chanPop cfg w f c mode = .got w' r → w'.chans c' = w.chans c') ∧
    (∀ w', chanPop cfg w f c mode = .blocked w' → w'.chans c' = w.chans c') := by
  unfold chanPop
  by_cases hcl : (w.chans c).closed = true
  · simp [hcl]
  · simp only [hcl]
    cases hi : (w.chans c).items with
    | nil =>
      by_cases hm : mode = 2
      · simp [hm]
      · simp [hm]; simp [setChan, hc]
    | cons x rest =>
      simp only []
      rcases hq : popWriter cfg.popSkipsStaleWriter (addHanded w c x).fibers (w.chans c).writePending with ⟨wr, wp⟩
      cases wr with
      | none => simp; simp [setChan, addHanded, hc]
      | some p => simp; rw [schedule_chans]; simp [setChan, addHanded, hc]

/-- `v` is a result of clause `cl` -/
def Val.ofClause (v : Val) (cl : Clause) : Prop :=
  v = .close cl.chan ∨ (∃ c x, cl = .give c x ∧ v = .give c) ∨ (∃ c x, cl = .take c ∧ v = .take c x)

/-- **select_exactly_one**, immediate case (any state, any clause list): when the first loop of `ev/select` returns, the
    result is the result of exactly one of its clauses and no channel other than that clause's channel has changed. -/
theorem choiceImmediate_one (cfg : Cfg) (f : Nat) (cls : List Clause) :
    ∀ (w w' : World) (v : Val), choiceImmediate cfg w f cls = some (w', v) →
      ∃ cl ∈ cls, v.ofClause cl ∧ ∀ c', c' ≠ cl.chan → w'.chans c' = w.chans c' := by
  induction cls with
  | nil => intro w w' v h; simp [choiceImmediate] at h
  | cons cl rest ih =>
    intro w w' v h
    cases cl with
    | give c x =>
      unfold choiceImmediate at h
      by_cases hcl : (w.chans c).closed = true
      · simp [hcl] at h
        refine ⟨.give c x, by simp, ?_, ?_⟩
        · left; rw [← h.2]; rfl
        · intro c' _; rw [← h.1]
      · simp only [hcl] at h
        by_cases hr : (choiceReady cfg (w.chans c).items.length (w.chans c).limit
            || (cfg.choiceGiveSeesReader && hasLiveReader w.fibers (w.chans c).readPending)) = true
        · simp only [hr] at h
          cases hp : chanPush cfg w f c x 1 with
          | closedErr =>
            rw [hp] at h; simp at h
            refine ⟨.give c x, by simp, ?_, ?_⟩
            · left; rw [← h.2]; rfl
            · intro c' _; rw [← h.1]
          | ok w1 b =>
            rw [hp] at h; simp at h
            refine ⟨.give c x, by simp, ?_, ?_⟩
            · right; left; exact ⟨c, x, rfl, h.2.symm⟩
            · intro c' hc'; rw [← h.1]; exact chanPush_other cfg w f c x 1 w1 b hp c' hc'
        · simp only [hr] at h
          obtain ⟨cl, hm, hv, ho⟩ := ih w w' v (by simpa using h)
          exact ⟨cl, by simp [hm], hv, ho⟩
    | take c =>
      unfold choiceImmediate at h
      by_cases hcl : (w.chans c).closed = true
      · simp [hcl] at h
        refine ⟨.take c, by simp, ?_, ?_⟩
        · left; rw [← h.2]; rfl
        · intro c' _; rw [← h.1]
      · simp only [hcl] at h
        by_cases hi : (w.chans c).items = []
        · simp [hi] at h
          obtain ⟨cl, hm, hv, ho⟩ := ih w w' v h
          exact ⟨cl, by simp [hm], hv, ho⟩
        · simp [hi] at h
          have hoth := chanPop_other cfg w f c 1
          cases hp : chanPop cfg w f c 1 with
          | blocked w1 =>
            have := (take_blocks_iff cfg w f c 1 (by simpa using hcl)).mp ⟨w1, hp⟩
            exact absurd this hi
          | got w1 r =>
            rw [hp] at h
            cases r with
            | none =>
              simp at h
              refine ⟨.take c, by simp, ?_, ?_⟩
              · left; rw [← h.2]; rfl
              · intro c' hc'; rw [← h.1]; exact (hoth c' hc').1 w1 none hp
            | some x =>
              simp at h
              refine ⟨.take c, by simp, ?_, ?_⟩
              · right; right; exact ⟨c, x, rfl, h.2.symm⟩
              · intro c' hc'; rw [← h.1]; exact (hoth c' hc').1 w1 (some x) hp

/-! ### conservation: what a channel hands out is what was pushed into it -/

/-- the values logged for channel `c` -/
def onChan (l : List (Nat × Nat)) (c : Nat) : List Nat := (l.filter (fun p => p.1 == c)).map (·.2)

theorem onChan_snoc (l : List (Nat × Nat)) (c x c' : Nat) :
    onChan (l ++ [(c, x)]) c' = if c = c' then onChan l c' ++ [x] else onChan l c' := by
  unfold onChan
  by_cases h : c = c'
  · subst h; simp [List.filter_append]
  · simp [List.filter_append, h]

/-- per channel and per value: pushed = handed out + still queued -/
def Conserved (w : World) : Prop :=
  ∀ c x, (onChan w.ghost.pushed c).count x = (onChan w.ghost.handed c).count x + (w.chans c).items.count x

theorem Conserved.congr {w w' : World} (hp : w'.ghost.pushed = w.ghost.pushed) (hh : w'.ghost.handed = w.ghost.handed)
    (hi : ∀ c, (w'.chans c).items = (w.chans c).items) (h : Conserved w) : Conserved w' := by
  intro c x; rw [hp, hh, hi]; exact h c x

theorem chanPush_effect (cfg : Cfg) (w : World) (f c x mode : Nat) (w' : World) (b : Bool)
    (h : chanPush cfg w f c x mode = .ok w' b) :
    w'.ghost.pushed = w.ghost.pushed ++ [(c, x)] ∧
    ((w'.ghost.handed = w.ghost.handed ∧ (w'.chans c).items = (w.chans c).items ++ [x]) ∨
     (w'.ghost.handed = w.ghost.handed ++ [(c, x)] ∧ (w'.chans c).items = (w.chans c).items)) := by
  unfold chanPush at h
  by_cases hcl : (w.chans c).closed = true
  · simp [hcl] at h
  · simp only [hcl] at h
    simp only [addPushed] at h
    rcases hq : popLiveReader w.fibers (w.chans c).readPending with ⟨r, rp⟩
    rw [hq] at h
    cases r with
    | none =>
      simp only [] at h
      by_cases hb : pushBlocks cfg ((w.chans c).items.length + 1) (w.chans c).limit = true
      · by_cases hm : mode = 2
        · simp [hb, hm] at h; rw [← h.1]; simp [setChan]
        · simp [hb, hm] at h; rw [← h.1]; simp [setChan]
      · simp [hb] at h; rw [← h.1]; simp [setChan]
    | some r =>
      simp at h
      rw [← h.1, schedule_ghost, schedule_chans]; simp [addHanded, setChan]

theorem chanPush_conserved (cfg : Cfg) (w : World) (f c x mode : Nat) (w' : World) (b : Bool)
    (h : chanPush cfg w f c x mode = .ok w' b) (hc : Conserved w) : Conserved w' := by
  obtain ⟨hp, he⟩ := chanPush_effect cfg w f c x mode w' b h
  intro c' x'
  have hw := hc c' x'
  by_cases hcc : c = c'
  · subst hcc
    rcases he with ⟨hh, hi⟩ | ⟨hh, hi⟩
    · rw [hp, hh, hi, onChan_snoc]; simp [List.count_append]; omega
    · rw [hp, hh, hi, onChan_snoc, onChan_snoc]; simp [List.count_append]; omega
  · have hoth := chanPush_other cfg w f c x mode w' b h c' (fun e => hcc e.symm)
    rcases he with ⟨hh, _⟩ | ⟨hh, _⟩
    · rw [hp, hh, hoth, onChan_snoc]; simp [hcc]; exact hw
    · rw [hp, hh, hoth, onChan_snoc, onChan_snoc]; simp [hcc]; exact hw

theorem chanPop_effect (cfg : Cfg) (w : World) (f c mode : Nat) :
    (∀ w' r, chanPop cfg w f c mode = .got w' r → w'.ghost.pushed = w.ghost.pushed ∧
      ((r = none ∧ w'.ghost.handed = w.ghost.handed ∧ (w'.chans c).items = (w.chans c).items) ∨
       (∃ x rest, (w.chans c).items = x :: rest ∧ r = some x ∧ w'.ghost.handed = w.ghost.handed ++ [(c, x)] ∧
          (w'.chans c).items = rest))) ∧
    (∀ w', chanPop cfg w f c mode = .blocked w' → w'.ghost.pushed = w.ghost.pushed ∧
      w'.ghost.handed = w.ghost.handed ∧ (w'.chans c).items = (w.chans c).items) := by
  unfold chanPop
  by_cases hcl : (w.chans c).closed = true
  · simp [hcl]
  · simp only [hcl]
    cases hi : (w.chans c).items with
    | nil =>
      by_cases hm : mode = 2
      · simp [hm, hi]
      · simp [hm]; simp [setChan]
    | cons x rest =>
      simp only []
      rcases hq : popWriter cfg.popSkipsStaleWriter (addHanded w c x).fibers (w.chans c).writePending with ⟨wr, wp⟩
      cases wr with
      | none => simp; exact ⟨by simp [setChan, addHanded], x, rest, ⟨rfl, rfl⟩, rfl, by simp [setChan, addHanded], by simp [setChan]⟩
      | some p =>
        simp; rw [schedule_ghost, schedule_chans]
        exact ⟨by simp [setChan, addHanded], x, rest, ⟨rfl, rfl⟩, rfl, by simp [setChan, addHanded], by simp [setChan]⟩

theorem chanPop_conserved (cfg : Cfg) (w : World) (f c mode : Nat) (hc : Conserved w) :
    (∀ w' r, chanPop cfg w f c mode = .got w' r → Conserved w') ∧
    (∀ w', chanPop cfg w f c mode = .blocked w' → Conserved w') := by
  have he := chanPop_effect cfg w f c mode
  constructor
  · intro w' r h
    obtain ⟨hp, hcase⟩ := he.1 w' r h
    intro c' x'
    have hw := hc c' x'
    by_cases hcc : c = c'
    · subst hcc
      rcases hcase with ⟨_, hh, hi⟩ | ⟨x, rest, hitems, _, hh, hi⟩
      · rw [hp, hh, hi]; exact hw
      · rw [hp, hh, hi, onChan_snoc]; rw [hitems] at hw
        simp [List.count_append, List.count_cons] at hw ⊢; omega
    · have hoth := ((chanPop_other cfg w f c mode c' (fun e => hcc e.symm)).1 w' r h)
      rcases hcase with ⟨_, hh, _⟩ | ⟨x, rest, _, _, hh, _⟩
      · rw [hp, hh, hoth]; exact hw
      · rw [hp, hh, hoth, onChan_snoc]; simp [hcc]; exact hw
  · intro w' h
    obtain ⟨hp, hh, hi⟩ := he.2 w' h
    intro c' x'
    by_cases hcc : c = c'
    · subst hcc; rw [hp, hh, hi]; exact hc c x'
    · rw [hp, hh, (chanPop_other cfg w f c mode c' (fun e => hcc e.symm)).2 w' h]; exact hc c' x'

theorem choiceImmediate_conserved (cfg : Cfg) (f : Nat) (cls : List Clause) :
    ∀ (w w' : World) (v : Val), choiceImmediate cfg w f cls = some (w', v) → Conserved w → Conserved w' := by
  induction cls with
  | nil => intro w w' v h; simp [choiceImmediate] at h
  | cons cl rest ih =>
    intro w w' v h hc
    cases cl with
    | give c x =>
      unfold choiceImmediate at h
      by_cases hcl : (w.chans c).closed = true
      · simp [hcl] at h; rw [← h.1]; exact hc
      · simp only [hcl] at h
        by_cases hr : (choiceReady cfg (w.chans c).items.length (w.chans c).limit
            || (cfg.choiceGiveSeesReader && hasLiveReader w.fibers (w.chans c).readPending)) = true
        · simp only [hr] at h
          cases hp : chanPush cfg w f c x 1 with
          | closedErr => rw [hp] at h; simp at h; rw [← h.1]; exact hc
          | ok w1 b => rw [hp] at h; simp at h; rw [← h.1]; exact chanPush_conserved cfg w f c x 1 w1 b hp hc
        · simp only [hr] at h
          exact ih w w' v (by simpa using h) hc
    | take c =>
      unfold choiceImmediate at h
      by_cases hcl : (w.chans c).closed = true
      · simp [hcl] at h; rw [← h.1]; exact hc
      · simp only [hcl] at h
        by_cases hi : (w.chans c).items = []
        · simp [hi] at h; exact ih w w' v h hc
        · simp [hi] at h
          have hpc := chanPop_conserved cfg w f c 1 hc
          cases hp : chanPop cfg w f c 1 with
          | blocked w1 => rw [hp] at h; simp at h; rw [← h.1]; exact hpc.2 w1 hp
          | got w1 r =>
            rw [hp] at h
            cases r with
            | none => simp at h; rw [← h.1]; exact hpc.1 w1 none hp
            | some x =>
              simp at h; rw [← h.1]
              exact Conserved.congr rfl rfl (fun _ => rfl) (hpc.1 w1 (some x) hp)

theorem choiceRegister_conserved (cfg : Cfg) (f : Nat) (cls : List Clause) :
    ∀ (w : World), Conserved w → Conserved (choiceRegister cfg w f cls) := by
  induction cls with
  | nil => intro w h; simpa [choiceRegister] using h
  | cons cl rest ih =>
    intro w hc
    cases cl with
    | give c x =>
      unfold choiceRegister
      cases hp : chanPush cfg w f c x 1 with
      | closedErr => exact ih w hc
      | ok w1 b => exact ih w1 (chanPush_conserved cfg w f c x 1 w1 b hp hc)
    | take c =>
      unfold choiceRegister
      have hpc := chanPop_conserved cfg w f c 1 hc
      cases hp : chanPop cfg w f c 1 with
      | blocked w1 => exact ih w1 (hpc.2 w1 hp)
      | got w1 r => exact ih w1 (hpc.1 w1 r hp)

theorem closeWake_view (cfg : Cfg) (c : Nat) (b : Bool) (w : World) (p : Pending) :
    (closeWake cfg c b w p).chans = w.chans ∧ (closeWake cfg c b w p).ghost = w.ghost := by
  unfold closeWake
  split
  · exact ⟨schedule_chans _ _ _, schedule_ghost _ _ _⟩
  · exact ⟨rfl, rfl⟩

theorem closeWake_fold_view (cfg : Cfg) (c : Nat) (b : Bool) (ps : List Pending) :
    ∀ w : World, (ps.foldl (closeWake cfg c b) w).chans = w.chans ∧ (ps.foldl (closeWake cfg c b) w).ghost = w.ghost := by
  induction ps with
  | nil => intro w; exact ⟨rfl, rfl⟩
  | cons p rest ih =>
    intro w
    simp only [List.foldl_cons]
    have h1 := ih (closeWake cfg c b w p)
    have h2 := closeWake_view cfg c b w p
    exact ⟨h1.1.trans h2.1, h1.2.trans h2.2⟩

theorem chanClose_conserved (cfg : Cfg) (w : World) (c : Nat) (hc : Conserved w) : Conserved (chanClose cfg w c) := by
  unfold chanClose
  by_cases hcl : (w.chans c).closed = true
  · simp [hcl]; exact hc
  · simp only [hcl]
    have h1 := closeWake_fold_view cfg c false (w.chans c).readPending
      ((w.chans c).writePending.foldl (closeWake cfg c true)
        (setChan w c { (w.chans c) with closed := true, readPending := [], writePending := [] }))
    have h2 := closeWake_fold_view cfg c true (w.chans c).writePending
      (setChan w c { (w.chans c) with closed := true, readPending := [], writePending := [] })
    refine Conserved.congr ?_ ?_ ?_ hc
    · simp only [Bool.false_eq_true, ↓reduceIte]; rw [h1.2, h2.2]; rfl
    · simp only [Bool.false_eq_true, ↓reduceIte]; rw [h1.2, h2.2]; rfl
    · intro c'
      simp only [Bool.false_eq_true, ↓reduceIte]; rw [h1.1, h2.1]
      by_cases hcc : c' = c
      · subst hcc; simp [setChan]
      · simp [setChan, hcc]

theorem schedule_conserved (w : World) (f : Nat) (v : Val) (hc : Conserved w) : Conserved (schedule w f v) :=
  Conserved.congr (by rw [schedule_ghost]) (by rw [schedule_ghost]) (fun c => by rw [schedule_chans]) hc

theorem awaitFiber_conserved (w : World) (f : Nat) (hc : Conserved w) : Conserved (awaitFiber w f) :=
  Conserved.congr rfl rfl (fun _ => rfl) hc

theorem finishFiber_conserved (w : World) (f : Nat) (e : Bool) (hc : Conserved w) : Conserved (finishFiber w f e) :=
  Conserved.congr rfl rfl (fun _ => rfl) hc

/-! ### frames: transitions that leave channels and the push / hand-out history alone and only raise sched_ids -/

def SchedLe (w w' : World) : Prop := ∀ f, (w.fibers f).sched ≤ (w'.fibers f).sched

structure Frame (w w' : World) : Prop where
  chans : w'.chans = w.chans
  pushed : w'.ghost.pushed = w.ghost.pushed
  handed : w'.ghost.handed = w.ghost.handed
  sched : SchedLe w w'

theorem Frame.refl (w : World) : Frame w w := ⟨rfl, rfl, rfl, fun _ => Nat.le_refl _⟩

theorem Frame.trans {a b c : World} (h1 : Frame a b) (h2 : Frame b c) : Frame a c :=
  ⟨h2.chans.trans h1.chans, h2.pushed.trans h1.pushed, h2.handed.trans h1.handed,
   fun f => Nat.le_trans (h1.sched f) (h2.sched f)⟩

theorem scheduleGeneral_frame (w : World) (f : Nat) (v : Val) (s : Sig) (b : Bool) :
    Frame w (scheduleGeneral w f v s b) := by
  refine ⟨scheduleGeneral_chans w f v s b, by rw [scheduleGeneral_ghost], by rw [scheduleGeneral_ghost], ?_⟩
  intro g
  unfold scheduleGeneral
  by_cases h : (w.fibers f).canceled = true
  · simp [h]
  · by_cases hg : g = f <;> simp [h, setFiber, hg]

theorem schedule_frame (w : World) (f : Nat) (v : Val) : Frame w (schedule w f v) := scheduleGeneral_frame w f v .ok false
theorem cancelFiber_frame (w : World) (f : Nat) (v : Val) : Frame w (cancelFiber w f v) := scheduleGeneral_frame w f v .error false

theorem foldl_frame {α : Type} (g : World → α → World) (hg : ∀ w a, Frame w (g w a)) (l : List α) :
    ∀ w, Frame w (l.foldl g w) := by
  induction l with
  | nil => intro w; exact Frame.refl w
  | cons a rest ih => intro w; exact Frame.trans (hg w a) (ih (g w a))

theorem closeWake_frame (cfg : Cfg) (c : Nat) (b : Bool) (w : World) (p : Pending) : Frame w (closeWake cfg c b w p) := by
  unfold closeWake
  split
  · exact schedule_frame _ _ _
  · exact Frame.refl w

theorem fireTimer_frame (w : World) (t : Timer) : Frame w (fireTimer w t) := by
  unfold fireTimer
  split
  · split
    · exact cancelFiber_frame _ _ _
    · exact Frame.refl w
  · split
    · split
      · exact cancelFiber_frame _ _ _
      · exact schedule_frame _ _ _
    · exact Frame.refl w

theorem loopTimers_frame (w : World) : Frame w (loopTimers w) := by
  unfold loopTimers
  exact Frame.trans (b := { w with clock := w.clock + w.clockStep,
                                    timers := w.timers.dropWhile (fun t => decide (t.when ≤ w.clock + w.clockStep)) })
    ⟨rfl, rfl, rfl, fun _ => Nat.le_refl _⟩ (foldl_frame fireTimer fireTimer_frame _ _)

theorem setFiber_same_sched_frame (w : World) (f : Nat) (x : Fiber) (h : x.sched = (w.fibers f).sched) :
    Frame w (setFiber w f x) := by
  refine ⟨rfl, rfl, rfl, ?_⟩
  intro g
  by_cases hg : g = f
  · subst hg; simp [setFiber, h]
  · simp [setFiber, hg]

theorem awaitFiber_frame (w : World) (f : Nat) : Frame w (awaitFiber w f) := by
  refine ⟨rfl, rfl, rfl, ?_⟩
  intro g; unfold awaitFiber; by_cases hg : g = f <;> simp [setFiber, hg]

theorem finishFiber_frame (w : World) (f : Nat) (e : Bool) : Frame w (finishFiber w f e) := by
  refine ⟨rfl, rfl, rfl, ?_⟩
  intro g; unfold finishFiber; by_cases hg : g = f <;> simp [setFiber, hg]

theorem loopRunTask_frame (cfg : Cfg) (w : World) : Frame w (loopRunTask cfg w).1 := by
  unfold loopRunTask
  cases hq : w.runq with
  | nil => exact Frame.refl w
  | cons t rest =>
    simp only []
    refine ⟨?_, ?_, ?_, ?_⟩
    · split
      · rfl
      · split
        · rfl
        · split <;> rfl
    · split
      · rfl
      · split
        · rfl
        · split <;> rfl
    · split
      · rfl
      · split
        · rfl
        · split <;> rfl
    · intro g
      split
      · by_cases hg : g = t.fiber <;> simp [setFiber, hg]
      · split
        · by_cases hg : g = t.fiber <;> simp [setFiber, hg] <;> (split <;> omega)
        · split <;> (by_cases hg : g = t.fiber <;> simp [setFiber, hg] <;> (split <;> omega))

theorem Conserved.frame {w w' : World} (h : Frame w w') (hc : Conserved w) : Conserved w' :=
  Conserved.congr h.pushed h.handed (fun c => by rw [h.chans]) hc

theorem loopRunTask_conserved (cfg : Cfg) (w : World) (hc : Conserved w) : Conserved (loopRunTask cfg w).1 :=
  Conserved.frame (loopRunTask_frame cfg w) hc

theorem loopTimers_conserved (w : World) (hc : Conserved w) : Conserved (loopTimers w) :=
  Conserved.frame (loopTimers_frame w) hc

theorem supPush_conserved (cfg : Cfg) (w : World) (c x : Nat) (hc : Conserved w) : Conserved (supPush cfg w c x).1 := by
  unfold supPush
  cases hp : chanPush cfg w 0 c x 2 with
  | closedErr => exact hc
  | ok w1 b => exact chanPush_conserved cfg w 0 c x 2 w1 b hp hc

theorem step_conserved (cfg : Cfg) (w : World) (a : Action) (hc : Conserved w) : Conserved (step cfg w a).1 := by
  unfold step
  cases hcur : w.current with
  | none =>
    cases a <;> simp only [] <;> (first | exact hc | exact loopRunTask_conserved cfg w hc | exact loopTimers_conserved w hc | exact supPush_conserved cfg w _ _ hc | exact Conserved.congr rfl rfl (fun _ => rfl) hc)
  | some f =>
    cases a with
    | go g =>
      simp only []
      split
      · exact schedule_conserved _ _ _ hc
      · exact hc
    | cancel g =>
      simp only []
      split
      · exact hc
      · exact Conserved.congr (by rw [cancelFiber, scheduleGeneral_ghost]) (by rw [cancelFiber, scheduleGeneral_ghost])
          (fun c => by rw [cancelFiber, scheduleGeneral_chans]) hc
    | deadline s ms => exact Conserved.congr rfl rfl (fun _ => rfl) hc
    | scopeEnd s => exact Conserved.congr rfl rfl (fun _ => rfl) hc
    | give c x =>
      simp only []
      cases hp : chanPush cfg w f c x 0 with
      | closedErr => exact finishFiber_conserved _ _ _ hc
      | ok w1 b =>
        have := chanPush_conserved cfg w f c x 0 w1 b hp hc
        cases b
        · exact this
        · exact awaitFiber_conserved _ _ this
    | take c =>
      simp only []
      have hpc := chanPop_conserved cfg w f c 0 hc
      cases hp : chanPop cfg w f c 0 with
      | blocked w1 => exact awaitFiber_conserved _ _ (hpc.2 w1 hp)
      | got w1 r =>
        cases r with
        | none => exact awaitFiber_conserved _ _ (schedule_conserved _ _ _ (hpc.1 w1 none hp))
        | some x => exact awaitFiber_conserved _ _ (schedule_conserved _ _ _ (hpc.1 w1 (some x) hp))
    | select cls =>
      cases cls with
      | nil => exact hc
      | cons cl0 cls0 =>
      simp only []
      generalize cl0 :: cls0 = cls
      cases hi : choiceImmediate cfg w f cls with
      | none => exact awaitFiber_conserved _ _ (choiceRegister_conserved cfg f cls w hc)
      | some r => exact choiceImmediate_conserved cfg f cls w r.1 r.2 hi hc
    | close c => exact chanClose_conserved cfg w c hc
    | sleep ms => exact awaitFiber_conserved _ _ (Conserved.congr rfl rfl (fun _ => rfl) hc)
    | finish e => exact finishFiber_conserved _ _ _ hc
    | runTask => exact hc
    | timers => exact hc
    | poll => exact hc
    | supEvent c x => exact hc

/-- **conservation** for every action sequence -/
theorem run_conserved (cfg : Cfg) (as : List Action) : ∀ w : World, Conserved w → Conserved (run cfg w as) := by
  induction as with
  | nil => intro w h; exact h
  | cons a rest ih =>
    intro w h
    unfold run
    simp only [List.foldl_cons]
    exact ih _ (step_conserved cfg w a h)

theorem start_conserved (limits : Nat → Nat) : Conserved (World.start limits) := by
  unfold World.start
  apply schedule_conserved
  intro c x
  simp [World.init, onChan]

/-! ### close wakes every waiter -/

theorem closeWake_mono (cfg : Cfg) (c : Nat) (b : Bool) (w : World) (p : Pending) (g : Nat) :
    (w.fibers g).sched ≤ ((closeWake cfg c b w p).fibers g).sched ∧
    ((closeWake cfg c b w p).fibers g).status = (w.fibers g).status ∧
    ((closeWake cfg c b w p).fibers g).canceled = (w.fibers g).canceled := by
  unfold closeWake
  split
  · exact ⟨schedule_sched_mono _ _ _ g, (schedule_status _ _ _ g).1, (schedule_status _ _ _ g).2⟩
  · exact ⟨Nat.le_refl _, rfl, rfl⟩

theorem closeWake_fold_mono (cfg : Cfg) (c : Nat) (b : Bool) (ps : List Pending) (g : Nat) :
    ∀ w : World, (w.fibers g).sched ≤ ((ps.foldl (closeWake cfg c b) w).fibers g).sched ∧
      ((ps.foldl (closeWake cfg c b) w).fibers g).status = (w.fibers g).status ∧
      ((ps.foldl (closeWake cfg c b) w).fibers g).canceled = (w.fibers g).canceled := by
  induction ps with
  | nil => intro w; exact ⟨Nat.le_refl _, rfl, rfl⟩
  | cons p rest ih =>
    intro w
    simp only [List.foldl_cons]
    have h1 := ih (closeWake cfg c b w p)
    have h2 := closeWake_mono cfg c b w p g
    exact ⟨Nat.le_trans h2.1 h1.1, h1.2.1.trans h2.2.1, h1.2.2.trans h2.2.2⟩

/-- every waiter whose registration is current (and whose fiber can be resumed) is scheduled by the wake loop:
    its sched_id is bumped, i.e. a task for it was appended -/
theorem closeWake_fold_wakes (cfg : Cfg) (c : Nat) (b : Bool) (ps : List Pending) :
    ∀ (w : World) (p : Pending), p ∈ ps → p.sched = (w.fibers p.fiber).sched →
      fiberCanResume (w.fibers p.fiber) = true → (w.fibers p.fiber).canceled = false →
      (w.fibers p.fiber).sched < ((ps.foldl (closeWake cfg c b) w).fibers p.fiber).sched := by
  induction ps with
  | nil => intro w p hp; simp at hp
  | cons q rest ih =>
    intro w p hp hl hr hcn
    simp only [List.foldl_cons]
    have hm := closeWake_mono cfg c b w q p.fiber
    have hf := closeWake_fold_mono cfg c b rest p.fiber (closeWake cfg c b w q)
    by_cases hlt : (w.fibers p.fiber).sched < ((closeWake cfg c b w q).fibers p.fiber).sched
    · exact Nat.lt_of_lt_of_le hlt hf.1
    · have heq : ((closeWake cfg c b w q).fibers p.fiber).sched = (w.fibers p.fiber).sched := by omega
      rcases List.mem_cons.mp hp with hpq | hpr
      · -- p = q is live at its turn: closeWake schedules it
        subst hpq
        exfalso
        apply hlt
        unfold closeWake
        have hlive : p.live w.fibers = true := by simp [Pending.live, hl]
        simp only [hlive, hr, Bool.or_true, Bool.and_self, ↓reduceIte]
        rw [(schedule_bumps w p.fiber _ hcn).1]; omega
      · have := ih (closeWake cfg c b w q) p hpr (by rw [heq]; exact hl)
          (by unfold fiberCanResume at hr ⊢; rw [hm.2.1]; exact hr) (by rw [hm.2.2]; exact hcn)
        omega

/-- **close_wakes_all** (any state): closing an open channel empties both pending queues and schedules every waiter whose
    registration is current. -/
theorem chanClose_wakes_all (cfg : Cfg) (w : World) (c : Nat) (ho : (w.chans c).closed = false) (p : Pending)
    (hp : p ∈ (w.chans c).writePending ∨ p ∈ (w.chans c).readPending)
    (hl : p.sched = (w.fibers p.fiber).sched) (hr : fiberCanResume (w.fibers p.fiber) = true)
    (hcn : (w.fibers p.fiber).canceled = false) :
    ((chanClose cfg w c).chans c).closed = true ∧ ((chanClose cfg w c).chans c).readPending = [] ∧
    ((chanClose cfg w c).chans c).writePending = [] ∧
    (w.fibers p.fiber).sched < ((chanClose cfg w c).fibers p.fiber).sched := by
  unfold chanClose
  simp only [ho, Bool.false_eq_true, ↓reduceIte]
  let w0 := setChan w c { (w.chans c) with closed := true, readPending := [], writePending := [] }
  let w1 := (w.chans c).writePending.foldl (closeWake cfg c true) w0
  have hv1 := closeWake_fold_view cfg c true (w.chans c).writePending w0
  have hv2 := closeWake_fold_view cfg c false (w.chans c).readPending w1
  have hch : ((w.chans c).readPending.foldl (closeWake cfg c false) w1).chans c = w0.chans c := by
    rw [hv2.1, hv1.1]
  refine ⟨by rw [hch]; simp [w0, setChan], by rw [hch]; simp [w0, setChan], by rw [hch]; simp [w0, setChan], ?_⟩
  have hm1 := closeWake_fold_mono cfg c true (w.chans c).writePending p.fiber w0
  have hm2 := closeWake_fold_mono cfg c false (w.chans c).readPending p.fiber w1
  rcases hp with hpw | hpr
  · have := closeWake_fold_wakes cfg c true (w.chans c).writePending w0 p hpw hl hr hcn
    exact Nat.lt_of_lt_of_le this hm2.1
  · by_cases hlt : (w0.fibers p.fiber).sched < (w1.fibers p.fiber).sched
    · exact Nat.lt_of_lt_of_le hlt hm2.1
    · have heq : (w1.fibers p.fiber).sched = (w.fibers p.fiber).sched :=
        Nat.le_antisymm (Nat.le_of_not_lt hlt) hm1.1
      have := closeWake_fold_wakes cfg c false (w.chans c).readPending w1 p hpr (by rw [heq]; exact hl)
        (by unfold fiberCanResume at hr ⊢; rw [hm1.2.1]; exact hr) (by rw [hm1.2.2]; exact hcn)
      exact heq ▸ this

end JanetModel.Ev
