/- Lemmas about the event-loop model (`Ev/Model.lean`), for every configuration `cfg`; `Props/C06.lean` instantiates them
   with the configuration extracted from the current source. -/
import JanetModel.Ev.Model
namespace JanetModel.Ev

/-! ### basic facts about `schedule` -/

theorem scheduleGeneral_chans (w : World) (f : Nat) (v : Val) (s : Sig) (b : Bool) :
    (scheduleGeneral w f v s b).chans = w.chans := by
  unfold scheduleGeneral
  by_cases h : (w.fibers f).canceled = true <;> simp [h, setFiber]

theorem scheduleGeneral_ghost (w : World) (f : Nat) (v : Val) (s : Sig) (b : Bool) :
    (scheduleGeneral w f v s b).ghost = w.ghost := by
  unfold scheduleGeneral
  by_cases h : (w.fibers f).canceled = true <;> simp [h, setFiber]

theorem schedule_chans (w : World) (f : Nat) (v : Val) : (schedule w f v).chans = w.chans :=
  scheduleGeneral_chans w f v .ok false

theorem schedule_ghost (w : World) (f : Nat) (v : Val) : (schedule w f v).ghost = w.ghost :=
  scheduleGeneral_ghost w f v .ok false

theorem schedule_sched_mono (w : World) (f : Nat) (v : Val) (g : Nat) :
    (w.fibers g).sched ≤ ((schedule w f v).fibers g).sched := by
  unfold schedule scheduleGeneral
  by_cases h : (w.fibers f).canceled = true
  · simp [h]
  · by_cases hg : g = f <;> simp [h, setFiber, hg]

theorem schedule_status (w : World) (f : Nat) (v : Val) (g : Nat) :
    ((schedule w f v).fibers g).status = (w.fibers g).status ∧
    ((schedule w f v).fibers g).canceled = (w.fibers g).canceled := by
  unfold schedule scheduleGeneral
  by_cases h : (w.fibers f).canceled = true
  · simp [h]
  · by_cases hg : g = f
    · subst hg; simp [h, setFiber]
    · simp [h, setFiber, hg]

/-- scheduling a fiber that is not cancelled bumps its sched_id and appends a task carrying the new id -/
theorem schedule_bumps (w : World) (f : Nat) (v : Val) (h : (w.fibers f).canceled = false) :
    ((schedule w f v).fibers f).sched = (w.fibers f).sched + 1 ∧
    (schedule w f v).runq = w.runq ++ [⟨f, v, .ok, (w.fibers f).sched + 1⟩] := by
  unfold schedule scheduleGeneral
  simp [h, setFiber]

theorem schedule_runq_mono (w : World) (f : Nat) (v : Val) (t : Task) (ht : t ∈ w.runq) :
    t ∈ (schedule w f v).runq := by
  unfold schedule scheduleGeneral
  by_cases h : (w.fibers f).canceled = true <;> simp [h, setFiber, ht]

/-! ### push: the blocking rule -/

theorem popLiveReader_none_iff (fibers : Nat → Fiber) (rp : List Pending) :
    (popLiveReader fibers rp).1 = none ↔ hasLiveReader fibers rp = false := by
  induction rp with
  | nil => simp [popLiveReader, hasLiveReader]
  | cons p rest ih =>
    unfold popLiveReader
    by_cases h : p.live fibers = true
    · simp [h, hasLiveReader]
    · simp only [h]
      simp only [hasLiveReader] at ih ⊢
      simp [h, ih]

/-- **give_blocks_iff** (any state): on an open channel a give completes without blocking exactly when a live reader is
    pending or the channel is below capacity. -/
theorem give_blocks_iff (cfg : Cfg) (hs : cfg.pushBlocksStrict = true) (w : World) (f c x mode : Nat)
    (w' : World) (b : Bool) (h : chanPush cfg w f c x mode = .ok w' b) :
    b = false ↔ (hasLiveReader w.fibers (w.chans c).readPending = true ∨
                 (w.chans c).items.length < (w.chans c).limit) := by
  unfold chanPush at h
  by_cases hc : (w.chans c).closed = true
  · simp [hc] at h
  · simp only [hc] at h
    have hn := popLiveReader_none_iff w.fibers (w.chans c).readPending
    rcases hq : popLiveReader w.fibers (w.chans c).readPending with ⟨r, rp⟩
    rw [hq] at hn
    simp only [addPushed] at h
    rw [hq] at h
    cases r with
    | none =>
      have hno : hasLiveReader w.fibers (w.chans c).readPending = false := hn.mp rfl
      simp only [pushBlocks, hs, List.length_append, List.length_cons, List.length_nil] at h
      by_cases hb : (w.chans c).items.length + (0 + 1) > (w.chans c).limit
      · simp only [hb, decide_true] at h
        by_cases hm : mode = 2
        · simp [hm] at h
          rw [← h.2, hno]; simp; omega
        · simp [hm] at h
          rw [← h.2, hno]; simp; omega
      · simp only [hb, decide_false] at h
        simp at h
        rw [← h.2, hno]; simp; omega
    | some r =>
      have hyes : hasLiveReader w.fibers (w.chans c).readPending = true := by
        cases hh : hasLiveReader w.fibers (w.chans c).readPending
        · have := hn.mpr hh; simp at this
        · rfl
      simp at h
      rw [← h.2, hyes]; simp

/-- **take_blocks_iff** (any state): on an open channel a take has to wait exactly when the channel holds no item. -/
theorem take_blocks_iff (cfg : Cfg) (w : World) (f c mode : Nat) (ho : (w.chans c).closed = false) :
    (∃ w', chanPop cfg w f c mode = .blocked w') ↔ (w.chans c).items = [] := by
  unfold chanPop
  simp only [ho]
  cases hi : (w.chans c).items with
  | nil =>
    by_cases hm : mode = 2 <;> simp [hm]
  | cons x rest =>
    simp only []
    rcases popWriter cfg.popSkipsStaleWriter (addHanded w c x).fibers (w.chans c).writePending with ⟨wr, wp⟩
    cases wr <;> simp

/-- a take that does not block returns the head of `items` and leaves the tail (FIFO use of the queue) -/
theorem chanPop_head (cfg : Cfg) (w : World) (f c mode : Nat) (w' : World) (r : Option Nat)
    (ho : (w.chans c).closed = false) (h : chanPop cfg w f c mode = .got w' r) :
    ∃ x rest, (w.chans c).items = x :: rest ∧ r = some x ∧ (w'.chans c).items = rest := by
  unfold chanPop at h
  simp only [ho] at h
  cases hi : (w.chans c).items with
  | nil =>
    rw [hi] at h
    by_cases hm : mode = 2 <;> simp [hm] at h
  | cons x rest =>
    rw [hi] at h
    simp only [] at h
    rcases hq : popWriter cfg.popSkipsStaleWriter (addHanded w c x).fibers (w.chans c).writePending with ⟨wr, wp⟩
    rw [hq] at h
    cases wr with
    | none =>
      simp at h
      refine ⟨x, rest, rfl, h.2.symm, ?_⟩
      rw [← h.1]; simp [setChan]
    | some p =>
      simp at h
      refine ⟨x, rest, rfl, h.2.symm, ?_⟩
      rw [← h.1, schedule_chans]; simp [setChan]

/-- a give that finds no live reader appends to the tail of `items` -/
theorem chanPush_tail (cfg : Cfg) (w : World) (f c x mode : Nat) (w' : World) (b : Bool)
    (hr : hasLiveReader w.fibers (w.chans c).readPending = false)
    (h : chanPush cfg w f c x mode = .ok w' b) : (w'.chans c).items = (w.chans c).items ++ [x] := by
  unfold chanPush at h
  by_cases hc : (w.chans c).closed = true
  · simp [hc] at h
  · simp only [hc] at h
    have hn := (popLiveReader_none_iff w.fibers (w.chans c).readPending).mpr hr
    rcases hq : popLiveReader w.fibers (w.chans c).readPending with ⟨r, rp⟩
    rw [hq] at hn
    simp only [addPushed] at h
    rw [hq] at h
    simp only [] at hn
    subst hn
    simp only [] at h
    by_cases hb : pushBlocks cfg ((w.chans c).items.length + 1) (w.chans c).limit = true
    · by_cases hm : mode = 2
      · simp [hb, hm] at h; rw [← h.1]; simp [setChan]
      · simp [hb, hm] at h; rw [← h.1]; simp [setChan]
    · simp [hb] at h; rw [← h.1]; simp [setChan]

/-! ### select: exactly one clause -/

theorem chanPush_other (cfg : Cfg) (w : World) (f c x mode : Nat) (w' : World) (b : Bool)
    (h : chanPush cfg w f c x mode = .ok w' b) (c' : Nat) (hc : c' ≠ c) : w'.chans c' = w.chans c' := by
  unfold chanPush at h
  by_cases hcl : (w.chans c).closed = true
  · simp [hcl] at h
  · simp only [hcl] at h
    simp only [addPushed] at h
    rcases hq : popLiveReader w.fibers (w.chans c).readPending with ⟨r, rp⟩
    rw [hq] at h
    cases r with
    | none =>
      simp only [] at h
      by_cases hb : pushBlocks cfg ((w.chans c).items.length + 1) (w.chans c).limit = true
      · by_cases hm : mode = 2
        · simp [hb, hm] at h; rw [← h.1]; simp [setChan, hc]
        · simp [hb, hm] at h; rw [← h.1]; simp [setChan, hc]
      · simp [hb] at h; rw [← h.1]; simp [setChan, hc]
    | some r =>
      simp at h
      rw [← h.1, schedule_chans]; simp [addHanded, setChan, hc]

theorem chanPop_other (cfg : Cfg) (w : World) (f c mode : Nat) (c' : Nat) (hc : c' ≠ c) :
    (∀ w' r, chanPop cfg w f c mode = .got w' r → w'.chans c' = w.chans c') ∧
    (∀ w', chanPop cfg w f c mode = .blocked w' → w'.chans c' = w.chans c') := by
  unfold chanPop
  by_cases hcl : (w.chans c).closed = true
  · simp [hcl]
  · simp only [hcl]
    cases hi : (w.chans c).items with
    | nil =>
      by_cases hm : mode = 2
      · simp [hm]
      · simp [hm]; simp [setChan, hc]
    | cons x rest =>
      simp only []
      rcases hq : popWriter cfg.popSkipsStaleWriter (addHanded w c x).fibers (w.chans c).writePending with ⟨wr, wp⟩
      cases wr with
      | none => simp; simp [setChan, addHanded, hc]
      | some p => simp; rw [schedule_chans]; simp [setChan, addHanded, hc]

/-- `v` is a result of clause `cl` -/
def Val.ofClause (v : Val) (cl : Clause) : Prop :=
  v = .close cl.chan ∨ (∃ c x, cl = .give c x ∧ v = .give c) ∨ (∃ c x, cl = .take c ∧ v = .take c x)

/-- **select_exactly_one**, immediate case (any state, any clause list): when the first loop of `ev/select` returns, the
    result is the result of exactly one of its clauses and no channel other than that clause's channel has changed. -/
theorem choiceImmediate_one (cfg : Cfg) (f : Nat) (cls : List Clause) :
    ∀ (w w' : World) (v : Val), choiceImmediate cfg w f cls = some (w', v) →
      ∃ cl ∈ cls, v.ofClause cl ∧ ∀ c', c' ≠ cl.chan → w'.chans c' = w.chans c' := by
  induction cls with
  | nil => intro w w' v h; simp [choiceImmediate] at h
  | cons cl rest ih =>
    intro w w' v h
    cases cl with
    | give c x =>
      unfold choiceImmediate at h
      by_cases hcl : (w.chans c).closed = true
      · simp [hcl] at h
        refine ⟨.give c x, by simp, ?_, ?_⟩
        · left; rw [← h.2]; rfl
        · intro c' _; rw [← h.1]
      · simp only [hcl] at h
        by_cases hr : (choiceReady cfg (w.chans c).items.length (w.chans c).limit
            || (cfg.choiceGiveSeesReader && hasLiveReader w.fibers (w.chans c).readPending)) = true
        · simp only [hr] at h
          cases hp : chanPush cfg w f c x 1 with
          | closedErr =>
            rw [hp] at h; simp at h
            refine ⟨.give c x, by simp, ?_, ?_⟩
            · left; rw [← h.2]; rfl
            · intro c' _; rw [← h.1]
          | ok w1 b =>
            rw [hp] at h; simp at h
            refine ⟨.give c x, by simp, ?_, ?_⟩
            · right; left; exact ⟨c, x, rfl, h.2.symm⟩
            · intro c' hc'; rw [← h.1]; exact chanPush_other cfg w f c x 1 w1 b hp c' hc'
        · simp only [hr] at h
          obtain ⟨cl, hm, hv, ho⟩ := ih w w' v (by simpa using h)
          exact ⟨cl, by simp [hm], hv, ho⟩
    | take c =>
      unfold choiceImmediate at h
      by_cases hcl : (w.chans c).closed = true
      · simp [hcl] at h
        refine ⟨.take c, by simp, ?_, ?_⟩
        · left; rw [← h.2]; rfl
        · intro c' _; rw [← h.1]
      · simp only [hcl] at h
        by_cases hi : (w.chans c).items = []
        · simp [hi] at h
          obtain ⟨cl, hm, hv, ho⟩ := ih w w' v h
          exact ⟨cl, by simp [hm], hv, ho⟩
        · simp [hi] at h
          have hoth := chanPop_other cfg w f c 1
          cases hp : chanPop cfg w f c 1 with
          | blocked w1 =>
            have := (take_blocks_iff cfg w f c 1 (by simpa using hcl)).mp ⟨w1, hp⟩
            exact absurd this hi
          | got w1 r =>
            rw [hp] at h
            cases r with
            | none =>
              simp at h
              refine ⟨.take c, by simp, ?_, ?_⟩
              · left; rw [← h.2]; rfl
              · intro c' hc'; rw [← h.1]; exact (hoth c' hc').1 w1 none hp
            | some x =>
              simp at h
              refine ⟨.take c, by simp, ?_, ?_⟩
              · right; right; exact ⟨c, x, rfl, h.2.symm⟩
              · intro c' hc'; rw [← h.1]; exact (hoth c' hc').1 w1 (some x) hp

end JanetModel.Ev
