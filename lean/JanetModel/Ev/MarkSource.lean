/- C06, garbage collection of queued values: obligations on the CURRENT source's channel mark functions.
   `currentMarkItems` / `currentMarkPending` are the walks tools/gen/ev.py extracted from janet_chanat_mark /
   janet_chanat_mark_fq (loop bounds as structure, Gen/Ev.lean).  The module fails to check on a tree whose walk is not
   the reference one (e.g. a walk that stops at `capacity` when the ring has wrapped), and is kept apart from
   Props/C06.lean and Ev/SourceObligations.lean so that only these theorems break on such a tree. -/
import JanetModel.Ev.MarkLemmas
import JanetModel.Ev.Current
namespace JanetModel.Props.C06
open JanetModel.Ev

/-- the walks extracted from the current ev.c are the two-branch walk `head..tail` / `head..capacity, 0..tail` -/
theorem current_mark_walks : currentMarkItems = MarkWalk.janet ∧ currentMarkPending = MarkWalk.janet := by decide

/-- **mark_visits_exactly_queued**: on every well-formed JanetQueue - wrapped or not, whatever its capacity - the
    channel's mark callback passes to janet_mark exactly the queued elements, each once, in queue order: the items ring
    (janet_chanat_mark) and the pending-reader / pending-writer queues (janet_chanat_mark_fq: the waiting fibers). -/
theorem mark_visits_exactly_queued {α : Type} (q : RingQ α) (h : q.WF) :
    currentMarkItems.visit q = q.toList ∧ currentMarkPending.visit q = q.toList := by
  rw [current_mark_walks.1, current_mark_walks.2]
  exact ⟨janet_visit q h, janet_visit q h⟩

/-- **take_never_dangling** ("nothing is received that was not given", on heap values): for EVERY sequence of gives
    (allocate + janet_q_push), takes (janet_q_pop) and collections - a collection at any moment, with ANY set of roots
    outside the channel, frees everything neither rooted nor visited by the channel's mark walk - starting from
    janet_q_init: every value the channel hands out is still allocated when it is handed out, every value still queued
    is allocated, and the values handed out followed by the values queued are exactly the values given, in order. -/
theorem take_never_dangling (ops : List GcOp) :
    let s := GcChan.run currentMarkItems maxQCapacity ops
    (∀ p ∈ s.taken, p.2 = true) ∧ (∀ x ∈ s.q.toList, s.live x = true) ∧
    s.taken.map Prod.fst ++ s.q.toList = s.given := by
  intro s
  have h : s.Inv := by
    show (GcChan.run currentMarkItems maxQCapacity ops).Inv
    rw [current_mark_walks.1]; exact GcChan.run_inv maxQCapacity ops
  exact ⟨h.taken_live, h.queued_live, h.fifo⟩

/-- **waiting_fiber_never_freed** (no lost wake-up through the collector): the same machine read as a pending-reader /
    pending-writer queue - `give f` = fiber `f` registers (janet_q_push of its JanetChannelPending entry; it is running, hence
    allocated), `take` = the entry is popped to wake or skip its fiber, `collect roots` = a collection in which the channel
    marks what janet_chanat_mark_fq visits.  For every history: every fiber whose entry is popped is still allocated, every
    fiber still registered is allocated, and the entries come out in registration order. -/
theorem waiting_fiber_never_freed (ops : List GcOp) :
    let s := GcChan.run currentMarkPending maxQCapacity ops
    (∀ p ∈ s.taken, p.2 = true) ∧ (∀ f ∈ s.q.toList, s.live f = true) ∧
    s.taken.map Prod.fst ++ s.q.toList = s.given := by
  intro s
  have h : s.Inv := by
    show (GcChan.run currentMarkPending maxQCapacity ops).Inv
    rw [current_mark_walks.2]; exact GcChan.run_inv maxQCapacity ops
  exact ⟨h.taken_live, h.queued_live, h.fifo⟩

/-- a queued value survives a collection that has no other root at all -/
theorem queued_value_survives_collection (ops : List GcOp) (x : Nat) :
    let s := GcChan.run currentMarkItems maxQCapacity ops
    x ∈ s.q.toList → (GcChan.step currentMarkItems maxQCapacity s (.collect [])).live x = true := by
  intro s hx
  have h := take_never_dangling (ops ++ [.collect []])
  simp only [GcChan.run, List.foldl_append, List.foldl_cons, List.foldl_nil] at h
  exact h.2.1 x hx

/-- the pump `give x2, take x2, give x2, take, give` on a channel of capacity 2 leaves the ring wrapped (head = 3,
    tail = 1: the newest value sits in slot 0); non-vacuity of the theorems above: after a collection with no root both
    queued values are still allocated and are handed out -/
def wrapPump : List GcOp := [.give 1, .give 2, .take, .take, .give 3, .give 4, .take, .give 5, .collect [], .take, .take]

example : let s := GcChan.run currentMarkItems maxQCapacity (wrapPump.take 9)
          s.q.head = 3 ∧ s.q.tail = 1 ∧ s.q.cap = 4 ∧ s.q.toList = [4, 5] ∧ s.live 4 = true ∧ s.live 5 = true := by decide
example : (GcChan.run currentMarkItems maxQCapacity wrapPump).taken = [(1, true), (2, true), (3, true), (4, true), (5, true)] := by
  decide

/-- the theorem depends on the walk: with a walk that stops at `capacity` when the ring has wrapped (the low segment
    `[0, tail)` unvisited) the same pump hands out a freed object - the taker receives something that was never given -/
theorem short_walk_hands_out_freed_value :
    (GcChan.run ⟨[⟨.head, .tail⟩], [⟨.head, .cap⟩]⟩ maxQCapacity wrapPump).taken
      = [(1, true), (2, true), (3, true), (4, true), (5, false)] := by decide

end JanetModel.Props.C06
