/- Ghost of the operation a fiber is suspended in (NOT in the C): for every fiber, the last action in which it
   suspended and the sched_id its registrations were made with.  The ghost is a function of the action history only -
   `stepG` runs `Ev.step` unchanged and records beside it - so `(runG ..).1 = run ..` (`runG_fst`) and every theorem about
   `run` is a theorem about the first component.  CORE LEAN ONLY (the driver prints the ghost for the `registration-kept`
   oracle). -/
import JanetModel.Ev.Model
namespace JanetModel.Ev

/-- the pending operation of a suspended fiber: the action it suspended in and the sched_id the fiber had when that action
    began (= the sched_id every registration made by the action carries) -/
structure POp where
  act : Action
  sched : Nat
  deriving Repr, DecidableEq

abbrev Ops := Nat → Option POp

/-- channels on which the operation registers the fiber as a pending READER -/
def Action.readChans : Action → List Nat
  | .take c => [c]
  | .select cls => cls.filterMap (fun cl => match cl with | .take c => some c | .give _ _ => none)
  | _ => []

/-- channels on which the operation registers the fiber as a pending WRITER -/
def Action.writeChans : Action → List Nat
  | .give c _ => [c]
  | .select cls => cls.filterMap (fun cl => match cl with | .give c _ => some c | .take _ => none)
  | _ => []

def Action.isSleep : Action → Bool
  | .sleep _ => true
  | _ => false

/-- one transition of the model, with the ghost recorded beside it: when the running fiber `f` suspends in action `a`
    the ghost of `f` becomes `(a, sched_id of f before the action)`; nothing else ever changes the ghost -/
def stepG (cfg : Cfg) (w : World) (g : Ops) (a : Action) : World × Ops :=
  let r := step cfg w a
  (r.1, match w.current, r.2 with
        | some f, .await => fun i => if i = f then some ⟨a, (w.fibers f).sched⟩ else g i
        | _, _ => g)

def runG (cfg : Cfg) (w : World) (g : Ops) : List Action → World × Ops
  | [] => (w, g)
  | a :: as => runG cfg (stepG cfg w g a).1 (stepG cfg w g a).2 as

theorem stepG_fst (cfg : Cfg) (w : World) (g : Ops) (a : Action) : (stepG cfg w g a).1 = (step cfg w a).1 := rfl

theorem runG_fst (cfg : Cfg) (as : List Action) : ∀ (w : World) (g : Ops), (runG cfg w g as).1 = run cfg w as := by
  induction as with
  | nil => intro w g; rfl
  | cons a rest ih => intro w g; simp only [runG, run, List.foldl_cons]; rw [ih]; rfl

/-- `f` has a pending-reader entry with sched_id `s` on channel `c` -/
def regR (w : World) (f s c : Nat) : Prop := ∃ p ∈ (w.chans c).readPending, p.fiber = f ∧ p.sched = s
/-- `f` has a pending-writer entry with sched_id `s` on channel `c` -/
def regW (w : World) (f s c : Nat) : Prop := ∃ p ∈ (w.chans c).writePending, p.fiber = f ∧ p.sched = s

/-- executable form, for the driver / `decide` -/
def regRb (w : World) (f s c : Nat) : Bool := (w.chans c).readPending.any (fun p => p.fiber == f && p.sched == s)
def regWb (w : World) (f s c : Nat) : Bool := (w.chans c).writePending.any (fun p => p.fiber == f && p.sched == s)

end JanetModel.Ev

