/- Channel-level invariant of the event-loop model, for every action sequence:
     * a pending entry never carries a sched_id from the future;
     * a live pending reader implies `items = []`;
     * #live pending writers = 0  or  #live pending writers + limit ≤ #items   (so a live writer implies count > limit);
     * a closed channel has no pending entries;
   and, from it, the FIFO law  pushed(c) = handed-out(c) ++ items(c)  as LISTS.
   Needs two facts about the source: push blocks on `count > limit`, pop skips stale writers. -/
import JanetModel.Ev.Lemmas
namespace JanetModel.Ev

def liveCount (fibers : Nat → Fiber) (l : List Pending) : Nat := l.countP (fun p => p.live fibers)

structure ChanOK (fibers : Nat → Fiber) (ch : Chan) : Prop where
  bound : ∀ p ∈ ch.readPending ++ ch.writePending, p.sched ≤ (fibers p.fiber).sched
  reader : hasLiveReader fibers ch.readPending = true → ch.items = []
  writer : liveCount fibers ch.writePending = 0 ∨ liveCount fibers ch.writePending + ch.limit ≤ ch.items.length
  closed : ch.closed = true → ch.readPending = [] ∧ ch.writePending = []

def ChanInv (w : World) : Prop := ∀ c, ChanOK w.fibers (w.chans c)

theorem live_iff (fibers : Nat → Fiber) (p : Pending) : p.live fibers = true ↔ p.sched = (fibers p.fiber).sched := by
  simp [Pending.live]

/-- raising sched_ids can only make entries stale -/
theorem live_anti {fibers fibers' : Nat → Fiber} (hle : ∀ f, (fibers f).sched ≤ (fibers' f).sched) (p : Pending)
    (hb : p.sched ≤ (fibers p.fiber).sched) (h : p.live fibers' = true) : p.live fibers = true := by
  rw [live_iff] at h ⊢
  have := hle p.fiber
  omega

theorem ChanOK.mono {fibers fibers' : Nat → Fiber} {ch : Chan} (hle : ∀ f, (fibers f).sched ≤ (fibers' f).sched)
    (h : ChanOK fibers ch) : ChanOK fibers' ch := by
  refine ⟨fun p hp => Nat.le_trans (h.bound p hp) (hle _), ?_, ?_, h.closed⟩
  · intro hr
    apply h.reader
    unfold hasLiveReader at hr ⊢
    rw [List.any_eq_true] at hr ⊢
    obtain ⟨p, hp, hl⟩ := hr
    exact ⟨p, hp, live_anti hle p (h.bound p (List.mem_append_left _ hp)) hl⟩
  · have hcnt : liveCount fibers' ch.writePending ≤ liveCount fibers ch.writePending := by
      unfold liveCount
      apply List.countP_mono_left
      intro p hp hl
      exact live_anti hle p (h.bound p (List.mem_append_right _ hp)) hl
    rcases h.writer with h0 | hw
    · left; omega
    · by_cases hz : liveCount fibers' ch.writePending = 0
      · left; exact hz
      · right; omega

theorem ChanInv.frame {w w' : World} (h : Frame w w') (hi : ChanInv w) : ChanInv w' := by
  intro c
  rw [h.chans]
  exact (hi c).mono h.sched

/-- replacing one channel (fibers untouched) -/
theorem ChanInv.update {w w' : World} (c : Nat) (ch' : Chan) (hfib : w'.fibers = w.fibers)
    (hch : ∀ c', w'.chans c' = if c' = c then ch' else w.chans c') (hok : ChanOK w.fibers ch') (hi : ChanInv w) :
    ChanInv w' := by
  intro c'
  rw [hfib, hch]
  by_cases h : c' = c
  · simp [h]; exact hok
  · simp [h]; exact hi c'

theorem ChanInv.setChan {w : World} (w1 : World) (c : Nat) (ch' : Chan) (hf : w1.fibers = w.fibers)
    (hc : w1.chans = w.chans) (hok : ChanOK w.fibers ch') (hi : ChanInv w) : ChanInv (setChan w1 c ch') := by
  intro c'
  show ChanOK (w1.fibers) (if c' = c then ch' else w1.chans c')
  rw [hf, hc]
  by_cases h : c' = c
  · simp [h]; exact hok
  · simp [h]; exact hi c'

theorem popLiveReader_spec (fibers : Nat → Fiber) : ∀ (rp : List Pending) (o : Option Pending) (rest : List Pending),
    popLiveReader fibers rp = (o, rest) →
    (∀ p ∈ rest, p ∈ rp) ∧ (o = none → rest = [] ∧ hasLiveReader fibers rp = false) ∧
    (∀ r, o = some r → r ∈ rp ∧ r.live fibers = true ∧ hasLiveReader fibers rp = true) := by
  intro rp
  induction rp with
  | nil => intro o rest h; simp [popLiveReader] at h; obtain ⟨h1, h2⟩ := h; subst h1; subst h2; simp [hasLiveReader]
  | cons q tl ih =>
    intro o rest h
    unfold popLiveReader at h
    by_cases hl : q.live fibers = true
    · simp [hl] at h
      refine ⟨?_, ?_, ?_⟩
      · intro p hp; rw [← h.2] at hp; exact List.mem_cons_of_mem _ hp
      · intro ho; rw [← h.1] at ho; simp at ho
      · intro r hr; rw [← h.1] at hr; simp at hr; subst hr; simp [hl, hasLiveReader]
    · simp [hl] at h
      obtain ⟨h1, h2, h3⟩ := ih o rest h
      refine ⟨fun p hp => List.mem_cons_of_mem _ (h1 p hp), ?_, ?_⟩
      · intro ho; obtain ⟨a, b⟩ := h2 ho; refine ⟨a, ?_⟩
        unfold hasLiveReader at b ⊢; simp [hl]; simpa using b
      · intro r hr; obtain ⟨a, b, c⟩ := h3 r hr
        refine ⟨List.mem_cons_of_mem _ a, b, ?_⟩
        unfold hasLiveReader at c ⊢; simp [hl]; simpa using c

theorem popWriter_spec (fibers : Nat → Fiber) : ∀ (wp : List Pending) (o : Option Pending) (rest : List Pending),
    popWriter true fibers wp = (o, rest) →
    (∀ p ∈ rest, p ∈ wp) ∧ (o = none → rest = [] ∧ liveCount fibers wp = 0) ∧
    (∀ r, o = some r → r ∈ wp ∧ r.live fibers = true ∧ liveCount fibers wp = liveCount fibers rest + 1) := by
  intro wp
  induction wp with
  | nil => intro o rest h; simp [popWriter] at h; obtain ⟨h1, h2⟩ := h; subst h1; subst h2; simp [liveCount]
  | cons q tl ih =>
    intro o rest h
    unfold popWriter at h
    by_cases hl : q.live fibers = true
    · simp [hl] at h
      refine ⟨?_, ?_, ?_⟩
      · intro p hp; rw [← h.2] at hp; exact List.mem_cons_of_mem _ hp
      · intro ho; rw [← h.1] at ho; simp at ho
      · intro r hr; rw [← h.1] at hr; simp at hr; subst hr
        refine ⟨by simp, hl, ?_⟩
        rw [← h.2]; simp [liveCount, List.countP_cons, hl]
    · simp [hl] at h
      obtain ⟨h1, h2, h3⟩ := ih o rest h
      refine ⟨fun p hp => List.mem_cons_of_mem _ (h1 p hp), ?_, ?_⟩
      · intro ho; obtain ⟨a, b⟩ := h2 ho; refine ⟨a, ?_⟩
        simp [liveCount, List.countP_cons, hl] at b ⊢; exact b
      · intro r hr; obtain ⟨a, b, c⟩ := h3 r hr
        refine ⟨List.mem_cons_of_mem _ a, b, ?_⟩
        simp [liveCount, List.countP_cons, hl] at c ⊢; exact c

/-! ### push -/

/-- what push_with_lock does to the channel, the history and the fibers (configuration with `count > limit`) -/
theorem chanPush_cases (cfg : Cfg) (hs : cfg.pushBlocksStrict = true) (w : World) (f c x mode : Nat) (w' : World) (b : Bool)
    (h : chanPush cfg w f c x mode = .ok w' b) :
    (w.chans c).closed = false ∧ w'.ghost.pushed = w.ghost.pushed ++ [(c, x)] ∧
    (∀ c', c' ≠ c → w'.chans c' = w.chans c') ∧
    ( -- no live reader: enqueue, maybe register as writer
      (hasLiveReader w.fibers (w.chans c).readPending = false ∧ w'.fibers = w.fibers ∧ w'.runq = w.runq ∧
        w'.ghost.handed = w.ghost.handed ∧
        b = decide ((w.chans c).items.length + 1 > (w.chans c).limit) ∧
        (w'.chans c).readPending = [] ∧ (w'.chans c).items = (w.chans c).items ++ [x] ∧
        (w'.chans c).limit = (w.chans c).limit ∧ (w'.chans c).closed = (w.chans c).closed ∧
        (w'.chans c).writePending = (w.chans c).writePending ++
          (if b = true ∧ mode ≠ 2 then [Pending.mk f (w.fibers f).sched (if mode = 0 then .write else .choiceWrite)] else []))
      ∨ -- live reader r: hand over
      (∃ r rest, popLiveReader w.fibers (w.chans c).readPending = (some r, rest) ∧ b = false ∧
        w'.ghost.handed = w.ghost.handed ++ [(c, x)] ∧
        w' = schedule (addHanded (setChan (addPushed w c x) c { (w.chans c) with readPending := rest }) c x) r.fiber
               (if r.mode = .choiceRead then .take c x else .num x))) := by
  unfold chanPush at h
  by_cases hcl : (w.chans c).closed = true
  · simp [hcl] at h
  · simp only [hcl] at h
    have hcl' : (w.chans c).closed = false := by simpa using hcl
    simp only [addPushed] at h
    rcases hq : popLiveReader w.fibers (w.chans c).readPending with ⟨r, rp⟩
    rw [hq] at h
    have hspec := popLiveReader_spec w.fibers _ _ _ hq
    cases r with
    | none =>
      obtain ⟨hrp, hno⟩ := hspec.2.1 rfl
      subst hrp
      simp only [] at h
      by_cases hb : pushBlocks cfg ((w.chans c).items.length + 1) (w.chans c).limit = true
      · have hb' : (w.chans c).limit < (w.chans c).items.length + 1 := by simpa [pushBlocks, hs] using hb
        by_cases hm : mode = 2
        · simp [hb, hm] at h
          obtain ⟨hw', hbv⟩ := h; subst hbv; subst hw'
          refine ⟨hcl', by simp [setChan], fun c' hc' => by simp [setChan, hc'], Or.inl ?_⟩
          exact ⟨hno, rfl, rfl, rfl, by simp [hb'], by simp [setChan], by simp [setChan], by simp [setChan],
            by simp [setChan, hcl'], by simp [setChan, hm]⟩
        · simp [hb, hm] at h
          obtain ⟨hw', hbv⟩ := h; subst hbv; subst hw'
          refine ⟨hcl', by simp [setChan], fun c' hc' => by simp [setChan, hc'], Or.inl ?_⟩
          exact ⟨hno, rfl, rfl, rfl, by simp [hb'], by simp [setChan], by simp [setChan], by simp [setChan],
            by simp [setChan, hcl'], by simp [setChan, hm]⟩
      · have hb' : ¬ (w.chans c).limit < (w.chans c).items.length + 1 := by simpa [pushBlocks, hs] using hb
        simp [hb] at h
        obtain ⟨hw', hbv⟩ := h; subst hbv; subst hw'
        refine ⟨hcl', by simp [setChan], fun c' hc' => by simp [setChan, hc'], Or.inl ?_⟩
        exact ⟨hno, rfl, rfl, rfl, by simp [hb'], by simp [setChan], by simp [setChan], by simp [setChan],
          by simp [setChan, hcl'], by simp [setChan]⟩
    | some r =>
      simp only [] at h
      injection h with h1 h2
      subst h1
      refine ⟨hcl', by rw [schedule_ghost]; simp [addHanded, setChan],
        fun c' hc' => by rw [schedule_chans]; simp [addHanded, setChan, hc'], Or.inr ⟨r, rp, rfl, h2.symm, ?_, ?_⟩⟩
      · rw [schedule_ghost]; simp [addHanded, setChan]
      · simp [addPushed, hcl']

theorem chanPush_chanInv (cfg : Cfg) (hs : cfg.pushBlocksStrict = true) (w : World) (f c x mode : Nat) (w' : World)
    (b : Bool) (h : chanPush cfg w f c x mode = .ok w' b) (hi : ChanInv w) : ChanInv w' := by
  obtain ⟨hopen, _, hoth, hcase⟩ := chanPush_cases cfg hs w f c x mode w' b h
  have hc := hi c
  rcases hcase with ⟨hno, hfib, _, _, hb, hrp, hit, hlim, hclo, hwp⟩ | ⟨r, rest, hq, _, _, hw'⟩
  · apply ChanInv.update c (w'.chans c) hfib (fun c' => by by_cases h' : c' = c <;> simp [h', hoth]) ?_ hi
    refine ⟨?_, ?_, ?_, ?_⟩
    · intro p hp
      rw [hrp, hwp] at hp
      simp only [List.nil_append] at hp
      rcases List.mem_append.mp hp with hp | hp
      · exact hc.bound p (List.mem_append_right _ hp)
      · split at hp
        · simp at hp; subst hp; simp
        · simp at hp
    · intro hr; rw [hrp] at hr; simp [hasLiveReader] at hr
    · rw [hwp, hit, hlim]
      simp only [List.length_append, List.length_cons, List.length_nil]
      by_cases hreg : b = true ∧ mode ≠ 2
      · have hbt : (w.chans c).items.length + 1 > (w.chans c).limit := by
          have := hreg.1; rw [hb] at this; simpa using this
        have hlive : liveCount w.fibers ((w.chans c).writePending ++
            (if b = true ∧ mode ≠ 2 then [Pending.mk f (w.fibers f).sched (if mode = 0 then Mode.write else Mode.choiceWrite)] else [])) =
            liveCount w.fibers (w.chans c).writePending + 1 := by
          rw [if_pos hreg]; simp [liveCount, List.countP_append, Pending.live]
        right
        rw [hlive]
        rcases hc.writer with h0 | hw
        · omega
        · omega
      · rw [if_neg hreg, List.append_nil]
        rcases hc.writer with h0 | hw
        · left; exact h0
        · right; omega
    · intro hcl; rw [hclo, hopen] at hcl; simp at hcl
  · have hspec := popLiveReader_spec w.fibers _ _ _ hq
    obtain ⟨hrin, _, hhas⟩ := hspec.2.2 r rfl
    have hitems := hc.reader hhas
    rw [hw']
    apply ChanInv.frame (schedule_frame _ _ _)
    show ChanInv (addHanded (setChan (addPushed w c x) c { (w.chans c) with readPending := rest }) c x)
    apply ChanInv.frame (w := setChan (addPushed w c x) c { (w.chans c) with readPending := rest })
      ⟨rfl, rfl, rfl, fun _ => Nat.le_refl _⟩
    apply ChanInv.setChan (addPushed w c x) c _ rfl rfl ?_ hi
    refine ⟨?_, fun _ => hitems, hc.writer, fun hcl => by simp [hopen] at hcl⟩
    intro p hp
    rcases List.mem_append.mp hp with hp | hp
    · exact hc.bound p (List.mem_append_left _ (hspec.1 p hp))
    · exact hc.bound p (List.mem_append_right _ hp)

/-! ### pop -/

theorem chanPop_chanInv (cfg : Cfg) (hk : cfg.popSkipsStaleWriter = true) (w : World) (f c mode : Nat) (hi : ChanInv w) :
    (∀ w' r, chanPop cfg w f c mode = .got w' r → ChanInv w') ∧
    (∀ w', chanPop cfg w f c mode = .blocked w' → ChanInv w') := by
  have hc := hi c
  unfold chanPop
  by_cases hcl : (w.chans c).closed = true
  · simp [hcl]; exact hi
  · simp only [hcl]
    cases hit : (w.chans c).items with
    | nil =>
      by_cases hm : mode = 2
      · simp [hm]; exact hi
      · simp [hm]
        apply ChanInv.setChan w c _ rfl rfl ?_ hi
        refine ⟨?_, fun _ => by simp [hit], by have := hc.writer; rw [hit] at this; simpa using this, fun h => by simp [hcl] at h⟩
        intro p hp
        simp only [List.append_assoc] at hp
        rcases List.mem_append.mp hp with hp | hp
        · exact hc.bound p (List.mem_append_left _ hp)
        · rcases List.mem_append.mp hp with hp | hp
          · simp at hp; subst hp; simp
          · exact hc.bound p (List.mem_append_right _ hp)
    | cons x rest =>
      simp only [hk]
      have hnoreader : hasLiveReader w.fibers (w.chans c).readPending = true → False := by
        intro hr; have := hc.reader hr; rw [hit] at this; simp at this
      have hlen : (w.chans c).items.length = rest.length + 1 := by rw [hit]; simp
      rcases hq : popWriter true (addHanded w c x).fibers (w.chans c).writePending with ⟨wr, wp⟩
      have hspec := popWriter_spec w.fibers _ _ _ hq
      cases wr with
      | none =>
        simp
        obtain ⟨hwp, _⟩ := hspec.2.1 rfl
        subst hwp
        apply ChanInv.setChan (addHanded w c x) c _ rfl rfl ?_ hi
        refine ⟨?_, fun hr => (hnoreader hr).elim, Or.inl (by simp [liveCount]), fun h => by simp [hcl] at h⟩
        intro p hp; simp at hp; exact hc.bound p (List.mem_append_left _ hp)
      | some p =>
        simp
        obtain ⟨_, _, hcount⟩ := hspec.2.2 p rfl
        apply ChanInv.frame (schedule_frame _ _ _)
        apply ChanInv.setChan (addHanded w c x) c _ rfl rfl ?_ hi
        refine ⟨?_, fun hr => (hnoreader hr).elim, ?_, fun h => by simp [hcl] at h⟩
        · intro q hq'
          rcases List.mem_append.mp hq' with hq' | hq'
          · exact hc.bound q (List.mem_append_left _ hq')
          · exact hc.bound q (List.mem_append_right _ (hspec.1 q hq'))
        · simp only []
          have hfe : (addHanded w c x).fibers = w.fibers := rfl
          rw [hfe]
          rcases hc.writer with h0 | hw
          · omega
          · by_cases hz : liveCount w.fibers wp = 0
            · left; exact hz
            · right; omega

/-! ### FIFO: per channel, pushed = handed out ++ still queued, as lists -/

def Fifo (w : World) : Prop := ∀ c, onChan w.ghost.pushed c = onChan w.ghost.handed c ++ (w.chans c).items

theorem Fifo.frame {w w' : World} (h : Frame w w') (hf : Fifo w) : Fifo w' := by
  intro c; rw [h.pushed, h.handed, h.chans]; exact hf c

theorem chanPush_fifo (cfg : Cfg) (hs : cfg.pushBlocksStrict = true) (w : World) (f c x mode : Nat) (w' : World)
    (b : Bool) (h : chanPush cfg w f c x mode = .ok w' b) (hi : ChanInv w) (hf : Fifo w) : Fifo w' := by
  obtain ⟨_, hp, hoth, hcase⟩ := chanPush_cases cfg hs w f c x mode w' b h
  intro c'
  by_cases hcc : c' = c
  · subst hcc
    rcases hcase with ⟨_, _, _, hh, _, _, hit, _, _, _⟩ | ⟨r, rest, hq, _, hh, hw'⟩
    · rw [hp, hh, hit, onChan_snoc]; simp [hf c', List.append_assoc]
    · have hspec := popLiveReader_spec w.fibers _ _ _ hq
      have hempty := (hi c').reader (hspec.2.2 r rfl).2.2
      have hitems : (w'.chans c').items = (w.chans c').items := by
        rw [hw', schedule_chans]; simp [addHanded, setChan]
      rw [hp, hh, hitems, onChan_snoc, onChan_snoc]
      have := hf c'
      rw [hempty] at this ⊢
      simp at this ⊢
      exact this
  · have hne : ¬ c = c' := fun e => hcc e.symm
    rcases hcase with ⟨_, _, _, hh, _⟩ | ⟨r, rest, _, _, hh, _⟩
    · rw [hp, hh, hoth c' hcc, onChan_snoc]; simp [hne]; exact hf c'
    · rw [hp, hh, hoth c' hcc, onChan_snoc, onChan_snoc]; simp [hne]; exact hf c'

theorem chanPop_fifo (cfg : Cfg) (w : World) (f c mode : Nat) (hf : Fifo w) :
    (∀ w' r, chanPop cfg w f c mode = .got w' r → Fifo w') ∧
    (∀ w', chanPop cfg w f c mode = .blocked w' → Fifo w') := by
  have he := chanPop_effect cfg w f c mode
  constructor
  · intro w' r h
    obtain ⟨hp, hcase⟩ := he.1 w' r h
    intro c'
    by_cases hcc : c' = c
    · subst hcc
      rcases hcase with ⟨_, hh, hi⟩ | ⟨x, rest, hitems, _, hh, hi⟩
      · rw [hp, hh, hi]; exact hf c'
      · rw [hp, hh, hi, onChan_snoc]; have := hf c'; rw [hitems] at this; simp [this]
    · have hne : ¬ c = c' := fun e => hcc e.symm
      have hoth := ((chanPop_other cfg w f c mode c' hcc).1 w' r h)
      rcases hcase with ⟨_, hh, _⟩ | ⟨x, rest, _, _, hh, _⟩
      · rw [hp, hh, hoth]; exact hf c'
      · rw [hp, hh, hoth, onChan_snoc]; simp [hne]; exact hf c'
  · intro w' h
    obtain ⟨hp, hh, hi⟩ := he.2 w' h
    intro c'
    by_cases hcc : c' = c
    · subst hcc; rw [hp, hh, hi]; exact hf c'
    · rw [hp, hh, (chanPop_other cfg w f c mode c' hcc).2 w' h]; exact hf c'

/-- the two facts about the source the channel invariant needs -/
structure CfgChan (cfg : Cfg) : Prop where
  strict : cfg.pushBlocksStrict = true
  skips : cfg.popSkipsStaleWriter = true

/-- channel invariant + FIFO law -/
def Good (w : World) : Prop := ChanInv w ∧ Fifo w

theorem Good.frame {w w' : World} (h : Frame w w') (hg : Good w) : Good w' := ⟨hg.1.frame h, hg.2.frame h⟩

theorem chanPush_good {cfg : Cfg} (hc : CfgChan cfg) {w : World} {f c x mode : Nat} {w' : World} {b : Bool}
    (h : chanPush cfg w f c x mode = .ok w' b) (hg : Good w) : Good w' :=
  ⟨chanPush_chanInv cfg hc.strict w f c x mode w' b h hg.1, chanPush_fifo cfg hc.strict w f c x mode w' b h hg.1 hg.2⟩

theorem chanPop_good {cfg : Cfg} (hc : CfgChan cfg) {w : World} {f c mode : Nat} (hg : Good w) :
    (∀ w' r, chanPop cfg w f c mode = .got w' r → Good w') ∧
    (∀ w', chanPop cfg w f c mode = .blocked w' → Good w') :=
  ⟨fun w' r h => ⟨(chanPop_chanInv cfg hc.skips w f c mode hg.1).1 w' r h, (chanPop_fifo cfg w f c mode hg.2).1 w' r h⟩,
   fun w' h => ⟨(chanPop_chanInv cfg hc.skips w f c mode hg.1).2 w' h, (chanPop_fifo cfg w f c mode hg.2).2 w' h⟩⟩

theorem choiceImmediate_good {cfg : Cfg} (hc : CfgChan cfg) (f : Nat) (cls : List Clause) :
    ∀ (w w' : World) (v : Val), choiceImmediate cfg w f cls = some (w', v) → Good w → Good w' := by
  induction cls with
  | nil => intro w w' v h; simp [choiceImmediate] at h
  | cons cl rest ih =>
    intro w w' v h hg
    cases cl with
    | give c x =>
      unfold choiceImmediate at h
      by_cases hcl : (w.chans c).closed = true
      · simp [hcl] at h; rw [← h.1]; exact hg
      · simp only [hcl] at h
        by_cases hr : (choiceReady cfg (w.chans c).items.length (w.chans c).limit
            || (cfg.choiceGiveSeesReader && hasLiveReader w.fibers (w.chans c).readPending)) = true
        · simp only [hr] at h
          cases hp : chanPush cfg w f c x 1 with
          | closedErr => rw [hp] at h; simp at h; rw [← h.1]; exact hg
          | ok w1 b => rw [hp] at h; simp at h; rw [← h.1]; exact chanPush_good hc hp hg
        · simp only [hr] at h
          exact ih w w' v (by simpa using h) hg
    | take c =>
      unfold choiceImmediate at h
      by_cases hcl : (w.chans c).closed = true
      · simp [hcl] at h; rw [← h.1]; exact hg
      · simp only [hcl] at h
        by_cases hi : (w.chans c).items = []
        · simp [hi] at h; exact ih w w' v h hg
        · simp [hi] at h
          have hpc := chanPop_good hc (f := f) (c := c) (mode := 1) hg
          cases hp : chanPop cfg w f c 1 with
          | blocked w1 => rw [hp] at h; simp at h; rw [← h.1]; exact hpc.2 w1 hp
          | got w1 r =>
            rw [hp] at h
            cases r with
            | none => simp at h; rw [← h.1]; exact hpc.1 w1 none hp
            | some x =>
              simp at h; rw [← h.1]
              exact Good.frame ⟨rfl, rfl, rfl, fun _ => Nat.le_refl _⟩ (hpc.1 w1 (some x) hp)

theorem choiceRegister_good {cfg : Cfg} (hc : CfgChan cfg) (f : Nat) (cls : List Clause) :
    ∀ (w : World), Good w → Good (choiceRegister cfg w f cls) := by
  induction cls with
  | nil => intro w h; simpa [choiceRegister] using h
  | cons cl rest ih =>
    intro w hg
    cases cl with
    | give c x =>
      unfold choiceRegister
      cases hp : chanPush cfg w f c x 1 with
      | closedErr => exact ih w hg
      | ok w1 b => exact ih w1 (chanPush_good hc hp hg)
    | take c =>
      unfold choiceRegister
      have hpc := chanPop_good hc (f := f) (c := c) (mode := 1) hg
      cases hp : chanPop cfg w f c 1 with
      | blocked w1 => exact ih w1 (hpc.2 w1 hp)
      | got w1 r => exact ih w1 (hpc.1 w1 r hp)

theorem chanClose_good (cfg : Cfg) (w : World) (c : Nat) (hg : Good w) : Good (chanClose cfg w c) := by
  unfold chanClose
  by_cases hcl : (w.chans c).closed = true
  · simp [hcl]; exact hg
  · simp only [hcl, Bool.false_eq_true, ↓reduceIte]
    apply Good.frame (foldl_frame _ (closeWake_frame cfg c false) _ _)
    apply Good.frame (foldl_frame _ (closeWake_frame cfg c true) _ _)
    constructor
    · apply ChanInv.setChan w c _ rfl rfl ?_ hg.1
      exact ⟨by simp, by simp [hasLiveReader], Or.inl (by simp [liveCount]), fun _ => ⟨rfl, rfl⟩⟩
    · intro c'
      by_cases h : c' = c
      · subst h; simp [setChan]; exact hg.2 c'
      · simp [setChan, h]; exact hg.2 c'

theorem supPush_good {cfg : Cfg} (hc : CfgChan cfg) (w : World) (c x : Nat) (hg : Good w) : Good (supPush cfg w c x).1 := by
  unfold supPush
  cases hp : chanPush cfg w 0 c x 2 with
  | closedErr => exact hg
  | ok w1 b => exact chanPush_good hc hp hg

theorem step_good {cfg : Cfg} (hc : CfgChan cfg) (w : World) (a : Action) (hg : Good w) : Good (step cfg w a).1 := by
  unfold step
  cases hcur : w.current with
  | none =>
    cases a <;> simp only [] <;>
      (first | exact hg | exact Good.frame (loopRunTask_frame cfg w) hg | exact Good.frame (loopTimers_frame w) hg
             | exact supPush_good hc w _ _ hg
             | exact Good.frame ⟨rfl, rfl, rfl, fun _ => Nat.le_refl _⟩ hg)
  | some f =>
    cases a with
    | go g =>
      simp only []
      split
      · exact Good.frame (schedule_frame _ _ _) hg
      · exact hg
    | cancel g =>
      simp only []
      split
      · exact hg
      · exact Good.frame (cancelFiber_frame _ _ _) hg
    | deadline s ms => exact Good.frame ⟨rfl, rfl, rfl, fun _ => Nat.le_refl _⟩ hg
    | scopeEnd s => exact Good.frame ⟨rfl, rfl, rfl, fun _ => Nat.le_refl _⟩ hg
    | give c x =>
      simp only []
      cases hp : chanPush cfg w f c x 0 with
      | closedErr => exact Good.frame (finishFiber_frame _ _ _) hg
      | ok w1 b =>
        have := chanPush_good hc hp hg
        cases b
        · exact this
        · exact Good.frame (awaitFiber_frame _ _) this
    | take c =>
      simp only []
      have hpc := chanPop_good hc (f := f) (c := c) (mode := 0) hg
      cases hp : chanPop cfg w f c 0 with
      | blocked w1 => exact Good.frame (awaitFiber_frame _ _) (hpc.2 w1 hp)
      | got w1 r =>
        cases r with
        | none => exact Good.frame (awaitFiber_frame _ _) (Good.frame (schedule_frame _ _ _) (hpc.1 w1 none hp))
        | some x => exact Good.frame (awaitFiber_frame _ _) (Good.frame (schedule_frame _ _ _) (hpc.1 w1 (some x) hp))
    | select cls =>
      cases cls with
      | nil => exact hg
      | cons cl0 cls0 =>
      simp only []
      generalize cl0 :: cls0 = cls
      cases hi : choiceImmediate cfg w f cls with
      | none => exact Good.frame (awaitFiber_frame _ _) (choiceRegister_good hc f cls w hg)
      | some r => exact choiceImmediate_good hc f cls w r.1 r.2 hi hg
    | close c => exact chanClose_good cfg w c hg
    | sleep ms => exact Good.frame (awaitFiber_frame _ _) (Good.frame ⟨rfl, rfl, rfl, fun _ => Nat.le_refl _⟩ hg)
    | finish e => exact Good.frame (finishFiber_frame _ _ _) hg
    | runTask => exact hg
    | timers => exact hg
    | poll => exact hg
    | supEvent c x => exact hg

theorem run_good {cfg : Cfg} (hc : CfgChan cfg) (as : List Action) : ∀ w : World, Good w → Good (run cfg w as) := by
  induction as with
  | nil => intro w h; exact h
  | cons a rest ih =>
    intro w h
    unfold run
    simp only [List.foldl_cons]
    exact ih _ (step_good hc w a h)

theorem start_good (limits : Nat → Nat) : Good (World.start limits) := by
  unfold World.start
  apply Good.frame (schedule_frame _ _ _)
  constructor
  · intro c
    exact ⟨by simp [World.init], by simp [World.init, hasLiveReader], Or.inl (by simp [World.init, liveCount]),
      fun _ => by simp [World.init]⟩
  · intro c; simp [World.init, onChan]

end JanetModel.Ev
