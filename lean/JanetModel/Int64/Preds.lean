/- C14 — boot.janet's polymorphic numeric predicates built on `compare`:
     (defn zero? [x] (= (compare x 0) 0))      (defn pos? [x] (= (compare x 0) 1))     (defn neg? [x] (= (compare x 0) -1))
     (defn one?  [x] (= (compare x 1) 0))      (defn even? [x] (= 0 (compare 0 (mod x 2))))   (defn odd? [x] (= 0 (compare 1 (mod x 2))))
   The table `polyPreds` (shape, constants) is regenerated from the current boot.janet text (tools/gen/inttypes.py); `=` is
   `janet_equals`, `mod` the VM opcode (number fast path or the `mod` / `rmod` methods), `compare` is `polyCompare`.
   Core Lean only (linked into the driver); proofs: `Int64/PredsQ.lean`. -/
import JanetModel.Int64.Model
namespace JanetModel.Int64
open JanetModel.Gen.Int64

def polyPred (c : Cfg) (N : NumOps) (name : String) (x : Val) : Res Val :=
  match polyPreds.lookup name with
  | some ("cmp", k, r) =>
    -- (= (compare x k) r)
    (polyCompare c x (Val.ofInt k)).bind (fun v => .ok (.bool (janetEquals v (Val.ofInt r))))
  | some ("parity", p, m) =>
    -- (= 0 (compare p (mod x m)))
    (vmOp c N "modulo" "mod" x (Val.ofInt m)).bind (fun md =>
      (polyCompare c (Val.ofInt p) md).bind (fun v => .ok (.bool (janetEquals (Val.ofInt 0) v))))
  | _ => .err .nomethod

end JanetModel.Int64
