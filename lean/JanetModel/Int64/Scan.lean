/- C14 — `scan_uint64`, `janet_scan_int64`, `janet_scan_uint64` (src/core/strtod.c), as used by `janet_unwrap_s64/u64`
   for string operands.  Strings are lists of byte values.  Core Lean only. -/
import JanetModel.Int64.Basic
import JanetModel.Gen.Int64
namespace JanetModel.Int64
open JanetModel.Gen.Int64

def uint64Max : Nat := 18446744073709551615

def digitVal (c : Nat) : Nat := digitLookup.getD (c % 128) 255

def isDigitCh (c : Nat) : Bool := 48 ≤ c && c ≤ 57

/-- the "Parse significant digits" loop -/
def scanDigits (base : Nat) : List Nat → Nat → Bool → Option Nat
  | [], accum, seen => if seen then some accum else none
  | c :: rest, accum, seen =>
    if c = 95 then                                   -- '_'
      if !seen then none else scanDigits base rest accum seen
    else
      let digit := digitVal c
      if c > 127 || digit ≥ base then none
      else if accum > (uint64Max - digit) / base then none
      else scanDigits base rest (accum * base + digit) true

/-- "Skip leading zeros" -/
def skipZeros : List Nat → Bool → List Nat × Bool
  | 48 :: rest, _ => skipZeros rest true
  | l, seen => (l, seen)

/-- after the sign and the base prefix: skip leading zeros, parse the significant digits -/
def scanTail (neg : Bool) (pre : Option (Nat × List Nat)) : Option (Bool × Nat) :=
  match pre with
  | none => none
  | some (base, s2) =>
    match scanDigits base (skipZeros s2 false).1 0 (skipZeros s2 false).2 with
    | some v => some (neg, v)
    | none => none

/-- `scan_uint64`: (negative?, magnitude) -/
def scanUint64 (s : List Nat) : Option (Bool × Nat) :=
  if s.length > scanMaxLen then none
  else
    match s with
    | [] => none
    | c0 :: r0 =>
      let (neg, s1) := if c0 = 45 then (true, r0) else if c0 = 43 then (false, r0) else (false, s)
      let pre : Option (Nat × List Nat) :=
        match s1 with
        | 48 :: 120 :: rest => some (16, rest)                                    -- "0x"
        | a :: 114 :: rest =>                                                     -- digit 'r'
          if isDigitCh a then some (a - 48, rest)
          else some (10, s1)
        | a :: b :: 114 :: rest =>                                                -- digit digit 'r'
          if isDigitCh a && isDigitCh b then
            let base := 10 * (a - 48) + (b - 48)
            if base < 2 || base > 36 then none else some (base, rest)
          else some (10, s1)
        | _ => some (10, s1)
      scanTail neg pre

/-- `janet_scan_int64` -/
def scanInt64 (s : List Nat) : Option Int :=
  match scanUint64 s with
  | none => none
  | some (neg, bi) =>
    if neg && bi ≤ uint64Max / 2 + 1 then
      (if bi > 9223372036854775807 then some int64Min else some (-(Int.ofNat bi)))
    else if !neg && bi ≤ 9223372036854775807 then some (Int.ofNat bi)
    else none

/-- `janet_scan_uint64` -/
def scanU64 (s : List Nat) : Option Int :=
  match scanUint64 s with
  | none => none
  | some (neg, bi) => if !neg then some (Int.ofNat bi) else none

end JanetModel.Int64
