/- C14 — the integer-valued functions of src/core/math.c on plain numbers, on the IEEE instance of `Int64/Ieee.lean`:
   `math/floor` `math/ceil` `math/trunc` `math/round` `math/abs` (JANET_DEFINE_MATHOP / JANET_DEFINE_NAMED_MATHOP: `janet_fixarity(argc, 1)`,
   `janet_getnumber`, the libm function) and `math/gcd` / `math/lcm` (`janet_gcd`: NaN / infinity tests, then Euclid's loop
   over C `fmod`; `janet_lcm`: `(x / gcd(x, y)) * y`).  The translator (tools/gen/inttypes.py) asserts the shape of `janet_gcd`,
   `janet_lcm`, the two cfuns and the MATHOP macro bodies.  Core Lean only (linked into the driver); proofs: `Int64/MathQ.lean`. -/
import JanetModel.Int64.Ieee
namespace JanetModel.Int64.Ieee
open JanetModel.Int64

/-- libm `ceil`: `-floor(-x)` (bit for bit, signed zeros included: `ceil(-0.5)` = -0.0) -/
def ceil (a : Nat) : Nat := negate (floor (negate a))

/-- libm `trunc`: toward zero, the sign is kept (`trunc(-0.5)` = -0.0) -/
def trunc (a : Nat) : Nat :=
  match decode a with
  | .nan => nanBits
  | .inf _ => a
  | .fin neg _ _ => if neg then ceil a else floor a

/-- libm `round`: to nearest, halfway cases away from zero, the sign is kept -/
def round (a : Nat) : Nat :=
  match decode a with
  | .nan => nanBits
  | .inf _ => a
  | .fin neg m e =>
    if 0 ≤ e then a
    else
      let p := 2 ^ (-e).toNat
      let f := m / p
      let r := m % p
      if r = 0 then a else roundSigned neg (if p ≤ 2 * r then f + 1 else f) 1

/-- libm `fabs`: sign bit cleared -/
def fabs (a : Nat) : Nat :=
  match decode a with
  | .nan => nanBits
  | _ => a % signBitVal

/-- magnitude of a finite double in units of 2^-1074 (every finite binary64 is an integer multiple of 2^-1074) -/
def scaledMag (b : Nat) : Nat :=
  match decode b with
  | .fin _ m e => m * 2 ^ (e + 1074).toNat
  | _ => 0

/-- the `while (y != 0) { temp = y; y = fmod(x, y); x = temp; }` of `janet_gcd`; `none` = out of fuel
    (never happens with `scaledMag y + 1`: `gcdLoop_terminates`) -/
def gcdLoop : Nat → Nat → Nat → Option Nat
  | 0, _, _ => none
  | fuel + 1, x, y => if isZeroBits y then some x else gcdLoop fuel y (fmod x y)

/-- `janet_gcd` -/
def janetGcd (x y : Nat) : Nat :=
  match decode x, decode y with
  | .nan, _ => nanBits
  | _, .nan => nanBits
  | .inf _, _ => infBits
  | _, .inf _ => infBits
  | .fin .., .fin .. => (gcdLoop (scaledMag y + 1) x y).getD nanBits

/-- `janet_lcm`: `(x / janet_gcd(x, y)) * y` -/
def janetLcm (x y : Nat) : Nat := mul (div x (janetGcd x y)) y

/-- the cfuns: `janet_fixarity`, `janet_getnumber` on every argument ("bad slot"), then the function -/
def mathFn (name : String) (args : List Val) : Option (Res Val) :=
  let un (f : Nat → Nat) : Option (Res Val) :=
    match args with
    | [.num a] => some (.ok (.num (f a)))
    | [_] => some (.err .badslot)
    | _ => some (.err .arity)
  let bin (f : Nat → Nat → Nat) : Option (Res Val) :=
    match args with
    | [.num a, .num b] => some (.ok (.num (f a b)))
    | [_, _] => some (.err .badslot)
    | _ => some (.err .arity)
  match name with
  | "math/floor" => un floor
  | "math/ceil" => un ceil
  | "math/trunc" => un trunc
  | "math/round" => un round
  | "math/abs" => un fabs
  | "math/gcd" => bin janetGcd
  | "math/lcm" => bin janetLcm
  | _ => none

end JanetModel.Int64.Ieee
