/- C14 — 64-bit integer types of janet (src/core/inttypes.c): basic definitions shared by model and proofs.
   Core Lean only (linked into the driver). -/
namespace JanetModel.Int64

abbrev two31 : Int := 2147483648
abbrev two32 : Int := 4294967296
abbrev two53 : Int := 9007199254740992
abbrev two63 : Int := 9223372036854775808
abbrev two64 : Int := 18446744073709551616
abbrev int64Min : Int := -9223372036854775808
abbrev int64Max : Int := 9223372036854775807

/-- `(uint64_t) x` for any mathematical integer x -/
def wrapU (x : Int) : Int := x % two64

/-- `(int64_t) u` of a value already reduced mod 2^64 / of any integer: the two's-complement representative -/
def wrapS (x : Int) : Int := if x % two64 < two63 then x % two64 else x % two64 - two64

/-- `(uint32_t)`, `(int32_t)` analogues for the VM's bitwise operators on numbers -/
def wrapU32 (x : Int) : Int := x % two32
def wrapS32 (x : Int) : Int := if x % two32 < two31 then x % two32 else x % two32 - two32

/-- which of the two boxed types (the macro parameter `T` / `type`) -/
inductive Kind where
  | s64 | u64
  deriving DecidableEq, Repr

def Kind.wrap : Kind → Int → Int
  | .s64 => wrapS
  | .u64 => wrapU

def Kind.inRange : Kind → Int → Prop
  | .s64 => fun x => int64Min ≤ x ∧ x ≤ int64Max
  | .u64 => fun x => 0 ≤ x ∧ x < two64

instance (k : Kind) (x : Int) : Decidable (k.inRange x) := by
  cases k <;> unfold Kind.inRange <;> exact inferInstance

/-- error classes (the harness maps janet's panic messages onto the same names) -/
inductive Err where
  | divzero      -- "division by zero"
  | minneg       -- "INT64_MIN divided by -1"
  | cvts         -- "can not convert ... to 64 bit signed integer"
  | cvtu         -- "can not convert ... to a 64 bit unsigned integer"
  | nomethod     -- "could not find method ..."
  | range32s     -- "value ... out of range for 32-bit signed integers"
  | range32u     -- "value ... out of range for 32-bit unsigned integers"
  | rhs32        -- "rhs must be valid 32-bit signed integer"
  | tonum        -- int/to-number: out of the exactly representable range
  | tonumtype    -- int/to-number: not a boxed integer
  | tobytestype  -- int/to-bytes: not a boxed integer
  | arity        -- wrong number of arguments to a method
  | badslot      -- janet_getnumber: "bad slot #i, expected number, got ..." (math/gcd ... on a non-number)
  deriving DecidableEq, Repr

def Err.name : Err → String
  | .divzero => "divzero" | .minneg => "minneg" | .cvts => "cvts" | .cvtu => "cvtu" | .nomethod => "nomethod"
  | .range32s => "range32s" | .range32u => "range32u" | .rhs32 => "rhs32" | .tonum => "tonum"
  | .tonumtype => "tonumtype" | .arity => "arity" | .tobytestype => "tobytestype"
  | .badslot => "badslot"

/-- Outcome of a C-level operation.  `ub` = the C abstract machine gives no meaning to the operation that the source
    performs at this point (signed `/` or `%` of INT64_MIN by -1: SIGFPE on x86; conversion of an out-of-range double to
    an integer type).  The model does not say what happens then. -/
inductive Res (α : Type) where
  | ok (v : α)
  | err (e : Err)
  | ub
  deriving DecidableEq, Repr

def Res.bind {α β : Type} (r : Res α) (f : α → Res β) : Res β :=
  match r with
  | .ok v => f v
  | .err e => .err e
  | .ub => .ub

instance : Monad Res where
  pure := Res.ok
  bind := Res.bind

def Res.isUb {α : Type} : Res α → Bool
  | .ub => true
  | _ => false

/-! ### doubles, decoded exactly -/

/-- An IEEE-754 binary64 value, decoded: finite values are `(-1)^neg * m * 2^e` with `m < 2^53`. -/
inductive Dbl where
  | nan
  | inf (neg : Bool)
  | fin (neg : Bool) (m : Nat) (e : Int)
  deriving DecidableEq, Repr

def decode (b : Nat) : Dbl :=
  let sign := b / 9223372036854775808 % 2 == 1
  let ex := b / 4503599627370496 % 2048
  let fr := b % 4503599627370496
  if ex = 2047 then (if fr = 0 then .inf sign else .nan)
  else if ex = 0 then .fin sign fr (-1074)
  else .fin sign (fr + 4503599627370496) (Int.ofNat ex - 1075)

/-- signed mantissa -/
def smant (neg : Bool) (m : Nat) : Int := if neg then -(Int.ofNat m) else Int.ofNat m

/-- three-way comparison of integers as -1/0/1 -/
def cmp3 (a b : Int) : Int := if a < b then -1 else if a > b then 1 else 0

/-- compare `a * 2^ea` with `b * 2^eb` exactly (a, b signed) -/
def cmpDyadic (a : Int) (ea : Int) (b : Int) (eb : Int) : Int :=
  let e := min ea eb
  cmp3 (a * 2 ^ (ea - e).toNat) (b * 2 ^ (eb - e).toNat)

/-- exact three-way comparison of an integer with a non-NaN double (`nan` is mapped to 0 only to make it total) -/
def cmpIntDbl (n : Int) (d : Dbl) : Int :=
  match d with
  | .nan => 0
  | .inf neg => if neg then 1 else -1
  | .fin neg m e => cmpDyadic n 0 (smant neg m) e

/-- IEEE `x < y`, `x == y` on decoded doubles (false when either is NaN) -/
def Dbl.cmp? (x y : Dbl) : Option Int :=
  match x, y with
  | .nan, _ => none
  | _, .nan => none
  | .inf nx, .inf ny => some (if nx == ny then 0 else if nx then -1 else 1)
  | .inf nx, .fin .. => some (if nx then -1 else 1)
  | .fin .., .inf ny => some (if ny then 1 else -1)
  | .fin nx mx ex, .fin ny my ey => some (cmpDyadic (smant nx mx) ex (smant ny my) ey)

def Dbl.lt (x y : Dbl) : Bool := x.cmp? y == some (-1)
def Dbl.gt (x y : Dbl) : Bool := x.cmp? y == some 1
def Dbl.eq (x y : Dbl) : Bool := x.cmp? y == some 0
def Dbl.le (x y : Dbl) : Bool := x.lt y || x.eq y
def Dbl.ge (x y : Dbl) : Bool := x.gt y || x.eq y

/-- the double is an integer: its value -/
def Dbl.toInt? : Dbl → Option Int
  | .nan => none
  | .inf _ => none
  | .fin neg m e =>
    if 0 ≤ e then some (smant neg m * 2 ^ e.toNat)
    else if m % 2 ^ (-e).toNat = 0 then some (smant neg (m / 2 ^ (-e).toNat)) else none

/-- C's double -> integer conversion truncates toward zero (defined only if the truncated value fits the target) -/
def Dbl.trunc? : Dbl → Option Int
  | .nan => none
  | .inf _ => none
  | .fin neg m e =>
    if 0 ≤ e then some (smant neg m * 2 ^ e.toNat) else some (smant neg (m / 2 ^ (-e).toNat))

/-- encode `(-1)^neg * m * 2^e`, assumed exactly representable, as binary64 bits -/
def encodeDyadic (neg : Bool) (m : Nat) (e : Int) : Nat :=
  let s : Nat := if neg then 9223372036854775808 else 0
  if m = 0 then s
  else
    let l : Int := Int.ofNat m.log2
    let ex := l + e           -- value in [2^ex, 2^(ex+1))
    if -1022 ≤ ex then
      let m53 := if l ≤ 52 then m * 2 ^ (52 - l).toNat else m / 2 ^ (l - 52).toNat
      if ex > 1023 then s + 2047 * 4503599627370496   -- overflow: infinity
      else s + (ex + 1023).toNat * 4503599627370496 + (m53 - 4503599627370496)
    else
      let sh := e + 1074
      s + (if 0 ≤ sh then m * 2 ^ sh.toNat else m / 2 ^ (-sh).toNat)

/-- an integer as a double (exact for |n| ≤ 2^53, which is all the model ever converts this way) -/
def encodeInt (n : Int) : Nat := encodeDyadic (n < 0) n.natAbs 0

/-- `(double) n` for a 64-bit integer, as the *integer value* of the resulting double: round to 53 significant bits,
    ties to even.  (Every int64/uint64 converts to an integer-valued double.) -/
def rnd53 (n : Int) : Int :=
  let a := n.natAbs
  if a < 9007199254740992 then n
  else
    let k := a.log2 - 52
    let q := a / 2 ^ k
    let r := a % 2 ^ k
    let half := 2 ^ (k - 1)
    let q' := if r > half ∨ (r = half ∧ q % 2 = 1) then q + 1 else q
    let v : Int := Int.ofNat (q' * 2 ^ k)
    if n < 0 then -v else v

end JanetModel.Int64
