/- C14 — proofs about the math.c functions of `Int64/MathFns.lean`: `math/gcd` is the greatest common divisor (Euclid's loop over the
   exact `fmod` terminates and computes `Nat.gcd` of the operands counted in units of 2^-1074; on integer-valued doubles of any
   magnitude: the integer gcd), `math/lcm` on integers whose lcm fits 2^53, `math/ceil` / `math/trunc` / `math/abs` / `math/round` are
   the mathematical functions.  Proof file (Mathlib), not linked into the driver. -/
import JanetModel.Int64.MathFns
import JanetModel.Int64.IeeeInt
namespace JanetModel.Int64.Ieee
open JanetModel.Int64

/-! ## every finite double is an integer multiple of 2^-1074 -/

/-- the signed multiple -/
def scaledInt (b : Nat) : ℤ :=
  match decode b with
  | .fin neg m e => smant neg (m * 2 ^ (e + 1074).toNat)
  | _ => 0

theorem scaledInt_natAbs (b : Nat) : (scaledInt b).natAbs = scaledMag b := by
  unfold scaledInt scaledMag
  cases decode b with
  | nan => rfl
  | inf s => rfl
  | fin neg m e =>
    have h : ((m * 2 ^ (e + 1074).toNat : Nat) : ℤ).natAbs = m * 2 ^ (e + 1074).toNat := Int.natAbs_natCast _
    cases neg
    · simpa [smant] using h
    · simpa [smant] using h

theorem valQ_scaled (b : Nat) (hb : FinBits b) : valQ b = (scaledInt b : ℚ) * 2 ^ (-1074 : ℤ) := by
  obtain ⟨n, m, e, hd⟩ := hb
  obtain ⟨_, he, _⟩ := decode_fin_bounds b n m e hd
  rw [valQ_of_decode b n m e hd]
  unfold scaledInt; rw [hd]
  simp only []
  obtain ⟨k, hk⟩ := Int.eq_ofNat_of_zero_le (show 0 ≤ e + 1074 by omega)
  rw [hk, Int.toNat_natCast, smant_eq]
  push_cast
  have : (2 : ℚ) ^ e = 2 ^ k * 2 ^ (-1074 : ℤ) := by
    rw [← zpow_natCast, zpow2_add]; congr 1; omega
  rw [this]; ring

theorem scaledMag_zero_of_isZeroBits (b : Nat) (hz : isZeroBits b = true) : scaledMag b = 0 := by
  unfold isZeroBits at hz
  unfold scaledMag
  cases hd : decode b with
  | nan => rfl
  | inf s => rfl
  | fin neg m e =>
    rw [hd] at hz
    cases m with
    | zero => simp
    | succ k => simp at hz

theorem scaledInt_ne_zero (b : Nat) (hb : FinBits b) (hz : isZeroBits b = false) : scaledInt b ≠ 0 := by
  intro h0
  have := valQ_scaled b hb
  rw [h0] at this
  simp at this
  exact isZeroBits_false b hb hz this

/-- ★ C `fmod` on two finite doubles, counted in units of 2^-1074, is the truncating integer remainder -/
theorem fmod_scaled (a b : Nat) (ha : FinBits a) (hb : FinBits b) (hz : isZeroBits b = false) :
    FinBits (fmod a b) ∧ scaledInt (fmod a b) = Int.tmod (scaledInt a) (scaledInt b) := by
  have hB := scaledInt_ne_zero b hb hz
  obtain ⟨nx, mx, ex, hda⟩ := ha
  obtain ⟨ny, my, ey, hdb⟩ := hb
  have hmy := nonzero_of_isZeroBits b ny my ey hdb hz
  obtain ⟨g1, g2⟩ := fmod_exact a b nx ny mx my ex ey hda hdb hmy
  refine ⟨g1, ?_⟩
  have va := valQ_scaled a ⟨nx, mx, ex, hda⟩
  have vb := valQ_scaled b ⟨ny, my, ey, hdb⟩
  have vf := valQ_scaled (fmod a b) g1
  have hu : (2 : ℚ) ^ (-1074 : ℤ) ≠ 0 := (two_zpow_pos _).ne'
  have hBq : (scaledInt b : ℚ) ≠ 0 := by exact_mod_cast hB
  have hquot : valQ a / valQ b = (scaledInt a : ℚ) / (scaledInt b : ℚ) := by
    rw [va, vb]; field_simp
  rw [vf, hquot, truncQ_int_div _ _ hB, va, vb] at g2
  have : ((scaledInt (fmod a b) : ℤ) : ℚ) = ((Int.tmod (scaledInt a) (scaledInt b) : ℤ) : ℚ) := by
    rw [Int.tmod_def]
    push_cast
    have e : (scaledInt a : ℚ) * 2 ^ (-1074 : ℤ) - (scaledInt b : ℚ) * 2 ^ (-1074 : ℤ) * ((scaledInt a).tdiv (scaledInt b) : ℚ) =
        ((scaledInt a : ℚ) - (scaledInt b : ℚ) * ((scaledInt a).tdiv (scaledInt b) : ℚ)) * 2 ^ (-1074 : ℤ) := by ring
    rw [e] at g2
    exact mul_right_cancel₀ hu g2
  exact_mod_cast this

/-! ## `janet_gcd` -/

/-- ★ Euclid's loop of `janet_gcd` on two finite doubles: with fuel above the magnitude of `y` (in units of 2^-1074) it
    **terminates** (never answers `none`) and returns a finite double whose magnitude, in those units, is `Nat.gcd` of the
    magnitudes of the operands -/
theorem gcdLoop_spec : ∀ (fuel a b : Nat), FinBits a → FinBits b → scaledMag b < fuel →
    ∃ r, gcdLoop fuel a b = some r ∧ FinBits r ∧ scaledMag r = Nat.gcd (scaledMag a) (scaledMag b) := by
  intro fuel
  induction fuel with
  | zero => intro a b _ _ h; omega
  | succ n ih =>
    intro a b ha hb hfuel
    unfold gcdLoop
    cases hz : isZeroBits b with
    | true =>
      simp only [if_true]
      exact ⟨a, rfl, ha, by rw [scaledMag_zero_of_isZeroBits b hz, Nat.gcd_zero_right]⟩
    | false =>
      simp only [Bool.false_eq_true, if_false]
      obtain ⟨f1, f2⟩ := fmod_scaled a b ha hb hz
      have hmag : scaledMag (fmod a b) = scaledMag a % scaledMag b := by
        rw [← scaledInt_natAbs, f2, Int.natAbs_tmod, scaledInt_natAbs, scaledInt_natAbs]
      have hbpos : 0 < scaledMag b := by
        rw [← scaledInt_natAbs]; exact Int.natAbs_pos.2 (scaledInt_ne_zero b hb hz)
      have hlt : scaledMag (fmod a b) < n := by
        rw [hmag]; have := Nat.mod_lt (scaledMag a) hbpos; omega
      obtain ⟨r, hr, hfr, hg⟩ := ih b (fmod a b) hb f1 hlt
      refine ⟨r, hr, hfr, ?_⟩
      rw [hg, hmag, Nat.gcd_comm (scaledMag a) (scaledMag b), Nat.gcd_comm (scaledMag b) (scaledMag a % scaledMag b)]
      exact (Nat.gcd_rec (scaledMag b) (scaledMag a)).symm

theorem janetGcd_finite (a b : Nat) (ha : FinBits a) (hb : FinBits b) :
    FinBits (janetGcd a b) ∧ scaledMag (janetGcd a b) = Nat.gcd (scaledMag a) (scaledMag b) := by
  obtain ⟨r, hr, hfr, hg⟩ := gcdLoop_spec (scaledMag b + 1) a b ha hb (by omega)
  obtain ⟨n1, m1, e1, h1⟩ := ha
  obtain ⟨n2, m2, e2, h2⟩ := hb
  have : janetGcd a b = r := by
    unfold janetGcd; rw [h1, h2]; simp only []; rw [hr]; rfl
  rw [this]; exact ⟨hfr, hg⟩

theorem scaledInt_of_intVal (a : Nat) (x : ℤ) (ha : IntVal a x) : scaledInt a = x * 2 ^ 1074 := by
  have h := valQ_scaled a ha.1
  rw [ha.2] at h
  have hu : (2 : ℚ) ^ (-1074 : ℤ) * 2 ^ (1074 : ℕ) = 1 := by
    rw [← zpow_natCast, zpow2_add]; norm_num
  have : ((scaledInt a : ℤ) : ℚ) = ((x * 2 ^ 1074 : ℤ) : ℚ) := by
    push_cast
    rw [h, mul_assoc, hu, mul_one]
  exact_mod_cast this

/-- ★ `(math/gcd x y)` on integer-valued doubles of **any** magnitude (not only below 2^53: `fmod` is exact): an integer-valued
    double whose magnitude is the greatest common divisor of x and y (its sign is that of the last nonzero remainder) -/
theorem janetGcd_int (a b : Nat) (x y : ℤ) (ha : IntVal a x) (hb : IntVal b y) :
    ∃ g : ℤ, IntVal (janetGcd a b) g ∧ g.natAbs = Int.gcd x y := by
  obtain ⟨hf, hg⟩ := janetGcd_finite a b ha.1 hb.1
  have sa : scaledMag a = x.natAbs * 2 ^ 1074 := by
    rw [← scaledInt_natAbs, scaledInt_of_intVal a x ha, Int.natAbs_mul, Int.natAbs_pow]; rfl
  have sb : scaledMag b = y.natAbs * 2 ^ 1074 := by
    rw [← scaledInt_natAbs, scaledInt_of_intVal b y hb, Int.natAbs_mul, Int.natAbs_pow]; rfl
  rw [sa, sb, Nat.gcd_mul_right] at hg
  have hG : (Nat.gcd x.natAbs y.natAbs) = Int.gcd x y := rfl
  rw [hG, ← scaledInt_natAbs] at hg
  have hv := valQ_scaled _ hf
  have hu : (2 : ℚ) ^ (1074 : ℕ) * 2 ^ (-1074 : ℤ) = 1 := by
    rw [← zpow_natCast, zpow2_add]; norm_num
  rcases Int.natAbs_eq (scaledInt (janetGcd a b)) with h | h
  · refine ⟨(Int.gcd x y : ℤ), ⟨hf, ?_⟩, by simp⟩
    rw [hv, h, hg]; push_cast; rw [mul_assoc, hu, mul_one]
  · refine ⟨-(Int.gcd x y : ℤ), ⟨hf, ?_⟩, by simp⟩
    rw [hv, h, hg]; push_cast; rw [neg_mul, mul_assoc, hu, mul_one]

/-- NaN and infinity cases of `janet_gcd` -/
theorem janetGcd_special (a b : Nat) :
    ((decode a = .nan ∨ decode b = .nan) → janetGcd a b = nanBits) ∧
    (decode a ≠ .nan → decode b ≠ .nan → ((∃ s, decode a = .inf s) ∨ (∃ s, decode b = .inf s)) → janetGcd a b = infBits) := by
  refine ⟨fun h => ?_, fun h1 h2 h => ?_⟩
  · unfold janetGcd
    rcases h with h | h
    · rw [h]
    · rw [h]; cases decode a <;> rfl
  · unfold janetGcd
    rcases h with ⟨s, h⟩ | ⟨s, h⟩
    · rw [h]; cases hb : decode b <;> first | rfl | exact absurd hb h2
    · rw [h]; cases ha : decode a <;> first | rfl | exact absurd ha h1

theorem div_exact_of_repr (a b : Nat) (ha : FinBits a) (hb : FinBits b) (hz : isZeroBits b = false) (r : Repr64 (valQ a / valQ b)) :
    FinBits (ieee.div a b) ∧ valQ (ieee.div a b) = valQ a / valQ b := by
  obtain ⟨n1, m1, e1, h1⟩ := ha
  obtain ⟨n2, m2, e2, h2⟩ := hb
  have := (div_correct a b n1 n2 m1 m2 e1 e2 h1 h2 (nonzero_of_isZeroBits b n2 m2 e2 h2 hz)).1 (by rw [r.1]; exact r.2)
  rw [r.1] at this; exact this

/-- ★ `(math/lcm x y)` = `(x / gcd) * y` on integer-valued doubles, |x| ≤ 2^53, not both zero, least common multiple ≤ 2^53:
    an integer-valued double whose magnitude is **the least common multiple** — both IEEE operations are exact
    (x / gcd is an integer no larger than x).  `(math/lcm 0 0)` is NaN (0 / 0). -/
theorem janetLcm_int (a b : Nat) (x y : ℤ) (ha : IntVal a x) (hb : IntVal b y) (hx : |x| ≤ 9007199254740992)
    (hne : x ≠ 0 ∨ y ≠ 0) (hl : Int.lcm x y ≤ 9007199254740992) :
    ∃ l : ℤ, IntVal (janetLcm a b) l ∧ l.natAbs = Int.lcm x y := by
  obtain ⟨g, hg, hgabs⟩ := janetGcd_int a b x y ha hb
  have hG0 : Int.gcd x y ≠ 0 := by
    intro h0
    rcases hne with h | h
    · exact h ((Int.gcd_eq_zero_iff.1 h0).1)
    · exact h ((Int.gcd_eq_zero_iff.1 h0).2)
  have hg0 : g ≠ 0 := by
    intro h0; rw [h0] at hgabs; exact hG0 (by simpa using hgabs.symm)
  have hdvd : g ∣ x := by
    rw [← Int.natAbs_dvd_natAbs, hgabs]
    exact Int.natCast_dvd_natCast.1 (by rw [Int.natCast_natAbs]; exact (dvd_abs _ _).2 (Int.gcd_dvd_left x y))
  obtain ⟨q, hq⟩ := hdvd
  have hgq : (g : ℚ) ≠ 0 := by exact_mod_cast hg0
  have hquot : valQ a / valQ (janetGcd a b) = ((q : ℤ) : ℚ) := by
    rw [ha.2, hg.2, hq]; push_cast; field_simp
  have hqle : |q| ≤ 9007199254740992 := by
    have h1 : |x| = |g| * |q| := by rw [hq, abs_mul]
    have h2 : 1 ≤ |g| := Int.one_le_abs hg0
    have h3 : 0 ≤ |q| := abs_nonneg q
    nlinarith
  have hzg := isZeroBits_of_intVal _ g hg hg0
  obtain ⟨d1, d2⟩ := div_exact_of_repr a (janetGcd a b) ha.1 hg.1 hzg (by rw [hquot]; exact repr64_int q hqle)
  rw [hquot] at d2
  -- the product
  have hlabs : (q * y).natAbs = Int.lcm x y := by
    have hxn : x.natAbs = Int.gcd x y * q.natAbs := by
      have := congrArg Int.natAbs hq
      rw [Int.natAbs_mul, hgabs] at this; exact this
    show _ = Nat.lcm x.natAbs y.natAbs
    unfold Nat.lcm
    have hG' : Int.gcd x y = Nat.gcd x.natAbs y.natAbs := rfl
    rw [hG'] at hxn hG0
    generalize Nat.gcd x.natAbs y.natAbs = G at hxn hG0 ⊢
    rw [Int.natAbs_mul, hxn, Nat.mul_assoc, Nat.mul_div_cancel_left _ (Nat.pos_of_ne_zero hG0)]
  have hlle : |q * y| ≤ 9007199254740992 := by
    have : ((q * y).natAbs : ℤ) = |q * y| := Int.natCast_natAbs _
    rw [← this, hlabs]; exact_mod_cast hl
  obtain ⟨p1, p2⟩ := mul_exact_of_repr (ieee.div a (janetGcd a b)) b d1 hb.1 (by
    rw [d2, hb.2]; exact_mod_cast repr64_int (q * y) hlle)
  refine ⟨q * y, ⟨p1, ?_⟩, hlabs⟩
  show valQ (mul (div a (janetGcd a b)) b) = _
  have e1 : ieee.mul (ieee.div a (janetGcd a b)) b = mul (div a (janetGcd a b)) b := rfl
  rw [← e1, p2, d2, hb.2]; push_cast; rfl

/-! ## `math/ceil`, `math/trunc`, `math/abs` -/

theorem valQ_negate (b : Nat) (hb : FinBits b) : FinBits (negate b) ∧ valQ (negate b) = -valQ b := by
  obtain ⟨n, m, e, hd⟩ := hb
  have hn := negate_fin b n m e hd
  refine ⟨⟨_, _, _, hn⟩, ?_⟩
  rw [valQ_of_decode _ _ _ _ hn, valQ_of_decode _ _ _ _ hd]
  cases n <;> simp [sgnQ]

/-- ★ `ceil` of a finite double: a finite double, the mathematical ceiling -/
theorem ceil_exact (a : Nat) (ha : FinBits a) : FinBits (ceil a) ∧ valQ (ceil a) = ((⌈valQ a⌉ : ℤ) : ℚ) := by
  obtain ⟨n1, v1⟩ := valQ_negate a ha
  obtain ⟨f1, f2⟩ := floor_exact (negate a) n1
  obtain ⟨n2, v2⟩ := valQ_negate _ f1
  refine ⟨n2, ?_⟩
  show valQ (negate (floor (negate a))) = _
  have hfl : ieee.floor (negate a) = floor (negate a) := rfl
  rw [hfl] at f2 v2
  rw [v2, f2, v1, Int.floor_neg]; push_cast; ring

/-- ★ `trunc` of a finite double: rounding toward zero -/
theorem trunc_exact (a : Nat) (ha : FinBits a) : FinBits (trunc a) ∧ valQ (trunc a) = ((truncQ (valQ a) : ℤ) : ℚ) := by
  obtain ⟨n, m, e, hd⟩ := ha
  have hv := valQ_of_decode a n m e hd
  have hmq : (0 : ℚ) ≤ (m : ℚ) * 2 ^ e := mul_nonneg (by positivity) (two_zpow_pos e).le
  cases n with
  | true =>
    have ht : trunc a = ceil a := by unfold trunc; rw [hd]; rfl
    rw [ht]
    obtain ⟨c1, c2⟩ := ceil_exact a ⟨_, _, _, hd⟩
    refine ⟨c1, ?_⟩
    rw [c2]
    have hle : valQ a ≤ 0 := by rw [hv]; simp only [sgnQ, if_true, neg_one_mul]; linarith
    unfold truncQ
    rcases eq_or_lt_of_le hle with h0 | hlt
    · rw [h0]; simp
    · rw [if_neg (by linarith)]
  | false =>
    have ht : trunc a = floor a := by unfold trunc; rw [hd]; rfl
    rw [ht]
    obtain ⟨c1, c2⟩ := floor_exact a ⟨_, _, _, hd⟩
    refine ⟨c1, ?_⟩
    have hfl : ieee.floor a = floor a := rfl
    rw [hfl] at c2
    rw [c2]
    have hge : 0 ≤ valQ a := by rw [hv]; simp only [sgnQ, Bool.false_eq_true, if_false, one_mul]; exact hmq
    unfold truncQ
    rw [if_pos hge]

/-- ★ `fabs` of a finite double: the absolute value (sign bit cleared, nothing else changes) -/
theorem fabs_exact (a : Nat) (ha : FinBits a) (hlt : a < 18446744073709551616) : FinBits (fabs a) ∧ valQ (fabs a) = |valQ a| := by
  obtain ⟨n, m, e, hd⟩ := ha
  have hf : fabs a = a % 9223372036854775808 := by unfold fabs; rw [hd]
  have hmag : a % 9223372036854775808 < 9223372036854775808 := Nat.mod_lt _ (by decide)
  obtain ⟨d0, d1⟩ := decode_signed (a % 9223372036854775808) hmag
  have hdec : decode (a % 9223372036854775808) = .fin false m e := by
    by_cases hs : a < 9223372036854775808
    · have : a % 9223372036854775808 = a := Nat.mod_eq_of_lt hs
      rw [this] at d0 ⊢
      rw [hd] at d0
      rw [hd]
      -- the sign of a pattern below 2^63 is clear
      unfold decodeWith at d0
      simp only [] at d0
      split at d0
      · split at d0 <;> exact absurd d0 (by simp)
      · split at d0 <;> (injection d0 with h1 h2 h3; rw [h1])
    · have ha' : a = 9223372036854775808 + a % 9223372036854775808 := by omega
      rw [ha', d1] at hd
      rw [d0]
      unfold decodeWith at hd ⊢
      simp only [] at hd ⊢
      split at hd
      · split at hd <;> exact absurd hd (by simp)
      · rename_i hx
        rw [if_neg hx]
        split at hd
        · rename_i hy; rw [if_pos hy]; injection hd with _ h2 h3; rw [h2, h3]
        · rename_i hy; rw [if_neg hy]; injection hd with _ h2 h3; rw [h2, h3]
  rw [hf]
  refine ⟨⟨_, _, _, hdec⟩, ?_⟩
  rw [valQ_of_decode _ _ _ _ hdec, valQ_of_decode _ _ _ _ hd]
  have hmq : (0 : ℚ) ≤ (m : ℚ) * 2 ^ e := mul_nonneg (by positivity) (two_zpow_pos e).le
  cases n with
  | false => simp only [sgnQ, Bool.false_eq_true, if_false, one_mul]; rw [abs_of_nonneg hmq]
  | true => simp only [sgnQ, Bool.false_eq_true, if_false, if_true, one_mul, neg_one_mul]; rw [abs_neg, abs_of_nonneg hmq]

/-! ## `math/round`: to nearest, halfway cases away from zero -/

/-- C `round` on a rational -/
def roundHalfAway (q : ℚ) : ℤ := if 0 ≤ q then ⌊q + 1 / 2⌋ else -⌊-q + 1 / 2⌋

theorem roundHalfAway_int (z : ℤ) : roundHalfAway (z : ℚ) = z := by
  have h : ∀ w : ℤ, ⌊(w : ℚ) + 1 / 2⌋ = w := fun w => by
    rw [Int.floor_eq_iff]; constructor <;> linarith
  unfold roundHalfAway
  split
  · exact h z
  · have := h (-z); push_cast at this; rw [this]; ring

theorem roundHalfAway_signed (neg : Bool) (q : ℚ) (hq : 0 < q) :
    roundHalfAway (sgnQ neg * q) = (if neg then -⌊q + 1 / 2⌋ else ⌊q + 1 / 2⌋) := by
  unfold roundHalfAway
  cases neg with
  | false => simp only [sgnQ, Bool.false_eq_true, if_false, one_mul]; rw [if_pos hq.le]
  | true => simp only [sgnQ, if_true, neg_one_mul]; rw [if_neg (by linarith), neg_neg]

/-- ★ `round` of a finite double: a finite double, the nearest integer with halfway cases away from zero -/
theorem round_exact (a : Nat) (ha : FinBits a) : FinBits (round a) ∧ valQ (round a) = ((roundHalfAway (valQ a) : ℤ) : ℚ) := by
  obtain ⟨n, m, e, hd⟩ := ha
  have hv := valQ_of_decode a n m e hd
  obtain ⟨hm53, _, _⟩ := decode_fin_bounds a n m e hd
  by_cases he : 0 ≤ e
  · -- an integer already
    have hr : round a = a := by unfold round; rw [hd]; simp only []; rw [if_pos he]
    rw [hr]
    refine ⟨⟨n, m, e, hd⟩, ?_⟩
    obtain ⟨k, hk⟩ := Int.eq_ofNat_of_zero_le he
    have : valQ a = ((smant n (m * 2 ^ k) : ℤ) : ℚ) := by
      rw [hv, smant_eq, hk, zpow_natCast]; push_cast; ring
    rw [this, roundHalfAway_int]
  · obtain ⟨k, hk⟩ := Int.eq_ofNat_of_zero_le (show 0 ≤ -e by omega)
    have he' : e = -(k : ℤ) := by omega
    have hp : (0 : ℚ) < 2 ^ k := by positivity
    have hpn : 0 < 2 ^ k := Nat.two_pow_pos k
    have hk1 : 1 ≤ k := by omega
    have hmd := Nat.div_add_mod m (2 ^ k)
    have hrlt := Nat.mod_lt m hpn
    by_cases hr0 : m % 2 ^ k = 0
    · have hr : round a = a := by
        unfold round; rw [hd]; simp only []; rw [if_neg he, hk, Int.toNat_natCast, if_pos hr0]
      rw [hr]
      refine ⟨⟨n, m, e, hd⟩, ?_⟩
      have hmul : m = m / 2 ^ k * 2 ^ k := by rw [hr0] at hmd; rw [Nat.mul_comm]; omega
      have : valQ a = ((smant n (m / 2 ^ k) : ℤ) : ℚ) := by
        rw [hv, smant_eq, he', zpow_neg, zpow_natCast]
        rw [show (m : ℚ) = ((m / 2 ^ k : Nat) : ℚ) * 2 ^ k by exact_mod_cast congrArg (Nat.cast (R := ℚ)) hmul]
        field_simp
      rw [this, roundHalfAway_int]
    · set f := m / 2 ^ k with hf
      set r := m % 2 ^ k with hrdef
      set f' : Nat := if 2 ^ k ≤ 2 * r then f + 1 else f with hf'
      have hr : round a = roundSigned n f' 1 := by
        unfold round; rw [hd]; simp only []; rw [if_neg he, hk, Int.toNat_natCast, if_neg hr0]
      -- f' ≤ 2^52
      have h2k : 2 ≤ 2 ^ k := by
        calc 2 = 2 ^ 1 := rfl
          _ ≤ 2 ^ k := Nat.pow_le_pow_right (by decide) hk1
      have hfle : f < 4503599627370496 := by
        rw [hf]; apply Nat.div_lt_of_lt_mul
        calc m < 9007199254740992 := hm53
          _ = 2 * 4503599627370496 := by decide
          _ ≤ 2 ^ k * 4503599627370496 := Nat.mul_le_mul_right _ h2k
      have hf'le : f' ≤ 9007199254740992 := by rw [hf']; split <;> omega
      have hx : sgnQ n * ((f' : ℚ) / (1 : Nat)) = sgnQ n * (f' : ℚ) := by simp
      have hrne : rneQ (sgnQ n * (f' : ℚ)) = sgnQ n * (f' : ℚ) := by
        have hab : |smant n f'| ≤ 9007199254740992 := by
          have h0 : (0 : ℤ) ≤ (f' : ℤ) := Int.natCast_nonneg _
          have h1 : (f' : ℤ) ≤ 9007199254740992 := by exact_mod_cast hf'le
          unfold smant; cases n
          · simp only [Bool.false_eq_true, if_false, Int.ofNat_eq_natCast]; rw [abs_of_nonneg h0]; exact h1
          · simp only [if_true, Int.ofNat_eq_natCast]; rw [abs_neg, abs_of_nonneg h0]; exact h1
        have := rneQ_int_le_two53 (smant n f') hab
        rw [smant_eq] at this; exact this
      obtain ⟨r1, r2⟩ := (roundSigned_valQ n f' 1 (by decide) (sgnQ n * (f' : ℚ)) hx.symm).1 (by
        rw [hrne]
        have : |sgnQ n * (f' : ℚ)| = (f' : ℚ) := by
          cases n <;> simp [sgnQ]
        rw [this]
        exact lt_two1024_of_le_two55 _ (by
          have : (f' : ℚ) ≤ 9007199254740992 := by exact_mod_cast hf'le
          linarith))
      rw [hr]
      refine ⟨r1, ?_⟩
      rw [r2, hrne]
      -- the specification: |v| = f + r / 2^k
      have hmq : (m : ℚ) = (f : ℚ) * 2 ^ k + r := by
        have : m = f * 2 ^ k + r := by rw [Nat.mul_comm]; omega
        exact_mod_cast congrArg (Nat.cast (R := ℚ)) this
      have hq : (m : ℚ) * 2 ^ e = (f : ℚ) + (r : ℚ) / 2 ^ k := by
        rw [he', zpow_neg, zpow_natCast, hmq]; field_simp
      have hrq : (0 : ℚ) < (r : ℚ) := by
        have : 0 < r := Nat.pos_of_ne_zero hr0
        exact_mod_cast this
      have hrlt' : (r : ℚ) < 2 ^ k := by exact_mod_cast hrlt
      have hqpos : (0 : ℚ) < (m : ℚ) * 2 ^ e := by rw [hq]; have : (0 : ℚ) ≤ f := by positivity
                                                   have := div_pos hrq hp; linarith
      have hfloor : ⌊(m : ℚ) * 2 ^ e + 1 / 2⌋ = (f' : ℤ) := by
        rw [Int.floor_eq_iff, hq, hf']
        have hdiv_lt : (r : ℚ) / 2 ^ k < 1 := (div_lt_one hp).2 hrlt'
        by_cases hc : 2 ^ k ≤ 2 * r
        · rw [if_pos hc]
          have : (1 : ℚ) / 2 ≤ (r : ℚ) / 2 ^ k := by
            rw [div_le_div_iff₀ (by norm_num) hp]
            have : ((2 ^ k : Nat) : ℚ) ≤ ((2 * r : Nat) : ℚ) := by exact_mod_cast hc
            push_cast at this; linarith
          push_cast
          constructor <;> linarith
        · rw [if_neg hc]
          have : (r : ℚ) / 2 ^ k < 1 / 2 := by
            rw [div_lt_div_iff₀ hp (by norm_num)]
            have : ((2 * r : Nat) : ℚ) < ((2 ^ k : Nat) : ℚ) := by exact_mod_cast (Nat.lt_of_not_le hc)
            push_cast at this; linarith
          push_cast
          have : (0 : ℚ) < (r : ℚ) / 2 ^ k := div_pos hrq hp
          constructor <;> linarith
      rw [hv, roundHalfAway_signed n _ hqpos, hfloor]
      cases n <;> simp [sgnQ]

end JanetModel.Int64.Ieee
