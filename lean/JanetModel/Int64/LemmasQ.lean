/- C14 — the comparison spec over ℚ: `cmpIntDbl` (integer cross-multiplication) is the three-way comparison of the
   rational numbers x and ± m * 2^e.  Proof file: imports single Mathlib modules (not linked into the driver). -/
import JanetModel.Int64.Lemmas
import Mathlib.Algebra.Order.Field.Rat
import Mathlib.Tactic.Positivity
import Mathlib.Tactic.Linarith
import Mathlib.Data.Rat.Floor
namespace JanetModel.Int64

/-- the rational value of a finite decoded double (0 for NaN / infinities, which the theorems treat separately) -/
def Dbl.toRat : Dbl → ℚ
  | .fin neg m e => (smant neg m : ℚ) * (2 : ℚ) ^ e
  | _ => 0

/-- three-way comparison in ℚ -/
def cmpQ (a b : ℚ) : Int := if a < b then -1 else if a > b then 1 else 0

theorem cmp3_eq_cmpQ_of_iff {a b : Int} {p q : ℚ} (h1 : a < b ↔ p < q) (h2 : b < a ↔ q < p) : cmp3 a b = cmpQ p q := by
  unfold cmp3 cmpQ
  by_cases c1 : a < b
  · rw [if_pos c1, if_pos (h1.1 c1)]
  · rw [if_neg c1, if_neg (fun h => c1 (h1.2 h))]
    by_cases c2 : a > b
    · rw [if_pos c2, if_pos (h2.1 c2)]
    · rw [if_neg c2, if_neg (fun h => c2 (h2.2 h))]

/-- the cross-multiplied integer comparison is the comparison of the rationals -/
theorem cmpIntDbl_eq_cmpQ (n : Int) (neg : Bool) (m : Nat) (e : Int) :
    cmpIntDbl n (.fin neg m e) = cmpQ (n : ℚ) (Dbl.toRat (.fin neg m e)) := by
  rw [cmpIntDbl_fin]
  simp only [Dbl.toRat]
  generalize smant neg m = v
  by_cases he : 0 ≤ e
  · rw [if_pos he]
    obtain ⟨k, rfl⟩ := Int.eq_ofNat_of_zero_le he
    simp only [Int.toNat_natCast, zpow_natCast]
    apply cmp3_eq_cmpQ_of_iff <;> exact_mod_cast Iff.rfl
  · rw [if_neg he]
    obtain ⟨k, hk⟩ := Int.eq_ofNat_of_zero_le (show 0 ≤ -e by omega)
    have he' : e = -(k : ℤ) := by omega
    subst he'
    simp only [neg_neg, Int.toNat_natCast]
    have hp : (0 : ℚ) < 2 ^ k := by positivity
    apply cmp3_eq_cmpQ_of_iff
    · rw [zpow_neg, zpow_natCast, ← div_eq_mul_inv, lt_div_iff₀ hp]
      exact_mod_cast Iff.rfl
    · rw [zpow_neg, zpow_natCast, ← div_eq_mul_inv, div_lt_iff₀ hp]
      exact_mod_cast Iff.rfl

/-- the value of a decoded bit pattern is the IEEE-754 binary64 reading: (-1)^s * (1.f or 0.f) * 2^(E - 1075 resp. -1074) -/
theorem decode_value (b : Nat) (neg : Bool) (m : Nat) (e : Int) (h : decode b = .fin neg m e) :
    neg = (b / 2 ^ 63 % 2 == 1) ∧
    ((b / 2 ^ 52 % 2048 = 0 ∧ m = b % 2 ^ 52 ∧ e = -1074) ∨
     (0 < b / 2 ^ 52 % 2048 ∧ b / 2 ^ 52 % 2048 < 2047 ∧ m = b % 2 ^ 52 + 2 ^ 52 ∧ e = (b / 2 ^ 52 % 2048 : Nat) - 1075)) := by
  unfold decode at h
  simp only [] at h
  split at h
  · split at h <;> exact absurd h (by simp)
  · split at h
    · injection h with h1 h2 h3
      refine ⟨h1.symm, Or.inl ⟨by assumption, by omega, h3.symm⟩⟩
    · injection h with h1 h2 h3
      refine ⟨h1.symm, Or.inr ⟨by omega, by omega, by omega, ?_⟩⟩
      rw [← h3]; rfl

/-! ## plain-number operators: the VM handlers over abstract IEEE primitives, with named assumptions -/

/-- the bit pattern is a finite double -/
def FinBits (b : Nat) : Prop := ∃ neg m e, decode b = .fin neg m e
/-- its rational value -/
def valQ (b : Nat) : ℚ := (decode b).toRat

/-- NAMED ASSUMPTION (libm `floor`): the floor of a finite double is a finite double with the mathematical floor as value
    (true of IEEE-754: the floor of a binary64 is representable) -/
def FloorExact (N : NumOps) : Prop := ∀ b, FinBits b → FinBits (N.floor b) ∧ valQ (N.floor b) = (⌊valQ b⌋ : ℚ)

/-- NAMED ASSUMPTION, per input: the IEEE operation `f` does not round (and does not overflow) at (a, b), i.e. the exact
    result `op a b` is representable.  Holds e.g. for integer-valued operands below 2^53 whose result is such an integer. -/
def ExactAt (f : Nat → Nat → Nat) (op : ℚ → ℚ → ℚ) (a b : Nat) : Prop := FinBits (f a b) ∧ valQ (f a b) = op (valQ a) (valQ b)

/-- `(div a b)` on two numbers is `floor` applied to the IEEE quotient — by the shape of the handler — … -/
theorem num_div_is_floor_of_quotient (N : NumOps) (a b : Nat) : numDivFloor N a b = N.floor (N.div a b) := rfl

/-- … so its value is the floor of the (rounded) quotient, and ⌊a/b⌋ exactly whenever the quotient is representable -/
theorem num_div_value (N : NumOps) (hf : FloorExact N) (a b : Nat) :
    (FinBits (N.div a b) → valQ (numDivFloor N a b) = (⌊valQ (N.div a b)⌋ : ℚ)) ∧
    (ExactAt N.div (· / ·) a b → valQ (numDivFloor N a b) = (⌊valQ a / valQ b⌋ : ℚ)) := by
  refine ⟨fun h => (hf _ h).2, fun h => ?_⟩
  rw [num_div_is_floor_of_quotient, (hf _ h.1).2, h.2]

/-- `(mod a 0)` and `(mod a -0)` are `a` itself (bit for bit) -/
theorem num_mod_zero_is_dividend (N : NumOps) (a b : Nat) (hz : isZeroBits b = true) : numModulo N a b = a := by
  unfold numModulo; rw [if_pos hz]

theorem isZeroBits_false (b : Nat) (hb : FinBits b) (hz : isZeroBits b = false) : valQ b ≠ 0 := by
  obtain ⟨neg, m, e, h⟩ := hb
  unfold isZeroBits at hz
  unfold valQ
  rw [h] at hz ⊢
  have hm : m ≠ 0 := by
    intro h0; subst h0; simp at hz
  simp only [Dbl.toRat]
  have h2 : ((2 : ℚ) ^ e) ≠ 0 := zpow_ne_zero _ (by norm_num)
  have h1 : (smant neg m : ℚ) ≠ 0 := by
    unfold smant
    cases neg <;> simp <;> exact_mod_cast hm
  exact mul_ne_zero h1 h2

/-- `(mod a b)`, b ≠ 0: the handler computes a - b * floor(a / b); when none of the three IEEE operations rounds at this
    input, the value is a - b⌊a/b⌋, which lies in [0, b) for b > 0 and in (b, 0] for b < 0 (sign of the divisor) -/
theorem num_mod_value (N : NumOps) (hf : FloorExact N) (a b : Nat) (hb : FinBits b) (hz : isZeroBits b = false)
    (hd : ExactAt N.div (· / ·) a b) (hm : ExactAt N.mul (· * ·) b (N.floor (N.div a b)))
    (hs : ExactAt N.sub (· - ·) a (N.mul b (N.floor (N.div a b)))) :
    valQ (numModulo N a b) = valQ a - valQ b * (⌊valQ a / valQ b⌋ : ℚ) ∧
    (0 < valQ b → 0 ≤ valQ (numModulo N a b) ∧ valQ (numModulo N a b) < valQ b) ∧
    (valQ b < 0 → valQ b < valQ (numModulo N a b) ∧ valQ (numModulo N a b) ≤ 0) := by
  have hb0 := isZeroBits_false b hb hz
  have hv : valQ (numModulo N a b) = valQ a - valQ b * (⌊valQ a / valQ b⌋ : ℚ) := by
    unfold numModulo
    rw [if_neg (by simp [hz]), hs.2, hm.2, (hf _ hd.1).2, hd.2]
  refine ⟨hv, fun hp => ?_, fun hn => ?_⟩
  · rw [hv]
    have h1 := Int.floor_le (valQ a / valQ b)
    have h2 := Int.lt_floor_add_one (valQ a / valQ b)
    generalize (⌊valQ a / valQ b⌋ : ℚ) = q at *
    have e : valQ a = valQ b * (valQ a / valQ b) := by field_simp
    generalize valQ a / valQ b = t at *
    rw [e]
    constructor <;> nlinarith
  · rw [hv]
    have h1 := Int.floor_le (valQ a / valQ b)
    have h2 := Int.lt_floor_add_one (valQ a / valQ b)
    generalize (⌊valQ a / valQ b⌋ : ℚ) = q at *
    have e : valQ a = valQ b * (valQ a / valQ b) := by field_simp
    generalize valQ a / valQ b = t at *
    rw [e]
    constructor <;> nlinarith

/-- `(% a b)` on two numbers is C `fmod` (by the shape of the handler) -/
theorem num_rem_is_fmod (N : NumOps) (a b : Nat) : numRemainder N a b = N.fmod a b := rfl


end JanetModel.Int64
