/- C14 — the comparison spec over ℚ: `cmpIntDbl` (integer cross-multiplication) is the three-way comparison of the
   rational numbers x and ± m * 2^e.  Proof file: imports single Mathlib modules (not linked into the driver). -/
import JanetModel.Int64.Lemmas
import Mathlib.Algebra.Order.Field.Rat
import Mathlib.Tactic.Positivity
import Mathlib.Tactic.Linarith
namespace JanetModel.Int64

/-- the rational value of a finite decoded double (0 for NaN / infinities, which the theorems treat separately) -/
def Dbl.toRat : Dbl → ℚ
  | .fin neg m e => (smant neg m : ℚ) * (2 : ℚ) ^ e
  | _ => 0

/-- three-way comparison in ℚ -/
def cmpQ (a b : ℚ) : Int := if a < b then -1 else if a > b then 1 else 0

theorem cmp3_eq_cmpQ_of_iff {a b : Int} {p q : ℚ} (h1 : a < b ↔ p < q) (h2 : b < a ↔ q < p) : cmp3 a b = cmpQ p q := by
  unfold cmp3 cmpQ
  by_cases c1 : a < b
  · rw [if_pos c1, if_pos (h1.1 c1)]
  · rw [if_neg c1, if_neg (fun h => c1 (h1.2 h))]
    by_cases c2 : a > b
    · rw [if_pos c2, if_pos (h2.1 c2)]
    · rw [if_neg c2, if_neg (fun h => c2 (h2.2 h))]

/-- the cross-multiplied integer comparison is the comparison of the rationals -/
theorem cmpIntDbl_eq_cmpQ (n : Int) (neg : Bool) (m : Nat) (e : Int) :
    cmpIntDbl n (.fin neg m e) = cmpQ (n : ℚ) (Dbl.toRat (.fin neg m e)) := by
  rw [cmpIntDbl_fin]
  simp only [Dbl.toRat]
  generalize smant neg m = v
  by_cases he : 0 ≤ e
  · rw [if_pos he]
    obtain ⟨k, rfl⟩ := Int.eq_ofNat_of_zero_le he
    simp only [Int.toNat_natCast, zpow_natCast]
    apply cmp3_eq_cmpQ_of_iff <;> exact_mod_cast Iff.rfl
  · rw [if_neg he]
    obtain ⟨k, hk⟩ := Int.eq_ofNat_of_zero_le (show 0 ≤ -e by omega)
    have he' : e = -(k : ℤ) := by omega
    subst he'
    simp only [neg_neg, Int.toNat_natCast]
    have hp : (0 : ℚ) < 2 ^ k := by positivity
    apply cmp3_eq_cmpQ_of_iff
    · rw [zpow_neg, zpow_natCast, ← div_eq_mul_inv, lt_div_iff₀ hp]
      exact_mod_cast Iff.rfl
    · rw [zpow_neg, zpow_natCast, ← div_eq_mul_inv, div_lt_iff₀ hp]
      exact_mod_cast Iff.rfl

/-- the value of a decoded bit pattern is the IEEE-754 binary64 reading: (-1)^s * (1.f or 0.f) * 2^(E - 1075 resp. -1074) -/
theorem decode_value (b : Nat) (neg : Bool) (m : Nat) (e : Int) (h : decode b = .fin neg m e) :
    neg = (b / 2 ^ 63 % 2 == 1) ∧
    ((b / 2 ^ 52 % 2048 = 0 ∧ m = b % 2 ^ 52 ∧ e = -1074) ∨
     (0 < b / 2 ^ 52 % 2048 ∧ b / 2 ^ 52 % 2048 < 2047 ∧ m = b % 2 ^ 52 + 2 ^ 52 ∧ e = (b / 2 ^ 52 % 2048 : Nat) - 1075)) := by
  unfold decode at h
  simp only [] at h
  split at h
  · split at h <;> exact absurd h (by simp)
  · split at h
    · injection h with h1 h2 h3
      refine ⟨h1.symm, Or.inl ⟨by assumption, by omega, h3.symm⟩⟩
    · injection h with h1 h2 h3
      refine ⟨h1.symm, Or.inr ⟨by omega, by omega, by omega, ?_⟩⟩
      rw [← h3]; rfl

end JanetModel.Int64
