/- C14 — executable model of janet's 64-bit integer types (src/core/inttypes.c), of the operator dispatch in
   src/core/vm.c (`_vm_binop`, `_vm_bitop`, `vm_compop`, `janet_binop_call`) and of boot.janet's polymorphic `compare`.

   * Integers are mathematical `Int`s; every store into a box goes through `Kind.wrap` (reduction mod 2^64), exactly
     where the C casts to `(T)`.
   * Which C operation would be *undefined* is explicit: `Res.ub`.
   * The model is parametrised by `Cfg`: flags that the translator reads off the current source (`Gen/Int64.lean`):
     is the INT64_MIN / -1 case tested before each signed `/` and `%`; are the edge comparisons in
     compare_int64_double / compare_uint64_double inclusive.  `cfgGen` is the configuration of the current tree.
   * IEEE double arithmetic on two plain numbers is not modelled here: it is a parameter (`NumOps`), supplied by the
     driver from Lean's `Float` (same hardware).  Everything else is exact integer arithmetic.
   Core Lean only. -/
import JanetModel.Int64.Basic
import JanetModel.Int64.Scan
import JanetModel.Gen.Int64
namespace JanetModel.Int64
open JanetModel.Gen.Int64

/-- what a looping division method does with a zero divisor: `DIVZERO(name)` / `DIVZERO_NEXT(name)` inside the `for` -/
inductive ZeroAct where
  | error     -- janet_panic("division by zero")
  | ret       -- return janet_wrap_abstract(box): the call ends with the value computed so far
  | cont      -- continue: x mod 0 = x, go on with the next operand
  deriving DecidableEq, Repr

def zeroActOf (s : String) : ZeroAct := if s == "return" then .ret else if s == "continue" then .cont else .error

/-- what the translator found in the source -/
structure Cfg where
  guardDiv : Bool      -- DIVMETHOD_SIGNED          (`/`, `%`)
  guardDivi : Bool     -- DIVMETHODINVERT_SIGNED    (`r/`, `r%`)
  guardDivf : Bool     -- cfun_it_s64_divf          (`div`)
  guardDivfi : Bool    -- cfun_it_s64_divfi         (`rdiv`)
  guardMod : Bool      -- cfun_it_s64_mod           (`mod`)
  guardModi : Bool     -- cfun_it_s64_modi          (`rmod`)
  cmpSUpperIncl : Bool -- compare_int64_double:  `y >= (double) INT64_MAX` (true) or `y >` (false)
  cmpSLowerIncl : Bool -- compare_int64_double:  `y <= (double) INT64_MIN` (true) or `y <` (false)
  cmpUUpperIncl : Bool -- compare_uint64_double: `y >= (double) UINT64_MAX` (true) or `y >` (false)
  loopZeroMod : ZeroAct := .cont   -- DIVMETHOD(uint64_t, u64, mod, %): zero divisor inside the loop
  s64BelowU64 : Bool := false  -- `&janet_s64_type < &janet_u64_type` (link order; read by the harness, not in the source):
                               -- the primitive order `janet_compare` puts between an s64 and a u64
  deriving DecidableEq, Repr

/-- the current source tree -/
def cfgGen : Cfg :=
  { guardDiv := guardDivMethodSigned, guardDivi := guardDivMethodInvertSigned, guardDivf := guardDivf,
    guardDivfi := guardDivfi, guardMod := guardMod, guardModi := guardModi,
    cmpSUpperIncl := cmpS64UpperInclusive, cmpSLowerIncl := cmpS64LowerInclusive, cmpUUpperIncl := cmpU64UpperInclusive,
    loopZeroMod := zeroActOf loopZeroMod }

/-- the pinned tree e691f18 (for the counterexample theorems, independent of regeneration) -/
def cfgPinned : Cfg :=
  { guardDiv := true, guardDivi := true, guardDivf := false, guardDivfi := false, guardMod := false, guardModi := false,
    cmpSUpperIncl := false, cmpSLowerIncl := false, cmpUUpperIncl := false, loopZeroMod := .ret }

/-- every signed `/` and `%` is protected -/
def Cfg.allGuarded (c : Cfg) : Bool :=
  c.guardDiv && c.guardDivi && c.guardDivf && c.guardDivfi && c.guardMod && c.guardModi

/-- the double -> integer casts in the compare functions can only see representable values:
    `(double) INT64_MAX` = 2^63 and `(double) UINT64_MAX` = 2^64 themselves must be answered before the cast. -/
def Cfg.castsGuarded (c : Cfg) : Bool := c.cmpSUpperIncl && c.cmpUUpperIncl

/-! ## values -/

inductive Val where
  | num (bits : Nat)        -- a janet number, as the 64-bit pattern of the double
  | s64 (v : Int)           -- core/s64, invariant: int64Min ≤ v ≤ int64Max
  | u64 (v : Int)           -- core/u64, invariant: 0 ≤ v < 2^64
  | str (s : List Nat)      -- a janet string
  | bool (b : Bool)
  | nil
  | bytes (bs : List Nat)   -- a buffer (result of int/to-bytes)
  | unspec                  -- (unused since the link order became a `Cfg` field)
  deriving DecidableEq, Repr

def Val.box : Kind → Int → Val
  | .s64, v => .s64 v
  | .u64, v => .u64 v

def Val.ofInt (n : Int) : Val := .num (encodeInt n)

/-! ## janet_unwrap_s64 / janet_unwrap_u64 -/

/-- `(int64_t) n` / `(uint64_t) n` for the integer value n of a double: exact when n fits the type.  When it does not fit the
    conversion is undefined in ISO C (6.3.1.4); what x86-64 produces at the first value past the range (2^63 resp. 2^64) is the
    two's-complement wrap, and that is what the model returns (`unwrap_number_exact_or_rejected` shows the branch is never reached
    with such a value on the current tree). -/
def castS64 (n : Int) : Int := wrapS n
def castU64 (n : Int) : Int := wrapU n

/-- number branch of `janet_unwrap_s64` with the accepted window as parameters: integrality test, `lo ≤ d ≤ hi`, then `(int64_t) d` -/
def numToS64W (lo hi : Int) (d : Dbl) : Option Int :=
  match d.toInt? with
  | some n => if lo ≤ n ∧ n ≤ hi then some (castS64 n) else none
  | none => none

/-- number branch of `janet_unwrap_u64`, window as parameters, then `(uint64_t) d` -/
def numToU64W (lo hi : Int) (d : Dbl) : Option Int :=
  match d.toInt? with
  | some n => if lo ≤ n ∧ n ≤ hi then some (castU64 n) else none
  | none => none

/-- the number branch of `janet_unwrap_s64` of the current tree: window `unwrapS64Lo .. unwrapS64Hi` regenerated from the range
    test in inttypes.c (through `janet_checkint64range` of janet.h when the function uses it), bounds evaluated as the C compiler
    evaluates them in a comparison with a double (`(double) INT64_MAX` is 2^63) -/
def numToS64 (d : Dbl) : Option Int := numToS64W unwrapS64Lo unwrapS64Hi d

/-- the number branch of `janet_unwrap_u64` of the current tree -/
def numToU64 (d : Dbl) : Option Int := numToU64W unwrapU64Lo unwrapU64Hi d

def unwrapS (v : Val) : Res Int :=
  match v with
  | .num b => match numToS64 (decode b) with | some n => .ok n | none => .err .cvts
  | .str s => match scanInt64 s with | some n => .ok n | none => .err .cvts
  | .s64 x => .ok x
  | .u64 x => .ok (wrapS x)          -- *(int64_t *) abst
  | _ => .err .cvts

def unwrapU (v : Val) : Res Int :=
  match v with
  | .num b => match numToU64 (decode b) with | some n => .ok n | none => .err .cvtu
  | .str s => match scanU64 s with | some n => .ok n | none => .err .cvtu
  | .s64 x => .ok (wrapU x)          -- *(uint64_t *) abst
  | .u64 x => .ok x
  | _ => .err .cvtu

def unwrap : Kind → Val → Res Int
  | .s64 => unwrapS
  | .u64 => unwrapU

/-! ## the method bodies, on unwrapped operands (`a` = the box, `b` = the other operand; both in range of `k`) -/

/-- bitwise operators through the unsigned representation -/
def natBit (f : Nat → Nat → Nat) (a b : Int) : Int := Int.ofNat (f (wrapU a).toNat (wrapU b).toNat)

/-- hardware shift count: the C shift is only defined for counts below the width; x86-64 and AArch64 use the low
    6 bits.  (`shiftDefined` says when the C operation has a meaning.) -/
def shiftCount (b : Int) : Nat := (wrapU b % 64).toNat
def shiftDefined (b : Int) : Prop := wrapU b < 64

/-- `OPMETHOD(T, type, name, oper)`: `*box = (T) ((uint64_t) *box) oper ((uint64_t) b)` -/
def opMethod (k : Kind) (oper : String) (a b : Int) : Res Int :=
  match oper with
  | "+" => .ok (k.wrap (wrapU a + wrapU b))
  | "-" => .ok (k.wrap (wrapU a - wrapU b))
  | "*" => .ok (k.wrap (wrapU a * wrapU b))
  | "&" => .ok (k.wrap (natBit Nat.land a b))
  | "|" => .ok (k.wrap (natBit Nat.lor a b))
  | "^" => .ok (k.wrap (natBit Nat.xor a b))
  | "<<" => .ok (k.wrap (a * 2 ^ shiftCount b))     -- left operand has type T: two's-complement result (gcc/clang)
  | ">>" => .ok (k.wrap (a / 2 ^ shiftCount b))     -- T = int64_t: arithmetic shift (floor); uint64_t: logical
  | _ => .err .nomethod

/-- `UNARYMETHOD(T, type, not, ~)` -/
def notMethod (k : Kind) (a : Int) : Int := k.wrap (-a - 1)

/-- `DIVMETHOD(uint64_t, u64, name, oper)` on one operand -/
def divMethodU (name : String) (oper : String) (a b : Int) : Res Int :=
  if b = 0 then
    (match name with
     | "div" => if divzeroErrorsDiv then .err .divzero else .ok a
     | "rem" => if divzeroErrorsRem then .err .divzero else .ok a
     | _ => if divzeroErrorsMod then .err .divzero else .ok a)
  else if oper = "/" then .ok (a / b) else .ok (a % b)

/-- `DIVMETHOD_SIGNED(int64_t, s64, name, oper)` on one operand: C `/` and `%` truncate -/
def divMethodS (guard : Bool) (name : String) (oper : String) (a b : Int) : Res Int :=
  if b = 0 then
    (match name with
     | "div" => if divzeroErrorsDiv then .err .divzero else .ok a
     | "rem" => if divzeroErrorsRem then .err .divzero else .ok a
     | _ => if divzeroErrorsMod then .err .divzero else .ok a)
  else if guard && b = -1 && a = int64Min then .err .minneg
  else if b = -1 ∧ a = int64Min then .ub
  else if oper = "/" then .ok (Int.tdiv a b) else .ok (Int.tmod a b)

/-- `cfun_it_s64_divf` / `divfi` on (op1, op2) -/
def divfMethod (guard : Bool) (op1 op2 : Int) : Res Int :=
  if op2 = 0 then .err .divzero
  else if guard && op2 = -1 && op1 = int64Min then .err .minneg
  else if op2 = -1 ∧ op1 = int64Min then .ub
  else
    let x := Int.tdiv op1 op2
    -- (op1 ^ op2) < 0  <=>  the sign bits differ
    let adj : Int := if (decide (op1 < 0) != decide (op2 < 0)) && x * op2 != op1 then 1 else 0
    .ok (wrapS (x - adj))

/-- `cfun_it_s64_mod` / `modi` on (op1, op2); the accepted guard is an `else if (op2 == -1) *box = 0` arm -/
def modMethod (guard : Bool) (op1 op2 : Int) : Res Int :=
  if op2 = 0 then .ok op1
  else if guard && op2 = -1 then .ok 0
  else if op2 = -1 ∧ op1 = int64Min then .ub
  else
    let x := Int.tmod op1 op2
    .ok (wrapS (if (decide (op1 < 0) != decide (op2 < 0)) && x != 0 then x + op2 else x))

/-! ## mixed comparison -/

def dblOfInt (n : Int) : Dbl := .fin (n < 0) n.natAbs 0

/-- `compare_int64_double` -/
def compareInt64Double (c : Cfg) (x : Int) (y : Dbl) : Res Int :=
  match y with
  | .nan => .ok 0
  | _ =>
    if cmpIntDbl intMinDouble y = -1 ∧ cmpIntDbl intMaxDouble y = 1 then .ok (cmpIntDbl (rnd53 x) y)
    else if (if c.cmpSUpperIncl then cmpIntDbl two63 y ≤ 0 else cmpIntDbl two63 y = -1) then .ok (-1)   -- (double) INT64_MAX = 2^63
    else if (if c.cmpSLowerIncl then cmpIntDbl int64Min y ≥ 0 else cmpIntDbl int64Min y = 1) then .ok 1
    else
      match y.trunc? with                         -- (int64_t) y
      | some yi => if int64Min ≤ yi ∧ yi ≤ int64Max then .ok (cmp3 x yi) else .ub
      | none => .ub

/-- `compare_uint64_double` -/
def compareUint64Double (c : Cfg) (x : Int) (y : Dbl) : Res Int :=
  match y with
  | .nan => .ok 0
  | _ =>
    if cmpIntDbl 0 y = 1 then .ok 1                                               -- y < 0
    else if cmpIntDbl 0 y ≤ 0 ∧ cmpIntDbl intMaxDouble y = 1 then .ok (cmpIntDbl (rnd53 x) y)
    else if (if c.cmpUUpperIncl then cmpIntDbl two64 y ≤ 0 else cmpIntDbl two64 y = -1) then .ok (-1)   -- (double) UINT64_MAX = 2^64
    else
      match y.trunc? with                         -- (uint64_t) y
      | some yi => if 0 ≤ yi ∧ yi < two64 then .ok (cmp3 x yi) else .ub
      | none => .ub

/-- `cfun_it_s64_compare` / `cfun_it_u64_compare` (first argument is a box of kind `k`): `none` = returns nil -/
def compareMethod (c : Cfg) (k : Kind) (x : Int) (y : Val) : Res (Option Int) :=
  match k, y with
  | .s64, .num b => (compareInt64Double c x (decode b)).bind (fun r => .ok (some r))
  | .s64, .s64 yv => .ok (some (cmp3 x yv))
  | .s64, .u64 yv => .ok (some (if x < 0 then -1 else if yv > int64Max then -1 else cmp3 x yv))
  | .u64, .num b => (compareUint64Double c x (decode b)).bind (fun r => .ok (some r))
  | .u64, .u64 yv => .ok (some (cmp3 x yv))
  | .u64, .s64 yv => .ok (some (if yv < 0 then 1 else if x > int64Max then 1 else cmp3 x yv))
  | _, _ => .ok none

/-! ## method tables and invocation -/

def methodTable : Kind → List (String × String)
  | .s64 => s64Methods
  | .u64 => u64Methods

def kindName : Kind → String
  | .s64 => "s64"
  | .u64 => "u64"

def lookupInstance (cfun : String) : Option (String × String × String × String) :=
  (instances.find? (fun r => r.1 == cfun)).map (fun r => r.2)

/-- Call `cfun_it_<cfun>` with `argv = [a0, a1]`.  Macro-defined methods get their meaning from the generated
    instantiation row (macro, name, operator); the five hand-written ones are mirrored by name. -/
def callCfun2 (c : Cfg) (k : Kind) (cfun : String) (a0 a1 : Val) : Res Val :=
  match lookupInstance cfun with
  | some (mac, kd, name, oper) =>
    if kd != kindName k then .err .nomethod else
    match mac with
    | "OPMETHOD" => do
        let a ← unwrap k a0; let b ← unwrap k a1
        let r ← opMethod k oper a b; pure (Val.box k r)
    | "OPMETHODINVERT" => do
        let a ← unwrap k a1; let b ← unwrap k a0
        let r ← opMethod k oper a b; pure (Val.box k r)
    | "UNARYMETHOD" => .err .arity
    | "DIVMETHOD" => do
        let a ← unwrap k a0; let b ← unwrap k a1
        let r ← divMethodU name oper a b; pure (Val.box k r)
    | "DIVMETHODINVERT" => do
        let a ← unwrap k a1; let b ← unwrap k a0
        let r ← divMethodU name oper a b; pure (Val.box k r)
    | "DIVMETHOD_SIGNED" => do
        let a ← unwrap k a0; let b ← unwrap k a1
        let r ← divMethodS c.guardDiv name oper a b; pure (Val.box k r)
    | "DIVMETHODINVERT_SIGNED" => do
        let a ← unwrap k a1; let b ← unwrap k a0
        let r ← divMethodS c.guardDivi name oper a b; pure (Val.box k r)
    | _ => .err .nomethod
  | none =>
    let arg (i : Nat) : Val := if i = 0 then a0 else a1
    match cfun with
    | "s64_divf" => do
        let op1 ← unwrapS (arg divfArgs.1); let op2 ← unwrapS (arg divfArgs.2)
        let r ← divfMethod c.guardDivf op1 op2; pure (.s64 r)
    | "s64_divfi" => do
        let op2 ← unwrapS (arg divfiArgs.2); let op1 ← unwrapS (arg divfiArgs.1)
        let r ← divfMethod c.guardDivfi op1 op2; pure (.s64 r)
    | "s64_mod" => do
        let op1 ← unwrapS (arg modArgs.1); let op2 ← unwrapS (arg modArgs.2)
        let r ← modMethod c.guardMod op1 op2; pure (.s64 r)
    | "s64_modi" => do
        let op2 ← unwrapS (arg modiArgs.2); let op1 ← unwrapS (arg modiArgs.1)
        let r ← modMethod c.guardModi op1 op2; pure (.s64 r)
    | "s64_compare" =>
        (match a0 with
         | .s64 x => (compareMethod c .s64 x a1).bind (fun r => match r with | some i => .ok (Val.ofInt i) | none => .ok .nil)
         | _ => .err .nomethod)
    | "u64_compare" =>
        (match a0 with
         | .u64 x => (compareMethod c .u64 x a1).bind (fun r => match r with | some i => .ok (Val.ofInt i) | none => .ok .nil)
         | _ => .err .nomethod)
    | _ => .err .nomethod

/-- The loop of OPMETHOD / DIVMETHOD / DIVMETHOD_SIGNED over `argv[1..]`: `box` is updated operand by operand; an error
    (operand does not convert, division by zero) or undefined operation ends the call.  `zero` = what the macro does when
    the operand is 0 *before* the operation (`none` for OPMETHOD, which has no such test): see `ZeroAct`. -/
def methodLoop (k : Kind) (stepOp : Int → Int → Res Int) (zero : Option ZeroAct) : Int → List Val → Res Int
  | box, [] => .ok box
  | box, v :: rest =>
    match unwrap k v with
    | .ok b =>
      if zero.isSome && b = 0 then
        (match zero with
         | some .error => .err .divzero
         | some .ret => .ok box
         | _ => methodLoop k stepOp zero box rest)
      else
        (match stepOp box b with
         | .ok box' => methodLoop k stepOp zero box' rest
         | .err e => .err e
         | .ub => .ub)
    | .err e => .err e
    | .ub => .ub

/-- the zero action of the loop macro instantiated with `name` (div / rem: regenerated; mod: `Cfg`, regenerated in `cfgGen`) -/
def loopZero (c : Cfg) (name : String) : ZeroAct :=
  match name with
  | "div" => zeroActOf loopZeroDiv
  | "rem" => zeroActOf loopZeroRem
  | _ => c.loopZeroMod

/-- Call `cfun_it_<cfun>` with any number of arguments (`janet_arity(argc, 2, -1)` for the three looping macros,
    `janet_fixarity` for everything else). -/
def callCfunN (c : Cfg) (k : Kind) (cfun : String) (args : List Val) : Res Val :=
  match args with
  | [a0, a1] => callCfun2 c k cfun a0 a1
  | a0 :: a1 :: rest =>
    (match lookupInstance cfun with
     | some (mac, kd, name, oper) =>
       if kd != kindName k then .err .nomethod else
       match mac with
       | "OPMETHOD" => do
           let a ← unwrap k a0
           let r ← methodLoop k (opMethod k oper) none a (a1 :: rest); pure (Val.box k r)
       | "DIVMETHOD" => do
           let a ← unwrap k a0
           let r ← methodLoop k (divMethodU name oper) (some (loopZero c name)) a (a1 :: rest); pure (Val.box k r)
       | "DIVMETHOD_SIGNED" => do
           let a ← unwrap k a0
           let r ← methodLoop k (divMethodS c.guardDiv name oper) (some (loopZero c name)) a (a1 :: rest); pure (Val.box k r)
       | _ => .err .arity
     | none => .err .arity)
  | _ => .err .arity

/-- one-argument call (only `~`) -/
def callCfun1 (k : Kind) (cfun : String) (a0 : Val) : Res Val :=
  match lookupInstance cfun with
  | some ("UNARYMETHOD", _, _, "~") => do
      let a ← unwrap k a0; pure (Val.box k (notMethod k a))
  | _ => .err .arity

/-- `janet_method_lookup(x, name)`: only boxed integers have methods among the values considered -/
def methodOf (x : Val) (name : String) : Option (Kind × String) :=
  match x with
  | .s64 _ => (s64Methods.lookup name).map (fun f => (Kind.s64, f))
  | .u64 _ => (u64Methods.lookup name).map (fun f => (Kind.u64, f))
  | _ => none

/-- `janet_binop_call(lmethod, rmethod, lhs, rhs)`; the look-up order and argument orders are the generated flags -/
def binopCall (c : Cfg) (lm rm : String) (lhs rhs : Val) : Res Val :=
  let first := if binopFirstIsLhs then lhs else rhs
  let second := if binopSecondIsRhs then rhs else lhs
  match methodOf first lm with
  | some (k, f) => if binopLArgsInOrder then callCfun2 c k f lhs rhs else callCfun2 c k f rhs lhs
  | none =>
    match methodOf second rm with
    | some (k, f) => if binopRArgsSwapped then callCfun2 c k f rhs lhs else callCfun2 c k f lhs rhs
    | none => .err .nomethod

/-- `janet_mcall(name, 2, {x, y})` (immediate opcodes) -/
def mcall (c : Cfg) (name : String) (x y : Val) : Res Val :=
  match methodOf x name with
  | some (k, f) => callCfun2 c k f x y
  | none => .err .nomethod

/-! ## the VM's operator opcodes -/

/-- IEEE primitives on bit patterns, supplied by the driver (Lean `Float` = the hardware; `fmod` computed exactly).
    Nothing is proved *about* them; the theorems about plain-number operators (Props/C14, section "plain numbers")
    are about how the VM handlers below combine them, under named assumptions. -/
structure NumOps where
  add : Nat → Nat → Nat
  sub : Nat → Nat → Nat
  mul : Nat → Nat → Nat
  div : Nat → Nat → Nat
  floor : Nat → Nat
  fmod : Nat → Nat → Nat

/-- C `x2 == 0` on a double: +0.0 or -0.0 -/
def isZeroBits (b : Nat) : Bool :=
  match decode b with
  | .fin _ 0 _ => true
  | _ => false

/-- `vm_binop(op)` fast path: `x1 op x2` -/
def numBinop (N : NumOps) (oper : String) (a b : Nat) : Nat :=
  match oper with
  | "+" => N.add a b
  | "-" => N.sub a b
  | "*" => N.mul a b
  | "/" => N.div a b
  | _ => 0x7ff8000000000000

/-- `JOP_DIVIDE_FLOOR` fast path: `floor(x1 / x2)` (shape asserted by the translator) -/
def numDivFloor (N : NumOps) (a b : Nat) : Nat := N.floor (N.div a b)

/-- `JOP_MODULO` fast path: `x2 == 0 ? x1 : x1 - x2 * floor(x1 / x2)` (shape asserted by the translator) -/
def numModulo (N : NumOps) (a b : Nat) : Nat :=
  if isZeroBits b then a else N.sub a (N.mul b (N.floor (N.div a b)))

/-- `JOP_REMAINDER` fast path: `fmod(x1, x2)` (shape asserted by the translator) -/
def numRemainder (N : NumOps) (a b : Nat) : Nat := N.fmod a b

def checkIntRange (d : Dbl) : Option Int :=
  match d.toInt? with
  | some n => if -two31 ≤ n ∧ n < two31 then some n else none
  | none => none

def checkUintRange (d : Dbl) : Option Int :=
  match d.toInt? with
  | some n => if 0 ≤ n ∧ n < two32 then some n else none
  | none => none

/-- hardware count of a 32-bit shift (low 5 bits); the C operation is defined for 0 ≤ count < 32 only -/
def shiftCount32 (b : Int) : Nat := (b % 32).toNat

/-- `(type1)` with type1 = uint32_t / int32_t -/
def wrap32 (unsigned : Bool) (x : Int) : Int := if unsigned then wrapU32 x else wrapS32 x

/-- `(type1) (x1 op x2)` of `_vm_bitop`, on operands that passed the range checks -/
def bitop32Value (unsigned : Bool) (oper : String) (x1 x2 : Int) : Option Int :=
  match oper with
  | "&" => some (wrap32 unsigned (natBit Nat.land x1 x2))
  | "|" => some (wrap32 unsigned (natBit Nat.lor x1 x2))
  | "^" => some (wrap32 unsigned (natBit Nat.xor x1 x2))
  | "<<" => some (wrap32 unsigned (x1 * 2 ^ shiftCount32 x2))
  | ">>" => some (wrap32 unsigned (x1 / 2 ^ shiftCount32 x2))
  | _ => none

/-- `_vm_bitop(op, int32_t, janet_checkintrange, ...)` / `_vm_bitop(op, uint32_t, janet_checkuintrange, ...)` on two numbers:
    range check of the left operand, `janet_checkintrange` of the right one, the 32-bit operation, `janet_wrap_number` -/
def bitop32 (unsigned : Bool) (oper : String) (b1 b2 : Nat) : Res Val :=
  match (if unsigned then checkUintRange (decode b1) else checkIntRange (decode b1)) with
  | none => .err (if unsigned then .range32u else .range32s)
  | some x1 =>
    match checkIntRange (decode b2) with
    | none => .err .rhs32
    | some x2 =>
      match bitop32Value unsigned oper x1 x2 with
      | some v => .ok (Val.ofInt v)
      | none => .err .nomethod

/-- `janet_compare` restricted to the value kinds considered.  Two abstracts of different types are ordered by the
    addresses of their type descriptors (`janet_compare_abstract`: `xt > yt ? 1 : -1`), whatever their contents. -/
def typeRank : Val → Nat
  | .num _ => 0 | .nil => 1 | .bool _ => 2 | .str _ => 4 | .bytes _ => 11 | .s64 _ => 14 | .u64 _ => 14 | .unspec => 15

def strCompare : List Nat → List Nat → Int
  | [], [] => 0
  | [], _ :: _ => -1
  | _ :: _, [] => 1
  | a :: as, b :: bs => if a < b then -1 else if a > b then 1 else strCompare as bs

def janetCompare (c : Cfg) (x y : Val) : Int :=
  if typeRank x ≠ typeRank y then (if typeRank x < typeRank y then -1 else 1)
  else
    match x, y with
    | .num a, .num b =>
      let dx := decode a; let dy := decode b
      (if dx.eq dy then 0 else if dx.lt dy then -1 else 1)
    | .str a, .str b => strCompare a b
    | .s64 a, .s64 b => cmp3 a b
    | .u64 a, .u64 b => cmp3 a b
    | .s64 _, .u64 _ => if c.s64BelowU64 then -1 else 1
    | .u64 _, .s64 _ => if c.s64BelowU64 then 1 else -1
    | .bool a, .bool b => cmp3 (if a then 1 else 0) (if b then 1 else 0)
    | _, _ => 0

/-- `janet_equals` -/
def janetEquals (x y : Val) : Bool :=
  match x, y with
  | .num a, .num b => (decode a).eq (decode b)
  | .str a, .str b => a == b
  | .s64 a, .s64 b => a == b
  | .u64 a, .u64 b => a == b
  | .bool a, .bool b => a == b
  | .nil, .nil => true
  | _, _ => false

def isNum : Val → Option Nat
  | .num b => some b
  | _ => none

/-- `vm_compop(op)`: two numbers are compared as doubles, anything else through `janet_compare(x, y) op 0`; never fails -/
def primCmp (c : Cfg) (oper : String) (x y : Val) : Bool :=
  match isNum x, isNum y with
  | some a, some b =>
    let dx := decode a; let dy := decode b
    (match oper with | "<" => dx.lt dy | "<=" => dx.le dy | ">" => dx.gt dy | ">=" => dx.ge dy | _ => false)
  | _, _ =>
    let r := janetCompare c x y
    (match oper with | "<" => decide (r < 0) | "<=" => decide (r ≤ 0) | ">" => decide (r > 0) | ">=" => decide (r ≥ 0) | _ => false)

/-- one opcode applied to two stack values: `template` and `oper` come from the generated `vmOps` row -/
def vmOp (c : Cfg) (N : NumOps) (template oper : String) (x y : Val) : Res Val :=
  match template with
  | "binop" | "divfloor" | "modulo" | "remainder" =>
    (match isNum x, isNum y with
     | some a, some b =>
       .ok (.num (match template with
                  | "divfloor" => numDivFloor N a b
                  | "modulo" => numModulo N a b
                  | "remainder" => numRemainder N a b
                  | _ => numBinop N oper a b))
     | _, _ => binopCall c oper ("r" ++ oper) x y)
  | "bitop" | "bitopu" =>
    (match isNum x, isNum y with
     | some a, some b => bitop32 (template == "bitopu") oper a b
     | _, _ => binopCall c oper ("r" ++ oper) x y)
  | "compop" => .ok (.bool (primCmp c oper x y))
  | _ => .err .nomethod

/-- JOP_BNOT: `janet_wrap_integer(~janet_unwrap_integer(op))` on numbers — the double -> int32 cast is *unchecked*
    (undefined when the truncated value does not fit); `~` method otherwise -/
def vmBnot (x : Val) : Res Val :=
  match x with
  | .num b =>
    (match (decode b).trunc? with
     | some n => if -two31 ≤ n ∧ n < two31 then .ok (Val.ofInt (-n - 1)) else .ub
     | none => .ub)
  | .s64 _ => (match s64Methods.lookup "~" with | some f => callCfun1 .s64 f x | none => .err .nomethod)
  | .u64 _ => (match u64Methods.lookup "~" with | some f => callCfun1 .u64 f x | none => .err .nomethod)
  | _ => .err .nomethod

/-! ## the core functions (`+`, `div`, `<`, `compare`, `int/s64`, ...) at arity 1 and 2 -/

def vmOpOf (opcode : String) : Option (String × String) :=
  (vmOps.find? (fun r => r.1 == opcode)).map (fun r => r.2)

/-- boot.janet `compare` -/
def polyCompare (c : Cfg) (x y : Val) : Res Val :=
  let viaCmp : Res Val := .ok (Val.ofInt (janetCompare c x y))
  let tryRight : Res Val :=
    match methodOf y "compare" with
    | none => viaCmp
    | some (k, f) =>
      (callCfun2 c k f y x).bind (fun r =>
        match r with
        | .nil => .err .nomethod                 -- `(- nil)`
        | .num b =>                              -- `(- r)`: boot.janet is compiled, unary minus is inlined as r * -1 (so 0 -> -0.0)
          (match (decode b).toInt? with
           | some i => .ok (if i = 0 then .num 0x8000000000000000 else Val.ofInt (0 - i))
           | none => .err .nomethod)
        | _ => .err .nomethod)
  match methodOf x "compare" with
  | none => tryRight
  | some (k, f) =>
    (callCfun2 c k f x y).bind (fun r => match r with | .nil => tryRight | v => .ok v)

/-- the "Main loop" of `templatize_varop`: accum = accum op args[i], left to right -/
def varopFold (c : Cfg) (N : NumOps) (tmpl oper : String) : Res Val → List Val → Res Val
  | acc, [] => acc
  | acc, z :: rest =>
    match acc with
    | .ok a => varopFold c N tmpl oper (vmOp c N tmpl oper a z) rest
    | .err e => .err e
    | .ub => .ub

/-- the loop of `templatize_comparator`: every adjacent pair must satisfy the comparison -/
def comparatorLoop (step : Val → Val → Res Val) (invert : Bool) : Val → List Val → Res Val
  | _, [] => .ok (.bool (!invert))
  | last, next :: rest =>
    match step last next with
    | .ok (.bool true) => comparatorLoop step invert next rest
    | .ok (.bool false) => .ok (.bool invert)
    | .ok v => .ok v          -- not a boolean: cannot happen with the steps used
    | .err e => .err e
    | .ub => .ub

/-- one comparator applied to two values (`vm_compop` / `janet_equals`), by the corelib opcode of the comparator -/
def cmpStep (c : Cfg) (N : NumOps) (opcode : String) : Val → Val → Res Val :=
  if opcode == "JOP_EQUALS" then fun a b => .ok (.bool (janetEquals a b))
  else match vmOpOf opcode with
       | some (tmpl, oper) => fun a b => vmOp c N tmpl oper a b
       | none => fun _ _ => .err .nomethod

/-- boot.janet `compare-reduce` (`compare<`, `compare<=`, `compare=`, `compare>`, `compare>=`): `x` is the last value that
    passed; for each next `y`: `(if (op (do-compare x y) 0) (set x y) (do (set res false) (break)))` -/
def compareReduce (c : Cfg) (N : NumOps) (opcode : String) : Val → List Val → Res Val
  | _, [] => .ok (.bool true)
  | x, y :: rest =>
    match polyCompare c x y with
    | .ok r =>
      (match cmpStep c N opcode r (Val.ofInt 0) with
       | .ok (.bool true) => compareReduce c N opcode y rest
       | .ok (.bool false) => .ok (.bool false)
       | .ok v => .ok v
       | .err e => .err e
       | .ub => .ub)
    | .err e => .err e
    | .ub => .ub

/-- the primitive comparator each polymorphic one is built on (regenerated from boot.janet) -/
def polyComparators : List (String × String) := polyChains

/-- `int/to-bytes x :le`: the 8 bytes of the box (memcpy on a little-endian machine), least significant first -/
def toBytesLE (v : Int) : List Nat := (List.range 8).map (fun i => ((wrapU v) / 256 ^ i % 256).toNat)

/-- value of a little-endian byte string -/
def ofBytesLE : List Nat → Nat
  | [] => 0
  | b :: rest => b + 256 * ofBytesLE rest

def evalFn (c : Cfg) (N : NumOps) (fn : String) (args : List Val) : Res Val :=
  match fn, args with
  | "int/to-bytes-le", [x] =>
    (match x with
     | .s64 v => .ok (.bytes (toBytesLE v))
     | .u64 v => .ok (.bytes (toBytesLE v))
     | _ => .err .tobytestype)
  | "int/to-bytes-be", [x] =>
    (match x with
     | .s64 v => .ok (.bytes (toBytesLE v).reverse)
     | .u64 v => .ok (.bytes (toBytesLE v).reverse)
     | _ => .err .tobytestype)
  | "compare", [x, y] => polyCompare c x y
  | "cmp", [x, y] => .ok (Val.ofInt (janetCompare c x y))
  | "bnot", [x] => vmBnot x
  | "int/s64", [x] => (unwrapS x).bind (fun v => .ok (.s64 v))
  | "int/u64", [x] => (unwrapU x).bind (fun v => .ok (.u64 v))
  | "int/to-number", [x] =>
    (match x with
     | .s64 v => if v > intMaxInt64 then .err .tonum else if v < -intMaxInt64 then .err .tonum else .ok (Val.ofInt v)
     | .u64 v => if v > intMaxInt64 then .err .tonum else .ok (Val.ofInt v)
     | _ => .err .tonumtype)
  | _, _ =>
    match polyComparators.lookup fn, args with
    | some prim, x :: rest =>
      (match coreFns.find? (fun r => r.1 == prim) with
       | some (_, _, opcode, _, _) => compareReduce c N opcode x rest
       | none => .err .nomethod)
    | _, _ =>
    match coreFns.find? (fun r => r.1 == fn) with
    | none => .err .nomethod
    | some (_, kind, opcode, nullary, unary) =>
      if kind == "varop" then
        match vmOpOf opcode, args with
        | some (tmpl, oper), [x] => vmOp c N tmpl oper (Val.ofInt unary) x
        | some (tmpl, oper), x :: y :: rest => varopFold c N tmpl oper (vmOp c N tmpl oper x y) rest
        | _, _ => .err .arity
      else
        -- comparators: nullary field is the invert flag
        match args with
        | [] => .err .arity
        | x :: rest =>
          comparatorLoop (cmpStep c N opcode) (nullary != 0) x rest

/-- `(:name a0 a1 ...)`: method call through a keyword (`resolve_method`, then the cfunction with all arguments) -/
def methodCall (c : Cfg) (name : String) (args : List Val) : Res Val :=
  match args with
  | [] => .err .arity
  | a0 :: _ =>
    match methodOf a0 name with
    | some (k, f) => (match args with | [x] => callCfun1 k f x | _ => callCfunN c k f args)
    | none => .err .nomethod

end JanetModel.Int64
