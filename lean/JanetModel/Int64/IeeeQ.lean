/- C14 — the executable IEEE-754 binary64 instance (`Int64/Ieee.lean`) meets the mathematical definition of
   round-to-nearest-even: `rneQ`, the Flocq-style definition `round radix2 (FLT_exp (-1074) 53) ZnearestE` over ℚ.
   Proof file (single Mathlib modules), not linked into the driver. -/
import JanetModel.Int64.Ieee
import JanetModel.Int64.LemmasQ
import Mathlib.Data.Int.Log
import Mathlib.Tactic.Ring
import Mathlib.Tactic.FieldSimp
import Mathlib.Tactic.NormNum
namespace JanetModel.Int64.Ieee
open JanetModel.Int64

/-! ## the specification -/

/-- round a rational to the nearest integer, ties to the even one -/
def rneInt (r : ℚ) : ℤ :=
  if r - ⌊r⌋ < 1 / 2 then ⌊r⌋ else if 1 / 2 < r - ⌊r⌋ then ⌊r⌋ + 1 else if ⌊r⌋ % 2 = 0 then ⌊r⌋ else ⌊r⌋ + 1

/-- exponent of the last place of the binary64 format at `x`: 53 significant bits, but not below 2^-1074 -/
def cexp (x : ℚ) : ℤ := max (Int.log 2 |x| - 52) (-1074)

/-- `x` rounded to binary64 precision, to nearest, ties to even; the exponent is unbounded above (overflow is decided on
    the rounded value, as IEEE-754 prescribes) -/
def rneQ (x : ℚ) : ℚ :=
  if x < 0 then -((rneInt (-x / 2 ^ cexp x) : ℚ) * 2 ^ cexp x) else (rneInt (x / 2 ^ cexp x) : ℚ) * 2 ^ cexp x

/-! ### facts that make the specification meaningful -/

theorem rneInt_cases (r : ℚ) : rneInt r = ⌊r⌋ ∨ rneInt r = ⌊r⌋ + 1 := by
  unfold rneInt; split <;> (try split) <;> (try split) <;> simp

/-- nearest: within one half -/
theorem rneInt_half (r : ℚ) : |(rneInt r : ℚ) - r| ≤ 1 / 2 := by
  have h1 := Int.floor_le r
  have h2 := Int.lt_floor_add_one r
  unfold rneInt
  split
  · rw [abs_le]; constructor <;> linarith
  · split
    · push_cast; rw [abs_le]; constructor <;> linarith
    · have he : r - ⌊r⌋ = 1 / 2 := by linarith
      split
      · rw [abs_le]; constructor <;> linarith
      · push_cast; rw [abs_le]; constructor <;> linarith

/-- ties go to the even integer -/
theorem rneInt_tie_even (r : ℚ) (h : r - ⌊r⌋ = 1 / 2) : rneInt r % 2 = 0 := by
  unfold rneInt
  rw [if_neg (by rw [h]; exact lt_irrefl _), if_neg (by rw [h]; exact lt_irrefl _)]
  split
  · assumption
  · omega

theorem rneInt_intCast (n : ℤ) : rneInt (n : ℚ) = n := by
  unfold rneInt
  simp

/-- monotone with respect to integer bounds -/
theorem rneInt_le_of_le (r : ℚ) (n : ℤ) (h : r ≤ n) : rneInt r ≤ n := by
  have hf : ⌊r⌋ ≤ n := by
    have := Int.floor_le r
    exact_mod_cast (Int.floor_le_iff.2 (by linarith [Int.lt_floor_add_one r] : r < n + 1) : ⌊r⌋ ≤ n)
  rcases lt_or_eq_of_le hf with hlt | heq
  · rcases rneInt_cases r with e | e <;> omega
  · -- ⌊r⌋ = n and r ≤ n: r = n
    have : r = n := le_antisymm h (by rw [← heq]; exact Int.floor_le r)
    rw [this, rneInt_intCast]

theorem rneInt_ge_of_ge (r : ℚ) (n : ℤ) (h : (n : ℚ) ≤ r) : n ≤ rneInt r := by
  have hf : n ≤ ⌊r⌋ := Int.le_floor.2 h
  rcases rneInt_cases r with e | e <;> omega

/-- ★ the rounding is *nearest*: the error is at most half a unit in the last place -/
theorem rneQ_half_ulp (x : ℚ) : |rneQ x - x| ≤ 2 ^ cexp x / 2 := by
  have hp : (0 : ℚ) < 2 ^ cexp x := zpow_pos (by norm_num) _
  have key : ∀ y : ℚ, |(rneInt (y / 2 ^ cexp x) : ℚ) * 2 ^ cexp x - y| ≤ 2 ^ cexp x / 2 := by
    intro y
    have h := rneInt_half (y / 2 ^ cexp x)
    have e : (rneInt (y / 2 ^ cexp x) : ℚ) * 2 ^ cexp x - y = ((rneInt (y / 2 ^ cexp x) : ℚ) - y / 2 ^ cexp x) * 2 ^ cexp x := by
      field_simp
    rw [e, abs_mul, abs_of_pos hp]
    calc |(rneInt (y / 2 ^ cexp x) : ℚ) - y / 2 ^ cexp x| * 2 ^ cexp x ≤ 1 / 2 * 2 ^ cexp x :=
          mul_le_mul_of_nonneg_right h hp.le
      _ = 2 ^ cexp x / 2 := by ring
  unfold rneQ
  split
  · have := key (-x)
    rw [show -((rneInt (-x / 2 ^ cexp x) : ℚ) * 2 ^ cexp x) - x = -((rneInt (-x / 2 ^ cexp x) : ℚ) * 2 ^ cexp x - -x) by ring, abs_neg]
    exact this
  · exact key x

/-! ## the integer rounding of the model -/

theorem rneDiv_spec (N D : Nat) (hD : 0 < D) : ((rneDiv N D : Nat) : ℤ) = rneInt ((N : ℚ) / D) := by
  have hfl : ⌊((N : ℚ) / D)⌋ = ((N / D : Nat) : ℤ) := by
    rw [Rat.floor_natCast_div_natCast]; rfl
  have hDq : (0 : ℚ) < D := by exact_mod_cast hD
  have hfrac : (N : ℚ) / D - ((N / D : Nat) : ℤ) = ((N % D : Nat) : ℚ) / D := by
    have h := Nat.div_add_mod N D
    have hq : (N : ℚ) = (D : ℚ) * ((N / D : Nat) : ℚ) + ((N % D : Nat) : ℚ) := by exact_mod_cast h.symm
    rw [Int.cast_natCast, eq_div_iff hDq.ne', sub_mul, div_mul_cancel₀ _ hDq.ne', hq]
    ring
  unfold rneDiv rneInt
  rw [hfl, hfrac]
  simp only []
  have c1 : ((N % D : Nat) : ℚ) / D < 1 / 2 ↔ 2 * (N % D) < D := by
    rw [div_lt_div_iff₀ hDq (by norm_num : (0 : ℚ) < 2)]
    constructor
    · intro h; have : ((2 * (N % D) : Nat) : ℚ) < (D : ℚ) := by push_cast; linarith
      exact_mod_cast this
    · intro h; have : ((2 * (N % D) : Nat) : ℚ) < (D : ℚ) := by exact_mod_cast h
      push_cast at this; linarith
  have c2 : 1 / 2 < ((N % D : Nat) : ℚ) / D ↔ D < 2 * (N % D) := by
    rw [div_lt_div_iff₀ (by norm_num : (0 : ℚ) < 2) hDq]
    constructor
    · intro h; have : (D : ℚ) < ((2 * (N % D) : Nat) : ℚ) := by push_cast; linarith
      exact_mod_cast this
    · intro h; have : (D : ℚ) < ((2 * (N % D) : Nat) : ℚ) := by exact_mod_cast h
      push_cast at this; linarith
  by_cases h1 : 2 * (N % D) < D
  · rw [if_pos h1, if_pos (c1.2 h1)]
  · rw [if_neg h1, if_neg (fun h => h1 (c1.1 h))]
    by_cases h2 : D < 2 * (N % D)
    · rw [if_pos h2, if_pos (c2.2 h2)]; push_cast; rfl
    · rw [if_neg h2, if_neg (fun h => h2 (c2.1 h))]
      have hpar : ((N / D : Nat) : ℤ) % 2 = 0 ↔ (N / D) % 2 = 0 := by omega
      by_cases h3 : (N / D) % 2 = 0
      · rw [if_pos h3, if_pos (hpar.2 h3)]
      · rw [if_neg h3, if_neg (fun h => h3 (hpar.1 h))]; push_cast; rfl

/-! ## the binade -/

theorem bitLen_bounds (n : Nat) (h : 0 < n) : 2 ^ (bitLen n - 1) ≤ n ∧ n < 2 ^ bitLen n ∧ 1 ≤ bitLen n := by
  unfold bitLen
  rw [if_neg (by omega)]
  exact ⟨by simpa using Nat.log2_self_le (by omega : n ≠ 0), Nat.lt_log2_self, by omega⟩

theorem two_zpow_pos (k : ℤ) : (0 : ℚ) < 2 ^ k := zpow_pos (by norm_num) k

/-- the model's `⌊log2 (N / D)⌋` is the binade of `N / D` -/
theorem ilog2Ratio_spec (N D : Nat) (hN : 0 < N) (hD : 0 < D) :
    (2 : ℚ) ^ ilog2Ratio N D ≤ (N : ℚ) / D ∧ (N : ℚ) / D < 2 ^ (ilog2Ratio N D + 1) := by
  obtain ⟨n1, n2, n3⟩ := bitLen_bounds N hN
  obtain ⟨d1, d2, d3⟩ := bitLen_bounds D hD
  have hDq : (0 : ℚ) < D := by exact_mod_cast hD
  have two_ne : (2 : ℚ) ≠ 0 := by norm_num
  -- the bit-length bounds in ℚ with integer exponents
  have N1 : (2 : ℚ) ^ ((bitLen N : ℤ) - 1) ≤ N := by
    have : ((bitLen N : ℤ) - 1) = ((bitLen N - 1 : Nat) : ℤ) := by omega
    rw [this, zpow_natCast]; exact_mod_cast n1
  have N2 : (N : ℚ) < 2 ^ (bitLen N : ℤ) := by rw [zpow_natCast]; exact_mod_cast n2
  have D1 : (2 : ℚ) ^ ((bitLen D : ℤ) - 1) ≤ D := by
    have : ((bitLen D : ℤ) - 1) = ((bitLen D - 1 : Nat) : ℤ) := by omega
    rw [this, zpow_natCast]; exact_mod_cast d1
  have D2 : (D : ℚ) < 2 ^ (bitLen D : ℤ) := by rw [zpow_natCast]; exact_mod_cast d2
  set k0 : ℤ := (bitLen N : ℤ) - (bitLen D : ℤ) with hk0
  -- 2^(k0-1) ≤ N/D < 2^(k0+1)
  have lo : (2 : ℚ) ^ (k0 - 1) ≤ (N : ℚ) / D := by
    rw [le_div_iff₀ hDq]
    have e : (2 : ℚ) ^ (k0 - 1) * 2 ^ (bitLen D : ℤ) = 2 ^ ((bitLen N : ℤ) - 1) := by
      rw [← zpow_add₀ two_ne]; congr 1; omega
    calc (2 : ℚ) ^ (k0 - 1) * D ≤ 2 ^ (k0 - 1) * 2 ^ (bitLen D : ℤ) :=
          mul_le_mul_of_nonneg_left D2.le (two_zpow_pos _).le
      _ = 2 ^ ((bitLen N : ℤ) - 1) := e
      _ ≤ N := N1
  have hi : (N : ℚ) / D < 2 ^ (k0 + 1) := by
    rw [div_lt_iff₀ hDq]
    have e : (2 : ℚ) ^ (k0 + 1) * 2 ^ ((bitLen D : ℤ) - 1) = 2 ^ (bitLen N : ℤ) := by
      rw [← zpow_add₀ two_ne]; congr 1; omega
    calc (N : ℚ) < 2 ^ (bitLen N : ℤ) := N2
      _ = 2 ^ (k0 + 1) * 2 ^ ((bitLen D : ℤ) - 1) := e.symm
      _ ≤ 2 ^ (k0 + 1) * D := mul_le_mul_of_nonneg_left D1 (two_zpow_pos _).le
  -- the comparison of the model decides 2^k0 ≤ N/D
  have hcond : (if 0 ≤ k0 then D * 2 ^ k0.toNat ≤ N else D ≤ N * 2 ^ (-k0).toNat) ↔ (2 : ℚ) ^ k0 ≤ (N : ℚ) / D := by
    rw [le_div_iff₀ hDq]
    by_cases hk : 0 ≤ k0
    · rw [if_pos hk]
      obtain ⟨j, hj⟩ := Int.eq_ofNat_of_zero_le hk
      rw [hj, Int.toNat_natCast, zpow_natCast]
      constructor
      · intro h; have : ((D * 2 ^ j : Nat) : ℚ) ≤ N := by exact_mod_cast h
        push_cast at this; linarith
      · intro h; have : ((D * 2 ^ j : Nat) : ℚ) ≤ N := by push_cast; linarith
        exact_mod_cast this
    · rw [if_neg hk]
      obtain ⟨j, hj⟩ := Int.eq_ofNat_of_zero_le (show 0 ≤ -k0 by omega)
      have hk' : k0 = -(j : ℤ) := by omega
      rw [hj, Int.toNat_natCast, hk', zpow_neg, zpow_natCast]
      have hp : (0 : ℚ) < 2 ^ j := by positivity
      rw [inv_mul_le_iff₀ hp]
      constructor
      · intro h; have : ((D : Nat) : ℚ) ≤ ((N * 2 ^ j : Nat) : ℚ) := by exact_mod_cast h
        push_cast at this; linarith
      · intro h; have : ((D : Nat) : ℚ) ≤ ((N * 2 ^ j : Nat) : ℚ) := by push_cast; linarith
        exact_mod_cast this
  unfold ilog2Ratio
  simp only []
  rw [← hk0]
  by_cases hc : (if 0 ≤ k0 then D * 2 ^ k0.toNat ≤ N else D ≤ N * 2 ^ (-k0).toNat)
  · rw [if_pos hc]; exact ⟨hcond.1 hc, hi⟩
  · rw [if_neg hc]
    refine ⟨lo, ?_⟩
    have : ¬ (2 : ℚ) ^ k0 ≤ (N : ℚ) / D := fun h => hc (hcond.2 h)
    rw [show k0 - 1 + 1 = k0 by ring]
    exact lt_of_not_ge this

theorem log_eq_of_bounds (x : ℚ) (k : ℤ) (h1 : (2 : ℚ) ^ k ≤ x) (h2 : x < 2 ^ (k + 1)) : Int.log 2 x = k := by
  have hx : 0 < x := lt_of_lt_of_le (two_zpow_pos k) h1
  have a : k ≤ Int.log 2 x := (Int.zpow_le_iff_le_log (by norm_num) hx).1 (by exact_mod_cast h1)
  have b : Int.log 2 x < k + 1 := (Int.lt_zpow_iff_log_lt (by norm_num) hx).1 (by exact_mod_cast h2)
  omega

theorem quantum_eq_cexp (N D : Nat) (hN : 0 < N) (hD : 0 < D) : quantum N D = cexp ((N : ℚ) / D) := by
  obtain ⟨h1, h2⟩ := ilog2Ratio_spec N D hN hD
  have hpos : (0 : ℚ) < (N : ℚ) / D := lt_of_lt_of_le (two_zpow_pos _) h1
  unfold quantum cexp
  rw [abs_of_pos hpos, log_eq_of_bounds _ _ h1 h2]

theorem scaledRne_spec (N D : Nat) (hD : 0 < D) (q : ℤ) :
    ((scaledRne N D q : Nat) : ℤ) = rneInt ((N : ℚ) / D / 2 ^ q) := by
  unfold scaledRne
  by_cases hq : 0 ≤ q
  · rw [if_pos hq]
    obtain ⟨j, hj⟩ := Int.eq_ofNat_of_zero_le hq
    rw [hj, Int.toNat_natCast, rneDiv_spec N (D * 2 ^ j) (Nat.mul_pos hD (Nat.two_pow_pos j)), zpow_natCast]
    congr 1
    push_cast
    rw [div_div]
  · rw [if_neg hq]
    obtain ⟨j, hj⟩ := Int.eq_ofNat_of_zero_le (show 0 ≤ -q by omega)
    have hq' : q = -(j : ℤ) := by omega
    rw [hj, Int.toNat_natCast, rneDiv_spec _ D hD, hq', zpow_neg, zpow_natCast]
    congr 1
    push_cast
    rw [div_inv_eq_mul]
    ring

/-! ## encoding: exponent field and significand by plain addition -/

theorem zpow2_add (a b : ℤ) : (2 : ℚ) ^ a * 2 ^ b = 2 ^ (a + b) := (zpow_add₀ (by norm_num) a b).symm

theorem zpow2_mono {a b : ℤ} (h : a ≤ b) : (2 : ℚ) ^ a ≤ 2 ^ b := zpow_le_zpow_right₀ (by norm_num) h

/-- the conditions the rounded significand `t` and the biased quantum `E = q + 1074` satisfy -/
structure EncOk (E t : Nat) : Prop where
  le53 : t ≤ 9007199254740992
  norm : 1 ≤ E → 4503599627370496 ≤ t

theorem enc_decode (E t : Nat) (h : EncOk E t) (hlt : E * 4503599627370496 + t < 9218868437227405312) :
    ∃ m e, decode (E * 4503599627370496 + t) = .fin false m e ∧ (m : ℚ) * 2 ^ e = (t : ℚ) * 2 ^ ((E : ℤ) - 1074) := by
  obtain ⟨h1, h2⟩ := h
  by_cases ha : t < 4503599627370496
  · -- subnormal
    have hE : E = 0 := by
      by_contra hne
      have := h2 (by omega)
      omega
    subst hE
    refine ⟨t, -1074, ?_, by simp⟩
    unfold decode
    have e1 : (0 * 4503599627370496 + t) / 9223372036854775808 % 2 = 0 := by omega
    have e2 : (0 * 4503599627370496 + t) / 4503599627370496 % 2048 = 0 := by omega
    have e3 : (0 * 4503599627370496 + t) % 4503599627370496 = t := by omega
    simp only [e1, e2, e3]
    rfl
  · by_cases hb : t < 9007199254740992
    · -- normal
      refine ⟨t, (E : ℤ) - 1074, ?_, rfl⟩
      have := decode_fin_of (E * 4503599627370496 + t) 0 (E + 1) (t - 4503599627370496) (by omega) ⟨by omega, by omega⟩ (by omega) (by omega)
      rw [this]
      have e1 : t - 4503599627370496 + 4503599627370496 = t := by omega
      have e2 : ((E + 1 : Nat) : ℤ) - 1075 = (E : ℤ) - 1074 := by push_cast; ring
      rw [e1, e2]; rfl
    · -- carry into the next binade
      have ht : t = 9007199254740992 := by omega
      subst ht
      refine ⟨4503599627370496, (E : ℤ) - 1073, ?_, ?_⟩
      · have := decode_fin_of (E * 4503599627370496 + 9007199254740992) 0 (E + 2) 0 (by omega) ⟨by omega, by omega⟩ (by omega) (by omega)
        rw [this]
        have e2 : ((E + 2 : Nat) : ℤ) - 1075 = (E : ℤ) - 1073 := by push_cast; ring
        rw [e2]; rfl
      · have : (E : ℤ) - 1073 = 1 + ((E : ℤ) - 1074) := by ring
        rw [this, ← zpow2_add]
        norm_num
        ring

theorem enc_overflow (E t : Nat) (h : EncOk E t) (hge : 9218868437227405312 ≤ E * 4503599627370496 + t) :
    (2 : ℚ) ^ (1024 : ℤ) ≤ (t : ℚ) * 2 ^ ((E : ℤ) - 1074) := by
  obtain ⟨h1, h2⟩ := h
  have hE : 2045 ≤ E := by omega
  have ht := h2 (by omega)
  by_cases hE6 : 2046 ≤ E
  · have a : (2 : ℚ) ^ (52 : ℤ) ≤ (t : ℚ) := by
      have : ((4503599627370496 : Nat) : ℚ) ≤ (t : ℚ) := by exact_mod_cast ht
      norm_num at this ⊢; exact this
    calc (2 : ℚ) ^ (1024 : ℤ) ≤ 2 ^ ((52 : ℤ) + ((E : ℤ) - 1074)) := zpow2_mono (by omega)
      _ = 2 ^ (52 : ℤ) * 2 ^ ((E : ℤ) - 1074) := (zpow2_add _ _).symm
      _ ≤ (t : ℚ) * 2 ^ ((E : ℤ) - 1074) := mul_le_mul_of_nonneg_right a (two_zpow_pos _).le
  · have hE5 : E = 2045 := by omega
    have ht2 : t = 9007199254740992 := by omega
    subst hE5; subst ht2
    have : (((2045 : Nat) : ℤ) - 1074) = 971 := by norm_num
    rw [this]
    have e : ((9007199254740992 : Nat) : ℚ) = 2 ^ (53 : ℤ) := by norm_num
    rw [e, zpow2_add]
    norm_num

theorem enc_finite (E t : Nat) (h : EncOk E t) (hlt : E * 4503599627370496 + t < 9218868437227405312) :
    (t : ℚ) * 2 ^ ((E : ℤ) - 1074) < 2 ^ (1024 : ℤ) := by
  obtain ⟨h1, h2⟩ := h
  have hE : E ≤ 2045 := by
    by_contra hne
    have := h2 (by omega)
    omega
  by_cases hE5 : E = 2045
  · subst hE5
    have ht : t < 9007199254740992 := by omega
    have a : (t : ℚ) < 2 ^ (53 : ℤ) := by
      have : (t : ℚ) < ((9007199254740992 : Nat) : ℚ) := by exact_mod_cast ht
      norm_num at this ⊢; exact this
    have : (((2045 : Nat) : ℤ) - 1074) = 971 := by norm_num
    rw [this]
    calc (t : ℚ) * 2 ^ (971 : ℤ) < 2 ^ (53 : ℤ) * 2 ^ (971 : ℤ) := mul_lt_mul_of_pos_right a (two_zpow_pos _)
      _ = 2 ^ (1024 : ℤ) := by rw [zpow2_add]; norm_num
  · have a : (t : ℚ) ≤ 2 ^ (53 : ℤ) := by
      have : (t : ℚ) ≤ ((9007199254740992 : Nat) : ℚ) := by exact_mod_cast h1
      norm_num at this ⊢; exact this
    calc (t : ℚ) * 2 ^ ((E : ℤ) - 1074) ≤ 2 ^ (53 : ℤ) * 2 ^ ((E : ℤ) - 1074) := mul_le_mul_of_nonneg_right a (two_zpow_pos _).le
      _ = 2 ^ ((53 : ℤ) + ((E : ℤ) - 1074)) := zpow2_add _ _
      _ ≤ 2 ^ (1023 : ℤ) := zpow2_mono (by omega)
      _ < 2 ^ (1024 : ℤ) := zpow_lt_zpow_right₀ (by norm_num) (by norm_num)

/-! ## the rounding of the model is `rneQ` -/

theorem rneQ_pos (x : ℚ) (hx : 0 < x) : rneQ x = (rneInt (x / 2 ^ cexp x) : ℚ) * 2 ^ cexp x := by
  unfold rneQ; rw [if_neg (not_lt.2 hx.le)]

/-- the facts about the significand the model computes for `N / D` -/
theorem round_parts (N D : Nat) (hN : 0 < N) (hD : 0 < D) :
    (-1074 : ℤ) ≤ quantum N D ∧ EncOk (quantum N D + 1074).toNat (scaledRne N D (quantum N D)) ∧
    rneQ ((N : ℚ) / D) = (scaledRne N D (quantum N D) : ℚ) * 2 ^ quantum N D := by
  set q := quantum N D with hqdef
  set t := scaledRne N D q with htdef
  obtain ⟨k1, k2⟩ := ilog2Ratio_spec N D hN hD
  have hx : (0 : ℚ) < (N : ℚ) / D := lt_of_lt_of_le (two_zpow_pos _) k1
  have hq : q = max (ilog2Ratio N D - 52) (-1074) := rfl
  have hq1 : -1074 ≤ q := by rw [hq]; exact le_max_right _ _
  have hq2 : ilog2Ratio N D - 52 ≤ q := by rw [hq]; exact le_max_left _ _
  have hpq := two_zpow_pos q
  have ht : ((t : Nat) : ℤ) = rneInt ((N : ℚ) / D / 2 ^ q) := scaledRne_spec N D hD q
  have hE : (((q + 1074).toNat : Nat) : ℤ) = q + 1074 := Int.toNat_of_nonneg (by omega)
  refine ⟨hq1, ⟨?_, ?_⟩, ?_⟩
  · -- t ≤ 2^53
    have hr : (N : ℚ) / D / 2 ^ q ≤ ((9007199254740992 : ℤ) : ℚ) := by
      rw [div_le_iff₀ hpq]
      have e : (((9007199254740992 : ℤ) : ℚ)) = 2 ^ (53 : ℤ) := by norm_num
      rw [e, zpow2_add]
      exact le_trans k2.le (zpow2_mono (by omega))
    have := rneInt_le_of_le _ _ hr
    rw [← ht] at this
    exact_mod_cast this
  · -- normal range: 2^52 ≤ t
    intro h1
    have hqk : q = ilog2Ratio N D - 52 := by
      have : -1074 < q := by omega
      rw [hq] at this ⊢
      rcases max_cases (ilog2Ratio N D - 52) (-1074) with ⟨e, _⟩ | ⟨e, _⟩
      · exact e
      · rw [e] at this; exact absurd this (lt_irrefl _)
    have hr : ((4503599627370496 : ℤ) : ℚ) ≤ (N : ℚ) / D / 2 ^ q := by
      rw [le_div_iff₀ hpq]
      have e : (((4503599627370496 : ℤ) : ℚ)) = 2 ^ (52 : ℤ) := by norm_num
      rw [e, zpow2_add]
      exact le_trans (zpow2_mono (by omega)) k1
    have := rneInt_ge_of_ge _ _ hr
    rw [← ht] at this
    exact_mod_cast this
  · rw [rneQ_pos _ hx, ← quantum_eq_cexp N D hN hD]
    show ((rneInt ((N : ℚ) / D / 2 ^ q) : ℤ) : ℚ) * 2 ^ q = (t : ℚ) * 2 ^ q
    rw [← ht]; norm_cast

/-- ★ `roundMag N D` is the binary64 with value `rneQ (N / D)`, or infinity when that value is beyond the largest finite one -/
theorem roundMag_spec (N D : Nat) (hN : 0 < N) (hD : 0 < D) :
    (rneQ ((N : ℚ) / D) < 2 ^ (1024 : ℤ) →
      ∃ m e, decode (roundMag N D) = .fin false m e ∧ (m : ℚ) * 2 ^ e = rneQ ((N : ℚ) / D)) ∧
    ((2 : ℚ) ^ (1024 : ℤ) ≤ rneQ ((N : ℚ) / D) → roundMag N D = infBits) := by
  obtain ⟨hq1, hok, hval⟩ := round_parts N D hN hD
  have hE : (((quantum N D + 1074).toNat : Nat) : ℤ) - 1074 = quantum N D := by
    rw [Int.toNat_of_nonneg (by omega)]; ring
  have hrm : roundMag N D =
      if infBits ≤ (quantum N D + 1074).toNat * two52 + scaledRne N D (quantum N D) then infBits
      else (quantum N D + 1074).toNat * two52 + scaledRne N D (quantum N D) := rfl
  by_cases hb : infBits ≤ (quantum N D + 1074).toNat * two52 + scaledRne N D (quantum N D)
  · have hov := enc_overflow _ _ hok hb
    rw [hE, ← hval] at hov
    refine ⟨fun h => absurd hov (not_le.2 h), fun _ => by rw [hrm, if_pos hb]⟩
  · have hlt : (quantum N D + 1074).toNat * 4503599627370496 + scaledRne N D (quantum N D) < 9218868437227405312 :=
      Nat.lt_of_not_ge hb
    have hfin := enc_finite _ _ hok hlt
    rw [hE, ← hval] at hfin
    refine ⟨fun _ => ?_, fun h => absurd hfin (not_lt.2 h)⟩
    obtain ⟨m, e, hd, hv⟩ := enc_decode _ _ hok hlt
    rw [hE, ← hval] at hv
    exact ⟨m, e, by rw [hrm, if_neg hb]; exact hd, hv⟩

/-! ## signs -/

theorem rneQ_zero : rneQ 0 = 0 := by
  unfold rneQ; simp [rneInt]

theorem rneQ_neg_of_pos (y : ℚ) (hy : 0 < y) : rneQ (-y) = -rneQ y := by
  have hc : cexp (-y) = cexp y := by unfold cexp; rw [abs_neg]
  unfold rneQ
  rw [if_pos (by linarith), if_neg (by linarith), hc, neg_neg]

theorem rneQ_nonneg (y : ℚ) (hy : 0 ≤ y) : 0 ≤ rneQ y := by
  unfold rneQ
  rw [if_neg (not_lt.2 hy)]
  apply mul_nonneg _ (two_zpow_pos _).le
  have : (0 : ℤ) ≤ rneInt (y / 2 ^ cexp y) := rneInt_ge_of_ge _ 0 (by simpa using div_nonneg hy (two_zpow_pos _).le)
  exact_mod_cast this

/-- bits below 2^63 decode with a clear sign; adding 2^63 sets it and changes nothing else -/
def decodeWith (s : Bool) (b : Nat) : Dbl :=
  let ex := b / 4503599627370496 % 2048
  let fr := b % 4503599627370496
  if ex = 2047 then (if fr = 0 then .inf s else .nan)
  else if ex = 0 then .fin s fr (-1074)
  else .fin s (fr + 4503599627370496) (Int.ofNat ex - 1075)

theorem decode_signed (mag : Nat) (hm : mag < 9223372036854775808) :
    decode mag = decodeWith false mag ∧ decode (9223372036854775808 + mag) = decodeWith true mag := by
  have e0 : mag / 9223372036854775808 % 2 = 0 := by omega
  have e1 : (9223372036854775808 + mag) / 9223372036854775808 % 2 = 1 := by omega
  have e2 : (9223372036854775808 + mag) / 4503599627370496 % 2048 = mag / 4503599627370496 % 2048 := by omega
  have e3 : (9223372036854775808 + mag) % 4503599627370496 = mag % 4503599627370496 := by omega
  constructor
  · unfold decode decodeWith; simp only [e0]; rfl
  · unfold decode decodeWith; simp only [e1, e2, e3]; rfl

theorem decode_withSign_fin (neg : Bool) (mag m : Nat) (e : ℤ) (hm : mag < 9223372036854775808)
    (h : decode mag = .fin false m e) : decode (withSign neg mag) = .fin neg m e := by
  obtain ⟨h0, h1⟩ := decode_signed mag hm
  cases neg with
  | false => exact h
  | true =>
    show decode (9223372036854775808 + mag) = _
    rw [h1]
    rw [h0] at h
    unfold decodeWith at h ⊢
    simp only [] at h ⊢
    split at h
    · split at h <;> exact absurd h (by simp)
    · rename_i hx
      rw [if_neg hx]
      split at h
      · rename_i hy; rw [if_pos hy]; injection h with _ h2 h3; rw [h2, h3]
      · rename_i hy; rw [if_neg hy]; injection h with _ h2 h3; rw [h2, h3]

theorem decode_withSign_inf (neg : Bool) : decode (withSign neg infBits) = .inf neg := by
  cases neg <;> decide

theorem roundMag_lt (N D : Nat) : roundMag N D < 9223372036854775808 := by
  unfold roundMag
  simp only []
  split
  · decide
  · rename_i h; unfold infBits at h; omega

/-- the sign factor -/
def sgnQ (neg : Bool) : ℚ := if neg then -1 else 1

theorem smant_eq (neg : Bool) (m : Nat) : ((smant neg m : ℤ) : ℚ) = sgnQ neg * (m : ℚ) := by
  unfold smant sgnQ; cases neg <;> simp

/-- ★ `roundSigned neg N D` is the binary64 with value `rneQ (± N / D)`; beyond the largest finite value: infinity of
    that sign; a zero keeps the sign it was given -/
theorem roundSigned_correct (neg : Bool) (N D : Nat) (hD : 0 < D) :
    (|rneQ (sgnQ neg * ((N : ℚ) / D))| < 2 ^ (1024 : ℤ) →
      ∃ m e, decode (roundSigned neg N D) = .fin neg m e ∧ sgnQ neg * ((m : ℚ) * 2 ^ e) = rneQ (sgnQ neg * ((N : ℚ) / D))) ∧
    ((2 : ℚ) ^ (1024 : ℤ) ≤ |rneQ (sgnQ neg * ((N : ℚ) / D))| → decode (roundSigned neg N D) = .inf neg) := by
  by_cases hN : N = 0
  · subst hN
    have hz : sgnQ neg * (((0 : Nat) : ℚ) / D) = 0 := by simp
    rw [hz, rneQ_zero]
    have hd : decode (roundSigned neg 0 D) = .fin neg 0 (-1074) := by
      unfold roundSigned; rw [if_pos rfl]
      exact decode_withSign_fin neg 0 0 (-1074) (by decide) (by decide)
    refine ⟨fun _ => ⟨0, -1074, hd, by simp⟩, fun h => ?_⟩
    rw [abs_zero] at h
    exact absurd h (not_le.2 (two_zpow_pos _))
  · have hNp : 0 < N := Nat.pos_of_ne_zero hN
    obtain ⟨k1, _⟩ := ilog2Ratio_spec N D hNp hD
    have hx : (0 : ℚ) < (N : ℚ) / D := lt_of_lt_of_le (two_zpow_pos _) k1
    have hr0 := rneQ_nonneg _ hx.le
    have habs : |rneQ (sgnQ neg * ((N : ℚ) / D))| = rneQ ((N : ℚ) / D) := by
      cases neg with
      | false => simp only [sgnQ, Bool.false_eq_true, if_false, one_mul]; exact abs_of_nonneg hr0
      | true =>
        simp only [sgnQ, if_true, neg_one_mul]
        rw [rneQ_neg_of_pos _ hx, abs_neg]; exact abs_of_nonneg hr0
    have hval : rneQ (sgnQ neg * ((N : ℚ) / D)) = sgnQ neg * rneQ ((N : ℚ) / D) := by
      cases neg with
      | false => simp [sgnQ]
      | true => simp only [sgnQ, if_true, neg_one_mul]; exact rneQ_neg_of_pos _ hx
    obtain ⟨s1, s2⟩ := roundMag_spec N D hNp hD
    have hrs : roundSigned neg N D = withSign neg (roundMag N D) := by unfold roundSigned; rw [if_neg hN]
    rw [habs, hrs]
    refine ⟨fun h => ?_, fun h => ?_⟩
    · obtain ⟨m, e, hd, hv⟩ := s1 h
      exact ⟨m, e, decode_withSign_fin neg _ m e (roundMag_lt N D) hd, by rw [hval, hv]⟩
    · rw [s2 h]; exact decode_withSign_inf neg

/-- the same, in terms of `FinBits` / `valQ` -/
theorem roundSigned_valQ (neg : Bool) (N D : Nat) (hD : 0 < D) (x : ℚ) (hx : x = sgnQ neg * ((N : ℚ) / D)) :
    (|rneQ x| < 2 ^ (1024 : ℤ) → FinBits (roundSigned neg N D) ∧ valQ (roundSigned neg N D) = rneQ x) ∧
    ((2 : ℚ) ^ (1024 : ℤ) ≤ |rneQ x| → decode (roundSigned neg N D) = .inf neg) := by
  subst hx
  obtain ⟨h1, h2⟩ := roundSigned_correct neg N D hD
  refine ⟨fun h => ?_, h2⟩
  obtain ⟨m, e, hd, hv⟩ := h1 h
  refine ⟨⟨neg, m, e, hd⟩, ?_⟩
  unfold valQ
  rw [hd, ← hv]
  simp only [Dbl.toRat, smant_eq]
  ring

theorem dy_value (m : Nat) (e : ℤ) : ((dyNum m e : Nat) : ℚ) / (dyDen e : Nat) = (m : ℚ) * 2 ^ e ∧ 0 < dyDen e := by
  unfold dyNum dyDen
  by_cases he : 0 ≤ e
  · rw [if_pos he, if_pos he]
    obtain ⟨j, hj⟩ := Int.eq_ofNat_of_zero_le he
    rw [hj, Int.toNat_natCast, zpow_natCast]
    refine ⟨by push_cast; simp, by decide⟩
  · rw [if_neg he, if_neg he]
    obtain ⟨j, hj⟩ := Int.eq_ofNat_of_zero_le (show 0 ≤ -e by omega)
    have he' : e = -(j : ℤ) := by omega
    rw [hj, Int.toNat_natCast, he', zpow_neg, zpow_natCast]
    refine ⟨by push_cast; rw [div_eq_mul_inv], Nat.two_pow_pos j⟩

theorem valQ_of_decode (a : Nat) (n : Bool) (m : Nat) (e : ℤ) (h : decode a = .fin n m e) :
    valQ a = sgnQ n * ((m : ℚ) * 2 ^ e) := by
  unfold valQ; rw [h]; simp only [Dbl.toRat, smant_eq]; ring

theorem sgnQ_mul (a b : Bool) : sgnQ a * sgnQ b = sgnQ (a != b) := by
  cases a <;> cases b <;> simp [sgnQ]

/-! ## the four operations -/

/-- ★ `x * y` on finite operands: the product of the two rationals, rounded once (`rneQ`); infinity of the product's sign
    when the rounded value is beyond the largest finite binary64 -/
theorem mul_correct (a b : Nat) (n1 n2 : Bool) (m1 m2 : Nat) (e1 e2 : ℤ)
    (ha : decode a = .fin n1 m1 e1) (hb : decode b = .fin n2 m2 e2) :
    (|rneQ (valQ a * valQ b)| < 2 ^ (1024 : ℤ) → FinBits (mul a b) ∧ valQ (mul a b) = rneQ (valQ a * valQ b)) ∧
    ((2 : ℚ) ^ (1024 : ℤ) ≤ |rneQ (valQ a * valQ b)| → decode (mul a b) = .inf (n1 != n2)) := by
  have hm : mul a b = roundSigned (n1 != n2) (dyNum (m1 * m2) (e1 + e2)) (dyDen (e1 + e2)) := by
    unfold mul; rw [ha, hb]
  obtain ⟨dv, dp⟩ := dy_value (m1 * m2) (e1 + e2)
  rw [hm]
  apply roundSigned_valQ _ _ _ dp
  rw [dv, valQ_of_decode a n1 m1 e1 ha, valQ_of_decode b n2 m2 e2 hb, ← sgnQ_mul, ← zpow2_add]
  push_cast
  ring

/-- ★ `x / y`, y ≠ 0 -/
theorem div_correct (a b : Nat) (n1 n2 : Bool) (m1 m2 : Nat) (e1 e2 : ℤ)
    (ha : decode a = .fin n1 m1 e1) (hb : decode b = .fin n2 m2 e2) (hm2 : m2 ≠ 0) :
    (|rneQ (valQ a / valQ b)| < 2 ^ (1024 : ℤ) → FinBits (div a b) ∧ valQ (div a b) = rneQ (valQ a / valQ b)) ∧
    ((2 : ℚ) ^ (1024 : ℤ) ≤ |rneQ (valQ a / valQ b)| → decode (div a b) = .inf (n1 != n2)) := by
  have hm : div a b = roundSigned (n1 != n2) (dyNum m1 (e1 - e2)) (m2 * dyDen (e1 - e2)) := by
    unfold div; rw [ha, hb]; simp only []; rw [if_neg hm2]
  obtain ⟨dv, dp⟩ := dy_value m1 (e1 - e2)
  have hm2q : (m2 : ℚ) ≠ 0 := by exact_mod_cast hm2
  have hdq : ((dyDen (e1 - e2) : Nat) : ℚ) ≠ 0 := by exact_mod_cast dp.ne'
  rw [hm]
  apply roundSigned_valQ _ _ _ (Nat.mul_pos (Nat.pos_of_ne_zero hm2) dp)
  have e : ((dyNum m1 (e1 - e2) : Nat) : ℚ) / ((m2 * dyDen (e1 - e2) : Nat) : ℚ) = (m1 : ℚ) * 2 ^ (e1 - e2) / m2 := by
    rw [← dv]; push_cast; field_simp
  rw [e, valQ_of_decode a n1 m1 e1 ha, valQ_of_decode b n2 m2 e2 hb, ← sgnQ_mul, zpow_sub₀ (by norm_num : (2 : ℚ) ≠ 0)]
  have h2 : (2 : ℚ) ^ e2 ≠ 0 := (two_zpow_pos e2).ne'
  have hs : sgnQ n2 ≠ 0 := by cases n2 <;> simp [sgnQ]
  have hs2 : sgnQ n2 * sgnQ n2 = 1 := by cases n2 <;> simp [sgnQ]
  field_simp
  have hs3 : sgnQ n2 ^ 2 = 1 := by rw [pow_two]; exact hs2
  rw [hs3, mul_one]

theorem valQ_smant (a : Nat) (n : Bool) (m : Nat) (e : ℤ) (h : decode a = .fin n m e) :
    valQ a = ((smant n m : ℤ) : ℚ) * 2 ^ e := by
  unfold valQ; rw [h]; rfl

/-- ★ `x + y` on finite operands; an exact zero sum is +0 unless both operands are -0 -/
theorem add_correct (a b : Nat) (n1 n2 : Bool) (m1 m2 : Nat) (e1 e2 : ℤ)
    (ha : decode a = .fin n1 m1 e1) (hb : decode b = .fin n2 m2 e2) :
    (|rneQ (valQ a + valQ b)| < 2 ^ (1024 : ℤ) → FinBits (add a b) ∧ valQ (add a b) = rneQ (valQ a + valQ b)) ∧
    ((2 : ℚ) ^ (1024 : ℤ) ≤ |rneQ (valQ a + valQ b)| → decode (add a b) = .inf (decide (valQ a + valQ b < 0))) := by
  set e := min e1 e2 with he
  obtain ⟨j1, hj1⟩ := Int.eq_ofNat_of_zero_le (show 0 ≤ e1 - e by omega)
  obtain ⟨j2, hj2⟩ := Int.eq_ofNat_of_zero_le (show 0 ≤ e2 - e by omega)
  set s : ℤ := smant n1 m1 * 2 ^ (e1 - e).toNat + smant n2 m2 * 2 ^ (e2 - e).toNat with hs
  have hx : valQ a + valQ b = (s : ℚ) * 2 ^ e := by
    rw [valQ_smant a n1 m1 e1 ha, valQ_smant b n2 m2 e2 hb, hs, hj1, hj2]
    simp only [Int.toNat_natCast]
    have h1 : e1 = (j1 : ℤ) + e := by omega
    have h2 : e2 = (j2 : ℤ) + e := by omega
    push_cast
    conv_lhs => rw [h1, h2]
    rw [← zpow2_add, ← zpow2_add, zpow_natCast, zpow_natCast]
    ring
  have hadd : add a b = if s = 0 then withSign (n1 && n2) 0
      else roundSigned (decide (s < 0)) (dyNum s.natAbs e) (dyDen e) := by
    unfold add; rw [ha, hb]
  rw [hadd, hx]
  by_cases h0 : s = 0
  · rw [if_pos h0, h0]
    simp only [Int.cast_zero, zero_mul, rneQ_zero, abs_zero]
    have hd : decode (withSign (n1 && n2) 0) = .fin (n1 && n2) 0 (-1074) :=
      decode_withSign_fin _ 0 0 (-1074) (by decide) (by decide)
    refine ⟨fun _ => ⟨⟨_, _, _, hd⟩, by unfold valQ; rw [hd]; simp [Dbl.toRat, smant]⟩, fun h => ?_⟩
    exact absurd h (not_le.2 (two_zpow_pos _))
  · rw [if_neg h0]
    obtain ⟨dv, dp⟩ := dy_value s.natAbs e
    have hsign : (decide ((s : ℚ) * 2 ^ e < 0)) = decide (s < 0) := by
      have : ((s : ℚ) * 2 ^ e < 0) ↔ s < 0 := by
        rw [mul_neg_iff]
        constructor
        · rintro (⟨_, h⟩ | ⟨h, _⟩)
          · exact absurd h (not_lt.2 (two_zpow_pos e).le)
          · exact_mod_cast h
        · intro h; exact Or.inr ⟨by exact_mod_cast h, two_zpow_pos e⟩
      simp only [this]
    rw [hsign]
    apply roundSigned_valQ _ _ _ dp
    rw [dv]
    have hq : ((s.natAbs : Nat) : ℚ) = |(s : ℚ)| := by rw [Nat.cast_natAbs, Int.cast_abs]
    have habs : (s : ℚ) = sgnQ (decide (s < 0)) * ((s.natAbs : Nat) : ℚ) := by
      rw [hq]
      by_cases hneg : s < 0
      · simp only [hneg, decide_true, sgnQ, if_true]
        rw [abs_of_neg (by exact_mod_cast hneg)]; ring
      · simp only [hneg, decide_false, sgnQ, Bool.false_eq_true, if_false, one_mul]
        rw [abs_of_nonneg (by exact_mod_cast (not_lt.1 hneg))]
    conv_lhs => rw [habs]
    ring

/-- flipping the sign bit -/
theorem decode_flip (b b' : Nat) (n : Bool) (m : Nat) (e : ℤ)
    (h1 : b' / 9223372036854775808 % 2 = 1 - b / 9223372036854775808 % 2)
    (h2 : b' / 4503599627370496 % 2048 = b / 4503599627370496 % 2048) (h3 : b' % 4503599627370496 = b % 4503599627370496)
    (h : decode b = .fin n m e) : decode b' = .fin (!n) m e := by
  unfold decode at h ⊢
  simp only [h2, h3] at h ⊢
  have hbit : b / 9223372036854775808 % 2 = 0 ∨ b / 9223372036854775808 % 2 = 1 := by omega
  split at h
  · split at h <;> exact absurd h (by simp)
  · rename_i hx
    rw [if_neg hx]
    split at h
    · rename_i hy
      rw [if_pos hy]
      injection h with h1' h2' h3'
      rw [← h2', ← h3', ← h1']
      rcases hbit with hb | hb <;> simp [h1, hb]
    · rename_i hy
      rw [if_neg hy]
      injection h with h1' h2' h3'
      rw [← h2', ← h3', ← h1']
      rcases hbit with hb | hb <;> simp [h1, hb]

theorem negate_fin (b : Nat) (n : Bool) (m : Nat) (e : ℤ) (h : decode b = .fin n m e) :
    decode (negate b) = .fin (!n) m e := by
  unfold negate
  rw [h]
  simp only []
  by_cases hbit : b / signBitVal % 2 = 1
  · rw [if_pos hbit]
    unfold signBitVal at hbit ⊢
    exact decode_flip b _ n m e (by omega) (by omega) (by omega) h
  · rw [if_neg hbit]
    unfold signBitVal at hbit ⊢
    exact decode_flip b _ n m e (by omega) (by omega) (by omega) h

/-- ★ `x - y` = `x + (-y)` -/
theorem sub_correct (a b : Nat) (n1 n2 : Bool) (m1 m2 : Nat) (e1 e2 : ℤ)
    (ha : decode a = .fin n1 m1 e1) (hb : decode b = .fin n2 m2 e2) :
    (|rneQ (valQ a - valQ b)| < 2 ^ (1024 : ℤ) → FinBits (sub a b) ∧ valQ (sub a b) = rneQ (valQ a - valQ b)) ∧
    ((2 : ℚ) ^ (1024 : ℤ) ≤ |rneQ (valQ a - valQ b)| → decode (sub a b) = .inf (decide (valQ a - valQ b < 0))) := by
  have hn := negate_fin b n2 m2 e2 hb
  have hv : valQ (negate b) = -valQ b := by
    rw [valQ_of_decode _ _ _ _ hn, valQ_of_decode _ _ _ _ hb]
    cases n2 <;> simp [sgnQ]
  have := add_correct a (negate b) n1 (!n2) m1 m2 e1 e2 ha hn
  rw [hv, ← sub_eq_add_neg] at this
  exact this

/-! ## `floor` is exact -/

/-- integers up to 2^52 are fixed by the rounding (every binary64 is; this is all `floor` needs) -/
theorem rneQ_small_nat (n : Nat) (hn : n ≤ 4503599627370496) : rneQ (n : ℚ) = n := by
  by_cases h0 : n = 0
  · subst h0; simpa using rneQ_zero
  have hpos : (0 : ℚ) < n := by exact_mod_cast Nat.pos_of_ne_zero h0
  have hlt : (n : ℚ) < (2 : ℚ) ^ (53 : ℤ) := by
    have : (n : ℚ) ≤ ((4503599627370496 : Nat) : ℚ) := by exact_mod_cast hn
    norm_num at this ⊢; linarith
  have hk : Int.log 2 (n : ℚ) < 53 := (Int.lt_zpow_iff_log_lt (by norm_num) hpos).1 (by exact_mod_cast hlt)
  have hc : cexp (n : ℚ) ≤ 0 := by
    unfold cexp; rw [abs_of_pos hpos]; exact max_le (by omega) (by norm_num)
  obtain ⟨j, hj⟩ := Int.eq_ofNat_of_zero_le (show 0 ≤ -cexp (n : ℚ) by omega)
  have hc' : cexp (n : ℚ) = -(j : ℤ) := by omega
  rw [rneQ_pos _ hpos, hc', zpow_neg, zpow_natCast]
  have : (n : ℚ) / (2 ^ j)⁻¹ = (((n * 2 ^ j : Nat) : ℤ) : ℚ) := by push_cast; rw [div_inv_eq_mul]
  rw [this, rneInt_intCast]
  push_cast
  have hp : (2 : ℚ) ^ j ≠ 0 := by positivity
  field_simp

theorem small_lt_big (n : Nat) (hn : n ≤ 4503599627370496) : |(n : ℚ)| < 2 ^ (1024 : ℤ) := by
  have : (n : ℚ) ≤ ((4503599627370496 : Nat) : ℚ) := by exact_mod_cast hn
  have e : (((4503599627370496 : Nat)) : ℚ) = 2 ^ (52 : ℤ) := by norm_num
  rw [e] at this
  rw [abs_of_nonneg (by positivity)]
  exact lt_of_le_of_lt this (zpow_lt_zpow_right₀ (by norm_num) (by norm_num))

theorem smant_mul (neg : Bool) (a b : Nat) : smant neg (a * b) = smant neg a * (b : ℤ) := by
  cases neg <;> simp [smant]

/-- ★ libm `floor` on the instance: the floor of a finite binary64 is a finite binary64 whose value is the mathematical
    floor — no assumption left (`FloorExact` was a hypothesis of the `num_*` theorems) -/
theorem floor_exact : FloorExact ieee := by
  intro b hb
  obtain ⟨neg, m, e, hd⟩ := hb
  have hwf : m < 9007199254740992 := by have := decode_wf b; rw [hd] at this; exact this
  show FinBits (floor b) ∧ valQ (floor b) = ((⌊valQ b⌋ : ℤ) : ℚ)
  have hself : FinBits b := ⟨neg, m, e, hd⟩
  have hv := valQ_smant b neg m e hd
  unfold floor
  rw [hd]
  simp only []
  by_cases he : 0 ≤ e
  · rw [if_pos he]
    obtain ⟨j, hj⟩ := Int.eq_ofNat_of_zero_le he
    refine ⟨hself, ?_⟩
    have : valQ b = ((smant neg m * 2 ^ j : ℤ) : ℚ) := by rw [hv, hj, zpow_natCast]; push_cast; ring
    rw [this, Int.floor_intCast]
  · rw [if_neg he]
    obtain ⟨j, hj⟩ := Int.eq_ofNat_of_zero_le (show 0 ≤ -e by omega)
    have he' : e = -(j : ℤ) := by omega
    have hj1 : 1 ≤ j := by omega
    rw [hj, Int.toNat_natCast]
    have hp : (0 : ℚ) < 2 ^ j := by positivity
    have hdm := Nat.div_add_mod m (2 ^ j)
    have h2j : 2 ≤ 2 ^ j := by
      calc 2 = 2 ^ 1 := rfl
        _ ≤ 2 ^ j := Nat.pow_le_pow_right (by decide) hj1
    have hf : m / 2 ^ j ≤ 4503599627370496 - 1 := by
      have : 2 * (m / 2 ^ j) ≤ m := by
        calc 2 * (m / 2 ^ j) ≤ 2 ^ j * (m / 2 ^ j) := Nat.mul_le_mul_right _ h2j
          _ ≤ m := by omega
      omega
    generalize hfd : m / 2 ^ j = f at *
    generalize hrd : m % 2 ^ j = r at *
    have hrlt : r < 2 ^ j := by rw [← hrd]; exact Nat.mod_lt _ (Nat.two_pow_pos j)
    have hmq : (m : ℚ) = (2 : ℚ) ^ j * (f : ℚ) + (r : ℚ) := by exact_mod_cast hdm.symm
    by_cases hr : r = 0
    · rw [if_pos hr]
      refine ⟨hself, ?_⟩
      have hm : m = f * 2 ^ j := by rw [hr, Nat.add_zero, Nat.mul_comm] at hdm; exact hdm.symm
      have : valQ b = ((smant neg f : ℤ) : ℚ) := by
        rw [hv, he', zpow_neg, zpow_natCast]
        conv_lhs => rw [hm, smant_mul]
        push_cast
        field_simp
      rw [this, Int.floor_intCast]
    · rw [if_neg hr]
      have hrq1 : (0 : ℚ) < (r : ℚ) := by exact_mod_cast Nat.pos_of_ne_zero hr
      have hrq2 : (r : ℚ) < 2 ^ j := by exact_mod_cast hrlt
      cases neg with
      | true =>
        rw [if_pos rfl]
        have hx : -(((f + 1 : Nat)) : ℚ) = sgnQ true * (((f + 1 : Nat) : ℚ) / ((1 : Nat) : ℚ)) := by simp [sgnQ]
        obtain ⟨r1, _⟩ := roundSigned_valQ true (f + 1) 1 (by decide) _ hx
        have hrn : rneQ (-(((f + 1 : Nat)) : ℚ)) = -(((f + 1 : Nat)) : ℚ) := by
          rw [rneQ_neg_of_pos _ (by positivity), rneQ_small_nat _ (by omega)]
        rw [hrn, abs_neg] at r1
        obtain ⟨f1, f2⟩ := r1 (small_lt_big _ (by omega))
        refine ⟨f1, ?_⟩
        rw [f2]
        have hfl : ⌊valQ b⌋ = -((f + 1 : Nat) : ℤ) := by
          rw [Int.floor_eq_iff, hv, he', zpow_neg, zpow_natCast]
          simp only [smant, if_true, Int.ofNat_eq_natCast]
          push_cast
          constructor
          · rw [le_mul_inv_iff₀ hp]; nlinarith
          · rw [mul_inv_lt_iff₀ hp]; nlinarith
        rw [hfl]; push_cast; ring
      | false =>
        rw [if_neg (by simp)]
        have hx : ((f : Nat) : ℚ) = sgnQ false * (((f : Nat) : ℚ) / ((1 : Nat) : ℚ)) := by simp [sgnQ]
        obtain ⟨r1, _⟩ := roundSigned_valQ false f 1 (by decide) _ hx
        rw [rneQ_small_nat _ (by omega)] at r1
        obtain ⟨f1, f2⟩ := r1 (small_lt_big _ (by omega))
        refine ⟨f1, ?_⟩
        rw [f2]
        have hfl : ⌊valQ b⌋ = ((f : Nat) : ℤ) := by
          rw [Int.floor_eq_iff, hv, he', zpow_neg, zpow_natCast]
          simp only [smant, Bool.false_eq_true, if_false, Int.ofNat_eq_natCast]
          push_cast
          constructor
          · rw [le_mul_inv_iff₀ hp]; nlinarith
          · rw [mul_inv_lt_iff₀ hp]; nlinarith
        rw [hfl]; push_cast; ring

/-! ## the VM's handlers for `div`, `mod` on two numbers, over the instance -/

theorem nonzero_of_isZeroBits (b : Nat) (n : Bool) (m : Nat) (e : ℤ) (hd : decode b = .fin n m e) (hz : isZeroBits b = false) :
    m ≠ 0 := by
  intro h0; subst h0
  unfold isZeroBits at hz; rw [hd] at hz; simp at hz

/-- ★ `(div a b)` on two finite numbers, b ≠ 0: **⌊RN(a / b)⌋** — the quotient of the two rationals rounded once to binary64
    (`rneQ`), then the exact floor.  (Not always ⌊a / b⌋: when a / b lies within half an ulp below an integer the rounded
    quotient is that integer.)  No assumption about the primitives is left; `hfin` = the quotient does not overflow. -/
theorem ieee_num_div (a b : Nat) (ha : FinBits a) (hb : FinBits b) (hz : isZeroBits b = false)
    (hfin : |rneQ (valQ a / valQ b)| < 2 ^ (1024 : ℤ)) :
    FinBits (ieee.div a b) ∧ valQ (ieee.div a b) = rneQ (valQ a / valQ b) ∧
    FinBits (numDivFloor ieee a b) ∧ valQ (numDivFloor ieee a b) = ((⌊rneQ (valQ a / valQ b)⌋ : ℤ) : ℚ) := by
  obtain ⟨n1, m1, e1, h1⟩ := ha
  obtain ⟨n2, m2, e2, h2⟩ := hb
  obtain ⟨d1, d2⟩ := (div_correct a b n1 n2 m1 m2 e1 e2 h1 h2 (nonzero_of_isZeroBits b n2 m2 e2 h2 hz)).1 hfin
  obtain ⟨f1, f2⟩ := floor_exact (div a b) d1
  exact ⟨d1, d2, f1, by rw [← d2]; exact f2⟩

/-- ★ `(mod a b)` on two finite numbers, b ≠ 0 (`(mod a ±0)` is `a`: `num_mod_zero_is_dividend`): with q = ⌊RN(a / b)⌋,
    the result is **RN(a − RN(b · q))** — three roundings, each the nearest-even rounding of an exact rational -/
theorem ieee_num_mod (a b : Nat) (ha : FinBits a) (hb : FinBits b) (hz : isZeroBits b = false)
    (hfin1 : |rneQ (valQ a / valQ b)| < 2 ^ (1024 : ℤ))
    (hfin2 : |rneQ (valQ b * ((⌊rneQ (valQ a / valQ b)⌋ : ℤ) : ℚ))| < 2 ^ (1024 : ℤ))
    (hfin3 : |rneQ (valQ a - rneQ (valQ b * ((⌊rneQ (valQ a / valQ b)⌋ : ℤ) : ℚ)))| < 2 ^ (1024 : ℤ)) :
    FinBits (numModulo ieee a b) ∧
    valQ (numModulo ieee a b) = rneQ (valQ a - rneQ (valQ b * ((⌊rneQ (valQ a / valQ b)⌋ : ℤ) : ℚ))) := by
  obtain ⟨_, _, f1, f2⟩ := ieee_num_div a b ha hb hz hfin1
  have hnm : numModulo ieee a b = sub a (mul b (floor (div a b))) := by
    unfold numModulo; rw [if_neg (by simp [hz])]; rfl
  have hfl : numDivFloor ieee a b = floor (div a b) := rfl
  rw [hfl] at f1 f2
  obtain ⟨n1, m1, e1, h1⟩ := ha
  obtain ⟨n2, m2, e2, h2⟩ := hb
  obtain ⟨n3, m3, e3, h3⟩ := f1
  obtain ⟨p1, p2⟩ := (mul_correct b (floor (div a b)) n2 n3 m2 m3 e2 e3 h2 h3).1 (by rw [f2]; exact hfin2)
  rw [f2] at p2
  obtain ⟨n4, m4, e4, h4⟩ := p1
  obtain ⟨s1, s2⟩ := (sub_correct a (mul b (floor (div a b))) n1 n4 m1 m4 e1 e4 h1 h4).1 (by rw [p2]; exact hfin3)
  rw [p2] at s2
  rw [hnm]
  exact ⟨s1, s2⟩

/-- x is a binary64 value: the rounding leaves it alone and it is in range -/
def Repr64 (x : ℚ) : Prop := rneQ x = x ∧ |x| < 2 ^ (1024 : ℤ)

/-- ★ when the three exact intermediate results are binary64 values (e.g. small integers), `(mod a b)` is a − b⌊a/b⌋
    exactly, in [0, b) for b > 0 and in (b, 0] for b < 0 — the `ExactAt` / `FloorExact` hypotheses of
    `num_mod_floor_convention` are discharged by the instance -/
theorem ieee_num_mod_exact (a b : Nat) (ha : FinBits a) (hb : FinBits b) (hz : isZeroBits b = false)
    (r1 : Repr64 (valQ a / valQ b))
    (r2 : Repr64 (valQ b * ((⌊valQ a / valQ b⌋ : ℤ) : ℚ)))
    (r3 : Repr64 (valQ a - valQ b * ((⌊valQ a / valQ b⌋ : ℤ) : ℚ))) :
    valQ (numModulo ieee a b) = valQ a - valQ b * ((⌊valQ a / valQ b⌋ : ℤ) : ℚ) ∧
    (0 < valQ b → 0 ≤ valQ (numModulo ieee a b) ∧ valQ (numModulo ieee a b) < valQ b) ∧
    (valQ b < 0 → valQ b < valQ (numModulo ieee a b) ∧ valQ (numModulo ieee a b) ≤ 0) := by
  obtain ⟨d1, d2, f1, f2⟩ := ieee_num_div a b ha hb hz (by rw [r1.1]; exact r1.2)
  rw [r1.1] at d2 f2
  have hfl : numDivFloor ieee a b = ieee.floor (ieee.div a b) := rfl
  rw [hfl] at f1 f2
  have hd : ExactAt ieee.div (· / ·) a b := ⟨d1, d2⟩
  obtain ⟨n2, m2, e2, h2⟩ := hb
  obtain ⟨n3, m3, e3, h3⟩ := f1
  obtain ⟨p1, p2⟩ := (mul_correct b (ieee.floor (ieee.div a b)) n2 n3 m2 m3 e2 e3 h2 h3).1 (by
    show |rneQ (valQ b * valQ (ieee.floor (ieee.div a b)))| < _
    rw [f2, r2.1]; exact r2.2)
  have hm : ExactAt ieee.mul (· * ·) b (ieee.floor (ieee.div a b)) := ⟨p1, by
    show valQ (mul b _) = _
    rw [p2, f2, r2.1]⟩
  obtain ⟨n1, m1, e1, h1⟩ := ha
  obtain ⟨n4, m4, e4, h4⟩ := p1
  have p2' : valQ (mul b (ieee.floor (ieee.div a b))) = valQ b * ((⌊valQ a / valQ b⌋ : ℤ) : ℚ) := by
    rw [p2, f2, r2.1]
  obtain ⟨s1, s2⟩ := (sub_correct a (mul b (ieee.floor (ieee.div a b))) n1 n4 m1 m4 e1 e4 h1 h4).1 (by
    rw [p2', r3.1]; exact r3.2)
  have hs : ExactAt ieee.sub (· - ·) a (ieee.mul b (ieee.floor (ieee.div a b))) := ⟨s1, by
    show valQ (sub a (mul b (ieee.floor (ieee.div a b)))) = valQ a - valQ (mul b (ieee.floor (ieee.div a b)))
    rw [s2, p2', r3.1]⟩
  exact num_mod_value ieee floor_exact a b ⟨n2, m2, e2, h2⟩ hz hd hm hs

/-! ## every binary64 value is a fixed point of the rounding -/

theorem rneQ_fixes_pos (m : Nat) (e : ℤ) (hm0 : 0 < m) (hm : m < 9007199254740992) (he : -1074 ≤ e) :
    rneQ ((m : ℚ) * 2 ^ e) = (m : ℚ) * 2 ^ e := by
  have hmq : (0 : ℚ) < m := by exact_mod_cast hm0
  have hpos : (0 : ℚ) < (m : ℚ) * 2 ^ e := mul_pos hmq (two_zpow_pos e)
  have hlt : (m : ℚ) * 2 ^ e < 2 ^ (e + 53) := by
    have : (m : ℚ) < 2 ^ (53 : ℤ) := by
      have : (m : ℚ) < ((9007199254740992 : Nat) : ℚ) := by exact_mod_cast hm
      norm_num at this ⊢; exact this
    calc (m : ℚ) * 2 ^ e < 2 ^ (53 : ℤ) * 2 ^ e := mul_lt_mul_of_pos_right this (two_zpow_pos e)
      _ = 2 ^ (e + 53) := by rw [zpow2_add]; congr 1; ring
  have hk : Int.log 2 ((m : ℚ) * 2 ^ e) < e + 53 := (Int.lt_zpow_iff_log_lt (by norm_num) hpos).1 (by exact_mod_cast hlt)
  have hc : cexp ((m : ℚ) * 2 ^ e) ≤ e := by
    unfold cexp; rw [abs_of_pos hpos]; exact max_le (by omega) he
  rw [rneQ_pos _ hpos]
  generalize cexp ((m : ℚ) * 2 ^ e) = c at hc ⊢
  obtain ⟨j, hj⟩ := Int.eq_ofNat_of_zero_le (show 0 ≤ e - c by omega)
  have hsplit : (2 : ℚ) ^ e = 2 ^ j * 2 ^ c := by
    rw [← zpow_natCast, zpow2_add]; congr 1; omega
  have hc0 : (2 : ℚ) ^ c ≠ 0 := (two_zpow_pos _).ne'
  have : (m : ℚ) * 2 ^ e / 2 ^ c = (((m * 2 ^ j : Nat) : ℤ) : ℚ) := by
    rw [hsplit]
    push_cast
    field_simp
  rw [this, rneInt_intCast, hsplit]
  push_cast
  ring

theorem decode_fin_bounds (b : Nat) (n : Bool) (m : Nat) (e : ℤ) (h : decode b = .fin n m e) :
    m < 9007199254740992 ∧ -1074 ≤ e ∧ e ≤ 971 := by
  have hwf := decode_wf b
  rw [h] at hwf
  obtain ⟨_, hc⟩ := decode_value b n m e h
  refine ⟨hwf, ?_⟩
  rcases hc with ⟨_, _, he⟩ | ⟨h1, h2, _, he⟩
  · omega
  · omega

/-- ★ every finite binary64 value is left alone by the rounding and is below 2^1024 in magnitude (`Repr64`) -/
theorem repr64_of_finBits (a : Nat) (ha : FinBits a) : Repr64 (valQ a) := by
  obtain ⟨n, m, e, hd⟩ := ha
  obtain ⟨hm, he1, he2⟩ := decode_fin_bounds a n m e hd
  rw [valQ_of_decode a n m e hd]
  by_cases h0 : m = 0
  · subst h0
    simp only [Nat.cast_zero, zero_mul, mul_zero]
    exact ⟨rneQ_zero, by rw [abs_zero]; exact two_zpow_pos _⟩
  have hfix := rneQ_fixes_pos m e (Nat.pos_of_ne_zero h0) hm he1
  have hmq : (0 : ℚ) < m := by exact_mod_cast Nat.pos_of_ne_zero h0
  have hpos : (0 : ℚ) < (m : ℚ) * 2 ^ e := mul_pos hmq (two_zpow_pos e)
  have hbig : (m : ℚ) * 2 ^ e < 2 ^ (1024 : ℤ) := by
    have : (m : ℚ) < 2 ^ (53 : ℤ) := by
      have : (m : ℚ) < ((9007199254740992 : Nat) : ℚ) := by exact_mod_cast hm
      norm_num at this ⊢; exact this
    calc (m : ℚ) * 2 ^ e < 2 ^ (53 : ℤ) * 2 ^ e := mul_lt_mul_of_pos_right this (two_zpow_pos e)
      _ = 2 ^ ((53 : ℤ) + e) := zpow2_add _ _
      _ ≤ 2 ^ (1024 : ℤ) := zpow2_mono (by omega)
  cases n with
  | false =>
    simp only [sgnQ, Bool.false_eq_true, if_false, one_mul]
    exact ⟨hfix, by rw [abs_of_pos hpos]; exact hbig⟩
  | true =>
    simp only [sgnQ, if_true, neg_one_mul]
    exact ⟨by rw [rneQ_neg_of_pos _ hpos, hfix], by rw [abs_neg, abs_of_pos hpos]; exact hbig⟩

/-- ★ hence each operation is **exact whenever the exact result is a binary64 value** (what `ExactAt` assumed) -/
theorem ops_exact_when_representable (a b c : Nat) (ha : FinBits a) (hb : FinBits b) (hc : FinBits c) :
    (valQ a + valQ b = valQ c → valQ (ieee.add a b) = valQ c) ∧
    (valQ a - valQ b = valQ c → valQ (ieee.sub a b) = valQ c) ∧
    (valQ a * valQ b = valQ c → valQ (ieee.mul a b) = valQ c) ∧
    (isZeroBits b = false → valQ a / valQ b = valQ c → valQ (ieee.div a b) = valQ c) := by
  obtain ⟨r1, r2⟩ := repr64_of_finBits c hc
  obtain ⟨n1, m1, e1, h1⟩ := ha
  obtain ⟨n2, m2, e2, h2⟩ := hb
  refine ⟨fun h => ?_, fun h => ?_, fun h => ?_, fun hz h => ?_⟩
  · have := ((add_correct a b n1 n2 m1 m2 e1 e2 h1 h2).1 (by rw [h, r1]; exact r2)).2
    rw [h, r1] at this; exact this
  · have := ((sub_correct a b n1 n2 m1 m2 e1 e2 h1 h2).1 (by rw [h, r1]; exact r2)).2
    rw [h, r1] at this; exact this
  · have := ((mul_correct a b n1 n2 m1 m2 e1 e2 h1 h2).1 (by rw [h, r1]; exact r2)).2
    rw [h, r1] at this; exact this
  · have := ((div_correct a b n1 n2 m1 m2 e1 e2 h1 h2 (nonzero_of_isZeroBits b n2 m2 e2 h2 hz)).1 (by rw [h, r1]; exact r2)).2
    rw [h, r1] at this; exact this

/-! ## `rneQ x` is a value of the format nearest to `x`: no binary64 value (indeed no `± m · 2^e`, m < 2^53, e ≥ -1074) is closer -/

theorem rneInt_nearest (r : ℚ) (z : ℤ) : |(rneInt r : ℚ) - r| ≤ |(z : ℚ) - r| := by
  have h1 := Int.floor_le r
  have h2 := Int.lt_floor_add_one r
  -- distance of the rounded value: at most the fractional part and at most its complement
  have hd : |(rneInt r : ℚ) - r| ≤ r - ⌊r⌋ ∧ |(rneInt r : ℚ) - r| ≤ 1 - (r - ⌊r⌋) := by
    unfold rneInt
    split
    · constructor <;> (rw [abs_le]; constructor <;> linarith)
    · split
      · push_cast; constructor <;> (rw [abs_le]; constructor <;> linarith)
      · have he : r - ⌊r⌋ = 1 / 2 := by linarith
        split
        · constructor <;> (rw [abs_le]; constructor <;> linarith)
        · push_cast; constructor <;> (rw [abs_le]; constructor <;> linarith)
  by_cases hz : z ≤ ⌊r⌋
  · have : (z : ℚ) ≤ (⌊r⌋ : ℚ) := by exact_mod_cast hz
    have : r - ⌊r⌋ ≤ |(z : ℚ) - r| := by rw [abs_sub_comm, abs_of_nonneg (by linarith)]; linarith
    linarith [hd.1]
  · have : ((⌊r⌋ + 1 : ℤ) : ℚ) ≤ (z : ℚ) := by exact_mod_cast (by omega : ⌊r⌋ + 1 ≤ z)
    push_cast at this
    have : 1 - (r - ⌊r⌋) ≤ |(z : ℚ) - r| := by rw [abs_of_nonneg (by linarith)]; linarith
    linarith [hd.2]

/-- nearest on the grid 2^(cexp x)·ℤ -/
theorem rneQ_nearest_grid (x : ℚ) (hx : 0 < x) (z : ℤ) : |rneQ x - x| ≤ |(z : ℚ) * 2 ^ cexp x - x| := by
  have hp := two_zpow_pos (cexp x)
  rw [rneQ_pos x hx]
  have e1 : (rneInt (x / 2 ^ cexp x) : ℚ) * 2 ^ cexp x - x = ((rneInt (x / 2 ^ cexp x) : ℚ) - x / 2 ^ cexp x) * 2 ^ cexp x := by
    field_simp
  have e2 : (z : ℚ) * 2 ^ cexp x - x = ((z : ℚ) - x / 2 ^ cexp x) * 2 ^ cexp x := by field_simp
  rw [e1, e2, abs_mul, abs_mul, abs_of_pos hp]
  exact mul_le_mul_of_nonneg_right (rneInt_nearest _ z) hp.le

theorem rneQ_nearest_pos (x : ℚ) (hx : 0 < x) (n : Bool) (m : Nat) (e : ℤ) (hm : m < 9007199254740992) (he : -1074 ≤ e) :
    |rneQ x - x| ≤ |sgnQ n * ((m : ℚ) * 2 ^ e) - x| := by
  have hk1 : (2 : ℚ) ^ Int.log 2 x ≤ x := by exact_mod_cast Int.zpow_log_le_self (b := 2) (by norm_num) hx
  by_cases hec : cexp x ≤ e
  · -- the value lies on the grid
    obtain ⟨j, hj⟩ := Int.eq_ofNat_of_zero_le (show 0 ≤ e - cexp x by omega)
    have hsplit : (2 : ℚ) ^ e = 2 ^ j * 2 ^ cexp x := by rw [← zpow_natCast, zpow2_add]; congr 1; omega
    have : sgnQ n * ((m : ℚ) * 2 ^ e) = (((if n then -1 else 1) * (m * 2 ^ j : ℤ) : ℤ) : ℚ) * 2 ^ cexp x := by
      rw [hsplit]; cases n <;> simp [sgnQ] <;> ring
    rw [this]
    exact rneQ_nearest_grid x hx _
  · -- below the grid's binade: 2^k (on the grid) is at least as close
    have hc : cexp x = Int.log 2 x - 52 := by
      have hlt : e < cexp x := by omega
      unfold cexp at hlt ⊢
      rw [abs_of_pos hx] at hlt ⊢
      rcases max_cases (Int.log 2 x - 52) (-1074) with ⟨h, _⟩ | ⟨h, _⟩
      · exact h
      · rw [h] at hlt; omega
    have hg := rneQ_nearest_grid x hx (4503599627370496 : ℤ)
    have e52 : (((4503599627370496 : ℤ)) : ℚ) * 2 ^ cexp x = 2 ^ Int.log 2 x := by
      have : (((4503599627370496 : ℤ)) : ℚ) = 2 ^ (52 : ℤ) := by norm_num
      rw [this, zpow2_add, hc]; congr 1; ring
    rw [e52] at hg
    -- |d| < 2^k
    have hd : (m : ℚ) * 2 ^ e < 2 ^ Int.log 2 x := by
      have hm' : (m : ℚ) < 2 ^ (53 : ℤ) := by
        have : (m : ℚ) < ((9007199254740992 : Nat) : ℚ) := by exact_mod_cast hm
        norm_num at this ⊢; exact this
      calc (m : ℚ) * 2 ^ e ≤ (m : ℚ) * 2 ^ (cexp x - 1) :=
            mul_le_mul_of_nonneg_left (zpow2_mono (by omega)) (by positivity)
        _ < 2 ^ (53 : ℤ) * 2 ^ (cexp x - 1) := mul_lt_mul_of_pos_right hm' (two_zpow_pos _)
        _ = 2 ^ Int.log 2 x := by rw [zpow2_add, hc]; congr 1; ring
    have hdle : sgnQ n * ((m : ℚ) * 2 ^ e) ≤ (m : ℚ) * 2 ^ e := by
      have h0 : (0 : ℚ) ≤ (m : ℚ) * 2 ^ e := mul_nonneg (by positivity) (two_zpow_pos e).le
      cases n <;> simp [sgnQ] <;> linarith
    have : |(2 : ℚ) ^ Int.log 2 x - x| ≤ |sgnQ n * ((m : ℚ) * 2 ^ e) - x| := by
      rw [abs_sub_comm, abs_of_nonneg (by linarith), abs_sub_comm (sgnQ n * _), abs_of_nonneg (by linarith)]
      linarith
    exact le_trans hg this

/-- ★ the rounding is to *nearest*: no value `± m · 2^e` of the format (m < 2^53, e ≥ -1074; in particular no finite
    binary64) is closer to `x` than `rneQ x` -/
theorem rneQ_nearest (x : ℚ) (n : Bool) (m : Nat) (e : ℤ) (hm : m < 9007199254740992) (he : -1074 ≤ e) :
    |rneQ x - x| ≤ |sgnQ n * ((m : ℚ) * 2 ^ e) - x| := by
  rcases lt_trichotomy x 0 with hx | hx | hx
  · have hy : 0 < -x := by linarith
    have h := rneQ_nearest_pos (-x) hy (!n) m e hm he
    have e1 : rneQ x = -rneQ (-x) := by
      have := rneQ_neg_of_pos (-x) hy; rw [neg_neg] at this; rw [this]
    have e2 : sgnQ (!n) = -sgnQ n := by cases n <;> simp [sgnQ]
    rw [e1, show -rneQ (-x) - x = -(rneQ (-x) - -x) by ring, abs_neg]
    rw [e2] at h
    rw [show sgnQ n * ((m : ℚ) * 2 ^ e) - x = -(-sgnQ n * ((m : ℚ) * 2 ^ e) - -x) by ring, abs_neg]
    exact h
  · subst hx; rw [rneQ_zero]; simp only [sub_self, abs_zero]; exact abs_nonneg _
  · exact rneQ_nearest_pos x hx n m e hm he

theorem rneQ_nearest_binary64 (x : ℚ) (c : Nat) (hc : FinBits c) : |rneQ x - x| ≤ |valQ c - x| := by
  obtain ⟨n, m, e, hd⟩ := hc
  obtain ⟨hm, he, _⟩ := decode_fin_bounds c n m e hd
  rw [valQ_of_decode c n m e hd]
  exact rneQ_nearest x n m e hm he

/-! ## NaN, infinities, zeros: the IEEE-754 rules as the instance has them -/

theorem decode_nanBits : decode nanBits = .nan := by decide

theorem decode_withSign_zero (s : Bool) : decode (withSign s 0) = .fin s 0 (-1074) :=
  decode_withSign_fin s 0 0 (-1074) (by decide) (by decide)

/-- NaN operands give NaN -/
theorem nan_propagates (a b : Nat) (h : decode a = .nan ∨ decode b = .nan) :
    decode (add a b) = .nan ∧ decode (mul a b) = .nan ∧ decode (div a b) = .nan ∧ decode (fmod a b) = .nan := by
  rcases h with h | h
  · refine ⟨?_, ?_, ?_, ?_⟩ <;> (first | unfold add | unfold mul | unfold div | unfold fmod) <;> rw [h] <;> exact decode_nanBits
  · refine ⟨?_, ?_, ?_, ?_⟩ <;> (first | unfold add | unfold mul | unfold div | unfold fmod) <;> rw [h] <;>
      cases decode a <;> exact decode_nanBits

/-- ∞ + ∞ = ∞, ∞ − ∞ = NaN, ∞ · ∞ = ±∞, ∞ / ∞ = NaN; ∞ with a finite operand; 0 · ∞ = NaN; x / ∞ = ±0 -/
theorem infinity_rules (a b : Nat) :
    (∀ n1 n2, decode a = .inf n1 → decode b = .inf n2 →
      decode (add a b) = (if n1 = n2 then .inf n1 else .nan) ∧ decode (mul a b) = .inf (n1 != n2) ∧ decode (div a b) = .nan) ∧
    (∀ n1 n2 m e, decode a = .inf n1 → decode b = .fin n2 m e →
      decode (add a b) = .inf n1 ∧ decode (mul a b) = (if m = 0 then .nan else .inf (n1 != n2)) ∧ decode (div a b) = .inf (n1 != n2)) ∧
    (∀ n1 m e n2, decode a = .fin n1 m e → decode b = .inf n2 →
      decode (add a b) = .inf n2 ∧ decode (mul a b) = (if m = 0 then .nan else .inf (n1 != n2)) ∧
      decode (div a b) = .fin (n1 != n2) 0 (-1074) ∧ fmod a b = a) := by
  refine ⟨fun n1 n2 ha hb => ⟨?_, ?_, ?_⟩, fun n1 n2 m e ha hb => ⟨?_, ?_, ?_⟩, fun n1 m e n2 ha hb => ⟨?_, ?_, ?_, ?_⟩⟩
  · unfold add; rw [ha, hb]; simp only []
    by_cases h : n1 = n2
    · subst h; simp [decode_withSign_inf]
    · have : (n1 == n2) = false := by simpa using h
      rw [this, if_neg h]; exact decode_nanBits
  · unfold mul; rw [ha, hb]; exact decode_withSign_inf _
  · unfold div; rw [ha, hb]; exact decode_nanBits
  · unfold add; rw [ha, hb]; exact decode_withSign_inf _
  · unfold mul; rw [ha, hb]; simp only []
    by_cases h : m = 0
    · rw [if_pos h, if_pos h]; exact decode_nanBits
    · rw [if_neg h, if_neg h]; exact decode_withSign_inf _
  · unfold div; rw [ha, hb]; exact decode_withSign_inf _
  · unfold add; rw [ha, hb]; exact decode_withSign_inf _
  · unfold mul; rw [ha, hb]; simp only []
    by_cases h : m = 0
    · rw [if_pos h, if_pos h]; exact decode_nanBits
    · rw [if_neg h, if_neg h]; exact decode_withSign_inf _
  · unfold div; rw [ha, hb]; exact decode_withSign_zero _
  · unfold fmod; rw [ha, hb]

/-- x / ±0 = ±∞ (0 / 0 = NaN); an exact zero sum is +0 unless both operands are −0; a zero product / quotient has the
    xor of the signs -/
theorem zero_rules (a b : Nat) (n1 n2 : Bool) (m1 m2 : Nat) (e1 e2 : ℤ)
    (ha : decode a = .fin n1 m1 e1) (hb : decode b = .fin n2 m2 e2) :
    (m2 = 0 → decode (div a b) = (if m1 = 0 then .nan else .inf (n1 != n2)) ∧ decode (fmod a b) = .nan) ∧
    (valQ a + valQ b = 0 → decode (add a b) = .fin (n1 && n2) 0 (-1074)) ∧
    (m1 = 0 ∨ m2 = 0 → decode (mul a b) = .fin (n1 != n2) 0 (-1074)) ∧
    (m1 = 0 → m2 ≠ 0 → decode (div a b) = .fin (n1 != n2) 0 (-1074)) := by
  refine ⟨fun h => ⟨?_, ?_⟩, fun h => ?_, fun h => ?_, fun h1 h2 => ?_⟩
  · unfold div; rw [ha, hb]; simp only []; rw [if_pos h]
    by_cases h1 : m1 = 0
    · rw [if_pos h1, if_pos h1]; exact decode_nanBits
    · rw [if_neg h1, if_neg h1]; exact decode_withSign_inf _
  · unfold fmod; rw [ha, hb]; simp only []; rw [if_pos h]; exact decode_nanBits
  · -- the integer sum is zero
    set e := min e1 e2 with he
    obtain ⟨j1, hj1⟩ := Int.eq_ofNat_of_zero_le (show 0 ≤ e1 - e by omega)
    obtain ⟨j2, hj2⟩ := Int.eq_ofNat_of_zero_le (show 0 ≤ e2 - e by omega)
    have hs : smant n1 m1 * 2 ^ (e1 - e).toNat + smant n2 m2 * 2 ^ (e2 - e).toNat = 0 := by
      rw [valQ_smant a n1 m1 e1 ha, valQ_smant b n2 m2 e2 hb] at h
      have h1 : e1 = (j1 : ℤ) + e := by omega
      have h2 : e2 = (j2 : ℤ) + e := by omega
      rw [hj1, hj2]; simp only [Int.toNat_natCast]
      rw [h1, h2, ← zpow2_add, ← zpow2_add, zpow_natCast, zpow_natCast] at h
      have hp := (two_zpow_pos e).ne'
      have : (((smant n1 m1 * 2 ^ j1 + smant n2 m2 * 2 ^ j2 : ℤ)) : ℚ) * 2 ^ e = 0 := by push_cast; linarith
      have := (mul_eq_zero.1 this).resolve_right hp
      exact_mod_cast this
    unfold add; rw [ha, hb]; simp only []; rw [← he, if_pos hs]; exact decode_withSign_zero _
  · have hN : dyNum (m1 * m2) (e1 + e2) = 0 := by
      have : m1 * m2 = 0 := by rcases h with h | h <;> simp [h]
      unfold dyNum; rw [this]; split <;> simp
    unfold mul; rw [ha, hb]; simp only []
    unfold roundSigned; rw [if_pos hN]; exact decode_withSign_zero _
  · have hN : dyNum m1 (e1 - e2) = 0 := by unfold dyNum; rw [h1]; split <;> simp
    unfold div; rw [ha, hb]; simp only []; rw [if_neg h2]
    unfold roundSigned; rw [if_pos hN]; exact decode_withSign_zero _

/-! ## `fmod` is exact -/

/-- C's `trunc` on a rational -/
def truncQ (q : ℚ) : ℤ := if 0 ≤ q then ⌊q⌋ else ⌈q⌉

theorem truncQ_signed (s t : Bool) (X Y : Nat) (hY : 0 < Y) :
    truncQ (sgnQ s * (X : ℚ) / (sgnQ t * (Y : ℚ))) = (if s != t then -((X / Y : Nat) : ℤ) else ((X / Y : Nat) : ℤ)) := by
  have hYq : (0 : ℚ) < Y := by exact_mod_cast hY
  have hq0 : (0 : ℚ) ≤ (X : ℚ) / Y := div_nonneg (by positivity) hYq.le
  have hfl : ⌊(X : ℚ) / Y⌋ = ((X / Y : Nat) : ℤ) := by rw [Rat.floor_natCast_div_natCast]; rfl
  have hpos : truncQ ((X : ℚ) / Y) = ((X / Y : Nat) : ℤ) := by unfold truncQ; rw [if_pos hq0, hfl]
  have hneg : truncQ (-((X : ℚ) / Y)) = -((X / Y : Nat) : ℤ) := by
    unfold truncQ
    by_cases hz : (X : ℚ) / Y = 0
    · rw [hz, neg_zero, if_pos (le_refl _)]
      have : ((X / Y : Nat) : ℤ) = 0 := by rw [← hfl, hz]; simp
      rw [this]; simp
    · have : ¬ (0 : ℚ) ≤ -((X : ℚ) / Y) := by
        have : (0 : ℚ) < (X : ℚ) / Y := lt_of_le_of_ne hq0 (Ne.symm hz)
        linarith
      rw [if_neg this, Int.ceil_neg, hfl]
  cases s <;> cases t <;> simp only [sgnQ, if_true, Bool.false_eq_true, if_false, one_mul, neg_one_mul, bne_self_eq_false,
    Bool.true_bne, Bool.false_bne, Bool.not_false, neg_div, div_neg, neg_neg]
  · exact hpos
  · exact hneg
  · exact hneg
  · exact hpos

/-- ★ `(% a b)` on two finite numbers, b ≠ 0: C `fmod`, **exactly** a − b·trunc(a / b) (no rounding: the result is a double) -/
theorem fmod_exact (a b : Nat) (nx ny : Bool) (mx my : Nat) (ex ey : ℤ)
    (ha : decode a = .fin nx mx ex) (hb : decode b = .fin ny my ey) (hmy : my ≠ 0) :
    FinBits (fmod a b) ∧ valQ (fmod a b) = valQ a - valQ b * ((truncQ (valQ a / valQ b) : ℤ) : ℚ) := by
  obtain ⟨hmx53, hex1, _⟩ := decode_fin_bounds a nx mx ex ha
  obtain ⟨hmy53, hey1, _⟩ := decode_fin_bounds b ny my ey hb
  have hva := valQ_of_decode a nx mx ex ha
  have hvb := valQ_of_decode b ny my ey hb
  by_cases hmx : mx = 0
  · have hf : fmod a b = a := by unfold fmod; rw [ha, hb]; simp only []; rw [if_neg hmy, if_pos hmx]
    rw [hf]
    refine ⟨⟨nx, mx, ex, ha⟩, ?_⟩
    have h0 : valQ a = 0 := by rw [hva, hmx]; simp
    rw [h0]; simp [truncQ]
  · set e := min ex ey with he
    obtain ⟨jx, hjx⟩ := Int.eq_ofNat_of_zero_le (show 0 ≤ ex - e by omega)
    obtain ⟨jy, hjy⟩ := Int.eq_ofNat_of_zero_le (show 0 ≤ ey - e by omega)
    have hf : fmod a b = roundSigned nx (dyNum (mx * 2 ^ jx % (my * 2 ^ jy)) e) (dyDen e) := by
      unfold fmod; rw [ha, hb]; simp only []; rw [if_neg hmy, if_neg hmx, ← he, hjx, hjy]; rfl
    set X := mx * 2 ^ jx with hX
    set Y := my * 2 ^ jy with hY
    have hYpos : 0 < Y := Nat.mul_pos (Nat.pos_of_ne_zero hmy) (Nat.two_pow_pos jy)
    have he1 : -1074 ≤ e := by omega
    -- |a| = X 2^e, |b| = Y 2^e
    have hax : (mx : ℚ) * 2 ^ ex = (X : ℚ) * 2 ^ e := by
      have : ex = (jx : ℤ) + e := by omega
      rw [hX, this, ← zpow2_add, zpow_natCast]; push_cast; ring
    have hby : (my : ℚ) * 2 ^ ey = (Y : ℚ) * 2 ^ e := by
      have : ey = (jy : ℤ) + e := by omega
      rw [hY, this, ← zpow2_add, zpow_natCast]; push_cast; ring
    -- the remainder is below 2^53
    have hr53 : X % Y < 9007199254740992 := by
      rcases le_total ex ey with h | h
      · have : jx = 0 := by have : e = ex := by omega
                            omega
        have hXm : X = mx := by rw [hX, this]; simp
        exact lt_of_le_of_lt (Nat.mod_le _ _) (by rw [hXm]; exact hmx53)
      · have : jy = 0 := by have : e = ey := by omega
                            omega
        have hYm : Y = my := by rw [hY, this]; simp
        exact lt_trans (Nat.mod_lt _ hYpos) (by rw [hYm]; exact hmy53)
    obtain ⟨dv, dp⟩ := dy_value (X % Y) e
    have hrq : rneQ (sgnQ nx * (((X % Y : Nat) : ℚ) * 2 ^ e)) = sgnQ nx * (((X % Y : Nat) : ℚ) * 2 ^ e) ∧
        |sgnQ nx * (((X % Y : Nat) : ℚ) * 2 ^ e)| < 2 ^ (1024 : ℤ) := by
      by_cases hz : X % Y = 0
      · rw [hz]; simp only [Nat.cast_zero, zero_mul, mul_zero, abs_zero]; exact ⟨rneQ_zero, two_zpow_pos _⟩
      · have hfix := rneQ_fixes_pos (X % Y) e (Nat.pos_of_ne_zero hz) hr53 he1
        have hpos : (0 : ℚ) < ((X % Y : Nat) : ℚ) * 2 ^ e :=
          mul_pos (by exact_mod_cast Nat.pos_of_ne_zero hz) (two_zpow_pos e)
        have hbig : ((X % Y : Nat) : ℚ) * 2 ^ e < 2 ^ (1024 : ℤ) := by
          have hlt : ((X % Y : Nat) : ℚ) < 2 ^ (53 : ℤ) := by
            have : ((X % Y : Nat) : ℚ) < ((9007199254740992 : Nat) : ℚ) := by exact_mod_cast hr53
            norm_num at this ⊢; exact this
          have hele : e ≤ 971 := by
            have := (decode_fin_bounds a nx mx ex ha).2.2; omega
          calc ((X % Y : Nat) : ℚ) * 2 ^ e < 2 ^ (53 : ℤ) * 2 ^ e := mul_lt_mul_of_pos_right hlt (two_zpow_pos e)
            _ = 2 ^ ((53 : ℤ) + e) := zpow2_add _ _
            _ ≤ 2 ^ (1024 : ℤ) := zpow2_mono (by omega)
        cases nx with
        | false => simp only [sgnQ, Bool.false_eq_true, if_false, one_mul]; exact ⟨hfix, by rw [abs_of_pos hpos]; exact hbig⟩
        | true =>
          simp only [sgnQ, if_true, neg_one_mul]
          exact ⟨by rw [rneQ_neg_of_pos _ hpos, hfix], by rw [abs_neg, abs_of_pos hpos]; exact hbig⟩
    have hx : sgnQ nx * (((X % Y : Nat) : ℚ) * 2 ^ e) = sgnQ nx * (((dyNum (X % Y) e : Nat) : ℚ) / ((dyDen e : Nat) : ℚ)) := by rw [dv]
    obtain ⟨r1, _⟩ := roundSigned_valQ nx (dyNum (X % Y) e) (dyDen e) dp _ hx
    obtain ⟨f1, f2⟩ := r1 (by rw [hrq.1]; exact hrq.2)
    rw [hf]
    refine ⟨f1, ?_⟩
    rw [f2, hrq.1, hva, hvb, hax, hby]
    have hdiv : sgnQ nx * ((X : ℚ) * 2 ^ e) / (sgnQ ny * ((Y : ℚ) * 2 ^ e)) = sgnQ nx * (X : ℚ) / (sgnQ ny * (Y : ℚ)) := by
      have h2 : (2 : ℚ) ^ e ≠ 0 := (two_zpow_pos e).ne'
      have hs : sgnQ ny ≠ 0 := by cases ny <;> simp [sgnQ]
      have hYq : (Y : ℚ) ≠ 0 := by exact_mod_cast hYpos.ne'
      field_simp
    rw [hdiv, truncQ_signed nx ny X Y hYpos]
    have hmod : ((X % Y : Nat) : ℚ) = (X : ℚ) - (Y : ℚ) * ((X / Y : Nat) : ℚ) := by
      have := Nat.div_add_mod X Y
      have hq : (X : ℚ) = (Y : ℚ) * ((X / Y : Nat) : ℚ) + ((X % Y : Nat) : ℚ) := by exact_mod_cast this.symm
      linarith
    rw [hmod]
    generalize (X / Y) = q
    cases nx <;> cases ny <;> simp [sgnQ] <;> ring

end JanetModel.Int64.Ieee
