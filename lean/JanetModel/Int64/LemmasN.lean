/- C14 — n-ary method calls are left folds of the binary method; chained comparators are conjunctions of adjacent
   comparisons, evaluated left to right, first failure decides.  Core Lean only. -/
import JanetModel.Int64.Lemmas
namespace JanetModel.Int64
open JanetModel.Gen.Int64

/-! ## folds that met an error stay there -/

theorem bind_ok {α β : Type} (v : α) (f : α → Res β) : Res.bind (.ok v) f = f v := rfl
theorem bind_err {α β : Type} (e : Err) (f : α → Res β) : Res.bind (.err e) f = .err e := rfl
theorem bind_ub {α β : Type} (f : α → Res β) : Res.bind .ub f = .ub := rfl

theorem foldl_bind_err {α β : Type} (f : α → β → Res α) (e : Err) (l : List β) :
    l.foldl (fun (acc : Res α) z => Res.bind acc (fun a => f a z)) (Res.err e) = Res.err e := by
  induction l with
  | nil => rfl
  | cons _ _ ih => simpa only [List.foldl, bind_err, bind_ub] using ih

theorem foldl_bind_ub {α β : Type} (f : α → β → Res α) (l : List β) :
    l.foldl (fun (acc : Res α) z => Res.bind acc (fun a => f a z)) Res.ub = Res.ub := by
  induction l with
  | nil => rfl
  | cons _ _ ih => simpa only [List.foldl, bind_err, bind_ub] using ih

/-! ## the loop of OPMETHOD / DIVMETHOD / DIVMETHOD_SIGNED -/

/-- the zero test inside the loop agrees with what the operation itself does with a zero divisor (so it can be dropped):
    "error" where the two-argument form raises, "continue" where the two-argument form returns the dividend; an early
    `return` never agrees -/
def ZeroConsistent (step : Int → Int → Res Int) : ZeroAct → Prop
  | .error => ∀ a, step a 0 = .err .divzero
  | .cont => ∀ a, step a 0 = .ok a
  | .ret => False

theorem methodLoop_zero_irrelevant (k : Kind) (step : Int → Int → Res Int) (act : ZeroAct) (h : ZeroConsistent step act)
    (box : Int) (vs : List Val) : methodLoop k step (some act) box vs = methodLoop k step none box vs := by
  induction vs generalizing box with
  | nil => rfl
  | cons v rest ih =>
    unfold methodLoop
    cases hu : unwrap k v with
    | err e => rfl
    | ub => rfl
    | ok b =>
      simp only [Option.isSome_some, Bool.true_and, Option.isSome_none, Bool.false_and, Bool.false_eq_true, if_false]
      by_cases hb : b = 0
      · subst hb
        simp only [decide_true, if_true]
        cases act with
        | error => simp only [ZeroConsistent] at h; rw [h box]
        | cont => simp only [ZeroConsistent] at h; rw [h box]; exact ih box
        | ret => exact absurd h (by simp [ZeroConsistent])
      · simp only [hb, decide_false, Bool.false_eq_true, if_false]
        cases step box b with
        | ok box' => exact ih box'
        | err e => rfl
        | ub => rfl

/-- the two-argument call of a looping method: unwrap both in the receiver's type, operate, box -/
def binStep (k : Kind) (step : Int → Int → Res Int) (v z : Val) : Res Val := do
  let a ← unwrap k v; let b ← unwrap k z
  let r ← step a b; pure (Val.box k r)

/-- the loop is the left fold of the two-argument call, the intermediate result boxed and unwrapped again at every step
    (which is the identity, `unwrap_box`) -/
theorem methodLoop_eq_fold (k : Kind) (step : Int → Int → Res Int) (bx : Int) (vs : List Val) :
    (methodLoop k step none bx vs).bind (fun r => .ok (Val.box k r)) =
      vs.foldl (fun acc z => acc.bind (fun v => binStep k step v z)) (.ok (Val.box k bx)) := by
  induction vs generalizing bx with
  | nil => rfl
  | cons v rest ih =>
    have hb : binStep k step (Val.box k bx) v = (unwrap k v).bind (fun b => (step bx b).bind (fun r => .ok (Val.box k r))) := by
      show (unwrap k (Val.box k bx)).bind _ = _
      rw [unwrap_box]; rfl
    simp only [List.foldl, bind_ok]
    rw [hb]
    unfold methodLoop
    cases hu : unwrap k v with
    | err e => simp only [bind_err]; rw [foldl_bind_err]
    | ub => simp only [bind_ub]; rw [foldl_bind_ub]
    | ok b =>
      simp only [Option.isSome_none, Bool.false_and, Bool.false_eq_true, if_false, bind_ok]
      cases hs : step bx b with
      | ok box' => simp only [bind_ok]; exact ih box'
      | err e => simp only [bind_err]; rw [foldl_bind_err]
      | ub => simp only [bind_ub]; rw [foldl_bind_ub]

/-- the operation one of the three looping macros performs per operand -/
def loopStep (c : Cfg) (k : Kind) (mac name oper : String) : Int → Int → Res Int :=
  if mac = "OPMETHOD" then opMethod k oper
  else if mac = "DIVMETHOD" then divMethodU name oper
  else divMethodS c.guardDiv name oper

def IsLoopMacro (mac : String) : Prop := mac = "OPMETHOD" ∨ mac = "DIVMETHOD" ∨ mac = "DIVMETHOD_SIGNED"

theorem kindName_bne (k : Kind) : (kindName k != kindName k) = false := by simp

theorem callCfun2_loop (c : Cfg) (k : Kind) (f mac name oper : String)
    (hrow : lookupInstance f = some (mac, kindName k, name, oper)) (hmac : IsLoopMacro mac) (v z : Val) :
    callCfun2 c k f v z = binStep k (loopStep c k mac name oper) v z := by
  unfold callCfun2
  rw [hrow]
  simp only [kindName_bne, Bool.false_eq_true, if_false]
  rcases hmac with rfl | rfl | rfl <;> rfl

/-- zero action of the loop: none for OPMETHOD, `loopZero` for the two division macros -/
def loopZeroOf (c : Cfg) (mac name : String) : Option ZeroAct :=
  if mac = "OPMETHOD" then none else some (loopZero c name)

theorem callCfunN_loop (c : Cfg) (k : Kind) (f mac name oper : String)
    (hrow : lookupInstance f = some (mac, kindName k, name, oper)) (hmac : IsLoopMacro mac) (a0 a1 a2 : Val) (rest : List Val) :
    callCfunN c k f (a0 :: a1 :: a2 :: rest) =
      (unwrap k a0).bind (fun a => (methodLoop k (loopStep c k mac name oper) (loopZeroOf c mac name) a (a1 :: a2 :: rest)).bind
        (fun r => .ok (Val.box k r))) := by
  unfold callCfunN
  rw [hrow]
  simp only [kindName_bne, Bool.false_eq_true, if_false]
  rcases hmac with rfl | rfl | rfl <;> rfl

/-- ★ n-ary method call = left fold of the two-argument method call, same errors, same order of evaluation -/
theorem callCfunN_eq_fold (c : Cfg) (k : Kind) (f mac name oper : String)
    (hrow : lookupInstance f = some (mac, kindName k, name, oper)) (hmac : IsLoopMacro mac)
    (hz : mac = "OPMETHOD" ∨ ZeroConsistent (loopStep c k mac name oper) (loopZero c name))
    (a0 a1 a2 : Val) (rest : List Val) :
    callCfunN c k f (a0 :: a1 :: a2 :: rest) =
      (a2 :: rest).foldl (fun acc z => acc.bind (fun v => callCfun2 c k f v z)) (callCfun2 c k f a0 a1) := by
  rw [callCfunN_loop c k f mac name oper hrow hmac]
  have hfun : (fun acc z => Res.bind acc (fun v => callCfun2 c k f v z)) =
      (fun acc z => Res.bind acc (fun v => binStep k (loopStep c k mac name oper) v z)) := by
    funext acc z; congr 1; funext v; exact callCfun2_loop c k f mac name oper hrow hmac v z
  rw [hfun, callCfun2_loop c k f mac name oper hrow hmac]
  have hnone : methodLoop k (loopStep c k mac name oper) (loopZeroOf c mac name) =
      methodLoop k (loopStep c k mac name oper) none := by
    funext box vs
    unfold loopZeroOf
    by_cases hm : mac = "OPMETHOD"
    · rw [if_pos hm]
    · rw [if_neg hm]
      rcases hz with h | h
      · exact absurd h hm
      · exact methodLoop_zero_irrelevant k _ _ h box vs
  rw [hnone]
  have hb2 : ∀ v z, binStep k (loopStep c k mac name oper) v z =
      (unwrap k v).bind (fun a => (unwrap k z).bind (fun b => ((loopStep c k mac name oper) a b).bind (fun r => .ok (Val.box k r)))) :=
    fun _ _ => rfl
  cases hu : unwrap k a0 with
  | err e => rw [hb2, hu]; simp only [bind_err]; rw [foldl_bind_err]
  | ub => rw [hb2, hu]; simp only [bind_ub]; rw [foldl_bind_ub]
  | ok a =>
    simp only [bind_ok]
    -- peel the first operand: the fold starts from the two-argument call on (a0, a1)
    have h1 : binStep k (loopStep c k mac name oper) a0 a1 =
        (List.foldl (fun acc z => Res.bind acc (fun v => binStep k (loopStep c k mac name oper) v z)) (.ok (Val.box k a)) [a1]) := by
      simp only [List.foldl, bind_ok]
      rw [hb2, hb2, hu, unwrap_box]
    rw [h1, ← List.foldl_append]
    exact methodLoop_eq_fold k _ a (a1 :: a2 :: rest)

/-! ## chained comparators -/

/-- what the loop answers when a step does not say "true" -/
def chainStop (invert : Bool) : Res Val → Res Val
  | .ok (.bool false) => .ok (.bool invert)
  | r => r

/-- all adjacent pairs of `x :: rest` -/
def adjacentPairs (x : Val) (rest : List Val) : List (Val × Val) := (x :: rest).zip rest

/-- every adjacent comparison says true: the answer is `!invert` -/
theorem comparatorLoop_all_true (step : Val → Val → Res Val) (invert : Bool) (x : Val) (rest : List Val)
    (h : ∀ p ∈ adjacentPairs x rest, step p.1 p.2 = .ok (.bool true)) :
    comparatorLoop step invert x rest = .ok (.bool (!invert)) := by
  induction rest generalizing x with
  | nil => rfl
  | cons y rest ih =>
    unfold comparatorLoop
    have h0 := h (x, y) (by simp [adjacentPairs])
    simp only [] at h0
    rw [h0]
    exact ih y (fun p hp => h p (by simp only [adjacentPairs, List.zip_cons_cons, List.mem_cons] at hp ⊢; exact Or.inr hp))

/-- short circuit: the first adjacent pair (left to right) whose comparison does not say true decides, whatever follows —
    later operands are not looked at -/
theorem comparatorLoop_first_failure (step : Val → Val → Res Val) (invert : Bool) (x : Val) (pre : List Val) (a b : Val)
    (suf : List Val) (hlast : (x :: pre).getLast? = some a)
    (hpre : ∀ p ∈ adjacentPairs x pre, step p.1 p.2 = .ok (.bool true)) (hstop : step a b ≠ .ok (.bool true)) :
    comparatorLoop step invert x (pre ++ b :: suf) = chainStop invert (step a b) := by
  induction pre generalizing x with
  | nil =>
    simp only [List.getLast?_singleton, Option.some.injEq] at hlast
    subst hlast
    simp only [List.nil_append]
    unfold comparatorLoop
    cases hs : step x b with
    | ok v =>
      cases v with
      | bool t => cases t with
        | true => exact absurd hs hstop
        | false => rfl
      | _ => rfl
    | err e => rfl
    | ub => rfl
  | cons y pre ih =>
    simp only [List.cons_append]
    unfold comparatorLoop
    have h0 := hpre (x, y) (by simp [adjacentPairs])
    simp only [] at h0
    rw [h0]
    apply ih y
    · simpa [List.getLast?_cons_cons] using hlast
    · intro p hp
      exact hpre p (by simp only [adjacentPairs, List.zip_cons_cons, List.mem_cons] at hp ⊢; exact Or.inr hp)

/-- with a total boolean step the chain is the conjunction of the adjacent comparisons -/
theorem comparatorLoop_conj (stepB : Val → Val → Bool) (invert : Bool) (x : Val) (rest : List Val) :
    comparatorLoop (fun a b => .ok (.bool (stepB a b))) invert x rest =
      .ok (.bool (((adjacentPairs x rest).all (fun p => stepB p.1 p.2)) != invert)) := by
  induction rest generalizing x with
  | nil => simp [comparatorLoop, adjacentPairs]
  | cons y rest ih =>
    unfold comparatorLoop
    cases hs : stepB x y with
    | true =>
      simp only []
      rw [ih y]
      simp [adjacentPairs, hs]
    | false =>
      simp [adjacentPairs, hs]

/-- the primitive comparison `vm_compop` never fails: it is a total boolean function of the two values -/
theorem vmOp_compop (c : Cfg) (N : NumOps) (oper : String) (x y : Val) :
    vmOp c N "compop" oper x y = .ok (.bool (primCmp c oper x y)) := rfl

/-- boot.janet `compare-reduce` is the same loop with the step "`(op (compare x y) 0)`" -/
def polyStep (c : Cfg) (N : NumOps) (opcode : String) (x y : Val) : Res Val :=
  (polyCompare c x y).bind (fun r => cmpStep c N opcode r (Val.ofInt 0))

theorem compareReduce_eq_loop (c : Cfg) (N : NumOps) (opcode : String) (x : Val) (rest : List Val) :
    compareReduce c N opcode x rest = comparatorLoop (polyStep c N opcode) false x rest := by
  induction rest generalizing x with
  | nil => rfl
  | cons y rest ih =>
    unfold compareReduce comparatorLoop polyStep
    cases hp : polyCompare c x y with
    | err e => rfl
    | ub => rfl
    | ok r =>
      simp only [bind_ok]
      cases hs : cmpStep c N opcode r (Val.ofInt 0) with
      | err e => rfl
      | ub => rfl
      | ok v =>
        cases v with
        | bool t => cases t with
          | true => exact ih y
          | false => rfl
        | _ => rfl

/-! ## numeric strings as operands (`janet_unwrap_s64/u64` → `janet_scan_int64` / `janet_scan_uint64`) -/

theorem unwrap_str (k : Kind) (s : List Nat) :
    unwrap k (.str s) =
      (match k with
       | .s64 => (match scanInt64 s with | some n => .ok n | none => .err .cvts)
       | .u64 => (match scanU64 s with | some n => .ok n | none => .err .cvtu)) := by
  cases k <;> rfl

def IsBinaryMacro (mac : String) : Prop :=
  mac = "OPMETHOD" ∨ mac = "OPMETHODINVERT" ∨ mac = "DIVMETHOD" ∨ mac = "DIVMETHODINVERT" ∨ mac = "DIVMETHOD_SIGNED" ∨
  mac = "DIVMETHODINVERT_SIGNED"

/-- a string operand in either position of any macro-defined two-argument method is *replaced by the integer it scans to*
    (the call equals the call with that integer boxed in the receiver's type) -/
theorem callCfun2_str_ok (c : Cfg) (k : Kind) (f mac name oper : String)
    (hrow : lookupInstance f = some (mac, kindName k, name, oper)) (hmac : IsBinaryMacro mac)
    (s : List Nat) (n : Int) (h : unwrap k (.str s) = .ok n) (other : Val) :
    callCfun2 c k f other (.str s) = callCfun2 c k f other (Val.box k n) ∧
    callCfun2 c k f (.str s) other = callCfun2 c k f (Val.box k n) other := by
  unfold callCfun2
  rw [hrow]
  simp only [kindName_bne, Bool.false_eq_true, if_false]
  rcases hmac with rfl | rfl | rfl | rfl | rfl | rfl <;> constructor <;> simp only [h, unwrap_box]

/-- ... and one that does not scan / does not fit the type makes the call fail with the conversion error, whatever the
    other operand of the receiver's kind is -/
theorem callCfun2_str_err (c : Cfg) (k : Kind) (f mac name oper : String)
    (hrow : lookupInstance f = some (mac, kindName k, name, oper)) (hmac : IsBinaryMacro mac)
    (s : List Nat) (e : Err) (h : unwrap k (.str s) = .err e) (a : Int) :
    callCfun2 c k f (Val.box k a) (.str s) = .err e ∧ callCfun2 c k f (.str s) (Val.box k a) = .err e := by
  unfold callCfun2
  rw [hrow]
  simp only [kindName_bne, Bool.false_eq_true, if_false]
  rcases hmac with rfl | rfl | rfl | rfl | rfl | rfl <;> constructor <;> simp only [h, unwrap_box] <;> rfl

/-- the four hand-written s64 methods (`div`, `rdiv`, `mod`, `rmod`): operand fetch order as in the C (generated indices) -/
theorem hand_divf (c : Cfg) (a0 a1 : Val) : callCfun2 c .s64 "s64_divf" a0 a1 =
    (unwrapS a0).bind (fun op1 => (unwrapS a1).bind (fun op2 => (divfMethod c.guardDivf op1 op2).bind (fun r => .ok (.s64 r)))) := rfl
theorem hand_divfi (c : Cfg) (a0 a1 : Val) : callCfun2 c .s64 "s64_divfi" a0 a1 =
    (unwrapS a0).bind (fun op2 => (unwrapS a1).bind (fun op1 => (divfMethod c.guardDivfi op1 op2).bind (fun r => .ok (.s64 r)))) := rfl
theorem hand_mod (c : Cfg) (a0 a1 : Val) : callCfun2 c .s64 "s64_mod" a0 a1 =
    (unwrapS a0).bind (fun op1 => (unwrapS a1).bind (fun op2 => (modMethod c.guardMod op1 op2).bind (fun r => .ok (.s64 r)))) := rfl
theorem hand_modi (c : Cfg) (a0 a1 : Val) : callCfun2 c .s64 "s64_modi" a0 a1 =
    (unwrapS a0).bind (fun op2 => (unwrapS a1).bind (fun op1 => (modMethod c.guardModi op1 op2).bind (fun r => .ok (.s64 r)))) := rfl

theorem callCfun2_str_hand (c : Cfg) (f : String) (hf : f = "s64_divf" ∨ f = "s64_divfi" ∨ f = "s64_mod" ∨ f = "s64_modi")
    (s : List Nat) (other : Val) :
    (∀ n, unwrapS (.str s) = .ok n →
      callCfun2 c .s64 f other (.str s) = callCfun2 c .s64 f other (.s64 n) ∧
      callCfun2 c .s64 f (.str s) other = callCfun2 c .s64 f (.s64 n) other) ∧
    (∀ e a, unwrapS (.str s) = .err e →
      callCfun2 c .s64 f (.s64 a) (.str s) = .err e ∧ callCfun2 c .s64 f (.str s) (.s64 a) = .err e) := by
  have hs : ∀ n : Int, unwrapS (.s64 n) = .ok n := fun _ => rfl
  rcases hf with rfl | rfl | rfl | rfl
  all_goals
    refine ⟨fun n h => ⟨?_, ?_⟩, fun e a h => ⟨?_, ?_⟩⟩ <;>
      simp only [hand_divf, hand_divfi, hand_mod, hand_modi, h, hs, bind_ok, bind_err]

/-! ### the digit loop of `scan_uint64`: exact value or nothing -/

/-- the number a digit string denotes in `base` (Horner; `_` separators skipped) -/
def digitsValue (base : Nat) : List Nat → Nat → Nat
  | [], acc => acc
  | c :: rest, acc => if c = 95 then digitsValue base rest acc else digitsValue base rest (acc * base + digitVal c)

theorem digitsValue_mono (base : Nat) (hb : 0 < base) (ds : List Nat) (a : Nat) : a ≤ digitsValue base ds a := by
  induction ds generalizing a with
  | nil => exact Nat.le_refl _
  | cons c rest ih =>
    unfold digitsValue
    by_cases hc : c = 95
    · rw [if_pos hc]; exact ih a
    · rw [if_neg hc]
      refine Nat.le_trans ?_ (ih _)
      calc a = a * 1 := (Nat.mul_one a).symm
        _ ≤ a * base := Nat.mul_le_mul_left a hb
        _ ≤ a * base + digitVal c := Nat.le_add_right _ _

theorem digitVal_le_255 (c : Nat) : digitVal c ≤ 255 := by
  unfold digitVal
  have : ∀ i : Fin 128, digitLookup.getD i.val 255 ≤ 255 := by decide
  exact this ⟨c % 128, Nat.mod_lt _ (by decide)⟩

/-- accepted ⇒ the accumulated value is exactly the denoted number, and it fits 64 bits -/
theorem scanDigits_some (base : Nat) (ds : List Nat) (acc : Nat) (seen : Bool) (v : Nat) (hacc : acc ≤ uint64Max)
    (h : scanDigits base ds acc seen = some v) : v = digitsValue base ds acc ∧ v ≤ uint64Max := by
  induction ds generalizing acc seen with
  | nil =>
    unfold scanDigits at h
    by_cases hs : seen = true
    · rw [if_pos hs] at h; injection h with h; subst h; exact ⟨rfl, hacc⟩
    · rw [if_neg hs] at h; exact absurd h (by simp)
  | cons c rest ih =>
    unfold scanDigits at h
    unfold digitsValue
    by_cases hc : c = 95
    · rw [if_pos hc] at h; rw [if_pos hc]
      by_cases hs : (!seen) = true
      · rw [if_pos hs] at h; exact absurd h (by simp)
      · rw [if_neg hs] at h; exact ih acc seen hacc h
    · rw [if_neg hc] at h; rw [if_neg hc]
      simp only [] at h
      by_cases h1 : (decide (c > 127) || decide (digitVal c ≥ base)) = true
      · rw [if_pos h1] at h; exact absurd h (by simp)
      · rw [if_neg h1] at h
        by_cases h2 : acc > (uint64Max - digitVal c) / base
        · rw [if_pos h2] at h; exact absurd h (by simp)
        · rw [if_neg h2] at h
          have hd : digitVal c < base := by
            simp only [Bool.or_eq_true, decide_eq_true_eq, not_or] at h1; exact Nat.lt_of_not_ge h1.2
          have hle : acc * base ≤ uint64Max - digitVal c := by
            have := Nat.div_mul_le_self (uint64Max - digitVal c) base
            have h3 : acc ≤ (uint64Max - digitVal c) / base := Nat.le_of_not_gt h2
            exact Nat.le_trans (Nat.mul_le_mul_right base h3) this
          have hdl : digitVal c ≤ uint64Max := by
            by_cases hz : digitVal c ≤ uint64Max
            · exact hz
            · -- then (uint64Max - digit) / base = 0, so acc = 0 and acc * base + digit = digit < base; but base ≤ 36 is not
              -- known here: use the table bound instead
              exact absurd (digitVal_le_255 c) (by unfold uint64Max at hz; omega)
          have hfit : acc * base + digitVal c ≤ uint64Max := by omega
          exact ih _ true hfit h

/-- does not fit 64 bits ⇒ rejected -/
theorem scanDigits_overflow_none (base : Nat) (ds : List Nat) (acc : Nat) (seen : Bool) (hacc : acc ≤ uint64Max)
    (hov : uint64Max < digitsValue base ds acc) : scanDigits base ds acc seen = none := by
  induction ds generalizing acc seen with
  | nil => unfold digitsValue at hov; omega
  | cons c rest ih =>
    unfold scanDigits
    unfold digitsValue at hov
    by_cases hc : c = 95
    · rw [if_pos hc]; rw [if_pos hc] at hov
      by_cases hs : (!seen) = true
      · rw [if_pos hs]
      · rw [if_neg hs]; exact ih acc seen hacc hov
    · rw [if_neg hc]; rw [if_neg hc] at hov
      simp only []
      by_cases h1 : (decide (c > 127) || decide (digitVal c ≥ base)) = true
      · rw [if_pos h1]
      · rw [if_neg h1]
        by_cases h2 : acc > (uint64Max - digitVal c) / base
        · rw [if_pos h2]
        · rw [if_neg h2]
          have h3 : acc ≤ (uint64Max - digitVal c) / base := Nat.le_of_not_gt h2
          have hle : acc * base ≤ uint64Max - digitVal c :=
            Nat.le_trans (Nat.mul_le_mul_right base h3) (Nat.div_mul_le_self _ base)
          have hdl := digitVal_le_255 c
          have hfit : acc * base + digitVal c ≤ uint64Max := by unfold uint64Max at *; omega
          exact ih _ true hfit hov

theorem scanTail_le (neg : Bool) (pre : Option (Nat × List Nat)) (n : Bool) (v : Nat) (h : scanTail neg pre = some (n, v)) :
    v ≤ uint64Max := by
  unfold scanTail at h
  cases pre with
  | none => exact absurd h (by simp)
  | some p =>
    obtain ⟨base, s2⟩ := p
    simp only [] at h
    cases hd : scanDigits base (skipZeros s2 false).1 0 (skipZeros s2 false).2 with
    | none => rw [hd] at h; exact absurd h (by simp)
    | some w =>
      rw [hd] at h
      simp only [Option.some.injEq, Prod.mk.injEq] at h
      obtain ⟨_, rfl⟩ := h
      exact (scanDigits_some _ _ _ _ _ (by decide) hd).2

theorem scanUint64_le (s : List Nat) (neg : Bool) (v : Nat) (h : scanUint64 s = some (neg, v)) : v ≤ uint64Max := by
  unfold scanUint64 at h
  split at h
  · exact absurd h (by simp)
  · split at h
    · exact absurd h (by simp)
    · exact scanTail_le _ _ _ _ h

/-- a scanned string operand is a value of the type it was scanned for -/
theorem scan_results_in_range (s : List Nat) :
    (∀ n, scanInt64 s = some n → Kind.s64.inRange n) ∧ (∀ n, scanU64 s = some n → Kind.u64.inRange n) := by
  constructor
  · intro n h
    unfold scanInt64 at h
    cases hu : scanUint64 s with
    | none => rw [hu] at h; exact absurd h (by simp)
    | some p =>
      obtain ⟨neg, bi⟩ := p
      rw [hu] at h
      simp only [] at h
      have hle := scanUint64_le s neg bi hu
      unfold uint64Max at hle h
      simp only [Kind.inRange, int64Min, int64Max]
      split at h
      · rename_i h1
        simp only [Bool.and_eq_true, decide_eq_true_eq] at h1
        split at h <;> (injection h with h; subst h; simp only [Int.ofNat_eq_natCast, int64Min] at *; omega)
      · split at h
        · rename_i h2
          simp only [Bool.and_eq_true, decide_eq_true_eq] at h2
          injection h with h; subst h; simp only [Int.ofNat_eq_natCast] at *; omega
        · exact absurd h (by simp)
  · intro n h
    unfold scanU64 at h
    cases hu : scanUint64 s with
    | none => rw [hu] at h; exact absurd h (by simp)
    | some p =>
      obtain ⟨neg, bi⟩ := p
      rw [hu] at h
      simp only [] at h
      have hle := scanUint64_le s neg bi hu
      unfold uint64Max at hle
      simp only [Kind.inRange, two64]
      split at h
      · injection h with h; subst h; simp only [Int.ofNat_eq_natCast] at *; omega
      · exact absurd h (by simp)

end JanetModel.Int64
