/- C14 — every type mix of an operator on the same pair of integers gives the same integer: box ⊕ number (left method), number ⊕ box
   (the right operand's reversed method with swapped arguments), box ⊕ box, on the current tree (`cfgGen`), for |x|, |y| ≤ 2^53 —
   the end-to-end form of `dispatch_left_then_reversed_right` + `unwrap_range` + the method theorems.  (The number ⊕ number case is
   `number_ops_agree_with_s64_ops`.)  Proof file (Mathlib via IeeeInt), not linked into the driver. -/
import JanetModel.Int64.IeeeInt
import JanetModel.Int64.LemmasN
namespace JanetModel.Int64
open JanetModel.Gen.Int64 JanetModel.Int64.Ieee

theorem hr (x : ℤ) (hx : |x| ≤ 9007199254740992) : Kind.s64.inRange x := by
  have := abs_le.1 hx; simp only [Kind.inRange, int64Min, int64Max]; omega
theorem hmin (x y : ℤ) (hx : |x| ≤ 9007199254740992) : ¬ (x = int64Min ∧ y = -1) := by
  have := abs_le.1 hx; simp only [int64Min]; omega
theorem hu53 (x : ℤ) (hx : |x| ≤ 9007199254740992) : -two53 ≤ x ∧ x ≤ two53 := by
  have := abs_le.1 hx; simp only [two53]; omega

/-- `+`: s64 ⊕ number, number ⊕ s64, s64 ⊕ s64 -/
theorem mix_add (N : NumOps) (x y : ℤ) (hx : |x| ≤ 9007199254740992) (hy : |y| ≤ 9007199254740992) (hz : Kind.s64.inRange (x + y)) :
    vmOp cfgGen N "binop" "+" (.s64 x) (Val.ofInt y) = .ok (.s64 (x + y)) ∧
    vmOp cfgGen N "binop" "+" (Val.ofInt x) (.s64 y) = .ok (.s64 (x + y)) ∧
    vmOp cfgGen N "binop" "+" (.s64 x) (.s64 y) = .ok (.s64 (x + y)) := by
  have hm : opMethod .s64 "+" x y = .ok (x + y) := (s64_op_exact_of_inRange x y).1 hz
  refine ⟨?_, ?_, ?_⟩
  · have h1 : vmOp cfgGen N "binop" "+" (.s64 x) (Val.ofInt y) =
        (unwrapS (Val.ofInt y)).bind (fun b => (opMethod .s64 "+" x b).bind (fun r => Res.ok (Val.s64 r))) := rfl
    rw [h1, (unwrap_ofInt y (hu53 y hy)).1, bind_ok, hm, bind_ok]
  · have h1 : vmOp cfgGen N "binop" "+" (Val.ofInt x) (.s64 y) =
        (unwrapS (Val.ofInt x)).bind (fun b => (opMethod .s64 "+" y b).bind (fun r => Res.ok (Val.s64 r))) := rfl
    have hm' : opMethod .s64 "+" y x = .ok (x + y) := by
      have := (s64_op_exact_of_inRange y x).1 (by rw [Int.add_comm]; exact hz)
      rw [Int.add_comm y x] at this; exact this
    rw [h1, (unwrap_ofInt x (hu53 x hx)).1, bind_ok, hm', bind_ok]
  · have h1 : vmOp cfgGen N "binop" "+" (.s64 x) (.s64 y) = (opMethod .s64 "+" x y).bind (fun r => Res.ok (Val.s64 r)) := rfl
    rw [h1, hm, bind_ok]

/-- `-`: s64 ⊕ number, number ⊕ s64, s64 ⊕ s64 -/
theorem mix_sub (N : NumOps) (x y : ℤ) (hx : |x| ≤ 9007199254740992) (hy : |y| ≤ 9007199254740992) (hz : Kind.s64.inRange (x - y)) :
    vmOp cfgGen N "binop" "-" (.s64 x) (Val.ofInt y) = .ok (.s64 (x - y)) ∧
    vmOp cfgGen N "binop" "-" (Val.ofInt x) (.s64 y) = .ok (.s64 (x - y)) ∧
    vmOp cfgGen N "binop" "-" (.s64 x) (.s64 y) = .ok (.s64 (x - y)) := by
  have hm : opMethod .s64 "-" x y = .ok (x - y) := (s64_op_exact_of_inRange x y).2.1 hz
  refine ⟨?_, ?_, ?_⟩
  · have h1 : vmOp cfgGen N "binop" "-" (.s64 x) (Val.ofInt y) =
        (unwrapS (Val.ofInt y)).bind (fun b => (opMethod .s64 "-" x b).bind (fun r => Res.ok (Val.s64 r))) := rfl
    rw [h1, (unwrap_ofInt y (hu53 y hy)).1, bind_ok, hm, bind_ok]
  · have h1 : vmOp cfgGen N "binop" "-" (Val.ofInt x) (.s64 y) =
        (unwrapS (Val.ofInt x)).bind (fun a => (opMethod .s64 "-" a y).bind (fun r => Res.ok (Val.s64 r))) := rfl
    rw [h1, (unwrap_ofInt x (hu53 x hx)).1, bind_ok]
    have hm' : opMethod .s64 "-" x y = .ok (x - y) := hm
    rw [hm', bind_ok]
  · have h1 : vmOp cfgGen N "binop" "-" (.s64 x) (.s64 y) = (opMethod .s64 "-" x y).bind (fun r => Res.ok (Val.s64 r)) := rfl
    rw [h1, hm, bind_ok]

/-- `*`: s64 ⊕ number, number ⊕ s64, s64 ⊕ s64 -/
theorem mix_mul (N : NumOps) (x y : ℤ) (hx : |x| ≤ 9007199254740992) (hy : |y| ≤ 9007199254740992) (hz : Kind.s64.inRange (x * y)) :
    vmOp cfgGen N "binop" "*" (.s64 x) (Val.ofInt y) = .ok (.s64 (x * y)) ∧
    vmOp cfgGen N "binop" "*" (Val.ofInt x) (.s64 y) = .ok (.s64 (x * y)) ∧
    vmOp cfgGen N "binop" "*" (.s64 x) (.s64 y) = .ok (.s64 (x * y)) := by
  have hm : opMethod .s64 "*" x y = .ok (x * y) := (s64_op_exact_of_inRange x y).2.2 hz
  refine ⟨?_, ?_, ?_⟩
  · have h1 : vmOp cfgGen N "binop" "*" (.s64 x) (Val.ofInt y) =
        (unwrapS (Val.ofInt y)).bind (fun b => (opMethod .s64 "*" x b).bind (fun r => Res.ok (Val.s64 r))) := rfl
    rw [h1, (unwrap_ofInt y (hu53 y hy)).1, bind_ok, hm, bind_ok]
  · have h1 : vmOp cfgGen N "binop" "*" (Val.ofInt x) (.s64 y) =
        (unwrapS (Val.ofInt x)).bind (fun b => (opMethod .s64 "*" y b).bind (fun r => Res.ok (Val.s64 r))) := rfl
    have hm' : opMethod .s64 "*" y x = .ok (x * y) := by
      have := (s64_op_exact_of_inRange y x).2.2 (by rw [Int.mul_comm]; exact hz)
      rw [Int.mul_comm y x] at this; exact this
    rw [h1, (unwrap_ofInt x (hu53 x hx)).1, bind_ok, hm', bind_ok]
  · have h1 : vmOp cfgGen N "binop" "*" (.s64 x) (.s64 y) = (opMethod .s64 "*" x y).bind (fun r => Res.ok (Val.s64 r)) := rfl
    rw [h1, hm, bind_ok]

/-- `/`: s64 ⊕ number, number ⊕ s64, s64 ⊕ s64 -/
theorem mix_quot (N : NumOps) (x y : ℤ) (hx : |x| ≤ 9007199254740992) (hy : |y| ≤ 9007199254740992) (hy0 : y ≠ 0) :
    vmOp cfgGen N "binop" "/" (.s64 x) (Val.ofInt y) = .ok (.s64 (Int.tdiv x y)) ∧
    vmOp cfgGen N "binop" "/" (Val.ofInt x) (.s64 y) = .ok (.s64 (Int.tdiv x y)) ∧
    vmOp cfgGen N "binop" "/" (.s64 x) (.s64 y) = .ok (.s64 (Int.tdiv x y)) := by
  have hm : divMethodS cfgGen.guardDiv "div" "/" x y = .ok (Int.tdiv x y) := ((trunc_div_rem_correct x y hy0).1 (hmin x y hx)).1
  refine ⟨?_, ?_, ?_⟩
  · have h1 : vmOp cfgGen N "binop" "/" (.s64 x) (Val.ofInt y) =
        (unwrapS (Val.ofInt y)).bind (fun b => (divMethodS cfgGen.guardDiv "div" "/" x b).bind (fun r => Res.ok (Val.s64 r))) := rfl
    rw [h1, (unwrap_ofInt y (hu53 y hy)).1, bind_ok, hm, bind_ok]
  · have h1 : vmOp cfgGen N "binop" "/" (Val.ofInt x) (.s64 y) =
        (unwrapS (Val.ofInt x)).bind (fun a => (divMethodS cfgGen.guardDivi "div" "/" a y).bind (fun r => Res.ok (Val.s64 r))) := rfl
    rw [h1, (unwrap_ofInt x (hu53 x hx)).1, bind_ok]
    have hm' : divMethodS cfgGen.guardDivi "div" "/" x y = .ok (Int.tdiv x y) := hm
    rw [hm', bind_ok]
  · have h1 : vmOp cfgGen N "binop" "/" (.s64 x) (.s64 y) = (divMethodS cfgGen.guardDiv "div" "/" x y).bind (fun r => Res.ok (Val.s64 r)) := rfl
    rw [h1, hm, bind_ok]

/-- `%`: s64 ⊕ number, number ⊕ s64, s64 ⊕ s64 -/
theorem mix_rem (N : NumOps) (x y : ℤ) (hx : |x| ≤ 9007199254740992) (hy : |y| ≤ 9007199254740992) (hy0 : y ≠ 0) :
    vmOp cfgGen N "remainder" "%" (.s64 x) (Val.ofInt y) = .ok (.s64 (Int.tmod x y)) ∧
    vmOp cfgGen N "remainder" "%" (Val.ofInt x) (.s64 y) = .ok (.s64 (Int.tmod x y)) ∧
    vmOp cfgGen N "remainder" "%" (.s64 x) (.s64 y) = .ok (.s64 (Int.tmod x y)) := by
  have hm : divMethodS cfgGen.guardDiv "rem" "%" x y = .ok (Int.tmod x y) := ((trunc_div_rem_correct x y hy0).1 (hmin x y hx)).2
  refine ⟨?_, ?_, ?_⟩
  · have h1 : vmOp cfgGen N "remainder" "%" (.s64 x) (Val.ofInt y) =
        (unwrapS (Val.ofInt y)).bind (fun b => (divMethodS cfgGen.guardDiv "rem" "%" x b).bind (fun r => Res.ok (Val.s64 r))) := rfl
    rw [h1, (unwrap_ofInt y (hu53 y hy)).1, bind_ok, hm, bind_ok]
  · have h1 : vmOp cfgGen N "remainder" "%" (Val.ofInt x) (.s64 y) =
        (unwrapS (Val.ofInt x)).bind (fun a => (divMethodS cfgGen.guardDivi "rem" "%" a y).bind (fun r => Res.ok (Val.s64 r))) := rfl
    rw [h1, (unwrap_ofInt x (hu53 x hx)).1, bind_ok]
    have hm' : divMethodS cfgGen.guardDivi "rem" "%" x y = .ok (Int.tmod x y) := hm
    rw [hm', bind_ok]
  · have h1 : vmOp cfgGen N "remainder" "%" (.s64 x) (.s64 y) = (divMethodS cfgGen.guardDiv "rem" "%" x y).bind (fun r => Res.ok (Val.s64 r)) := rfl
    rw [h1, hm, bind_ok]

/-- `div`: s64 ⊕ number, number ⊕ s64, s64 ⊕ s64 -/
theorem mix_div (N : NumOps) (x y : ℤ) (hx : |x| ≤ 9007199254740992) (hy : |y| ≤ 9007199254740992) (hy0 : y ≠ 0) :
    vmOp cfgGen N "divfloor" "div" (.s64 x) (Val.ofInt y) = .ok (.s64 (Int.fdiv x y)) ∧
    vmOp cfgGen N "divfloor" "div" (Val.ofInt x) (.s64 y) = .ok (.s64 (Int.fdiv x y)) ∧
    vmOp cfgGen N "divfloor" "div" (.s64 x) (.s64 y) = .ok (.s64 (Int.fdiv x y)) := by
  have hm : divfMethod cfgGen.guardDivf x y = .ok (Int.fdiv x y) := divf_eq_floor_div _ x y (hr x hx) hy0 (hmin x y hx)
  refine ⟨?_, ?_, ?_⟩
  · have h1 : vmOp cfgGen N "divfloor" "div" (.s64 x) (Val.ofInt y) =
        (unwrapS (Val.ofInt y)).bind (fun b => (divfMethod cfgGen.guardDivf x b).bind (fun r => Res.ok (Val.s64 r))) := rfl
    rw [h1, (unwrap_ofInt y (hu53 y hy)).1, bind_ok, hm, bind_ok]
  · have h1 : vmOp cfgGen N "divfloor" "div" (Val.ofInt x) (.s64 y) =
        (unwrapS (Val.ofInt x)).bind (fun a => (divfMethod cfgGen.guardDivfi a y).bind (fun r => Res.ok (Val.s64 r))) := rfl
    rw [h1, (unwrap_ofInt x (hu53 x hx)).1, bind_ok]
    have hm' : divfMethod cfgGen.guardDivfi x y = .ok (Int.fdiv x y) := hm
    rw [hm', bind_ok]
  · have h1 : vmOp cfgGen N "divfloor" "div" (.s64 x) (.s64 y) = (divfMethod cfgGen.guardDivf x y).bind (fun r => Res.ok (Val.s64 r)) := rfl
    rw [h1, hm, bind_ok]

/-- `mod`: s64 ⊕ number, number ⊕ s64, s64 ⊕ s64 -/
theorem mix_mod (N : NumOps) (x y : ℤ) (hx : |x| ≤ 9007199254740992) (hy : |y| ≤ 9007199254740992) (hy0 : y ≠ 0) :
    vmOp cfgGen N "modulo" "mod" (.s64 x) (Val.ofInt y) = .ok (.s64 (Int.fmod x y)) ∧
    vmOp cfgGen N "modulo" "mod" (Val.ofInt x) (.s64 y) = .ok (.s64 (Int.fmod x y)) ∧
    vmOp cfgGen N "modulo" "mod" (.s64 x) (.s64 y) = .ok (.s64 (Int.fmod x y)) := by
  have hm : modMethod cfgGen.guardMod x y = .ok (Int.fmod x y) := mod_eq_floor_mod _ x y (hr x hx) (hr y hy) hy0 (Or.inr (hmin x y hx))
  refine ⟨?_, ?_, ?_⟩
  · have h1 : vmOp cfgGen N "modulo" "mod" (.s64 x) (Val.ofInt y) =
        (unwrapS (Val.ofInt y)).bind (fun b => (modMethod cfgGen.guardMod x b).bind (fun r => Res.ok (Val.s64 r))) := rfl
    rw [h1, (unwrap_ofInt y (hu53 y hy)).1, bind_ok, hm, bind_ok]
  · have h1 : vmOp cfgGen N "modulo" "mod" (Val.ofInt x) (.s64 y) =
        (unwrapS (Val.ofInt x)).bind (fun a => (modMethod cfgGen.guardModi a y).bind (fun r => Res.ok (Val.s64 r))) := rfl
    rw [h1, (unwrap_ofInt x (hu53 x hx)).1, bind_ok]
    have hm' : modMethod cfgGen.guardModi x y = .ok (Int.fmod x y) := hm
    rw [hm', bind_ok]
  · have h1 : vmOp cfgGen N "modulo" "mod" (.s64 x) (.s64 y) = (modMethod cfgGen.guardMod x y).bind (fun r => Res.ok (Val.s64 r)) := rfl
    rw [h1, hm, bind_ok]

/-! ## int/u64, non-negative operands -/

theorem wrapU_congr {u v : ℤ} (h : u % two64 = v % two64) : wrapU u = wrapU v := by unfold wrapU; exact h

/-- the u64 `+ - *` methods return the exact integer result whenever it is a uint64 -/
theorem u64_op_exact_of_inRange (x y : ℤ) :
    (Kind.u64.inRange (x + y) → opMethod .u64 "+" x y = .ok (x + y)) ∧
    (Kind.u64.inRange (x - y) → opMethod .u64 "-" x y = .ok (x - y)) ∧
    (Kind.u64.inRange (x * y) → opMethod .u64 "*" x y = .ok (x * y)) := by
  refine ⟨fun h => ?_, fun h => ?_, fun h => ?_⟩
  · show Res.ok (wrapU (wrapU x + wrapU y)) = _
    rw [wrapU_congr (v := x + y) (by unfold wrapU; rw [← Int.add_emod]), show wrapU _ = _ from wrap_of_inRange .u64 _ h]
  · show Res.ok (wrapU (wrapU x - wrapU y)) = _
    rw [wrapU_congr (v := x - y) (by unfold wrapU; rw [← Int.sub_emod]), show wrapU _ = _ from wrap_of_inRange .u64 _ h]
  · show Res.ok (wrapU (wrapU x * wrapU y)) = _
    rw [wrapU_congr (v := x * y) (by unfold wrapU; rw [← Int.mul_emod]), show wrapU _ = _ from wrap_of_inRange .u64 _ h]

/-- `+`: u64 ⊕ number, number ⊕ u64, u64 ⊕ u64 (non-negative operands) -/
theorem mixu_add (N : NumOps) (x y : ℤ) (hx0 : 0 ≤ x) (hy0' : 0 ≤ y) (hx : |x| ≤ 9007199254740992) (hy : |y| ≤ 9007199254740992) (hz : Kind.u64.inRange (x + y)) :
    vmOp cfgGen N "binop" "+" (.u64 x) (Val.ofInt y) = .ok (.u64 (x + y)) ∧
    vmOp cfgGen N "binop" "+" (Val.ofInt x) (.u64 y) = .ok (.u64 (x + y)) ∧
    vmOp cfgGen N "binop" "+" (.u64 x) (.u64 y) = .ok (.u64 (x + y)) := by
  have hm : opMethod .u64 "+" x y = .ok (x + y) := (u64_op_exact_of_inRange x y).1 hz
  refine ⟨?_, ?_, ?_⟩
  · have h1 : vmOp cfgGen N "binop" "+" (.u64 x) (Val.ofInt y) =
        (unwrapU (Val.ofInt y)).bind (fun b => (opMethod .u64 "+" x b).bind (fun r => Res.ok (Val.u64 r))) := rfl
    rw [h1, (unwrap_ofInt y (hu53 y hy)).2 hy0', bind_ok, hm, bind_ok]
  · have h1 : vmOp cfgGen N "binop" "+" (Val.ofInt x) (.u64 y) =
        (unwrapU (Val.ofInt x)).bind (fun b => (opMethod .u64 "+" y b).bind (fun r => Res.ok (Val.u64 r))) := rfl
    have hm' : opMethod .u64 "+" y x = .ok (x + y) := by
      have := (u64_op_exact_of_inRange y x).1 (by rw [Int.add_comm]; exact hz)
      rw [Int.add_comm y x] at this; exact this
    rw [h1, (unwrap_ofInt x (hu53 x hx)).2 hx0, bind_ok, hm', bind_ok]
  · have h1 : vmOp cfgGen N "binop" "+" (.u64 x) (.u64 y) = (opMethod .u64 "+" x y).bind (fun r => Res.ok (Val.u64 r)) := rfl
    rw [h1, hm, bind_ok]

/-- `-`: u64 ⊕ number, number ⊕ u64, u64 ⊕ u64 (non-negative operands) -/
theorem mixu_sub (N : NumOps) (x y : ℤ) (hx0 : 0 ≤ x) (hy0' : 0 ≤ y) (hx : |x| ≤ 9007199254740992) (hy : |y| ≤ 9007199254740992) (hz : Kind.u64.inRange (x - y)) :
    vmOp cfgGen N "binop" "-" (.u64 x) (Val.ofInt y) = .ok (.u64 (x - y)) ∧
    vmOp cfgGen N "binop" "-" (Val.ofInt x) (.u64 y) = .ok (.u64 (x - y)) ∧
    vmOp cfgGen N "binop" "-" (.u64 x) (.u64 y) = .ok (.u64 (x - y)) := by
  have hm : opMethod .u64 "-" x y = .ok (x - y) := (u64_op_exact_of_inRange x y).2.1 hz
  refine ⟨?_, ?_, ?_⟩
  · have h1 : vmOp cfgGen N "binop" "-" (.u64 x) (Val.ofInt y) =
        (unwrapU (Val.ofInt y)).bind (fun b => (opMethod .u64 "-" x b).bind (fun r => Res.ok (Val.u64 r))) := rfl
    rw [h1, (unwrap_ofInt y (hu53 y hy)).2 hy0', bind_ok, hm, bind_ok]
  · have h1 : vmOp cfgGen N "binop" "-" (Val.ofInt x) (.u64 y) =
        (unwrapU (Val.ofInt x)).bind (fun a => (opMethod .u64 "-" a y).bind (fun r => Res.ok (Val.u64 r))) := rfl
    rw [h1, (unwrap_ofInt x (hu53 x hx)).2 hx0, bind_ok, hm, bind_ok]
  · have h1 : vmOp cfgGen N "binop" "-" (.u64 x) (.u64 y) = (opMethod .u64 "-" x y).bind (fun r => Res.ok (Val.u64 r)) := rfl
    rw [h1, hm, bind_ok]

/-- `*`: u64 ⊕ number, number ⊕ u64, u64 ⊕ u64 (non-negative operands) -/
theorem mixu_mul (N : NumOps) (x y : ℤ) (hx0 : 0 ≤ x) (hy0' : 0 ≤ y) (hx : |x| ≤ 9007199254740992) (hy : |y| ≤ 9007199254740992) (hz : Kind.u64.inRange (x * y)) :
    vmOp cfgGen N "binop" "*" (.u64 x) (Val.ofInt y) = .ok (.u64 (x * y)) ∧
    vmOp cfgGen N "binop" "*" (Val.ofInt x) (.u64 y) = .ok (.u64 (x * y)) ∧
    vmOp cfgGen N "binop" "*" (.u64 x) (.u64 y) = .ok (.u64 (x * y)) := by
  have hm : opMethod .u64 "*" x y = .ok (x * y) := (u64_op_exact_of_inRange x y).2.2 hz
  refine ⟨?_, ?_, ?_⟩
  · have h1 : vmOp cfgGen N "binop" "*" (.u64 x) (Val.ofInt y) =
        (unwrapU (Val.ofInt y)).bind (fun b => (opMethod .u64 "*" x b).bind (fun r => Res.ok (Val.u64 r))) := rfl
    rw [h1, (unwrap_ofInt y (hu53 y hy)).2 hy0', bind_ok, hm, bind_ok]
  · have h1 : vmOp cfgGen N "binop" "*" (Val.ofInt x) (.u64 y) =
        (unwrapU (Val.ofInt x)).bind (fun b => (opMethod .u64 "*" y b).bind (fun r => Res.ok (Val.u64 r))) := rfl
    have hm' : opMethod .u64 "*" y x = .ok (x * y) := by
      have := (u64_op_exact_of_inRange y x).2.2 (by rw [Int.mul_comm]; exact hz)
      rw [Int.mul_comm y x] at this; exact this
    rw [h1, (unwrap_ofInt x (hu53 x hx)).2 hx0, bind_ok, hm', bind_ok]
  · have h1 : vmOp cfgGen N "binop" "*" (.u64 x) (.u64 y) = (opMethod .u64 "*" x y).bind (fun r => Res.ok (Val.u64 r)) := rfl
    rw [h1, hm, bind_ok]

/-- `/`: u64 ⊕ number, number ⊕ u64, u64 ⊕ u64 (non-negative operands) -/
theorem mixu_quot (N : NumOps) (x y : ℤ) (hx0 : 0 ≤ x) (hy0' : 0 ≤ y) (hx : |x| ≤ 9007199254740992) (hy : |y| ≤ 9007199254740992) (hy0 : y ≠ 0) :
    vmOp cfgGen N "binop" "/" (.u64 x) (Val.ofInt y) = .ok (.u64 (x / y)) ∧
    vmOp cfgGen N "binop" "/" (Val.ofInt x) (.u64 y) = .ok (.u64 (x / y)) ∧
    vmOp cfgGen N "binop" "/" (.u64 x) (.u64 y) = .ok (.u64 (x / y)) := by
  have hm : divMethodU "div" "/" x y = .ok (x / y) := (trunc_div_rem_correct x y hy0).2.2.1
  refine ⟨?_, ?_, ?_⟩
  · have h1 : vmOp cfgGen N "binop" "/" (.u64 x) (Val.ofInt y) =
        (unwrapU (Val.ofInt y)).bind (fun b => (divMethodU "div" "/" x b).bind (fun r => Res.ok (Val.u64 r))) := rfl
    rw [h1, (unwrap_ofInt y (hu53 y hy)).2 hy0', bind_ok, hm, bind_ok]
  · have h1 : vmOp cfgGen N "binop" "/" (Val.ofInt x) (.u64 y) =
        (unwrapU (Val.ofInt x)).bind (fun a => (divMethodU "div" "/" a y).bind (fun r => Res.ok (Val.u64 r))) := rfl
    rw [h1, (unwrap_ofInt x (hu53 x hx)).2 hx0, bind_ok, hm, bind_ok]
  · have h1 : vmOp cfgGen N "binop" "/" (.u64 x) (.u64 y) = (divMethodU "div" "/" x y).bind (fun r => Res.ok (Val.u64 r)) := rfl
    rw [h1, hm, bind_ok]

/-- `%`: u64 ⊕ number, number ⊕ u64, u64 ⊕ u64 (non-negative operands) -/
theorem mixu_rem (N : NumOps) (x y : ℤ) (hx0 : 0 ≤ x) (hy0' : 0 ≤ y) (hx : |x| ≤ 9007199254740992) (hy : |y| ≤ 9007199254740992) (hy0 : y ≠ 0) :
    vmOp cfgGen N "remainder" "%" (.u64 x) (Val.ofInt y) = .ok (.u64 (x % y)) ∧
    vmOp cfgGen N "remainder" "%" (Val.ofInt x) (.u64 y) = .ok (.u64 (x % y)) ∧
    vmOp cfgGen N "remainder" "%" (.u64 x) (.u64 y) = .ok (.u64 (x % y)) := by
  have hm : divMethodU "rem" "%" x y = .ok (x % y) := (trunc_div_rem_correct x y hy0).2.2.2.1
  refine ⟨?_, ?_, ?_⟩
  · have h1 : vmOp cfgGen N "remainder" "%" (.u64 x) (Val.ofInt y) =
        (unwrapU (Val.ofInt y)).bind (fun b => (divMethodU "rem" "%" x b).bind (fun r => Res.ok (Val.u64 r))) := rfl
    rw [h1, (unwrap_ofInt y (hu53 y hy)).2 hy0', bind_ok, hm, bind_ok]
  · have h1 : vmOp cfgGen N "remainder" "%" (Val.ofInt x) (.u64 y) =
        (unwrapU (Val.ofInt x)).bind (fun a => (divMethodU "rem" "%" a y).bind (fun r => Res.ok (Val.u64 r))) := rfl
    rw [h1, (unwrap_ofInt x (hu53 x hx)).2 hx0, bind_ok, hm, bind_ok]
  · have h1 : vmOp cfgGen N "remainder" "%" (.u64 x) (.u64 y) = (divMethodU "rem" "%" x y).bind (fun r => Res.ok (Val.u64 r)) := rfl
    rw [h1, hm, bind_ok]

/-- `div`: u64 ⊕ number, number ⊕ u64, u64 ⊕ u64 (non-negative operands) -/
theorem mixu_div (N : NumOps) (x y : ℤ) (hx0 : 0 ≤ x) (hy0' : 0 ≤ y) (hx : |x| ≤ 9007199254740992) (hy : |y| ≤ 9007199254740992) (hy0 : y ≠ 0) :
    vmOp cfgGen N "divfloor" "div" (.u64 x) (Val.ofInt y) = .ok (.u64 (x / y)) ∧
    vmOp cfgGen N "divfloor" "div" (Val.ofInt x) (.u64 y) = .ok (.u64 (x / y)) ∧
    vmOp cfgGen N "divfloor" "div" (.u64 x) (.u64 y) = .ok (.u64 (x / y)) := by
  have hm : divMethodU "div" "/" x y = .ok (x / y) := (trunc_div_rem_correct x y hy0).2.2.1
  refine ⟨?_, ?_, ?_⟩
  · have h1 : vmOp cfgGen N "divfloor" "div" (.u64 x) (Val.ofInt y) =
        (unwrapU (Val.ofInt y)).bind (fun b => (divMethodU "div" "/" x b).bind (fun r => Res.ok (Val.u64 r))) := rfl
    rw [h1, (unwrap_ofInt y (hu53 y hy)).2 hy0', bind_ok, hm, bind_ok]
  · have h1 : vmOp cfgGen N "divfloor" "div" (Val.ofInt x) (.u64 y) =
        (unwrapU (Val.ofInt x)).bind (fun a => (divMethodU "div" "/" a y).bind (fun r => Res.ok (Val.u64 r))) := rfl
    rw [h1, (unwrap_ofInt x (hu53 x hx)).2 hx0, bind_ok, hm, bind_ok]
  · have h1 : vmOp cfgGen N "divfloor" "div" (.u64 x) (.u64 y) = (divMethodU "div" "/" x y).bind (fun r => Res.ok (Val.u64 r)) := rfl
    rw [h1, hm, bind_ok]

/-- `mod`: u64 ⊕ number, number ⊕ u64, u64 ⊕ u64 (non-negative operands) -/
theorem mixu_mod (N : NumOps) (x y : ℤ) (hx0 : 0 ≤ x) (hy0' : 0 ≤ y) (hx : |x| ≤ 9007199254740992) (hy : |y| ≤ 9007199254740992) (hy0 : y ≠ 0) :
    vmOp cfgGen N "modulo" "mod" (.u64 x) (Val.ofInt y) = .ok (.u64 (x % y)) ∧
    vmOp cfgGen N "modulo" "mod" (Val.ofInt x) (.u64 y) = .ok (.u64 (x % y)) ∧
    vmOp cfgGen N "modulo" "mod" (.u64 x) (.u64 y) = .ok (.u64 (x % y)) := by
  have hm : divMethodU "mod" "%" x y = .ok (x % y) := (trunc_div_rem_correct x y hy0).2.2.2.2
  refine ⟨?_, ?_, ?_⟩
  · have h1 : vmOp cfgGen N "modulo" "mod" (.u64 x) (Val.ofInt y) =
        (unwrapU (Val.ofInt y)).bind (fun b => (divMethodU "mod" "%" x b).bind (fun r => Res.ok (Val.u64 r))) := rfl
    rw [h1, (unwrap_ofInt y (hu53 y hy)).2 hy0', bind_ok, hm, bind_ok]
  · have h1 : vmOp cfgGen N "modulo" "mod" (Val.ofInt x) (.u64 y) =
        (unwrapU (Val.ofInt x)).bind (fun a => (divMethodU "mod" "%" a y).bind (fun r => Res.ok (Val.u64 r))) := rfl
    rw [h1, (unwrap_ofInt x (hu53 x hx)).2 hx0, bind_ok, hm, bind_ok]
  · have h1 : vmOp cfgGen N "modulo" "mod" (.u64 x) (.u64 y) = (divMethodU "mod" "%" x y).bind (fun r => Res.ok (Val.u64 r)) := rfl
    rw [h1, hm, bind_ok]

/-! ## int/s64 ⊕ int/u64 and int/u64 ⊕ int/s64: the left operand's method decides the kind of the result; the other box is reinterpreted
(`*(int64_t *) abst` / `*(uint64_t *) abst`), which is the identity on 0 ≤ v ≤ 2^53 -/

theorem wrapS_small (y : ℤ) (h0 : 0 ≤ y) (hy : |y| ≤ 9007199254740992) : wrapS y = y := by
  have := abs_le.1 hy
  exact wrap_of_inRange .s64 y (hr y hy)
theorem wrapU_small (y : ℤ) (h0 : 0 ≤ y) (hy : |y| ≤ 9007199254740992) : wrapU y = y := by
  have := abs_le.1 hy
  exact wrap_of_inRange .u64 y (by simp only [Kind.inRange, two64]; omega)

/-- `+`: s64 ⊕ u64 is the s64 box of x ⊕ y, u64 ⊕ s64 the u64 box of y ⊕ x (the u64 value y ≥ 0; x ≥ 0 where it is read as a u64) -/
theorem mixsu_add (N : NumOps) (x y : ℤ) (hx : |x| ≤ 9007199254740992) (hy : |y| ≤ 9007199254740992) (hyn : 0 ≤ y) :
    (∀ hz : Kind.s64.inRange (x + y), vmOp cfgGen N "binop" "+" (.s64 x) (.u64 y) = .ok (.s64 (x + y))) ∧
    (0 ≤ x → ∀ hz : Kind.u64.inRange (y + x), vmOp cfgGen N "binop" "+" (.u64 y) (.s64 x) = .ok (.u64 (y + x))) := by
  refine ⟨fun hz => ?_, fun hxn hz => ?_⟩
  · have hm : opMethod .s64 "+" x y = .ok (x + y) := (s64_op_exact_of_inRange x y).1 hz
    have h1 : vmOp cfgGen N "binop" "+" (.s64 x) (.u64 y) = (opMethod .s64 "+" x (wrapS y)).bind (fun r => Res.ok (Val.s64 r)) := rfl
    rw [h1, wrapS_small y hyn hy, hm, bind_ok]
  · have hm : opMethod .u64 "+" y x = .ok (y + x) := (u64_op_exact_of_inRange y x).1 hz
    have h1 : vmOp cfgGen N "binop" "+" (.u64 y) (.s64 x) = (opMethod .u64 "+" y (wrapU x)).bind (fun r => Res.ok (Val.u64 r)) := rfl
    rw [h1, wrapU_small x hxn hx, hm, bind_ok]

/-- `-`: s64 ⊕ u64 is the s64 box of x ⊕ y, u64 ⊕ s64 the u64 box of y ⊕ x (the u64 value y ≥ 0; x ≥ 0 where it is read as a u64) -/
theorem mixsu_sub (N : NumOps) (x y : ℤ) (hx : |x| ≤ 9007199254740992) (hy : |y| ≤ 9007199254740992) (hyn : 0 ≤ y) :
    (∀ hz : Kind.s64.inRange (x - y), vmOp cfgGen N "binop" "-" (.s64 x) (.u64 y) = .ok (.s64 (x - y))) ∧
    (0 ≤ x → ∀ hz : Kind.u64.inRange (y - x), vmOp cfgGen N "binop" "-" (.u64 y) (.s64 x) = .ok (.u64 (y - x))) := by
  refine ⟨fun hz => ?_, fun hxn hz => ?_⟩
  · have hm : opMethod .s64 "-" x y = .ok (x - y) := (s64_op_exact_of_inRange x y).2.1 hz
    have h1 : vmOp cfgGen N "binop" "-" (.s64 x) (.u64 y) = (opMethod .s64 "-" x (wrapS y)).bind (fun r => Res.ok (Val.s64 r)) := rfl
    rw [h1, wrapS_small y hyn hy, hm, bind_ok]
  · have hm : opMethod .u64 "-" y x = .ok (y - x) := (u64_op_exact_of_inRange y x).2.1 hz
    have h1 : vmOp cfgGen N "binop" "-" (.u64 y) (.s64 x) = (opMethod .u64 "-" y (wrapU x)).bind (fun r => Res.ok (Val.u64 r)) := rfl
    rw [h1, wrapU_small x hxn hx, hm, bind_ok]

/-- `*`: s64 ⊕ u64 is the s64 box of x ⊕ y, u64 ⊕ s64 the u64 box of y ⊕ x (the u64 value y ≥ 0; x ≥ 0 where it is read as a u64) -/
theorem mixsu_mul (N : NumOps) (x y : ℤ) (hx : |x| ≤ 9007199254740992) (hy : |y| ≤ 9007199254740992) (hyn : 0 ≤ y) :
    (∀ hz : Kind.s64.inRange (x * y), vmOp cfgGen N "binop" "*" (.s64 x) (.u64 y) = .ok (.s64 (x * y))) ∧
    (0 ≤ x → ∀ hz : Kind.u64.inRange (y * x), vmOp cfgGen N "binop" "*" (.u64 y) (.s64 x) = .ok (.u64 (y * x))) := by
  refine ⟨fun hz => ?_, fun hxn hz => ?_⟩
  · have hm : opMethod .s64 "*" x y = .ok (x * y) := (s64_op_exact_of_inRange x y).2.2 hz
    have h1 : vmOp cfgGen N "binop" "*" (.s64 x) (.u64 y) = (opMethod .s64 "*" x (wrapS y)).bind (fun r => Res.ok (Val.s64 r)) := rfl
    rw [h1, wrapS_small y hyn hy, hm, bind_ok]
  · have hm : opMethod .u64 "*" y x = .ok (y * x) := (u64_op_exact_of_inRange y x).2.2 hz
    have h1 : vmOp cfgGen N "binop" "*" (.u64 y) (.s64 x) = (opMethod .u64 "*" y (wrapU x)).bind (fun r => Res.ok (Val.u64 r)) := rfl
    rw [h1, wrapU_small x hxn hx, hm, bind_ok]

/-- `/`: s64 ⊕ u64 is the s64 box of x ⊕ y, u64 ⊕ s64 the u64 box of y ⊕ x (the u64 value y ≥ 0; x ≥ 0 where it is read as a u64) -/
theorem mixsu_quot (N : NumOps) (x y : ℤ) (hx : |x| ≤ 9007199254740992) (hy : |y| ≤ 9007199254740992) (hyn : 0 ≤ y) :
    (∀ hy0 : y ≠ 0, vmOp cfgGen N "binop" "/" (.s64 x) (.u64 y) = .ok (.s64 (Int.tdiv x y))) ∧
    (0 ≤ x → ∀ hx0 : x ≠ 0, vmOp cfgGen N "binop" "/" (.u64 y) (.s64 x) = .ok (.u64 (y / x))) := by
  refine ⟨fun hy0 => ?_, fun hxn hx0 => ?_⟩
  · have hm : divMethodS cfgGen.guardDiv "div" "/" x y = .ok (Int.tdiv x y) := ((trunc_div_rem_correct x y hy0).1 (hmin x y hx)).1
    have h1 : vmOp cfgGen N "binop" "/" (.s64 x) (.u64 y) = (divMethodS cfgGen.guardDiv "div" "/" x (wrapS y)).bind (fun r => Res.ok (Val.s64 r)) := rfl
    rw [h1, wrapS_small y hyn hy, hm, bind_ok]
  · have hm : divMethodU "div" "/" y x = .ok (y / x) := (trunc_div_rem_correct y x hx0).2.2.1
    have h1 : vmOp cfgGen N "binop" "/" (.u64 y) (.s64 x) = (divMethodU "div" "/" y (wrapU x)).bind (fun r => Res.ok (Val.u64 r)) := rfl
    rw [h1, wrapU_small x hxn hx, hm, bind_ok]

/-- `%`: s64 ⊕ u64 is the s64 box of x ⊕ y, u64 ⊕ s64 the u64 box of y ⊕ x (the u64 value y ≥ 0; x ≥ 0 where it is read as a u64) -/
theorem mixsu_rem (N : NumOps) (x y : ℤ) (hx : |x| ≤ 9007199254740992) (hy : |y| ≤ 9007199254740992) (hyn : 0 ≤ y) :
    (∀ hy0 : y ≠ 0, vmOp cfgGen N "remainder" "%" (.s64 x) (.u64 y) = .ok (.s64 (Int.tmod x y))) ∧
    (0 ≤ x → ∀ hx0 : x ≠ 0, vmOp cfgGen N "remainder" "%" (.u64 y) (.s64 x) = .ok (.u64 (y % x))) := by
  refine ⟨fun hy0 => ?_, fun hxn hx0 => ?_⟩
  · have hm : divMethodS cfgGen.guardDiv "rem" "%" x y = .ok (Int.tmod x y) := ((trunc_div_rem_correct x y hy0).1 (hmin x y hx)).2
    have h1 : vmOp cfgGen N "remainder" "%" (.s64 x) (.u64 y) = (divMethodS cfgGen.guardDiv "rem" "%" x (wrapS y)).bind (fun r => Res.ok (Val.s64 r)) := rfl
    rw [h1, wrapS_small y hyn hy, hm, bind_ok]
  · have hm : divMethodU "rem" "%" y x = .ok (y % x) := (trunc_div_rem_correct y x hx0).2.2.2.1
    have h1 : vmOp cfgGen N "remainder" "%" (.u64 y) (.s64 x) = (divMethodU "rem" "%" y (wrapU x)).bind (fun r => Res.ok (Val.u64 r)) := rfl
    rw [h1, wrapU_small x hxn hx, hm, bind_ok]

/-- `div`: s64 ⊕ u64 is the s64 box of x ⊕ y, u64 ⊕ s64 the u64 box of y ⊕ x (the u64 value y ≥ 0; x ≥ 0 where it is read as a u64) -/
theorem mixsu_div (N : NumOps) (x y : ℤ) (hx : |x| ≤ 9007199254740992) (hy : |y| ≤ 9007199254740992) (hyn : 0 ≤ y) :
    (∀ hy0 : y ≠ 0, vmOp cfgGen N "divfloor" "div" (.s64 x) (.u64 y) = .ok (.s64 (Int.fdiv x y))) ∧
    (0 ≤ x → ∀ hx0 : x ≠ 0, vmOp cfgGen N "divfloor" "div" (.u64 y) (.s64 x) = .ok (.u64 (y / x))) := by
  refine ⟨fun hy0 => ?_, fun hxn hx0 => ?_⟩
  · have hm : divfMethod cfgGen.guardDivf x y = .ok (Int.fdiv x y) := divf_eq_floor_div _ x y (hr x hx) hy0 (hmin x y hx)
    have h1 : vmOp cfgGen N "divfloor" "div" (.s64 x) (.u64 y) = (divfMethod cfgGen.guardDivf x (wrapS y)).bind (fun r => Res.ok (Val.s64 r)) := rfl
    rw [h1, wrapS_small y hyn hy, hm, bind_ok]
  · have hm : divMethodU "div" "/" y x = .ok (y / x) := (trunc_div_rem_correct y x hx0).2.2.1
    have h1 : vmOp cfgGen N "divfloor" "div" (.u64 y) (.s64 x) = (divMethodU "div" "/" y (wrapU x)).bind (fun r => Res.ok (Val.u64 r)) := rfl
    rw [h1, wrapU_small x hxn hx, hm, bind_ok]

/-- `mod`: s64 ⊕ u64 is the s64 box of x ⊕ y, u64 ⊕ s64 the u64 box of y ⊕ x (the u64 value y ≥ 0; x ≥ 0 where it is read as a u64) -/
theorem mixsu_mod (N : NumOps) (x y : ℤ) (hx : |x| ≤ 9007199254740992) (hy : |y| ≤ 9007199254740992) (hyn : 0 ≤ y) :
    (∀ hy0 : y ≠ 0, vmOp cfgGen N "modulo" "mod" (.s64 x) (.u64 y) = .ok (.s64 (Int.fmod x y))) ∧
    (0 ≤ x → ∀ hx0 : x ≠ 0, vmOp cfgGen N "modulo" "mod" (.u64 y) (.s64 x) = .ok (.u64 (y % x))) := by
  refine ⟨fun hy0 => ?_, fun hxn hx0 => ?_⟩
  · have hm : modMethod cfgGen.guardMod x y = .ok (Int.fmod x y) := mod_eq_floor_mod _ x y (hr x hx) (hr y hy) hy0 (Or.inr (hmin x y hx))
    have h1 : vmOp cfgGen N "modulo" "mod" (.s64 x) (.u64 y) = (modMethod cfgGen.guardMod x (wrapS y)).bind (fun r => Res.ok (Val.s64 r)) := rfl
    rw [h1, wrapS_small y hyn hy, hm, bind_ok]
  · have hm : divMethodU "mod" "%" y x = .ok (y % x) := (trunc_div_rem_correct y x hx0).2.2.2.2
    have h1 : vmOp cfgGen N "modulo" "mod" (.u64 y) (.s64 x) = (divMethodU "mod" "%" y (wrapU x)).bind (fun r => Res.ok (Val.u64 r)) := rfl
    rw [h1, wrapU_small x hxn hx, hm, bind_ok]

end JanetModel.Int64
