/- C14 — integer-valued doubles: the plain-number handlers `div`, `mod`, `%` (and `+ - *`) of the VM, run on the IEEE
   instance, are **exact** on integers of magnitude ≤ 2^53 — no hypothesis about representability of intermediates is left.
   The key fact is `floor_rneQ_ratio`: a quotient p/q of two such integers never rounds up to (or past) the next integer,
   so ⌊RN(p/q)⌋ = ⌊p/q⌋.  Consequence: on their common domain the number operators and the int/s64 operators agree
   (`Props/C14.lean`: `number_ops_agree_with_s64_ops`).
   Proof file (Mathlib), not linked into the driver. -/
import JanetModel.Int64.IeeeQ
namespace JanetModel.Int64.Ieee
open JanetModel.Int64

/-! ## integers up to 2^53 are binary64 values -/

theorem lt_two1024_of_le_two55 (v : ℚ) (h : v ≤ 36028797018963968) : v < 2 ^ (1024 : ℤ) := by
  have h1 : (2 : ℚ) ^ (55 : ℤ) < 2 ^ (1024 : ℤ) := zpow_lt_zpow_right₀ (by norm_num) (by norm_num)
  have h2 : (36028797018963968 : ℚ) = 2 ^ (55 : ℤ) := by norm_num
  rw [h2] at h
  exact lt_of_le_of_lt h h1

theorem rneQ_nat_le_two53 (n : Nat) (hn : n ≤ 9007199254740992) : rneQ (n : ℚ) = n := by
  rcases Nat.eq_zero_or_pos n with h0 | hpos
  · subst h0; simpa using rneQ_zero
  rcases Nat.lt_or_ge n 9007199254740992 with hlt | hge
  · have := rneQ_fixes_pos n 0 hpos hlt (by norm_num)
    simpa using this
  · have hn' : n = 9007199254740992 := le_antisymm hn hge
    subst hn'
    have := rneQ_fixes_pos 4503599627370496 1 (by norm_num) (by norm_num) (by norm_num)
    have e : ((4503599627370496 : Nat) : ℚ) * 2 ^ (1 : ℤ) = ((9007199254740992 : Nat) : ℚ) := by norm_num
    rw [e] at this
    exact this

theorem rneQ_int_le_two53 (n : ℤ) (hn : |n| ≤ 9007199254740992) : rneQ (n : ℚ) = n := by
  rcases le_or_gt 0 n with h | h
  · obtain ⟨k, rfl⟩ := Int.eq_ofNat_of_zero_le h
    rw [abs_of_nonneg h] at hn
    have := rneQ_nat_le_two53 k (by exact_mod_cast hn)
    exact_mod_cast this
  · obtain ⟨k, hk⟩ := Int.eq_ofNat_of_zero_le (show 0 ≤ -n by omega)
    have hn' : n = -(k : ℤ) := by omega
    subst hn'
    rw [abs_neg, abs_of_nonneg (by omega)] at hn
    have hk0 : (0 : ℚ) < (k : ℚ) := by
      have : (0 : ℤ) < (k : ℤ) := by omega
      exact_mod_cast this
    have := rneQ_nat_le_two53 k (by exact_mod_cast hn)
    push_cast
    rw [rneQ_neg_of_pos _ hk0, this]

/-- an integer of magnitude ≤ 2^53 is `± m · 2^e` with m < 2^53, e ≥ -1074 -/
theorem int_is_format_value (z : ℤ) (hz : |z| ≤ 9007199254740992) :
    ∃ (n : Bool) (m : Nat) (e : ℤ), m < 9007199254740992 ∧ -1074 ≤ e ∧ (z : ℚ) = sgnQ n * ((m : ℚ) * 2 ^ e) := by
  have key : ∀ k : Nat, k ≤ 9007199254740992 → ∃ (m : Nat) (e : ℤ), m < 9007199254740992 ∧ -1074 ≤ e ∧ (k : ℚ) = (m : ℚ) * 2 ^ e := by
    intro k hk
    rcases Nat.lt_or_ge k 9007199254740992 with hlt | hge
    · exact ⟨k, 0, hlt, by norm_num, by simp⟩
    · have : k = 9007199254740992 := le_antisymm hk hge
      subst this
      exact ⟨4503599627370496, 1, by norm_num, by norm_num, by norm_num⟩
  rcases le_or_gt 0 z with h | h
  · obtain ⟨k, rfl⟩ := Int.eq_ofNat_of_zero_le h
    rw [abs_of_nonneg h] at hz
    obtain ⟨m, e, h1, h2, h3⟩ := key k (by exact_mod_cast hz)
    exact ⟨false, m, e, h1, h2, by simp only [sgnQ, Bool.false_eq_true, if_false, one_mul]; exact_mod_cast h3⟩
  · obtain ⟨k, hk⟩ := Int.eq_ofNat_of_zero_le (show 0 ≤ -z by omega)
    have hz' : z = -(k : ℤ) := by omega
    subst hz'
    rw [abs_neg, abs_of_nonneg (by omega)] at hz
    obtain ⟨m, e, h1, h2, h3⟩ := key k (by exact_mod_cast hz)
    refine ⟨true, m, e, h1, h2, ?_⟩
    simp only [sgnQ, if_true, neg_one_mul]
    push_cast
    rw [h3]

/-- no closer value: the rounding of x is at least as close to x as any integer of magnitude ≤ 2^53 -/
theorem rneQ_nearer_than_int (x : ℚ) (z : ℤ) (hz : |z| ≤ 9007199254740992) : |rneQ x - x| ≤ |(z : ℚ) - x| := by
  obtain ⟨n, m, e, h1, h2, h3⟩ := int_is_format_value z hz
  rw [h3]
  exact rneQ_nearest x n m e h1 h2

/-! ## the quotient of two integers ≤ 2^53 never rounds up to the next integer -/

/-- ★ for integers p, q with |p|, |q| ≤ 2^53, q ≠ 0: **⌊RN(p / q)⌋ = ⌊p / q⌋**.
    (p/q = n + r/|q| with 1 ≤ r < |q|: the distance to n + 1 is at least 1/|q| ≥ |p/q| · 2^-53, which is at least half an
    ulp of p/q, with equality only when p/q is a power of two — an integer.) -/
theorem floor_rneQ_ratio (p q : ℤ) (hp : |p| ≤ 9007199254740992) (hq0 : q ≠ 0) (hq : |q| ≤ 9007199254740992) :
    ⌊rneQ ((p : ℚ) / q)⌋ = ⌊(p : ℚ) / q⌋ := by
  have T : (9007199254740992 : ℚ) = 2 ^ (53 : ℤ) := by norm_num
  -- Q = |q| ≥ 1, P = |p|
  have hQ1 : (1 : ℚ) ≤ |(q : ℚ)| := by
    have : (1 : ℤ) ≤ |q| := Int.one_le_abs hq0
    exact_mod_cast this
  have hQpos : (0 : ℚ) < |(q : ℚ)| := lt_of_lt_of_le one_pos hQ1
  have hQ53 : |(q : ℚ)| ≤ 9007199254740992 := by exact_mod_cast hq
  have hP53 : |(p : ℚ)| ≤ 9007199254740992 := by exact_mod_cast hp
  set x : ℚ := (p : ℚ) / q with hx
  have habsx : |x| = |(p : ℚ)| / |(q : ℚ)| := by rw [hx, abs_div]
  have hxle : |x| ≤ 9007199254740992 := by
    rw [habsx, div_le_iff₀ hQpos]
    calc |(p : ℚ)| ≤ 9007199254740992 := hP53
      _ = 9007199254740992 * 1 := by ring
      _ ≤ 9007199254740992 * |(q : ℚ)| := by apply mul_le_mul_of_nonneg_left hQ1; norm_num
  set n : ℤ := ⌊x⌋ with hn
  have hfl1 : (n : ℚ) ≤ x := Int.floor_le x
  have hfl2 : x < (n : ℚ) + 1 := Int.lt_floor_add_one x
  have hxb := abs_le.1 hxle
  have hnlo : -9007199254740992 ≤ n := by
    have : ((-9007199254740992 : ℤ) : ℚ) ≤ x := by push_cast; exact hxb.1
    exact Int.le_floor.2 this
  have hnhi : n ≤ 9007199254740992 := by
    have : (n : ℚ) ≤ ((9007199254740992 : ℤ) : ℚ) := by push_cast; linarith
    exact_mod_cast this
  rcases eq_or_lt_of_le hfl1 with heq | hlt
  · -- x is the integer n
    rw [← heq, rneQ_int_le_two53 n (abs_le.2 ⟨by omega, hnhi⟩)]
    exact Int.floor_intCast n
  -- n < x < n + 1
  have hn1hi : n + 1 ≤ 9007199254740992 := by
    have : (n : ℚ) < ((9007199254740992 : ℤ) : ℚ) := by push_cast; linarith
    have : n < 9007199254740992 := by exact_mod_cast this
    omega
  have hnear0 := rneQ_nearer_than_int x n (abs_le.2 ⟨by omega, hnhi⟩)
  have hnear1 := rneQ_nearer_than_int x (n + 1) (abs_le.2 ⟨by omega, hn1hi⟩)
  push_cast at hnear1
  rw [abs_of_neg (by linarith : (n : ℚ) - x < 0)] at hnear0
  rw [abs_of_pos (by linarith : (0 : ℚ) < (n : ℚ) + 1 - x)] at hnear1
  have hlo : (n : ℚ) ≤ rneQ x := by have := (abs_le.1 hnear0).1; linarith
  have hhi : rneQ x ≤ (n : ℚ) + 1 := by have := (abs_le.1 hnear1).2; linarith
  rw [Int.floor_eq_iff]
  refine ⟨hlo, lt_of_le_of_ne hhi ?_⟩
  intro hr
  -- the rounding went all the way up to n + 1: the distance d = n + 1 - x is at most half an ulp
  have hhalf := rneQ_half_ulp x
  rw [hr, abs_of_pos (by linarith : (0 : ℚ) < (n : ℚ) + 1 - x)] at hhalf
  -- ... and at least 1 / |q|
  have hqq : (q : ℚ) ≠ 0 := by exact_mod_cast hq0
  have hd : (1 : ℚ) / |(q : ℚ)| ≤ (n : ℚ) + 1 - x := by
    have e : (n : ℚ) + 1 - x = (((n + 1) * q - p : ℤ) : ℚ) / q := by
      rw [hx]; push_cast; field_simp
    have hne : (n + 1) * q - p ≠ 0 := by
      intro h0
      rw [h0] at e
      simp at e
      linarith
    have h1 : (1 : ℚ) ≤ |(((n + 1) * q - p : ℤ) : ℚ)| := by
      have : (1 : ℤ) ≤ |(n + 1) * q - p| := Int.one_le_abs hne
      exact_mod_cast this
    have : |(n : ℚ) + 1 - x| = |(((n + 1) * q - p : ℤ) : ℚ)| / |(q : ℚ)| := by rw [e, abs_div]
    rw [abs_of_pos (by linarith : (0 : ℚ) < (n : ℚ) + 1 - x)] at this
    rw [this]
    exact div_le_div_of_nonneg_right h1 hQpos.le
  have hxne : x ≠ 0 := by
    intro h0
    have : n = 0 := by rw [hn, h0]; simp
    rw [this, h0] at hlt
    simp at hlt
  have hxpos : 0 < |x| := abs_pos.2 hxne
  have hlog : (2 : ℚ) ^ Int.log 2 |x| ≤ |x| := Int.zpow_log_le_self (by norm_num) hxpos
  have hQinv : (1 : ℚ) / 9007199254740992 ≤ 1 / |(q : ℚ)| := one_div_le_one_div_of_le hQpos hQ53
  unfold cexp at hhalf
  rcases le_total (Int.log 2 |x| - 52) (-1074) with hc | hc
  · -- subnormal quantum: impossible, 1/|q| ≥ 2^-53
    rw [max_eq_right hc] at hhalf
    have : (2 : ℚ) ^ (-1074 : ℤ) / 2 < 1 / 9007199254740992 := by
      have h1 : (2 : ℚ) ^ (-1074 : ℤ) ≤ 2 ^ (-54 : ℤ) := zpow2_mono (by norm_num)
      have h2 : (2 : ℚ) ^ (-54 : ℤ) / 2 < 1 / 9007199254740992 := by rw [zpow_neg]; norm_num
      exact lt_of_le_of_lt (div_le_div_of_nonneg_right h1 (by norm_num)) h2
    linarith
  · rw [max_eq_left hc] at hhalf
    set L : ℤ := Int.log 2 |x| with hL
    have hsplit : (2 : ℚ) ^ (L - 52) / 2 = 2 ^ L / 9007199254740992 := by
      rw [T, show L - 52 = L + (-53) + 1 by ring, zpow_add₀ (by norm_num : (2 : ℚ) ≠ 0), zpow_add₀ (by norm_num : (2 : ℚ) ≠ 0), zpow_neg]
      field_simp
    rw [hsplit] at hhalf
    -- 1/Q ≤ d ≤ 2^L / 2^53 ≤ |x| / 2^53 = P / (Q 2^53)
    have hchain : (1 : ℚ) / |(q : ℚ)| ≤ 2 ^ L / 9007199254740992 := le_trans hd hhalf
    have hPQ : |(q : ℚ)| * 2 ^ L ≤ |(p : ℚ)| := by
      have := mul_le_mul_of_nonneg_left hlog hQpos.le
      rw [habsx, mul_div_cancel₀ _ hQpos.ne'] at this
      exact this
    have h253 : (9007199254740992 : ℚ) ≤ |(q : ℚ)| * 2 ^ L := by
      rw [div_le_div_iff₀ hQpos (by norm_num : (0 : ℚ) < 9007199254740992)] at hchain
      linarith
    -- so |q| * 2^L = 2^53 = |p|, and 2^L = |x|
    have hPeq : |(q : ℚ)| * 2 ^ L = 9007199254740992 := le_antisymm (le_trans hPQ hP53) h253
    have hL0 : 0 ≤ L := by
      by_contra hneg
      have hL1 : L ≤ -1 := by omega
      have h2 : (2 : ℚ) ^ L ≤ 2 ^ (-1 : ℤ) := zpow2_mono hL1
      have h3 : |(q : ℚ)| * 2 ^ L ≤ 9007199254740992 * 2 ^ (-1 : ℤ) :=
        mul_le_mul hQ53 h2 (two_zpow_pos L).le (by norm_num)
      rw [hPeq] at h3
      norm_num at h3
    have hxeq : |x| = 2 ^ L := by
      have hPe : |(p : ℚ)| = 9007199254740992 := le_antisymm hP53 (le_trans h253 hPQ)
      rw [habsx, hPe, ← hPeq, mul_div_cancel_left₀ _ hQpos.ne']
    obtain ⟨j, hj⟩ := Int.eq_ofNat_of_zero_le hL0
    rw [hj, zpow_natCast] at hxeq
    -- x = ± 2^j is an integer, contradiction with n < x
    have hxint : x = ((2 ^ j : ℤ) : ℚ) ∨ x = ((-(2 ^ j) : ℤ) : ℚ) := by
      rcases abs_eq (by positivity : (0 : ℚ) ≤ 2 ^ j) |>.1 hxeq with h | h
      · left; rw [h]; push_cast; rfl
      · right; rw [h]; push_cast; rfl
    rcases hxint with h | h
    · have : n = 2 ^ j := by rw [hn, h]; exact Int.floor_intCast _
      rw [h, this] at hlt; exact lt_irrefl _ hlt
    · have : n = -(2 ^ j) := by rw [hn, h]; exact Int.floor_intCast _
      rw [h, this] at hlt; exact lt_irrefl _ hlt

/-! ## integer-valued bit patterns -/

/-- the bit pattern is a finite double whose value is the integer `x` -/
def IntVal (a : Nat) (x : ℤ) : Prop := FinBits a ∧ valQ a = (x : ℚ)

/-- `Dbl.toInt?` (what the range checks of the C use) gives exactly the value -/
theorem intVal_of_toInt (a : Nat) (z : ℤ) (h : (decode a).toInt? = some z) : IntVal a z := by
  cases hd : decode a with
  | nan => rw [hd] at h; simp [Dbl.toInt?] at h
  | inf s => rw [hd] at h; simp [Dbl.toInt?] at h
  | fin neg m e =>
    rw [hd] at h
    refine ⟨⟨neg, m, e, hd⟩, ?_⟩
    unfold valQ; rw [hd]
    simp only [Dbl.toInt?] at h
    simp only [Dbl.toRat]
    by_cases he : 0 ≤ e
    · rw [if_pos he] at h
      injection h with h
      obtain ⟨k, rfl⟩ := Int.eq_ofNat_of_zero_le he
      rw [← h, Int.toNat_natCast, zpow_natCast]; push_cast; rfl
    · rw [if_neg he] at h
      obtain ⟨k, hk⟩ := Int.eq_ofNat_of_zero_le (show 0 ≤ -e by omega)
      have he' : e = -(k : ℤ) := by omega
      subst he'
      simp only [neg_neg, Int.toNat_natCast] at h
      by_cases hm : m % 2 ^ k = 0
      · rw [if_pos hm] at h
        injection h with h
        have hmul : m = m / 2 ^ k * 2 ^ k := by
          have := Nat.div_add_mod m (2 ^ k); rw [hm] at this; rw [Nat.mul_comm]; omega
        have hp : (0 : ℚ) < 2 ^ k := by positivity
        rw [← h, zpow_neg, zpow_natCast, smant_eq, smant_eq]
        rw [show (m : ℚ) = ((m / 2 ^ k : Nat) : ℚ) * 2 ^ k by exact_mod_cast congrArg (Nat.cast (R := ℚ)) hmul]
        field_simp
      · rw [if_neg hm] at h; exact absurd h (by simp)

theorem intVal_encodeInt (z : ℤ) (hz : |z| ≤ 9007199254740992) : IntVal (encodeInt z) z :=
  intVal_of_toInt _ z (decode_encodeInt z (by have := abs_le.1 hz; simp only [two53]; omega))

theorem repr64_int (z : ℤ) (hz : |z| ≤ 9007199254740992) : Repr64 (z : ℚ) := by
  refine ⟨rneQ_int_le_two53 z hz, ?_⟩
  have h1 : |(z : ℚ)| ≤ 9007199254740992 := by exact_mod_cast hz
  exact lt_two1024_of_le_two55 _ (le_trans h1 (by norm_num))

theorem isZeroBits_of_intVal (b : Nat) (y : ℤ) (hb : IntVal b y) (hy : y ≠ 0) : isZeroBits b = false := by
  obtain ⟨⟨n, m, e, hd⟩, hv⟩ := hb
  cases hz : isZeroBits b with
  | false => rfl
  | true =>
    exfalso
    unfold isZeroBits at hz
    rw [hd] at hz
    have hm : m = 0 := by
      cases m with
      | zero => rfl
      | succ k => simp at hz
    rw [valQ_of_decode b n m e hd, hm] at hv
    simp at hv
    exact hy (by exact_mod_cast hv.symm)

/-! ## exact operations -/

theorem add_exact_of_repr (a b : Nat) (ha : FinBits a) (hb : FinBits b) (r : Repr64 (valQ a + valQ b)) :
    FinBits (ieee.add a b) ∧ valQ (ieee.add a b) = valQ a + valQ b := by
  obtain ⟨n1, m1, e1, h1⟩ := ha
  obtain ⟨n2, m2, e2, h2⟩ := hb
  have := (add_correct a b n1 n2 m1 m2 e1 e2 h1 h2).1 (by rw [r.1]; exact r.2)
  rw [r.1] at this; exact this

theorem sub_exact_of_repr (a b : Nat) (ha : FinBits a) (hb : FinBits b) (r : Repr64 (valQ a - valQ b)) :
    FinBits (ieee.sub a b) ∧ valQ (ieee.sub a b) = valQ a - valQ b := by
  obtain ⟨n1, m1, e1, h1⟩ := ha
  obtain ⟨n2, m2, e2, h2⟩ := hb
  have := (sub_correct a b n1 n2 m1 m2 e1 e2 h1 h2).1 (by rw [r.1]; exact r.2)
  rw [r.1] at this; exact this

theorem mul_exact_of_repr (a b : Nat) (ha : FinBits a) (hb : FinBits b) (r : Repr64 (valQ a * valQ b)) :
    FinBits (ieee.mul a b) ∧ valQ (ieee.mul a b) = valQ a * valQ b := by
  obtain ⟨n1, m1, e1, h1⟩ := ha
  obtain ⟨n2, m2, e2, h2⟩ := hb
  have := (mul_correct a b n1 n2 m1 m2 e1 e2 h1 h2).1 (by rw [r.1]; exact r.2)
  rw [r.1] at this; exact this

/-- ★ `+ - *` of two integer-valued doubles whose exact result is an integer of magnitude ≤ 2^53: that integer -/
theorem num_arith_int (a b : Nat) (x y : ℤ) (ha : IntVal a x) (hb : IntVal b y) :
    (|x + y| ≤ 9007199254740992 → IntVal (ieee.add a b) (x + y)) ∧
    (|x - y| ≤ 9007199254740992 → IntVal (ieee.sub a b) (x - y)) ∧
    (|x * y| ≤ 9007199254740992 → IntVal (ieee.mul a b) (x * y)) := by
  refine ⟨fun h => ?_, fun h => ?_, fun h => ?_⟩
  · have := add_exact_of_repr a b ha.1 hb.1 (by rw [ha.2, hb.2]; exact_mod_cast repr64_int _ h)
    exact ⟨this.1, by rw [this.2, ha.2, hb.2]; push_cast; rfl⟩
  · have := sub_exact_of_repr a b ha.1 hb.1 (by rw [ha.2, hb.2]; exact_mod_cast repr64_int _ h)
    exact ⟨this.1, by rw [this.2, ha.2, hb.2]; push_cast; rfl⟩
  · have := mul_exact_of_repr a b ha.1 hb.1 (by rw [ha.2, hb.2]; exact_mod_cast repr64_int _ h)
    exact ⟨this.1, by rw [this.2, ha.2, hb.2]; push_cast; rfl⟩

/-! ## floor of an integer quotient is `Int.fdiv`, its truncation `Int.tdiv` -/

theorem floor_int_div (x y : ℤ) (hy : y ≠ 0) : ⌊(x : ℚ) / y⌋ = Int.fdiv x y := by
  rcases lt_or_gt_of_ne hy with hneg | hpos
  · obtain ⟨k, hk⟩ := Int.eq_ofNat_of_zero_le (show 0 ≤ -y by omega)
    have e : (x : ℚ) / y = ((-x : ℤ) : ℚ) / ((k : ℕ) : ℚ) := by
      have : (y : ℚ) = -((k : ℕ) : ℚ) := by
        have : y = -(k : ℤ) := by omega
        rw [this]; push_cast; rfl
      rw [this]; push_cast; rw [div_neg, neg_div]
    rw [e, Rat.floor_intCast_div_natCast, ← Int.neg_fdiv_neg, Int.fdiv_eq_ediv_of_nonneg _ (by omega), hk]
  · obtain ⟨k, hk⟩ := Int.eq_ofNat_of_zero_le (show 0 ≤ y by omega)
    rw [hk]
    have := Rat.floor_intCast_div_natCast x k
    rw [Int.fdiv_eq_ediv_of_nonneg _ (by omega)]
    exact_mod_cast this

theorem truncQ_int_div (x y : ℤ) (hy : y ≠ 0) : truncQ ((x : ℚ) / y) = Int.tdiv x y := by
  -- signs out, magnitudes as naturals
  have hx' : (x : ℚ) = sgnQ (decide (x < 0)) * (x.natAbs : ℚ) := by
    by_cases h : x < 0
    · simp only [h, decide_true, sgnQ, if_true]
      have : (x.natAbs : ℤ) = -x := by omega
      have : ((x.natAbs : ℤ) : ℚ) = -(x : ℚ) := by rw [this]; push_cast; rfl
      rw [Int.cast_natCast] at this
      rw [this]; ring
    · simp only [h, decide_false, sgnQ, Bool.false_eq_true, if_false, one_mul]
      have : (x.natAbs : ℤ) = x := by omega
      have : ((x.natAbs : ℤ) : ℚ) = (x : ℚ) := by rw [this]
      rw [Int.cast_natCast] at this
      exact this.symm
  have hy' : (y : ℚ) = sgnQ (decide (y < 0)) * (y.natAbs : ℚ) := by
    by_cases h : y < 0
    · simp only [h, decide_true, sgnQ, if_true]
      have : (y.natAbs : ℤ) = -y := by omega
      have : ((y.natAbs : ℤ) : ℚ) = -(y : ℚ) := by rw [this]; push_cast; rfl
      rw [Int.cast_natCast] at this
      rw [this]; ring
    · simp only [h, decide_false, sgnQ, Bool.false_eq_true, if_false, one_mul]
      have : (y.natAbs : ℤ) = y := by omega
      have : ((y.natAbs : ℤ) : ℚ) = (y : ℚ) := by rw [this]
      rw [Int.cast_natCast] at this
      exact this.symm
  have hY : 0 < y.natAbs := Int.natAbs_pos.2 hy
  rw [hx', hy', truncQ_signed _ _ _ _ hY]
  -- Int.tdiv by signs
  have key : Int.tdiv x y = (if (decide (x < 0) != decide (y < 0)) then -((x.natAbs / y.natAbs : Nat) : ℤ) else ((x.natAbs / y.natAbs : Nat) : ℤ)) := by
    have hxn : x < 0 → x = -(x.natAbs : ℤ) := fun h => by omega
    have hxp : ¬ x < 0 → x = (x.natAbs : ℤ) := fun h => by omega
    have hyn : y < 0 → y = -(y.natAbs : ℤ) := fun h => by omega
    have hyp : ¬ y < 0 → y = (y.natAbs : ℤ) := fun h => by omega
    by_cases h1 : x < 0 <;> by_cases h2 : y < 0 <;> simp only [h1, h2, decide_true, decide_false]
    · rw [if_neg (by decide)]
      conv_lhs => rw [hxn h1, hyn h2]
      rw [Int.neg_tdiv_neg, Int.ofNat_tdiv]
    · rw [if_pos (by decide)]
      conv_lhs => rw [hxn h1, hyp h2]
      rw [Int.neg_tdiv, Int.ofNat_tdiv]
    · rw [if_pos (by decide)]
      conv_lhs => rw [hxp h1, hyn h2]
      rw [Int.tdiv_neg, Int.ofNat_tdiv]
    · rw [if_neg (by decide)]
      conv_lhs => rw [hxp h1, hyp h2]
      rw [Int.ofNat_tdiv]
  rw [key]

/-! ## the handlers on integer-valued doubles -/

/-- ★ `(div a b)` on integer-valued doubles a = x, b = y ≠ 0 with |x|, |y| ≤ 2^53: **exactly ⌊x / y⌋ = `Int.fdiv x y`** —
    although the quotient x / y is in general not a double and is rounded before `floor` is applied -/
theorem num_div_int (a b : Nat) (x y : ℤ) (ha : IntVal a x) (hb : IntVal b y)
    (hx : |x| ≤ 9007199254740992) (hy : |y| ≤ 9007199254740992) (hy0 : y ≠ 0) :
    IntVal (numDivFloor ieee a b) (Int.fdiv x y) := by
  have hz := isZeroBits_of_intVal b y hb hy0
  have hfl := floor_rneQ_ratio x y hx hy0 hy
  have hfin : |rneQ (valQ a / valQ b)| < 2 ^ (1024 : ℤ) := by
    rw [ha.2, hb.2]
    -- ⌊x/y⌋ ≤ rneQ (x/y) ≤ ⌊x/y⌋ + 1 is more than needed: compare with the format value 0
    have h0 := rneQ_nearer_than_int ((x : ℚ) / y) 0 (by norm_num)
    simp only [Int.cast_zero, zero_sub, abs_neg] at h0
    have hq1 : (1 : ℚ) ≤ |(y : ℚ)| := by
      have : (1 : ℤ) ≤ |y| := Int.one_le_abs hy0
      exact_mod_cast this
    have hxq : |(x : ℚ)| ≤ 9007199254740992 := by exact_mod_cast hx
    have hle : |(x : ℚ) / y| ≤ 9007199254740992 := by
      rw [abs_div, div_le_iff₀ (lt_of_lt_of_le one_pos hq1)]
      calc |(x : ℚ)| ≤ 9007199254740992 := hxq
        _ = 9007199254740992 * 1 := by ring
        _ ≤ 9007199254740992 * |(y : ℚ)| := by apply mul_le_mul_of_nonneg_left hq1; norm_num
    have htri : |rneQ ((x : ℚ) / y)| ≤ |rneQ ((x : ℚ) / y) - (x : ℚ) / y| + |(x : ℚ) / y| := by
      have := abs_add_le (rneQ ((x : ℚ) / y) - (x : ℚ) / y) ((x : ℚ) / y)
      simpa using this
    exact lt_two1024_of_le_two55 _ (by linarith)
  obtain ⟨_, _, f1, f2⟩ := ieee_num_div a b ha.1 hb.1 hz hfin
  refine ⟨f1, ?_⟩
  rw [f2, ha.2, hb.2, hfl, floor_int_div x y hy0]

/-- ★ `(mod a b)` on integer-valued doubles, |x|, |y| ≤ 2^53, y ≠ 0, when the product y·⌊x/y⌋ (= x − (x mod y)) does not
    exceed 2^53 in magnitude: **exactly `Int.fmod x y`** (sign of the divisor).  The side condition holds whenever x and y
    have the same sign, or |x| + |y| ≤ 2^53; without it the product may round (`num_mod_int_rounds_witness`). -/
theorem num_mod_int (a b : Nat) (x y : ℤ) (ha : IntVal a x) (hb : IntVal b y)
    (hx : |x| ≤ 9007199254740992) (hy : |y| ≤ 9007199254740992) (hy0 : y ≠ 0)
    (hprod : |y * Int.fdiv x y| ≤ 9007199254740992) :
    IntVal (numModulo ieee a b) (Int.fmod x y) := by
  have hz := isZeroBits_of_intVal b y hb hy0
  obtain ⟨f1, f2⟩ := num_div_int a b x y ha hb hx hy hy0
  have hfl : numDivFloor ieee a b = ieee.floor (ieee.div a b) := rfl
  rw [hfl] at f1 f2
  have hnm : numModulo ieee a b = ieee.sub a (ieee.mul b (ieee.floor (ieee.div a b))) := by
    unfold numModulo; rw [if_neg (by simp [hz])]
  obtain ⟨p1, p2⟩ := mul_exact_of_repr b (ieee.floor (ieee.div a b)) hb.1 f1 (by
    rw [hb.2, f2]; exact_mod_cast repr64_int _ hprod)
  rw [hb.2, f2] at p2
  -- the remainder is bounded by the divisor
  have hr : Int.fmod x y = x - y * Int.fdiv x y := Int.fmod_def x y
  have hrb : |Int.fmod x y| ≤ 9007199254740992 := by
    have hq := floor_int_div x y hy0
    have h1 := Int.floor_le ((x : ℚ) / y)
    have h2 := Int.lt_floor_add_one ((x : ℚ) / y)
    rw [hq] at h1 h2
    have hyq : (y : ℚ) ≠ 0 := by exact_mod_cast hy0
    have e : (x : ℚ) = (y : ℚ) * ((x : ℚ) / y) := by field_simp
    have hrq : ((Int.fmod x y : ℤ) : ℚ) = (y : ℚ) * ((x : ℚ) / y - (Int.fdiv x y : ℤ)) := by
      rw [hr]; push_cast; rw [mul_sub, ← e]
    have hyb := abs_le.1 hy
    rcases lt_or_gt_of_ne hy0 with hneg | hpos
    · have hyn : (y : ℚ) < 0 := by exact_mod_cast hneg
      have b1 : ((Int.fmod x y : ℤ) : ℚ) ≤ 0 := by rw [hrq]; exact mul_nonpos_of_nonpos_of_nonneg hyn.le (by linarith)
      have b2 : (y : ℚ) < ((Int.fmod x y : ℤ) : ℚ) := by rw [hrq]; nlinarith
      have b1' : Int.fmod x y ≤ 0 := by exact_mod_cast b1
      have b2' : y < Int.fmod x y := by exact_mod_cast b2
      rw [abs_le]; constructor <;> omega
    · have hyp : (0 : ℚ) < y := by exact_mod_cast hpos
      have b1 : 0 ≤ ((Int.fmod x y : ℤ) : ℚ) := by rw [hrq]; exact mul_nonneg hyp.le (by linarith)
      have b2 : ((Int.fmod x y : ℤ) : ℚ) < y := by rw [hrq]; nlinarith
      have b1' : 0 ≤ Int.fmod x y := by exact_mod_cast b1
      have b2' : Int.fmod x y < y := by exact_mod_cast b2
      rw [abs_le]; constructor <;> omega
  have hsubval : valQ a - valQ (ieee.mul b (ieee.floor (ieee.div a b))) = ((Int.fmod x y : ℤ) : ℚ) := by
    rw [ha.2, p2, hr]; push_cast; rfl
  obtain ⟨s1, s2⟩ := sub_exact_of_repr a (ieee.mul b (ieee.floor (ieee.div a b))) ha.1 p1 (by
    rw [hsubval]; exact repr64_int _ hrb)
  rw [hnm]
  exact ⟨s1, by rw [s2, hsubval]⟩

/-- ★ `(% a b)` on integer-valued doubles of **any** magnitude, y ≠ 0: exactly `Int.tmod x y` (C remainder, sign of the dividend) -/
theorem num_rem_int (a b : Nat) (x y : ℤ) (ha : IntVal a x) (hb : IntVal b y) (hy0 : y ≠ 0) :
    IntVal (numRemainder ieee a b) (Int.tmod x y) := by
  obtain ⟨⟨nx, mx, ex, hda⟩, hva⟩ := ha
  obtain ⟨⟨ny, my, ey, hdb⟩, hvb⟩ := hb
  have hz := isZeroBits_of_intVal b y ⟨⟨ny, my, ey, hdb⟩, hvb⟩ hy0
  have hmy := nonzero_of_isZeroBits b ny my ey hdb hz
  obtain ⟨g1, g2⟩ := fmod_exact a b nx ny mx my ex ey hda hdb hmy
  refine ⟨g1, ?_⟩
  show valQ (fmod a b) = _
  rw [g2, hva, hvb, truncQ_int_div x y hy0, Int.tmod_def]
  push_cast; rfl

/-! ## side condition of `mod`, no-overflow exactness of the s64 methods -/

theorem fmod_bounds (x y : ℤ) (hy0 : y ≠ 0) :
    (0 < y → 0 ≤ Int.fmod x y ∧ Int.fmod x y < y) ∧ (y < 0 → y < Int.fmod x y ∧ Int.fmod x y ≤ 0) := by
  have hr : Int.fmod x y = x - y * Int.fdiv x y := Int.fmod_def x y
  have hq := floor_int_div x y hy0
  have h1 := Int.floor_le ((x : ℚ) / y)
  have h2 := Int.lt_floor_add_one ((x : ℚ) / y)
  rw [hq] at h1 h2
  have hyq : (y : ℚ) ≠ 0 := by exact_mod_cast hy0
  have e : (x : ℚ) = (y : ℚ) * ((x : ℚ) / y) := by field_simp
  have hrq : ((Int.fmod x y : ℤ) : ℚ) = (y : ℚ) * ((x : ℚ) / y - (Int.fdiv x y : ℤ)) := by
    rw [hr]; push_cast; rw [mul_sub, ← e]
  refine ⟨fun hpos => ?_, fun hneg => ?_⟩
  · have hyp : (0 : ℚ) < y := by exact_mod_cast hpos
    have b1 : 0 ≤ ((Int.fmod x y : ℤ) : ℚ) := by rw [hrq]; exact mul_nonneg hyp.le (by linarith)
    have b2 : ((Int.fmod x y : ℤ) : ℚ) < y := by rw [hrq]; nlinarith
    exact ⟨by exact_mod_cast b1, by exact_mod_cast b2⟩
  · have hyn : (y : ℚ) < 0 := by exact_mod_cast hneg
    have b1 : ((Int.fmod x y : ℤ) : ℚ) ≤ 0 := by rw [hrq]; exact mul_nonpos_of_nonpos_of_nonneg hyn.le (by linarith)
    have b2 : (y : ℚ) < ((Int.fmod x y : ℤ) : ℚ) := by rw [hrq]; nlinarith
    exact ⟨by exact_mod_cast b2, by exact_mod_cast b1⟩

theorem mod_product_bound (x y : ℤ) (hx : |x| ≤ 9007199254740992) (hy0 : y ≠ 0)
    (h : (0 ≤ x ∧ 0 < y) ∨ (x ≤ 0 ∧ y < 0) ∨ |x| + |y| ≤ 9007199254740992) : |y * Int.fdiv x y| ≤ 9007199254740992 := by
  have hr : Int.fmod x y = x - y * Int.fdiv x y := Int.fmod_def x y
  obtain ⟨bp, bn⟩ := fmod_bounds x y hy0
  have hxb := abs_le.1 hx
  have hq := floor_int_div x y hy0
  rcases h with ⟨h1, h2⟩ | ⟨h1, h2⟩ | h
  · have hq0 : 0 ≤ Int.fdiv x y := by
      rw [← hq]; apply Int.floor_nonneg.2
      exact div_nonneg (by exact_mod_cast h1) (by exact_mod_cast h2.le)
    have hP : 0 ≤ y * Int.fdiv x y := Int.mul_nonneg h2.le hq0
    obtain ⟨b1, b2⟩ := bp h2
    generalize y * Int.fdiv x y = P at *
    rw [abs_le]; constructor <;> omega
  · have hq0 : 0 ≤ Int.fdiv x y := by
      rw [← hq]; apply Int.floor_nonneg.2
      exact div_nonneg_of_nonpos (by exact_mod_cast h1) (by exact_mod_cast h2.le)
    have hP : y * Int.fdiv x y ≤ 0 := Int.mul_nonpos_of_nonpos_of_nonneg h2.le hq0
    obtain ⟨b1, b2⟩ := bn h2
    generalize y * Int.fdiv x y = P at *
    rw [abs_le]; constructor <;> omega
  · rcases lt_or_gt_of_ne hy0 with hneg | hpos
    · obtain ⟨b1, b2⟩ := bn hneg
      rw [abs_of_neg hneg] at h
      generalize y * Int.fdiv x y = P at *
      rw [abs_le]; rcases abs_cases x with ⟨e, _⟩ | ⟨e, _⟩ <;> rw [e] at h <;> constructor <;> omega
    · obtain ⟨b1, b2⟩ := bp hpos
      rw [abs_of_pos hpos] at h
      generalize y * Int.fdiv x y = P at *
      rw [abs_le]; rcases abs_cases x with ⟨e, _⟩ | ⟨e, _⟩ <;> rw [e] at h <;> constructor <;> omega

theorem wrapS_congr {u v : ℤ} (h : u % two64 = v % two64) : wrapS u = wrapS v := by
  unfold wrapS; rw [h]

/-- the s64 `+ - *` methods return the exact integer result whenever it is an int64 (no overflow ⇒ no wrap) -/
theorem s64_op_exact_of_inRange (x y : ℤ) :
    (Kind.s64.inRange (x + y) → opMethod .s64 "+" x y = .ok (x + y)) ∧
    (Kind.s64.inRange (x - y) → opMethod .s64 "-" x y = .ok (x - y)) ∧
    (Kind.s64.inRange (x * y) → opMethod .s64 "*" x y = .ok (x * y)) := by
  refine ⟨fun h => ?_, fun h => ?_, fun h => ?_⟩
  · show Res.ok (wrapS (wrapU x + wrapU y)) = _
    rw [wrapS_congr (v := x + y) (by unfold wrapU; rw [← Int.add_emod]), show wrapS _ = _ from wrap_of_inRange .s64 _ h]
  · show Res.ok (wrapS (wrapU x - wrapU y)) = _
    rw [wrapS_congr (v := x - y) (by unfold wrapU; rw [← Int.sub_emod]), show wrapS _ = _ from wrap_of_inRange .s64 _ h]
  · show Res.ok (wrapS (wrapU x * wrapU y)) = _
    rw [wrapS_congr (v := x * y) (by unfold wrapU; rw [← Int.mul_emod]), show wrapS _ = _ from wrap_of_inRange .s64 _ h]

end JanetModel.Int64.Ieee
