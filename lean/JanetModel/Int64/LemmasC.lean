/- C14 — boot.janet's polymorphic `compare` orders numbers, int/s64 and int/u64 by mathematical value (extended rationals:
   ±inf included, NaN excluded), for all nine type pairs; hence the chains `compare<` ... do.
   Proof file (Mathlib ℚ), not linked into the driver. -/
import JanetModel.Int64.LemmasN
import JanetModel.Int64.LemmasQ
namespace JanetModel.Int64
open JanetModel.Gen.Int64

/-- the mathematical value of a numeric janet value: a rational or ±infinity -/
inductive ExtQ where
  | ninf
  | fin (q : ℚ)
  | pinf

/-- three-way comparison on the extended rationals -/
def cmpExt : ExtQ → ExtQ → Int
  | .ninf, .ninf => 0
  | .ninf, _ => -1
  | .pinf, .pinf => 0
  | .pinf, _ => 1
  | .fin _, .ninf => 1
  | .fin _, .pinf => -1
  | .fin a, .fin b => cmpQ a b

def Dbl.ext? : Dbl → Option ExtQ
  | .nan => none
  | .inf neg => some (if neg then .ninf else .pinf)
  | .fin neg m e => some (.fin (Dbl.toRat (.fin neg m e)))

/-- value of a number (not NaN), an int/s64 or an int/u64; nothing else has one -/
def Val.ext? : Val → Option ExtQ
  | .num b => (decode b).ext?
  | .s64 v => some (.fin v)
  | .u64 v => some (.fin v)
  | _ => none

/-- boxes hold values of their type -/
def Val.wf : Val → Prop
  | .s64 v => Kind.s64.inRange v
  | .u64 v => Kind.u64.inRange v
  | _ => True

/-- the integer a result number stands for (`-0.0` is 0) -/
def resInt : Val → Option Int
  | .num b => (decode b).toInt?
  | _ => none

theorem cmpQ_antisymm (a b : ℚ) : cmpQ a b = -cmpQ b a := by
  unfold cmpQ
  rcases lt_trichotomy a b with h | h | h
  · simp [h, not_lt.2 h.le]
  · subst h; simp
  · simp [h, not_lt.2 h.le]

theorem cmpExt_antisymm (a b : ExtQ) : cmpExt a b = -cmpExt b a := by
  cases a <;> cases b <;> simp only [cmpExt, neg_zero, neg_neg, Int.reduceNeg]
  exact cmpQ_antisymm _ _

theorem cmpQ_range (a b : ℚ) : cmpQ a b = -1 ∨ cmpQ a b = 0 ∨ cmpQ a b = 1 := by
  unfold cmpQ; split <;> (try split) <;> simp

theorem cmpExt_range (a b : ExtQ) : cmpExt a b = -1 ∨ cmpExt a b = 0 ∨ cmpExt a b = 1 := by
  cases a <;> cases b <;> simp [cmpExt]
  exact cmpQ_range _ _

theorem cmp3_eq_cmpQ_int (a b : Int) : cmp3 a b = cmpQ (a : ℚ) (b : ℚ) :=
  cmp3_eq_cmpQ_of_iff (by exact_mod_cast Iff.rfl) (by exact_mod_cast Iff.rfl)

/-- the cross-multiplied comparison of two dyadics is the comparison of their values -/
theorem cmpDyadic_eq_cmpQ (a : Int) (ea : Int) (b : Int) (eb : Int) :
    cmpDyadic a ea b eb = cmpQ ((a : ℚ) * 2 ^ ea) ((b : ℚ) * 2 ^ eb) := by
  unfold cmpDyadic
  simp only []
  obtain ⟨ka, hka⟩ := Int.eq_ofNat_of_zero_le (show 0 ≤ ea - min ea eb by omega)
  obtain ⟨kb, hkb⟩ := Int.eq_ofNat_of_zero_le (show 0 ≤ eb - min ea eb by omega)
  rw [hka, hkb]
  simp only [Int.toNat_natCast]
  have hp : (0 : ℚ) < 2 ^ (min ea eb) := zpow_pos (by norm_num) _
  have ha : (a : ℚ) * 2 ^ ea = ((a * 2 ^ ka : Int) : ℚ) * 2 ^ (min ea eb) := by
    have : ea = (ka : ℤ) + min ea eb := by omega
    rw [this, zpow_add₀ (by norm_num : (2 : ℚ) ≠ 0)]
    push_cast
    rw [zpow_natCast]
    have h2 : (↑ka + min ea eb) ⊓ eb = min ea eb := by omega
    simp only [h2]
    ring
  have hb : (b : ℚ) * 2 ^ eb = ((b * 2 ^ kb : Int) : ℚ) * 2 ^ (min ea eb) := by
    have : eb = (kb : ℤ) + min ea eb := by omega
    rw [this, zpow_add₀ (by norm_num : (2 : ℚ) ≠ 0)]
    push_cast
    rw [zpow_natCast]
    have h2 : ea ⊓ (↑kb + min ea eb) = min ea eb := by omega
    simp only [h2]
    ring
  rw [ha, hb]
  apply cmp3_eq_cmpQ_of_iff
  · rw [mul_lt_mul_iff_of_pos_right hp]; exact_mod_cast Iff.rfl
  · rw [mul_lt_mul_iff_of_pos_right hp]; exact_mod_cast Iff.rfl

/-- IEEE comparison of two non-NaN doubles is the comparison of their extended-rational values -/
theorem Dbl_cmp_ext (dx dy : Dbl) (vx vy : ExtQ) (hx : dx.ext? = some vx) (hy : dy.ext? = some vy) :
    dx.cmp? dy = some (cmpExt vx vy) := by
  cases dx with
  | nan => simp [Dbl.ext?] at hx
  | inf nx =>
    cases dy with
    | nan => simp [Dbl.ext?] at hy
    | inf ny =>
      simp only [Dbl.ext?, Option.some.injEq] at hx hy
      subst hx; subst hy
      cases nx <;> cases ny <;> simp [Dbl.cmp?, cmpExt]
    | fin ny my ey =>
      simp only [Dbl.ext?, Option.some.injEq] at hx hy
      subst hx; subst hy
      cases nx <;> simp [Dbl.cmp?, cmpExt]
  | fin nx mx ex =>
    cases dy with
    | nan => simp [Dbl.ext?] at hy
    | inf ny =>
      simp only [Dbl.ext?, Option.some.injEq] at hx hy
      subst hx; subst hy
      cases ny <;> simp [Dbl.cmp?, cmpExt]
    | fin ny my ey =>
      simp only [Dbl.ext?, Option.some.injEq] at hx hy
      subst hx; subst hy
      simp only [Dbl.cmp?, cmpExt, Dbl.toRat, cmpDyadic_eq_cmpQ]

theorem janetCompare_num (c : Cfg) (a b : Nat) (vx vy : ExtQ) (hx : (decode a).ext? = some vx) (hy : (decode b).ext? = some vy) :
    janetCompare c (.num a) (.num b) = cmpExt vx vy := by
  have h := Dbl_cmp_ext _ _ vx vy hx hy
  unfold janetCompare
  simp only [typeRank, ne_eq, not_true_eq_false, if_false, Dbl.eq, Dbl.lt, h]
  rcases cmpExt_range vx vy with e | e | e <;> rw [e] <;> decide

/-- exact comparison of an integer with a non-NaN double, as extended rationals -/
theorem cmpIntDbl_ext (n : Int) (d : Dbl) (v : ExtQ) (hd : d.ext? = some v) : cmpIntDbl n d = cmpExt (.fin n) v := by
  cases d with
  | nan => simp [Dbl.ext?] at hd
  | inf neg =>
    simp only [Dbl.ext?, Option.some.injEq] at hd
    subst hd
    cases neg <;> simp [cmpIntDbl, cmpExt]
  | fin neg m e =>
    simp only [Dbl.ext?, Option.some.injEq] at hd
    subst hd
    rw [cmpIntDbl_eq_cmpQ]; rfl

theorem ext_ne_nan (d : Dbl) (v : ExtQ) (hd : d.ext? = some v) : d ≠ .nan := by
  intro h; subst h; simp [Dbl.ext?] at hd

theorem resInt_ofInt (i : Int) (h : i = -1 ∨ i = 0 ∨ i = 1) : resInt (Val.ofInt i) = some i := by
  unfold resInt Val.ofInt
  exact decode_encodeInt i (by rcases h with h | h | h <;> subst h <;> decide)

theorem resInt_negzero : resInt (.num 0x8000000000000000) = some 0 := by
  have : decode 0x8000000000000000 = .fin true 0 (-1074) := by decide
  simp only [resInt, this]
  simp [Dbl.toInt?, smant]

/-- the `compare` method of a box against any numeric value: the comparison of the mathematical values -/
theorem compareMethod_ext (c : Cfg) (hu : c.cmpSUpperIncl = true) (hl : c.cmpSLowerIncl = false) (huu : c.cmpUUpperIncl = true)
    (k : Kind) (x : Int) (hx : k.inRange x) (y : Val) (vy : ExtQ) (hy : y.ext? = some vy) (wy : y.wf) :
    compareMethod c k x y = .ok (some (cmpExt (.fin x) vy)) := by
  cases y with
  | num b =>
    simp only [Val.ext?] at hy
    have hn := ext_ne_nan _ _ hy
    cases k with
    | s64 =>
      simp only [compareMethod]
      rw [compareInt64Double_correct c hu hl x hx _ hn (decode_wf b), cmpIntDbl_ext x _ vy hy]; rfl
    | u64 =>
      simp only [compareMethod]
      rw [compareUint64Double_partial c x hx _ hn (decode_wf b) (Or.inl huu), cmpIntDbl_ext x _ vy hy]; rfl
  | s64 yv =>
    simp only [Val.ext?, Option.some.injEq] at hy
    subst hy
    simp only [Val.wf] at wy
    cases k with
    | s64 => simp only [compareMethod, cmpExt, cmp3_eq_cmpQ_int]
    | u64 => rw [(compareMethod_ints c yv x wy hx).2.1]; simp only [cmpExt, cmp3_eq_cmpQ_int]
  | u64 yv =>
    simp only [Val.ext?, Option.some.injEq] at hy
    subst hy
    simp only [Val.wf] at wy
    cases k with
    | s64 => rw [(compareMethod_ints c x yv hx wy).1]; simp only [cmpExt, cmp3_eq_cmpQ_int]
    | u64 => simp only [compareMethod, cmpExt, cmp3_eq_cmpQ_int]
  | _ => simp [Val.ext?] at hy

theorem callCompare_s (c : Cfg) (x : Int) (y : Val) :
    callCfun2 c .s64 "s64_compare" (.s64 x) y =
      (compareMethod c .s64 x y).bind (fun r => match r with | some i => .ok (Val.ofInt i) | none => .ok .nil) := rfl
theorem callCompare_u (c : Cfg) (x : Int) (y : Val) :
    callCfun2 c .u64 "u64_compare" (.u64 x) y =
      (compareMethod c .u64 x y).bind (fun r => match r with | some i => .ok (Val.ofInt i) | none => .ok .nil) := rfl
theorem methodOf_compare_s (x : Int) : methodOf (.s64 x) "compare" = some (.s64, "s64_compare") := rfl
theorem methodOf_compare_u (x : Int) : methodOf (.u64 x) "compare" = some (.u64, "u64_compare") := rfl
theorem methodOf_compare_n (b : Nat) : methodOf (.num b) "compare" = none := rfl

/-- a box as the left operand of `compare`: its own method answers -/
theorem polyCompare_box_left (c : Cfg) (hu : c.cmpSUpperIncl = true) (hl : c.cmpSLowerIncl = false) (huu : c.cmpUUpperIncl = true)
    (k : Kind) (x : Int) (hx : k.inRange x) (y : Val) (vy : ExtQ) (hy : y.ext? = some vy) (wy : y.wf) :
    polyCompare c (Val.box k x) y = .ok (Val.ofInt (cmpExt (.fin x) vy)) := by
  have hm := compareMethod_ext c hu hl huu k x hx y vy hy wy
  cases k with
  | s64 =>
    unfold polyCompare
    simp only [Val.box, methodOf_compare_s, callCompare_s, hm, bind_ok]
    rfl
  | u64 =>
    unfold polyCompare
    simp only [Val.box, methodOf_compare_u, callCompare_u, hm, bind_ok]
    rfl

/-- a number on the left, a box on the right: the box's method with swapped operands, negated (`-0.0` for "equal") -/
theorem polyCompare_box_right (c : Cfg) (hu : c.cmpSUpperIncl = true) (hl : c.cmpSLowerIncl = false) (huu : c.cmpUUpperIncl = true)
    (k : Kind) (y : Int) (hy : k.inRange y) (a : Nat) (vx : ExtQ) (hx : (decode a).ext? = some vx) :
    ∃ r, polyCompare c (.num a) (Val.box k y) = .ok r ∧ resInt r = some (cmpExt vx (.fin y)) ∧
      (r = Val.ofInt (cmpExt vx (.fin y)) ∨ (cmpExt vx (.fin y) = 0 ∧ r = .num 0x8000000000000000)) := by
  have hm := compareMethod_ext c hu hl huu k y hy (.num a) vx hx trivial
  have hr := cmpExt_range (.fin y) vx
  have hres := resInt_ofInt _ hr
  have hanti := cmpExt_antisymm vx (.fin y)
  simp only [resInt, Val.ofInt] at hres
  cases k with
  | s64 =>
    unfold polyCompare
    simp only [Val.box, methodOf_compare_n, methodOf_compare_s, callCompare_s, hm, bind_ok, Val.ofInt, hres]
    by_cases h0 : cmpExt (.fin y) vx = 0
    · rw [if_pos h0]; exact ⟨_, rfl, by rw [resInt_negzero, hanti, h0]; rfl, Or.inr ⟨by rw [hanti, h0]; rfl, rfl⟩⟩
    · rw [if_neg h0]
      refine ⟨_, rfl, ?_, Or.inl ?_⟩
      · rw [hanti, Int.zero_sub]
        exact resInt_ofInt _ (by omega)
      · rw [hanti, Int.zero_sub]
  | u64 =>
    unfold polyCompare
    simp only [Val.box, methodOf_compare_n, methodOf_compare_u, callCompare_u, hm, bind_ok, Val.ofInt, hres]
    by_cases h0 : cmpExt (.fin y) vx = 0
    · rw [if_pos h0]; exact ⟨_, rfl, by rw [resInt_negzero, hanti, h0]; rfl, Or.inr ⟨by rw [hanti, h0]; rfl, rfl⟩⟩
    · rw [if_neg h0]
      refine ⟨_, rfl, ?_, Or.inl ?_⟩
      · rw [hanti, Int.zero_sub]
        exact resInt_ofInt _ (by omega)
      · rw [hanti, Int.zero_sub]

theorem polyCompare_nums (c : Cfg) (a b : Nat) (vx vy : ExtQ) (hx : (decode a).ext? = some vx) (hy : (decode b).ext? = some vy) :
    polyCompare c (.num a) (.num b) = .ok (Val.ofInt (cmpExt vx vy)) := by
  unfold polyCompare
  simp only [methodOf_compare_n, janetCompare_num c a b vx vy hx hy]

/-- ★ boot.janet `compare` on any two numeric values (number other than NaN, int/s64, int/u64 — all nine type pairs):
    the result is a number whose value is the three-way comparison of the two mathematical values -/
theorem polyCompare_correct (c : Cfg) (hu : c.cmpSUpperIncl = true) (hl : c.cmpSLowerIncl = false) (huu : c.cmpUUpperIncl = true)
    (x y : Val) (vx vy : ExtQ) (hx : x.ext? = some vx) (hy : y.ext? = some vy) (wx : x.wf) (wy : y.wf) :
    ∃ r, polyCompare c x y = .ok r ∧ resInt r = some (cmpExt vx vy) ∧
      (r = Val.ofInt (cmpExt vx vy) ∨ (cmpExt vx vy = 0 ∧ r = .num 0x8000000000000000)) := by
  cases x with
  | s64 xv =>
    simp only [Val.ext?, Option.some.injEq] at hx; subst hx
    exact ⟨_, polyCompare_box_left c hu hl huu .s64 xv wx y vy hy wy, resInt_ofInt _ (cmpExt_range _ _), Or.inl rfl⟩
  | u64 xv =>
    simp only [Val.ext?, Option.some.injEq] at hx; subst hx
    exact ⟨_, polyCompare_box_left c hu hl huu .u64 xv wx y vy hy wy, resInt_ofInt _ (cmpExt_range _ _), Or.inl rfl⟩
  | num a =>
    simp only [Val.ext?] at hx
    cases y with
    | s64 yv =>
      simp only [Val.ext?, Option.some.injEq] at hy; subst hy
      exact polyCompare_box_right c hu hl huu .s64 yv wy a vx hx
    | u64 yv =>
      simp only [Val.ext?, Option.some.injEq] at hy; subst hy
      exact polyCompare_box_right c hu hl huu .u64 yv wy a vx hx
    | num b =>
      simp only [Val.ext?] at hy
      exact ⟨_, polyCompare_nums c a b vx vy hx hy, resInt_ofInt _ (cmpExt_range _ _), Or.inl rfl⟩
    | _ => simp [Val.ext?] at hy
  | _ => simp [Val.ext?] at hx

/-! ## `(op (compare x y) 0)`: the sign test on the four possible results -1, 0, -0.0, 1 -/

theorem cmpStep_num (c : Cfg) (N : NumOps) (a b : Nat) :
    cmpStep c N "JOP_LESS_THAN" (.num a) (.num b) = .ok (.bool ((decode a).lt (decode b))) ∧
    cmpStep c N "JOP_LESS_THAN_EQUAL" (.num a) (.num b) = .ok (.bool ((decode a).le (decode b))) ∧
    cmpStep c N "JOP_GREATER_THAN" (.num a) (.num b) = .ok (.bool ((decode a).gt (decode b))) ∧
    cmpStep c N "JOP_GREATER_THAN_EQUAL" (.num a) (.num b) = .ok (.bool ((decode a).ge (decode b))) ∧
    cmpStep c N "JOP_EQUALS" (.num a) (.num b) = .ok (.bool ((decode a).eq (decode b))) := ⟨rfl, rfl, rfl, rfl, rfl⟩

/-- the relation a polymorphic chain tests on the result of `compare` -/
def signRel (opcode : String) (i : Int) : Bool :=
  if opcode = "JOP_LESS_THAN" then decide (i < 0) else if opcode = "JOP_LESS_THAN_EQUAL" then decide (i ≤ 0)
  else if opcode = "JOP_GREATER_THAN" then decide (i > 0) else if opcode = "JOP_GREATER_THAN_EQUAL" then decide (i ≥ 0)
  else decide (i = 0)

def IsPolyOpcode (opcode : String) : Prop :=
  opcode = "JOP_LESS_THAN" ∨ opcode = "JOP_LESS_THAN_EQUAL" ∨ opcode = "JOP_GREATER_THAN" ∨ opcode = "JOP_GREATER_THAN_EQUAL" ∨ opcode = "JOP_EQUALS"

theorem cmpStep_sign (c : Cfg) (N : NumOps) (opcode : String) (hop : IsPolyOpcode opcode) (r : Val) (i : Int)
    (hi : i = -1 ∨ i = 0 ∨ i = 1) (hr : r = Val.ofInt i ∨ (i = 0 ∧ r = .num 0x8000000000000000)) :
    cmpStep c N opcode r (Val.ofInt 0) = .ok (.bool (signRel opcode i)) := by
  have hz : Val.ofInt 0 = .num 0 := by decide
  have hm : Val.ofInt (-1) = .num 0xbff0000000000000 := by decide +kernel
  have hp : Val.ofInt 1 = .num 0x3ff0000000000000 := by decide +kernel
  have d0 : decode 0 = .fin false 0 (-1074) := by decide
  have dz : decode 0x8000000000000000 = .fin true 0 (-1074) := by decide
  have dm : decode 0xbff0000000000000 = .fin true 4503599627370496 (-52) := by decide
  have dp : decode 0x3ff0000000000000 = .fin false 4503599627370496 (-52) := by decide
  have c00 : Dbl.cmp? (.fin false 0 (-1074)) (.fin false 0 (-1074)) = some 0 := by decide +kernel
  have cz0 : Dbl.cmp? (.fin true 0 (-1074)) (.fin false 0 (-1074)) = some 0 := by decide +kernel
  have cm0 : Dbl.cmp? (.fin true 4503599627370496 (-52)) (.fin false 0 (-1074)) = some (-1) := by decide +kernel
  have cp0 : Dbl.cmp? (.fin false 4503599627370496 (-52)) (.fin false 0 (-1074)) = some 1 := by decide +kernel
  have hn := cmpStep_num c N
  rcases hr with hr | ⟨hi0, hr⟩
  · rcases hi with hi | hi | hi <;> subst hi <;> subst hr
    · rw [hm, hz]
      rcases hop with h | h | h | h | h <;> subst h
      · rw [(hn _ _).1, dm, d0]; simp [Dbl.lt, cm0, signRel]
      · rw [(hn _ _).2.1, dm, d0]; simp [Dbl.le, Dbl.lt, Dbl.eq, cm0, signRel]
      · rw [(hn _ _).2.2.1, dm, d0]; simp [Dbl.gt, cm0, signRel]
      · rw [(hn _ _).2.2.2.1, dm, d0]; simp [Dbl.ge, Dbl.gt, Dbl.eq, cm0, signRel]
      · rw [(hn _ _).2.2.2.2, dm, d0]; simp [Dbl.eq, cm0, signRel]
    · rw [hz]
      rcases hop with h | h | h | h | h <;> subst h
      · rw [(hn _ _).1, d0]; simp [Dbl.lt, c00, signRel]
      · rw [(hn _ _).2.1, d0]; simp [Dbl.le, Dbl.lt, Dbl.eq, c00, signRel]
      · rw [(hn _ _).2.2.1, d0]; simp [Dbl.gt, c00, signRel]
      · rw [(hn _ _).2.2.2.1, d0]; simp [Dbl.ge, Dbl.gt, Dbl.eq, c00, signRel]
      · rw [(hn _ _).2.2.2.2, d0]; simp [Dbl.eq, c00, signRel]
    · rw [hp, hz]
      rcases hop with h | h | h | h | h <;> subst h
      · rw [(hn _ _).1, dp, d0]; simp [Dbl.lt, cp0, signRel]
      · rw [(hn _ _).2.1, dp, d0]; simp [Dbl.le, Dbl.lt, Dbl.eq, cp0, signRel]
      · rw [(hn _ _).2.2.1, dp, d0]; simp [Dbl.gt, cp0, signRel]
      · rw [(hn _ _).2.2.2.1, dp, d0]; simp [Dbl.ge, Dbl.gt, Dbl.eq, cp0, signRel]
      · rw [(hn _ _).2.2.2.2, dp, d0]; simp [Dbl.eq, cp0, signRel]
  · subst hi0; subst hr
    rw [hz]
    rcases hop with h | h | h | h | h <;> subst h
    · rw [(hn _ _).1, dz, d0]; simp [Dbl.lt, cz0, signRel]
    · rw [(hn _ _).2.1, dz, d0]; simp [Dbl.le, Dbl.lt, Dbl.eq, cz0, signRel]
    · rw [(hn _ _).2.2.1, dz, d0]; simp [Dbl.gt, cz0, signRel]
    · rw [(hn _ _).2.2.2.1, dz, d0]; simp [Dbl.ge, Dbl.gt, Dbl.eq, cz0, signRel]
    · rw [(hn _ _).2.2.2.2, dz, d0]; simp [Dbl.eq, cz0, signRel]

/-- total version of `Val.ext?` (0 for values without one) -/
def Val.extD (v : Val) : ExtQ := v.ext?.getD (.fin 0)

def Val.numeric (v : Val) : Prop := (∃ q, v.ext? = some q) ∧ v.wf

/-- one step of a polymorphic chain on two numeric values: the sign test on the comparison of the mathematical values -/
theorem polyStep_numeric (c : Cfg) (hu : c.cmpSUpperIncl = true) (hl : c.cmpSLowerIncl = false) (huu : c.cmpUUpperIncl = true)
    (N : NumOps) (opcode : String) (hop : IsPolyOpcode opcode) (x y : Val) (hx : x.numeric) (hy : y.numeric) :
    polyStep c N opcode x y = .ok (.bool (signRel opcode (cmpExt x.extD y.extD))) := by
  obtain ⟨⟨vx, hvx⟩, wx⟩ := hx
  obtain ⟨⟨vy, hvy⟩, wy⟩ := hy
  obtain ⟨r, h1, _, h3⟩ := polyCompare_correct c hu hl huu x y vx vy hvx hvy wx wy
  unfold polyStep
  rw [h1, bind_ok, cmpStep_sign c N opcode hop r _ (cmpExt_range vx vy) h3]
  simp [Val.extD, hvx, hvy]

/-- ★ a polymorphic chain over numeric values (numbers other than NaN, int/s64, int/u64 in any mix) is the conjunction of
    the order relation between the *mathematical values* of all adjacent pairs -/
theorem compareReduce_numeric (c : Cfg) (hu : c.cmpSUpperIncl = true) (hl : c.cmpSLowerIncl = false) (huu : c.cmpUUpperIncl = true)
    (N : NumOps) (opcode : String) (hop : IsPolyOpcode opcode) (x : Val) (rest : List Val)
    (hall : ∀ v ∈ x :: rest, v.numeric) :
    compareReduce c N opcode x rest =
      .ok (.bool ((adjacentPairs x rest).all (fun p => signRel opcode (cmpExt p.1.extD p.2.extD)))) := by
  rw [compareReduce_eq_loop]
  induction rest generalizing x with
  | nil => simp [comparatorLoop, adjacentPairs]
  | cons y rest ih =>
    have hx := hall x (by simp)
    have hy := hall y (by simp)
    unfold comparatorLoop
    rw [polyStep_numeric c hu hl huu N opcode hop x y hx hy]
    cases hs : signRel opcode (cmpExt x.extD y.extD) with
    | true =>
      simp only []
      rw [ih y (fun v hv => hall v (by simp only [List.mem_cons] at hv ⊢; exact Or.inr hv))]
      simp [adjacentPairs, hs]
    | false => simp [adjacentPairs, hs]

end JanetModel.Int64
