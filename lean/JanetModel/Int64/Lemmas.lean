/- C14 — lemmas about the Int64 model: wrap-around operators = BitVec 64 operators. -/
import JanetModel.Int64.Model
namespace JanetModel.Int64

macro "consts" : tactic => `(tactic| simp only [wrapU, wrapS, wrapU32, wrapS32, two64, two63, two53, two31, two32, int64Min, int64Max, Kind.wrap, Kind.inRange] at *)

theorem wrapU_mod (x : Int) : wrapU x % two64 = x % two64 := by consts; omega
theorem wrapS_mod (x : Int) : wrapS x % two64 = x % two64 := by consts; split <;> omega
theorem wrap_mod (k : Kind) (x : Int) : k.wrap x % two64 = x % two64 := by
  cases k
  · exact wrapS_mod x
  · exact wrapU_mod x

theorem wrap_inRange (k : Kind) (x : Int) : k.inRange (k.wrap x) := by
  cases k <;> consts <;> (try split) <;> omega

theorem wrap_of_inRange (k : Kind) (x : Int) (h : k.inRange x) : k.wrap x = x := by
  cases k <;> consts <;> (try split) <;> omega

theorem ofInt_congr {x y : Int} (h : x % two64 = y % two64) : BitVec.ofInt 64 x = BitVec.ofInt 64 y := by
  apply BitVec.eq_of_toNat_eq
  simp only [BitVec.toNat_ofInt]
  consts
  have e : ((2 ^ 64 : Nat) : Int) = 18446744073709551616 := by decide
  rw [e, h]

theorem ofInt_wrap (k : Kind) (x : Int) : BitVec.ofInt 64 (k.wrap x) = BitVec.ofInt 64 x := ofInt_congr (wrap_mod k x)
theorem ofInt_wrapU (x : Int) : BitVec.ofInt 64 (wrapU x) = BitVec.ofInt 64 x := ofInt_congr (wrapU_mod x)

theorem ofNat_toNat_wrapU (x : Int) : BitVec.ofNat 64 (wrapU x).toNat = BitVec.ofInt 64 x := by
  apply BitVec.eq_of_toNat_eq
  simp only [BitVec.toNat_ofInt, BitVec.toNat_ofNat]
  consts
  have e : ((2 ^ 64 : Nat) : Int) = 18446744073709551616 := by decide
  rw [e]
  omega

theorem opMethod_add (k : Kind) (a b : Int) :
    ∃ r, opMethod k "+" a b = .ok r ∧ k.inRange r ∧ BitVec.ofInt 64 r = BitVec.ofInt 64 a + BitVec.ofInt 64 b := by
  refine ⟨_, rfl, wrap_inRange _ _, ?_⟩
  rw [ofInt_wrap, BitVec.ofInt_add, ofInt_wrapU, ofInt_wrapU]

theorem ofInt_sub' (a b : Int) : BitVec.ofInt 64 (a - b) = BitVec.ofInt 64 a - BitVec.ofInt 64 b := by
  rw [Int.sub_eq_add_neg, BitVec.ofInt_add, BitVec.ofInt_neg, BitVec.sub_eq_add_neg]

theorem opMethod_sub (k : Kind) (a b : Int) :
    ∃ r, opMethod k "-" a b = .ok r ∧ k.inRange r ∧ BitVec.ofInt 64 r = BitVec.ofInt 64 a - BitVec.ofInt 64 b := by
  refine ⟨_, rfl, wrap_inRange _ _, ?_⟩
  rw [ofInt_wrap, ofInt_sub', ofInt_wrapU, ofInt_wrapU]

theorem opMethod_mul (k : Kind) (a b : Int) :
    ∃ r, opMethod k "*" a b = .ok r ∧ k.inRange r ∧ BitVec.ofInt 64 r = BitVec.ofInt 64 a * BitVec.ofInt 64 b := by
  refine ⟨_, rfl, wrap_inRange _ _, ?_⟩
  rw [ofInt_wrap, BitVec.ofInt_mul, ofInt_wrapU, ofInt_wrapU]

theorem opMethod_and (k : Kind) (a b : Int) :
    ∃ r, opMethod k "&" a b = .ok r ∧ k.inRange r ∧ BitVec.ofInt 64 r = BitVec.ofInt 64 a &&& BitVec.ofInt 64 b := by
  refine ⟨_, rfl, wrap_inRange _ _, ?_⟩
  rw [ofInt_wrap, natBit, ← ofNat_toNat_wrapU a, ← ofNat_toNat_wrapU b, ← BitVec.ofNat_and]
  rfl

theorem opMethod_or (k : Kind) (a b : Int) :
    ∃ r, opMethod k "|" a b = .ok r ∧ k.inRange r ∧ BitVec.ofInt 64 r = BitVec.ofInt 64 a ||| BitVec.ofInt 64 b := by
  refine ⟨_, rfl, wrap_inRange _ _, ?_⟩
  rw [ofInt_wrap, natBit, ← ofNat_toNat_wrapU a, ← ofNat_toNat_wrapU b, ← BitVec.ofNat_or]
  rfl

theorem opMethod_xor (k : Kind) (a b : Int) :
    ∃ r, opMethod k "^" a b = .ok r ∧ k.inRange r ∧ BitVec.ofInt 64 r = BitVec.ofInt 64 a ^^^ BitVec.ofInt 64 b := by
  refine ⟨_, rfl, wrap_inRange _ _, ?_⟩
  rw [ofInt_wrap, natBit, ← ofNat_toNat_wrapU a, ← ofNat_toNat_wrapU b, ← BitVec.ofNat_xor]
  rfl

theorem notMethod_bitvec (k : Kind) (a : Int) :
    k.inRange (notMethod k a) ∧ BitVec.ofInt 64 (notMethod k a) = ~~~ BitVec.ofInt 64 a := by
  refine ⟨wrap_inRange _ _, ?_⟩
  rw [notMethod, ofInt_wrap, BitVec.not_eq_neg_add, ofInt_sub', BitVec.ofInt_neg]
  rfl

theorem twoPow_eq (n : Nat) : BitVec.ofInt 64 ((2 : Int) ^ n) = BitVec.twoPow 64 n := by
  apply BitVec.eq_of_toNat_eq
  have : ((2 : Int) ^ n) = ((2 ^ n : Nat) : Int) := by simp
  rw [this, BitVec.ofInt_natCast, BitVec.toNat_ofNat, BitVec.toNat_twoPow]

theorem shiftCount_of_defined (b : Int) (h : shiftDefined b) : shiftCount b = (wrapU b).toNat := by
  unfold shiftCount shiftDefined at *
  have : 0 ≤ wrapU b := by consts; omega
  congr 1
  omega

/-- `<<` within the width is the BitVec left shift -/
theorem opMethod_shl (k : Kind) (a b : Int) (h : shiftDefined b) :
    ∃ r, opMethod k "<<" a b = .ok r ∧ k.inRange r ∧ BitVec.ofInt 64 r = BitVec.ofInt 64 a <<< (wrapU b).toNat := by
  refine ⟨_, rfl, wrap_inRange _ _, ?_⟩
  rw [ofInt_wrap, BitVec.ofInt_mul, twoPow_eq, BitVec.shiftLeft_eq_mul_twoPow, shiftCount_of_defined b h]

theorem toInt_ofInt_s64 (a : Int) (h : Kind.s64.inRange a) : (BitVec.ofInt 64 a).toInt = a := by
  rw [BitVec.toInt_ofInt]
  consts
  rw [Int.bmod_def]
  have e : (((2:Nat) ^ 64 : Nat) : Int) = 18446744073709551616 := by decide
  simp only [e]
  split <;> omega

/-- `>>` on s64 within the width is the BitVec arithmetic right shift -/
theorem opMethod_sar (a b : Int) (ha : Kind.s64.inRange a) (h : shiftDefined b) :
    opMethod .s64 ">>" a b = .ok ((BitVec.ofInt 64 a).sshiftRight (wrapU b).toNat).toInt := by
  rw [BitVec.toInt_sshiftRight, toInt_ofInt_s64 a ha, Int.shiftRight_eq_div_pow]
  show Res.ok (wrapS (a / 2 ^ shiftCount b)) = _
  rw [shiftCount_of_defined b h]
  congr 1
  have hp : (0 : Int) < 2 ^ (wrapU b).toNat := Int.pow_pos (by decide)
  have h1 : a / 2 ^ (wrapU b).toNat ≤ a ∨ a / 2 ^ (wrapU b).toNat ≤ 0 := by
    by_cases h0 : 0 ≤ a
    · left; exact Int.ediv_le_self _ h0
    · right
      have : a / 2 ^ (wrapU b).toNat < 0 := Int.ediv_neg_of_neg_of_pos (by omega) hp
      omega
  have h2 : a ≤ a / 2 ^ (wrapU b).toNat ∨ 0 ≤ a / 2 ^ (wrapU b).toNat := by
    by_cases h0 : 0 ≤ a
    · right; exact Int.ediv_nonneg h0 (Int.le_of_lt hp)
    · left
      have h3 := Int.lt_ediv_add_one_mul_self a hp
      have h4 : (1:Int) ≤ 2 ^ (wrapU b).toNat := hp
      generalize a / 2 ^ (wrapU b).toNat = q at *
      generalize (2:Int) ^ (wrapU b).toNat = p at *
      -- a < (q+1)*p, p ≥ 1, a < 0  ⊢ a ≤ q
      by_cases hq : a ≤ q
      · exact hq
      · exfalso
        have : q + 1 ≤ a := by omega
        have h5 : (q + 1) * p ≤ (q + 1) * 1 := by
          apply Int.mul_le_mul_of_nonpos_left (by omega) h4
        omega
  have hr : Kind.s64.inRange (a / 2 ^ (wrapU b).toNat) := by
    consts; omega
  exact wrap_of_inRange .s64 _ hr

end JanetModel.Int64
