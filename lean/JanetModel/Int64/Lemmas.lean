/- C14 — lemmas about the Int64 model: wrap-around operators = BitVec 64 operators. -/
import JanetModel.Int64.Model
namespace JanetModel.Int64

macro "consts" : tactic => `(tactic| simp only [wrapU, wrapS, wrapU32, wrapS32, two64, two63, two53, two31, two32, int64Min, int64Max, Kind.wrap, Kind.inRange] at *)

theorem wrapU_mod (x : Int) : wrapU x % two64 = x % two64 := by consts; omega
theorem wrapS_mod (x : Int) : wrapS x % two64 = x % two64 := by consts; split <;> omega
theorem wrap_mod (k : Kind) (x : Int) : k.wrap x % two64 = x % two64 := by
  cases k
  · exact wrapS_mod x
  · exact wrapU_mod x

theorem wrap_inRange (k : Kind) (x : Int) : k.inRange (k.wrap x) := by
  cases k <;> consts <;> (try split) <;> omega

theorem wrap_of_inRange (k : Kind) (x : Int) (h : k.inRange x) : k.wrap x = x := by
  cases k <;> consts <;> (try split) <;> omega

theorem ofInt_congr {x y : Int} (h : x % two64 = y % two64) : BitVec.ofInt 64 x = BitVec.ofInt 64 y := by
  apply BitVec.eq_of_toNat_eq
  simp only [BitVec.toNat_ofInt]
  consts
  have e : ((2 ^ 64 : Nat) : Int) = 18446744073709551616 := by decide
  rw [e, h]

theorem ofInt_wrap (k : Kind) (x : Int) : BitVec.ofInt 64 (k.wrap x) = BitVec.ofInt 64 x := ofInt_congr (wrap_mod k x)
theorem ofInt_wrapU (x : Int) : BitVec.ofInt 64 (wrapU x) = BitVec.ofInt 64 x := ofInt_congr (wrapU_mod x)

theorem ofNat_toNat_wrapU (x : Int) : BitVec.ofNat 64 (wrapU x).toNat = BitVec.ofInt 64 x := by
  apply BitVec.eq_of_toNat_eq
  simp only [BitVec.toNat_ofInt, BitVec.toNat_ofNat]
  consts
  have e : ((2 ^ 64 : Nat) : Int) = 18446744073709551616 := by decide
  rw [e]
  omega

theorem opMethod_add (k : Kind) (a b : Int) :
    ∃ r, opMethod k "+" a b = .ok r ∧ k.inRange r ∧ BitVec.ofInt 64 r = BitVec.ofInt 64 a + BitVec.ofInt 64 b := by
  refine ⟨_, rfl, wrap_inRange _ _, ?_⟩
  rw [ofInt_wrap, BitVec.ofInt_add, ofInt_wrapU, ofInt_wrapU]

theorem ofInt_sub' (a b : Int) : BitVec.ofInt 64 (a - b) = BitVec.ofInt 64 a - BitVec.ofInt 64 b := by
  rw [Int.sub_eq_add_neg, BitVec.ofInt_add, BitVec.ofInt_neg, BitVec.sub_eq_add_neg]

theorem opMethod_sub (k : Kind) (a b : Int) :
    ∃ r, opMethod k "-" a b = .ok r ∧ k.inRange r ∧ BitVec.ofInt 64 r = BitVec.ofInt 64 a - BitVec.ofInt 64 b := by
  refine ⟨_, rfl, wrap_inRange _ _, ?_⟩
  rw [ofInt_wrap, ofInt_sub', ofInt_wrapU, ofInt_wrapU]

theorem opMethod_mul (k : Kind) (a b : Int) :
    ∃ r, opMethod k "*" a b = .ok r ∧ k.inRange r ∧ BitVec.ofInt 64 r = BitVec.ofInt 64 a * BitVec.ofInt 64 b := by
  refine ⟨_, rfl, wrap_inRange _ _, ?_⟩
  rw [ofInt_wrap, BitVec.ofInt_mul, ofInt_wrapU, ofInt_wrapU]

theorem opMethod_and (k : Kind) (a b : Int) :
    ∃ r, opMethod k "&" a b = .ok r ∧ k.inRange r ∧ BitVec.ofInt 64 r = BitVec.ofInt 64 a &&& BitVec.ofInt 64 b := by
  refine ⟨_, rfl, wrap_inRange _ _, ?_⟩
  rw [ofInt_wrap, natBit, ← ofNat_toNat_wrapU a, ← ofNat_toNat_wrapU b, ← BitVec.ofNat_and]
  rfl

theorem opMethod_or (k : Kind) (a b : Int) :
    ∃ r, opMethod k "|" a b = .ok r ∧ k.inRange r ∧ BitVec.ofInt 64 r = BitVec.ofInt 64 a ||| BitVec.ofInt 64 b := by
  refine ⟨_, rfl, wrap_inRange _ _, ?_⟩
  rw [ofInt_wrap, natBit, ← ofNat_toNat_wrapU a, ← ofNat_toNat_wrapU b, ← BitVec.ofNat_or]
  rfl

theorem opMethod_xor (k : Kind) (a b : Int) :
    ∃ r, opMethod k "^" a b = .ok r ∧ k.inRange r ∧ BitVec.ofInt 64 r = BitVec.ofInt 64 a ^^^ BitVec.ofInt 64 b := by
  refine ⟨_, rfl, wrap_inRange _ _, ?_⟩
  rw [ofInt_wrap, natBit, ← ofNat_toNat_wrapU a, ← ofNat_toNat_wrapU b, ← BitVec.ofNat_xor]
  rfl

theorem notMethod_bitvec (k : Kind) (a : Int) :
    k.inRange (notMethod k a) ∧ BitVec.ofInt 64 (notMethod k a) = ~~~ BitVec.ofInt 64 a := by
  refine ⟨wrap_inRange _ _, ?_⟩
  rw [notMethod, ofInt_wrap, BitVec.not_eq_neg_add, ofInt_sub', BitVec.ofInt_neg]
  rfl

theorem twoPow_eq (n : Nat) : BitVec.ofInt 64 ((2 : Int) ^ n) = BitVec.twoPow 64 n := by
  apply BitVec.eq_of_toNat_eq
  have : ((2 : Int) ^ n) = ((2 ^ n : Nat) : Int) := by simp
  rw [this, BitVec.ofInt_natCast, BitVec.toNat_ofNat, BitVec.toNat_twoPow]

theorem shiftCount_of_defined (b : Int) (h : shiftDefined b) : shiftCount b = (wrapU b).toNat := by
  unfold shiftCount shiftDefined at *
  have : 0 ≤ wrapU b := by consts; omega
  congr 1
  omega

/-- `<<` within the width is the BitVec left shift -/
theorem opMethod_shl (k : Kind) (a b : Int) (h : shiftDefined b) :
    ∃ r, opMethod k "<<" a b = .ok r ∧ k.inRange r ∧ BitVec.ofInt 64 r = BitVec.ofInt 64 a <<< (wrapU b).toNat := by
  refine ⟨_, rfl, wrap_inRange _ _, ?_⟩
  rw [ofInt_wrap, BitVec.ofInt_mul, twoPow_eq, BitVec.shiftLeft_eq_mul_twoPow, shiftCount_of_defined b h]

theorem toInt_ofInt_s64 (a : Int) (h : Kind.s64.inRange a) : (BitVec.ofInt 64 a).toInt = a := by
  rw [BitVec.toInt_ofInt]
  consts
  rw [Int.bmod_def]
  have e : (((2:Nat) ^ 64 : Nat) : Int) = 18446744073709551616 := by decide
  simp only [e]
  split <;> omega

/-- `>>` on s64 within the width is the BitVec arithmetic right shift -/
theorem opMethod_sar (a b : Int) (ha : Kind.s64.inRange a) (h : shiftDefined b) :
    opMethod .s64 ">>" a b = .ok ((BitVec.ofInt 64 a).sshiftRight (wrapU b).toNat).toInt := by
  rw [BitVec.toInt_sshiftRight, toInt_ofInt_s64 a ha, Int.shiftRight_eq_div_pow]
  show Res.ok (wrapS (a / 2 ^ shiftCount b)) = _
  rw [shiftCount_of_defined b h]
  congr 1
  have hp : (0 : Int) < 2 ^ (wrapU b).toNat := Int.pow_pos (by decide)
  have h1 : a / 2 ^ (wrapU b).toNat ≤ a ∨ a / 2 ^ (wrapU b).toNat ≤ 0 := by
    by_cases h0 : 0 ≤ a
    · left; exact Int.ediv_le_self _ h0
    · right
      have : a / 2 ^ (wrapU b).toNat < 0 := Int.ediv_neg_of_neg_of_pos (by omega) hp
      omega
  have h2 : a ≤ a / 2 ^ (wrapU b).toNat ∨ 0 ≤ a / 2 ^ (wrapU b).toNat := by
    by_cases h0 : 0 ≤ a
    · right; exact Int.ediv_nonneg h0 (Int.le_of_lt hp)
    · left
      have h3 := Int.lt_ediv_add_one_mul_self a hp
      have h4 : (1:Int) ≤ 2 ^ (wrapU b).toNat := hp
      generalize a / 2 ^ (wrapU b).toNat = q at *
      generalize (2:Int) ^ (wrapU b).toNat = p at *
      -- a < (q+1)*p, p ≥ 1, a < 0  ⊢ a ≤ q
      by_cases hq : a ≤ q
      · exact hq
      · exfalso
        have : q + 1 ≤ a := by omega
        have h5 : (q + 1) * p ≤ (q + 1) * 1 := by
          apply Int.mul_le_mul_of_nonpos_left (by omega) h4
        omega
  have hr : Kind.s64.inRange (a / 2 ^ (wrapU b).toNat) := by
    consts; omega
  exact wrap_of_inRange .s64 _ hr

theorem tmod_sign_bound (a b : Int) (hb : b ≠ 0) :
    (0 ≤ a → 0 ≤ Int.tmod a b) ∧ (a ≤ 0 → Int.tmod a b ≤ 0) ∧ (Int.tmod a b).natAbs < b.natAbs := by
  refine ⟨fun h => Int.tmod_nonneg b h, fun h => ?_, ?_⟩
  · have h1 := Int.tmod_nonneg b (show 0 ≤ -a by omega)
    rw [Int.neg_tmod] at h1
    omega
  · rw [Int.natAbs_tmod]
    exact Nat.mod_lt _ (by omega)

theorem dvd_iff_tdiv_mul (a b : Int) : b ∣ a ↔ Int.tdiv a b * b = a := by
  constructor
  · exact Int.tdiv_mul_cancel
  · intro h; exact ⟨Int.tdiv a b, by rw [Int.mul_comm]; exact h.symm⟩

theorem fdiv_in_range (a b : Int) (ha : Kind.s64.inRange a) (hmin : ¬ (a = int64Min ∧ b = -1)) :
    Kind.s64.inRange (Int.fdiv a b) := by
  have h1 := Int.natAbs_fdiv_le_natAbs a b
  have h2 := Int.mul_fdiv_add_fmod a b
  have h3 := @Int.fmod_eq_emod a b
  consts
  by_cases hq : Int.fdiv a b = 9223372036854775808
  · exfalso
    rw [hq] at h2
    have ha' : a = -9223372036854775808 := by omega
    subst ha'
    by_cases hb : 0 ≤ b
    · have : 0 ≤ (-9223372036854775808 : Int) % b ∨ b = 0 := by
        by_cases h0 : b = 0
        · right; exact h0
        · left; exact Int.emod_nonneg _ h0
      simp only [hb, true_or, if_true] at h3
      rcases this with h | h
      · omega
      · subst h; simp [Int.fdiv_zero] at hq
    · have hb' : b < 0 := by omega
      have e1 : 0 ≤ (-9223372036854775808 : Int) % b := Int.emod_nonneg _ (by omega)
      have e2 : (-9223372036854775808 : Int) % b < -b := by
        have := Int.emod_lt_of_pos (-9223372036854775808) (show 0 < -b by omega)
        rwa [Int.emod_neg] at this
      split at h3 <;> omega
  · omega

theorem divf_eq_floor_div (g : Bool) (a b : Int) (ha : Kind.s64.inRange a) (hb0 : b ≠ 0)
    (hmin : ¬ (a = int64Min ∧ b = -1)) : divfMethod g a b = .ok (Int.fdiv a b) := by
  have hr := fdiv_in_range a b ha hmin
  unfold divfMethod
  have c1 : ¬ (b = -1 ∧ a = int64Min) := fun h => hmin ⟨h.2, h.1⟩
  have c2 : (g && decide (b = -1) && decide (a = int64Min)) = false := by
    by_cases h1 : b = -1 <;> by_cases h2 : a = int64Min <;> simp [h1, h2] <;> exact absurd ⟨h2, h1⟩ hmin
  rw [if_neg hb0, c2]
  simp only [Bool.false_eq_true, if_false, if_neg c1]
  congr 1
  rw [← wrap_of_inRange .s64 _ hr]
  show wrapS _ = wrapS _
  congr 1
  rw [@Int.fdiv_eq_tdiv a b]
  have hs : b.sign = if 0 < b then 1 else -1 := by
    by_cases h : 0 < b
    · simp [h, Int.sign_eq_one_of_pos h]
    · have : b < 0 := by omega
      simp [h, Int.sign_eq_neg_one_of_neg this]
  rw [hs]
  by_cases hd : b ∣ a
  · have hd' := (dvd_iff_tdiv_mul a b).1 hd
    simp [hd, hd']
  · have hd' : ¬ (Int.tdiv a b * b = a) := fun h => hd ((dvd_iff_tdiv_mul a b).2 h)
    by_cases h1 : a < 0 <;> by_cases h2 : b < 0 <;> simp [hd, hd', h1, h2] <;> omega


theorem fmod_neg_one (a : Int) : Int.fmod a (-1) = 0 := by
  have h := @Int.fmod_eq_emod a (-1)
  have : (-1 : Int) ∣ a := ⟨-a, by omega⟩
  simp [this] at h
  omega

theorem mod_eq_floor_mod (g : Bool) (a b : Int) (ha : Kind.s64.inRange a) (hb : Kind.s64.inRange b) (hb0 : b ≠ 0)
    (hmin : g = true ∨ ¬ (a = int64Min ∧ b = -1)) : modMethod g a b = .ok (Int.fmod a b) := by
  unfold modMethod
  rw [if_neg hb0]
  by_cases hg : (g && decide (b = -1)) = true
  · rw [if_pos hg]
    simp only [Bool.and_eq_true, decide_eq_true_eq] at hg
    rw [hg.2, fmod_neg_one]
  · rw [if_neg hg]
    have c1 : ¬ (b = -1 ∧ a = int64Min) := by
      intro h
      rcases hmin with h1 | h1
      · apply hg; simp [h1, h.1]
      · exact h1 ⟨h.2, h.1⟩
    rw [if_neg c1]
    show Res.ok (wrapS (if (decide (a < 0) != decide (b < 0) && Int.tmod a b != 0) = true then Int.tmod a b + b else Int.tmod a b)) = Res.ok (Int.fmod a b)
    congr 1
    obtain ⟨t1, t2, t3⟩ := tmod_sign_bound a b hb0
    have hf := @Int.fmod_eq_tmod a b
    have hdv := @Int.dvd_iff_tmod_eq_zero b a
    have hr : ∀ v, v = Int.fmod a b → Kind.s64.inRange v := by
      intro v hv
      subst hv
      rw [hf]
      consts
      split <;> (try split) <;> (try split) <;> omega
    rw [← wrap_of_inRange .s64 _ (hr _ rfl)]
    show wrapS _ = wrapS _
    congr 1
    rw [hf]
    by_cases hd : b ∣ a
    · have hx := hdv.1 hd
      simp [hd, hx]
    · have hx : ¬ (Int.tmod a b = 0) := fun h => hd (hdv.2 h)
      by_cases h1 : a < 0 <;> by_cases h2 : b < 0 <;> simp [hd, hx, h1, h2] <;> omega

theorem mod_zero_is_dividend (g : Bool) (a : Int) : modMethod g a 0 = .ok a := by
  unfold modMethod; simp

theorem div_zero_errors (g : Bool) (a : Int) :
    divfMethod g a 0 = .err .divzero ∧ divMethodS g "div" "/" a 0 = .err .divzero ∧ divMethodS g "rem" "%" a 0 = .err .divzero
    ∧ divMethodU "div" "/" a 0 = .err .divzero ∧ divMethodU "rem" "%" a 0 = .err .divzero ∧ divMethodU "mod" "%" a 0 = .ok a := by
  refine ⟨?_, ?_, ?_, ?_, ?_, ?_⟩ <;> simp [divfMethod, divMethodS, divMethodU, Gen.Int64.divzeroErrorsDiv, Gen.Int64.divzeroErrorsRem, Gen.Int64.divzeroErrorsMod]

/-- C's truncating `/` and `%` on s64 (guarded), and `/`, `%` on u64 -/
theorem trunc_div_rem_correct (a b : Int) (hb0 : b ≠ 0) :
    (¬ (a = int64Min ∧ b = -1) → divMethodS true "div" "/" a b = .ok (Int.tdiv a b) ∧ divMethodS true "rem" "%" a b = .ok (Int.tmod a b))
    ∧ ((a = int64Min ∧ b = -1) → divMethodS true "div" "/" a b = .err .minneg ∧ divMethodS true "rem" "%" a b = .err .minneg)
    ∧ divMethodU "div" "/" a b = .ok (a / b) ∧ divMethodU "rem" "%" a b = .ok (a % b) ∧ divMethodU "mod" "%" a b = .ok (a % b) := by
  refine ⟨fun h => ?_, fun h => ?_, ?_, ?_, ?_⟩
  · have c1 : ¬ (b = -1 ∧ a = int64Min) := fun h' => h ⟨h'.2, h'.1⟩
    have c2 : (true && decide (b = -1) && decide (a = int64Min)) = false := by
      by_cases h1 : b = -1 <;> by_cases h2 : a = int64Min <;> simp [h1, h2] <;> exact absurd ⟨h2, h1⟩ h
    constructor <;> (unfold divMethodS; rw [if_neg hb0, c2]; simp [c1])
  · constructor <;> (unfold divMethodS; rw [if_neg hb0]; simp [h.1, h.2])
  · unfold divMethodU; rw [if_neg hb0]; simp
  · unfold divMethodU; rw [if_neg hb0]; simp
  · unfold divMethodU; rw [if_neg hb0]; simp


theorem divMethodS_ub_iff (g : Bool) (name oper : String) (a b : Int) :
    divMethodS g name oper a b = .ub ↔ (g = false ∧ a = int64Min ∧ b = -1) := by
  unfold divMethodS
  by_cases hb0 : b = 0
  · subst hb0
    simp only [if_true]
    constructor
    · intro h; exfalso; revert h; split <;> (try split) <;> simp
    · intro h; omega
  · rw [if_neg hb0]
    by_cases h1 : b = -1 <;> by_cases h2 : a = int64Min <;> cases g <;> simp [h1, h2] <;> (try split) <;> simp

theorem divfMethod_ub_iff (g : Bool) (a b : Int) :
    divfMethod g a b = .ub ↔ (g = false ∧ a = int64Min ∧ b = -1) := by
  unfold divfMethod
  by_cases hb0 : b = 0
  · subst hb0; simp
  · rw [if_neg hb0]
    by_cases h1 : b = -1 <;> by_cases h2 : a = int64Min <;> cases g <;> simp [h1, h2]

theorem modMethod_ub_iff (g : Bool) (a b : Int) :
    modMethod g a b = .ub ↔ (g = false ∧ a = int64Min ∧ b = -1) := by
  unfold modMethod
  by_cases hb0 : b = 0
  · subst hb0; simp
  · rw [if_neg hb0]
    by_cases h1 : b = -1 <;> by_cases h2 : a = int64Min <;> cases g <;> simp [h1, h2]

theorem divMethodU_ne_ub (name oper : String) (a b : Int) : divMethodU name oper a b ≠ .ub := by
  unfold divMethodU
  split
  · split <;> (try split) <;> simp
  · split <;> simp

theorem opMethod_ne_ub (k : Kind) (oper : String) (a b : Int) : opMethod k oper a b ≠ .ub := by
  unfold opMethod
  split <;> simp

theorem unwrap_ne_ub (k : Kind) (v : Val) : unwrap k v ≠ .ub := by
  cases k <;> cases v <;> simp [unwrap, unwrapS, unwrapU] <;> split <;> simp

/-- the arithmetic method bodies of inttypes.c, as instantiated by configuration `c`, never perform an undefined
    C operation — exactly when every signed `/` and `%` is guarded -/
def ArithNoUb (c : Cfg) : Prop :=
  ∀ (name oper : String) (a b : Int),
    divMethodS c.guardDiv name oper a b ≠ .ub ∧ divMethodS c.guardDivi name oper a b ≠ .ub ∧
    divfMethod c.guardDivf a b ≠ .ub ∧ divfMethod c.guardDivfi a b ≠ .ub ∧
    modMethod c.guardMod a b ≠ .ub ∧ modMethod c.guardModi a b ≠ .ub ∧
    divMethodU name oper a b ≠ .ub ∧ (∀ k, opMethod k oper a b ≠ .ub)

theorem no_ub_iff_guarded (c : Cfg) : ArithNoUb c ↔ c.allGuarded = true := by
  constructor
  · intro h
    have w := h "div" "/" int64Min (-1)
    simp only [ne_eq, divMethodS_ub_iff, divfMethod_ub_iff, modMethod_ub_iff, and_true] at w
    unfold Cfg.allGuarded
    obtain ⟨w1, w2, w3, w4, w5, w6, _⟩ := w
    cases h1 : c.guardDiv <;> cases h2 : c.guardDivi <;> cases h3 : c.guardDivf <;> cases h4 : c.guardDivfi <;>
      cases h5 : c.guardMod <;> cases h6 : c.guardModi <;> simp_all
  · intro h name oper a b
    unfold Cfg.allGuarded at h
    simp only [Bool.and_eq_true] at h
    obtain ⟨⟨⟨⟨⟨h1, h2⟩, h3⟩, h4⟩, h5⟩, h6⟩ := h
    refine ⟨?_, ?_, ?_, ?_, ?_, ?_, divMethodU_ne_ub _ _ _ _, fun k => opMethod_ne_ub k _ _ _⟩ <;>
      simp [divMethodS_ub_iff, divfMethod_ub_iff, modMethod_ub_iff, h1, h2, h3, h4, h5, h6]

/-- the part that holds on every tree: nothing but INT64_MIN / -1 can be undefined -/
theorem no_ub_partial (c : Cfg) (name oper : String) (a b : Int) (h : ¬ (a = int64Min ∧ b = -1)) :
    divMethodS c.guardDiv name oper a b ≠ .ub ∧ divMethodS c.guardDivi name oper a b ≠ .ub ∧
    divfMethod c.guardDivf a b ≠ .ub ∧ divfMethod c.guardDivfi a b ≠ .ub ∧
    modMethod c.guardMod a b ≠ .ub ∧ modMethod c.guardModi a b ≠ .ub := by
  simp only [ne_eq, divMethodS_ub_iff, divfMethod_ub_iff, modMethod_ub_iff]
  refine ⟨?_, ?_, ?_, ?_, ?_, ?_⟩ <;> (intro h'; exact h ⟨h'.2.1, h'.2.2⟩)

/-- the pinned tree reaches an undefined C operation: `(div (int/s64 "-9223372036854775808") -1)`, `(mod ... -1)` -/
theorem ub_reachable_on_pinned :
    divfMethod cfgPinned.guardDivf int64Min (-1) = .ub ∧ modMethod cfgPinned.guardMod int64Min (-1) = .ub ∧
    callCfun2 cfgPinned .s64 "s64_divf" (.s64 int64Min) (.num 0xbff0000000000000) = .ub := by
  refine ⟨by decide, by decide, by decide⟩


/-- decoded doubles have a 53-bit mantissa -/
def Dbl.wf : Dbl → Prop
  | .fin _ m _ => m < 9007199254740992
  | _ => True

theorem decode_wf (b : Nat) : (decode b).wf := by
  unfold decode
  simp only []
  split
  · split <;> simp [Dbl.wf]
  · split
    · simp only [Dbl.wf]; omega
    · simp only [Dbl.wf]; omega

theorem cmpIntDbl_fin (n : Int) (neg : Bool) (m : Nat) (e : Int) :
    cmpIntDbl n (.fin neg m e) =
      if 0 ≤ e then cmp3 n (smant neg m * 2 ^ e.toNat) else cmp3 (n * 2 ^ (-e).toNat) (smant neg m) := by
  unfold cmpIntDbl cmpDyadic
  by_cases he : 0 ≤ e
  · have h1 : min 0 e = 0 := by omega
    simp [h1, he]
  · have h1 : min 0 e = e := by omega
    have h2 : (0 - e) = -e := by omega
    simp [h1, he, h2]

theorem smant_abs (neg : Bool) (m : Nat) : -(m : Int) ≤ smant neg m ∧ smant neg m ≤ (m : Int) := by
  unfold smant; cases neg <;> simp <;> omega

theorem rnd53_small (x : Int) (h : -two53 < x ∧ x < two53) : rnd53 x = x := by
  simp only [rnd53]
  consts
  rw [if_pos (by omega)]

theorem rnd53_big (x : Int) : (two53 ≤ x → two53 ≤ rnd53 x) ∧ (x ≤ -two53 → rnd53 x ≤ -two53) := by
  have key : ∀ a : Nat, 9007199254740992 ≤ a →
      9007199254740992 ≤ (if a % 2 ^ (a.log2 - 52) > 2 ^ (a.log2 - 52 - 1) ∨ (a % 2 ^ (a.log2 - 52) = 2 ^ (a.log2 - 52 - 1) ∧ a / 2 ^ (a.log2 - 52) % 2 = 1)
        then a / 2 ^ (a.log2 - 52) + 1 else a / 2 ^ (a.log2 - 52)) * 2 ^ (a.log2 - 52) := by
    intro a ha
    have hne : a ≠ 0 := by omega
    have hl := Nat.log2_self_le hne
    have h53 : 53 ≤ a.log2 := by
      have : 2 ^ 53 ≤ a := by simpa using ha
      exact (Nat.le_log2 hne).2 this
    have hk : a.log2 = (a.log2 - 52) + 52 := by omega
    generalize a.log2 - 52 = k at *
    have hk1 : 1 ≤ k := by omega
    have hq : 2 ^ 52 ≤ a / 2 ^ k := by
      rw [Nat.le_div_iff_mul_le (Nat.two_pow_pos k)]
      calc 2 ^ 52 * 2 ^ k = 2 ^ (k + 52) := by rw [Nat.pow_add, Nat.mul_comm]
        _ = 2 ^ a.log2 := by rw [← hk]
        _ ≤ a := hl
    have h2k : 2 ≤ 2 ^ k := by
      calc 2 = 2 ^ 1 := rfl
        _ ≤ 2 ^ k := Nat.pow_le_pow_right (by decide) hk1
    have : 2 ^ 52 * 2 ≤ (a / 2 ^ k) * 2 ^ k := Nat.mul_le_mul hq h2k
    split
    · have : (a / 2 ^ k) * 2 ^ k ≤ (a / 2 ^ k + 1) * 2 ^ k := Nat.mul_le_mul_right _ (by omega)
      omega
    · omega
  have key' : ∀ a : Nat, 9007199254740992 ≤ a →
      (9007199254740992 : Int) ≤ Int.ofNat ((if a % 2 ^ (a.log2 - 52) > 2 ^ (a.log2 - 52 - 1) ∨ (a % 2 ^ (a.log2 - 52) = 2 ^ (a.log2 - 52 - 1) ∧ a / 2 ^ (a.log2 - 52) % 2 = 1)
        then a / 2 ^ (a.log2 - 52) + 1 else a / 2 ^ (a.log2 - 52)) * 2 ^ (a.log2 - 52)) :=
    fun a ha => Int.ofNat_le.2 (key a ha)
  constructor
  · intro h
    simp only [rnd53]
    consts
    have hna : 9007199254740992 ≤ x.natAbs := by omega
    rw [if_neg (by omega), if_neg (by omega)]
    exact key' x.natAbs hna
  · intro h
    simp only [rnd53]
    consts
    have hna : 9007199254740992 ≤ x.natAbs := by omega
    rw [if_neg (by omega), if_pos (by omega)]
    have := key' x.natAbs hna
    omega


theorem rnd53_cases (x : Int) :
    (-9007199254740992 < x ∧ x < 9007199254740992 ∧ rnd53 x = x) ∨ (9007199254740992 ≤ x ∧ 9007199254740992 ≤ rnd53 x) ∨
    (x ≤ -9007199254740992 ∧ rnd53 x ≤ -9007199254740992) := by
  have h1 := rnd53_small x
  have h2 := rnd53_big x
  consts
  by_cases a : 9007199254740992 ≤ x
  · right; left; exact ⟨a, h2.1 a⟩
  · by_cases b : x ≤ -9007199254740992
    · right; right; exact ⟨b, h2.2 b⟩
    · left; exact ⟨by omega, by omega, h1 ⟨by omega, by omega⟩⟩

theorem pow2_ge_one (n : Nat) : (1 : Int) ≤ 2 ^ n := Int.pow_pos (by decide)

theorem cmp3_eq_neg_one (a b : Int) : cmp3 a b = -1 ↔ a < b := by unfold cmp3; split <;> (try split) <;> omega
theorem cmp3_eq_one (a b : Int) : cmp3 a b = 1 ↔ b < a := by unfold cmp3; split <;> (try split) <;> omega
theorem cmp3_le_zero (a b : Int) : cmp3 a b ≤ 0 ↔ a ≤ b := by unfold cmp3; split <;> (try split) <;> omega
theorem cmp3_of_lt {a b : Int} (h : a < b) : cmp3 a b = -1 := (cmp3_eq_neg_one a b).2 h
theorem cmp3_of_gt {a b : Int} (h : b < a) : cmp3 a b = 1 := (cmp3_eq_one a b).2 h

/-- core of the signed comparison, on plain integers: `w` is the (scaled) value of the double, `xp`/`rp` the (scaled)
    integer and its rounding -/
theorem cmpS_core (xp rp w lo hi : Int) (_hh : lo ≤ hi)
    (hr : (lo < xp ∧ xp < hi ∧ rp = xp) ∨ (hi ≤ xp ∧ hi ≤ rp) ∨ (xp ≤ lo ∧ rp ≤ lo)) (c1 : lo < w ∧ w < hi) :
    cmp3 rp w = cmp3 xp w := by
  rcases hr with ⟨_, _, e⟩ | ⟨a, b⟩ | ⟨a, b⟩
  · rw [e]
  · rw [cmp3_of_gt (show w < rp by omega), cmp3_of_gt (show w < xp by omega)]
  · rw [cmp3_of_lt (show rp < w by omega), cmp3_of_lt (show xp < w by omega)]

theorem compareInt64Double_correct (c : Cfg) (hu : c.cmpSUpperIncl = true) (hl : c.cmpSLowerIncl = false)
    (x : Int) (hx : Kind.s64.inRange x) (y : Dbl) (hy : y ≠ .nan) (hw : y.wf) :
    compareInt64Double c x y = .ok (cmpIntDbl x y) := by
  cases y with
  | nan => exact absurd rfl hy
  | inf neg => cases neg <;> simp [compareInt64Double, cmpIntDbl, hu, hl]
  | fin neg m e =>
    have hv := smant_abs neg m
    simp only [Dbl.wf] at hw
    unfold compareInt64Double
    simp only [cmpIntDbl_fin, hu, hl, if_true, Dbl.trunc?]
    consts
    have hr := rnd53_cases x
    by_cases he : 0 ≤ e
    · simp only [he, if_true, cmp3_eq_neg_one, cmp3_eq_one, cmp3_le_zero]
      generalize smant neg m * 2 ^ e.toNat = w
      by_cases c1 : -9007199254740992 < w ∧ w < 9007199254740992
      · rw [if_pos c1, cmpS_core x (rnd53 x) w _ _ (by decide) hr c1]
      · rw [if_neg c1]
        by_cases c2 : 9223372036854775808 ≤ w
        · rw [if_pos c2, cmp3_of_lt (show x < w by omega)]
        · rw [if_neg c2]
          by_cases c3 : w < -9223372036854775808
          · simp only [Bool.false_eq_true, if_false]; rw [if_pos c3, cmp3_of_gt (show w < x by omega)]
          · simp only [Bool.false_eq_true, if_false]; rw [if_neg c3, if_pos (by omega)]
    · simp only [he, if_false, cmp3_eq_neg_one, cmp3_eq_one, cmp3_le_zero]
      have hP := pow2_ge_one (-e).toNat
      generalize (2 : Int) ^ (-e).toNat = P at *
      generalize smant neg m = v at *
      have c1 : -9007199254740992 * P < v ∧ v < 9007199254740992 * P := by omega
      rw [if_pos c1]
      congr 1
      have hr' : (-9007199254740992 * P < x * P ∧ x * P < 9007199254740992 * P ∧ rnd53 x * P = x * P) ∨
          (9007199254740992 * P ≤ x * P ∧ 9007199254740992 * P ≤ rnd53 x * P) ∨
          (x * P ≤ -9007199254740992 * P ∧ rnd53 x * P ≤ -9007199254740992 * P) := by
        have hP0 : (0 : Int) < P := by omega
        rcases hr with ⟨a, b, e⟩ | ⟨a, b⟩ | ⟨a, b⟩
        · left; exact ⟨Int.mul_lt_mul_of_pos_right a hP0, Int.mul_lt_mul_of_pos_right b hP0, by rw [e]⟩
        · right; left; exact ⟨Int.mul_le_mul_of_nonneg_right a (by omega), Int.mul_le_mul_of_nonneg_right b (by omega)⟩
        · right; right; exact ⟨Int.mul_le_mul_of_nonneg_right a (by omega), Int.mul_le_mul_of_nonneg_right b (by omega)⟩
      exact cmpS_core (x * P) (rnd53 x * P) v _ _ (by omega) hr' c1


theorem cmp3_eq_zero (a b : Int) : cmp3 a b = 0 ↔ a = b := by unfold cmp3; split <;> (try split) <;> omega

/-- signed, any configuration whose lower test is exclusive: correct for every double except (when the upper test is
    exclusive too) the single value 2^63 -/
theorem compareInt64Double_partial (c : Cfg) (hl : c.cmpSLowerIncl = false)
    (x : Int) (hx : Kind.s64.inRange x) (y : Dbl) (hy : y ≠ .nan) (hw : y.wf)
    (hu : c.cmpSUpperIncl = true ∨ cmpIntDbl two63 y ≠ 0) :
    compareInt64Double c x y = .ok (cmpIntDbl x y) := by
  rcases hu with hu | hu
  · exact compareInt64Double_correct c hu hl x hx y hy hw
  · cases hi : c.cmpSUpperIncl
    · cases y with
      | nan => exact absurd rfl hy
      | inf neg => cases neg <;> simp [compareInt64Double, cmpIntDbl, hi, hl]
      | fin neg m e =>
        have hv := smant_abs neg m
        simp only [Dbl.wf] at hw
        unfold compareInt64Double
        simp only [cmpIntDbl_fin, hi, hl, Dbl.trunc?] at hu ⊢
        consts
        have hr := rnd53_cases x
        by_cases he : 0 ≤ e
        · simp only [he, if_true, cmp3_eq_neg_one, cmp3_eq_one, cmp3_le_zero, ne_eq, cmp3_eq_zero] at hu ⊢
          generalize smant neg m * 2 ^ e.toNat = w at *
          by_cases c1 : -9007199254740992 < w ∧ w < 9007199254740992
          · rw [if_pos c1, cmpS_core x (rnd53 x) w _ _ (by decide) hr c1]
          · rw [if_neg c1]
            simp only [Bool.false_eq_true, if_false]
            by_cases c2 : 9223372036854775808 < w
            · rw [if_pos c2, cmp3_of_lt (show x < w by omega)]
            · rw [if_neg c2]
              by_cases c3 : w < -9223372036854775808
              · rw [if_pos c3, cmp3_of_gt (show w < x by omega)]
              · rw [if_neg c3, if_pos (by omega)]
        · simp only [he, if_false, cmp3_eq_neg_one, cmp3_eq_one, cmp3_le_zero]
          have hP := pow2_ge_one (-e).toNat
          generalize (2 : Int) ^ (-e).toNat = P at *
          generalize smant neg m = v at *
          have c1 : -9007199254740992 * P < v ∧ v < 9007199254740992 * P := by omega
          rw [if_pos c1]
          congr 1
          have hr' : (-9007199254740992 * P < x * P ∧ x * P < 9007199254740992 * P ∧ rnd53 x * P = x * P) ∨
              (9007199254740992 * P ≤ x * P ∧ 9007199254740992 * P ≤ rnd53 x * P) ∨
              (x * P ≤ -9007199254740992 * P ∧ rnd53 x * P ≤ -9007199254740992 * P) := by
            have hP0 : (0 : Int) < P := by omega
            rcases hr with ⟨a, b, e⟩ | ⟨a, b⟩ | ⟨a, b⟩
            · left; exact ⟨Int.mul_lt_mul_of_pos_right a hP0, Int.mul_lt_mul_of_pos_right b hP0, by rw [e]⟩
            · right; left; exact ⟨Int.mul_le_mul_of_nonneg_right a (by omega), Int.mul_le_mul_of_nonneg_right b (by omega)⟩
            · right; right; exact ⟨Int.mul_le_mul_of_nonneg_right a (by omega), Int.mul_le_mul_of_nonneg_right b (by omega)⟩
          exact cmpS_core (x * P) (rnd53 x * P) v _ _ (by omega) hr' c1
    · exact compareInt64Double_correct c hi hl x hx y hy hw

/-- unsigned: correct for every double except (when the upper test is exclusive) the single value 2^64 -/
theorem compareUint64Double_partial (c : Cfg)
    (x : Int) (hx : Kind.u64.inRange x) (y : Dbl) (hy : y ≠ .nan) (hw : y.wf)
    (hu : c.cmpUUpperIncl = true ∨ cmpIntDbl two64 y ≠ 0) :
    compareUint64Double c x y = .ok (cmpIntDbl x y) := by
  cases y with
  | nan => exact absurd rfl hy
  | inf neg => cases neg <;> cases hi : c.cmpUUpperIncl <;> simp [compareUint64Double, cmpIntDbl, hi]
  | fin neg m e =>
    have hv := smant_abs neg m
    simp only [Dbl.wf] at hw
    unfold compareUint64Double
    simp only [cmpIntDbl_fin, Dbl.trunc?] at hu ⊢
    consts
    have hr := rnd53_cases x
    by_cases he : 0 ≤ e
    · simp only [he, if_true, cmp3_eq_neg_one, cmp3_eq_one, cmp3_le_zero, ne_eq, cmp3_eq_zero] at hu ⊢
      generalize smant neg m * 2 ^ e.toNat = w at *
      by_cases c0 : w < 0
      · rw [if_pos c0, cmp3_of_gt (show w < x by omega)]
      · rw [if_neg c0]
        by_cases c1 : 0 ≤ w ∧ w < 9007199254740992
        · rw [if_pos c1]
          congr 1
          rcases hr with ⟨_, _, e⟩ | ⟨a, b⟩ | ⟨a, b⟩
          · rw [e]
          · rw [cmp3_of_gt (show w < rnd53 x by omega), cmp3_of_gt (show w < x by omega)]
          · omega
        · rw [if_neg c1]
          by_cases c2 : 18446744073709551616 < w
          · have : (if c.cmpUUpperIncl = true then 18446744073709551616 ≤ w else 18446744073709551616 < w) := by
              split <;> omega
            rw [if_pos this, cmp3_of_lt (show x < w by omega)]
          · by_cases c3 : w = 18446744073709551616
            · rcases hu with hu | hu
              · rw [hu]; simp only [if_true]; rw [if_pos (by omega), cmp3_of_lt (show x < w by omega)]
              · exact absurd c3.symm hu
            · have : ¬ (if c.cmpUUpperIncl = true then 18446744073709551616 ≤ w else 18446744073709551616 < w) := by
                split <;> omega
              rw [if_neg this, if_pos (by omega)]
    · simp only [he, if_false, cmp3_eq_neg_one, cmp3_eq_one, cmp3_le_zero]
      have hP := pow2_ge_one (-e).toNat
      generalize (2 : Int) ^ (-e).toNat = P at *
      generalize smant neg m = v at *
      have hP0 : (0 : Int) < P := by omega
      by_cases c0 : v < 0 * P
      · rw [if_pos c0]
        have : 0 * P ≤ x * P := Int.mul_le_mul_of_nonneg_right hx.1 (by omega)
        rw [cmp3_of_gt (show v < x * P by omega)]
      · rw [if_neg c0]
        have c1 : 0 * P ≤ v ∧ v < 9007199254740992 * P := by omega
        rw [if_pos c1]
        congr 1
        rcases hr with ⟨a, b, e⟩ | ⟨a, b⟩ | ⟨a, b⟩
        · rw [e]
        · have h1 := Int.mul_le_mul_of_nonneg_right a (show 0 ≤ P by omega)
          have h2 := Int.mul_le_mul_of_nonneg_right b (show 0 ≤ P by omega)
          rw [cmp3_of_gt (show v < rnd53 x * P by omega), cmp3_of_gt (show v < x * P by omega)]
        · omega


/-- s64 against u64 (both directions): ordered by mathematical value -/
theorem compareMethod_ints (c : Cfg) (x y : Int) (hx : Kind.s64.inRange x) (hy : Kind.u64.inRange y) :
    compareMethod c .s64 x (.u64 y) = .ok (some (cmp3 x y)) ∧ compareMethod c .u64 y (.s64 x) = .ok (some (cmp3 y x)) ∧
    compareMethod c .s64 x (.s64 y) = .ok (some (cmp3 x y)) ∧ compareMethod c .u64 x (.u64 y) = .ok (some (cmp3 x y)) := by
  consts
  refine ⟨?_, ?_, rfl, rfl⟩
  · simp only [compareMethod]
    consts
    congr 2
    unfold cmp3
    (repeat' split) <;> omega
  · simp only [compareMethod]
    consts
    congr 2
    unfold cmp3
    (repeat' split) <;> omega

/-- on the pinned tree the value 2^63 (resp. 2^64) reaches the double -> integer cast, which is undefined for it -/
theorem compare_ub_on_pinned :
    compareInt64Double cfgPinned 5 (decode 0x43e0000000000000) = .ub ∧ cmpIntDbl 5 (decode 0x43e0000000000000) = -1 ∧
    compareUint64Double cfgPinned 5 (decode 0x43f0000000000000) = .ub ∧ cmpIntDbl 5 (decode 0x43f0000000000000) = -1 := by
  refine ⟨by decide, by decide, by decide, by decide⟩

theorem varopFold_eq_foldl (c : Cfg) (N : NumOps) (t o : String) (acc : Res Val) (rest : List Val) :
    varopFold c N t o acc rest = rest.foldl (fun acc z => acc.bind (fun a => vmOp c N t o a z)) acc := by
  induction rest generalizing acc with
  | nil => rfl
  | cons z rest ih =>
    cases acc with
    | ok a => simp only [varopFold, List.foldl, Res.bind]; exact ih _
    | err e =>
      simp only [varopFold, List.foldl, Res.bind]
      clear ih
      induction rest with
      | nil => rfl
      | cons _ _ ih2 => simpa [List.foldl, Res.bind] using ih2
    | ub =>
      simp only [varopFold, List.foldl, Res.bind]
      clear ih
      induction rest with
      | nil => rfl
      | cons _ _ ih2 => simpa [List.foldl, Res.bind] using ih2


/-! ## the VM's 32-bit bitwise opcodes on numbers -/

theorem ediv_pow_bounds (a : Int) (n : Nat) :
    (0 ≤ a → 0 ≤ a / 2 ^ n ∧ a / 2 ^ n ≤ a) ∧ (a < 0 → a ≤ a / 2 ^ n ∧ a / 2 ^ n < 0) := by
  have hp : (0 : Int) < 2 ^ n := Int.pow_pos (by decide)
  constructor
  · intro h0; exact ⟨Int.ediv_nonneg h0 (Int.le_of_lt hp), Int.ediv_le_self _ h0⟩
  · intro h0
    have hneg : a / 2 ^ n < 0 := Int.ediv_neg_of_neg_of_pos h0 hp
    refine ⟨?_, hneg⟩
    have h3 := Int.lt_ediv_add_one_mul_self a hp
    have h4 : (1:Int) ≤ 2 ^ n := hp
    generalize a / 2 ^ n = q at *
    generalize (2:Int) ^ n = p at *
    by_cases hq : a ≤ q
    · exact hq
    · exfalso
      have : q + 1 ≤ a := by omega
      have h5 : (q + 1) * p ≤ (q + 1) * 1 := Int.mul_le_mul_of_nonpos_left (by omega) h4
      omega

theorem ofInt32_congr {x y : Int} (h : x % two32 = y % two32) : BitVec.ofInt 32 x = BitVec.ofInt 32 y := by
  apply BitVec.eq_of_toNat_eq
  simp only [BitVec.toNat_ofInt]
  consts
  have e : ((2 ^ 32 : Nat) : Int) = 4294967296 := by decide
  rw [e, h]

theorem ofInt32_wrapS32 (x : Int) : BitVec.ofInt 32 (wrapS32 x) = BitVec.ofInt 32 x := by
  apply ofInt32_congr; consts; split <;> omega
theorem ofInt32_wrapU32 (x : Int) : BitVec.ofInt 32 (wrapU32 x) = BitVec.ofInt 32 x := by
  apply ofInt32_congr; consts; omega

theorem ofNat32_toNat_wrapU (x : Int) : BitVec.ofNat 32 (wrapU x).toNat = BitVec.ofInt 32 x := by
  apply BitVec.eq_of_toNat_eq
  simp only [BitVec.toNat_ofInt, BitVec.toNat_ofNat]
  consts
  have e : ((2 ^ 32 : Nat) : Int) = 4294967296 := by decide
  rw [e]
  omega

theorem twoPow32_eq (n : Nat) : BitVec.ofInt 32 ((2 : Int) ^ n) = BitVec.twoPow 32 n := by
  apply BitVec.eq_of_toNat_eq
  have : ((2 : Int) ^ n) = ((2 ^ n : Nat) : Int) := by simp
  rw [this, BitVec.ofInt_natCast, BitVec.toNat_ofNat, BitVec.toNat_twoPow]

/-- the 32-bit result type of the VM's bitwise opcodes -/
def inRange32 (unsigned : Bool) (r : Int) : Prop := if unsigned then 0 ≤ r ∧ r < two32 else -two31 ≤ r ∧ r < two31

theorem wrap32_inRange (u : Bool) (x : Int) : inRange32 u (wrap32 u x) := by
  cases u <;> simp [inRange32, wrap32, wrapU32, wrapS32, two32, two31] <;> (try split) <;> omega
theorem ofInt32_wrap32 (u : Bool) (x : Int) : BitVec.ofInt 32 (wrap32 u x) = BitVec.ofInt 32 x := by
  cases u
  · simpa [wrap32] using ofInt32_wrapS32 x
  · simpa [wrap32] using ofInt32_wrapU32 x
theorem wrap32_of_inRange (u : Bool) (x : Int) (h : inRange32 u x) : wrap32 u x = x := by
  cases u <;> simp [inRange32, wrap32, wrapU32, wrapS32, two32, two31] at * <;> (try split) <;> omega

theorem bitop32_and (u : Bool) (x1 x2 : Int) :
    ∃ r, bitop32Value u "&" x1 x2 = some r ∧ inRange32 u r ∧ BitVec.ofInt 32 r = BitVec.ofInt 32 x1 &&& BitVec.ofInt 32 x2 := by
  refine ⟨_, rfl, wrap32_inRange _ _, ?_⟩
  rw [ofInt32_wrap32, natBit, ← ofNat32_toNat_wrapU x1, ← ofNat32_toNat_wrapU x2, ← BitVec.ofNat_and]; rfl
theorem bitop32_or (u : Bool) (x1 x2 : Int) :
    ∃ r, bitop32Value u "|" x1 x2 = some r ∧ inRange32 u r ∧ BitVec.ofInt 32 r = BitVec.ofInt 32 x1 ||| BitVec.ofInt 32 x2 := by
  refine ⟨_, rfl, wrap32_inRange _ _, ?_⟩
  rw [ofInt32_wrap32, natBit, ← ofNat32_toNat_wrapU x1, ← ofNat32_toNat_wrapU x2, ← BitVec.ofNat_or]; rfl
theorem bitop32_xor (u : Bool) (x1 x2 : Int) :
    ∃ r, bitop32Value u "^" x1 x2 = some r ∧ inRange32 u r ∧ BitVec.ofInt 32 r = BitVec.ofInt 32 x1 ^^^ BitVec.ofInt 32 x2 := by
  refine ⟨_, rfl, wrap32_inRange _ _, ?_⟩
  rw [ofInt32_wrap32, natBit, ← ofNat32_toNat_wrapU x1, ← ofNat32_toNat_wrapU x2, ← BitVec.ofNat_xor]; rfl

theorem shiftCount32_of_defined (x2 : Int) (h : 0 ≤ x2 ∧ x2 < 32) : shiftCount32 x2 = x2.toNat := by
  unfold shiftCount32; congr 1; omega

theorem bitop32_shl (u : Bool) (x1 x2 : Int) (h : 0 ≤ x2 ∧ x2 < 32) :
    ∃ r, bitop32Value u "<<" x1 x2 = some r ∧ inRange32 u r ∧ BitVec.ofInt 32 r = BitVec.ofInt 32 x1 <<< x2.toNat := by
  refine ⟨_, rfl, wrap32_inRange _ _, ?_⟩
  rw [ofInt32_wrap32, BitVec.ofInt_mul, twoPow32_eq, BitVec.shiftLeft_eq_mul_twoPow, shiftCount32_of_defined x2 h]

theorem toInt_ofInt_s32 (a : Int) (h : -two31 ≤ a ∧ a < two31) : (BitVec.ofInt 32 a).toInt = a := by
  rw [BitVec.toInt_ofInt]
  consts
  rw [Int.bmod_def]
  have e : (((2:Nat) ^ 32 : Nat) : Int) = 4294967296 := by decide
  simp only [e]
  split <;> omega

theorem toNat_ofInt_u32 (a : Int) (h : 0 ≤ a ∧ a < two32) : ((BitVec.ofInt 32 a).toNat : Int) = a := by
  rw [BitVec.toNat_ofInt]
  consts
  have e : (((2:Nat) ^ 32 : Nat) : Int) = 4294967296 := by decide
  rw [e]
  omega

/-- `brshift` on int32: arithmetic shift -/
theorem bitop32_sar (x1 x2 : Int) (h1 : -two31 ≤ x1 ∧ x1 < two31) (h : 0 ≤ x2 ∧ x2 < 32) :
    bitop32Value false ">>" x1 x2 = some ((BitVec.ofInt 32 x1).sshiftRight x2.toNat).toInt := by
  rw [BitVec.toInt_sshiftRight, toInt_ofInt_s32 x1 h1, Int.shiftRight_eq_div_pow]
  show some (wrap32 false (x1 / 2 ^ shiftCount32 x2)) = _
  rw [shiftCount32_of_defined x2 h]
  congr 1
  have hb := ediv_pow_bounds x1 x2.toNat
  apply wrap32_of_inRange
  simp only [inRange32]
  consts
  simp only [Bool.false_eq_true, if_false]
  by_cases h0 : 0 ≤ x1
  · have := hb.1 h0; omega
  · have := hb.2 (by omega); omega

/-- `brushift` on uint32: logical shift -/
theorem bitop32_shr (x1 x2 : Int) (h1 : 0 ≤ x1 ∧ x1 < two32) (h : 0 ≤ x2 ∧ x2 < 32) :
    ∃ r, bitop32Value true ">>" x1 x2 = some r ∧ r = (((BitVec.ofInt 32 x1) >>> x2.toNat).toNat : Int) := by
  refine ⟨_, rfl, ?_⟩
  rw [BitVec.toNat_ushiftRight, Nat.shiftRight_eq_div_pow]
  rw [shiftCount32_of_defined x2 h]
  have hb := (ediv_pow_bounds x1 x2.toNat).1 h1.1
  have e : (((BitVec.ofInt 32 x1).toNat / 2 ^ x2.toNat : Nat) : Int) = x1 / 2 ^ x2.toNat := by
    rw [Int.natCast_ediv, toNat_ofInt_u32 x1 h1]; simp
  rw [e]
  apply wrap32_of_inRange
  simp only [inRange32]
  consts
  simp; omega

theorem checkIntRange_iff (d : Dbl) (n : Int) :
    (checkIntRange d = some n ↔ d.toInt? = some n ∧ -two31 ≤ n ∧ n < two31) ∧
    (checkUintRange d = some n ↔ d.toInt? = some n ∧ 0 ≤ n ∧ n < two32) := by
  unfold checkIntRange checkUintRange
  constructor <;> (cases h : d.toInt? <;> simp)
  · constructor
    · rintro ⟨h1, h2⟩; subst h2; exact ⟨rfl, h1⟩
    · rintro ⟨h1, h2⟩; subst h1; exact ⟨h2, rfl⟩
  · constructor
    · rintro ⟨h1, h2⟩; subst h2; exact ⟨rfl, h1⟩
    · rintro ⟨h1, h2⟩; subst h1; exact ⟨h2, rfl⟩


/-! ## n-ary calls -/

theorem unwrap_box (k : Kind) (b : Int) : unwrap k (Val.box k b) = .ok b := by cases k <;> rfl

/-- n-ary `+` method: the loop adds every operand, result = the sum reduced mod 2^64 into the type -/
theorem methodLoop_add (k : Kind) (a : Int) (bs : List Int) :
    ∃ r, methodLoop k (opMethod k "+") none a (bs.map (Val.box k)) = .ok r ∧ (bs = [] ∨ k.inRange r) ∧
      BitVec.ofInt 64 r = BitVec.ofInt 64 (a + bs.sum) := by
  induction bs generalizing a with
  | nil => exact ⟨a, rfl, Or.inl rfl, by simp⟩
  | cons b bs ih =>
    obtain ⟨r1, h1, hr1, e1⟩ := opMethod_add k a b
    obtain ⟨r, h, hr, e⟩ := ih r1
    refine ⟨r, ?_, Or.inr ?_, ?_⟩
    · simp only [List.map, methodLoop, unwrap_box, Option.isSome_none, Bool.false_and, Bool.false_eq_true, if_false, h1]
      exact h
    · rcases hr with rfl | hr
      · simp only [List.map, methodLoop] at h; injection h with h; subst h; exact hr1
      · exact hr
    · rw [e, List.sum_cons, BitVec.ofInt_add, e1, BitVec.ofInt_add, BitVec.ofInt_add, BitVec.add_assoc]

/-- n-ary `*` method -/
theorem methodLoop_mul (k : Kind) (a : Int) (bs : List Int) :
    ∃ r, methodLoop k (opMethod k "*") none a (bs.map (Val.box k)) = .ok r ∧
      BitVec.ofInt 64 r = BitVec.ofInt 64 (bs.foldl (· * ·) a) := by
  induction bs generalizing a with
  | nil => exact ⟨a, rfl, rfl⟩
  | cons b bs ih =>
    obtain ⟨r1, h1, _, e1⟩ := opMethod_mul k a b
    obtain ⟨r, h, e⟩ := ih r1
    refine ⟨r, ?_, ?_⟩
    · simp only [List.map, methodLoop, unwrap_box, Option.isSome_none, Bool.false_and, Bool.false_eq_true, if_false, h1]
      exact h
    · rw [e, List.foldl_cons]
      have key : ∀ (l : List Int) (x y : Int), BitVec.ofInt 64 x = BitVec.ofInt 64 y →
          BitVec.ofInt 64 (l.foldl (· * ·) x) = BitVec.ofInt 64 (l.foldl (· * ·) y) := by
        intro l
        induction l with
        | nil => intro x y h; exact h
        | cons c l ihl =>
          intro x y h
          simp only [List.foldl_cons]
          apply ihl
          rw [BitVec.ofInt_mul, BitVec.ofInt_mul, h]
      apply key
      rw [e1, BitVec.ofInt_mul]

/-- the variadic core functions on ≥ 2 arguments are the left fold of the VM's binary opcode over the argument list -/
theorem varops_are_left_folds (c : Cfg) (N : NumOps) (x y : Val) (rest : List Val) :
    ∀ p ∈ [("+", "binop", "+"), ("-", "binop", "-"), ("*", "binop", "*"), ("/", "binop", "/"), ("div", "divfloor", "div"),
           ("mod", "modulo", "mod"), ("%", "remainder", "%"), ("band", "bitop", "&"), ("bor", "bitop", "|"), ("bxor", "bitop", "^"),
           ("blshift", "bitop", "<<"), ("brshift", "bitop", ">>"), ("brushift", "bitopu", ">>")],
      evalFn c N p.1 (x :: y :: rest) =
        rest.foldl (fun acc z => acc.bind (fun a => vmOp c N p.2.1 p.2.2 a z)) (vmOp c N p.2.1 p.2.2 x y) := by
  intro p hp
  rw [← varopFold_eq_foldl]
  simp only [List.mem_cons, List.mem_nil_iff, or_false] at hp
  rcases hp with rfl | rfl | rfl | rfl | rfl | rfl | rfl | rfl | rfl | rfl | rfl | rfl | rfl <;> rfl


/-! ## int <-> double conversion is exact up to 2^53 -/

theorem decode_fin_of (b s E f : Nat) (hs : s ≤ 1) (hE : 0 < E ∧ E < 2047) (hf : f < 4503599627370496)
    (hb : b = s * 9223372036854775808 + E * 4503599627370496 + f) :
    decode b = .fin (s == 1) (f + 4503599627370496) ((E : Int) - 1075) := by
  have h1 : b / 9223372036854775808 % 2 = s := by omega
  have h2 : b / 4503599627370496 % 2048 = E := by omega
  have h3 : b % 4503599627370496 = f := by omega
  unfold decode
  simp only [h1, h2, h3]
  rw [if_neg (by omega), if_neg (by omega)]
  rfl

/-- `(double) n` for |n| ≤ 2^53 is exact: encoding then decoding gives n back -/
theorem decode_encodeInt (n : Int) (h : -two53 ≤ n ∧ n ≤ two53) : (decode (encodeInt n)).toInt? = some n := by
  consts
  by_cases h0 : n.natAbs = 0
  · have : n = 0 := by omega
    subst this
    simp [encodeInt, encodeDyadic, decode, Dbl.toInt?, smant]
  · unfold encodeInt encodeDyadic
    simp only [if_neg h0, Int.add_zero, Int.ofNat_eq_natCast]
    generalize ha : n.natAbs = a at *
    have hl := Nat.log2_self_le h0
    have hu := Nat.lt_log2_self (n := a)
    have hL : a.log2 ≤ 53 := by
      by_cases hc : a.log2 ≤ 53
      · exact hc
      · exfalso
        have : 2 ^ 54 ≤ 2 ^ a.log2 := Nat.pow_le_pow_right (by decide) (by omega)
        omega
    generalize a.log2 = L at *
    have hex : (-1022 : Int) ≤ (L : Int) := by omega
    rw [if_pos hex, if_neg (by omega)]
    have hs : (if decide (n < 0) = true then 9223372036854775808 else 0 : Nat) = (if n < 0 then 1 else 0) * 9223372036854775808 := by
      by_cases hn : n < 0 <;> simp [hn]
    by_cases hL52 : L ≤ 52
    · have e1 : ((L : Int) ≤ 52) := by omega
      rw [if_pos e1]
      have e2 : ((52 : Int) - (L : Int)).toNat = 52 - L := by omega
      rw [e2]
      have hP : 2 ^ L * 2 ^ (52 - L) = 4503599627370496 := by
        have : L + (52 - L) = 52 := by omega
        rw [← Nat.pow_add, this]
      have hP1 : 1 ≤ 2 ^ (52 - L) := Nat.two_pow_pos _
      generalize hPdef : 2 ^ (52 - L) = P at *
      have hm1 : 4503599627370496 ≤ a * P := by rw [← hP]; exact Nat.mul_le_mul_right _ hl
      have hm2 : a * P < 9007199254740992 := by
        have : a * P < 2 ^ (L + 1) * P := Nat.mul_lt_mul_of_pos_right hu (by omega)
        rw [Nat.pow_succ, Nat.mul_right_comm, hP] at this; omega
      have hmod : a * P % P = 0 := Nat.mul_mod_left a P
      have hdiv : a * P / P = a := Nat.mul_div_cancel a (by omega)
      generalize hm : a * P = m at *
      have e3 : ((L : Int) + 1023).toNat = L + 1023 := by omega
      rw [e3, hs, decode_fin_of _ (if n < 0 then 1 else 0) (L + 1023) (m - 4503599627370496) (by split <;> omega) (by omega) (by omega) (by omega)]
      have e4 : m - 4503599627370496 + 4503599627370496 = m := by omega
      rw [e4]
      simp only [Dbl.toInt?]
      by_cases hz : L = 52
      · subst hz
        have : P = 1 := by omega
        subst this
        simp [smant]
        split <;> omega
      · have e5 : ¬ (0 ≤ ((L + 1023 : Nat) : Int) - 1075) := by omega
        have e6 : (-(((L + 1023 : Nat) : Int) - 1075)).toNat = 52 - L := by omega
        rw [if_neg e5, e6, hPdef, hmod, hdiv]
        simp only [if_true]
        by_cases hn : n < 0 <;> simp [hn, smant] <;> omega
    · have hL53 : L = 53 := by omega
      subst hL53
      have ha53 : a = 9007199254740992 := by
        have : (2:Nat) ^ 53 = 9007199254740992 := by decide
        omega
      subst ha53
      have e7 : (((53 : Nat) : Int) - 52).toNat = 1 := by omega
      have e8 : (((53 : Nat) : Int) + 1023).toNat = 1076 := by omega
      have e9 : ¬ (((53 : Nat) : Int) ≤ 52) := by omega
      rw [hs]
      simp only [e9, if_false, e7, e8]
      rw [decode_fin_of _ (if n < 0 then 1 else 0) 1076 0 (by split <;> omega) (by omega) (by omega) (by omega)]
      simp only [Dbl.toInt?]
      by_cases hn : n < 0 <;> simp [hn, smant] <;> omega


/-! ## the number branch of janet_unwrap_s64 / janet_unwrap_u64 (window-generic) -/

theorem castS64_of_fits (n : Int) (h : int64Min ≤ n ∧ n ≤ int64Max) : castS64 n = n := wrap_of_inRange .s64 n h
theorem castU64_of_fits (n : Int) (h : 0 ≤ n ∧ n < two64) : castU64 n = n := wrap_of_inRange .u64 n h

/-- a window inside the int64_t range: the branch raises, or returns exactly the integer the double denotes (the cast is exact) -/
theorem numToS64W_exact (lo hi : Int) (hlo : int64Min ≤ lo) (hhi : hi ≤ int64Max) (d : Dbl) :
    numToS64W lo hi d = none ∨ ∃ n, d.toInt? = some n ∧ Kind.s64.inRange n ∧ numToS64W lo hi d = some n := by
  unfold numToS64W
  cases h : d.toInt? with
  | none => exact Or.inl rfl
  | some n =>
    by_cases hw : lo ≤ n ∧ n ≤ hi
    · have hf : int64Min ≤ n ∧ n ≤ int64Max := ⟨by omega, by omega⟩
      refine Or.inr ⟨n, rfl, hf, ?_⟩
      simp only [if_pos hw, castS64_of_fits n hf]
    · exact Or.inl (by simp only [if_neg hw])

theorem numToU64W_exact (lo hi : Int) (hlo : 0 ≤ lo) (hhi : hi < two64) (d : Dbl) :
    numToU64W lo hi d = none ∨ ∃ n, d.toInt? = some n ∧ Kind.u64.inRange n ∧ numToU64W lo hi d = some n := by
  unfold numToU64W
  cases h : d.toInt? with
  | none => exact Or.inl rfl
  | some n =>
    by_cases hw : lo ≤ n ∧ n ≤ hi
    · have hf : 0 ≤ n ∧ n < two64 := ⟨by omega, by omega⟩
      refine Or.inr ⟨n, rfl, hf, ?_⟩
      simp only [if_pos hw, castU64_of_fits n hf]
    · exact Or.inl (by simp only [if_neg hw])

/-- what the windows decide: accepted exactly when the double is an integer inside the window -/
theorem numToW_some_iff (lo hi : Int) (d : Dbl) (r : Int) :
    (numToS64W lo hi d = some r ↔ ∃ n, d.toInt? = some n ∧ lo ≤ n ∧ n ≤ hi ∧ r = castS64 n) ∧
    (numToU64W lo hi d = some r ↔ ∃ n, d.toInt? = some n ∧ lo ≤ n ∧ n ≤ hi ∧ r = castU64 n) := by
  unfold numToS64W numToU64W
  cases h : d.toInt? with
  | none => simp
  | some n =>
    by_cases hw : lo ≤ n ∧ n ≤ hi
    · simp only [if_pos hw, Option.some.injEq]
      constructor <;> constructor
      · intro e; exact ⟨n, rfl, hw.1, hw.2, e.symm⟩
      · rintro ⟨m, hm, _, _, e⟩; cases hm; rw [e]
      · intro e; exact ⟨n, rfl, hw.1, hw.2, e.symm⟩
      · rintro ⟨m, hm, _, _, e⟩; cases hm; rw [e]
    · simp only [if_neg hw]
      constructor <;> constructor
      · intro e; exact absurd e (by simp)
      · rintro ⟨m, hm, h1, h2, _⟩; cases hm; exact absurd ⟨h1, h2⟩ hw
      · intro e; exact absurd e (by simp)
      · rintro ⟨m, hm, h1, h2, _⟩; cases hm; exact absurd ⟨h1, h2⟩ hw

/-- **why the bound matters**: with the window "every integral double from `(double) INT64_MIN` to `(double) INT64_MAX`" — the
    upper bound is 2^63, because INT64_MAX is not a double and rounds up — the double 2^63 is accepted and the cast leaves the
    type: `(int/s64 9223372036854775808)` is INT64_MIN.  Likewise 2^64 for `(double) UINT64_MAX`: `(int/u64 18446744073709551616)` is 0. -/
theorem unwrap_window_rounded_up_wraps :
    (decode 0x43e0000000000000).toInt? = some two63 ∧
    numToS64W (-two63) two63 (decode 0x43e0000000000000) = some int64Min ∧
    (decode 0x43f0000000000000).toInt? = some two64 ∧
    numToU64W 0 two64 (decode 0x43f0000000000000) = some 0 := by
  refine ⟨by decide, by decide, by decide, by decide⟩

theorem unwrap_ofInt (n : Int) (h : -two53 ≤ n ∧ n ≤ two53) :
    unwrapS (Val.ofInt n) = .ok n ∧ (0 ≤ n → unwrapU (Val.ofInt n) = .ok n) := by
  have hd := decode_encodeInt n h
  have hSi := (numToW_some_iff Gen.Int64.unwrapS64Lo Gen.Int64.unwrapS64Hi (decode (encodeInt n)) (castS64 n)).1
  have hUi := (numToW_some_iff Gen.Int64.unwrapU64Lo Gen.Int64.unwrapU64Hi (decode (encodeInt n)) (castU64 n)).2
  have h' : -9007199254740992 ≤ n ∧ n ≤ 9007199254740992 := h
  constructor
  · have e : numToS64 (decode (encodeInt n)) = some n := by
      have := hSi.2 ⟨n, hd, by simp only [Gen.Int64.unwrapS64Lo]; omega, by simp only [Gen.Int64.unwrapS64Hi]; omega, rfl⟩
      rw [castS64_of_fits n (by simp only [int64Min, int64Max]; omega)] at this
      exact this
    simp only [unwrapS, Val.ofInt, e]
  · intro h0
    have e : numToU64 (decode (encodeInt n)) = some n := by
      have := hUi.2 ⟨n, hd, by simp only [Gen.Int64.unwrapU64Lo]; omega, by simp only [Gen.Int64.unwrapU64Hi]; omega, rfl⟩
      rw [castU64_of_fits n (by simp only [two64]; omega)] at this
      exact this
    simp only [unwrapU, Val.ofInt, e]

theorem toNumber_eval (c : Cfg) (N : NumOps) (v : Int) :
    (-two53 ≤ v ∧ v ≤ two53 → evalFn c N "int/to-number" [.s64 v] = .ok (Val.ofInt v)) ∧
    (v < -two53 ∨ two53 < v → evalFn c N "int/to-number" [.s64 v] = .err .tonum) ∧
    (v ≤ two53 → evalFn c N "int/to-number" [.u64 v] = .ok (Val.ofInt v)) ∧
    (two53 < v → evalFn c N "int/to-number" [.u64 v] = .err .tonum) := by
  consts
  refine ⟨fun h => ?_, fun h => ?_, fun h => ?_, fun h => ?_⟩ <;>
    simp only [evalFn, Gen.Int64.intMaxInt64]
  · rw [if_neg (by omega), if_neg (by omega)]
  · by_cases h1 : v > 9007199254740992
    · rw [if_pos h1]
    · rw [if_neg h1, if_pos (by omega)]
  · rw [if_neg (by omega)]
  · rw [if_pos (by omega)]

/-- the eight bytes written by `int/to-bytes` are bytes, and read back (little-endian) they give the 64-bit pattern of the
    value — for every s64 / u64 -/
theorem toBytes_round_trip (v : Int) :
    (toBytesLE v).length = 8 ∧ (∀ b ∈ toBytesLE v, b < 256) ∧ (ofBytesLE (toBytesLE v) : Int) = wrapU v := by
  have h0 : 0 ≤ wrapU v ∧ wrapU v < 18446744073709551616 := by consts; omega
  unfold toBytesLE
  generalize wrapU v = u at *
  refine ⟨by simp, ?_, ?_⟩
  · intro b hb
    simp only [List.mem_map, List.mem_range] at hb
    obtain ⟨i, _, rfl⟩ := hb
    have : 0 ≤ u / 256 ^ i % 256 ∧ u / 256 ^ i % 256 < 256 := by omega
    omega
  · have hq : ∀ i : Nat, u / 256 ^ (i + 1) = (u / 256 ^ i) / 256 := fun i => by
      rw [Int.pow_succ, Int.ediv_ediv_of_nonneg (Int.le_of_lt (Int.pow_pos (by decide)))]
    have q1 := hq 0; have q2 := hq 1; have q3 := hq 2; have q4 := hq 3
    have q5 := hq 4; have q6 := hq 5; have q7 := hq 6; have q8 := hq 7
    have q0 : u / 256 ^ 0 = u := by simp
    have h8 : u / 256 ^ (7 + 1) = 0 := by
      have : (256 : Int) ^ (7 + 1) = 18446744073709551616 := by decide
      rw [this]; omega
    simp only [List.range, List.range.loop, List.map, ofBytesLE]
    simp only [Nat.zero_add, Nat.reduceAdd] at *
    generalize u / 256 ^ 0 = a0 at *
    generalize u / 256 ^ 1 = a1 at *
    generalize u / 256 ^ 2 = a2 at *
    generalize u / 256 ^ 3 = a3 at *
    generalize u / 256 ^ 4 = a4 at *
    generalize u / 256 ^ 5 = a5 at *
    generalize u / 256 ^ 6 = a6 at *
    generalize u / 256 ^ 7 = a7 at *
    generalize u / 256 ^ 8 = a8 at *
    have e0 : (((a0 % 256).toNat : Nat) : Int) = a0 % 256 := Int.toNat_of_nonneg (by omega)
    have e1 : (((a1 % 256).toNat : Nat) : Int) = a1 % 256 := Int.toNat_of_nonneg (by omega)
    have e2 : (((a2 % 256).toNat : Nat) : Int) = a2 % 256 := Int.toNat_of_nonneg (by omega)
    have e3 : (((a3 % 256).toNat : Nat) : Int) = a3 % 256 := Int.toNat_of_nonneg (by omega)
    have e4 : (((a4 % 256).toNat : Nat) : Int) = a4 % 256 := Int.toNat_of_nonneg (by omega)
    have e5 : (((a5 % 256).toNat : Nat) : Int) = a5 % 256 := Int.toNat_of_nonneg (by omega)
    have e6 : (((a6 % 256).toNat : Nat) : Int) = a6 % 256 := Int.toNat_of_nonneg (by omega)
    have e7 : (((a7 % 256).toNat : Nat) : Int) = a7 % 256 := Int.toNat_of_nonneg (by omega)
    generalize (a0 % 256).toNat = b0 at *
    generalize (a1 % 256).toNat = b1 at *
    generalize (a2 % 256).toNat = b2 at *
    generalize (a3 % 256).toNat = b3 at *
    generalize (a4 % 256).toNat = b4 at *
    generalize (a5 % 256).toNat = b5 at *
    generalize (a6 % 256).toNat = b6 at *
    generalize (a7 % 256).toNat = b7 at *
    have d0 := Int.mul_ediv_add_emod a0 256; have d1 := Int.mul_ediv_add_emod a1 256
    have d2 := Int.mul_ediv_add_emod a2 256; have d3 := Int.mul_ediv_add_emod a3 256
    have d4 := Int.mul_ediv_add_emod a4 256; have d5 := Int.mul_ediv_add_emod a5 256
    have d6 := Int.mul_ediv_add_emod a6 256; have d7 := Int.mul_ediv_add_emod a7 256
    rw [← q1, ← e0] at d0; rw [← q2, ← e1] at d1; rw [← q3, ← e2] at d2; rw [← q4, ← e3] at d3
    rw [← q5, ← e4] at d4; rw [← q6, ← e5] at d5; rw [← q7, ← e6] at d6; rw [← q8, ← e7] at d7
    clear q1 q2 q3 q4 q5 q6 q7 q8 e0 e1 e2 e3 e4 e5 e6 e7 hq
    omega


end JanetModel.Int64
