/- C14 — IEEE-754 binary64 arithmetic as an executable function of the bit patterns: every operation is the
   round-to-nearest, ties-to-even rounding (`roundMag`) of the *exact* rational result of the decoded operands, plus the
   rules for NaN, infinities and signed zeros.  This is the instance `ieee : NumOps` the VM model (`vmOp`, `numDivFloor`,
   `numModulo`, `numRemainder`) is run with; `harness/C14/arith.c` compares it bit for bit with the hardware on every run
   (NaN results canonicalised: a janet number holds one quiet NaN).  `floor` and `fmod` are exact by definition on a
   dyadic rational.  Proofs about it: `Int64/IeeeQ.lean`.  Core Lean only (linked into the driver). -/
import JanetModel.Int64.Model
namespace JanetModel.Int64.Ieee
open JanetModel.Int64

abbrev nanBits : Nat := 0x7ff8000000000000
abbrev infBits : Nat := 0x7ff0000000000000
abbrev signBitVal : Nat := 0x8000000000000000
abbrev two52 : Nat := 4503599627370496

/-- number of significant bits -/
def bitLen (n : Nat) : Nat := if n = 0 then 0 else n.log2 + 1

/-- `⌊log2 (N / D)⌋` for N, D > 0: the bit lengths give it up to one, one comparison decides -/
def ilog2Ratio (N D : Nat) : Int :=
  let k0 : Int := (bitLen N : Int) - (bitLen D : Int)
  if (if 0 ≤ k0 then D * 2 ^ k0.toNat ≤ N else D ≤ N * 2 ^ (-k0).toNat) then k0 else k0 - 1

/-- `N / D` (D > 0) rounded to the nearest integer, ties to the even one -/
def rneDiv (N D : Nat) : Nat :=
  let f := N / D
  let r := N % D
  if 2 * r < D then f else if D < 2 * r then f + 1 else if f % 2 = 0 then f else f + 1

/-- exponent of the last place of the binary64 that `N / D` rounds to: 53 significant bits, not below 2^-1074 -/
def quantum (N D : Nat) : Int := max (ilog2Ratio N D - 52) (-1074)

/-- `N / D` in units of `2^q`, rounded to nearest-even -/
def scaledRne (N D : Nat) (q : Int) : Nat :=
  if 0 ≤ q then rneDiv N (D * 2 ^ q.toNat) else rneDiv (N * 2 ^ (-q).toNat) D

/-- bits (sign bit clear) of the binary64 nearest to `N / D` (N, D > 0), ties to even; beyond the largest finite value:
    infinity.  The encoding trick is the usual one: `t = 2^53` (carry into the next binade) and `t = 2^52` in the
    subnormal range (smallest normal) produce the right exponent field by plain addition. -/
def roundMag (N D : Nat) : Nat :=
  let q := quantum N D
  let t := scaledRne N D q
  let bits := (q + 1074).toNat * two52 + t
  if infBits ≤ bits then infBits else bits

def withSign (neg : Bool) (mag : Nat) : Nat := if neg then signBitVal + mag else mag

/-- bits of the binary64 nearest to `(-1)^neg * N / D` (D > 0); a zero keeps the given sign -/
def roundSigned (neg : Bool) (N D : Nat) : Nat := withSign neg (if N = 0 then 0 else roundMag N D)

/-- `(-1)^neg * m * 2^e` as numerator / denominator -/
def dyNum (m : Nat) (e : Int) : Nat := if 0 ≤ e then m * 2 ^ e.toNat else m
def dyDen (e : Int) : Nat := if 0 ≤ e then 1 else 2 ^ (-e).toNat

/-- `x + y` -/
def add (a b : Nat) : Nat :=
  match decode a, decode b with
  | .nan, _ => nanBits
  | _, .nan => nanBits
  | .inf n1, .inf n2 => if n1 == n2 then withSign n1 infBits else nanBits
  | .inf n1, .fin .. => withSign n1 infBits
  | .fin .., .inf n2 => withSign n2 infBits
  | .fin n1 m1 e1, .fin n2 m2 e2 =>
    let e := min e1 e2
    let s : Int := smant n1 m1 * 2 ^ (e1 - e).toNat + smant n2 m2 * 2 ^ (e2 - e).toNat
    if s = 0 then withSign (n1 && n2) 0          -- an exact zero sum is +0 unless both operands are -0
    else roundSigned (decide (s < 0)) (dyNum s.natAbs e) (dyDen e)

/-- `-y` (sign bit flipped; NaN stays the canonical NaN) -/
def negate (b : Nat) : Nat :=
  match decode b with
  | .nan => nanBits
  | _ => if b / signBitVal % 2 = 1 then b - signBitVal else b + signBitVal

/-- `x - y` = `x + (-y)` (IEEE-754, including the signs of zero results) -/
def sub (a b : Nat) : Nat := add a (negate b)

/-- `x * y` -/
def mul (a b : Nat) : Nat :=
  match decode a, decode b with
  | .nan, _ => nanBits
  | _, .nan => nanBits
  | .inf n1, .inf n2 => withSign (n1 != n2) infBits
  | .inf n1, .fin n2 m2 _ => if m2 = 0 then nanBits else withSign (n1 != n2) infBits
  | .fin n1 m1 _, .inf n2 => if m1 = 0 then nanBits else withSign (n1 != n2) infBits
  | .fin n1 m1 e1, .fin n2 m2 e2 => roundSigned (n1 != n2) (dyNum (m1 * m2) (e1 + e2)) (dyDen (e1 + e2))

/-- `x / y` -/
def div (a b : Nat) : Nat :=
  match decode a, decode b with
  | .nan, _ => nanBits
  | _, .nan => nanBits
  | .inf _, .inf _ => nanBits
  | .inf n1, .fin n2 _ _ => withSign (n1 != n2) infBits
  | .fin n1 _ _, .inf n2 => withSign (n1 != n2) 0
  | .fin n1 m1 e1, .fin n2 m2 e2 =>
    if m2 = 0 then (if m1 = 0 then nanBits else withSign (n1 != n2) infBits)
    else roundSigned (n1 != n2) (dyNum m1 (e1 - e2)) (m2 * dyDen (e1 - e2))

/-- C `floor`: exact (the floor of a binary64 is a binary64); -0.0 and integers are returned unchanged -/
def floor (a : Nat) : Nat :=
  match decode a with
  | .nan => nanBits
  | .inf _ => a
  | .fin neg m e =>
    if 0 ≤ e then a
    else
      let f := m / 2 ^ (-e).toNat
      if m % 2 ^ (-e).toNat = 0 then a
      else if neg then roundSigned true (f + 1) 1
      else roundSigned false f 1

/-- C `fmod`: `x - trunc(x / y) * y`, exact, sign of x -/
def fmod (a b : Nat) : Nat :=
  match decode a, decode b with
  | .nan, _ => nanBits
  | _, .nan => nanBits
  | .inf _, _ => nanBits
  | .fin .., .inf _ => a
  | .fin nx mx ex, .fin _ my ey =>
    if my = 0 then nanBits
    else if mx = 0 then a
    else
      let e := min ex ey
      let X := mx * 2 ^ (ex - e).toNat
      let Y := my * 2 ^ (ey - e).toNat
      roundSigned nx (dyNum (X % Y) e) (dyDen e)

/-- the instance: IEEE-754 binary64 `+ - * /`, `floor`, `fmod` -/
def ieee : NumOps where
  add := add
  sub := sub
  mul := mul
  div := div
  floor := floor
  fmod := fmod

end JanetModel.Int64.Ieee
