/- C14 — boot.janet's numeric predicates (`Int64/Preds.lean`) decide what their names say, by mathematical value, on every
   numeric type: `zero? pos? neg? one?` for any non-NaN number (±inf included), int/s64, int/u64; `even? odd?` for every int/s64,
   int/u64 and every integer-valued number of magnitude ≤ 2^53.  Proof file (Mathlib), not linked into the driver. -/
import JanetModel.Int64.Preds
import JanetModel.Int64.LemmasC
import JanetModel.Int64.IeeeInt
namespace JanetModel.Int64
open JanetModel.Gen.Int64 JanetModel.Int64.Ieee

theorem ext_of_finBits (b : Nat) (hb : FinBits b) : (Val.num b).ext? = some (.fin (valQ b)) := by
  obtain ⟨n, m, e, hd⟩ := hb
  show (decode b).ext? = some (.fin (decode b).toRat)
  rw [hd]; rfl

theorem ext_of_intVal (b : Nat) (z : ℤ) (hb : IntVal b z) : (Val.num b).ext? = some (.fin (z : ℚ)) := by
  rw [ext_of_finBits b hb.1, hb.2]

theorem ext_ofInt (k : ℤ) (hk : |k| ≤ 9007199254740992) : (Val.ofInt k).ext? = some (.fin (k : ℚ)) :=
  ext_of_intVal _ k (intVal_encodeInt k hk)

theorem cmpQ_eq_iff (a b : ℚ) (R : ℤ) (hR : R = -1 ∨ R = 0 ∨ R = 1) :
    cmpQ a b = R ↔ (if R = 0 then a = b else if R = 1 then a > b else a < b) := by
  unfold cmpQ
  rcases hR with h | h | h <;> subst h <;> rcases lt_trichotomy a b with hab | hab | hab
  all_goals first
    | (subst hab; simp)
    | (simp [hab, not_lt.2 hab.le, hab.ne, hab.ne'])

/-- `(= r R)` / `(= R r)` where `r` is what `compare` answered for the sign `i` (the number i, or -0.0 for "equal" when the
    right operand's method answered) and R is one of -1, 0, 1: true iff i = R -/
theorem eq_cmp_result (r : Val) (i R : ℤ) (hi : i = -1 ∨ i = 0 ∨ i = 1) (hR : R = -1 ∨ R = 0 ∨ R = 1)
    (hr : r = Val.ofInt i ∨ (i = 0 ∧ r = .num 0x8000000000000000)) :
    janetEquals r (Val.ofInt R) = decide (i = R) ∧ janetEquals (Val.ofInt R) r = decide (i = R) := by
  rcases hr with hr | ⟨h0, hr⟩
  · subst hr
    rcases hi with h | h | h <;> subst h <;> rcases hR with h' | h' | h' <;> subst h' <;> exact ⟨by decide +kernel, by decide +kernel⟩
  · subst h0; subst hr
    rcases hR with h' | h' | h' <;> subst h' <;> exact ⟨by decide +kernel, by decide +kernel⟩

/-- ★ `(= (compare x k) R)`: true iff the mathematical values of x and k are in the relation R stands for -/
theorem polyPred_cmp (c : Cfg) (hu : c.cmpSUpperIncl = true) (hl : c.cmpSLowerIncl = false) (huu : c.cmpUUpperIncl = true)
    (N : NumOps) (name : String) (k R : ℤ) (hrow : polyPreds.lookup name = some ("cmp", k, R))
    (hk : |k| ≤ 9007199254740992) (hR : R = -1 ∨ R = 0 ∨ R = 1)
    (x : Val) (vx : ExtQ) (hx : x.ext? = some vx) (wx : x.wf) :
    polyPred c N name x = .ok (.bool (decide (cmpExt vx (.fin (k : ℚ)) = R))) := by
  obtain ⟨r, h1, _, h3⟩ := polyCompare_correct c hu hl huu x (Val.ofInt k) vx (.fin (k : ℚ)) hx (ext_ofInt k hk) wx trivial
  unfold polyPred
  rw [hrow]
  simp only []
  rw [h1]
  show Res.ok (Val.bool (janetEquals r (Val.ofInt R))) = _
  rw [(eq_cmp_result r _ R (cmpExt_range _ _) hR h3).1]

/-- the second half of `even?` / `odd?`: `(= 0 (compare p md))` for a numeric remainder `md` of value `m` -/
theorem parity_tail (c : Cfg) (hu : c.cmpSUpperIncl = true) (hl : c.cmpSLowerIncl = false) (huu : c.cmpUUpperIncl = true)
    (p : ℤ) (hp : |p| ≤ 9007199254740992) (md : Val) (m : ℤ) (hm : md.ext? = some (.fin (m : ℚ))) (wm : md.wf) :
    (polyCompare c (Val.ofInt p) md).bind (fun v => Res.ok (Val.bool (janetEquals (Val.ofInt 0) v))) = .ok (.bool (decide (m = p))) := by
  obtain ⟨r, h1, _, h3⟩ := polyCompare_correct c hu hl huu (Val.ofInt p) md (.fin (p : ℚ)) (.fin (m : ℚ)) (ext_ofInt p hp) hm trivial wm
  rw [h1]
  show Res.ok (Val.bool (janetEquals (Val.ofInt 0) r)) = _
  rw [(eq_cmp_result r _ 0 (cmpExt_range _ _) (Or.inr (Or.inl rfl)) h3).2]
  have : (cmpExt (.fin (p : ℚ)) (.fin (m : ℚ)) = 0) ↔ m = p := by
    show cmpQ (p : ℚ) (m : ℚ) = 0 ↔ _
    rw [show ((0 : ℤ)) = ((0 : ℤ)) from rfl, cmpQ_eq_iff _ _ 0 (Or.inr (Or.inl rfl))]
    simp only [if_true]
    constructor
    · intro h; exact_mod_cast h.symm
    · intro h; exact_mod_cast h.symm
  simp only [this]

/-! ### `(mod x 2)` on the three numeric types, current tree -/

theorem two_unwrap : unwrapS (Val.ofInt 2) = .ok 2 ∧ unwrapU (Val.ofInt 2) = .ok 2 :=
  ⟨(unwrap_ofInt 2 (by decide)).1, (unwrap_ofInt 2 (by decide)).2 (by decide)⟩

theorem vmOp_mod2_s64 (N : NumOps) (v : ℤ) (hv : Kind.s64.inRange v) :
    vmOp cfgGen N "modulo" "mod" (.s64 v) (Val.ofInt 2) = .ok (.s64 (v % 2)) := by
  have h1 : vmOp cfgGen N "modulo" "mod" (.s64 v) (Val.ofInt 2) =
      (unwrapS (Val.ofInt 2)).bind (fun op2 => (modMethod cfgGen.guardMod v op2).bind (fun r => .ok (.s64 r))) := rfl
  have hmin : ¬ (v = int64Min ∧ (2 : ℤ) = -1) := fun h => absurd h.2 (by decide)
  rw [h1, two_unwrap.1, bind_ok]
  rw [mod_eq_floor_mod _ v 2 hv (by decide) (by decide) (Or.inr hmin), Int.fmod_eq_emod_of_nonneg _ (by decide)]
  rfl

theorem vmOp_mod2_u64 (N : NumOps) (v : ℤ) :
    vmOp cfgGen N "modulo" "mod" (.u64 v) (Val.ofInt 2) = .ok (.u64 (v % 2)) := by
  have h1 : vmOp cfgGen N "modulo" "mod" (.u64 v) (Val.ofInt 2) =
      (unwrapU (Val.ofInt 2)).bind (fun b => (divMethodU "mod" "%" v b).bind (fun r => .ok (.u64 r))) := rfl
  rw [h1, two_unwrap.2, bind_ok]
  rw [(trunc_div_rem_correct v 2 (by decide)).2.2.2.2]
  rfl

theorem vmOp_mod2_num (a : Nat) (z : ℤ) (ha : IntVal a z) (hz : |z| ≤ 9007199254740992) :
    ∃ m, vmOp cfgGen ieee "modulo" "mod" (.num a) (Val.ofInt 2) = .ok (.num m) ∧ IntVal m (z % 2) := by
  refine ⟨numModulo ieee a (encodeInt 2), rfl, ?_⟩
  have hprod : |(2 : ℤ) * Int.fdiv z 2| ≤ 9007199254740992 := by
    rw [Int.fdiv_eq_ediv_of_nonneg _ (by decide)]
    have := abs_le.1 hz
    rw [abs_le]; constructor <;> omega
  have := num_mod_int a (encodeInt 2) z 2 ha (intVal_encodeInt 2 (by decide)) hz (by decide) (by decide) hprod
  rw [Int.fmod_eq_emod_of_nonneg _ (by decide)] at this
  exact this

/-- ★ `even?` / `odd?` (any row `(= 0 (compare p (mod x 2)))` of the regenerated table, p = 0 or 1) on the current tree:
    every int/s64, every int/u64, every integer-valued number of magnitude ≤ 2^53 — true iff x mod 2 = p -/
theorem polyPred_parity (name : String) (p : ℤ) (hrow : polyPreds.lookup name = some ("parity", p, 2)) (hp : p = 0 ∨ p = 1) :
    (∀ N v, Kind.s64.inRange v → polyPred cfgGen N name (.s64 v) = .ok (.bool (decide (v % 2 = p)))) ∧
    (∀ N v, Kind.u64.inRange v → polyPred cfgGen N name (.u64 v) = .ok (.bool (decide (v % 2 = p)))) ∧
    (∀ a z, IntVal a z → |z| ≤ 9007199254740992 → polyPred cfgGen ieee name (.num a) = .ok (.bool (decide (z % 2 = p)))) := by
  have hpb : |p| ≤ 9007199254740992 := by rcases hp with h | h <;> subst h <;> decide
  have hu : cfgGen.cmpSUpperIncl = true := by decide
  have hl : cfgGen.cmpSLowerIncl = false := by decide
  have huu : cfgGen.cmpUUpperIncl = true := by decide
  refine ⟨fun N v hv => ?_, fun N v hv => ?_, fun a z ha hz => ?_⟩
  · unfold polyPred; rw [hrow]; simp only []
    rw [vmOp_mod2_s64 N v hv, bind_ok]
    have wf : (Val.s64 (v % 2)).wf := by
      show Kind.s64.inRange (v % 2)
      simp only [Kind.inRange, int64Min, int64Max]; omega
    exact parity_tail cfgGen hu hl huu p hpb (.s64 (v % 2)) (v % 2) rfl wf
  · unfold polyPred; rw [hrow]; simp only []
    rw [vmOp_mod2_u64 N v, bind_ok]
    have wf : (Val.u64 (v % 2)).wf := by
      show Kind.u64.inRange (v % 2)
      simp only [Kind.inRange, two64]; omega
    exact parity_tail cfgGen hu hl huu p hpb (.u64 (v % 2)) (v % 2) rfl wf
  · obtain ⟨m, hm1, hm2⟩ := vmOp_mod2_num a z ha hz
    unfold polyPred; rw [hrow]; simp only []
    rw [hm1, bind_ok]
    exact parity_tail cfgGen hu hl huu p hpb (.num m) (z % 2) (ext_of_intVal m _ hm2) trivial

end JanetModel.Int64
