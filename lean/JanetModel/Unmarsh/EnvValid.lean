/- C10: `janet_env_valid` (fiber.c) — the run-time validation of an UNTRUSTED on-stack function environment (negative offset =
   came from `unmarshal_one_env`) that JOP_LOAD_UPVALUE / JOP_SET_UPVALUE, `janet_env_detach`, `debug/stack` and the marshaller
   run before they touch `env->as.fiber->data[env->offset + i]`.  The function walks the frame chain of the fiber from
   `fiber->frame` through `prevframe` and accepts when a frame starts at `-env->offset`, points back at this environment,
   has a function, and that function's slot count equals `env->length`.
   `Shape` = which of those conjuncts the CURRENT source tests (regenerated, Gen/EnvValid.lean).  Core Lean only. -/
import JanetModel.Unmarsh.Image
namespace JanetModel.Unmarsh.EnvValid
open JanetModel.Unmarsh

/-- which tests the loop body of `janet_env_valid` makes, what it does on failure -/
structure Shape where
  onlyNegative : Bool      -- `if (env->offset < 0) {…} else return 1;`
  startsAtFrame : Bool     -- `i = fiber->frame`, `while (i > 0)`, `i = frame->prevframe`
  offsetEq : Bool          -- `real_offset == i`
  envPtrEq : Bool          -- `frame->env == env`
  funcNonNull : Bool       -- `frame->func`
  slotcountEq : Bool       -- `frame->func->def->slotcount == env->length`
  resetsOnFailure : Bool   -- `env->offset = 0; env->length = 0; env->as.values = NULL; return 0;`
  deriving Repr, DecidableEq, Inhabited

def Shape.allOn (S : Shape) : Bool :=
  S.onlyNegative && S.startsAtFrame && S.offsetEq && S.envPtrEq && S.funcNonNull && S.slotcountEq && S.resetsOnFailure

/-- what the loop reads of the frame header stored below index `i` -/
structure EFrame where
  hdr : FrameRec           -- prevframe, slotcount (of `frame->func->def`)
  envIsThis : Bool         -- `frame->env == env`
  hasFunc : Bool           -- `frame->func != NULL`

/-- the `while (i > 0)` loop over the frames as they lie in the fiber (top-most first) -/
def walk (S : Shape) (realOff len : Nat) : List EFrame → Nat → Bool
  | [], _ => false
  | fr :: rest, i =>
    if i = 0 then false
    else if (!S.offsetEq || realOff == i) && (!S.envPtrEq || fr.envIsThis) && (!S.funcNonNull || fr.hasFunc) &&
            (!S.slotcountEq || fr.hdr.slotcount == len) then true
    else walk S realOff len rest fr.hdr.prevframe

/-- state of the environment after the call: (return value, offset, length) -/
def envValid (S : Shape) (offset : Int) (len : Nat) (frames : List EFrame) (frame : Nat) : Bool × Int × Nat :=
  if offset < 0 then
    if walk S (-offset).toNat len frames frame then (true, -offset, len)
    else if S.resetsOnFailure then (false, 0, 0) else (false, offset, len)
  else (true, offset, len)

end JanetModel.Unmarsh.EnvValid
