/- C10: byte-level model of the unmarshaller's READING DISCIPLINE (marsh.c `unmarshal_one`, `readint`, `readnat`, `read64`,
   `janet_unmarshal_u32s`, `unmarshal_one_def`, `unmarshal_one_env`, `unmarshal_one_fiber`, `unmarshal_one_abstract` and
   the `janet_unmarshal_*` hooks of the core abstract types), safe mode (flags = 0), over an arbitrary byte array.

   Every byte of the input is reached through `get`, which answers `oob` when the index is not below the length of the
   input; every `MARSH_EOS(st, data + k)` of the source is a `chk` whose offset is REGENERATED from marsh.c
   (`Gen/UnmarshSites.lean`; `guard = none` when the source has no such check).  The theorems (Unmarsh/BytesSound.lean)
   say: when every extracted guard dominates the reads made under it, no input and no fuel makes the model answer `oob`.

   The model also decides accept / reject exactly as the C does (reference table with its push order, type assertions,
   funcdef / function / funcenv / fiber validation, abstract type hooks), so that checks/C10.py can compare it with the
   real unmarshaller input by input (result kind, error class, bytes consumed, type of the value).
   Core Lean only. -/
import JanetModel.Gen.Marsh
namespace JanetModel.Unmarsh.Bytes
open JanetModel.Gen.Marsh

inductive Err
  | eos | badInt | negInt | bad64 | unknownByte | stack | badRef | badEnvRef | badDefRef | defBusy
  | typ | envLen | slots | envIdx | symmap | verify | fnEnvs | fnIncomplete | fnEnvCount
  | fbSetup | frIncomplete | frSize | frPc | frCall | frAlign | frEntrance | fbFrames | fbCycle | fbStatus | fbNoFrames
  | fbOperand | fbLast | unsafePtr | absUnknown | absNoHook | absSafe | absThreaded | chanCount | pegSize | pegBad
  deriving DecidableEq, Repr, Inhabited

/-- what the unmarshaller later asks about a value: its type, the name of a symbol (abstract type lookup), which
    function / fiber it is -/
inductive V
  | int | nil | bool | real | str | sym (name : List Nat) | kw | buf | arr | tup | struct | tab
  | fiber (id : Nat) | func (id : Nat) | abs
  deriving DecidableEq, Repr, Inhabited

/-- the fields of a `JanetFuncDef` that `unmarshal_one` / `unmarshal_one_fiber` read back -/
structure DefInfo where
  done : Bool            -- `lookup_defs_done[i]`
  slotcount : Nat
  envLen : Nat           -- `environments_length`
  bytecode : List Nat
  envs : List Int := []  -- `def->environments[0 .. environments_length)` as read (ghost: no accept / reject decision reads it)
  deriving Repr, Inhabited

/-- everything `janet_verify` looks at -/
structure DefRec where
  flags : Nat            -- as uint32
  slotcount : Nat
  arity : Nat
  minArity : Nat
  maxArity : Nat
  nconsts : Nat
  ndefs : Nat
  nenvs : Nat
  bytecode : List Nat
  symmap : List (Nat × Nat × Nat)   -- birth_pc, death_pc, slot_index as uint32
  deriving Repr, Inhabited

/-- `UnmarshalState` + the part of the heap the validation reads back -/
structure St where
  lookup : Array V := #[]
  nenvs : Nat := 0                        -- janet_v_count(st->lookup_envs)
  defs : Array DefInfo := #[]             -- st->lookup_defs (+ lookup_defs_done)
  funcs : Array (Option Nat) := #[]       -- func->def (none = NULL, function under construction)
  fnEnvs : Array Nat := #[]               -- number of `envs[]` slots the function was allocated with (`len` of LB_FUNCTION; ghost)
  fibers : Array (Option Nat) := #[]      -- fiber->child
  deriving Repr, Inhabited

structure Cur where
  pos : Nat
  st : St
  deriving Repr, Inhabited

inductive Res (α : Type) where
  | ok (a : α) (c : Cur)
  | err (e : Err)
  | oob (site : Nat)      -- a read at an index ≥ length of the input
  | fuel                  -- the model's recursion fuel ran out (never the case with fuel ≥ fuelBound, see BytesSound)
  deriving Repr, Inhabited

abbrev M (α : Type) := Cur → Res α

@[inline] def M.pure {α} (a : α) : M α := fun c => .ok a c
@[inline] def M.bind {α β} (m : M α) (f : α → M β) : M β := fun c =>
  match m c with
  | .ok a c' => f a c'
  | .err e => .err e
  | .oob s => .oob s
  | .fuel => .fuel
instance : Monad M where
  pure := M.pure
  bind := M.bind

def fail {α} (e : Err) : M α := fun _ => .err e
def adv (k : Nat) : M Unit := fun c => .ok () { c with pos := c.pos + k }
def getSt : M St := fun c => .ok c.st c
def modSt (f : St → St) : M Unit := fun c => .ok () { c with st := f c.st }
def outOfFuel {α} : M α := fun _ => .fuel

/-- run `f` `k` times (`for (i = 0; i < k; i++) f`) -/
def loopN (k : Nat) (f : M Unit) : M Unit :=
  match k with
  | 0 => pure ()
  | k + 1 => f >>= fun _ => loopN k f

/-- run `f` `k` times and keep the results in order -/
def collectN {α} (k : Nat) (f : M α) : M (List α) :=
  match k with
  | 0 => pure []
  | k + 1 => f >>= fun a => collectN k f >>= fun as => pure (a :: as)

/-! ### read sites -/

/-- one `MARSH_EOS` site of the source.  `guard = some k`: the source tests `data + <var> + k >= end` (the variable part
    `<var>` — `nbytes`, `len`, `size` — is fixed per site and asserted by the translator); `none`: no such test.
    `maxRead`: constant part of the largest offset the source dereferences under this test (`-1` = none). -/
structure Site where
  guard : Option Int
  maxRead : Int
  deriving Repr, DecidableEq, Inhabited

structure Sites where
  intLead : Site      -- readint: `MARSH_EOS(st, data)`, `*data`
  int2 : Site         -- readint, 2-byte form: `data + 1`, `data[1]`
  int5 : Site         -- readint, LB_INTEGER form: `data + 4`, `data[1..4]`
  r64Lead : Site      -- read64: `data`, `*data`
  r64Multi : Site     -- read64: `data + nbytes`, `data[i]`, 1 ≤ i ≤ nbytes
  envLead : Site      -- unmarshal_one_env: `data`, `*data`
  u32 : Site          -- janet_unmarshal_u32s: `data + 3`, `data[0..3]`
  defLead : Site      -- unmarshal_one_def: `data`, `*data`
  oneLead : Site      -- unmarshal_one: `data`, `data[0]`
  oneInt : Site       -- LB_INTEGER: `data + 4`, `data[1..4]`
  oneReal : Site      -- LB_REAL: `data + 8`, memcpy(data + 1, 8)
  oneBytes : Site     -- string-likes: `data - 1 + len`, janet_string(data, len) / memcpy(.., data, len)
  oneDos : Site       -- containers: `data - 1 + len` ("DOS check"), no read
  unsafePtr : Site    -- LB_UNSAFE_POINTER: `data + sizeof(void *)`; safe mode panics before the memcpy
  ptrBuf : Site       -- LB_POINTER_BUFFER
  unsafeCfun : Site   -- LB_UNSAFE_CFUNCTION
  thrAbs : Site       -- LB_THREADED_ABSTRACT
  ubyte : Site        -- janet_unmarshal_byte: `ctx->data`, `*(ctx->data++)`
  ubytes : Site       -- janet_unmarshal_bytes: `ctx->data + len - 1`, memcpy(dest, ctx->data, len)
  ensure : Site       -- janet_unmarshal_ensure: `ctx->data + size`, no read
  deriving Repr, Inhabited

/-- largest offset the MODEL reads under each site (constant part) -/
def Site.okFor (s : Site) (modelMax : Int) : Bool :=
  match s.guard with
  | some g => decide (modelMax ≤ g) && decide (s.maxRead = modelMax)
  | none => false

def Sites.ok (S : Sites) : Bool :=
  S.intLead.okFor 0 && S.int2.okFor 1 && S.int5.okFor 4 && S.r64Lead.okFor 0 && S.r64Multi.okFor 0 &&
  S.envLead.okFor 0 && S.u32.okFor 3 && S.defLead.okFor 0 && S.oneLead.okFor 0 && S.oneInt.okFor 4 &&
  S.oneReal.okFor 8 && S.oneBytes.okFor (-1) && S.oneDos.okFor (-1) && S.unsafePtr.okFor (-1) && S.ptrBuf.okFor (-1) &&
  S.unsafeCfun.okFor (-1) && S.thrAbs.okFor (-1) && S.ubyte.okFor 0 && S.ubytes.okFor (-1) && S.ensure.okFor (-1)

/-- names, in the order of `Sites.ok`, for reporting which site fails -/
def Sites.bad (S : Sites) : List String :=
  ([("readint.lead", S.intLead, (0 : Int)), ("readint.2", S.int2, 1), ("readint.5", S.int5, 4), ("read64.lead", S.r64Lead, 0),
    ("read64.multi", S.r64Multi, 0), ("env.lead", S.envLead, 0), ("u32s", S.u32, 3), ("def.lead", S.defLead, 0),
    ("one.lead", S.oneLead, 0), ("one.integer", S.oneInt, 4), ("one.real", S.oneReal, 8), ("one.bytes", S.oneBytes, -1),
    ("one.dos", S.oneDos, -1), ("one.unsafe_pointer", S.unsafePtr, -1), ("one.pointer_buffer", S.ptrBuf, -1),
    ("one.unsafe_cfunction", S.unsafeCfun, -1), ("one.threaded_abstract", S.thrAbs, -1), ("unmarshal_byte", S.ubyte, 0),
    ("unmarshal_bytes", S.ubytes, -1), ("unmarshal_ensure", S.ensure, -1)].filter (fun p => !p.2.1.okFor p.2.2)).map (·.1)

/-- what each recursive call site of the unmarshaller adds to the depth counter: `k` of the `flags + k` it passes as last
    argument (REGENERATED from marsh.c, `Gen/UnmarshSites.incs`).  Only `unmarshal_one` and `unmarshal_one_def` test the
    counter (`MARSH_STACKCHECK`); `unmarshal_one_env`, `unmarshal_one_fiber`, `unmarshal_one_abstract` and the
    `janet_unmarshal_janet` hook pass it on. -/
structure Incs where
  envFiber : Nat      -- unmarshal_one_env, on-stack variant: `unmarshal_one(st, data, &fiberv, flags)`
  envValue : Nat      -- unmarshal_one_env, off-stack values
  defName : Nat       -- unmarshal_one_def: name
  defSource : Nat
  defConst : Nat      -- constants
  defSym : Nat        -- symbol of a symbol-map entry
  defSub : Nat        -- sub-funcdefs (`unmarshal_one_def`)
  fbFrameFn : Nat     -- unmarshal_one_fiber: function of a frame
  fbFrameEnv : Nat    -- environment of a frame (`unmarshal_one_env`)
  fbSlot : Nat        -- stack slots of a frame
  fbEnv : Nat         -- fiber environment table
  fbChild : Nat       -- child fiber
  fbLast : Nat        -- last_value
  hookJanet : Nat     -- janet_unmarshal_janet: `ctx->flags + k`
  absKey : Nat        -- unmarshal_one_abstract: type name
  oneFiber : Nat      -- unmarshal_one: `unmarshal_one_fiber(.., flags + k)`
  oneDef : Nat        -- LB_FUNCTION: `unmarshal_one_def`
  oneEnv : Nat        -- LB_FUNCTION: `unmarshal_one_env`
  oneAbstract : Nat   -- LB_ABSTRACT: `unmarshal_one_abstract`
  arrElem : Nat
  tupElem : Nat
  structProto : Nat
  structKey : Nat
  structVal : Nat
  tabProto : Nat
  tabKey : Nat
  tabVal : Nat
  absCtx : Nat        -- unmarshal_one_abstract: `flags + k` stored in the JanetMarshalContext handed to the hook
  deriving Repr, DecidableEq, Inhabited

/-- every path from one `MARSH_STACKCHECK` (entry of `unmarshal_one` / `unmarshal_one_def`) to the next adds at least 1 -/
def Incs.ok (I : Incs) : Bool :=
  decide (1 ≤ I.arrElem) && decide (1 ≤ I.tupElem) && decide (1 ≤ I.structProto) && decide (1 ≤ I.structKey) &&
  decide (1 ≤ I.structVal) && decide (1 ≤ I.tabProto) && decide (1 ≤ I.tabKey) && decide (1 ≤ I.tabVal) &&
  decide (1 ≤ I.oneDef) && decide (1 ≤ I.oneEnv + I.envFiber) && decide (1 ≤ I.oneEnv + I.envValue) &&
  decide (1 ≤ I.oneFiber + I.fbFrameFn) && decide (1 ≤ I.oneFiber + I.fbSlot) && decide (1 ≤ I.oneFiber + I.fbEnv) &&
  decide (1 ≤ I.oneFiber + I.fbChild) && decide (1 ≤ I.oneFiber + I.fbLast) &&
  decide (1 ≤ I.oneFiber + I.fbFrameEnv + I.envFiber) && decide (1 ≤ I.oneFiber + I.fbFrameEnv + I.envValue) &&
  decide (1 ≤ I.oneAbstract + I.absKey) && decide (1 ≤ I.oneAbstract + I.absCtx + I.hookJanet) &&
  decide (1 ≤ I.defName) && decide (1 ≤ I.defSource) && decide (1 ≤ I.defConst) && decide (1 ≤ I.defSym) && decide (1 ≤ I.defSub)

/-- names of the call paths that fail `Incs.ok`, for reporting -/
def Incs.bad (I : Incs) : List String :=
  ([("one->one(array element)", I.arrElem), ("one->one(tuple element)", I.tupElem), ("one->one(struct proto)", I.structProto),
    ("one->one(struct key)", I.structKey), ("one->one(struct value)", I.structVal), ("one->one(table proto)", I.tabProto),
    ("one->one(table key)", I.tabKey), ("one->one(table value)", I.tabVal), ("one->def(function)", I.oneDef),
    ("one->env->one(function env, on-stack fiber)", I.oneEnv + I.envFiber), ("one->env->one(function env, values)", I.oneEnv + I.envValue),
    ("one->fiber->one(frame function)", I.oneFiber + I.fbFrameFn), ("one->fiber->one(frame slot)", I.oneFiber + I.fbSlot),
    ("one->fiber->one(fiber env)", I.oneFiber + I.fbEnv), ("one->fiber->one(child)", I.oneFiber + I.fbChild),
    ("one->fiber->one(last_value)", I.oneFiber + I.fbLast),
    ("one->fiber->env->one(frame env, on-stack fiber)", I.oneFiber + I.fbFrameEnv + I.envFiber),
    ("one->fiber->env->one(frame env, values)", I.oneFiber + I.fbFrameEnv + I.envValue),
    ("one->abstract->one(type name)", I.oneAbstract + I.absKey), ("one->abstract->hook->one(janet_unmarshal_janet)", I.oneAbstract + I.absCtx + I.hookJanet),
    ("def->one(name)", I.defName), ("def->one(source)", I.defSource), ("def->one(constant)", I.defConst),
    ("def->one(symbolmap symbol)", I.defSym), ("def->def(sub-funcdef)", I.defSub)].filter (fun p => p.2 == 0)).map (·.1)

/-- everything the model takes from the rest of the system -/
structure Cfg where
  sites : Sites
  inc : Incs
  verify : DefRec → Bool                 -- `janet_verify(def) == 0`
  pegVerify : List Nat → Nat → Bool      -- the verifier loop of `peg_unmarshal`
  pegSizeChecked : Bool                  -- peg_unmarshal bounds its counts by the remaining input before sizing the allocation
  /-- registered abstract types: name, hook kind (0 none, 1 read64 box, 2 rng, 3 file, 4 stream, 5 channel, 6 peg) -/
  abstracts : List (List Nat × Nat)
  guardDepth : Nat := recursionGuard     -- JANET_RECURSION_GUARD
  jopCall : Nat                          -- JOP_CALL
  threads : Bool                         -- JANET_THREADS (else `janet_unmarshal_abstract_threaded` panics)
  refChecked : Bool                      -- LB_REFERENCE: `len >= janet_v_count(st->lookup)` is tested before `st->lookup[len]`
  envRefChecked : Bool                   -- LB_FUNCENV_REF: `index < 0 || index >= janet_v_count(st->lookup_envs)` before `st->lookup_envs[index]`
  defRefChecked : Bool                   -- LB_FUNCDEF_REF: the same for `st->lookup_defs[index]` / `lookup_defs_done[index]`
  fnEnvCountChecked : Bool := true       -- LB_FUNCTION: `def->environments_length != len` panics (Gen/ImageChecks `fnEnvCount`)
  defEnvIndexChecked : Bool := true      -- unmarshal_one_def: `environments[i] < -1` panics (Gen/ImageChecks `defEnvIndex`)

def Cfg.refsChecked (C : Cfg) : Bool := C.refChecked && C.envRefChecked && C.defRefChecked

section
variable (C : Cfg) (b : Array Nat)

/-- `MARSH_EOS(st, data + v + k)` -/
def chk (s : Site) (v : Nat) : M Unit := fun c =>
  match s.guard with
  | none => .ok () c
  | some g => if (b.size : Int) ≤ (c.pos : Int) + (v : Int) + g then .err .eos else .ok () c

/-- `data[off]` -/
def get (site : Nat) (off : Nat) : M Nat := fun c =>
  match b[c.pos + off]? with
  | some x => .ok x c
  | none => .oob site

def toI32 (w : Nat) : Int := if w % 4294967296 < 2147483648 then ((w % 4294967296 : Nat) : Int) else ((w % 4294967296 : Nat) : Int) - 4294967296
def toU32 (x : Int) : Nat := (x % 4294967296).toNat

/-- `MARSH_EOS(st, data); lead = *data` without moving -/
def peek (s : Site) (site : Nat) : M Nat := chk b s 0 >>= fun _ => get b site 0

/-- `data[start], data[start+1], …` (`k` bytes) -/
def getRange (site : Nat) (start : Nat) : Nat → M (List Nat)
  | 0 => pure []
  | k + 1 => get b site start >>= fun x => getRange site (start + 1) k >>= fun xs => pure (x :: xs)

/-- the common shape of a read site: `MARSH_EOS(st, data + v + k)`, then `data[start .. start+k-1]` are read, then
    `data += a` -/
def guarded {α : Type} (s : Site) (v : Nat) (site start k a : Nat) (g : List Nat → α) : M α :=
  chk b s v >>= fun _ => getRange b site start k >>= fun bs => adv a >>= fun _ => pure (g bs)

/-- big-endian value of a byte list -/
def beBytes (acc : Nat) : List Nat → Nat
  | [] => acc
  | x :: xs => beBytes (acc * 256 + x) xs

/-- little-endian value of a byte list -/
def leBytes : List Nat → Nat
  | [] => 0
  | x :: xs => x + 256 * leBytes xs

def mid14 (l x : Nat) : Int :=
  if readSignThresh ≤ (l % readMidMod) * readMidMul + x then (((l % readMidMod) * readMidMul + x : Nat) : Int) - readSignSub
  else (((l % readMidMod) * readMidMul + x : Nat) : Int)

/-- `readint` -/
def readint : M Int :=
  peek b C.sites.intLead 0 >>= fun l =>
  if l < readSmallLim then adv 1 >>= fun _ => pure (l : Int)
  else if l < readMidLim then guarded b C.sites.int2 0 1 1 1 2 (fun bs => mid14 l (bs.getD 0 0))
  else if l = lb_integer then guarded b C.sites.int5 0 2 1 4 5 (fun bs => toI32 (beBytes 0 bs))
  else fail .badInt

/-- `readnat` -/
def readnat : M Nat := readint C b >>= fun x => if x < 0 then fail .negInt else pure x.toNat

/-- `read64` -/
def read64 : M Nat :=
  peek b C.sites.r64Lead 3 >>= fun l =>
  if l ≤ push64Small then adv 1 >>= fun _ => pure l
  else if 8 < l - push64Small then fail .bad64
  else guarded b C.sites.r64Multi (l - push64Small) 4 1 (l - push64Small) (l - push64Small + 1) leBytes

/-- `janet_unmarshal_u32s`: one word -/
def u32 : M Nat := guarded b C.sites.u32 0 6 0 4 4 leBytes

/-- payload of `len` bytes: `MARSH_EOS(st, data - 1 + len)`, then the bytes are copied -/
def payload (s : Site) (site : Nat) (len : Nat) : M (List Nat) := guarded b s len site 0 len len id

/-- `janet_unmarshal_byte` -/
def ubyte : M Nat := guarded b C.sites.ubyte 0 17 0 1 1 (fun bs => bs.getD 0 0)

/-- `janet_unmarshal_bytes(ctx, dest, len)` (no core abstract type calls it; modelled for the site table) -/
def ubytes (len : Nat) : M (List Nat) := payload b C.sites.ubytes 18 len

/-- `janet_unmarshal_ensure(ctx, size)` -/
def ensure (size : Nat) : M Unit := chk b C.sites.ensure size

/-- `janet_v_push(st->lookup, v)` -/
def pushLookup (v : V) : M Unit := modSt fun s => { s with lookup := s.lookup.push v }

def expect (ok : Bool) (e : Err) : M Unit := if ok then pure () else fail e

/-- index into one of the reference tables (`st->lookup`, `st->lookup_envs`, `st->lookup_defs`): `inRange` = the index is inside
    the table; `checked` = the source tests it first (regenerated).  Without the test an out-of-range index is an
    out-of-bounds read of the table (`oob`, sites 100-102). -/
def refGuard (checked inRange : Bool) (e : Err) (site : Nat) : M Unit :=
  if inRange then pure () else if checked then fail e else fun _ => .oob site

def isTyp (v : V) (t : Nat) : Bool :=
  match v, t with
  | .str, 0 => true | .sym _, 1 => true | .fiber _, 2 => true | .func _, 3 => true | .tab, 4 => true | .struct, 5 => true
  | _, _ => false

/-- the three mutually recursive entry points at the previous fuel level; argument = `flags & 0xFFFF` (recursion depth) -/
structure Fns where
  one : Nat → M V
  def_ : Nat → M Nat       -- index into `st.defs`
  env : Nat → M Unit

def Fns.none : Fns := { one := fun _ => outOfFuel, def_ := fun _ => outOfFuel, env := fun _ => outOfFuel }

def bit (x : Nat) (mask : Nat) : Bool := x / mask % 2 == 1

/-- `unmarshal_one_env(st, data, out, flags)`, `d = flags` -/
def envBody (P : Fns) (d : Nat) : M Unit :=
  peek b C.sites.envLead 5 >>= fun l =>
  if l = lb_funcenv_ref then
    adv 1 >>= fun _ => readint C b >>= fun idx => getSt >>= fun s =>
    refGuard C.envRefChecked (decide (0 ≤ idx) && decide (idx.toNat < s.nenvs)) .badEnvRef 101
  else
    modSt (fun s => { s with nenvs := s.nenvs + 1 }) >>= fun _ =>
    readnat C b >>= fun offset => readnat C b >>= fun length =>
    if 0 < offset then
      P.one (d + C.inc.envFiber) >>= fun fv => expect (isTyp fv 2) .typ
    else if length = 0 then fail .envLen
    else loopN length (P.one (d + C.inc.envValue) >>= fun _ => pure ())

/-- symbol map entry: three `readint`s and a symbol -/
def symEntry (P : Fns) (d : Nat) : M (Nat × Nat × Nat) :=
  readint C b >>= fun birth => readint C b >>= fun death => readint C b >>= fun slot =>
  P.one (d + C.inc.defSym) >>= fun v => expect (isTyp v 1) .symmap >>= fun _ => pure (toU32 birth, toU32 death, toU32 slot)

def optNat (c : Bool) (m : M Nat) : M Nat := if c then m else pure 0

/-- `unmarshal_one_def(st, data, out, flags)`, `d = flags` -/
def defBody (P : Fns) (d : Nat) : M Nat :=
  if C.guardDepth < d then fail .stack else
  peek b C.sites.defLead 7 >>= fun l =>
  if l = lb_funcdef_ref then
    adv 1 >>= fun _ => readint C b >>= fun idx => getSt >>= fun s =>
    refGuard C.defRefChecked (decide (0 ≤ idx) && decide (idx.toNat < s.defs.size)) .badDefRef 102 >>= fun _ =>
    expect ((s.defs[idx.toNat]?.map (·.done)).getD false) .defBusy >>= fun _ => pure idx.toNat
  else
    getSt >>= fun s0 =>
    modSt (fun s => { s with defs := s.defs.push { done := false, slotcount := 0, envLen := 0, bytecode := [] } }) >>= fun _ =>
    readint C b >>= fun flagsI =>
    readnat C b >>= fun slotcount =>
    expect (decide (slotcount ≤ 16777216)) .slots >>= fun _ =>
    readnat C b >>= fun arity => readnat C b >>= fun minA => readnat C b >>= fun maxA =>
    readnat C b >>= fun nconsts => readnat C b >>= fun bclen =>
    optNat (bit (toU32 flagsI) 4194304) (readnat C b) >>= fun nenvs =>      -- HASENVS 0x400000
    optNat (bit (toU32 flagsI) 2097152) (readnat C b) >>= fun ndefs =>      -- HASDEFS 0x200000
    optNat (bit (toU32 flagsI) 262144) (readnat C b) >>= fun nsym =>        -- HASSYMBOLMAP 0x40000
    (if bit (toU32 flagsI) 524288 then P.one (d + C.inc.defName) >>= fun v => expect (isTyp v 0) .typ else pure ()) >>= fun _ =>   -- HASNAME
    (if bit (toU32 flagsI) 1048576 then P.one (d + C.inc.defSource) >>= fun v => expect (isTyp v 0) .typ else pure ()) >>= fun _ =>  -- HASSOURCE
    loopN nconsts (P.one (d + C.inc.defConst) >>= fun _ => pure ()) >>= fun _ =>
    collectN nsym (symEntry C b P d) >>= fun symmap =>
    collectN bclen (u32 C b) >>= fun bytecode =>
    collectN nenvs (readint C b >>= fun inh => expect (!C.defEnvIndexChecked || decide (-1 ≤ inh)) .envIdx >>= fun _ => pure inh) >>= fun envs =>
    loopN ndefs (P.def_ (d + C.inc.defSub) >>= fun _ => pure ()) >>= fun _ =>
    (if bit (toU32 flagsI) 8388608 then loopN bclen (readint C b >>= fun _ => readint C b >>= fun _ => pure ()) else pure ()) >>= fun _ =>   -- HASSOURCEMAP
    (if bit (toU32 flagsI) 33554432 then loopN ((slotcount + 31) / 32) (u32 C b >>= fun _ => pure ()) else pure ()) >>= fun _ =>             -- HASCLOBITSET
    expect (C.verify { flags := toU32 flagsI, slotcount := slotcount, arity := arity, minArity := minA, maxArity := maxA,
                       nconsts := nconsts, ndefs := ndefs, nenvs := nenvs, bytecode := bytecode, symmap := symmap }) .verify >>= fun _ =>
    modSt (fun s => { s with defs := s.defs.setIfInBounds s0.defs.size
                                { done := true, slotcount := slotcount, envLen := nenvs, bytecode := bytecode, envs := envs } }) >>= fun _ =>
    pure s0.defs.size

/-- follow `c->child` from `start` for at most `k` steps; true when `target` is met -/
def childReaches (fibers : Array (Option Nat)) (target : Nat) : Nat → Option Nat → Bool
  | _, none => false
  | 0, some _ => false
  | k + 1, some c => if c = target then true else childReaches fibers target k (fibers[c]?.getD none)

/-- what the final checks of `unmarshal_one_fiber` need of the top frame -/
structure TopFrame where
  slotcount : Nat
  bytecode : List Nat
  pc : Nat
  deriving Repr, Inhabited

/-- the `while (stack > 0)` loop of `unmarshal_one_fiber`; `k` bounds the number of iterations (each reads ≥ 3 bytes) -/
def frameLoop (P : Fns) (d : Nat) (frame : Nat) : Nat → Nat → Int → Option TopFrame → M (Option TopFrame)
  | 0, _, _, _ => outOfFuel
  | k + 1, stack, stacktop, top =>
    if stack = 0 then pure top else
    readint C b >>= fun frameflags => readnat C b >>= fun prevframe => readnat C b >>= fun pcdiff =>
    P.one (d + C.inc.fbFrameFn) >>= fun fv =>
    getSt >>= fun s =>
    match fv with
    | .func fid =>
      match (s.funcs[fid]?.getD none) with
      | none => fail .frIncomplete
      | some di =>
        (if toU32 frameflags / 2147483648 % 2 == 1 then P.env (d + C.inc.fbFrameEnv) else pure ()) >>= fun _ =>
        expect (decide (((s.defs[di]?.getD default).slotcount : Int) = stacktop - stack)) .frSize >>= fun _ =>
        expect (decide (pcdiff < (s.defs[di]?.getD default).bytecode.length)) .frPc >>= fun _ =>
        expect (decide (stack = frame) || decide (((s.defs[di]?.getD default).bytecode.getD pcdiff 0) % 128 = C.jopCall)) .frCall >>= fun _ =>
        expect (decide (toI32 (prevframe + 4) ≤ stack)) .frAlign >>= fun _ =>
        expect (decide (prevframe ≠ 0) || (toU32 frameflags / 2 % 2 == 1)) .frEntrance >>= fun _ =>
        loopN (stacktop - stack).toNat (P.one (d + C.inc.fbSlot) >>= fun _ => pure ()) >>= fun _ =>
        frameLoop P d frame k prevframe ((stack : Int) - 4)
          (if stack = frame then some { slotcount := (s.defs[di]?.getD default).slotcount, bytecode := (s.defs[di]?.getD default).bytecode, pc := pcdiff } else top)
    | _ => fail .typ

/-- `unmarshal_one_fiber(st, data + 1, &fiber, flags')`, `d = flags'` -/
def fiberBody (P : Fns) (d : Nat) : M V :=
  getSt >>= fun s0 =>
  modSt (fun s => { s with fibers := s.fibers.push none, lookup := s.lookup.push (.fiber s.fibers.size) }) >>= fun _ =>
  readint C b >>= fun fflags => readnat C b >>= fun frame => readnat C b >>= fun sstart => readnat C b >>= fun stop =>
  readnat C b >>= fun maxs =>
  expect (decide (toI32 (frame + 4) ≤ sstart) && decide (sstart ≤ stop) && decide (stop ≤ maxs)) .fbSetup >>= fun _ =>
  frameLoop C b P d frame (b.size + 1) frame ((sstart : Int) - 4) none >>= fun top =>
  (if bit (toU32 fflags) 1073741824 then P.one (d + C.inc.fbEnv) >>= fun v => expect (isTyp v 4) .typ else pure ()) >>= fun _ =>   -- HASENV 1<<30
  (if bit (toU32 fflags) 536870912 then                                                                             -- HASCHILD 1<<29
    P.one (d + C.inc.fbChild) >>= fun v =>
    match v with
    | .fiber cid => getSt >>= fun s =>
      if cid = s0.fibers.size || childReaches s.fibers s0.fibers.size s.fibers.size (s.fibers[cid]?.getD none) then fail .fbCycle
      else modSt (fun s => { s with fibers := s.fibers.setIfInBounds s0.fibers.size (some cid) })
    | _ => fail .typ
   else pure ()) >>= fun _ =>
  P.one (d + C.inc.fbLast) >>= fun _ =>
  expect (decide (toU32 fflags / 65536 % 64 ≤ 15)) .fbStatus >>= fun _ =>
  expect (decide (frame ≠ 0) || decide (toU32 fflags / 65536 % 64 = 0)) .fbNoFrames >>= fun _ =>
  (if 0 < frame ∧ toU32 fflags / 65536 % 64 ≠ 0 ∧ toU32 fflags / 65536 % 64 ≠ 1 ∧
      ¬ (4 ≤ toU32 fflags / 65536 % 64 ∧ toU32 fflags / 65536 % 64 ≤ 8) then
    match top with
    | some t =>
      expect (bit (toU32 fflags) 33554432 || decide ((t.bytecode.getD t.pc 0) / 256 % 256 < t.slotcount)) .fbOperand >>= fun _ =>
      expect (bit (toU32 fflags) 67108864 || decide (t.pc + 1 < t.bytecode.length)) .fbLast
    | none => pure ()
   else pure ()) >>= fun _ =>
  pure (.fiber s0.fibers.size)

/-- `case LB_FUNCTION` (after `data++`), `d = flags` -/
def functionBody (P : Fns) (d : Nat) : M V :=
  readnat C b >>= fun len =>
  expect (decide (len ≤ 255)) .fnEnvs >>= fun _ =>
  getSt >>= fun s0 =>
  modSt (fun s => { s with funcs := s.funcs.push none, fnEnvs := s.fnEnvs.push len, lookup := s.lookup.push (.func s.funcs.size) }) >>= fun _ =>
  P.def_ (d + C.inc.oneDef) >>= fun di =>
  getSt >>= fun s =>
  expect (decide (0 < (s.defs[di]?.getD default).bytecode.length)) .fnIncomplete >>= fun _ =>
  expect (!C.fnEnvCountChecked || decide ((s.defs[di]?.getD default).envLen = len)) .fnEnvCount >>= fun _ =>
  modSt (fun s => { s with funcs := s.funcs.setIfInBounds s0.funcs.size (some di) }) >>= fun _ =>
  loopN len (P.env (d + C.inc.oneEnv)) >>= fun _ =>
  pure (.func s0.funcs.size)

/-- `peg_unmarshal` (reads only; the verifier loop is `C.pegVerify`) -/
def pegBody (P : Fns) (d : Nat) : M Unit :=
  read64 C b >>= fun blen => readint C b >>= fun ncI =>
  (if C.pegSizeChecked then
     expect (decide (blen ≤ 2147483647) && decide (toU32 ncI ≤ 2147483647)) .pegSize >>= fun _ =>
     (if 0 < blen + toU32 ncI then ensure C b (blen + toU32 ncI - 1) else pure ())
   else pure ()) >>= fun _ =>
  pushLookup .abs >>= fun _ =>
  collectN blen (readint C b >>= fun w => pure (toU32 w)) >>= fun bc =>
  loopN (toU32 ncI) (P.one (d + C.inc.absCtx + C.inc.hookJanet) >>= fun _ => pure ()) >>= fun _ =>
  expect (C.pegVerify bc (toU32 ncI)) .pegBad

/-- `janet_chanat_unmarshal` -/
def chanBody (P : Fns) (d : Nat) : M Unit :=
  ubyte C b >>= fun thr =>
  (if thr ≠ 0 ∧ C.threads = false then fail .absThreaded else pushLookup .abs) >>= fun _ => ubyte C b >>= fun _ =>
  readint C b >>= fun _ => readint C b >>= fun count =>
  expect (decide (0 ≤ count)) .chanCount >>= fun _ =>
  loopN count.toNat (P.one (d + C.inc.absCtx + C.inc.hookJanet) >>= fun _ => pure ())

/-- `unmarshal_one_abstract(st, data, out, flags)`, `d = flags` -/
def abstractBody (P : Fns) (d : Nat) : M V :=
  P.one (d + C.inc.absKey) >>= fun key =>
  match key with
  | .sym name =>
    match C.abstracts.lookup name with
    | none => fail .absUnknown
    | some kind =>
      (if kind = 1 then pushLookup .abs >>= fun _ => read64 C b >>= fun _ => pure ()
       else if kind = 2 then pushLookup .abs >>= fun _ => loopN 5 (readint C b >>= fun _ => pure ())
       else if kind = 3 then fail .absSafe
       else if kind = 4 then fail .absSafe
       else if kind = 5 then chanBody C b P d
       else if kind = 6 then pegBody C b P d
       else fail .absNoHook) >>= fun _ => pure .abs
  | _ => fail .absUnknown

def isBytesLead (l : Nat) : Bool :=
  l = lb_string || l = lb_symbol || l = lb_buffer || l = lb_keyword || l = lb_registry

def isContainerLead (l : Nat) : Bool :=
  l = lb_reference || l = lb_array || l = lb_array_weak || l = lb_tuple || l = lb_struct || l = lb_struct_proto ||
  l = lb_table || l = lb_table_proto || l = lb_table_weakk || l = lb_table_weakv || l = lb_table_weakkv ||
  l = lb_table_weakk_proto || l = lb_table_weakv_proto || l = lb_table_weakkv_proto

def isTableProto (l : Nat) : Bool :=
  l = lb_table_proto || l = lb_table_weakk_proto || l = lb_table_weakv_proto || l = lb_table_weakkv_proto

/-- "things that open with integers" (after `data++`) -/
def containerBody (P : Fns) (d : Nat) (lead : Nat) : M V :=
  readnat C b >>= fun len =>
  (if lead = lb_reference then pure () else chk b C.sites.oneDos len) >>= fun _ =>
  if lead = lb_array || lead = lb_array_weak then
    pushLookup .arr >>= fun _ => loopN len (P.one (d + C.inc.arrElem) >>= fun _ => pure ()) >>= fun _ => pure .arr
  else if lead = lb_tuple then
    readint C b >>= fun _ => loopN len (P.one (d + C.inc.tupElem) >>= fun _ => pure ()) >>= fun _ => pushLookup .tup >>= fun _ => pure .tup
  else if lead = lb_struct || lead = lb_struct_proto then
    (if lead = lb_struct_proto then P.one (d + C.inc.structProto) >>= fun p => expect (isTyp p 5) .typ else pure ()) >>= fun _ =>
    loopN len (P.one (d + C.inc.structKey) >>= fun _ => P.one (d + C.inc.structVal) >>= fun _ => pure ()) >>= fun _ =>
    pushLookup .struct >>= fun _ => pure .struct
  else if lead = lb_reference then
    getSt >>= fun s =>
    refGuard C.refChecked (decide (len < s.lookup.size)) .badRef 100 >>= fun _ => pure (s.lookup[len]?.getD .nil)
  else
    pushLookup .tab >>= fun _ =>
    (if isTableProto lead then P.one (d + C.inc.tabProto) >>= fun p => expect (isTyp p 4) .typ else pure ()) >>= fun _ =>
    loopN len (P.one (d + C.inc.tabKey) >>= fun _ => P.one (d + C.inc.tabVal) >>= fun _ => pure ()) >>= fun _ => pure .tab

/-- string-likes (after `data++`) -/
def bytesBody (lead : Nat) : M V :=
  readnat C b >>= fun len => payload b C.sites.oneBytes 11 len >>= fun bs =>
  (pure (if lead = lb_string then V.str else if lead = lb_symbol then V.sym bs else if lead = lb_keyword then V.kw
         else if lead = lb_registry then V.nil else V.buf) : M V) >>= fun v =>
  pushLookup v >>= fun _ => pure v

/-- `unmarshal_one(st, data, out, flags)`, `d = flags & 0xFFFF` -/
def oneBody (P : Fns) (d : Nat) : M V :=
  if C.guardDepth < d then fail .stack else
  peek b C.sites.oneLead 8 >>= fun lead =>
  if lead < lb_real then readint C b >>= fun _ => pure .int
  else if lead = lb_nil then adv 1 >>= fun _ => pure .nil
  else if lead = lb_false || lead = lb_true then adv 1 >>= fun _ => pure .bool
  else if lead = lb_integer then
    guarded b C.sites.oneInt 0 9 1 4 5 (fun _ => V.int)
  else if lead = lb_real then
    guarded b C.sites.oneReal 0 10 1 8 9 (fun _ => ()) >>= fun _ => pushLookup .real >>= fun _ => pure .real
  else if isBytesLead lead then adv 1 >>= fun _ => bytesBody C b lead
  else if lead = lb_fiber then adv 1 >>= fun _ => fiberBody C b P (d + C.inc.oneFiber)
  else if lead = lb_function then adv 1 >>= fun _ => functionBody C b P d
  else if lead = lb_abstract then adv 1 >>= fun _ => abstractBody C b P (d + C.inc.oneAbstract)
  else if isContainerLead lead then adv 1 >>= fun _ => containerBody C b P d lead
  else if lead = lb_unsafe_pointer then chk b C.sites.unsafePtr 0 >>= fun _ => fail .unsafePtr
  else if lead = lb_pointer_buffer then
    adv 1 >>= fun _ => readnat C b >>= fun _ => readnat C b >>= fun _ => chk b C.sites.ptrBuf 0 >>= fun _ => fail .unsafePtr
  else if lead = lb_unsafe_cfunction then chk b C.sites.unsafeCfun 0 >>= fun _ => fail .unsafePtr
  else if lead = lb_threaded_abstract then chk b C.sites.thrAbs 0 >>= fun _ => fail .unsafePtr
  else fail .unknownByte

/-- the three entry points with `fuel` levels of recursion available -/
def fns : Nat → Fns
  | 0 => Fns.none
  | f + 1 => { one := oneBody C b (fns f), def_ := defBody C b (fns f), env := envBody C b (fns f) }

/-- `janet_unmarshal(bytes, len, 0, reg = NULL, &next)` -/
def unmarshal (fuel : Nat) : Res V := (fns C b fuel).one 0 { pos := 0, st := {} }

/-- enough fuel for every input: two levels per unit of C recursion depth -/
def fuelBound : Nat := 2 * (C.guardDepth + 2) + 2

end
end JanetModel.Unmarsh.Bytes
