/- C10: soundness of `janet_env_valid` over a well-formed frame chain (`FramesWf`, the invariant that
   `fiber_image_wf_of_all_checks` gives for every fiber the unmarshaller accepts). -/
import JanetModel.Unmarsh.EnvValid
import JanetModel.Unmarsh.ImageWf
namespace JanetModel.Unmarsh.EnvValid
open JanetModel.Unmarsh

theorem shape_facts {S : Shape} (h : S.allOn = true) :
    S.onlyNegative = true ∧ S.startsAtFrame = true ∧ S.offsetEq = true ∧ S.envPtrEq = true ∧ S.funcNonNull = true ∧
    S.slotcountEq = true ∧ S.resetsOnFailure = true := by
  unfold Shape.allOn at h
  simp only [Bool.and_eq_true] at h
  obtain ⟨⟨⟨⟨⟨⟨h1, h2⟩, h3⟩, h4⟩, h5⟩, h6⟩, h7⟩ := h
  exact ⟨h1, h2, h3, h4, h5, h6, h7⟩

/-- an accepted offset is the start of a frame of the chain whose slots are exactly the environment: all of
    `data[realOff .. realOff + len)` lies inside that frame, below the top of the chain -/
theorem walk_in_frame (S : Shape) (hS : S.allOn = true) (realOff len : Nat) :
    ∀ (fs : List EFrame) (stack : Nat) (stacktop : Int) (top : Bool),
      FramesWf (fs.map (·.hdr)) stack stacktop top → walk S realOff len fs stack = true →
      frameSizeWords ≤ realOff ∧ (realOff : Int) + len ≤ stacktop ∧
      ∃ fr ∈ fs, fr.envIsThis = true ∧ fr.hasFunc = true ∧ fr.hdr.slotcount = len := by
  obtain ⟨_, _, h3, h4, h5, h6, _⟩ := shape_facts hS
  intro fs
  induction fs with
  | nil => intro stack stacktop top _ hw; simp [walk] at hw
  | cons fr rest ih =>
    intro stack stacktop top hwf hw
    unfold walk at hw
    by_cases h0 : stack = 0
    · simp [h0] at hw
    · rw [if_neg h0] at hw
      cases hwf with
      | done => exact absurd rfl h0
      | frame _ _ _ _ _ hfs hsz _ hprev _ _ hrest =>
        have hfw : frameSizeWords = 4 := rfl
        dsimp only at hfs hsz hprev hrest
        by_cases hm : ((!S.offsetEq || realOff == stack) && (!S.envPtrEq || fr.envIsThis) && (!S.funcNonNull || fr.hasFunc) &&
                        (!S.slotcountEq || fr.hdr.slotcount == len)) = true
        · rw [h3, h4, h5, h6] at hm
          simp only [Bool.not_true, Bool.false_or, Bool.and_eq_true, beq_iff_eq] at hm
          obtain ⟨⟨⟨hro, he⟩, hf⟩, hl⟩ := hm
          refine ⟨by omega, by omega, fr, List.mem_cons_self, he, hf, hl⟩
        · rw [if_neg hm] at hw
          obtain ⟨a, b, fr', hmem, c⟩ := ih fr.hdr.prevframe ((stack : Int) - frameSizeWords) false hrest hw
          refine ⟨a, ?_, fr', List.mem_cons_of_mem _ hmem, c⟩
          have : (0 : Int) ≤ fr.hdr.slotcount := Int.natCast_nonneg _
          omega

/-- **env_valid_sound**: for a fiber whose image passed validation (`FiberWf`), after `janet_env_valid(env)` on an untrusted
    environment (offset < 0): either it answered 1, the stored offset is positive and every `env->offset + vindex` with
    `vindex < env->length` indexes a slot of one frame, strictly below `stackstart - JANET_FRAME_SIZE` (< capacity) — or it answered
    0 and the environment is the empty off-stack one (`length = 0`: the handlers' `env->length > vindex` test fails for every
    vindex). -/
theorem env_valid_sound (S : Shape) (hS : S.allOn = true) (h : FiberHdr) (frames : List EFrame)
    (hwf : FiberWf h (frames.map (·.hdr))) (offset : Int) (hneg : offset < 0) (len : Nat) :
    ((envValid S offset len frames h.frame).1 = true →
        0 < (envValid S offset len frames h.frame).2.1 ∧ (envValid S offset len frames h.frame).2.2 = len ∧
        ∀ vindex : Nat, vindex < len →
          (envValid S offset len frames h.frame).2.1 + vindex < (h.stackstart : Int) - frameSizeWords ∧
          (envValid S offset len frames h.frame).2.1 + vindex < (h.stacktop : Int) + 10) ∧
    ((envValid S offset len frames h.frame).1 = false →
        (envValid S offset len frames h.frame).2.1 = 0 ∧ (envValid S offset len frames h.frame).2.2 = 0) := by
  obtain ⟨_, _, _, _, _, _, h7⟩ := shape_facts hS
  unfold envValid
  rw [if_pos hneg]
  by_cases hw : walk S (-offset).toNat len frames h.frame = true
  · rw [if_pos hw]
    obtain ⟨a, b, _⟩ := walk_in_frame S hS (-offset).toNat len frames h.frame _ true hwf.chain hw
    have hs := hwf.setup
    have hto : (((-offset).toNat : Nat) : Int) = -offset := Int.toNat_of_nonneg (by omega)
    have hfw : frameSizeWords = 4 := rfl
    dsimp only
    refine ⟨fun _ => ⟨by omega, rfl, fun v hv => ⟨by omega, by omega⟩⟩, fun hc => by simp at hc⟩
  · rw [if_neg hw, h7, if_pos rfl]
    dsimp only
    exact ⟨fun hc => by simp at hc, fun _ => ⟨rfl, rfl⟩⟩

/-- a trusted environment (offset ≥ 0: created by the VM itself, or already validated) is left alone -/
theorem env_valid_trusted (S : Shape) (offset : Int) (h0 : 0 ≤ offset) (len : Nat) (frames : List EFrame) (frame : Nat) :
    envValid S offset len frames frame = (true, offset, len) := by
  unfold envValid
  rw [if_neg (by omega)]

end JanetModel.Unmarsh.EnvValid
