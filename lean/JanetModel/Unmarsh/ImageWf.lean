/- C10: well-formedness theorems for accepted images, for ANY `Checks` with every check present. -/
import JanetModel.Unmarsh.Image
namespace JanetModel.Unmarsh

theorem acceptFrames_wf (C : Checks) (hC : C.allOn = true) :
    ∀ (fs : List FrameRec) (stack : Nat) (stacktop : Int) (top : Bool),
      acceptFrames C fs stack stacktop top = true → FramesWf fs stack stacktop top := by
  simp only [Checks.allOn, Bool.and_eq_true] at hC
  obtain ⟨⟨⟨⟨⟨⟨⟨⟨⟨⟨⟨⟨_, h2⟩, h3⟩, h4⟩, _⟩, _⟩, h7⟩, h8⟩, _⟩, _⟩, _⟩, _⟩, _⟩ := hC
  intro fs
  induction fs with
  | nil =>
    intro stack stacktop top h
    simp only [acceptFrames, beq_iff_eq] at h
    subst h; exact FramesWf.done _ _ _
  | cons fr rest ih =>
    intro stack stacktop top h
    unfold acceptFrames at h
    by_cases hs : stack = 0
    · subst hs; exact FramesWf.done _ _ _
    · rw [if_neg hs] at h
      simp only [h2, h3, h4, h7, h8, Bool.not_true, Bool.false_or, Bool.and_eq_true, decide_eq_true_eq, beq_iff_eq,
        Bool.or_eq_true, bne_iff_ne, ne_eq] at h
      obtain ⟨⟨⟨⟨⟨hsz, hpc⟩, hcall⟩, hprev⟩, hent⟩, hrest⟩ := h
      refine FramesWf.frame fr rest stack stacktop top ?_ ?_ hpc hprev ?_ ?_ (ih _ _ _ hrest)
      · simp only [frameSizeWords] at hprev ⊢; omega
      · omega
      · intro h0; rcases hent with h | h
        · exact absurd h0 h
        · exact h
      · intro ht; rcases hcall with h | h
        · rw [ht] at h; exact Bool.noConfusion h
        · exact h

/-- **fiber_image_wf** (generic): with every check present an accepted fiber image satisfies the full invariant -/
theorem fiber_image_wf_generic (C : Checks) (hC : C.allOn = true) (h : FiberHdr) (frames : List FrameRec)
    (hacc : acceptFiber C h frames = true) : FiberWf h frames := by
  have hC' := hC
  simp only [Checks.allOn, Bool.and_eq_true] at hC'
  obtain ⟨⟨⟨⟨⟨⟨⟨⟨⟨⟨⟨⟨h1, _⟩, _⟩, _⟩, h5⟩, h6⟩, _⟩, _⟩, h9⟩, _⟩, _⟩, _⟩, _⟩ := hC'
  unfold acceptFiber at hacc
  simp only [h1, h5, h6, h9, Bool.not_true, Bool.false_or, Bool.and_eq_true, decide_eq_true_eq] at hacc
  obtain ⟨⟨⟨⟨⟨⟨hs1, hs2⟩, hs3⟩, hfr⟩, hst⟩, hf0⟩, hres⟩ := hacc
  have hf0' : resumable h.status = true → 0 < h.frame := by
    intro hr
    by_cases hz : h.frame = 0
    · exfalso
      have hd : h.status ≠ statusDead := by
        intro hd; rw [hd] at hr; exact absurd hr (by decide)
      simp [hz, hd] at hf0
    · omega
  refine ⟨⟨hs1, hs2, hs3⟩, Nat.le_add_right _ _, acceptFrames_wf C hC _ _ _ _ hfr, hst, hf0', ?_⟩
  intro hr
  have hpos := hf0' hr
  simp only [resumable_mustCheck _ hr, hpos, decide_true, Bool.and_self, Bool.not_true, Bool.false_or] at hres
  cases frames with
  | nil => simp at hres
  | cons fr rest =>
    simp only [Bool.and_eq_true, Bool.or_eq_true, decide_eq_true_eq] at hres
    exact ⟨fr, rest, rfl, hres.1, hres.2⟩

/-- **fiber_image_wf_partial**: what the baseline checks (stack setup, status range) give on their own -/
theorem fiber_image_wf_partial (C : Checks) (h1 : C.stackSetup = true) (h5 : C.statusRange = true) (h : FiberHdr)
    (frames : List FrameRec) (hacc : acceptFiber C h frames = true) : FiberWfPartial h frames := by
  unfold acceptFiber at hacc
  simp only [h1, h5, Bool.not_true, Bool.false_or, Bool.and_eq_true, decide_eq_true_eq] at hacc
  exact ⟨⟨hacc.1.1.1.1.1.1, hacc.1.1.1.1.1.2, hacc.1.1.1.1.2⟩, hacc.1.1.2⟩

/-- **function_image_wf** (generic) -/
theorem function_image_wf_generic (C : Checks) (hC : C.allOn = true) (len defEnvLen : Nat) (envs : List Int)
    (hacc : acceptFunction C len defEnvLen envs = true) : len = defEnvLen ∧ ∀ e ∈ envs, -1 ≤ e := by
  simp only [Checks.allOn, Bool.and_eq_true] at hC
  obtain ⟨⟨⟨⟨_, h10⟩, h11⟩, _⟩, _⟩ := hC
  simp only [acceptFunction, h10, h11, Bool.not_true, Bool.false_or, Bool.and_eq_true, beq_iff_eq, List.all_eq_true,
    decide_eq_true_eq] at hacc
  exact hacc

/-- **env_untrusted_checked** (generic): an on-stack environment built from an image carries a negative offset, and the
    upvalue handlers go through `janet_env_valid` before any dereference of it -/
theorem env_untrusted_checked_generic (C : Checks) (hC : C.allOn = true) (offset : Nat) (hpos : 0 < offset) :
    envOffsetStored C offset < 0 ∧ validatedFirst C (envOffsetStored C offset) = true ∧
    derefsUnvalidated C (envOffsetStored C offset) = false := by
  simp only [Checks.allOn, Bool.and_eq_true] at hC
  obtain ⟨⟨_, h12⟩, h13⟩ := hC
  simp only [envOffsetStored, h12, if_true, validatedFirst, derefsUnvalidated, h13, Bool.not_true, Bool.false_and,
    Bool.true_and, decide_eq_true_eq, and_true]
  omega

/-- witnesses: the baseline checks accept images that violate the invariant (DESIGN section 4, items 9-11) -/
def witnessFrame0 : FiberHdr := { status := 3, noUseval := false, noSkip := false, frame := 0, stackstart := 4, stacktop := 4, maxstack := 100 }

theorem fiber_frame0_witness :
    acceptFiber Checks.baseline witnessFrame0 [] = true ∧ ¬ FiberWf witnessFrame0 [] := by
  refine ⟨by decide, ?_⟩
  intro h
  have := h.resumableHasFrame (by decide)
  exact absurd this (by decide)

theorem function_env_count_witness : acceptFunction Checks.baseline 0 1 [-1] = true ∧ ¬ (0 = 1) := by decide

theorem def_env_index_witness : acceptFunction Checks.baseline 0 0 [-256] = true ∧ ¬ (∀ e ∈ [(-256 : Int)], -1 ≤ e) := by
  refine ⟨by decide, ?_⟩
  intro h; exact absurd (h (-256) (by simp)) (by decide)

end JanetModel.Unmarsh
