/- C10: an unmarshalled real is a number and nothing else, for EVERY 64-bit payload. -/
import JanetModel.Unmarsh.NanBox
namespace JanetModel.Unmarsh.NanBox

theorem ok_facts {N : NB} (h : N.ok = true) :
    N.tagShift = 47 ∧ N.typeMod = 16 ∧ N.lowtagOr = 131056 ∧ N.numberTag < 16 ∧ N.safe = true ∧
    janetType N N.nanBits = N.numberTag ∧ N.nanBits / 140737488355328 < 131056 := by
  unfold NB.ok at h
  simp only [Bool.and_eq_true, beq_iff_eq, decide_eq_true_eq] at h
  obtain ⟨⟨⟨⟨⟨⟨⟨h1, h2⟩, h3⟩, h4⟩, h5⟩, _⟩, h7⟩, h8⟩ := h
  exact ⟨h1, h2, h3, h4, h5, h7, h8⟩

/-- a pattern whose top 17 bits are a pointer tag is a NaN -/
theorem tagged_is_nan (w t : Nat) (ht : t < 16) (h : w / 140737488355328 = 131056 + t) : isNan w = true := by
  unfold isNan
  simp only [Bool.and_eq_true, decide_eq_true_eq]
  omega

/-- **real_is_number**: `janet_type` of the value `unmarshal_one` makes of ANY 8 payload bytes after `LB_REAL` is JANET_NUMBER -/
theorem real_is_number (N : NB) (hN : N.ok = true) (w : Nat) : janetType N (unmarshalReal N w) = N.numberTag := by
  obtain ⟨_, _, _, _, hs, hn, _⟩ := ok_facts hN
  unfold unmarshalReal wrapNumberSafe
  rw [hs, if_pos rfl]
  by_cases h : isNan w = true
  · rw [if_pos h]; exact hn
  · rw [if_neg h]; unfold janetType; rw [if_neg h]

/-- **real_never_a_pointer**: no type test other than JANET_NUMBER succeeds on an unmarshalled real — a NaN payload cannot
    forge a string / table / function / abstract / pointer value -/
theorem real_never_a_pointer (N : NB) (hN : N.ok = true) (w t : Nat) (ht : t < 16) (hne : t ≠ N.numberTag) :
    checktype N (unmarshalReal N w) t = false := by
  obtain ⟨h47, _, hlow, _, hs, _, hnb⟩ := ok_facts hN
  unfold checktype
  rw [if_neg hne]
  unfold checkAux unmarshalReal wrapNumberSafe
  rw [hs, if_pos rfl, h47, hlow]
  simp only [decide_eq_false_iff_not]
  by_cases h : isNan w = true
  · rw [if_pos h]
    show ¬ N.nanBits / 140737488355328 = 131056 + t
    omega
  · rw [if_neg h]
    intro hw
    exact h (tagged_is_nan w t ht hw)

/-- and the number test does succeed -/
theorem real_checks_as_number (N : NB) (hN : N.ok = true) (w : Nat) : checktype N (unmarshalReal N w) N.numberTag = true := by
  obtain ⟨_, _, _, _, hs, hn, _⟩ := ok_facts hN
  unfold checktype
  rw [if_pos rfl]
  unfold isNumber unmarshalReal wrapNumberSafe
  rw [hs, if_pos rfl]
  by_cases h : isNan w = true
  · rw [if_pos h]
    unfold janetType at hn
    by_cases h2 : isNan N.nanBits = true
    · rw [if_pos h2] at hn; simp [hn]
    · simp [h2]
  · rw [if_neg h]; simp [h]

end JanetModel.Unmarsh.NanBox
