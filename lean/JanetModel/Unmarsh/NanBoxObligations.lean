/- C10 REGENERATED OBLIGATIONS: the NaN-boxing constants of the current janet.h have the layout the theorems are proved for,
   `case LB_REAL` of the current marsh.c wraps with `janet_wrap_number_safe`, whose body in the current wrap.c is
   `isnan(d) ? NAN : d`, and the NAN of the build (compared with the harness output on every run) is a quiet NaN whose type
   field is JANET_NUMBER. -/
import JanetModel.Unmarsh.NanBoxSound
import JanetModel.Gen.NanBox
namespace JanetModel.Unmarsh.NanBoxObligations
open JanetModel.Unmarsh.NanBox JanetModel.Gen.NanBox

theorem nanbox_ok : nb.ok = true := by decide

theorem real_is_number (w : Nat) : janetType nb (unmarshalReal nb w) = nb.numberTag := NanBox.real_is_number nb nanbox_ok w

theorem real_never_a_pointer (w t : Nat) (ht : t < 16) (hne : t ≠ nb.numberTag) : checktype nb (unmarshalReal nb w) t = false :=
  NanBox.real_never_a_pointer nb nanbox_ok w t ht hne

end JanetModel.Unmarsh.NanBoxObligations
