/- C10: accepted bytes ⇒ well-formed function objects.  Links the byte-level model (Unmarsh/Bytes.lean) to the image
   well-formedness predicate of Unmarsh/Image.lean / ImageWf.lean (`acceptFunction`, `function_image_wf_generic`):

   `Inv` is an invariant of the unmarshal state: every funcdef that is marked done carries an `environments` array of
   exactly `environments_length` entries, each ≥ -1; every function object whose `def` pointer is set points to a done
   funcdef and was allocated with exactly `def->environments_length` environment slots (`fnEnvs`, the `len` of LB_FUNCTION).
   Every action of the model preserves `Inv` and only EXTENDS the tables (`Ext`: entries present before a call are not
   changed by it) — given the two checks `def->environments_length != len` and `environments[i] < -1` (`Cfg.fnEnvCountChecked`,
   `Cfg.defEnvIndexChecked`, regenerated through Gen/ImageChecks).  Hence `unmarshal_functions_wf_generic`. -/
import JanetModel.Unmarsh.BytesFrame
import JanetModel.Unmarsh.ImageWf
namespace JanetModel.Unmarsh.Bytes

variable {α β : Type}

structure DefOk (i : DefInfo) : Prop where
  undone : i.done = false → i.bytecode = []
  envs : i.done = true → i.envs.length = i.envLen ∧ ∀ e ∈ i.envs, -1 ≤ e

structure Inv (s : St) : Prop where
  defs : ∀ (i : Nat) (info : DefInfo), s.defs[i]? = some info → DefOk info
  funcs : ∀ (id di : Nat), s.funcs[id]? = some (some di) →
    ∃ info, s.defs[di]? = some info ∧ info.done = true ∧ s.fnEnvs[id]? = some info.envLen
  sizes : s.funcs.size = s.fnEnvs.size

/-- the tables only grow: what was there before is still there, unchanged -/
structure Ext (s s' : St) : Prop where
  defsLe : s.defs.size ≤ s'.defs.size
  defsEq : ∀ i : Nat, i < s.defs.size → s'.defs[i]? = s.defs[i]?
  funcsLe : s.funcs.size ≤ s'.funcs.size
  funcsEq : ∀ i : Nat, i < s.funcs.size → s'.funcs[i]? = s.funcs[i]?
  fnEnvsLe : s.fnEnvs.size ≤ s'.fnEnvs.size
  fnEnvsEq : ∀ i : Nat, i < s.fnEnvs.size → s'.fnEnvs[i]? = s.fnEnvs[i]?

theorem Ext.refl (s : St) : Ext s s :=
  ⟨Nat.le_refl _, fun _ _ => rfl, Nat.le_refl _, fun _ _ => rfl, Nat.le_refl _, fun _ _ => rfl⟩

theorem Ext.trans {s s' s'' : St} (h1 : Ext s s') (h2 : Ext s' s'') : Ext s s'' :=
  ⟨Nat.le_trans h1.defsLe h2.defsLe,
   fun i hi => (h2.defsEq i (Nat.lt_of_lt_of_le hi h1.defsLe)).trans (h1.defsEq i hi),
   Nat.le_trans h1.funcsLe h2.funcsLe,
   fun i hi => (h2.funcsEq i (Nat.lt_of_lt_of_le hi h1.funcsLe)).trans (h1.funcsEq i hi),
   Nat.le_trans h1.fnEnvsLe h2.fnEnvsLe,
   fun i hi => (h2.fnEnvsEq i (Nat.lt_of_lt_of_le hi h1.fnEnvsLe)).trans (h1.fnEnvsEq i hi)⟩

/-- a state change that leaves the three tables alone -/
def SameTables (s s' : St) : Prop := s'.defs = s.defs ∧ s'.funcs = s.funcs ∧ s'.fnEnvs = s.fnEnvs

theorem SameTables.inv {s s' : St} (h : SameTables s s') (hI : Inv s) : Inv s' := by
  obtain ⟨h1, h2, h3⟩ := h
  exact ⟨by rw [h1]; exact hI.defs, by rw [h1, h2, h3]; exact hI.funcs, by rw [h2, h3]; exact hI.sizes⟩

theorem SameTables.ext {s s' : St} (h : SameTables s s') : Ext s s' := by
  obtain ⟨h1, h2, h3⟩ := h
  exact ⟨by rw [h1]; exact Nat.le_refl _, fun _ _ => by rw [h1], by rw [h2]; exact Nat.le_refl _, fun _ _ => by rw [h2],
         by rw [h3]; exact Nat.le_refl _, fun _ _ => by rw [h3]⟩

/-- from a state satisfying `Inv`: on success the invariant holds again and the tables were only extended -/
def Pres (m : M α) : Prop :=
  ∀ c, Inv c.st → match m c with
    | .ok _ c' => Inv c'.st ∧ Ext c.st c'.st
    | _ => True

/-- the action does not touch the state at all -/
def Neutral (m : M α) : Prop := ∀ c, match m c with
    | .ok _ c' => c'.st = c.st
    | _ => True

theorem pres_of_neutral {m : M α} (h : Neutral m) : Pres m := by
  intro c hI
  have := h c
  cases hm : m c with
  | ok a c' =>
    rw [hm] at this
    show Inv c'.st ∧ Ext c.st c'.st
    have h2 : c'.st = c.st := this
    rw [h2]; exact ⟨hI, Ext.refl _⟩
  | err e => trivial
  | oob s => trivial
  | fuel => trivial

theorem neutral_pure {a : α} : Neutral (pure a : M α) := fun _ => rfl
theorem neutral_fail {e : Err} : Neutral (fail e : M α) := fun _ => trivial
theorem neutral_adv {k : Nat} : Neutral (adv k) := fun _ => rfl
theorem neutral_getSt : Neutral getSt := fun _ => rfl
theorem neutral_outOfFuel : Neutral (outOfFuel : M α) := fun _ => trivial

theorem neutral_bind {m : M α} {f : α → M β} (hm : Neutral m) (hf : ∀ a, Neutral (f a)) : Neutral (m >>= f) := by
  intro c
  rw [bind_run]
  have h1 := hm c
  cases hmc : m c with
  | ok a c' =>
    rw [hmc] at h1
    have h2 := hf a c'
    simp only at h1 ⊢
    cases hfc : f a c' with
    | ok a' c'' => rw [hfc] at h2; simp only at h2 ⊢; rw [h2, h1]
    | err e => trivial
    | oob s => trivial
    | fuel => trivial
  | err e => trivial
  | oob s => trivial
  | fuel => trivial

theorem neutral_ite {c : Prop} [Decidable c] {t e : M α} (ht : Neutral t) (he : Neutral e) : Neutral (if c then t else e) := by
  by_cases h : c
  · rw [if_pos h]; exact ht
  · rw [if_neg h]; exact he

theorem neutral_expect {ok : Bool} {e : Err} : Neutral (expect ok e) := by
  unfold expect; exact neutral_ite neutral_pure neutral_fail

theorem neutral_refGuard {a b' : Bool} {e : Err} {site : Nat} : Neutral (refGuard a b' e site) := by
  unfold refGuard
  exact neutral_ite neutral_pure (neutral_ite neutral_fail (fun _ => trivial))

variable {b : Array Nat}

theorem neutral_chk {s : Site} {v : Nat} : Neutral (chk b s v) := by
  intro c
  unfold chk
  cases s.guard with
  | none => rfl
  | some g =>
    by_cases h : (b.size : Int) ≤ (c.pos : Int) + (v : Int) + g
    · simp [h]
    · simp [h]

theorem neutral_get {site off : Nat} : Neutral (get b site off) := by
  intro c
  unfold get
  cases b[c.pos + off]? with
  | none => trivial
  | some x => rfl

theorem neutral_getRange {site : Nat} : ∀ (k start : Nat), Neutral (getRange b site start k)
  | 0, _ => neutral_pure
  | k + 1, start => by
    unfold getRange
    exact neutral_bind neutral_get (fun _ => neutral_bind (neutral_getRange k (start + 1)) (fun _ => neutral_pure))

theorem neutral_peek {s : Site} {site : Nat} : Neutral (peek b s site) := by
  unfold peek; exact neutral_bind neutral_chk (fun _ => neutral_get)

theorem neutral_guarded {s : Site} {v site start k a : Nat} {g : List Nat → α} : Neutral (guarded b s v site start k a g) := by
  unfold guarded
  exact neutral_bind neutral_chk (fun _ => neutral_bind (neutral_getRange _ _) (fun _ => neutral_bind neutral_adv (fun _ => neutral_pure)))

variable {C : Cfg}

theorem neutral_readint : Neutral (readint C b) := by
  unfold readint
  refine neutral_bind neutral_peek (fun l => ?_)
  refine neutral_ite (neutral_bind neutral_adv (fun _ => neutral_pure)) ?_
  refine neutral_ite neutral_guarded ?_
  refine neutral_ite neutral_guarded neutral_fail

theorem neutral_readnat : Neutral (readnat C b) := by
  unfold readnat
  exact neutral_bind neutral_readint (fun _ => neutral_ite neutral_fail neutral_pure)

theorem neutral_read64 : Neutral (read64 C b) := by
  unfold read64
  refine neutral_bind neutral_peek (fun l => ?_)
  split
  · exact neutral_bind neutral_adv (fun _ => neutral_pure)
  · split
    · exact neutral_fail
    · exact neutral_guarded

theorem neutral_u32 : Neutral (u32 C b) := neutral_guarded
theorem neutral_ubyte : Neutral (ubyte C b) := neutral_guarded
theorem neutral_payload {s : Site} {site len : Nat} : Neutral (payload b s site len) := neutral_guarded
theorem neutral_ensure {size : Nat} : Neutral (ensure C b size) := neutral_chk

/-! ### `Pres` -/

theorem pres_bind {m : M α} {f : α → M β} (hm : Pres m) (hf : ∀ a, Pres (f a)) : Pres (m >>= f) := by
  intro c hI
  rw [bind_run]
  have h1 := hm c hI
  cases hmc : m c with
  | ok a c' =>
    rw [hmc] at h1
    have h2 := hf a c' h1.1
    simp only
    cases hfc : f a c' with
    | ok a' c'' => rw [hfc] at h2; exact ⟨h2.1, h1.2.trans h2.2⟩
    | err e => trivial
    | oob s => trivial
    | fuel => trivial
  | err e => trivial
  | oob s => trivial
  | fuel => trivial

theorem pres_ite {c : Prop} [Decidable c] {t e : M α} (ht : c → Pres t) (he : ¬ c → Pres e) : Pres (if c then t else e) := by
  by_cases h : c
  · rw [if_pos h]; exact ht h
  · rw [if_neg h]; exact he h

theorem pres_loopN {f : M Unit} (hf : Pres f) : ∀ k, Pres (loopN k f)
  | 0 => pres_of_neutral neutral_pure
  | k + 1 => by
    unfold loopN
    exact pres_bind hf (fun _ => pres_loopN hf k)

theorem pres_collectN {f : M α} (hf : Pres f) : ∀ k, Pres (collectN k f)
  | 0 => pres_of_neutral neutral_pure
  | k + 1 => by
    unfold collectN
    exact pres_bind hf (fun _ => pres_bind (pres_collectN hf k) (fun _ => pres_of_neutral neutral_pure))

/-- a state update that leaves `defs`, `funcs`, `fnEnvs` alone -/
theorem pres_modSt_same {f : St → St} (h : ∀ s, SameTables s (f s)) : Pres (modSt f) := by
  intro c hI
  exact ⟨(h c.st).inv hI, (h c.st).ext⟩

theorem pres_pushLookup {v : V} : Pres (pushLookup v) := pres_modSt_same (fun _ => ⟨rfl, rfl, rfl⟩)

/-- what a successful `collectN` returns: `k` results, each satisfying what one successful run of `f` guarantees -/
theorem collectN_spec {f : M α} {Q : α → Prop} (hf : ∀ c a c', f c = .ok a c' → Q a) :
    ∀ (k : Nat) (c : Cur) (l : List α) (c' : Cur), collectN k f c = .ok l c' → l.length = k ∧ ∀ a ∈ l, Q a
  | 0, c, l, c', h => by
    have : l = [] := by
      have h' : (Res.ok [] c : Res (List α)) = .ok l c' := h
      injection h' with h1 _; exact h1.symm
    subst this; exact ⟨rfl, fun _ ha => absurd ha (List.not_mem_nil)⟩
  | k + 1, c, l, c', h => by
    unfold collectN at h
    rw [bind_run] at h
    cases hfc : f c with
    | ok a c1 =>
      rw [hfc] at h
      simp only at h
      rw [bind_run] at h
      cases hrc : collectN k f c1 with
      | ok as c2 =>
        rw [hrc] at h
        have h' : (Res.ok (a :: as) c2 : Res (List α)) = .ok l c' := h
        injection h' with h1 _
        subst h1
        obtain ⟨hl, hq⟩ := collectN_spec hf k c1 as c2 hrc
        refine ⟨by simp [hl], fun x hx => ?_⟩
        rcases List.mem_cons.mp hx with hx | hx
        · subst hx; exact hf c x c1 hfc
        · exact hq x hx
      | err e => rw [hrc] at h; cases h
      | oob s => rw [hrc] at h; cases h
      | fuel => rw [hrc] at h; cases h
    | err e => rw [hfc] at h; cases h
    | oob s => rw [hfc] at h; cases h
    | fuel => rw [hfc] at h; cases h

/-! ### continuation-style judgement for the two bodies that write `defs` / `funcs` -/

/-- started in any state that satisfies `Inv` and extends `s1`, a successful run ends in `Q` -/
def Tail (s1 : St) (Q : α → St → Prop) (m : M α) : Prop :=
  ∀ c, Inv c.st → Ext s1 c.st → match m c with
    | .ok a c' => Q a c'.st
    | _ => True

theorem tail_bind {s1 : St} {Q : β → St → Prop} {m : M α} {f : α → M β} (hm : Pres m) (hf : ∀ a, Tail s1 Q (f a)) :
    Tail s1 Q (m >>= f) := by
  intro c hI hE
  rw [bind_run]
  have h1 := hm c hI
  cases hmc : m c with
  | ok a c' => rw [hmc] at h1; exact hf a c' h1.1 (hE.trans h1.2)
  | err e => trivial
  | oob s => trivial
  | fuel => trivial

/-- as `tail_bind`, and the continuation may use a fact about the value of a successful run -/
theorem tail_bind_val {s1 : St} {Q : β → St → Prop} {m : M α} {f : α → M β} {R : α → Prop} (hm : Pres m)
    (hv : ∀ c a c', m c = .ok a c' → R a) (hf : ∀ a, R a → Tail s1 Q (f a)) : Tail s1 Q (m >>= f) := by
  intro c hI hE
  rw [bind_run]
  have h1 := hm c hI
  cases hmc : m c with
  | ok a c' => rw [hmc] at h1; exact hf a (hv c a c' hmc) c' h1.1 (hE.trans h1.2)
  | err e => trivial
  | oob s => trivial
  | fuel => trivial

/-- `expect` in a tail: the continuation may assume the tested condition -/
theorem tail_expect {s1 : St} {Q : β → St → Prop} {ok : Bool} {e : Err} {f : Unit → M β} (hf : ok = true → Tail s1 Q (f ())) :
    Tail s1 Q (expect ok e >>= f) := by
  intro c hI hE
  rw [bind_run]
  unfold expect
  by_cases h : ok = true
  · rw [if_pos h]; exact hf h c hI hE
  · rw [if_neg h]; trivial

/-- the shape `s0 = state; push an entry; rest`: the rest runs from any extension of the pushed state -/
theorem pres_getSt_modSt {g : St → St} {f : St → Unit → M β}
    (h : ∀ s0, Inv s0 → Inv (g s0) ∧ Ext s0 (g s0) ∧ Tail (g s0) (fun _ s' => Inv s' ∧ Ext s0 s') (f s0 ())) :
    Pres (getSt >>= fun s0 => modSt g >>= f s0) := by
  intro c hI
  obtain ⟨h1, _, h3⟩ := h c.st hI
  exact h3 { c with st := g c.st } h1 (Ext.refl _)

theorem tail_modSt_pure {s1 : St} {Q : β → St → Prop} {g : St → St} {a : β} (h : ∀ s, Inv s → Ext s1 s → Q a (g s)) :
    Tail s1 Q (modSt g >>= fun _ => (pure a : M β)) := fun c hI hE => h c.st hI hE

/-- the end of `case LB_FUNCTION`: two tests on the state, the write of `func->def`, then actions that preserve `Inv` -/
theorem tail_tests_modSt {s1 s0 : St} {f1 f2 : St → Bool} {e1 e2 : Err} {g : St → St} {m : M β} (hm : Pres m)
    (h : ∀ s, Inv s → Ext s1 s → f1 s = true → f2 s = true → Inv (g s) ∧ Ext s0 (g s)) :
    Tail s1 (fun _ s' => Inv s' ∧ Ext s0 s')
      (getSt >>= fun s => expect (f1 s) e1 >>= fun _ => expect (f2 s) e2 >>= fun _ => modSt g >>= fun _ => m) := by
  intro c hI hE
  cases hf1 : f1 c.st with
  | false =>
    have e : (getSt >>= fun s => expect (f1 s) e1 >>= fun _ => expect (f2 s) e2 >>= fun _ => modSt g >>= fun _ => m) c = .err e1 := by
      show (expect (f1 c.st) e1 >>= fun _ => expect (f2 c.st) e2 >>= fun _ => modSt g >>= fun _ => m) c = .err e1
      rw [hf1]; rfl
    rw [e]; trivial
  | true =>
    cases hf2 : f2 c.st with
    | false =>
      have e : (getSt >>= fun s => expect (f1 s) e1 >>= fun _ => expect (f2 s) e2 >>= fun _ => modSt g >>= fun _ => m) c = .err e2 := by
        show (expect (f1 c.st) e1 >>= fun _ => expect (f2 c.st) e2 >>= fun _ => modSt g >>= fun _ => m) c = .err e2
        rw [hf1, hf2]; rfl
      rw [e]; trivial
    | true =>
      have e : (getSt >>= fun s => expect (f1 s) e1 >>= fun _ => expect (f2 s) e2 >>= fun _ => modSt g >>= fun _ => m) c =
          m { c with st := g c.st } := by
        show (expect (f1 c.st) e1 >>= fun _ => expect (f2 c.st) e2 >>= fun _ => modSt g >>= fun _ => m) c = _
        rw [hf1, hf2]; rfl
      rw [e]
      obtain ⟨hI', hE'⟩ := h c.st hI hE hf1 hf2
      have hr := hm { c with st := g c.st } hI'
      cases hmc : m { c with st := g c.st } with
      | ok a c' => rw [hmc] at hr; exact ⟨hr.1, hE'.trans hr.2⟩
      | err e => trivial
      | oob s => trivial
      | fuel => trivial

/-- pre/post specification that may mention the start state -/
def Spec (m : M α) (Q : St → α → St → Prop) : Prop :=
  ∀ c, Inv c.st → match m c with
    | .ok a c' => Q c.st a c'.st
    | _ => True

theorem spec_bind_neutral {m : M α} {f : α → M β} {Q : St → β → St → Prop} (hm : Neutral m) (hf : ∀ a, Spec (f a) Q) :
    Spec (m >>= f) Q := by
  intro c hI
  rw [bind_run]
  have h1 := hm c
  cases hmc : m c with
  | ok a c' =>
    rw [hmc] at h1
    obtain ⟨p', st'⟩ := c'
    have h1' : st' = c.st := h1
    subst h1'
    exact hf a _ hI
  | err e => trivial
  | oob s => trivial
  | fuel => trivial

theorem spec_getSt_modSt {g : St → St} {f : St → Unit → M β} {Q : St → β → St → Prop}
    (h : ∀ s0, Inv s0 → Inv (g s0) ∧ Tail (g s0) (Q s0) (f s0 ())) :
    Spec (getSt >>= fun s0 => modSt g >>= f s0) Q := by
  intro c hI
  obtain ⟨h1, h3⟩ := h c.st hI
  exact h3 { c with st := g c.st } h1 (Ext.refl _)

theorem Tail.mono {s1 : St} {Q Q' : β → St → Prop} {m : M β} (h : Tail s1 Q' m) (hq : ∀ a s', Q' a s' → Q a s') : Tail s1 Q m := by
  intro c hI hE
  have := h c hI hE
  cases hmc : m c with
  | ok a c' => rw [hmc] at this; exact hq _ _ this
  | err e => trivial
  | oob s => trivial
  | fuel => trivial

/-- as `tail_tests_modSt`, for a rest of the form `m0; return v`: the value is `v`, and the final state extends the state
    written by `g` -/
theorem tail_tests_modSt_val {s1 : St} {f1 f2 : St → Bool} {e1 e2 : Err} {g : St → St} {m0 : M Unit} {v : β} (hm : Pres m0)
    (hg : ∀ s, Inv s → Ext s1 s → f1 s = true → f2 s = true → Inv (g s)) :
    Tail s1 (fun a s' => a = v ∧ ∃ s, Inv s ∧ Ext s1 s ∧ f1 s = true ∧ f2 s = true ∧ Inv s' ∧ Ext (g s) s')
      (getSt >>= fun s => expect (f1 s) e1 >>= fun _ => expect (f2 s) e2 >>= fun _ => modSt g >>= fun _ =>
        m0 >>= fun _ => (pure v : M β)) := by
  intro c hI hE
  cases hf1 : f1 c.st with
  | false =>
    have e : (getSt >>= fun s => expect (f1 s) e1 >>= fun _ => expect (f2 s) e2 >>= fun _ => modSt g >>= fun _ =>
        m0 >>= fun _ => (pure v : M β)) c = .err e1 := by
      show (expect (f1 c.st) e1 >>= fun _ => expect (f2 c.st) e2 >>= fun _ => modSt g >>= fun _ => m0 >>= fun _ => (pure v : M β)) c = .err e1
      rw [hf1]; rfl
    rw [e]; trivial
  | true =>
    cases hf2 : f2 c.st with
    | false =>
      have e : (getSt >>= fun s => expect (f1 s) e1 >>= fun _ => expect (f2 s) e2 >>= fun _ => modSt g >>= fun _ =>
          m0 >>= fun _ => (pure v : M β)) c = .err e2 := by
        show (expect (f1 c.st) e1 >>= fun _ => expect (f2 c.st) e2 >>= fun _ => modSt g >>= fun _ => m0 >>= fun _ => (pure v : M β)) c = .err e2
        rw [hf1, hf2]; rfl
      rw [e]; trivial
    | true =>
      have e : (getSt >>= fun s => expect (f1 s) e1 >>= fun _ => expect (f2 s) e2 >>= fun _ => modSt g >>= fun _ =>
          m0 >>= fun _ => (pure v : M β)) c = (m0 >>= fun _ => (pure v : M β)) { c with st := g c.st } := by
        show (expect (f1 c.st) e1 >>= fun _ => expect (f2 c.st) e2 >>= fun _ => modSt g >>= fun _ => m0 >>= fun _ => (pure v : M β)) c = _
        rw [hf1, hf2]; rfl
      rw [e, bind_run]
      have hI' := hg c.st hI hE hf1 hf2
      have hr := hm { c with st := g c.st } hI'
      cases hmc : m0 { c with st := g c.st } with
      | ok a c' =>
        rw [hmc] at hr
        exact ⟨rfl, c.st, hI, hE, hf1, hf2, hr.1, hr.2⟩
      | err e => trivial
      | oob s => trivial
      | fuel => trivial

variable {b : Array Nat} {C : Cfg}

/-- one entry of `def->environments` as read and tested by `unmarshal_one_def` -/
theorem envIdx_spec (hE : C.defEnvIndexChecked = true) (c : Cur) (a : Int) (c' : Cur)
    (h : (readint C b >>= fun inh => expect (!C.defEnvIndexChecked || decide (-1 ≤ inh)) .envIdx >>= fun _ => (pure inh : M Int)) c
          = .ok a c') : -1 ≤ a := by
  rw [bind_run] at h
  cases hr : readint C b c with
  | ok x c1 =>
    rw [hr] at h
    simp only at h
    by_cases hx : -1 ≤ x
    · have e : (expect (!C.defEnvIndexChecked || decide (-1 ≤ x)) Err.envIdx >>= fun _ => (pure x : M Int)) c1 = .ok x c1 := by
        have : (!C.defEnvIndexChecked || decide (-1 ≤ x)) = true := by simp [hx]
        rw [this]; rfl
      rw [e] at h
      injection h with h1 _
      omega
    · have e : (expect (!C.defEnvIndexChecked || decide (-1 ≤ x)) Err.envIdx >>= fun _ => (pure x : M Int)) c1 = .err .envIdx := by
        have : (!C.defEnvIndexChecked || decide (-1 ≤ x)) = false := by simp [hE, hx]
        rw [this]; rfl
      rw [e] at h
      cases h
  | err e => rw [hr] at h; cases h
  | oob s => rw [hr] at h; cases h
  | fuel => rw [hr] at h; cases h

/-! ### the two writes -/

/-- `janet_v_push(st->lookup_defs, def)` at the start of `unmarshal_one_def` -/
theorem inv_pushDef {s0 : St} (hI : Inv s0) :
    Inv { s0 with defs := s0.defs.push { done := false, slotcount := 0, envLen := 0, bytecode := [] } } ∧
    Ext s0 { s0 with defs := s0.defs.push { done := false, slotcount := 0, envLen := 0, bytecode := [] } } := by
  refine ⟨⟨fun i info h => ?_, fun id di h => ?_, hI.sizes⟩, ⟨?_, fun i hi => ?_, Nat.le_refl _, fun _ _ => rfl, Nat.le_refl _, fun _ _ => rfl⟩⟩
  · simp only [Array.getElem?_push] at h
    by_cases hi : i = s0.defs.size
    · rw [if_pos hi] at h
      injection h with h; subst h
      exact ⟨fun _ => rfl, fun hd => absurd hd (by simp)⟩
    · rw [if_neg hi] at h; exact hI.defs i info h
  · obtain ⟨info, h1, h2, h3⟩ := hI.funcs id di h
    refine ⟨info, ?_, h2, h3⟩
    have hlt : di < s0.defs.size := by
      rcases Nat.lt_or_ge di s0.defs.size with hl | hl
      · exact hl
      · rw [Array.getElem?_eq_none hl] at h1; cases h1
    show (s0.defs.push _)[di]? = some info
    rw [Array.getElem?_push, if_neg (by omega)]; exact h1
  · show s0.defs.size ≤ (s0.defs.push _).size
    rw [Array.size_push]; omega
  · show (s0.defs.push _)[i]? = s0.defs[i]?
    rw [Array.getElem?_push, if_neg (by omega)]

/-- the final write of `unmarshal_one_def`: `lookup_defs_done[index] = 1` with the fields read -/
theorem inv_setDef {s0 s : St} {info' : DefInfo} (hok : DefOk info')
    (hI : Inv s) (hE : Ext { s0 with defs := s0.defs.push { done := false, slotcount := 0, envLen := 0, bytecode := [] } } s) :
    Inv { s with defs := s.defs.setIfInBounds s0.defs.size info' } ∧
    Ext s0 { s with defs := s.defs.setIfInBounds s0.defs.size info' } := by
  have hj : s.defs[s0.defs.size]? = some { done := false, slotcount := 0, envLen := 0, bytecode := [] } := by
    have := hE.defsEq s0.defs.size (by show s0.defs.size < (s0.defs.push _).size; rw [Array.size_push]; omega)
    rw [this]
    show (s0.defs.push _)[s0.defs.size]? = _
    rw [Array.getElem?_push, if_pos rfl]
  have hsz : s0.defs.size + 1 ≤ s.defs.size := by
    have := hE.defsLe
    have h2 : ({ s0 with defs := s0.defs.push { done := false, slotcount := 0, envLen := 0, bytecode := [] } } : St).defs.size = s0.defs.size + 1 := by
      show (s0.defs.push _).size = _
      rw [Array.size_push]
    omega
  refine ⟨⟨fun i info h => ?_, fun id di h => ?_, hI.sizes⟩, ⟨?_, fun i hi => ?_, hE.funcsLe, hE.funcsEq, hE.fnEnvsLe, hE.fnEnvsEq⟩⟩
  · have h' : (s.defs.setIfInBounds s0.defs.size info')[i]? = some info := h
    rw [Array.getElem?_setIfInBounds] at h'
    by_cases hi : s0.defs.size = i
    · rw [if_pos hi, if_pos (by omega)] at h'
      injection h' with h'; subst h'; exact hok
    · rw [if_neg hi] at h'; exact hI.defs i info h'
  · obtain ⟨info, h1, h2, h3⟩ := hI.funcs id di h
    refine ⟨info, ?_, h2, h3⟩
    show (s.defs.setIfInBounds s0.defs.size info')[di]? = some info
    rw [Array.getElem?_setIfInBounds]
    by_cases hi : s0.defs.size = di
    · exfalso
      rw [← hi, hj] at h1
      injection h1 with h1
      rw [← h1] at h2
      exact absurd h2 (by simp)
    · rw [if_neg hi]; exact h1
  · show s0.defs.size ≤ (s.defs.setIfInBounds _ _).size
    rw [Array.size_setIfInBounds]; omega
  · show (s.defs.setIfInBounds s0.defs.size info')[i]? = s0.defs[i]?
    rw [Array.getElem?_setIfInBounds, if_neg (by omega)]
    have := hE.defsEq i (by show i < (s0.defs.push _).size; rw [Array.size_push]; omega)
    rw [this]
    show (s0.defs.push _)[i]? = _
    rw [Array.getElem?_push, if_neg (by omega)]

/-- `func = janet_gcalloc(.., sizeof(JanetFunction) + len * sizeof(JanetFuncEnv))`, `func->def = NULL` -/
theorem inv_pushFunc {s0 : St} (hI : Inv s0) (len : Nat) (lk : Array V) :
    Inv { s0 with funcs := s0.funcs.push none, fnEnvs := s0.fnEnvs.push len, lookup := lk } ∧
    Ext s0 { s0 with funcs := s0.funcs.push none, fnEnvs := s0.fnEnvs.push len, lookup := lk } := by
  refine ⟨⟨hI.defs, fun id di h => ?_, ?_⟩, ⟨Nat.le_refl _, fun _ _ => rfl, ?_, fun i hi => ?_, ?_, fun i hi => ?_⟩⟩
  · have h' : (s0.funcs.push none)[id]? = some (some di) := h
    rw [Array.getElem?_push] at h'
    by_cases hi : id = s0.funcs.size
    · rw [if_pos hi] at h'; injection h' with h'; cases h'
    · rw [if_neg hi] at h'
      obtain ⟨info, h1, h2, h3⟩ := hI.funcs id di h'
      refine ⟨info, h1, h2, ?_⟩
      have hlt : id < s0.fnEnvs.size := by
        rcases Nat.lt_or_ge id s0.fnEnvs.size with hl | hl
        · exact hl
        · rw [Array.getElem?_eq_none hl] at h3; cases h3
      show (s0.fnEnvs.push len)[id]? = _
      rw [Array.getElem?_push, if_neg (by omega)]; exact h3
  · show (s0.funcs.push none).size = (s0.fnEnvs.push len).size
    rw [Array.size_push, Array.size_push, hI.sizes]
  · show s0.funcs.size ≤ (s0.funcs.push none).size
    rw [Array.size_push]; omega
  · show (s0.funcs.push none)[i]? = _
    rw [Array.getElem?_push, if_neg (by omega)]
  · show s0.fnEnvs.size ≤ (s0.fnEnvs.push len).size
    rw [Array.size_push]; omega
  · show (s0.fnEnvs.push len)[i]? = _
    rw [Array.getElem?_push, if_neg (by omega)]

/-- `func->def = def` after the two tests of `case LB_FUNCTION` -/
theorem inv_setFunc {s0 s : St} {len di : Nat} {lk : Array V} (hC : C.fnEnvCountChecked = true)
    (hI : Inv s) (hE : Ext { s0 with funcs := s0.funcs.push none, fnEnvs := s0.fnEnvs.push len, lookup := lk } s)
    (h1 : decide (0 < (s.defs[di]?.getD default).bytecode.length) = true)
    (h2 : (!C.fnEnvCountChecked || decide ((s.defs[di]?.getD default).envLen = len)) = true) (hsz0 : s0.funcs.size = s0.fnEnvs.size) :
    Inv { s with funcs := s.funcs.setIfInBounds s0.funcs.size (some di) } ∧
    Ext s0 { s with funcs := s.funcs.setIfInBounds s0.funcs.size (some di) } := by
  rw [hC] at h2
  simp only [Bool.not_true, Bool.false_or, decide_eq_true_eq] at h1 h2
  -- the def is there and done
  cases hd : s.defs[di]? with
  | none =>
    rw [hd] at h1
    exact absurd h1 (by decide)
  | some info =>
    rw [hd] at h1 h2
    simp only [Option.getD_some] at h1 h2
    have hok := hI.defs di info hd
    have hdone : info.done = true := by
      cases hdn : info.done with
      | true => rfl
      | false => have := hok.undone hdn; rw [this] at h1; simp at h1
    have hfe : s.fnEnvs[s0.funcs.size]? = some len := by
      have := hE.fnEnvsEq s0.funcs.size (by show s0.funcs.size < (s0.fnEnvs.push len).size; rw [Array.size_push]; omega)
      rw [this]
      show (s0.fnEnvs.push len)[s0.funcs.size]? = _
      rw [Array.getElem?_push, if_pos hsz0]
    have hle : s0.funcs.size + 1 ≤ s.funcs.size := by
      have := hE.funcsLe
      have h2 : ({ s0 with funcs := s0.funcs.push none, fnEnvs := s0.fnEnvs.push len, lookup := lk } : St).funcs.size = s0.funcs.size + 1 := by
        show (s0.funcs.push none).size = _
        rw [Array.size_push]
      omega
    refine ⟨⟨hI.defs, fun id dj h => ?_, ?_⟩, ⟨?_, ?_, ?_, fun i hi => ?_, ?_, fun i hi => ?_⟩⟩
    · have h' : (s.funcs.setIfInBounds s0.funcs.size (some di))[id]? = some (some dj) := h
      rw [Array.getElem?_setIfInBounds] at h'
      by_cases hi : s0.funcs.size = id
      · rw [if_pos hi, if_pos (by omega)] at h'
        injection h' with h'; injection h' with h'
        subst h'; subst hi
        exact ⟨info, hd, hdone, by rw [hfe, h2]⟩
      · rw [if_neg hi] at h'; exact hI.funcs id dj h'
    · show (s.funcs.setIfInBounds _ _).size = s.fnEnvs.size
      rw [Array.size_setIfInBounds]; exact hI.sizes
    · exact hE.defsLe
    · exact hE.defsEq
    · show s0.funcs.size ≤ (s.funcs.setIfInBounds _ _).size
      rw [Array.size_setIfInBounds]; omega
    · show (s.funcs.setIfInBounds s0.funcs.size (some di))[i]? = s0.funcs[i]?
      rw [Array.getElem?_setIfInBounds, if_neg (by omega)]
      have := hE.funcsEq i (by show i < (s0.funcs.push none).size; rw [Array.size_push]; omega)
      rw [this]
      show (s0.funcs.push none)[i]? = _
      rw [Array.getElem?_push, if_neg (by omega)]
    · have := hE.fnEnvsLe
      have h3 : ({ s0 with funcs := s0.funcs.push none, fnEnvs := s0.fnEnvs.push len, lookup := lk } : St).fnEnvs.size = s0.fnEnvs.size + 1 := by
        show (s0.fnEnvs.push len).size = _
        rw [Array.size_push]
      show s0.fnEnvs.size ≤ s.fnEnvs.size
      omega
    · have := hE.fnEnvsEq i (by show i < (s0.fnEnvs.push len).size; rw [Array.size_push]; omega)
      show s.fnEnvs[i]? = _
      rw [this]
      show (s0.fnEnvs.push len)[i]? = _
      rw [Array.getElem?_push, if_neg (by omega)]

/-! ### the bodies -/

attribute [local irreducible] readint readnat read64 u32 ubyte ubytes payload guarded peek chk get getRange adv getSt modSt
  pushLookup expect fail loopN collectN ensure refGuard outOfFuel

/-- what the bodies assume of the previous fuel level -/
structure PGood (P : Fns) : Prop where
  one : ∀ d, Pres (P.one d)
  def_ : ∀ d, Pres (P.def_ d)
  env : ∀ d, Pres (P.env d)

syntax "pres_atom" : tactic
syntax "pres_step" : tactic
macro_rules
  | `(tactic| pres_atom) => `(tactic| first
      | exact pres_of_neutral neutral_pure | exact pres_of_neutral neutral_fail | exact pres_of_neutral neutral_getSt
      | exact pres_of_neutral neutral_adv | exact pres_of_neutral neutral_expect | exact pres_of_neutral neutral_refGuard
      | exact pres_of_neutral neutral_chk | exact pres_of_neutral neutral_readint | exact pres_of_neutral neutral_readnat
      | exact pres_of_neutral neutral_read64 | exact pres_of_neutral neutral_u32 | exact pres_of_neutral neutral_ubyte
      | exact pres_of_neutral neutral_payload | exact pres_of_neutral neutral_ensure | exact pres_of_neutral neutral_guarded
      | exact pres_of_neutral neutral_peek | exact pres_of_neutral neutral_outOfFuel
      | exact pres_pushLookup
      | exact pres_modSt_same (fun _ => ⟨rfl, rfl, rfl⟩)
      | exact (‹PGood _›).one _
      | exact (‹PGood _›).def_ _
      | exact (‹PGood _›).env _)
macro_rules
  | `(tactic| pres_step) => `(tactic| first
      | pres_atom
      | refine pres_bind ?_ (fun _ => ?_)
      | (apply pres_loopN)
      | (apply pres_collectN)
      | refine pres_ite (fun _ => ?_) (fun _ => ?_)
      | split)

section bodies
variable {P : Fns} (hP : PGood P)
include hP

theorem pres_envBody (d : Nat) : Pres (envBody C b P d) := by
  unfold envBody
  repeat' pres_step

theorem pres_symEntry (d : Nat) : Pres (symEntry C b P d) := by
  unfold symEntry
  repeat' pres_step

theorem pres_defBody (hE : C.defEnvIndexChecked = true) (d : Nat) : Pres (defBody C b P d) := by
  have hsym := pres_symEntry (C := C) (b := b) hP d
  unfold defBody optNat
  refine pres_ite (fun _ => pres_of_neutral neutral_fail) (fun _ => ?_)
  refine pres_bind (pres_of_neutral neutral_peek) (fun l => ?_)
  refine pres_ite (fun _ => ?_) (fun _ => ?_)
  · repeat' pres_step
  · refine pres_getSt_modSt (fun s0 hI0 => ⟨(inv_pushDef hI0).1, (inv_pushDef hI0).2, ?_⟩)
    iterate 16 (refine tail_bind (by repeat' (first | exact hsym | pres_step)) (fun _ => ?_))
    refine tail_bind_val (R := fun envs => envs.length = _ ∧ ∀ e ∈ envs, (-1 : Int) ≤ e)
      (by repeat' pres_step) (fun c a c' h => collectN_spec (envIdx_spec hE) _ c a c' h) (fun envs henvs => ?_)
    iterate 4 (refine tail_bind (by repeat' pres_step) (fun _ => ?_))
    refine tail_modSt_pure (fun s hI hX => ?_)
    exact inv_setDef ⟨fun hd => absurd hd (by simp), fun _ => henvs⟩ hI hX

theorem pres_frameLoop (d frame : Nat) : ∀ (k stack : Nat) (stacktop : Int) (top : Option TopFrame),
    Pres (frameLoop C b P d frame k stack stacktop top)
  | 0, _, _, _ => by unfold frameLoop; exact pres_of_neutral neutral_outOfFuel
  | k + 1, stack, stacktop, top => by
    have ih := pres_frameLoop d frame k
    unfold frameLoop
    repeat' (first | exact ih _ _ _ | pres_step)

theorem pres_fiberBody (d : Nat) : Pres (fiberBody C b P d) := by
  have hfl := pres_frameLoop (C := C) (b := b) hP d
  unfold fiberBody
  repeat' (first | exact hfl _ _ _ _ _ | pres_step)

theorem pres_functionBody (hF : C.fnEnvCountChecked = true) (d : Nat) : Pres (functionBody C b P d) := by
  unfold functionBody
  refine pres_bind (pres_of_neutral neutral_readnat) (fun len => ?_)
  refine pres_bind (pres_of_neutral neutral_expect) (fun _ => ?_)
  refine pres_getSt_modSt (fun s0 hI0 => ⟨(inv_pushFunc hI0 len _).1, (inv_pushFunc hI0 len _).2, ?_⟩)
  refine tail_bind (hP.def_ _) (fun di => ?_)
  refine tail_tests_modSt (by repeat' pres_step) (fun s hI hX h1 h2 => ?_)
  exact inv_setFunc hF hI hX h1 h2 hI0.sizes

/-- **the FUNCTION case**: from any state satisfying `Inv`, an accepted `case LB_FUNCTION` returns the function object it
    pushed (`id` = number of function objects before), that object's `def` is set, and the state satisfies `Inv` again -/
theorem functionBody_spec (hF : C.fnEnvCountChecked = true) (d : Nat) :
    Spec (functionBody C b P d) (fun s0 v s' => Inv s' ∧ Ext s0 s' ∧
      ∃ di, v = .func s0.funcs.size ∧ s'.funcs[s0.funcs.size]? = some (some di)) := by
  unfold functionBody
  refine spec_bind_neutral neutral_readnat (fun len => ?_)
  refine spec_bind_neutral neutral_expect (fun _ => ?_)
  refine spec_getSt_modSt (fun s0 hI0 => ⟨(inv_pushFunc hI0 len _).1, ?_⟩)
  refine tail_bind (hP.def_ _) (fun di => ?_)
  refine Tail.mono (tail_tests_modSt_val (by repeat' pres_step)
    (fun s hI hX h1 h2 => (inv_setFunc hF hI hX h1 h2 hI0.sizes).1)) (fun a s' h => ?_)
  obtain ⟨hv, s, hI, hX, h1, h2, hI', hX'⟩ := h
  have hset := inv_setFunc hF hI hX h1 h2 hI0.sizes
  have hlt : s0.funcs.size < s.funcs.size := by
    have := hX.funcsLe
    have h2 : (s0.funcs.push none).size ≤ s.funcs.size := this
    rw [Array.size_push] at h2; omega
  refine ⟨hI', hset.2.trans hX', di, hv, ?_⟩
  have := hX'.funcsEq s0.funcs.size (by show s0.funcs.size < (s.funcs.setIfInBounds _ _).size; rw [Array.size_setIfInBounds]; exact hlt)
  rw [this]
  show (s.funcs.setIfInBounds s0.funcs.size (some di))[s0.funcs.size]? = _
  rw [Array.getElem?_setIfInBounds, if_pos rfl, if_pos hlt]

theorem pres_pegBody (d : Nat) : Pres (pegBody C b P d) := by
  unfold pegBody
  repeat' pres_step

theorem pres_chanBody (d : Nat) : Pres (chanBody C b P d) := by
  unfold chanBody
  repeat' pres_step

theorem pres_abstractBody (d : Nat) : Pres (abstractBody C b P d) := by
  have hpeg := pres_pegBody (C := C) (b := b) hP d
  have hchan := pres_chanBody (C := C) (b := b) hP d
  unfold abstractBody
  repeat' (first | exact hpeg | exact hchan | pres_step)

theorem pres_containerBody (d lead : Nat) : Pres (containerBody C b P d lead) := by
  unfold containerBody
  repeat' pres_step

omit hP in
theorem pres_bytesBody (lead : Nat) : Pres (bytesBody C b lead) := by
  unfold bytesBody
  repeat' pres_step

theorem pres_oneBody (hF : C.fnEnvCountChecked = true) (d : Nat) : Pres (oneBody C b P d) := by
  have hfib := pres_fiberBody (C := C) (b := b) hP
  have hfun := pres_functionBody (C := C) (b := b) hP hF
  have habs := pres_abstractBody (C := C) (b := b) hP
  have hcon := pres_containerBody (C := C) (b := b) hP
  have hbyt := pres_bytesBody (C := C) (b := b)
  unfold oneBody
  repeat' (first | exact hfib _ | exact hfun _ | exact habs _ | exact hcon _ _ | exact hbyt _ | pres_step)

end bodies

theorem fns_pres (hF : C.fnEnvCountChecked = true) (hE : C.defEnvIndexChecked = true) : ∀ f, PGood (fns C b f)
  | 0 => ⟨fun _ => pres_of_neutral neutral_outOfFuel, fun _ => pres_of_neutral neutral_outOfFuel,
          fun _ => pres_of_neutral neutral_outOfFuel⟩
  | f + 1 => ⟨fun d => pres_oneBody (fns_pres hF hE f) hF d, fun d => pres_defBody (fns_pres hF hE f) hE d,
              fun d => pres_envBody (fns_pres hF hE f) d⟩

/-- **accepted function image ⇒ `function_image_wf`**: at ANY fuel level and depth, from ANY state satisfying `Inv` (every
    state the unmarshaller reaches, `fns_pres`), when `case LB_FUNCTION` accepts, the value is a function object whose `def` is a
    completed funcdef, it was allocated with exactly `def->environments_length` slots, `def->environments` has that many
    entries, all ≥ -1 — i.e. (`len`, `environments_length`, `environments`) pass `acceptFunction` for every `Checks` -/
theorem function_case_wf_generic (C : Cfg) (hF : C.fnEnvCountChecked = true) (hE : C.defEnvIndexChecked = true) (b : Array Nat)
    (f d : Nat) (c : Cur) (hI : Inv c.st) :
    match functionBody C b (fns C b f) d c with
    | .ok v c' => ∃ id di info len, v = .func id ∧ c'.st.funcs[id]? = some (some di) ∧ c'.st.defs[di]? = some info ∧
        info.done = true ∧ c'.st.fnEnvs[id]? = some len ∧ info.envs.length = info.envLen ∧
        (∀ K : JanetModel.Unmarsh.Checks, JanetModel.Unmarsh.acceptFunction K len info.envLen info.envs = true) ∧
        len = info.envLen ∧ ∀ e ∈ info.envs, -1 ≤ e
    | _ => True := by
  have h := functionBody_spec (C := C) (b := b) (P := fns C b f) (fns_pres hF hE f) hF d c hI
  cases hr : functionBody C b (fns C b f) d c with
  | ok v c' =>
    rw [hr] at h
    obtain ⟨hI', _, di, hv, hf⟩ := h
    obtain ⟨info, h1, h2, h3⟩ := hI'.funcs _ di hf
    have hok := (hI'.defs di info h1).envs h2
    refine ⟨_, di, info, info.envLen, hv, hf, h1, h2, h3, hok.1, fun K => ?_, rfl, hok.2⟩
    simp only [JanetModel.Unmarsh.acceptFunction, beq_self_eq_true, Bool.or_true, Bool.true_and, Bool.or_eq_true, Bool.not_eq_true',
      List.all_eq_true, decide_eq_true_eq]
    right; exact hok.2
  | err e => trivial
  | oob s => trivial
  | fuel => trivial

theorem inv_empty : Inv {} :=
  ⟨fun i info h => by simp at h, fun id di h => by simp at h, rfl⟩

/-- **accepted bytes ⇒ well-formed function objects** (state invariant): with the two tests present, after a successful
    `unmarshal` of ANY byte array at ANY fuel the final state satisfies `Inv` -/
theorem unmarshal_inv (C : Cfg) (hF : C.fnEnvCountChecked = true) (hE : C.defEnvIndexChecked = true) (b : Array Nat) (fuel : Nat) :
    match unmarshal C b fuel with
    | .ok _ c => Inv c.st
    | _ => True := by
  have h := (fns_pres (b := b) hF hE fuel).one 0 { pos := 0, st := {} } inv_empty
  unfold unmarshal
  cases hr : (fns C b fuel).one 0 { pos := 0, st := {} } with
  | ok a c => rw [hr] at h; exact h.1
  | err e => trivial
  | oob s => trivial
  | fuel => trivial

/-- the same in the vocabulary of Unmarsh/Image.lean: every function object of the final state whose `def` is set was
    allocated with `len` environment slots, and (`len`, `def->environments_length`, `def->environments`) pass
    `acceptFunction` for EVERY `Checks` — in particular the regenerated one — hence `function_image_wf_generic` applies -/
theorem unmarshal_functions_wf_generic (C : Cfg) (hF : C.fnEnvCountChecked = true) (hE : C.defEnvIndexChecked = true)
    (b : Array Nat) (fuel : Nat) :
    match unmarshal C b fuel with
    | .ok _ c => ∀ (id di : Nat), c.st.funcs[id]? = some (some di) →
        ∃ info len, c.st.defs[di]? = some info ∧ info.done = true ∧ c.st.fnEnvs[id]? = some len ∧
          info.envs.length = info.envLen ∧
          (∀ K : JanetModel.Unmarsh.Checks, JanetModel.Unmarsh.acceptFunction K len info.envLen info.envs = true) ∧
          len = info.envLen ∧ ∀ e ∈ info.envs, -1 ≤ e
    | _ => True := by
  have h := unmarshal_inv C hF hE b fuel
  cases hr : unmarshal C b fuel with
  | ok a c =>
    rw [hr] at h
    intro id di hf
    obtain ⟨info, h1, h2, h3⟩ := h.funcs id di hf
    have hok := (h.defs di info h1).envs h2
    refine ⟨info, info.envLen, h1, h2, h3, hok.1, fun K => ?_, rfl, hok.2⟩
    simp only [JanetModel.Unmarsh.acceptFunction, beq_self_eq_true, Bool.or_true, Bool.true_and, Bool.or_eq_true, Bool.not_eq_true',
      List.all_eq_true, decide_eq_true_eq]
    right; exact hok.2
  | err e => trivial
  | oob s => trivial
  | fuel => trivial

end JanetModel.Unmarsh.Bytes
