/- C10: REGENERATED obligations for image well-formedness: the full theorems instantiated with the checks that the CURRENT
   marsh.c / vm.c perform (Gen/ImageChecks.lean).  Built separately by checks/C10.py (not part of the default library
   closure): on a tree that lacks one of the checks `image_checks_present` fails and the theorems below do not exist. -/
import JanetModel.Unmarsh.ImageWf
import JanetModel.Gen.ImageChecks
namespace JanetModel.Unmarsh.Obligations
open JanetModel.Unmarsh JanetModel.Gen.ImageChecks

theorem image_checks_present : checks.allOn = true := by decide

theorem fiber_image_wf (h : FiberHdr) (frames : List FrameRec) (hacc : acceptFiber checks h frames = true) :
    FiberWf h frames := fiber_image_wf_generic checks image_checks_present h frames hacc

theorem function_image_wf (len defEnvLen : Nat) (envs : List Int) (hacc : acceptFunction checks len defEnvLen envs = true) :
    len = defEnvLen ∧ ∀ e ∈ envs, -1 ≤ e := function_image_wf_generic checks image_checks_present len defEnvLen envs hacc

theorem env_untrusted_checked (offset : Nat) (hpos : 0 < offset) :
    envOffsetStored checks offset < 0 ∧ validatedFirst checks (envOffsetStored checks offset) = true ∧
    derefsUnvalidated checks (envOffsetStored checks offset) = false :=
  env_untrusted_checked_generic checks image_checks_present offset hpos

end JanetModel.Unmarsh.Obligations
