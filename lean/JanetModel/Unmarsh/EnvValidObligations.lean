/- C10 REGENERATED OBLIGATION: `janet_env_valid` of the current fiber.c makes every test the soundness theorem needs. -/
import JanetModel.Unmarsh.EnvValidSound
import JanetModel.Gen.EnvValid
namespace JanetModel.Unmarsh.EnvValidObligations
open JanetModel.Unmarsh JanetModel.Unmarsh.EnvValid JanetModel.Gen.EnvValid

theorem env_valid_shape : shape.allOn = true := by decide

theorem env_valid_sound (h : FiberHdr) (frames : List EFrame) (hwf : FiberWf h (frames.map (·.hdr))) (offset : Int)
    (hneg : offset < 0) (len : Nat) :
    ((envValid shape offset len frames h.frame).1 = true →
        0 < (envValid shape offset len frames h.frame).2.1 ∧ (envValid shape offset len frames h.frame).2.2 = len ∧
        ∀ vindex : Nat, vindex < len →
          (envValid shape offset len frames h.frame).2.1 + vindex < (h.stackstart : Int) - frameSizeWords ∧
          (envValid shape offset len frames h.frame).2.1 + vindex < (h.stacktop : Int) + 10) ∧
    ((envValid shape offset len frames h.frame).1 = false →
        (envValid shape offset len frames h.frame).2.1 = 0 ∧ (envValid shape offset len frames h.frame).2.2 = 0) :=
  EnvValid.env_valid_sound shape env_valid_shape h frames hwf offset hneg len

end JanetModel.Unmarsh.EnvValidObligations
