/- C10: the allocation layout of `peg_unmarshal` (peg.c) in `size_t` arithmetic.  The bytecode length comes from `read64`
   (any 64-bit value); `bytecode_len * sizeof(uint32_t)` wraps around for lengths ≥ 2^62, the PEG is then allocated smaller
   than what the fill loops write.  With the count check (`bytecode_len, num_constants ≤ INT32_MAX`, fix-C10-14) every word
   and every constant written lies inside the allocation.  Core Lean only. -/
namespace JanetModel.Unmarsh.PegSize

/-- 2^64 -/
abbrev W : Nat := 18446744073709551616

/-- `size_padded(offset, size)`: `x = size + offset - 1; return x - (x % size);` -/
def sizePadded (offset size : Nat) : Nat := (size + offset - 1) % W - (size + offset - 1) % W % size

structure Layout where
  bstart : Nat
  cstart : Nat
  total : Nat
  deriving Repr, DecidableEq

/-- `bytecode_start`, `constants_start`, `total_size` for `sizeof(JanetPeg) = hdr`, `sizeof(uint32_t) = 4`, `sizeof(Janet) = 8` -/
def layout (hdr blen nc : Nat) : Layout :=
  { bstart := sizePadded hdr 4
    cstart := sizePadded ((sizePadded hdr 4 + blen * 4 % W) % W) 8
    total := (sizePadded ((sizePadded hdr 4 + blen * 4 % W) % W) 8 + 8 * nc) % W }

/-- with the count check: the header, every bytecode word `bytecode[i]`, `i < bytecode_len`, and every `constants[j]`,
    `j < num_constants`, lie inside the `total_size` bytes that are allocated, and the three areas do not overlap -/
theorem peg_alloc_covers_writes (hdr blen nc : Nat) (hh : hdr ≤ 65536) (hb : blen ≤ 2147483647) (hn : nc ≤ 2147483647) :
    hdr ≤ (layout hdr blen nc).bstart ∧
    (∀ i, i < blen → (layout hdr blen nc).bstart + 4 * i + 4 ≤ (layout hdr blen nc).cstart) ∧
    (∀ j, j < nc → (layout hdr blen nc).cstart + 8 * j + 8 ≤ (layout hdr blen nc).total) := by
  simp only [layout, sizePadded, W]
  refine ⟨by omega, fun i hi => by omega, fun j hj => by omega⟩

/-- without it: `bytecode_len = 2^62 + 1` gives an allocation of `hdr`-rounded + 8 bytes; the third word is written past
    its end (replayed on the implementation: corpus/C10/peg-size-overflow.hex, heap-buffer-overflow WRITE in peg_unmarshal) -/
theorem witness_peg_size_wraps :
    (layout 64 4611686018427387905 0).total < (layout 64 4611686018427387905 0).bstart + 4 * 2 + 4 := by decide

end JanetModel.Unmarsh.PegSize
