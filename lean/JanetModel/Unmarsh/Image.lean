/- C10: model of the image validation in marsh.c (`unmarshal_one_fiber`, function case of `unmarshal_one`,
   `unmarshal_one_def` environments, `unmarshal_one_env`) over the decoded header / frame records, parametrised by WHICH
   checks the current source performs (`Checks`, regenerated into Gen/ImageChecks.lean).  Core Lean only. -/
namespace JanetModel.Unmarsh

/-- presence of each validation in the current source (translator: tools/gen/vmaccess.py `image_checks`) -/
structure Checks where
  stackSetup : Bool      -- frame + FRAME_SIZE > stackstart || stackstart > stacktop || stacktop > maxstack  -> panic
  frameSize : Bool       -- def->slotcount != stacktop - stack -> panic
  pcRange : Bool         -- pcdiff >= def->bytecode_length -> panic
  prevAlign : Bool       -- prevframe + FRAME_SIZE > stack -> panic
  statusRange : Bool     -- status > JANET_STATUS_ALIVE -> panic
  frame0 : Bool          -- frame == 0 && status != DEAD -> panic                      (DESIGN section 4, item 9)
  entrance : Bool        -- prevframe == 0 && !(flags & ENTRANCE) -> panic
  callPc : Bool          -- inner frame not suspended at JOP_CALL -> panic
  resumeOperand : Bool   -- resumable top frame: operand A not a slot / last instruction -> panic
  fnEnvCount : Bool      -- def->environments_length != len -> panic                   (item 10)
  defEnvIndex : Bool     -- environments[i] < -1 -> panic                              (item 11)
  envNegOffset : Bool    -- on-stack env of an image gets offset = -offset (untrusted marker)
  envValidBeforeDeref : Bool -- LOAD_UPVALUE / SET_UPVALUE call janet_env_valid before touching env->as
  deriving Repr, DecidableEq

def Checks.allOn (c : Checks) : Bool :=
  c.stackSetup && c.frameSize && c.pcRange && c.prevAlign && c.statusRange && c.frame0 && c.entrance && c.callPc &&
  c.resumeOperand && c.fnEnvCount && c.defEnvIndex && c.envNegOffset && c.envValidBeforeDeref

/-- the checks of the pinned tree before any fix -/
def Checks.baseline : Checks :=
  { stackSetup := true, frameSize := true, pcRange := true, prevAlign := true, statusRange := true, frame0 := false,
    entrance := false, callPc := false, resumeOperand := false, fnEnvCount := false, defEnvIndex := false,
    envNegOffset := true, envValidBeforeDeref := true }

abbrev frameSizeWords : Nat := 4   -- JANET_FRAME_SIZE
abbrev statusDead : Nat := 0
abbrev statusError : Nat := 1
abbrev statusUser0 : Nat := 4
abbrev statusUser4 : Nat := 8
abbrev statusAlive : Nat := 15

/-- one frame record as read by the `while (stack > 0)` loop, with the facts of its (already verified) function -/
structure FrameRec where
  entrance : Bool      -- frameflags & JANET_STACKFRAME_ENTRANCE
  prevframe : Nat      -- readnat
  pcdiff : Nat         -- readnat
  slotcount : Nat      -- func->def->slotcount
  bclen : Nat          -- func->def->bytecode_length
  atCall : Bool        -- (bytecode[pcdiff] & 0x7F) == JOP_CALL
  aIsSlot : Bool       -- ((bytecode[pcdiff] >> 8) & 0xFF) < slotcount
  deriving Repr

structure FiberHdr where
  status : Nat         -- (flags & STATUS_MASK) >> 16
  noUseval : Bool      -- flags & JANET_FIBER_RESUME_NO_USEVAL
  noSkip : Bool        -- flags & JANET_FIBER_RESUME_NO_SKIP
  frame : Nat
  stackstart : Nat
  stacktop : Nat
  maxstack : Nat
  deriving Repr

def resumable (status : Nat) : Bool :=
  !(status == statusDead || status == statusError || (statusUser0 ≤ status && status ≤ statusUser4) || status ≥ statusAlive)

/-- statuses for which `unmarshal_one_fiber` insists on a safe resume point (everything but dead / error / user0-4;
    this includes `alive`, which `janet_check_can_resume` refuses anyway) -/
def mustCheckResume (status : Nat) : Bool :=
  !(status == statusDead || status == statusError || (statusUser0 ≤ status && status ≤ statusUser4))

theorem resumable_mustCheck (s : Nat) (h : resumable s = true) : mustCheckResume s = true := by
  simp only [resumable, mustCheckResume, Bool.not_eq_true', Bool.or_eq_false_iff] at h ⊢
  exact ⟨⟨h.1.1.1, h.1.1.2⟩, h.1.2⟩

/-- the frame loop: `stack`, `stacktop` are the C variables; records are consumed while `stack > 0` -/
def acceptFrames (C : Checks) : List FrameRec → Nat → Int → Bool → Bool
  | [], stack, _, _ => stack == 0                    -- input exhausted: MARSH_EOS panics unless the loop is over
  | fr :: rest, stack, stacktop, top =>
    if stack = 0 then true
    else
      (!C.frameSize || ((fr.slotcount : Int) == stacktop - stack)) &&
      (!C.pcRange || decide (fr.pcdiff < fr.bclen)) &&
      (!C.callPc || top || fr.atCall) &&
      (!C.prevAlign || decide (fr.prevframe + frameSizeWords ≤ stack)) &&
      (!C.entrance || fr.prevframe != 0 || fr.entrance) &&
      acceptFrames C rest fr.prevframe ((stack : Int) - frameSizeWords) false

/-- `unmarshal_one_fiber` accept / reject (records of frames not executed by the loop are ignored) -/
def acceptFiber (C : Checks) (h : FiberHdr) (frames : List FrameRec) : Bool :=
  (!C.stackSetup || (decide (h.frame + frameSizeWords ≤ h.stackstart) && decide (h.stackstart ≤ h.stacktop) && decide (h.stacktop ≤ h.maxstack))) &&
  acceptFrames C frames h.frame ((h.stackstart : Int) - frameSizeWords) true &&
  (!C.statusRange || decide (h.status ≤ statusAlive)) &&
  (!C.frame0 || !(h.frame == 0 && h.status != statusDead)) &&
  (!C.resumeOperand || !(decide (0 < h.frame) && mustCheckResume h.status) ||
    match frames with
    | [] => false
    | fr :: _ => (h.noUseval || fr.aIsSlot) && (h.noSkip || decide (fr.pcdiff + 1 < fr.bclen)))

/-- the invariant the VM, `janet_step` and the marker rely on for the frame chain -/
inductive FramesWf : List FrameRec → Nat → Int → Bool → Prop
  | done (fs : List FrameRec) (t : Int) (top : Bool) : FramesWf fs 0 t top
  | frame (fr : FrameRec) (rest : List FrameRec) (stack : Nat) (stacktop : Int) (top : Bool) :
      frameSizeWords ≤ stack →
      (stack : Int) + fr.slotcount = stacktop →
      fr.pcdiff < fr.bclen →
      fr.prevframe + frameSizeWords ≤ stack →
      (fr.prevframe = 0 → fr.entrance = true) →
      (top = false → fr.atCall = true) →
      FramesWf rest fr.prevframe ((stack : Int) - frameSizeWords) false →
      FramesWf (fr :: rest) stack stacktop top

structure FiberWf (h : FiberHdr) (frames : List FrameRec) : Prop where
  setup : h.frame + frameSizeWords ≤ h.stackstart ∧ h.stackstart ≤ h.stacktop ∧ h.stacktop ≤ h.maxstack
  capacity : h.stacktop ≤ h.stacktop + 10          -- fiber->capacity = stacktop + 10
  chain : FramesWf frames h.frame ((h.stackstart : Int) - frameSizeWords) true
  status : h.status ≤ statusAlive
  /-- a status that can be resumed implies at least one frame -/
  resumableHasFrame : resumable h.status = true → 0 < h.frame
  /-- the resume preamble `stack[A] = in; pc++` is safe on the top frame -/
  resumePoint : resumable h.status = true → ∃ fr rest, frames = fr :: rest ∧
      (h.noUseval = true ∨ fr.aIsSlot = true) ∧ (h.noSkip = true ∨ fr.pcdiff + 1 < fr.bclen)

/-- the part of the invariant that the baseline checks establish -/
structure FiberWfPartial (h : FiberHdr) (frames : List FrameRec) : Prop where
  setup : h.frame + frameSizeWords ≤ h.stackstart ∧ h.stackstart ≤ h.stacktop ∧ h.stacktop ≤ h.maxstack
  status : h.status ≤ statusAlive

/-- function case of `unmarshal_one` + environments of `unmarshal_one_def` -/
def acceptFunction (C : Checks) (len : Nat) (defEnvLen : Nat) (environments : List Int) : Bool :=
  (!C.fnEnvCount || len == defEnvLen) && (!C.defEnvIndex || environments.all (fun e => decide (-1 ≤ e)))

/-- `unmarshal_one_env`, on-stack variant: the offset stored in the new environment -/
def envOffsetStored (C : Checks) (offset : Nat) : Int := if C.envNegOffset then -(offset : Int) else offset

/-- JOP_LOAD_UPVALUE / JOP_SET_UPVALUE: does the handler reach `env->as.fiber->data[...]` for an environment whose stored
    offset is `off` without having gone through `janet_env_valid`?  (`janet_env_valid` is the identity for off ≥ 0.) -/
def derefsUnvalidated (C : Checks) (off : Int) : Bool := !C.envValidBeforeDeref && decide (off ≠ 0)
def validatedFirst (C : Checks) (off : Int) : Bool := C.envValidBeforeDeref && decide (off < 0)

end JanetModel.Unmarsh
