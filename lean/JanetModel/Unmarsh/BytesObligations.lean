/- C10 REGENERATED OBLIGATIONS for the byte-level unmarshal model: every `MARSH_EOS` offset extracted from the current
   marsh.c dominates the reads made under it (`sites_ok`, by `decide` over Gen/UnmarshSites.lean), hence
   `unmarshal_total_inbounds` and `unmarshal_terminates` for the model instantiated with the current source.
   checks/C10.py builds this module on every run; with a test removed from marsh.c `sites_ok` is false, the driver names
   the site and the model itself (run on truncations of the base images) produces the input that is over-read. -/
import JanetModel.Unmarsh.BytesSound
import JanetModel.Unmarsh.BytesMono
import JanetModel.Unmarsh.BytesWf
import JanetModel.Unmarsh.BytesCfg
import JanetModel.Unmarsh.PegSize
namespace JanetModel.Unmarsh.BytesObligations
open JanetModel.Unmarsh.Bytes

theorem sites_ok : cfg.sites.ok = true := by decide

/-- the three reference-table indices (`st->lookup[len]`, `st->lookup_envs[index]`, `st->lookup_defs[index]`) are tested first -/
theorem refs_checked : cfg.refsChecked = true := by decide

/-- every call path from one `MARSH_STACKCHECK` to the next (through `unmarshal_one_env`, `unmarshal_one_fiber`,
    `unmarshal_one_abstract`, the `janet_unmarshal_janet` hook) adds at least 1 to the depth counter: `decide` over the `flags + k`
    arguments of the 28 recursive call sites extracted from the current marsh.c -/
theorem depths_ok : cfg.inc.ok = true := by decide

/-- for EVERY byte array and fuel: no read outside the input; success consumes ≥ 1 byte and ends inside the input -/
theorem unmarshal_total_inbounds (b : Array Nat) (fuel : Nat) :
    match unmarshal cfg b fuel with
    | .oob _ => False
    | .ok _ c => 0 < c.pos ∧ c.pos ≤ b.size
    | _ => True := unmarshal_total_inbounds_generic cfg sites_ok refs_checked b fuel

/-- `fuelBound cfg` (= 2054) levels of recursion suffice for every input: the model never answers `fuel` -/
theorem unmarshal_terminates (b : Array Nat) (fuel : Nat) (hf : fuelBound cfg ≤ fuel) :
    ∀ a, unmarshal cfg b fuel ≠ .fuel ∧ unmarshal cfg b fuel ≠ .oob a := unmarshal_terminates_generic cfg sites_ok refs_checked depths_ok b fuel hf

/-- no byte string makes the unmarshaller of the current source nest deeper than `fuelBound cfg` activations: more fuel
    never changes the model's answer -/
theorem unmarshal_depth_bounded (b : Array Nat) (fuel : Nat) (hf : fuelBound cfg ≤ fuel) :
    unmarshal cfg b fuel = unmarshal cfg b (fuelBound cfg) :=
  unmarshal_depth_bounded_generic cfg sites_ok refs_checked depths_ok b fuel hf

/-- the two function-image tests of the current marsh.c (`def->environments_length != len`, `environments[i] < -1`; presence
    extracted by tools/gen/vmaccess.py `image_checks` into Gen/ImageChecks, which `cfg` reads) -/
theorem fn_checks_on : cfg.fnEnvCountChecked = true ∧ cfg.defEnvIndexChecked = true := by decide

/-- accepted bytes ⇒ well-formed function objects, for the model instantiated with the current source -/
theorem unmarshal_functions_wf (b : Array Nat) (fuel : Nat) :
    match unmarshal cfg b fuel with
    | .ok _ c => ∀ (id di : Nat), c.st.funcs[id]? = some (some di) →
        ∃ info len, c.st.defs[di]? = some info ∧ info.done = true ∧ c.st.fnEnvs[id]? = some len ∧
          info.envs.length = info.envLen ∧
          (∀ K : JanetModel.Unmarsh.Checks, JanetModel.Unmarsh.acceptFunction K len info.envLen info.envs = true) ∧
          len = info.envLen ∧ ∀ e ∈ info.envs, -1 ≤ e
    | _ => True := unmarshal_functions_wf_generic cfg fn_checks_on.1 fn_checks_on.2 b fuel

/-- the FUNCTION case of the current source returns a complete, well-formed function object whenever it accepts -/
theorem function_case_wf (b : Array Nat) (f d : Nat) (c : Cur) (hI : Inv c.st) :
    match functionBody cfg b (fns cfg b f) d c with
    | .ok v c' => ∃ id di info len, v = .func id ∧ c'.st.funcs[id]? = some (some di) ∧ c'.st.defs[di]? = some info ∧
        info.done = true ∧ c'.st.fnEnvs[id]? = some len ∧ info.envs.length = info.envLen ∧
        (∀ K : JanetModel.Unmarsh.Checks, JanetModel.Unmarsh.acceptFunction K len info.envLen info.envs = true) ∧
        len = info.envLen ∧ ∀ e ∈ info.envs, -1 ≤ e
    | _ => True := function_case_wf_generic cfg fn_checks_on.1 fn_checks_on.2 b f d c hI

/-- the count check of `peg_unmarshal` is present in the current peg.c (hypothesis of `PegSize.peg_alloc_covers_writes`:
    both counts ≤ INT32_MAX before the size computation) -/
theorem peg_size_checked : cfg.pegSizeChecked = true := by decide

/-- `asm`: every `return` of `janet_asm1` whose status is JANET_ASSEMBLE_OK lies behind `janet_verify(def) == 0` (the
    failing branch does not return), nothing but flag bookkeeping follows the test, and there is such a return.  So whether
    `asm` accepts a description is decided by `janet_verify`, and every def it hands to the VM satisfies the hypothesis
    of `Props.C10.verify_sound`. -/
theorem asm_ok_only_after_verify :
    (JanetModel.Gen.UnmarshSites.asmReturns.all fun r => !r.1 || r.2) = true ∧
    (JanetModel.Gen.UnmarshSites.asmReturns.any fun r => r.1) = true := by decide

end JanetModel.Unmarsh.BytesObligations
