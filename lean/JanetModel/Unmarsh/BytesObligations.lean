/- C10 REGENERATED OBLIGATIONS for the byte-level unmarshal model: every `MARSH_EOS` offset extracted from the current
   marsh.c dominates the reads made under it (`sites_ok`, by `decide` over Gen/UnmarshSites.lean), hence
   `unmarshal_total_inbounds` and `unmarshal_terminates` for the model instantiated with the current source.
   checks/C10.py builds this module on every run; with a test removed from marsh.c `sites_ok` is false, the driver names
   the site and the model itself (run on truncations of the base images) produces the input that is over-read. -/
import JanetModel.Unmarsh.BytesSound
import JanetModel.Unmarsh.BytesCfg
namespace JanetModel.Unmarsh.BytesObligations
open JanetModel.Unmarsh.Bytes

theorem sites_ok : cfg.sites.ok = true := by decide

/-- for EVERY byte array and fuel: no read outside the input; success consumes ≥ 1 byte and ends inside the input -/
theorem unmarshal_total_inbounds (b : Array Nat) (fuel : Nat) :
    match unmarshal cfg b fuel with
    | .oob _ => False
    | .ok _ c => 0 < c.pos ∧ c.pos ≤ b.size
    | _ => True := unmarshal_total_inbounds_generic cfg sites_ok b fuel

/-- `fuelBound cfg` (= 2054) levels of recursion suffice for every input: the model never answers `fuel` -/
theorem unmarshal_terminates (b : Array Nat) (fuel : Nat) (hf : fuelBound cfg ≤ fuel) :
    ∀ a, unmarshal cfg b fuel ≠ .fuel ∧ unmarshal cfg b fuel ≠ .oob a := unmarshal_terminates_generic cfg sites_ok b fuel hf

end JanetModel.Unmarsh.BytesObligations
