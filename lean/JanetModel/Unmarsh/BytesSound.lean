/- C10: `unmarshal_total_inbounds` and `unmarshal_terminates` for the byte-level model of Unmarsh/Bytes.lean. -/
import JanetModel.Unmarsh.BytesFrame
namespace JanetModel.Unmarsh.Bytes

variable {α β : Type} {af : Bool} {p r d : Nat} {b : Array Nat}

/-! ### read sites -/

/-- the common read-site shape is safe when the check dominates the reads and the pointer advance -/
theorem sat_guarded {s : Site} {g0 : Int} (hg : s.guard = some g0) {v site start k a : Nat} {g : List Nat → α}
    (hread : (start : Int) + (k : Int) ≤ (v : Int) + g0 + 1) (hadv : (a : Int) ≤ (v : Int) + g0 + 1) (hd : d ≤ a) :
    SatAt b.size af p r d (guarded b s v site start k a g) := by
  unfold guarded
  refine sat_chk_then hg v (fun c _ _ hlt => ?_)
  obtain ⟨bs, hbs⟩ := getRange_ok (b := b) (site := site) k start c (by omega)
  rw [bind_run, hbs]
  show Post b.size af (c.pos + d) (Res.ok (g bs) { c with pos := c.pos + a })
  exact ⟨by simp; omega, by simp; omega⟩

theorem peek_run {s : Site} {g0 : Int} (hg : s.guard = some g0) (h0 : 0 ≤ g0) (site : Nat) (c : Cur) :
    peek b s site c = .err .eos ∨ (c.pos < b.size ∧ peek b s site c = .ok b[c.pos]! c) := by
  unfold peek
  rw [bind_run]
  unfold chk
  rw [hg]
  dsimp only
  by_cases hlt : (b.size : Int) ≤ (c.pos : Int) + ((0 : Nat) : Int) + g0
  · left
    rw [if_pos hlt]
  · right
    have hc : c.pos < b.size := by omega
    refine ⟨hc, ?_⟩
    rw [if_neg hlt]
    show get b site 0 c = _
    rw [get_ok (by omega)]
    simp [hc]

/-- after a successful peek the continuation has one byte of room -/
theorem sat_peek_bind {s : Site} (hs : s.okFor 0 = true) {site : Nat} {f : Nat → M α}
    (hf : ∀ a, SatAt b.size af p 1 d (f a)) : SatAt b.size af p r d (peek b s site >>= f) := by
  obtain ⟨g0, hg, h0⟩ := okFor_guard hs
  refine ⟨fun c hp _ => ?_⟩
  rw [bind_run]
  rcases peek_run (b := b) hg h0 site c with h | ⟨hc, h⟩
  · rw [h]; trivial
  · rw [h]; exact (hf _).run c hp (by omega)

section prims
variable {C : Cfg} (hS : C.sites.ok = true)
include hS

theorem sites_facts :
    C.sites.intLead.okFor 0 = true ∧ C.sites.int2.okFor 1 = true ∧ C.sites.int5.okFor 4 = true ∧
    C.sites.r64Lead.okFor 0 = true ∧ C.sites.r64Multi.okFor 0 = true ∧ C.sites.envLead.okFor 0 = true ∧
    C.sites.u32.okFor 3 = true ∧ C.sites.defLead.okFor 0 = true ∧ C.sites.oneLead.okFor 0 = true ∧
    C.sites.oneInt.okFor 4 = true ∧ C.sites.oneReal.okFor 8 = true ∧ C.sites.oneBytes.okFor (-1) = true ∧
    C.sites.oneDos.okFor (-1) = true ∧ C.sites.ubyte.okFor 0 = true ∧ C.sites.ubytes.okFor (-1) = true := by
  have h := hS
  unfold Sites.ok at h
  simp only [Bool.and_eq_true] at h
  obtain ⟨⟨⟨⟨⟨⟨⟨⟨⟨⟨⟨⟨⟨⟨⟨⟨⟨⟨⟨h1, h2⟩, h3⟩, h4⟩, h5⟩, h6⟩, h7⟩, h8⟩, h9⟩, h10⟩, h11⟩, h12⟩, h13⟩, _⟩, _⟩, _⟩, _⟩, h18⟩, h19⟩, _⟩ := h
  exact ⟨h1, h2, h3, h4, h5, h6, h7, h8, h9, h10, h11, h12, h13, h18, h19⟩

theorem sat_readint : SatAt b.size af p r 1 (readint C b) := by
  obtain ⟨h1, h2, h3, _⟩ := sites_facts hS
  obtain ⟨g2, hg2, hb2⟩ := okFor_guard h2
  obtain ⟨g3, hg3, hb3⟩ := okFor_guard h3
  unfold readint
  refine sat_peek_bind h1 (fun l => ?_)
  split
  · exact sat_bind1 sat_adv1 (fun _ => sat_pure)
  · split
    · exact sat_guarded hg2 (by omega) (by omega) (by omega)
    · split
      · exact sat_guarded hg3 (by omega) (by omega) (by omega)
      · exact sat_fail

theorem sat_readnat : SatAt b.size af p r 1 (readnat C b) := by
  unfold readnat
  refine sat_bind1 (sat_readint hS) (fun x => ?_)
  split
  · exact sat_fail
  · exact sat_pure

theorem sat_read64 : SatAt b.size af p r 1 (read64 C b) := by
  obtain ⟨_, _, _, h4, h5, _⟩ := sites_facts hS
  obtain ⟨g5, hg5, hb5⟩ := okFor_guard h5
  unfold read64
  refine sat_peek_bind h4 (fun l => ?_)
  split
  · exact sat_bind1 sat_adv1 (fun _ => sat_pure)
  · split
    · exact sat_fail
    · exact sat_guarded hg5 (by omega) (by omega) (by omega)

theorem sat_u32 : SatAt b.size af p r 1 (u32 C b) := by
  obtain ⟨_, _, _, _, _, _, h7, _⟩ := sites_facts hS
  obtain ⟨g, hg, hb⟩ := okFor_guard h7
  exact sat_guarded hg (by omega) (by omega) (by omega)

theorem sat_ubyte : SatAt b.size af p r 1 (ubyte C b) := by
  obtain ⟨_, _, _, _, _, _, _, _, _, _, _, _, _, h18, _⟩ := sites_facts hS
  obtain ⟨g, hg, hb⟩ := okFor_guard h18
  exact sat_guarded hg (by omega) (by omega) (by omega)

theorem sat_payload_one {site len : Nat} : SatAt b.size af p r 0 (payload b C.sites.oneBytes site len) := by
  obtain ⟨_, _, _, _, _, _, _, _, _, _, _, h12, _⟩ := sites_facts hS
  obtain ⟨g, hg, hb⟩ := okFor_guard h12
  exact sat_guarded hg (by omega) (by omega) (by omega)

/-- `janet_unmarshal_bytes` -/
theorem sat_ubytes {len : Nat} : SatAt b.size af p r 0 (ubytes C b len) := by
  obtain ⟨_, _, _, _, _, _, _, _, _, _, _, _, _, _, h19⟩ := sites_facts hS
  obtain ⟨g, hg, hb⟩ := okFor_guard h19
  exact sat_guarded hg (by omega) (by omega) (by omega)

theorem sat_oneInt {g : List Nat → α} : SatAt b.size af p r 1 (guarded b C.sites.oneInt 0 9 1 4 5 g) := by
  obtain ⟨_, _, _, _, _, _, _, _, _, h10, _⟩ := sites_facts hS
  obtain ⟨g0, hg, hb⟩ := okFor_guard h10
  exact sat_guarded hg (by omega) (by omega) (by omega)

theorem sat_oneReal {g : List Nat → α} : SatAt b.size af p r 1 (guarded b C.sites.oneReal 0 10 1 8 9 g) := by
  obtain ⟨_, _, _, _, _, _, _, _, _, _, h11, _⟩ := sites_facts hS
  obtain ⟨g0, hg, hb⟩ := okFor_guard h11
  exact sat_guarded hg (by omega) (by omega) (by omega)

theorem sat_ensure {size : Nat} : SatAt b.size af p r 0 (ensure C b size) := by
  unfold ensure; exact sat_chk _

end prims

/-! ### automation -/

attribute [local irreducible] readint readnat read64 u32 ubyte ubytes payload guarded peek chk get getRange adv getSt modSt
  pushLookup expect fail loopN collectN ensure refGuard

/-- close a goal `SatAt … m` for an atomic `m` -/
syntax "sat_atom" : tactic
/-- one structural step -/
syntax "sat_step" : tactic

/-- `Incs.ok` as a proposition `omega` can use -/
def Incs.Facts (I : Incs) : Prop :=
  1 ≤ I.arrElem ∧ 1 ≤ I.tupElem ∧ 1 ≤ I.structProto ∧ 1 ≤ I.structKey ∧ 1 ≤ I.structVal ∧ 1 ≤ I.tabProto ∧ 1 ≤ I.tabKey ∧
  1 ≤ I.tabVal ∧ 1 ≤ I.oneDef ∧ 1 ≤ I.oneEnv + I.envFiber ∧ 1 ≤ I.oneEnv + I.envValue ∧ 1 ≤ I.oneFiber + I.fbFrameFn ∧
  1 ≤ I.oneFiber + I.fbSlot ∧ 1 ≤ I.oneFiber + I.fbEnv ∧ 1 ≤ I.oneFiber + I.fbChild ∧ 1 ≤ I.oneFiber + I.fbLast ∧
  1 ≤ I.oneFiber + I.fbFrameEnv + I.envFiber ∧ 1 ≤ I.oneFiber + I.fbFrameEnv + I.envValue ∧ 1 ≤ I.oneAbstract + I.absKey ∧
  1 ≤ I.oneAbstract + I.absCtx + I.hookJanet ∧ 1 ≤ I.defName ∧ 1 ≤ I.defSource ∧ 1 ≤ I.defConst ∧ 1 ≤ I.defSym ∧ 1 ≤ I.defSub

theorem Incs.facts_of_ok {I : Incs} (h : I.ok = true) : I.Facts := by
  unfold Incs.ok at h
  simp only [Bool.and_eq_true, decide_eq_true_eq] at h
  unfold Incs.Facts
  omega

/-- what the bodies may assume of the previous fuel level at the depths they call (`env` passes its depth on to `one` with
    the two increments of `unmarshal_one_env`) -/
structure Good (C : Cfg) (n : Nat) (af : Bool) (P : Fns) (lo : Nat) : Prop where
  one : ∀ d', lo ≤ d' → ∀ p r, SatAt n af p r 1 (P.one d')
  def_ : ∀ d', lo ≤ d' → ∀ p r, SatAt n af p r 1 (P.def_ d')
  env : ∀ d', lo ≤ d' + C.inc.envFiber → lo ≤ d' + C.inc.envValue → ∀ p r, SatAt n af p r 1 (P.env d')

/-- what a body running inside the checked function at depth `d0` knows about the depths it may call at: either nothing is
    demanded (`lo = 0`; the in-bounds theorem holds at every depth and needs no fact about the increments), or the callee
    must be strictly deeper than `d0` and every call path adds at least 1 (`Incs.ok`) -/
def DepthOk (C : Cfg) (lo d0 : Nat) : Prop := lo = 0 ∨ (lo = d0 + 1 ∧ C.inc.Facts)

macro_rules
  | `(tactic| sat_atom) => `(tactic| first
      | exact sat_pure | exact sat_fail | exact sat_getSt | exact sat_modSt | exact sat_pushLookup | exact sat_expect
      | exact sat_chk _
      | exact sat_refGuard ‹Cfg.refChecked _ = true›
      | exact sat_refGuard ‹Cfg.envRefChecked _ = true›
      | exact sat_refGuard ‹Cfg.defRefChecked _ = true›
      | exact sat_ensure ‹Sites.ok _ = true›
      | exact sat_weaken (sat_adv1 (r := 0)) (Nat.le_refl _) (by omega) (by omega)
      | exact sat_weaken (sat_readint (r := 0) ‹Sites.ok _ = true›) (Nat.le_refl _) (by omega) (by omega)
      | exact sat_weaken (sat_readnat (r := 0) ‹Sites.ok _ = true›) (Nat.le_refl _) (by omega) (by omega)
      | exact sat_weaken (sat_read64 (r := 0) ‹Sites.ok _ = true›) (Nat.le_refl _) (by omega) (by omega)
      | exact sat_weaken (sat_u32 (r := 0) ‹Sites.ok _ = true›) (Nat.le_refl _) (by omega) (by omega)
      | exact sat_weaken (sat_ubyte (r := 0) ‹Sites.ok _ = true›) (Nat.le_refl _) (by omega) (by omega)
      | exact sat_weaken (sat_oneInt (r := 0) ‹Sites.ok _ = true›) (Nat.le_refl _) (by omega) (by omega)
      | exact sat_weaken (sat_oneReal (r := 0) ‹Sites.ok _ = true›) (Nat.le_refl _) (by omega) (by omega)
      | exact sat_payload_one ‹Sites.ok _ = true›
      | exact sat_weaken ((‹Good _ _ _ _ _›).one _ (by omega) _ 0) (Nat.le_refl _) (by omega) (by omega)
      | exact sat_weaken ((‹Good _ _ _ _ _›).def_ _ (by omega) _ 0) (Nat.le_refl _) (by omega) (by omega)
      | exact sat_weaken ((‹Good _ _ _ _ _›).env _ (by omega) (by omega) _ 0) (Nat.le_refl _) (by omega) (by omega))

macro_rules
  | `(tactic| sat_step) => `(tactic| first
      | sat_atom
      | (refine sat_bind1 ?_ (fun _ => ?_); sat_atom)
      | refine sat_bind0 ?_ (fun _ => ?_)
      | (apply sat_loopN; intro _ _)
      | (apply sat_collectN; intro _ _)
      | refine sat_ite (fun _ => ?_) (fun _ => ?_)
      | split)

section bodies
variable {C : Cfg} (hS : C.sites.ok = true) (hR1 : C.refChecked = true) (hR2 : C.envRefChecked = true)
  (hR3 : C.defRefChecked = true) {P : Fns}
include hS

theorem sat_symEntry {lo dd : Nat} (hP : Good C b.size af P lo) (hD : DepthOk C lo dd) :
    SatAt b.size af p r 0 (symEntry C b P dd) := by
  unfold DepthOk Incs.Facts at hD
  unfold symEntry
  repeat' sat_step

include hR2 in
theorem sat_envBody {dd : Nat} (hone : ∀ p r, SatAt b.size af p r 1 (P.one (dd + C.inc.envFiber)))
    (hone2 : ∀ p r, SatAt b.size af p r 1 (P.one (dd + C.inc.envValue))) :
    SatAt b.size af p r 1 (envBody C b P dd) := by
  obtain ⟨_, _, _, _, _, h6, _⟩ := sites_facts hS
  unfold envBody
  refine sat_peek_bind h6 (fun l => ?_)
  split
  · repeat' sat_step
  · refine sat_bind0 sat_modSt (fun _ => ?_)
    repeat' (first | exact sat_weaken (hone _ 0) (Nat.le_refl _) (by omega) (by omega)
                   | exact sat_weaken (hone2 _ 0) (Nat.le_refl _) (by omega) (by omega) | sat_step)

include hR3 in
theorem sat_defBody {dd : Nat} (hP : C.guardDepth < dd ∨ ∃ lo, Good C b.size af P lo ∧ DepthOk C lo dd) :
    SatAt b.size af p r 1 (defBody C b P dd) := by
  obtain ⟨_, _, _, _, _, _, _, h8, _⟩ := sites_facts hS
  unfold defBody
  refine sat_ite (fun _ => sat_fail) (fun hdd => ?_)
  · obtain ⟨lo, hP, hD⟩ := hP.resolve_left hdd
    have hsym : ∀ p' r', SatAt b.size af p' r' 0 (symEntry C b P dd) := fun _ _ => sat_symEntry hS hP hD
    unfold DepthOk Incs.Facts at hD
    refine sat_peek_bind h8 (fun l => ?_)
    refine sat_ite (fun _ => ?_) (fun _ => ?_)
    · repeat' sat_step
    · refine sat_bind0 sat_getSt (fun s0 => sat_bind0 sat_modSt (fun _ => ?_))
      unfold optNat
      repeat' (first | exact hsym _ _ | sat_step)

theorem sat_frameLoop {lo d0 frame : Nat} (hP : Good C b.size af P lo) (hD : DepthOk C lo d0) :
    ∀ (k p stack : Nat) (stacktop : Int) (top : Option TopFrame), (af = false → b.size < p + k) →
      SatAt b.size af p 0 0 (frameLoop C b P (d0 + C.inc.oneFiber) frame k stack stacktop top)
  | 0, p, _, _, _, hk => by
    refine ⟨fun c hp hn => ?_⟩
    show af = true
    cases af with
    | true => rfl
    | false => have := hk rfl; omega
  | k + 1, p, stack, stacktop, top, hk => by
    unfold frameLoop
    split
    · exact sat_pure
    · refine sat_bind1' (sat_readint hS) (fun _ => ?_)
      have ih' : ∀ st stt tp, SatAt b.size af (p + 1) 0 0 (frameLoop C b P (d0 + C.inc.oneFiber) frame k st stt tp) :=
        fun st stt tp => sat_frameLoop hP hD k (p + 1) st stt tp (by intro h; have := hk h; omega)
      unfold DepthOk Incs.Facts at hD
      repeat' (first | exact ih' _ _ _ | sat_step)

theorem sat_fiberBody {lo d0 : Nat} (hP : Good C b.size af P lo) (hD : DepthOk C lo d0) :
    SatAt b.size af p r 1 (fiberBody C b P (d0 + C.inc.oneFiber)) := by
  have hfl : ∀ p' fr st stt tp, SatAt b.size af p' 0 0 (frameLoop C b P (d0 + C.inc.oneFiber) fr (b.size + 1) st stt tp) :=
    fun p' fr st stt tp => sat_frameLoop hS hP hD (b.size + 1) p' st stt tp (by intro _; omega)
  unfold DepthOk Incs.Facts at hD
  unfold fiberBody
  repeat' (first | exact hfl _ _ _ _ _ | sat_step)

theorem sat_functionBody {lo dd : Nat} (hP : Good C b.size af P lo) (hD : DepthOk C lo dd) :
    SatAt b.size af p r 1 (functionBody C b P dd) := by
  unfold DepthOk Incs.Facts at hD
  unfold functionBody
  repeat' sat_step

theorem sat_pegBody {lo d0 : Nat} (hP : Good C b.size af P lo) (hD : DepthOk C lo d0) :
    SatAt b.size af p r 0 (pegBody C b P (d0 + C.inc.oneAbstract)) := by
  unfold DepthOk Incs.Facts at hD
  unfold pegBody
  repeat' sat_step

theorem sat_chanBody {lo d0 : Nat} (hP : Good C b.size af P lo) (hD : DepthOk C lo d0) :
    SatAt b.size af p r 0 (chanBody C b P (d0 + C.inc.oneAbstract)) := by
  unfold DepthOk Incs.Facts at hD
  unfold chanBody
  repeat' sat_step

theorem sat_abstractBody {lo d0 : Nat} (hP : Good C b.size af P lo) (hD : DepthOk C lo d0) :
    SatAt b.size af p r 1 (abstractBody C b P (d0 + C.inc.oneAbstract)) := by
  have hpeg : ∀ p' r', SatAt b.size af p' r' 0 (pegBody C b P (d0 + C.inc.oneAbstract)) := fun _ _ => sat_pegBody hS hP hD
  have hchan : ∀ p' r', SatAt b.size af p' r' 0 (chanBody C b P (d0 + C.inc.oneAbstract)) := fun _ _ => sat_chanBody hS hP hD
  unfold DepthOk Incs.Facts at hD
  unfold abstractBody
  repeat' (first | exact hpeg _ _ | exact hchan _ _ | sat_step)

include hR1 in
theorem sat_containerBody {lo dd lead : Nat} (hP : Good C b.size af P lo) (hD : DepthOk C lo dd) :
    SatAt b.size af p r 1 (containerBody C b P dd lead) := by
  unfold DepthOk Incs.Facts at hD
  unfold containerBody
  repeat' sat_step

theorem sat_bytesBody {lead : Nat} : SatAt b.size af p r 1 (bytesBody C b lead) := by
  unfold bytesBody
  repeat' sat_step

include hR1 in
theorem sat_oneBody {dd : Nat} (hP : C.guardDepth < dd ∨ ∃ lo, Good C b.size af P lo ∧ DepthOk C lo dd) :
    SatAt b.size af p r 1 (oneBody C b P dd) := by
  obtain ⟨_, _, _, _, _, _, _, _, h9, _⟩ := sites_facts hS
  unfold oneBody
  refine sat_ite (fun _ => sat_fail) (fun hdd => ?_)
  · obtain ⟨lo, hP, hD⟩ := hP.resolve_left hdd
    have hfib : ∀ p', SatAt b.size af p' 0 0 (fiberBody C b P (dd + C.inc.oneFiber)) :=
      fun _ => sat_weaken (sat_fiberBody hS hP hD (r := 0)) (Nat.le_refl _) (Nat.le_refl _) (by omega)
    have hfun : ∀ p', SatAt b.size af p' 0 0 (functionBody C b P dd) :=
      fun _ => sat_weaken (sat_functionBody hS hP hD (r := 0)) (Nat.le_refl _) (Nat.le_refl _) (by omega)
    have habs : ∀ p', SatAt b.size af p' 0 0 (abstractBody C b P (dd + C.inc.oneAbstract)) :=
      fun _ => sat_weaken (sat_abstractBody hS hP hD (r := 0)) (Nat.le_refl _) (Nat.le_refl _) (by omega)
    have hcon : ∀ p' l, SatAt b.size af p' 0 0 (containerBody C b P dd l) :=
      fun _ _ => sat_weaken (sat_containerBody hS hR1 hP hD (r := 0)) (Nat.le_refl _) (Nat.le_refl _) (by omega)
    have hbyt : ∀ p' l, SatAt b.size af p' 0 0 (bytesBody C b l) :=
      fun _ _ => sat_weaken (sat_bytesBody hS (r := 0)) (Nat.le_refl _) (Nat.le_refl _) (by omega)
    refine sat_peek_bind h9 (fun lead => ?_)
    repeat' (first | exact hfib _ | exact hfun _ | exact habs _ | exact hcon _ _ | exact hbyt _ _ | sat_step)

end bodies

/-! ### tying the knot -/

/-- fuel that suffices for `one` / `def` at recursion depth `d` (`env` needs one more) -/
def mu (G d : Nat) : Nat := 2 * (G + 2 - d) + 1

theorem fns_sat {C : Cfg} (hS : C.sites.ok = true) (hR : C.refsChecked = true) (b : Array Nat) (af : Bool)
    (hI : af = false → C.inc.ok = true) : ∀ (f : Nat),
    (∀ d, (af = false → mu C.guardDepth d ≤ f) → ∀ p r, SatAt b.size af p r 1 ((fns C b f).one d)) ∧
    (∀ d, (af = false → mu C.guardDepth d ≤ f) → ∀ p r, SatAt b.size af p r 1 ((fns C b f).def_ d)) ∧
    (∀ d, (af = false → mu C.guardDepth (d + C.inc.envFiber) + 1 ≤ f ∧ mu C.guardDepth (d + C.inc.envValue) + 1 ≤ f) →
      ∀ p r, SatAt b.size af p r 1 ((fns C b f).env d))
  | 0 => by
    have haf : ∀ k : Nat, (af = false → k + 1 ≤ 0) → af = true := by
      intro k h; cases af with
      | true => rfl
      | false => have := h rfl; omega
    refine ⟨fun d h p r => ?_, fun d h p r => ?_, fun d h p r => ?_⟩
    · exact sat_outOfFuel (haf _ (by unfold mu at h; exact h))
    · exact sat_outOfFuel (haf _ (by unfold mu at h; exact h))
    · exact sat_outOfFuel (haf _ (fun x => (h x).1))
  | f + 1 => by
    obtain ⟨ih1, ih2, ih3⟩ := fns_sat hS hR b af hI f
    have hR' := hR
    unfold Cfg.refsChecked at hR'
    simp only [Bool.and_eq_true] at hR'
    obtain ⟨⟨hR1, hR2⟩, hR3⟩ := hR'
    have good : ∀ d, d ≤ C.guardDepth → (af = false → mu C.guardDepth d ≤ f + 1) →
        ∃ lo, Good C b.size af (fns C b f) lo ∧ DepthOk C lo d := by
      intro d hd h
      cases haf : af with
      | true =>
        subst haf
        exact ⟨0, ⟨fun d' _ => ih1 d' (by intro x; cases x), fun d' _ => ih2 d' (by intro x; cases x),
                   fun d' _ _ => ih3 d' (by intro x; cases x)⟩, Or.inl rfl⟩
      | false =>
        subst haf
        have hm := h rfl
        refine ⟨d + 1, ⟨fun d' hd' => ih1 d' ?_, fun d' hd' => ih2 d' ?_, fun d' h1 h2 => ih3 d' ?_⟩,
                Or.inr ⟨rfl, Incs.facts_of_ok (hI rfl)⟩⟩
        · intro _; unfold mu at hm ⊢; omega
        · intro _; unfold mu at hm ⊢; omega
        · intro _; unfold mu at hm ⊢; omega
    refine ⟨fun d h p r => ?_, fun d h p r => ?_, fun d h p r => ?_⟩
    · show SatAt b.size af p r 1 (oneBody C b (fns C b f) d)
      by_cases hd : C.guardDepth < d
      · exact sat_oneBody hS hR1 (Or.inl hd)
      · exact sat_oneBody hS hR1 (Or.inr (good d (by omega) h))
    · show SatAt b.size af p r 1 (defBody C b (fns C b f) d)
      by_cases hd : C.guardDepth < d
      · exact sat_defBody hS hR3 (Or.inl hd)
      · exact sat_defBody hS hR3 (Or.inr (good d (by omega) h))
    · show SatAt b.size af p r 1 (envBody C b (fns C b f) d)
      exact sat_envBody hS hR2 (fun p' r' => ih1 _ (by intro haf; have := (h haf).1; omega) p' r')
        (fun p' r' => ih1 _ (by intro haf; have := (h haf).2; omega) p' r')

/-- **unmarshal_total_inbounds**: for EVERY byte array and every fuel, when each extracted `MARSH_EOS` offset dominates the
    reads made under it and the three reference-table indices are tested, the byte-level model never reads at an index outside
    the input or a reference table; a successful run consumes at
    least one byte and stops inside the input. -/
theorem unmarshal_total_inbounds_generic (C : Cfg) (hS : C.sites.ok = true) (hR : C.refsChecked = true) (b : Array Nat) (fuel : Nat) :
    match unmarshal C b fuel with
    | .oob _ => False
    | .ok _ c => 0 < c.pos ∧ c.pos ≤ b.size
    | _ => True := by
  have h := ((fns_sat hS hR b true (by intro h; cases h) fuel).1 0 (by intro h; cases h) 0 0).run { pos := 0, st := {} } (Nat.le_refl _) (by simp)
  unfold unmarshal
  cases hr : (fns C b fuel).one 0 { pos := 0, st := {} } with
  | ok a c => rw [hr] at h; exact ⟨by have := h.1; simp at this; omega, h.2⟩
  | err e => trivial
  | oob s => rw [hr] at h; exact h
  | fuel => trivial

/-- **unmarshal_terminates**: `fuelBound` levels of recursion are enough for every input — when every call path from one
    `MARSH_STACKCHECK` to the next adds at least 1 to the depth counter (`Incs.ok` over the `flags + k` arguments extracted
    from marsh.c) the recursion depth of the C is bounded by `JANET_RECURSION_GUARD`: at most `guard + 2` nested activations
    of the checked functions, at most one unchecked `unmarshal_one_env` between two of them.  Every loop of the model is a
    bounded `for`, and the frame loop of `unmarshal_one_fiber` consumes input on every iteration. -/
theorem unmarshal_terminates_generic (C : Cfg) (hS : C.sites.ok = true) (hR : C.refsChecked = true) (hI : C.inc.ok = true)
    (b : Array Nat) (fuel : Nat)
    (hf : fuelBound C ≤ fuel) : ∀ a, unmarshal C b fuel ≠ .fuel ∧ unmarshal C b fuel ≠ .oob a := by
  have h := ((fns_sat hS hR b false (fun _ => hI) fuel).1 0 (by intro _; unfold mu; unfold fuelBound at hf; omega) 0 0).run
    { pos := 0, st := {} } (Nat.le_refl _) (by simp)
  unfold unmarshal
  intro a
  cases hr : (fns C b fuel).one 0 { pos := 0, st := {} } with
  | ok a c => exact ⟨by simp, by simp⟩
  | err e => exact ⟨by simp, by simp⟩
  | oob s => rw [hr] at h; exact h.elim
  | fuel => rw [hr] at h; cases h

end JanetModel.Unmarsh.Bytes
