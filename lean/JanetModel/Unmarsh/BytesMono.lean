/- C10: the recursion depth of the byte-level unmarshal model is bounded — stated without reference to the fuel parameter:
   `unmarshal_depth_bounded`: for every byte array, every amount of fuel ≥ `fuelBound C` gives the SAME result as
   `fuelBound C` itself.  The fuel is the number of nested activations of the three mutually recursive functions
   (`unmarshal_one`, `unmarshal_one_def`, `unmarshal_one_env`) the model may use, so: no input makes the unmarshaller nest
   deeper than `2·(JANET_RECURSION_GUARD + 2) + 2` activations, provided every call path between two `MARSH_STACKCHECK`s
   adds ≥ 1 to the depth counter (`Incs.ok`, regenerated).
   Proof: the bodies are monotone in the callbacks (`Le`: wherever the smaller one does not run out of fuel the larger one
   answers the same), hence `fns f ⊑ fns (f + k)`; with `unmarshal_terminates` the run at `fuelBound` is not `fuel`. -/
import JanetModel.Unmarsh.BytesSound
namespace JanetModel.Unmarsh.Bytes

variable {α β : Type}

/-- `m'` answers as `m` wherever `m` does not run out of fuel -/
def Le (m m' : M α) : Prop := ∀ c, m c = .fuel ∨ m c = m' c

theorem Le.refl (m : M α) : Le m m := fun _ => Or.inr rfl

theorem Le.trans {m m' m'' : M α} (h1 : Le m m') (h2 : Le m' m'') : Le m m'' := by
  intro c
  rcases h1 c with h | h
  · exact Or.inl h
  · rcases h2 c with h' | h'
    · left; rw [h, h']
    · right; rw [h, h']

theorem le_bind {m m' : M α} {f f' : α → M β} (hm : Le m m') (hf : ∀ a, Le (f a) (f' a)) : Le (m >>= f) (m' >>= f') := by
  intro c
  rw [bind_run (m := m), bind_run (m := m')]
  rcases hm c with h | h
  · left; rw [h]
  · rw [← h]
    cases m c with
    | ok a c' => exact hf a c'
    | err e => right; rfl
    | oob s => right; rfl
    | fuel => left; rfl

theorem le_bind_right {m : M α} {f f' : α → M β} (hf : ∀ a, Le (f a) (f' a)) : Le (m >>= f) (m >>= f') :=
  le_bind (Le.refl m) hf

theorem le_loopN {f f' : M Unit} (h : Le f f') : ∀ k, Le (loopN k f) (loopN k f')
  | 0 => Le.refl _
  | k + 1 => by
    show Le (f >>= fun _ => loopN k f) (f' >>= fun _ => loopN k f')
    exact le_bind h (fun _ => le_loopN h k)

theorem le_collectN {f f' : M α} (h : Le f f') : ∀ k, Le (collectN k f) (collectN k f')
  | 0 => Le.refl _
  | k + 1 => by
    show Le (f >>= fun a => collectN k f >>= fun as => pure (a :: as)) (f' >>= fun a => collectN k f' >>= fun as => pure (a :: as))
    exact le_bind h (fun _ => le_bind (le_collectN h k) (fun _ => Le.refl _))

theorem le_ite {c : Prop} [Decidable c] {t t' e e' : M α} (ht : c → Le t t') (he : ¬ c → Le e e') :
    Le (if c then t else e) (if c then t' else e') := by
  by_cases h : c
  · rw [if_pos h, if_pos h]; exact ht h
  · rw [if_neg h, if_neg h]; exact he h

/-- pointwise order on the callback records -/
structure FLe (P P' : Fns) : Prop where
  one : ∀ d, Le (P.one d) (P'.one d)
  def_ : ∀ d, Le (P.def_ d) (P'.def_ d)
  env : ∀ d, Le (P.env d) (P'.env d)

attribute [local irreducible] readint readnat read64 u32 ubyte ubytes payload guarded peek chk get getRange adv getSt modSt
  pushLookup expect fail loopN collectN ensure refGuard

syntax "mono_step" : tactic
macro_rules
  | `(tactic| mono_step) => `(tactic| first
      | (with_reducible exact Le.refl _)
      | exact (‹FLe _ _›).one _
      | exact (‹FLe _ _›).def_ _
      | exact (‹FLe _ _›).env _
      | refine le_bind ?_ (fun _ => ?_)
      | (apply le_loopN)
      | (apply le_collectN)
      | refine le_ite (fun _ => ?_) (fun _ => ?_)
      | split)

section bodies
variable {C : Cfg} {b : Array Nat} {P P' : Fns} (h : FLe P P')
include h

theorem le_envBody (d : Nat) : Le (envBody C b P d) (envBody C b P' d) := by
  unfold envBody
  repeat' mono_step

theorem le_symEntry (d : Nat) : Le (symEntry C b P d) (symEntry C b P' d) := by
  unfold symEntry
  repeat' mono_step

theorem le_defBody (d : Nat) : Le (defBody C b P d) (defBody C b P' d) := by
  have hsym := le_symEntry (C := C) (b := b) h d
  unfold defBody optNat
  repeat' (first | exact hsym | mono_step)

theorem le_frameLoop (d frame : Nat) : ∀ (k stack : Nat) (stacktop : Int) (top : Option TopFrame),
    Le (frameLoop C b P d frame k stack stacktop top) (frameLoop C b P' d frame k stack stacktop top)
  | 0, _, _, _ => Le.refl _
  | k + 1, stack, stacktop, top => by
    have ih := le_frameLoop d frame k
    unfold frameLoop
    repeat' (first | exact ih _ _ _ | mono_step)

theorem le_fiberBody (d : Nat) : Le (fiberBody C b P d) (fiberBody C b P' d) := by
  have hfl := le_frameLoop (C := C) (b := b) h d
  unfold fiberBody
  repeat' (first | exact hfl _ _ _ _ _ | mono_step)

theorem le_functionBody (d : Nat) : Le (functionBody C b P d) (functionBody C b P' d) := by
  unfold functionBody
  repeat' mono_step

theorem le_pegBody (d : Nat) : Le (pegBody C b P d) (pegBody C b P' d) := by
  unfold pegBody
  repeat' mono_step

theorem le_chanBody (d : Nat) : Le (chanBody C b P d) (chanBody C b P' d) := by
  unfold chanBody
  repeat' mono_step

theorem le_abstractBody (d : Nat) : Le (abstractBody C b P d) (abstractBody C b P' d) := by
  have hpeg := le_pegBody (C := C) (b := b) h d
  have hchan := le_chanBody (C := C) (b := b) h d
  unfold abstractBody
  repeat' (first | exact hpeg | exact hchan | mono_step)

theorem le_containerBody (d lead : Nat) : Le (containerBody C b P d lead) (containerBody C b P' d lead) := by
  unfold containerBody
  repeat' mono_step

theorem le_oneBody (d : Nat) : Le (oneBody C b P d) (oneBody C b P' d) := by
  have hfib := le_fiberBody (C := C) (b := b) h
  have hfun := le_functionBody (C := C) (b := b) h
  have habs := le_abstractBody (C := C) (b := b) h
  have hcon := le_containerBody (C := C) (b := b) h
  unfold oneBody
  repeat' (first | exact hfib _ | exact hfun _ | exact habs _ | exact hcon _ _ | mono_step)

end bodies

theorem fns_le_succ (C : Cfg) (b : Array Nat) : ∀ f, FLe (fns C b f) (fns C b (f + 1))
  | 0 => ⟨fun _ _ => Or.inl rfl, fun _ _ => Or.inl rfl, fun _ _ => Or.inl rfl⟩
  | f + 1 => ⟨fun d => le_oneBody (fns_le_succ C b f) d, fun d => le_defBody (fns_le_succ C b f) d,
              fun d => le_envBody (fns_le_succ C b f) d⟩

theorem fns_le_add (C : Cfg) (b : Array Nat) (f : Nat) : ∀ k, FLe (fns C b f) (fns C b (f + k))
  | 0 => ⟨fun _ => Le.refl _, fun _ => Le.refl _, fun _ => Le.refl _⟩
  | k + 1 =>
    have ih := fns_le_add C b f k
    have st := fns_le_succ C b (f + k)
    ⟨fun d => (ih.one d).trans (st.one d), fun d => (ih.def_ d).trans (st.def_ d), fun d => (ih.env d).trans (st.env d)⟩

/-- **unmarshal_depth_bounded**: more fuel than `fuelBound C` never changes the result — on no input does the unmarshaller
    nest more than `fuelBound C = 2·(guard + 2) + 2` activations of `unmarshal_one` / `unmarshal_one_def` /
    `unmarshal_one_env` (at most `guard + 2` of the checked ones, by `Incs.ok`). -/
theorem unmarshal_depth_bounded_generic (C : Cfg) (hS : C.sites.ok = true) (hR : C.refsChecked = true) (hI : C.inc.ok = true)
    (b : Array Nat) (fuel : Nat) (hf : fuelBound C ≤ fuel) : unmarshal C b fuel = unmarshal C b (fuelBound C) := by
  have hle := (fns_le_add C b (fuelBound C) (fuel - fuelBound C)).one 0 { pos := 0, st := {} }
  have hfu : fuelBound C + (fuel - fuelBound C) = fuel := by omega
  rw [hfu] at hle
  unfold unmarshal
  rcases hle with h | h
  · exact absurd h ((unmarshal_terminates_generic C hS hR hI b (fuelBound C) (Nat.le_refl _) 0).1)
  · exact h.symm

end JanetModel.Unmarsh.Bytes
