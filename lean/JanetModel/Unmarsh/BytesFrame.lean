/- C10: proof framework for the byte-level unmarshal model (Unmarsh/Bytes.lean): a Hoare-style judgement `SatAt` on the
   reader monad — "started at a position ≥ p with r bytes of room, the action never answers `oob`, (if `af = false`) never
   runs out of fuel, and on success leaves the position in [start + d, length]" — closed under bind, loops, branching. -/
import JanetModel.Unmarsh.Bytes
namespace JanetModel.Unmarsh.Bytes

/-- postcondition of one run -/
def Post {α : Type} (n : Nat) (af : Bool) (lo : Nat) : Res α → Prop
  | .ok _ c => lo ≤ c.pos ∧ c.pos ≤ n
  | .err _ => True
  | .oob _ => False
  | .fuel => af = true

theorem Post.mono {α : Type} {n : Nat} {af : Bool} {lo lo' : Nat} {r : Res α} (h : Post n af lo r) (hl : lo' ≤ lo) :
    Post n af lo' r := by
  cases r with
  | ok a c => exact ⟨Nat.le_trans hl h.1, h.2⟩
  | err e => trivial
  | oob s => exact h
  | fuel => exact h

/-- `n` = length of the input, `af` = "running out of fuel is acceptable", `p` = known lower bound of the position,
    `r` = bytes known to remain, `d` = bytes the action consumes at least -/
structure SatAt {α : Type} (n : Nat) (af : Bool) (p r d : Nat) (m : M α) : Prop where
  run : ∀ c : Cur, p ≤ c.pos → c.pos + r ≤ n → Post n af (c.pos + d) (m c)

variable {α β : Type} {n : Nat} {af : Bool} {p r d : Nat}

theorem sat_weaken {m : M α} {p' r' d' : Nat} (h : SatAt n af p r d m) (hp : p ≤ p') (hr : r ≤ r') (hd : d' ≤ d) :
    SatAt n af p' r' d' m :=
  ⟨fun c hc hn => (h.run c (Nat.le_trans hp hc) (by omega)).mono (by omega)⟩

theorem sat_pure {a : α} : SatAt n af p r 0 (pure a : M α) :=
  ⟨fun c _ hn => show Post n af (c.pos + 0) (Res.ok a c) from ⟨by omega, by omega⟩⟩

theorem sat_fail {e : Err} : SatAt n af p r d (fail e : M α) := ⟨fun _ _ _ => trivial⟩

theorem sat_getSt : SatAt n af p r 0 getSt :=
  ⟨fun c _ hn => show Post n af (c.pos + 0) (Res.ok c.st c) from ⟨by omega, by omega⟩⟩

theorem sat_modSt {f : St → St} : SatAt n af p r 0 (modSt f) :=
  ⟨fun c _ hn => show Post n af (c.pos + 0) (Res.ok () { c with st := f c.st }) from ⟨by simp, by simp; omega⟩⟩

theorem sat_pushLookup {v : V} : SatAt n af p r 0 (pushLookup v) := sat_modSt

theorem sat_expect {ok : Bool} {e : Err} : SatAt n af p r 0 (expect ok e) := by
  unfold expect; split
  · exact sat_pure
  · exact sat_fail

theorem sat_ite {c : Prop} [Decidable c] {t e : M α} (ht : c → SatAt n af p r d t) (he : ¬ c → SatAt n af p r d e) :
    SatAt n af p r d (if c then t else e) := by
  by_cases h : c
  · rw [if_pos h]; exact ht h
  · rw [if_neg h]; exact he h

theorem sat_refGuard {checked inRange : Bool} {e : Err} {site : Nat} (h : checked = true) :
    SatAt n af p r 0 (refGuard checked inRange e site) := by
  unfold refGuard
  by_cases hi : inRange = true
  · rw [if_pos hi]; exact sat_pure
  · rw [if_neg hi, if_pos h]; exact sat_fail

theorem sat_outOfFuel (h : af = true) : SatAt n af p r d (outOfFuel : M α) := ⟨fun _ _ _ => h⟩

/-- `adv 1` needs one byte of room -/
theorem sat_adv1 : SatAt n af p (r + 1) 1 (adv 1) :=
  ⟨fun c _ hn => show Post n af (c.pos + 1) (Res.ok () { c with pos := c.pos + 1 }) from ⟨by simp, by simp; omega⟩⟩

theorem bind_run {m : M α} {f : α → M β} (c : Cur) :
    (m >>= f) c = match m c with
      | .ok a c' => f a c' | .err e => .err e | .oob s => .oob s | .fuel => .fuel := rfl

/-- general sequencing rule: the continuation starts `d1` further, with no room known -/
theorem sat_bind_gen {m : M α} {f : α → M β} {d1 d2 : Nat} (hm : SatAt n af p r d1 m)
    (hf : ∀ a, SatAt n af (p + d1) 0 d2 (f a)) : SatAt n af p r (d1 + d2) (m >>= f) := by
  refine ⟨fun c hp hn => ?_⟩
  have h1 := hm.run c hp hn
  rw [bind_run]
  cases hmc : m c with
  | ok a c' =>
    rw [hmc] at h1
    have h2 := (hf a).run c' (by have := h1.1; omega) (by have := h1.2; omega)
    exact h2.mono (by have := h1.1; omega)
  | err e => trivial
  | oob s => rw [hmc] at h1; exact h1
  | fuel => rw [hmc] at h1; exact h1

/-- first action consumes nothing for sure, the continuation provides the progress -/
theorem sat_bind0 {m : M α} {f : α → M β} (hm : SatAt n af p r 0 m) (hf : ∀ a, SatAt n af p 0 d (f a)) :
    SatAt n af p r d (m >>= f) := by
  have := sat_bind_gen hm (d2 := d) (fun a => by simpa using hf a)
  simpa using this

/-- first action consumes a byte -/
theorem sat_bind1 {m : M α} {f : α → M β} (hm : SatAt n af p r 1 m) (hf : ∀ a, SatAt n af (p + 1) 0 0 (f a)) :
    SatAt n af p r 1 (m >>= f) := by
  have := sat_bind_gen hm (d2 := 0) hf
  simpa using this

/-- first action consumes a byte, only the lower bound of the position is wanted -/
theorem sat_bind1' {m : M α} {f : α → M β} (hm : SatAt n af p r 1 m) (hf : ∀ a, SatAt n af (p + 1) 0 0 (f a)) :
    SatAt n af p r 0 (m >>= f) := sat_weaken (sat_bind1 hm hf) (Nat.le_refl _) (Nat.le_refl _) (by omega)

theorem sat_loopN0 {f : M Unit} (hf : ∀ p', p ≤ p' → SatAt n af p' 0 0 f) : ∀ k, SatAt n af p 0 0 (loopN k f)
  | 0 => sat_pure
  | k + 1 => by
    unfold loopN
    exact sat_bind0 (hf p (Nat.le_refl _)) (fun _ => sat_loopN0 hf k)

theorem sat_loopN {f : M Unit} (hf : ∀ p', p ≤ p' → SatAt n af p' 0 0 f) (k : Nat) : SatAt n af p r 0 (loopN k f) :=
  sat_weaken (sat_loopN0 hf k) (Nat.le_refl _) (by omega) (Nat.le_refl _)

theorem sat_collectN0 {f : M α} (hf : ∀ p', p ≤ p' → SatAt n af p' 0 0 f) : ∀ k, SatAt n af p 0 0 (collectN k f)
  | 0 => sat_pure
  | k + 1 => by
    unfold collectN
    exact sat_bind0 (hf p (Nat.le_refl _)) (fun _ => sat_bind0 (sat_collectN0 hf k) (fun _ => sat_pure))

theorem sat_collectN {f : M α} (hf : ∀ p', p ≤ p' → SatAt n af p' 0 0 f) (k : Nat) : SatAt n af p r 0 (collectN k f) :=
  sat_weaken (sat_collectN0 hf k) (Nat.le_refl _) (by omega) (Nat.le_refl _)

/-! ### the guarded accessors -/

variable {b : Array Nat}

theorem okFor_guard {s : Site} {mx : Int} (h : s.okFor mx = true) : ∃ g, s.guard = some g ∧ mx ≤ g := by
  unfold Site.okFor at h
  cases hg : s.guard with
  | none => rw [hg] at h; simp at h
  | some g => rw [hg] at h; simp at h; exact ⟨g, rfl, h.1⟩

/-- after a passed check with offset `v + g`, the continuation may assume `pos + v + g < length` -/
theorem sat_chk_then {s : Site} {g : Int} (hg : s.guard = some g) (v : Nat) {f : Unit → M α}
    (hf : ∀ c : Cur, p ≤ c.pos → c.pos + r ≤ b.size → (c.pos : Int) + (v : Int) + g < (b.size : Int) →
      Post b.size af (c.pos + d) (f () c)) :
    SatAt b.size af p r d (chk b s v >>= f) := by
  refine ⟨fun c hp hn => ?_⟩
  rw [bind_run]
  unfold chk
  rw [hg]
  by_cases hlt : (b.size : Int) ≤ (c.pos : Int) + (v : Int) + g
  · simp [hlt]; trivial
  · simp [hlt]; exact hf c hp hn (by omega)

/-- a check alone -/
theorem sat_chk {s : Site} (v : Nat) : SatAt b.size af p r 0 (chk b s v) := by
  refine ⟨fun c _ hn => ?_⟩
  unfold chk
  cases s.guard with
  | none => exact ⟨by omega, by omega⟩
  | some g =>
    by_cases hlt : (b.size : Int) ≤ (c.pos : Int) + (v : Int) + g
    · simp [hlt]; trivial
    · simp [hlt]; exact ⟨by omega, by omega⟩

theorem get_ok {site off : Nat} {c : Cur} (h : c.pos + off < b.size) : get b site off c = .ok b[c.pos + off] c := by
  unfold get
  simp [h]

theorem getRange_ok {site : Nat} : ∀ (k start : Nat) (c : Cur), c.pos + start + k ≤ b.size →
    ∃ bs, getRange b site start k c = .ok bs c
  | 0, _, c, _ => ⟨[], rfl⟩
  | k + 1, start, c, h => by
    obtain ⟨bs, hbs⟩ := getRange_ok (site := site) k (start + 1) c (by omega)
    refine ⟨b[c.pos + start] :: bs, ?_⟩
    unfold getRange
    rw [bind_run, get_ok (by omega)]
    simp only []
    rw [bind_run, hbs]
    rfl

end JanetModel.Unmarsh.Bytes
