/- C10: NaN-boxed values (janet.h, JANET_NANBOX_64) and the re-boxing of unmarshalled reals (`janet_wrap_number_safe`, wrap.c;
   `case LB_REAL` of `unmarshal_one`, marsh.c) at the level of the 64-bit pattern.  A `Janet` is a double; every non-number
   lives in the payload of a NaN whose top 17 bits are `(type | 0x1FFF0)`; `janet_type`, `janet_checktype` and
   `janet_nanbox_to_pointer` are mirrored below with the constants REGENERATED into `Gen/NanBox.lean`.
   `& JANET_NANBOX_TAGBITS` is read arithmetically as "the bits from `tagShift` upwards" and `type | lowtagOr` as
   `lowtagOr + type` — tools/gen/nanbox.py asserts that the masks have exactly that shape.  Core Lean only. -/
namespace JanetModel.Unmarsh.NanBox

structure NB where
  tagShift : Nat      -- 47
  typeMod : Nat       -- 0xF + 1
  lowtagOr : Nat      -- 0x1FFF0
  numberTag : Nat     -- enum value of JANET_NUMBER
  nanBits : Nat       -- bit pattern of the C constant NAN of the build
  safe : Bool         -- LB_REAL wraps with janet_wrap_number_safe, whose body is `isnan(d) ? NAN : d`
  deriving Repr, Inhabited

/-- `isnan` of the binary64 with bit pattern `w`: exponent all ones, mantissa non-zero -/
def isNan (w : Nat) : Bool := decide (w / 4503599627370496 % 2048 = 2047) && decide (w % 4503599627370496 ≠ 0)

/-- `janet_type(x)` -/
def janetType (N : NB) (w : Nat) : Nat := if isNan w then w / 2 ^ N.tagShift % N.typeMod else N.numberTag

/-- `janet_nanbox_checkauxtype(x, t)`: `(x.u64 & TAGBITS) == ((t | lowtagOr) << tagShift)` -/
def checkAux (N : NB) (w t : Nat) : Bool := decide (w / 2 ^ N.tagShift = N.lowtagOr + t)

/-- `janet_nanbox_isnumber(x)` -/
def isNumber (N : NB) (w : Nat) : Bool := !isNan w || decide (w / 2 ^ N.tagShift % N.typeMod = N.numberTag)

/-- `janet_checktype(x, t)` -/
def checktype (N : NB) (w t : Nat) : Bool := if t = N.numberTag then isNumber N w else checkAux N w t

/-- `janet_nanbox_to_pointer(x)`: `x.i64 & PAYLOADBITS` -/
def toPointer (N : NB) (w : Nat) : Nat := w % 2 ^ N.tagShift

/-- `janet_wrap_number_safe(d)`: `ret.number = isnan(d) ? NAN : d` -/
def wrapNumberSafe (N : NB) (w : Nat) : Nat := if isNan w then N.nanBits else w

/-- `case LB_REAL` of `unmarshal_one`: the 8 payload bytes, read as a double, wrapped -/
def unmarshalReal (N : NB) (w : Nat) : Nat := if N.safe then wrapNumberSafe N w else w

/-- the layout the theorems are proved for + what they need of the re-boxing -/
def NB.ok (N : NB) : Bool :=
  N.tagShift == 47 && N.typeMod == 16 && N.lowtagOr == 131056 && decide (N.numberTag < 16) && N.safe &&
  decide (N.nanBits < 18446744073709551616) && (janetType N N.nanBits == N.numberTag) && decide (N.nanBits / 140737488355328 < 131056)

/-- bit mask of the types `t < 16` for which `janet_checktype(x, t)` holds -/
def typeMask (N : NB) (w : Nat) : Nat := (List.range 16).foldl (fun acc t => if checktype N w t then acc + 2 ^ t else acc) 0

end JanetModel.Unmarsh.NanBox
