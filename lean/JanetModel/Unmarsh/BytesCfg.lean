/- C10: the byte-level unmarshal model instantiated with everything regenerated from the CURRENT source: read sites
   (Gen/UnmarshSites), the janet_verify model over Gen/VmAccess, the PEG verifier model over Gen/PegAccess.  Core Lean only
   (linked into the driver). -/
import JanetModel.Unmarsh.Bytes
import JanetModel.Gen.UnmarshSites
import JanetModel.Gen.VmAccess
import JanetModel.Gen.PegAccess
import JanetModel.Gen.ImageChecks
import JanetModel.Bytecode.VerifyDefs
import JanetModel.PegVerify.Defs
namespace JanetModel.Unmarsh.Bytes

/-- `janet_verify(def) == 0`: the header tests and the symbol-map loop around the instruction loop of `Bytecode.verify` -/
def verifyFull (T : JanetModel.Bytecode.Tables) (r : DefRec) : Bool :=
  decide (r.slotcount ≤ 16777216) && decide (r.arity ≤ r.slotcount) && decide (r.minArity ≤ r.maxArity) &&
  (JanetModel.Bytecode.verify T { slotcount := r.slotcount, arity := r.arity, vararg := r.flags / 65536 % 2 == 1,
                                  nconsts := r.nconsts, ndefs := r.ndefs, nenvs := r.nenvs, bytecode := r.bytecode } == 0) &&
  r.symmap.all (fun e =>
    if e.1 = 4294967295 then decide (e.2.1 < r.nenvs)
    else decide (e.2.2 < r.slotcount) && decide (e.1 ≤ e.2.1) && decide (e.2.1 ≤ r.bytecode.length))

/-- the configuration of the current source -/
def cfg : Cfg :=
  { sites := JanetModel.Gen.UnmarshSites.sites
    inc := JanetModel.Gen.UnmarshSites.incs
    verify := verifyFull JanetModel.Gen.VmAccess.tables
    pegVerify := JanetModel.PegVerify.pegVerify JanetModel.Gen.PegAccess.tables
    pegSizeChecked := JanetModel.Gen.UnmarshSites.pegSizeChecked
    abstracts := JanetModel.Gen.UnmarshSites.abstracts
    jopCall := JanetModel.Gen.UnmarshSites.jopCall
    threads := JanetModel.Gen.UnmarshSites.threads
    refChecked := JanetModel.Gen.UnmarshSites.refChecked
    envRefChecked := JanetModel.Gen.UnmarshSites.envRefChecked
    defRefChecked := JanetModel.Gen.UnmarshSites.defRefChecked
    fnEnvCountChecked := JanetModel.Gen.ImageChecks.checks.fnEnvCount
    defEnvIndexChecked := JanetModel.Gen.ImageChecks.checks.defEnvIndex }

end JanetModel.Unmarsh.Bytes
