import JanetModel.Lib.Boot6
/- C17 (session 4): mirrors of boot.janet `reverse!` (in-place two-index swap loop) and `merge` / `merge-into`
   (`loop [c :in colls key :keys c]` over association lists).  Core Lean only. -/
namespace JanetModel.Lib.Boot
open JanetModel.Lib JanetModel.Lib.JIter

/-- `(in t i)` on an array with a numeric index: raises outside `[0, count)` -/
def inInt {α : Type} (t : Array α) (i : Int) : R α :=
  if i < 0 then .panic else
  match t[i.toNat]? with
  | some x => .ok x
  | none => .panic

/-- `reverse!`:
      `(var i 0) (var j (length t))
       (while (< i (-- j)) (def ti (in t i)) (put t i (in t j)) (put t j ti) (++ i))
       t`
    `(put t k v)` on an array with `k ≥ count` would extend it with nils, a negative `k` raises: both modelled as `.ub` by
    `setIdx` and shown unreachable.  Fuel `count + 1`; exhaustion = `.ub`. -/
def reverseBangLoop {α : Type} : Nat → Array α → Int → Int → R (Array α)
  | 0, _, _, _ => .ub
  | fuel + 1, t, i, j =>
    let j := j - 1                                       -- (-- j)
    if i < j then do                                     -- (< i (-- j))
      let ti ← inInt t i                                 -- (def ti (in t i))
      let tj ← inInt t j
      let t ← setIdx t i tj                              -- (put t i (in t j))
      let t ← setIdx t j ti                              -- (put t j ti)
      reverseBangLoop fuel t (i + 1) j                   -- (++ i)
    else .ok t

def reverseBang {α : Type} (t : List α) : R (List α) := do
  let r ← reverseBangLoop (t.length + 1) t.toArray 0 (t.length : Int)
  pure r.toList

/-- `(loop [c :in colls key :keys c] (put container key (in c key)))`: the outer `:in` is the each-loop over the argument
    tuple, the inner `:keys` walks the keys of one collection (in the order of its association list — the real table's
    iteration order is its bucket order; the result, a table, does not depend on it when the keys of `c` are distinct),
    `(in c key)` looks the key up again -/
def mergeKeyStep {α β : Type} [BEq α] (c : List (α × β)) (key : α) (tab : List (α × β)) : R (List (α × β) × Bool) :=
  match assocGet c key with                              -- (in c key): the key comes from `c`, so it is present
  | some v => .ok (assocPut tab key v, false)            -- (put container key (in c key))
  | none => .panic

def mergeCollStep {α β : Type} [BEq α] (c : List (α × β)) (tab : List (α × β)) : R (List (α × β) × Bool) := do
  let tab ← each (c.map (·.1)) (fun _ key tab => mergeKeyStep c key tab) tab
  pure (tab, false)

def mergeInto {α β : Type} [BEq α] (tab : List (α × β)) (colls : List (List (α × β))) : R (List (α × β)) :=
  each colls (fun _ c tab => mergeCollStep c tab) tab

/-- `(defn merge [& colls] (def container @{}) (loop …) container)` -/
def merge {α β : Type} [BEq α] (colls : List (List (α × β))) : R (List (α × β)) := mergeInto [] colls

end JanetModel.Lib.Boot
