/- C17: mirror of string.c `kmp_init` / `kmp_next` / `kmp_seti` and of the loops that use them
   (find, find-all, replace-all, split).  Core Lean only.  Arrays are `Array Nat`, C's `while` loops are
   fuelled recursions whose fuel is shown sufficient in Lib/KmpProofs.lean. -/
import JanetModel.Lib.Spec
namespace JanetModel.Lib.Kmp
open JanetModel.Lib

/-- inner `while (j && pat[j] != pat[i]) j = lookup[j - 1];` of kmp_init. -/
def initInner (pat : Array Nat) (lookup : Array Nat) (c : Nat) : Nat → Nat → Nat
  | 0, j => j
  | fuel + 1, j => if j ≠ 0 ∧ pat.getD j 0 ≠ c then initInner pat lookup c fuel (lookup.getD (j - 1) 0) else j

/-- `for (i = 1, j = 0; i < patlen; i++) { …; if (pat[j] == pat[i]) j++; lookup[i] = j; }` -/
def initLoop (pat : Array Nat) : Nat → Nat → Nat → Array Nat → Array Nat
  | 0, _, _, lookup => lookup
  | fuel + 1, i, j, lookup =>
    if i < pat.size then
      let c := pat.getD i 0
      let j1 := initInner pat lookup c (j + 1) j
      let j2 := if pat.getD j1 0 = c then j1 + 1 else j1
      initLoop pat fuel (i + 1) j2 (lookup.setIfInBounds i j2)
    else lookup

/-- `kmp_init`: the failure table (`calloc`ed, so entry 0 is 0). -/
def lookupTable (pat : Array Nat) : Array Nat :=
  initLoop pat pat.size 1 0 (Array.replicate pat.size 0)

structure State where
  i : Nat
  j : Nat
  deriving Repr, DecidableEq

/-- `kmp_next`: returns the match position (or none for -1) and the updated `(i, j)`. -/
def next (text pat lookup : Array Nat) : Nat → State → Option Nat × State
  | 0, s => (none, s)
  | fuel + 1, s =>
    if s.i < text.size then
      if text.getD s.i 0 = pat.getD s.j 0 then
        if s.j = pat.size - 1 then
          (some (s.i - s.j), { i := s.i + 1, j := lookup.getD s.j 0 })
        else next text pat lookup fuel { i := s.i + 1, j := s.j + 1 }
      else if s.j > 0 then next text pat lookup fuel { i := s.i, j := lookup.getD (s.j - 1) 0 }
      else next text pat lookup fuel { i := s.i + 1, j := 0 }
    else (none, s)

/-- enough fuel for one `kmp_next` call: every step increases `2*i - j`. -/
def nextFuel (text : Array Nat) (s : State) : Nat := 2 * (text.size + 1) + s.j + 2

def kmpNext (text pat lookup : Array Nat) (s : State) : Option Nat × State :=
  next text pat lookup (nextFuel text s) s

/-- `string/find` via KMP (pattern non-empty). -/
def find (pat text : Bytes) (start : Nat) : Option Nat :=
  let p := pat.toArray
  (kmpNext text.toArray p (lookupTable p) { i := start, j := 0 }).1

/-- `string/find-all` loop. -/
def findAllLoop (text pat lookup : Array Nat) : Nat → State → List Nat
  | 0, _ => []
  | fuel + 1, s =>
    match kmpNext text pat lookup s with
    | (none, _) => []
    | (some r, s') => r :: findAllLoop text pat lookup fuel s'

def findAll (pat text : Bytes) (start : Nat) : List Nat :=
  let p := pat.toArray
  findAllLoop text.toArray p (lookupTable p) (text.length + 1) { i := start, j := 0 }

/-- `string/replace-all` loop (kmp_seti after each match). -/
def replaceAllLoop (text pat lookup : Array Nat) (txt subst : Bytes) : Nat → Nat → State → Bytes
  | 0, last, _ => txt.drop last
  | fuel + 1, last, s =>
    match kmpNext text pat lookup s with
    | (none, _) => txt.drop last
    | (some r, _) => (txt.drop last).take (r - last) ++ subst
        ++ replaceAllLoop text pat lookup txt subst fuel (r + pat.size) { i := r + pat.size, j := 0 }

def replaceAll (pat subst text : Bytes) (start : Nat) : Bytes :=
  let p := pat.toArray
  replaceAllLoop text.toArray p (lookupTable p) text subst (text.length + 1) 0 { i := start, j := 0 }

/-- `string/split` loop. -/
def splitLoop (text pat lookup : Array Nat) (txt : Bytes) : Nat → Nat → State → Int → List Bytes
  | 0, last, _, _ => [txt.drop last]
  | fuel + 1, last, s, limit =>
    match kmpNext text pat lookup s with
    | (none, _) => [txt.drop last]
    | (some r, _) =>
      if limit - 1 = 0 then [txt.drop last]
      else (txt.drop last).take (r - last)
        :: splitLoop text pat lookup txt fuel (r + pat.size) { i := r + pat.size, j := 0 } (limit - 1)

def split (pat text : Bytes) (start : Nat) (limit : Int) : List Bytes :=
  let p := pat.toArray
  splitLoop text.toArray p (lookupTable p) text (text.length + 1) 0 { i := start, j := 0 } limit

end JanetModel.Lib.Kmp
