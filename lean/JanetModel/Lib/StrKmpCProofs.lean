import JanetModel.Lib.StrCProofs
import JanetModel.Lib.KmpProofs
/- C17: the cfuns of string.c that drive the KMP machine (`findsetup`, `string/find`, `string/find-all`, `string/split`)
   and `string/join`, as mirrored in Lib/StrC.lean, compute the reference definitions for all inputs. -/
namespace JanetModel.Lib.StrC
open JanetModel.Lib JanetModel.Lib.CLoop

/-- the decoded `start` argument: absent = 0; negative = the call raises -/
def startNat : Option Int → Option Nat
  | none => some 0
  | some x => if x < 0 then none else some x.toNat

theorem findsetup_spec (pat text : Bytes) (start : Option Int) :
    findsetup pat text start =
      match startNat start with
      | none => .panic
      | some st => if pat = [] then .panic else
          .ok { text := text.toArray, pat := pat.toArray, lookup := Kmp.lookupTable pat.toArray, st := { i := st, j := 0 } } := by
  unfold findsetup startNat kmpInit
  cases start with
  | none =>
    cases pat with
    | nil => rfl
    | cons x xs => simp
  | some x =>
    by_cases hx : x < 0
    · simp [hx]
    · cases pat with
      | nil => simp [hx]
      | cons y ys => simp [hx]

/-- ★ `string/find patt str &opt start`: error for an empty pattern or a negative start, else the least occurrence at an
    index `≥ start` (nil when none — also when `start` is beyond the end of the text) -/
theorem find_eq_spec (pat text : Bytes) (start : Option Int) :
    StrC.find pat text start =
      match startNat start with
      | none => .panic
      | some st => R.ofOption (Lib.find pat text st) := by
  unfold StrC.find
  rw [findsetup_spec]
  cases hs : startNat start with
  | none => rfl
  | some st =>
    simp only [Lib.find]
    by_cases hp : pat = []
    · simp [hp]
    · simp only [hp, if_false, R.ok_bind, R.pure_eq, R.ofOption_some]
      congr 1
      exact Kmp.kmpNext_fresh pat text st hp

theorem findAllLoop_spec (pat text : Bytes) (hp : pat ≠ []) (s0 : Kmp.State) (fuel start : Nat) (st : Kmp.State) (arr : Array Nat)
    (hinv : Kmp.NInv pat.toArray text.toArray start st.i st.j) (hf : text.length + 1 - start ≤ fuel) :
    findAllLoop { text := text.toArray, pat := pat.toArray, lookup := Kmp.lookupTable pat.toArray, st := s0 } fuel st arr
      = .ok (arr.toList ++ Lib.findAll pat text start).toArray := by
  have hn : 0 < pat.toArray.size := by
    cases pat with
    | nil => exact absurd rfl hp
    | cons x xs => simp
  induction fuel generalizing start st arr with
  | zero =>
    have h1 := hinv.sj
    have h2 := hinv.ile
    simp only [List.size_toArray] at h2
    omega
  | succ n ih =>
    unfold findAllLoop StrC.next
    obtain ⟨h1, h2⟩ := Kmp.kmpNext_spec pat text hp start st hinv
    rw [Kmp.findAll_unfold]
    simp only
    cases hk : Kmp.kmpNext text.toArray pat.toArray (Kmp.lookupTable pat.toArray) st with
    | mk res s' =>
      rw [hk] at h1 h2
      simp only at h1 h2
      rw [← h1]
      cases res with
      | none => simp
      | some r =>
        simp only
        have hs' := h2 r rfl
        subst hs'
        obtain ⟨g1, g2, _⟩ := findFrom_some h1.symm
        have hm := (Kmp.matchAt_iff_MatchA pat text r).1 g2
        obtain ⟨_, hT⟩ := Kmp.lookupTable_spec pat.toArray hn
        have hinv' := Kmp.ninv_after_match pat.toArray text.toArray _ r hn (hT pat.toArray.size (by omega) (Nat.le_refl _)) hm
        rw [ih (r + 1) _ _ hinv' (by omega)]
        simp

/-- ★ `string/find-all`: every (overlapping) occurrence at an index `≥ start`, ascending; the `while` loop terminates
    within `textlen + 2` calls of `kmp_next` -/
theorem findAll_eq_spec (pat text : Bytes) (start : Option Int) :
    StrC.findAll pat text start =
      match startNat start with
      | none => .panic
      | some st => if pat = [] then .panic else .ok (Lib.findAll pat text st) := by
  unfold StrC.findAll
  rw [findsetup_spec]
  cases hs : startNat start with
  | none => rfl
  | some st =>
    by_cases hp : pat = []
    · simp [hp]
    · simp only [hp, if_false, R.ok_bind, R.pure_eq]
      by_cases hle : st ≤ text.length
      · rw [findAllLoop_spec pat text hp _ (text.length + 2) st _ _ (Kmp.ninv_init pat text hp st hle) (by omega)]
        simp
      · unfold findAllLoop StrC.next
        have h := Kmp.kmpNext_past_end pat text { i := st, j := 0 } (by simp only; omega)
        simp only
        cases hk : Kmp.kmpNext text.toArray pat.toArray (Kmp.lookupTable pat.toArray) { i := st, j := 0 } with
        | mk res s' =>
          rw [hk] at h
          simp only at h
          subst h
          simp only [R.ok_bind, R.pure_eq]
          unfold Lib.findAll
          have : text.length + 1 - st = 0 := by omega
          rw [this]; rfl

example : StrC.findAll [97, 97] [97, 97, 97, 97] (some 1) = .ok [1, 2] ∧ StrC.findAll [] [97] none = .panic
    ∧ StrC.find [98] [97, 98] (some (-1)) = .panic ∧ StrC.find [98] [97, 98] (some 7) = .ok none := by decide

/-! ### split -/

theorem splitAux_neg (pat text : Bytes) (fuel last st : Nat) (l1 l2 : Int) (h1 : l1 < 0) (h2 : l2 < 0) :
    splitAux pat text fuel last st l1 = splitAux pat text fuel last st l2 := by
  induction fuel generalizing last st l1 l2 with
  | zero => rfl
  | succ n ih =>
    unfold splitAux
    cases hf : findFrom pat text st with
    | none => rfl
    | some r =>
      have e1 : ¬ (l1 - 1 = 0) := by omega
      have e2 : ¬ (l2 - 1 = 0) := by omega
      simp only [e1, e2, if_false]
      rw [ih _ _ (l1 - 1) (l2 - 1) (by omega) (by omega)]

theorem findFrom_past_end (pat text : Bytes) (st : Nat) (h : text.length < st) : findFrom pat text st = none := by
  unfold findFrom
  have : text.length + 1 - st = 0 := by omega
  rw [this]; rfl

theorem matchAt_le {pat text : Bytes} {r : Nat} (h : matchAt pat text r = true) : r + pat.length ≤ text.length := by
  unfold matchAt at h
  simp only [Bool.and_eq_true, decide_eq_true_eq] at h
  exact h.1

theorem splitLoop_spec (pat text : Bytes) (hp : pat ≠ []) (s0 : Kmp.State) :
    ∀ (fuel last st : Nat) (limit : Int) (arr : Array Bytes),
      text.length + 1 - st ≤ fuel → 1 ≤ fuel → last ≤ st → last ≤ text.length → in32 limit = true →
      ∃ arr' li, splitLoop { text := text.toArray, pat := pat.toArray, lookup := Kmp.lookupTable pat.toArray, st := s0 }
            text fuel (last : Int) { i := st, j := 0 } limit arr = .ok (arr', ((li : Nat) : Int)) ∧ li ≤ text.length ∧
        arr'.toList ++ [text.drop li] = arr.toList ++ splitAux pat text fuel last st limit := by
  intro fuel
  induction fuel with
  | zero => intro last st limit arr _ h; omega
  | succ n ih =>
    intro last st limit arr hfuel _ hls hll h32
    unfold splitLoop StrC.next splitAux
    have h := Kmp.kmpNext_fresh pat text st hp
    simp only
    cases hk : Kmp.kmpNext text.toArray pat.toArray (Kmp.lookupTable pat.toArray) { i := st, j := 0 } with
    | mk res s' =>
      rw [hk] at h
      simp only at h
      subst h
      cases hf : findFrom pat text st with
      | none => exact ⟨arr, last, by simp [hf], hll, by simp [hf]⟩
      | some r =>
        obtain ⟨g1, g2, _⟩ := findFrom_some hf
        have g3 := matchAt_le g2
        have hpl : 0 < pat.length := by
          cases pat with
          | nil => exact absurd rfl hp
          | cons x xs => simp
        simp only [hf, R.ok_bind, R.pure_eq]
        have hsl : stringv text (last : Int) ((r : Int) - (last : Int)) = .ok ((text.drop last).take (r - last)) := by
          have e : (r : Int) - (last : Int) = ((r - last : Nat) : Int) := by omega
          rw [e]; exact stringv_spec text last (r - last) (by omega)
        have hli : (r : Int) + ((pat.toArray.size : Nat) : Int) = ((r + pat.length : Nat) : Int) := by simp
        by_cases hneg : limit < 0
        · -- `limit < 0 ||` short-circuits: no decrement
          have e1 : ¬ (limit - 1 = 0) := by omega
          simp only [hneg, if_true, e1, if_false, R.ok_bind, R.pure_eq, hsl, hli, Int.toNat_natCast]
          obtain ⟨arr', li, h1, h2, h3⟩ := ih (r + pat.length) (r + pat.length) limit (arr.push ((text.drop last).take (r - last)))
            (by omega) (by omega) (Nat.le_refl _) g3 h32
          refine ⟨arr', li, h1, h2, ?_⟩
          rw [h3, splitAux_neg pat text n _ _ limit (limit - 1) hneg (by omega)]
          simp
        · have h32' : in32 (limit - 1) = true := by
            unfold in32 int32Min int32Max at h32 ⊢
            simp only [decide_eq_true_eq] at h32 ⊢
            omega
          simp only [hneg, if_false, sub32, h32', if_true, R.ok_bind, R.pure_eq]
          by_cases hz : limit - 1 = 0
          · simp only [hz, ne_eq, not_true_eq_false, decide_false, Bool.false_eq_true, if_false, if_true]
            exact ⟨arr, last, rfl, hll, by simp⟩
          · simp only [hz, ne_eq, not_false_eq_true, decide_true, if_true, if_false, hsl, hli, R.ok_bind, Int.toNat_natCast]
            obtain ⟨arr', li, h1, h2, h3⟩ := ih (r + pat.length) (r + pat.length) (limit - 1) (arr.push ((text.drop last).take (r - last)))
              (by omega) (by omega) (Nat.le_refl _) g3 h32'
            refine ⟨arr', li, h1, h2, ?_⟩
            rw [h3]
            simp

/-- ★ `string/split delim str &opt start limit` for EVERY int32 limit (also `-2147483648`, whose unguarded `--limit` was a
    signed-overflow defect): error for an empty delimiter / negative start; otherwise the pieces of the reference
    definition; never UB; the loop terminates within `textlen + 2` calls of `kmp_next`. -/
theorem split_eq_spec (pat text : Bytes) (start limit : Option Int) (h32 : in32 (limit.getD (-1)) = true) :
    StrC.split pat text start limit =
      match startNat start with
      | none => .panic
      | some st => R.ofOption (Lib.split pat text st (limit.getD (-1))) := by
  unfold StrC.split
  rw [findsetup_spec]
  cases hs : startNat start with
  | none => rfl
  | some st =>
    simp only [Lib.split]
    by_cases hp : pat = []
    · simp [hp]
    · simp only [hp, if_false, R.ok_bind, R.ofOption_some]
      by_cases hle : st ≤ text.length
      · obtain ⟨arr', li, h1, h2, h3⟩ := splitLoop_spec pat text hp { i := st, j := 0 } (text.length + 1) 0 st (limit.getD (-1)) #[]
          (by omega) (by omega) (Nat.zero_le _) (Nat.zero_le _) h32
        simp only [Int.natCast_zero] at h1
        rw [h1]
        simp only [R.ok_bind, R.pure_eq]
        have e : (text.length : Int) - (li : Int) = ((text.length - li : Nat) : Int) := by omega
        rw [e, stringv_spec text li _ (by omega)]
        simp only [R.ok_bind, Array.toList_push]
        have : (text.drop li).take (text.length - li) = text.drop li := by
          apply List.take_of_length_le; simp
        rw [this, h3]
        simp
      · -- start beyond the end: the first kmp_next fails, one piece
        unfold splitLoop StrC.next
        have h := Kmp.kmpNext_past_end pat text { i := st, j := 0 } (by simp only; omega)
        simp only
        cases hk : Kmp.kmpNext text.toArray pat.toArray (Kmp.lookupTable pat.toArray) { i := st, j := 0 } with
        | mk res s' =>
          rw [hk] at h
          simp only at h
          subst h
          simp only [R.ok_bind, R.pure_eq]
          have := stringv_spec text 0 text.length (by omega)
          simp only [Int.natCast_zero, List.drop_zero, List.take_length] at this
          simp only [Int.sub_zero]
          rw [this]
          simp only [R.ok_bind, splitAux, findFrom_past_end pat text st (by omega)]
          simp

example : StrC.split [44] [44, 44, 97, 44, 44] (some 0) (some 3) = .ok [[], [], [97, 44, 44]]
    ∧ StrC.split [97] [97, 97] (some 0) (some (-2147483648)) = .ok [[], [], []]
    ∧ StrC.split [] [97] none none = .panic := by decide

end JanetModel.Lib.StrC
