import JanetModel.Lib.StrCProofs
/- C17: `string/join` (string.c cfun_string_join: length pass with the int64 accumulator and the INT32_MAX check, then the
   copy pass with the moving `out` pointer) computes `Spec.join`, and raises exactly when the result would be too long. -/
namespace JanetModel.Lib.StrC
open JanetModel.Lib JanetModel.Lib.CLoop

theorem foldr_sep (sep : Bytes) (ps : List Bytes) (init : Bytes) :
    ps.foldr (fun q acc => sep ++ q ++ acc) init = ps.foldr (fun q acc => sep ++ q ++ acc) [] ++ init := by
  induction ps with
  | nil => rfl
  | cons p ps ih => simp only [List.foldr_cons]; rw [ih]; simp

theorem join_snoc (l : List Bytes) (x sep : Bytes) :
    Lib.join (l ++ [x]) sep = if l = [] then x else Lib.join l sep ++ sep ++ x := by
  cases l with
  | nil => simp [Lib.join]
  | cons p ps =>
    simp only [Lib.join, List.cons_append, List.foldr_append, List.foldr_cons, List.foldr_nil, reduceCtorEq, if_false]
    rw [foldr_sep]; simp

/-- length of the joined first `i` parts -/
def pl (parts : List Bytes) (sep : Bytes) (i : Nat) : Nat := (Lib.join (parts.take i) sep).length

theorem pl_succ (parts : List Bytes) (sep : Bytes) (i : Nat) (h : i < parts.length) :
    Lib.join (parts.take (i + 1)) sep
      = if i = 0 then parts[i] else Lib.join (parts.take i) sep ++ sep ++ parts[i] := by
  rw [List.take_succ_eq_append_getElem h, join_snoc]
  by_cases hi : i = 0
  · subst hi; simp
  · have : parts.take i ≠ [] := by
      intro e
      rcases List.take_eq_nil_iff.mp e with h1 | h1
      · exact hi h1
      · subst h1; simp at h
    simp [hi, this]

theorem pl_succ_len (parts : List Bytes) (sep : Bytes) (i : Nat) (h : i < parts.length) :
    pl parts sep (i + 1) = pl parts sep i + (if i = 0 then 0 else sep.length) + parts[i].length := by
  unfold pl
  rw [pl_succ parts sep i h]
  by_cases hi : i = 0
  · subst hi; simp [Lib.join]
  · simp [hi]; omega

theorem pl_mono (parts : List Bytes) (sep : Bytes) (i n : Nat) (h : i + n ≤ parts.length) :
    pl parts sep i ≤ pl parts sep (i + n) := by
  induction n with
  | zero => exact Nat.le_refl _
  | succ n ih =>
    have := pl_succ_len parts sep (i + n) (by omega)
    have e : i + (n + 1) = i + n + 1 := by omega
    rw [e, this]
    have := ih (by omega)
    omega

theorem pl_all (parts : List Bytes) (sep : Bytes) : pl parts sep parts.length = (Lib.join parts sep).length := by
  unfold pl; rw [List.take_length]

theorem joinLenBody_spec (parts : List Bytes) (sep : Bytes) (hsep : Len32 sep) (hp : ∀ p ∈ parts, Len32 p)
    (i : Nat) (h : i < parts.length) (hle : (pl parts sep i : Int) ≤ int32Max) :
    joinLenBody parts sep i (pl parts sep i)
      = if (pl parts sep (i + 1) : Int) ≤ int32Max then .ok (pl parts sep (i + 1) : Int) else .panic := by
  unfold joinLenBody
  rw [idx_list_ok parts i h]
  simp only [R.ok_bind]
  have hc : Len32 parts[i] := hp _ (List.getElem_mem h)
  have hs := pl_succ_len parts sep i h
  unfold Len32 int32Max at *
  by_cases hi : i = 0
  · subst hi
    simp only [ne_eq, not_true_eq_false, if_false, R.pure_eq, R.ok_bind, add64, if_true] at hs ⊢
    have h64 : in64 ((pl parts sep 0 : Int) + (parts[0].length : Int)) = true := by
      unfold in64 int64Min int64Max; simp only [decide_eq_true_eq]; omega
    simp only [h64, if_true, R.ok_bind, R.pure_eq]
    have e : (pl parts sep 0 : Int) + (parts[0].length : Int) = ((pl parts sep (0 + 1) : Nat) : Int) := by omega
    rw [e]
    by_cases hb : ((pl parts sep (0 + 1) : Nat) : Int) ≤ 2147483647
    · have : ¬ (((pl parts sep (0 + 1) : Nat) : Int) > 2147483647) := by omega
      simp [hb, this]
    · have : ((pl parts sep (0 + 1) : Nat) : Int) > 2147483647 := by omega
      simp [hb, this]
  · simp only [hi, if_false] at hs
    simp only [ne_eq, hi, not_false_eq_true, if_true, add64]
    have h64 : in64 ((pl parts sep i : Int) + (sep.length : Int)) = true := by
      unfold in64 int64Min int64Max; simp only [decide_eq_true_eq]; omega
    simp only [h64, if_true, R.ok_bind]
    have h64' : in64 ((pl parts sep i : Int) + (sep.length : Int) + (parts[i].length : Int)) = true := by
      unfold in64 int64Min int64Max; simp only [decide_eq_true_eq]; omega
    simp only [h64', if_true, R.ok_bind, R.pure_eq]
    have e : (pl parts sep i : Int) + (sep.length : Int) + (parts[i].length : Int) = ((pl parts sep (i + 1) : Nat) : Int) := by omega
    rw [e]
    by_cases hb : ((pl parts sep (i + 1) : Nat) : Int) ≤ 2147483647
    · have : ¬ (((pl parts sep (i + 1) : Nat) : Int) > 2147483647) := by omega
      simp [hb, this]
    · have : ((pl parts sep (i + 1) : Nat) : Int) > 2147483647 := by omega
      simp [hb, this]

theorem joinLen_aux (parts : List Bytes) (sep : Bytes) (hsep : Len32 sep) (hp : ∀ p ∈ parts, Len32 p) :
    ∀ n i, i + n = parts.length → (pl parts sep i : Int) ≤ int32Max →
      forUp (joinLenBody parts sep) n i (pl parts sep i)
        = if (pl parts sep parts.length : Int) ≤ int32Max then .ok (pl parts sep parts.length : Int) else .panic := by
  intro n
  induction n with
  | zero =>
    intro i hi hle
    have : i = parts.length := by omega
    subst this
    simp [forUp, hle]
  | succ n ih =>
    intro i hi hle
    simp only [forUp]
    rw [joinLenBody_spec parts sep hsep hp i (by omega) hle]
    by_cases hb : (pl parts sep (i + 1) : Int) ≤ int32Max
    · simp only [hb, if_true]
      exact ih (i + 1) (by omega) hb
    · have hm := pl_mono parts sep (i + 1) n (by omega)
      have e : i + 1 + n = parts.length := by omega
      rw [e] at hm
      have : ¬ ((pl parts sep parts.length : Int) ≤ int32Max) := by omega
      simp [hb, this]

/-- the length pass: the int64 accumulator never overflows, and the call raises iff the joined length exceeds INT32_MAX -/
theorem joinLen_spec (parts : List Bytes) (sep : Bytes) (hsep : Len32 sep) (hp : ∀ p ∈ parts, Len32 p) :
    joinLen parts sep = if ((Lib.join parts sep).length : Int) ≤ int32Max then .ok ((Lib.join parts sep).length : Int) else .panic := by
  unfold joinLen
  have h0 : pl parts sep 0 = 0 := by simp [pl, Lib.join]
  have := joinLen_aux parts sep hsep hp parts.length 0 (by omega) (by rw [h0]; unfold int32Max; omega)
  rw [h0, pl_all] at this
  exact this

theorem joinCopy_spec (parts : List Bytes) (sep : Bytes) (total : Nat) (ht : total = (Lib.join parts sep).length) :
    ∃ buf out, forUp (joinCopyBody parts sep) parts.length 0 (Array.replicate total 0, 0) = .ok (buf, out) ∧
      buf.toList = Lib.join parts sep := by
  obtain ⟨⟨buf, out⟩, hf, hP⟩ := forUp_inv (joinCopyBody parts sep)
    (fun i (st : Array Nat × Int) => st.2 = (pl parts sep i : Int) ∧ st.1.size = total ∧
      st.1.toList.take (pl parts sep i) = Lib.join (parts.take i) sep)
    parts.length 0 (Array.replicate total 0, 0)
    ⟨by simp [pl, Lib.join], by simp, by simp [pl, Lib.join]⟩
    (by
      intro i ⟨buf, out⟩ _ hi ⟨ho, hsz, hpre⟩
      simp only at ho hsz hpre
      subst ho
      have hi' : i < parts.length := by omega
      have hs := pl_succ_len parts sep i hi'
      have hm := pl_mono parts sep (i + 1) (parts.length - (i + 1)) (by omega)
      have e : i + 1 + (parts.length - (i + 1)) = parts.length := by omega
      rw [e, pl_all, ← ht] at hm
      unfold joinCopyBody
      by_cases h0 : i = 0
      · subst h0
        simp only [ne_eq, not_true_eq_false, if_false, R.pure_eq, R.ok_bind, if_true] at hs ⊢
        rw [idx_list_ok parts 0 hi']
        simp only [R.ok_bind]
        have hpl0 : pl parts sep 0 = 0 := by simp [pl, Lib.join]
        rw [hpl0] at hs ⊢
        rw [memcpy_whole buf parts[0] 0 (by omega)]
        simp only [R.ok_bind]
        have hsl := splice_length buf.toList parts[0] 0 (by simp only [Array.length_toList]; omega)
        refine ⟨_, rfl, by simp only; omega, by simp only [List.size_toArray, hsl, Array.length_toList]; exact hsz, ?_⟩
        simp only [List.toList_toArray]
        rw [pl_succ parts sep 0 hi']
        simp only [if_true]
        have := take_splice buf.toList parts[0] 0 (by simp only [Array.length_toList]; omega)
        rw [hs]
        simp only [Nat.zero_add, List.take_zero, List.nil_append] at this ⊢
        exact this
      · simp only [h0, if_false] at hs
        simp only [ne_eq, h0, not_false_eq_true, if_true]
        rw [memcpy_whole buf sep (pl parts sep i) (by omega)]
        simp only [R.ok_bind, R.pure_eq]
        rw [idx_list_ok parts i hi']
        simp only [R.ok_bind]
        have e2 : (pl parts sep i : Int) + (sep.length : Int) = ((pl parts sep i + sep.length : Nat) : Int) := by omega
        rw [e2]
        have hB : pl parts sep i + sep.length ≤ buf.toList.length := by simp only [Array.length_toList]; omega
        have hsl1 := splice_length buf.toList sep (pl parts sep i) hB
        have hB2 : pl parts sep i + sep.length + parts[i].length ≤ (splice buf.toList (pl parts sep i) sep).length := by
          rw [hsl1]; simp only [Array.length_toList]; omega
        rw [memcpy_whole _ parts[i] (pl parts sep i + sep.length) (by simpa using hB2)]
        simp only [R.ok_bind]
        have hsl2 := splice_length (splice buf.toList (pl parts sep i) sep) parts[i] (pl parts sep i + sep.length) hB2
        refine ⟨_, rfl, by simp only; omega, by simp only [List.size_toArray, List.toList_toArray, hsl2, hsl1, Array.length_toList]; exact hsz, ?_⟩
        simp only [List.toList_toArray]
        rw [pl_succ parts sep i hi']
        simp only [h0, if_false]
        rw [hs, take_splice _ _ _ hB2, take_splice _ _ _ hB, hpre]
    )
  refine ⟨buf, out, hf, ?_⟩
  simp only [Nat.zero_add] at hP
  obtain ⟨_, hsz, hpre⟩ := hP
  rw [pl_all, List.take_length] at hpre
  rw [← hpre]
  symm
  apply List.take_of_length_le
  simp only [Array.length_toList]; omega

/-- ★ `string/join parts sep`: for byte-sequence parts whose lengths fit an int32, the two loops of the C produce exactly
    `Spec.join`, the call raises ("result string too long") iff the joined length exceeds INT32_MAX, the `int64_t`
    accumulator never overflows and no `memcpy` leaves the result buffer. -/
theorem join_eq_spec (parts : List Bytes) (sep : Bytes) (hsep : Len32 sep) (hp : ∀ p ∈ parts, Len32 p) :
    StrC.join parts sep
      = if ((Lib.join parts sep).length : Int) ≤ int32Max then .ok (Lib.join parts sep) else .panic := by
  unfold StrC.join
  rw [joinLen_spec parts sep hsep hp]
  by_cases hb : ((Lib.join parts sep).length : Int) ≤ int32Max
  · simp only [hb, if_true, R.ok_bind, Int.toNat_natCast]
    obtain ⟨buf, out, hf, hl⟩ := joinCopy_spec parts sep _ rfl
    rw [hf]
    simp [hl]
  · simp [hb]

example : StrC.join [[1], [], [2, 3]] [9, 9] = .ok [1, 9, 9, 9, 9, 2, 3] ∧ StrC.join [] [9] = .ok [] := by decide

end JanetModel.Lib.StrC
