import JanetModel.Lib.Boot5
import JanetModel.Lib.BootProofs
/- C17: map over three sequences stops at the shortest. -/
namespace JanetModel.Lib.Boot
open JanetModel.Lib JanetModel.Lib.JIter

/-- ★ `(map f ind ind0 ind1)` (branch `map-n 2`): element `k` is `f ind[k] ind0[k] ind1[k]`, for `k` below the shortest length -/
theorem map3_eq_spec {α β γ δ : Type} (f : α → β → γ → δ) (ind : List α) (ind0 : List β) (ind1 : List γ) :
    Boot.map3 f ind ind0 ind1 = .ok (List.zipWith (fun (p : α × β) z => f p.1 p.2 z) (List.zip ind ind0) ind1) := by
  unfold Boot.map3 each
  rw [nextKey_nil]
  let f' : α × β → γ → δ := fun p z => f p.1 p.2 z
  have hzl : (List.zip ind ind0).length = min ind.length ind0.length := by simp
  obtain ⟨⟨res, k0, k1⟩, hs, hP⟩ := eachLoop_inv ind (map3Body f ind0 ind1)
    (fun i st => i ≤ ind0.length ∧ i ≤ ind1.length ∧
      st.1.toList = List.zipWith f' ((List.zip ind ind0).take i) (ind1.take i) ∧ st.2.1 = prevKey i ∧ st.2.2 = prevKey i)
    (fun st => st.1.toList = List.zipWith f' (List.zip ind ind0) ind1)
    (by
      intro i h ⟨res, k0, k1⟩ ⟨hl0, hl1, hres, hk0, hk1⟩
      simp only at hres hk0 hk1
      subst hk0; subst hk1
      simp only [map3Body, nextKey_prevKey, keyAt]
      by_cases hi0 : i < ind0.length
      · simp only [hi0, if_true]
        by_cases hi1 : i < ind1.length
        · left
          simp only [hi1, if_true, inIdx_of_lt ind0 i hi0, inIdx_of_lt ind1 i hi1]
          refine ⟨_, rfl, by omega, by omega, ?_, by simp [prevKey], by simp [prevKey]⟩
          have hiz : i < (List.zip ind ind0).length := by rw [hzl]; omega
          simp only [Array.toList_push, hres]
          rw [zipWith_take_snoc f' (List.zip ind ind0) ind1 i hiz hi1]
          simp [f']
        · right
          simp only [hi1, if_false]
          refine ⟨_, rfl, ?_⟩
          simp only [hres]
          exact zipWith_take_of_le f' _ ind1 i (by omega)
      · right
        simp only [hi0, if_false]
        refine ⟨_, rfl, ?_⟩
        simp only [hres]
        exact zipWith_take_of_le f' _ ind1 i (by rw [hzl]; omega))
    (ind.length + 1) 0 (#[], none, none) (by omega) (by omega) ⟨by omega, by omega, by simp, by simp [prevKey], by simp [prevKey]⟩
  rw [hs]
  simp only [R.ok_bind, R.pure_eq]
  congr 1
  rcases hP with ⟨_, _, h, _⟩ | h
  · simp only at h
    rw [h]
    exact zipWith_take_of_le f' _ ind1 ind.length (by rw [hzl]; omega)
  · exact h

example : Boot.map3 (fun (a b c : Nat) => a + b + c) [1, 2, 3] [10, 20, 30, 40] [100, 200] = .ok [111, 222] := by decide

end JanetModel.Lib.Boot
