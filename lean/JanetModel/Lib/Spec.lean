import JanetModel.Gen.Lib
/- C17: reference definitions of janet's string / buffer / array / tuple library functions and of the
   boot.janet sequence combinators.  Core Lean only (linked into the driver jm_c17).

   Bytes are `List Nat` (each < 256), generic sequences are `List α`.  `none` = the call raises an error.
   These are *specifications* (naive definitions); the algorithmic mirrors of the C / janet code live in
   `Lib/Kmp.lean` (string.c kmp_*), `Lib/Sort.lean` (boot.janet sort-help) and `Lib/BufMem.lean`
   (buffer.c growth + memcpy order).  -/
namespace JanetModel.Lib
open JanetModel.Gen.Lib

abbrev Bytes := List Nat

def int32Min : Int := -2147483648
def int32Max : Int := 2147483647

/-- `janet_getinteger`: a number is accepted iff it is an int32. -/
def getInt32 (x : Int) : Option Int := if int32Min ≤ x ∧ x ≤ int32Max then some x else none

/-! ## Range decoding (capi.c janet_gethalfrange / getstartrange / getendrange / getargindex / getslice) -/

/-- capi.c `janet_gethalfrange`: `raw < 0` means `raw + length + 1`; error unless the result is in `[0,length]`. -/
def halfrange (raw : Int) (len : Nat) : Option Nat :=
  let nr : Int := if raw < 0 then raw + (len : Int) + halfAdj else raw
  if nr < 0 ∨ (if halfUpperIncl then nr > (len : Int) else nr ≥ (len : Int)) then none else some nr.toNat

/-- capi.c `janet_getargindex`: `raw < 0` means `raw + length`; NOTE the C accepts `not_raw == length`. -/
def argindex (raw : Int) (len : Nat) : Option Nat :=
  let nr : Int := if raw < 0 then raw + (len : Int) + argAdj else raw
  if nr < 0 ∨ (if argUpperIncl then nr > (len : Int) else nr ≥ (len : Int)) then none else some nr.toNat

/-- `janet_getstartrange`: absent / nil argument = 0. -/
def startrange (arg : Option Int) (len : Nat) : Option Nat :=
  match arg with
  | none => some 0
  | some r => halfrange r len

/-- `janet_getendrange`: absent / nil argument = length. -/
def endrange (arg : Option Int) (len : Nat) : Option Nat :=
  match arg with
  | none => some len
  | some r => halfrange r len

/-- `janet_getslice`: `(start, end)` with `end` clamped up to `start`. -/
def getslice (s e : Option Int) (len : Nat) : Option (Nat × Nat) :=
  match startrange s len with
  | none => none
  | some st =>
    match endrange e len with
    | none => none
    | some en => some (st, if sliceClamp && decide (en < st) then st else en)

/-- `string/slice`, `buffer/slice`, `array/slice`, `tuple/slice`, `slice`: elements `[start,end)`. -/
def slice {α : Type} (l : List α) (s e : Option Int) : Option (List α) :=
  match getslice s e l.length with
  | none => none
  | some (a, b) => some ((l.drop a).take (b - a))

/-! ## Substring search (naive reference; the KMP mirror is in Kmp.lean) -/

/-- `pat` occurs in `text` at offset `i`. -/
def matchAt (pat text : Bytes) (i : Nat) : Bool :=
  decide (i + pat.length ≤ text.length) && ((text.drop i).take pat.length == pat)

/-- least `i` in `[start, start+fuel)` with `matchAt pat text i`. -/
def findFromAux (pat text : Bytes) : Nat → Nat → Option Nat
  | _, 0 => none
  | i, fuel + 1 => if matchAt pat text i then some i else findFromAux pat text (i + 1) fuel

/-- first occurrence at an index `≥ start` (`string/find patt str start`), pattern must be non-empty. -/
def findFrom (pat text : Bytes) (start : Nat) : Option Nat :=
  findFromAux pat text start (text.length + 1 - start)

/-- every position in `[i, i+fuel)` at which the pattern occurs, ascending -/
def findAllAux (pat text : Bytes) : Nat → Nat → List Nat
  | _, 0 => []
  | i, fuel + 1 => if matchAt pat text i then i :: findAllAux pat text (i + 1) fuel else findAllAux pat text (i + 1) fuel

/-- `string/find-all`: every occurrence (overlapping ones included — kmp_next continues with
    `j = lookup[patlen-1]`) at an index `≥ start`, ascending. -/
def findAll (pat text : Bytes) (start : Nat) : List Nat :=
  findAllAux pat text start (text.length + 1 - start)

/-- `string/find`: `none` = error (empty pattern); `some none` = nil. -/
def find (pat text : Bytes) (start : Nat) : Option (Option Nat) :=
  if pat = [] then none else some (findFrom pat text start)

/-- `string/replace patt subst str start`: first occurrence at `≥ start` replaced. -/
def replace (pat subst text : Bytes) (start : Nat) : Option Bytes :=
  if pat = [] then none else
  match findFrom pat text start with
  | none => some text
  | some r => some (text.take r ++ subst ++ text.drop (r + pat.length))

/-- body of `string/replace-all`: leftmost non-overlapping occurrences (search resumes *after* a match,
    `kmp_seti(lastindex)`); `last` = how much of `text` has been emitted, `start` = where the search resumes. -/
def replaceAllAux (pat subst text : Bytes) : Nat → Nat → Nat → Bytes
  | 0, last, _ => text.drop last
  | fuel + 1, last, start =>
    match findFrom pat text start with
    | none => text.drop last
    | some r => (text.drop last).take (r - last) ++ subst
                  ++ replaceAllAux pat subst text fuel (r + pat.length) (r + pat.length)

def replaceAll (pat subst text : Bytes) (start : Nat) : Option Bytes :=
  if pat = [] then none else some (replaceAllAux pat subst text (text.length + 1) 0 start)

/-- body of `string/split delim str start limit`: the C loop is
    `while ((result = kmp_next()) >= 0 && --limit)`; `limit` starts at -1 when absent. -/
def splitAux (pat text : Bytes) : Nat → Nat → Nat → Int → List Bytes
  | 0, last, _, _ => [text.drop last]
  | fuel + 1, last, start, limit =>
    match findFrom pat text start with
    | none => [text.drop last]
    | some r =>
      if limit - 1 = 0 then [text.drop last]
      else (text.drop last).take (r - last)
             :: splitAux pat text fuel (r + pat.length) (r + pat.length) (limit - 1)

def split (pat text : Bytes) (start : Nat) (limit : Int) : Option (List Bytes) :=
  if pat = [] then none else some (splitAux pat text (text.length + 1) 0 start limit)

/-- `string/join parts sep`. -/
def join (parts : List Bytes) (sep : Bytes) : Bytes :=
  match parts with
  | [] => []
  | p :: ps => p ++ (ps.foldr (fun q acc => sep ++ q ++ acc) [])

/-! ## trim family (string.c trim_help_*) -/

def inSet (set : Bytes) (x : Nat) : Bool := set.contains x

def defaultTrimSet : Bytes := trimSet   -- " \t\r\n\v\f", from string.c

/-- `string/triml`: drop the longest prefix made of bytes of `set`. -/
def triml (s set : Bytes) : Bytes := s.dropWhile (inSet set)

/-- `string/trimr`. -/
def trimr (s set : Bytes) : Bytes := (s.reverse.dropWhile (inSet set)).reverse

/-- trim_help_leftedge / rightedge as indices. -/
def leftEdge (s set : Bytes) : Nat := (s.takeWhile (inSet set)).length
def rightEdge (s set : Bytes) : Nat := s.length - (s.reverse.takeWhile (inSet set)).length

/-- `string/trim` as implemented: empty when `right_edge < left_edge`, else the slice between the edges. -/
def trim (s set : Bytes) : Bytes :=
  let l := leftEdge s set
  let r := rightEdge s set
  if r < l then [] else (s.drop l).take (r - l)

/-! ## small byte functions -/

def repeatBytes (s : Bytes) (n : Int) : Option Bytes :=
  if n < 0 then none
  else if n * (s.length : Int) > int32Max then none
  else if s = [] then some []       -- (same value as the next line; avoids building 2^31 empty chunks)
  else some ((List.replicate n.toNat s).flatten)

def asciiUpper (s : Bytes) : Bytes := s.map (fun c => if upperFrom ≤ c ∧ c ≤ upperTo then c - upperSub else c)
def asciiLower (s : Bytes) : Bytes := s.map (fun c => if lowerFrom ≤ c ∧ c ≤ lowerTo then c + lowerAdd else c)

def hasPrefix (pfx s : Bytes) : Bool := s.take pfx.length == pfx
def hasSuffix (sfx s : Bytes) : Bool := decide (sfx.length ≤ s.length) && (s.drop (s.length - sfx.length) == sfx)

/-- `string/check-set set str`. -/
def checkSet (set s : Bytes) : Bool := s.all (inSet set)

/-- byte coercion `c & 0xFF` of an int32. -/
def toByte (x : Int) : Nat := (x % 256).toNat

/-! ## buffers (abstract level: contents only; growth / aliasing order is modelled in BufMem.lean) -/

/-- one argument of `buffer/push`: a number (pushed as a byte), an independent byte sequence, or the
    destination buffer itself. -/
inductive PushArg where
  | byte (x : Int)
  | bytes (l : Bytes)
  | self
  deriving Repr

/-- `buffer/push b & xs` (also push-string for the non-byte cases): left to right; `self` appends the
    *current* contents (the view is taken when the argument is reached). -/
def bufferPush (b : Bytes) : List PushArg → Option Bytes
  | [] => some b
  | .byte x :: rest =>
    match getInt32 x with
    | none => none
    | some v => bufferPush (b ++ [toByte v]) rest
  | .bytes l :: rest => bufferPush (b ++ l) rest
  | .self :: rest => bufferPush (b ++ b) rest

/-- like `bufferPush` but also returns the buffer contents at the moment an error is raised
    (arguments before the offending one have been pushed). -/
def bufferPushSt (b : Bytes) : List PushArg → Bool × Bytes
  | [] => (true, b)
  | .byte x :: rest =>
    match getInt32 x with
    | none => (false, b)
    | some v => bufferPushSt (b ++ [toByte v]) rest
  | .bytes l :: rest => bufferPushSt (b ++ l) rest
  | .self :: rest => bufferPushSt (b ++ b) rest

/-- `buffer/push-at b index & xs` as implemented: the count is set to `index`, the items are pushed, then
    the count is restored to the old one if it ended up smaller (the tail bytes are still there).
    A `self` argument therefore pushes the *truncated* buffer. -/
def bufferPushAt (b : Bytes) (index : Int) (xs : List PushArg) : Option Bytes :=
  if index < 0 ∨ index > (b.length : Int) then none else
  match bufferPush (b.take index.toNat) xs with
  | none => none
  | some p => some (p ++ b.drop p.length)

/-- `buffer/blit dest src dest-start src-start src-end`; `src = none` means src is dest itself
    (memmove: the source bytes are the ones before the call). -/
def bufferBlit (dest : Bytes) (src : Option Bytes) (ds ss : Option Int) (se : Option (Option Int)) : Option Bytes :=
  let s := match src with | none => dest | some l => l
  match (match ds with | none => some 0 | some r => halfrange r dest.length) with
  | none => none
  | some od =>
    match (match ss with | none => some 0 | some r => halfrange r s.length) with
    | none => none
    | some os =>
      let len? : Option Nat :=
        match se with
        | none => some (s.length - os)
        | some none => some (s.length - os)
        | some (some r) =>
          match halfrange r s.length with
          | none => none
          | some e => some (e - os)
      match len? with
      | none => none
      | some len =>
        if (od : Int) + len > int32Max then none else
        some (dest.take od ++ (s.drop os).take len ++ dest.drop (od + len))

def bufferPopn (b : Bytes) (n : Int) : Option Bytes :=
  if n < 0 then none else some (b.take (b.length - n.toNat))

def bufferFill (b : Bytes) (byte : Int) : Bytes := b.map (fun _ => toByte byte)

def newFilled (count : Int) (byte : Int) : Bytes := List.replicate (if count < 0 then 0 else count.toNat) (toByte byte)

/-- little-endian bytes of `x` (`n` of them). -/
def leBytes : Nat → Nat → Bytes
  | 0, _ => []
  | n + 1, x => (x % 256) :: leBytes n (x / 256)

/-- `buffer/push-word`: each number must be an integer in `[0, 2^32)`. -/
def pushWord (b : Bytes) : List Int → Option Bytes
  | [] => some b
  | x :: rest => if 0 ≤ x ∧ x < 4294967296 then pushWord (b ++ leBytes 4 x.toNat) rest else none

/-- `buffer/push-uint16/32 b order x` (`be = true` for :be). -/
def pushUint (b : Bytes) (nbytes : Nat) (be : Bool) (x : Int) : Option Bytes :=
  if 0 ≤ x ∧ x < (256 : Int) ^ nbytes then
    let bs := leBytes nbytes x.toNat
    some (b ++ (if be then bs.reverse else bs))
  else none

/-- bit location of `buffer/bit*`: error unless `0 ≤ idx` and `idx / 8 < count`. -/
def bitloc (b : Bytes) (idx : Int) : Option (Nat × Nat) :=
  if idx < 0 ∨ idx / 8 ≥ (b.length : Int) then none else some ((idx / 8).toNat, (idx % 8).toNat)

def testBit (x bit : Nat) : Bool := x / 2 ^ bit % 2 == 1

def bitGet (b : Bytes) (idx : Int) : Option Bool :=
  match bitloc b idx with
  | none => none
  | some (i, bit) => some (testBit (b.getD i 0) bit)

def bitSet (b : Bytes) (idx : Int) : Option Bytes :=
  match bitloc b idx with
  | none => none
  | some (i, bit) => let x := b.getD i 0; some (b.set i (if testBit x bit then x else x + 2 ^ bit))

def bitClear (b : Bytes) (idx : Int) : Option Bytes :=
  match bitloc b idx with
  | none => none
  | some (i, bit) => let x := b.getD i 0; some (b.set i (if testBit x bit then x - 2 ^ bit else x))

def bitToggle (b : Bytes) (idx : Int) : Option Bytes :=
  match bitloc b idx with
  | none => none
  | some (i, bit) => let x := b.getD i 0; some (b.set i (if testBit x bit then x - 2 ^ bit else x + 2 ^ bit))

/-! ## arrays (array.c) -/

/-- `array/insert arr at & xs`: `at < 0` means `count + at + 1`. -/
def arrayInsert {α : Type} (a : List α) (at_ : Int) (xs : List α) : Option (List α) :=
  match getInt32 at_ with
  | none => none
  | some raw =>
    let i : Int := if raw < 0 then (a.length : Int) + raw + 1 else raw
    if i < 0 ∨ i > (a.length : Int) then none
    else some (a.take i.toNat ++ xs ++ a.drop i.toNat)

/-- `array/remove arr at n` as documented: remove up to `n` elements starting at `at`
    (`at < 0` means `count + at`; `at = count` is accepted and removes nothing). -/
def arrayRemove {α : Type} (a : List α) (at_ : Int) (n : Int) : Option (List α) :=
  match getInt32 at_, getInt32 n with
  | some raw, some n =>
    let i : Int := if raw < 0 then (a.length : Int) + raw else raw
    if i < 0 ∨ i > (a.length : Int) then none
    else if n < 0 then none
    else some (a.take i.toNat ++ a.drop (i.toNat + n.toNat))
  | _, _ => none

/-- one part of `array/concat`: a plain value, an independent indexed value, or the array itself. -/
inductive ConcatArg (α : Type) where
  | item (x : α)
  | seq (l : List α)
  | self

def arrayConcat {α : Type} (a : List α) : List (ConcatArg α) → List α
  | [] => a
  | .item x :: rest => arrayConcat (a ++ [x]) rest
  | .seq l :: rest => arrayConcat (a ++ l) rest
  | .self :: rest => arrayConcat (a ++ a) rest

def arrayFill {α : Type} (a : List α) (x : α) : List α := a.map (fun _ => x)

/-! ## boot.janet sequence functions -/

/-- `take n ind` on indexed / bytes: first `n`, or last `-n` when `n < 0`. -/
def takeN {α : Type} (n : Int) (l : List α) : List α :=
  if n ≥ 0 then l.take n.toNat else l.drop (l.length - (-n).toNat)

/-- `drop n ind`: drop the first `n`, or the last `-n` when `n < 0`. -/
def dropN {α : Type} (n : Int) (l : List α) : List α :=
  if n ≥ 0 then l.drop n.toNat else l.take (l.length - (-n).toNat)

def takeWhileL {α : Type} (p : α → Bool) (l : List α) : List α := l.takeWhile p
def dropWhileL {α : Type} (p : α → Bool) (l : List α) : List α := l.dropWhile p

/-- `partition n ind` for `n ≥ 1`: consecutive chunks of `n`, the last one possibly shorter. -/
def partitionAux {α : Type} (n : Nat) : Nat → List α → List (List α)
  | 0, _ => []
  | fuel + 1, l => match l with
    | [] => []
    | _ :: _ => l.take n :: partitionAux n fuel (l.drop n)

def partition {α : Type} (n : Nat) (l : List α) : List (List α) := partitionAux n (l.length + 1) l

/-- `interleave & cols` = `mapcat tuple ;cols`: rows up to the shortest column. -/
def interleave {α : Type} : List (List α) → List α
  | [] => []
  | cols =>
    let n := (cols.map List.length).foldl min (cols.head!.length)
    (List.range n).flatMap (fun i => cols.filterMap (fun c => c[i]?))

/-- `interpose sep ind`. -/
def interpose {α : Type} (sep : α) : List α → List α
  | [] => []
  | [x] => [x]
  | x :: y :: rest => x :: sep :: interpose sep (y :: rest)

/-- `range` on integers: `start, start+step, …` strictly before `stop` (after it for negative steps). -/
def rangeI (start stop step : Int) : List Int :=
  if step > 0 then
    if stop ≤ start then [] else (List.range ((stop - start + step - 1) / step).toNat).map (fun (i : Nat) => start + (i : Int) * step)
  else if step < 0 then
    if stop ≥ start then [] else (List.range ((start - stop + (-step) - 1) / (-step)).toNat).map (fun (i : Nat) => start + (i : Int) * step)
  else []

/-- `distinct`: first occurrences, in order. -/
def distinct {α : Type} [BEq α] : List α → List α
  | [] => []
  | x :: xs => x :: (distinct xs).filter (fun y => !(y == x))

/-- `frequencies` as an association list in order of first occurrence. -/
def frequencies {α : Type} [BEq α] (l : List α) : List (α × Nat) :=
  (distinct l).map (fun x => (x, l.count x))

/-- insertion into an association list (later values replace earlier ones, position of first insertion kept). -/
def assocPut {α β : Type} [BEq α] (m : List (α × β)) (k : α) (v : β) : List (α × β) :=
  match m with
  | [] => [(k, v)]
  | (k', v') :: rest => if k' == k then (k, v) :: rest else (k', v') :: assocPut rest k v

/-- `merge & colls`: later collections win. -/
def merge {α β : Type} [BEq α] (colls : List (List (α × β))) : List (α × β) :=
  colls.foldl (fun acc c => c.foldl (fun acc kv => assocPut acc kv.1 kv.2) acc) []

/-- `zipcoll ks vs`: pairs up to the shorter one, later duplicates of a key win. -/
def zipcoll {α β : Type} [BEq α] (ks : List α) (vs : List β) : List (α × β) :=
  (ks.zip vs).foldl (fun acc kv => assocPut acc kv.1 kv.2) []

/-- `extreme order args` (do-extreme): the first element `x` such that no later element is `order`-better
    in the left-to-right scan. -/
def extreme {α : Type} (order : α → α → Bool) : List α → Option α
  | [] => none
  | x :: xs => some (xs.foldl (fun ret y => if order y ret then y else ret) x)

def sumI (l : List Int) : Int := l.foldl (· + ·) 0
def productI (l : List Int) : Int := l.foldl (· * ·) 1

/-- `reduce f init ind`. -/
def reduce {α β : Type} (f : β → α → β) (init : β) (l : List α) : β := l.foldl f init

/-- insertion sort: the *specification* of `sorted` for a strict weak order (any ordered permutation is
    accepted by the oracle; this one is stable). -/
def insertSorted {α : Type} (before : α → α → Bool) (x : α) : List α → List α
  | [] => [x]
  | y :: ys => if before y x || !(before x y) then y :: insertSorted before x ys else x :: y :: ys

def isort {α : Type} (before : α → α → Bool) : List α → List α
  | [] => []
  | x :: xs => insertSorted before x (isort before xs)

/-- no element is strictly before an earlier one. -/
def isSortedBy {α : Type} (before : α → α → Bool) : List α → Bool
  | [] => true
  | x :: xs => xs.all (fun y => !(before y x)) && isSortedBy before xs

end JanetModel.Lib
