import JanetModel.Lib.MiscC2
import JanetModel.Lib.BufPushCProofs
/- C17 (session 4): the mirrors of Lib/MiscC2.lean compute the reference definitions of Lib/Spec.lean for all inputs:
   `buffer/push-word` (also the state left by a failing call), `buffer/push-uint16|32|64` (byte order by the explicit
   swaps of reverse_u32 / reverse_u64), `buffer/new-filled`, `array/new-filled`, `array/push` (the overflow guard keeps the
   int32 arithmetic in range), `array/pop`, `array/peek`. -/
namespace JanetModel.Lib.BufPush
open JanetModel.Lib JanetModel.Lib.CLoop

/-! ### consecutive stores -/

theorem splice_set_succ (L : List Nat) (p v : Nat) (vs : List Nat) (h : p + (vs.length + 1) ≤ L.length) :
    splice (L.set p v) (p + 1) vs = splice L p (v :: vs) := by
  have hset : L.set p v = splice L p [v] := set_eq_splice L p v (by omega)
  unfold splice at hset ⊢
  have ht : (L.set p v).take (p + 1) = L.take p ++ [v] := by
    rw [hset]
    have hl : (L.take p ++ [v]).length = p + 1 := by simp; omega
    rw [List.take_append_of_le_length (by omega), List.take_of_length_le (by omega)]
  have hd : (L.set p v).drop (p + 1 + vs.length) = L.drop (p + (v :: vs).length) := by
    apply List.ext_getElem?
    intro k
    simp only [List.getElem?_drop, List.getElem?_set, List.length_cons]
    have : ¬ (p = p + 1 + vs.length + k) := by omega
    simp only [this, if_false]
    congr 1; omega
  rw [ht, hd]
  simp

/-- ★ `data[p] = v0; data[p+1] = v1; …` inside the block writes exactly those cells -/
theorem writeCells_spec : ∀ (X : List Nat) (data : Array Nat) (p : Nat), p + X.length ≤ data.size →
    writeCells data p X = .ok (splice data.toList p X).toArray
  | [], data, p, _ => by simp [writeCells, splice]
  | v :: vs, data, p, h => by
    simp only [List.length_cons] at h
    unfold writeCells
    rw [setIdx_ok _ _ _ (by omega)]
    simp only [R.ok_bind]
    rw [writeCells_spec vs _ (p + 1) (by simp; omega)]
    congr 2
    simp only [Array.toList_setIfInBounds]
    exact splice_set_succ data.toList p v vs (by simpa using h)

/-! ### janet_buffer_push_u32 and buffer/push-word -/

theorem le4_eq (x : Nat) :
    [x &&& 0xFF, (x >>> 8) &&& 0xFF, (x >>> 16) &&& 0xFF, (x >>> 24) &&& 0xFF] = leBytes 4 x := by
  have hand : ∀ y : Nat, y &&& 0xFF = y % 256 := fun y => Nat.and_two_pow_sub_one_eq_mod y 8
  simp [hand, Nat.shiftRight_eq_div_pow, leBytes, Nat.div_div_eq_div_mul]

theorem pushU32_spec (D : List Nat) (b : Buf) (x : Nat) (hI : Inv D b) (h32 : (b.count : Int) + 4 ≤ int32Max) :
    ∃ b', pushU32 b x = .ok b' ∧ contents b' = contents b ++ leBytes 4 x ∧ Inv D b' := by
  obtain ⟨b1, he, hc, hroom, hcont, hI1, _⟩ := extra_spec D b 4 hI (by simpa using h32)
  unfold pushU32
  rw [he]
  simp only [R.ok_bind]
  rw [writeCells_spec _ _ _ (by simp; omega), le4_eq]
  simp only [R.ok_bind, R.pure_eq]
  have hlen : (leBytes 4 x).length = 4 := by simp [leBytes]
  have hw := write_inv D b1 (leBytes 4 x) hI1 (by rw [hlen]; omega)
  rw [hlen] at hw
  exact ⟨_, rfl, by rw [hw.1, hcont], hw.2⟩

/-- the reference: contents after the call (also after a failing one) and whether every argument was a machine word -/
def pushWordSt (b : Bytes) : List Int → Bool × Bytes
  | [] => (true, b)
  | x :: rest => if 0 ≤ x ∧ x < 4294967296 then pushWordSt (b ++ leBytes 4 x.toNat) rest else (false, b)

theorem pushWordSt_spec (b : Bytes) (xs : List Int) :
    Lib.pushWord b xs = if (pushWordSt b xs).1 then some (pushWordSt b xs).2 else none := by
  induction xs generalizing b with
  | nil => simp [Lib.pushWord, pushWordSt]
  | cons x rest ih =>
    unfold Lib.pushWord pushWordSt
    by_cases h : 0 ≤ x ∧ x < 4294967296
    · simp only [h, and_self, if_true]; exact ih _
    · simp [h]

theorem pushWordSt_len_ge (xs : List Int) (b : Bytes) : b.length ≤ (pushWordSt b xs).2.length := by
  induction xs generalizing b with
  | nil => simp [pushWordSt]
  | cons x rest ih =>
    unfold pushWordSt
    by_cases h : 0 ≤ x ∧ x < 4294967296
    · simp only [h, and_self, if_true]
      have := ih (b ++ leBytes 4 x.toNat)
      simp only [List.length_append] at this
      omega
    · simp [h]

theorem contents_length (D : List Nat) (b : Buf) (hI : Inv D b) : (contents b).length = b.count := by
  unfold contents
  simp only [List.length_take, Array.length_toList]
  have := hI.wf
  omega

/-- ★ `buffer/push-word`: contents after the call — also after a call that raised part-way — and the error condition -/
theorem pushWord_spec (D : List Nat) (xs : List Int) (b : Buf) (hI : Inv D b)
    (h32 : ((pushWordSt (contents b) xs).2.length : Int) ≤ int32Max) :
    contents (pushWord b xs).1 = (pushWordSt (contents b) xs).2 ∧
    (pushWord b xs).2 = (if (pushWordSt (contents b) xs).1 then .ok () else .panic) ∧ Inv D (pushWord b xs).1 := by
  induction xs generalizing b with
  | nil => simp [pushWord, pushWordSt, hI]
  | cons x rest ih =>
    unfold pushWord pushWordSt pushWordArg
    unfold pushWordSt at h32
    by_cases h : 0 ≤ x ∧ x < 4294967296
    · simp only [h, and_self, if_true] at h32 ⊢
      have hge := pushWordSt_len_ge rest (contents b ++ leBytes 4 x.toNat)
      have hcl := contents_length D b hI
      have hl4 : (leBytes 4 x.toNat).length = 4 := by simp [leBytes]
      simp only [List.length_append, hcl, hl4] at hge
      obtain ⟨b', hp, hcont, hI'⟩ := pushU32_spec D b x.toNat hI (by omega)
      rw [hp]
      simp only
      rw [← hcont] at h32 ⊢
      exact ih b' hI' h32
    · simp [h, hI]

/-! ### byte order: reverse_u32 / reverse_u64 by explicit swaps -/

theorem reverseU16_spec (a b : Nat) : reverseU16 #[a, b] = .ok #[b, a] := by
  simp [reverseU16, swapCells, idx, setIdx]

theorem reverseU32_spec (a b c d : Nat) : reverseU32 #[a, b, c, d] = .ok #[d, c, b, a] := by
  simp [reverseU32, swapCells, idx, setIdx]

theorem reverseU64_spec (a b c d e f g h : Nat) :
    reverseU64 #[a, b, c, d, e, f, g, h] = .ok #[h, g, f, e, d, c, b, a] := by
  simp [reverseU64, swapCells, idx, setIdx]

theorem leBytes_length (n x : Nat) : (leBytes n x).length = n := by
  induction n generalizing x with
  | zero => rfl
  | succ n ih => simp [leBytes, ih]

/-- the local `bytes[]` after the optional reversal holds the bytes in the requested order -/
theorem orderBytes_spec (nbytes : Nat) (hn : nbytes = 2 ∨ nbytes = 4 ∨ nbytes = 8) (x : Nat) (be : Bool) :
    (if be then (if nbytes = 2 then reverseU16 (leBytes nbytes x).toArray else if nbytes = 4 then reverseU32 (leBytes nbytes x).toArray
        else reverseU64 (leBytes nbytes x).toArray) else .ok (leBytes nbytes x).toArray)
      = .ok (if be then (leBytes nbytes x).reverse else leBytes nbytes x).toArray := by
  cases be with
  | false => simp
  | true =>
    rcases hn with h | h | h <;> subst h
    · simp only [if_true, leBytes]; rw [reverseU16_spec]; simp
    · simp only [if_true, leBytes]
      rw [if_neg (by decide), reverseU32_spec]; simp
    · simp only [if_true, leBytes]
      rw [if_neg (by decide), if_neg (by decide), reverseU64_spec]; simp

/-- ★ `buffer/push-uint16`, `-uint32`, `-uint64`: raises for an unknown byte order or a value outside `[0, 2^(8n))`, otherwise
    appends the `n` bytes in the requested order -/
theorem pushUintC_spec (D : List Nat) (b : Buf) (nbytes : Nat) (hn : nbytes = 2 ∨ nbytes = 4 ∨ nbytes = 8) (order : Bytes)
    (data : Int) (hI : Inv D b) (h32 : (b.count : Int) + (nbytes : Int) ≤ int32Max) :
    (shouldReverse order = .panic → pushUintC b nbytes order data = .panic) ∧
    (∀ be, shouldReverse order = .ok be →
      (pushUint (contents b) nbytes be data = none → pushUintC b nbytes order data = .panic) ∧
      (∀ r, pushUint (contents b) nbytes be data = some r →
        ∃ b', pushUintC b nbytes order data = .ok b' ∧ contents b' = r ∧ Inv D b')) := by
  refine ⟨fun h => by unfold pushUintC; rw [h]; rfl, fun be hbe => ?_⟩
  unfold pushUintC pushUint
  rw [hbe]
  simp only [R.ok_bind]
  by_cases hr : 0 ≤ data ∧ data < (256 : Int) ^ nbytes
  · simp only [hr, and_self, not_true_eq_false, if_false, if_true]
    refine ⟨fun h => by simp at h, fun r hr' => ?_⟩
    rw [orderBytes_spec nbytes hn data.toNat be]
    simp only [R.ok_bind]
    have hlen : (if be then (leBytes nbytes data.toNat).reverse else leBytes nbytes data.toNat).length = nbytes := by
      cases be <;> simp [leBytes_length]
    obtain ⟨b', hp, hc, hI'⟩ := pushBytes_spec D b
      (if be then (leBytes nbytes data.toNat).reverse else leBytes nbytes data.toNat).toArray nbytes hI
      (by simp [hlen]) h32
    refine ⟨b', hp, ?_, hI'⟩
    rw [hc]
    simp only [Option.some.injEq] at hr'
    rw [← hr']
    congr 1
    rw [List.take_of_length_le (by simp [hlen])]
  · simp only [hr, not_false_eq_true, if_true, if_false]
    refine ⟨fun _ => ?_, fun r h => by simp at h⟩
    first | rfl | trivial

/-! ### buffer/new-filled -/

/-- ★ `buffer/new-filled`: a negative count gives the empty buffer; every byte is `byte & 0xFF` -/
theorem newFilledC_eq_spec (count byte : Int) : newFilledC count byte = .ok (Lib.newFilled count byte) := by
  unfold newFilledC Lib.newFilled
  simp only
  rw [fill_loop _ 0 _ (fun _ => toByte byte) (fun i buf hi hsz => setIdx_ok _ _ _ (by omega))]
  simp only [R.ok_bind, R.pure_eq]
  congr 1
  by_cases hc : count < 0
  · simp [hc]
  · simp only [hc, if_false]
    apply List.ext_getElem?
    intro k
    by_cases hk : k < count.toNat <;> simp [hk]

example : (pushWord { data := #[7], count := 1 } [258, -1, 3]).1.data.toList.take 5 = [7, 2, 1, 0, 0] ∧
    (match pushUintC { data := #[], count := 0 } 4 [98, 101] 258 with | .ok b => contents b | _ => []) = [0, 0, 1, 2] := by decide

end JanetModel.Lib.BufPush

namespace JanetModel.Lib.ArrC
open JanetModel.Lib JanetModel.Lib.CLoop

/-- ★ `array/new-filled`: raises for a negative count (`janet_getnat`), otherwise `count` copies of the value -/
theorem newFilled_eq_spec {α : Type} [Inhabited α] (count : Int) (x : α) :
    ArrC.newFilled count x = if count < 0 then .panic else .ok (List.replicate count.toNat x) := by
  unfold ArrC.newFilled
  by_cases hc : count < 0
  · simp [hc]
  · simp only [hc, if_false]
    rw [fill_loop _ default _ (fun _ => x) (fun i buf hi hsz => setIdx_ok _ _ _ (by omega))]
    simp only [R.ok_bind, R.pure_eq]
    congr 1
    apply List.ext_getElem?
    intro k
    by_cases hk : k < count.toNat <;> simp [hk]

/-- ★ `array/push`: raises exactly when the new count would reach INT32_MAX (the guard `INT32_MAX - argc + 1 <= count`),
    otherwise appends the arguments; neither the guard nor `count - 1 + argc` overflows an int32 -/
theorem pushC_eq_spec {α : Type} [Inhabited α] (a xs : List α) (ha : Len32 a) (hx : (xs.length : Int) + 1 ≤ int32Max) :
    ArrC.pushC a xs = if int32Max ≤ (a.length : Int) + (xs.length : Int) then .panic else .ok (a ++ xs) := by
  unfold ArrC.pushC Len32 at *
  unfold int32Max at *
  have e1 : in32 ((2147483647 : Int) - (1 + (xs.length : Int))) = true := by
    unfold in32 int32Min int32Max; simp only [decide_eq_true_eq]; omega
  have e2 : in32 ((2147483647 : Int) - (1 + (xs.length : Int)) + 1) = true := by
    unfold in32 int32Min int32Max; simp only [decide_eq_true_eq]; omega
  simp only [sub32, add32, e1, e2, if_true, R.ok_bind]
  by_cases hov : (2147483647 : Int) ≤ (a.length : Int) + (xs.length : Int)
  · have : (2147483647 : Int) - (1 + (xs.length : Int)) + 1 ≤ (a.length : Int) := by omega
    simp only [this, if_true, hov]
  · have hn : ¬ ((2147483647 : Int) - (1 + (xs.length : Int)) + 1 ≤ (a.length : Int)) := by omega
    have e3 : in32 ((a.length : Int) - 1) = true := by
      unfold in32 int32Min int32Max; simp only [decide_eq_true_eq]; omega
    have e4 : in32 ((a.length : Int) - 1 + (1 + (xs.length : Int))) = true := by
      unfold in32 int32Min int32Max; simp only [decide_eq_true_eq]; omega
    have e5 : in32 ((1 : Int) + (xs.length : Int) - 1) = true := by
      unfold in32 int32Min int32Max; simp only [decide_eq_true_eq]; omega
    have hnc : (a.length : Int) - 1 + (1 + (xs.length : Int)) = ((a.length + xs.length : Nat) : Int) := by omega
    have hn2 : (1 : Int) + (xs.length : Int) - 1 = ((xs.length : Nat) : Int) := by omega
    simp only [hn, hov, if_false, e3, e4, e5, if_true, R.ok_bind]
    rw [hnc, hn2]
    have h1 : ¬ (((a.length + xs.length : Nat) : Int) < (a.length : Int)) := by omega
    have h2 : ¬ (((xs.length : Nat) : Int) < 0) := by omega
    simp only [h1, h2, if_false, Int.toNat_natCast]
    by_cases hxs : (1 : Int) + (xs.length : Int) > 1
    · simp only [hxs, if_true]
      rw [memcpy_whole _ xs a.length (by simp)]
      simp only [R.ok_bind, R.pure_eq]
      congr 1
      rw [take_splice _ _ _ (by simp)]
      simp
    · have : xs = [] := by
        cases xs with
        | nil => rfl
        | cons _ _ => simp at hxs; omega
      subst this
      simp

theorem getLast?_eq_getElem? {α : Type} (a : List α) : a.getLast? = a[a.length - 1]? := by
  rw [List.getLast?_eq_getElem?]

/-- ★ `array/pop` (value and array after) and `array/peek`: nil for an empty array, else the last element; `--count` and
    `count - 1` stay inside the array -/
theorem pop_peek_eq_spec {α : Type} (a : List α) (ha : Len32 a) :
    ArrC.pop a = .ok (a.getLast?, a.dropLast) ∧ ArrC.peek a = .ok a.getLast? := by
  unfold ArrC.pop ArrC.peek Len32 at *
  by_cases h0 : a.length = 0
  · have : a = [] := List.eq_nil_of_length_eq_zero h0
    subst this
    simp
  · have e : in32 ((a.length : Int) - 1) = true := by
      unfold in32 int32Min int32Max at *; simp only [decide_eq_true_eq]; omega
    have hc : (a.length : Int) - 1 = ((a.length - 1 : Nat) : Int) := by omega
    simp only [h0, ne_eq, not_false_eq_true, if_true, sub32, e, R.ok_bind]
    rw [hc, idx_list_ok a (a.length - 1) (by omega)]
    simp only [R.ok_bind, R.pure_eq, Int.toNat_natCast]
    have hl : a.getLast? = some a[a.length - 1] := by
      rw [getLast?_eq_getElem?, List.getElem?_eq_getElem (by omega)]
    rw [hl, List.dropLast_eq_take]
    exact ⟨rfl, rfl⟩

example : ArrC.pushC [1, 2] [3, 4] = .ok [1, 2, 3, 4] ∧ ArrC.pop [1, 2, 3] = .ok (some 3, [1, 2]) ∧
    ArrC.peek ([] : List Nat) = .ok none ∧ ArrC.newFilled 3 7 = .ok [7, 7, 7] := by decide

end JanetModel.Lib.ArrC
