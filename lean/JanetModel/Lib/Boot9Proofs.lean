import JanetModel.Lib.Boot9
import JanetModel.Lib.BootProofs
/- C17 (session 4): `flatten` returns the leaves in left-to-right order for every nesting (fuel > depth). -/
namespace JanetModel.Lib.Boot
open JanetModel.Lib JanetModel.Lib.JIter

theorem flatList_append {α : Type} (a b : List (Nest α)) : flatList (a ++ b) = flatList a ++ flatList b := by
  induction a with
  | nil => simp [flatList]
  | cons x xs ih => simp [flatList, ih]

theorem depth_le_of_mem {α : Type} (x : Nest α) : ∀ xs : List (Nest α), x ∈ xs → x.depth ≤ depthList xs
  | [], h => by simp at h
  | y :: ys, h => by
    simp only [depthList]
    rcases List.mem_cons.mp h with h | h
    · subst h; omega
    · have := depth_le_of_mem x ys h; omega

/-- ★ `flatten-into` appends the leaves of `xs` to `into`, whenever the fuel exceeds the nesting depth -/
theorem flattenInto_spec {α : Type} : ∀ (fuel : Nat) (into : Array α) (xs : List (Nest α)), depthList xs < fuel →
    flattenInto fuel into xs = .ok (into ++ (flatList xs).toArray) := by
  intro fuel
  induction fuel with
  | zero => intro _ _ h; omega
  | succ n ih =>
    intro into xs hd
    unfold flattenInto each
    rw [nextKey_nil]
    obtain ⟨s', hs, hP⟩ := eachLoop_inv xs (fun _ x into => flattenBody (flattenInto n) x into)
      (fun i s => s = into ++ (flatList (xs.take i)).toArray) (fun _ => False)
      (by
        intro i h s hP
        left
        have hmem : xs[i] ∈ xs := List.getElem_mem h
        have hdx := depth_le_of_mem xs[i] xs hmem
        rw [List.take_succ_eq_append_getElem h, flatList_append]
        cases hx : xs[i] with
        | leaf v =>
          refine ⟨s.push v, by simp [flattenBody], ?_⟩
          subst hP
          simp [flatList, Nest.flat]
        | node ys =>
          rw [hx] at hdx
          simp only [Nest.depth] at hdx
          refine ⟨s ++ (flatList ys).toArray, by simp only [flattenBody]; rw [ih s ys (by omega)], ?_⟩
          subst hP
          simp [flatList, Nest.flat])
      (xs.length + 1) 0 into (by omega) (by omega) (by simp [flatList])
    rw [hs]
    rcases hP with h | h
    · rw [h, List.take_length]
    · exact absurd h id

/-- ★ `flatten` -/
theorem flatten_eq_spec {α : Type} (fuel : Nat) (xs : List (Nest α)) (h : depthList xs < fuel) :
    Boot.flatten fuel xs = .ok (flatList xs) := by
  unfold Boot.flatten
  rw [flattenInto_spec fuel #[] xs h]
  simp

example : Boot.flatten 3 [.leaf 1, .node [.leaf 2, .node [.leaf 3], .node []], .leaf 4] = .ok [1, 2, 3, 4] := by decide

end JanetModel.Lib.Boot
