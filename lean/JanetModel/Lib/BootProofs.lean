import JanetModel.Lib.Boot
import JanetModel.Lib.SpecLaws
/- C17: the mirrors of boot.janet sequence functions (Lib/Boot.lean: `next`/`in` loops, chained comparisons, slice calls)
   compute their declarative definitions for all inputs — in particular no `(in ds k)` is ever out of range, no
   `tuple/slice` / `string/slice` call raises, and every `while` loop ends within `length + 1` iterations. -/
namespace JanetModel.Lib.Boot
open JanetModel.Lib JanetModel.Lib.JIter JanetModel.Gen.Lib

/-- the key the each-loop holds when it is about to process element `i` -/
def keyAt (len i : Nat) : Option Nat := if i < len then some i else none
/-- the key a `(set k (next ds k))`-first loop holds *before* it advances to element `i` -/
def prevKey (i : Nat) : Option Nat := if i = 0 then none else some (i - 1)

theorem nextKey_keyAt (len i : Nat) : nextKey len (some i) = keyAt len (i + 1) := rfl
theorem nextKey_nil (len : Nat) : nextKey len none = keyAt len 0 := rfl
theorem nextKey_prevKey (len i : Nat) : nextKey len (prevKey i) = keyAt len i := by
  unfold prevKey keyAt
  by_cases hi : i = 0
  · subst hi; rfl
  · simp only [hi, if_false, nextKey]
    have : i - 1 + 1 = i := by omega
    rw [this]

/-- invariant rule for `each`, with `(break)`: `P i s` before element `i`; a breaking iteration establishes `Q` -/
theorem eachLoop_inv {α σ : Type} (ds : List α) (body : Nat → α → σ → R (σ × Bool)) (P : Nat → σ → Prop) (Q : σ → Prop)
    (hstep : ∀ i (h : i < ds.length) s, P i s →
      (∃ s', body i ds[i] s = .ok (s', false) ∧ P (i + 1) s') ∨ (∃ s', body i ds[i] s = .ok (s', true) ∧ Q s')) :
    ∀ fuel i s, i ≤ ds.length → ds.length - i ≤ fuel → P i s →
      ∃ s', eachLoop ds body fuel (keyAt ds.length i) s = .ok s' ∧ (P ds.length s' ∨ Q s') := by
  intro fuel
  induction fuel with
  | zero =>
    intro i s hi hf hP
    have : i = ds.length := by omega
    subst this
    exact ⟨s, by simp [eachLoop, keyAt], Or.inl hP⟩
  | succ n ih =>
    intro i s hi hf hP
    by_cases hlt : i < ds.length
    · simp only [eachLoop, keyAt, hlt, if_true, inIdx_of_lt ds i hlt]
      rcases hstep i hlt s hP with ⟨s', hb, hP'⟩ | ⟨s', hb, hQ⟩
      · simp only [hb, Bool.false_eq_true, if_false, nextKey_keyAt]
        exact ih (i + 1) s' (by omega) (by omega) hP'
      · simp only [hb, if_true]
        exact ⟨s', rfl, Or.inr hQ⟩
    · have : i = ds.length := by omega
      subst this
      exact ⟨s, by simp [eachLoop, keyAt], Or.inl hP⟩

/-- `each` whose body never breaks is a left fold -/
theorem each_fold {α σ : Type} (ds : List α) (body : Nat → α → σ → R (σ × Bool)) (f : σ → α → σ) (init : σ)
    (hb : ∀ i x s, body i x s = .ok (f s x, false)) : each ds body init = .ok (ds.foldl f init) := by
  unfold each
  rw [nextKey_nil]
  obtain ⟨s', hs, hP⟩ := eachLoop_inv ds body (fun i s => s = (ds.take i).foldl f init) (fun _ => False)
    (fun i h s hP => Or.inl ⟨f s ds[i], hb i ds[i] s, by
      rw [List.take_succ_eq_append_getElem h, List.foldl_append, ← hP]; rfl⟩)
    (ds.length + 1) 0 init (by omega) (by omega) (by simp)
  rw [hs]
  rcases hP with h | h
  · rw [h, List.take_length]
  · exact absurd h id

/-- ★ `reduce` is the left fold (= `Spec.reduce`) -/
theorem reduce_eq_spec {α β : Type} (f : β → α → β) (init : β) (ind : List α) :
    Boot.reduce f init ind = .ok (Lib.reduce f init ind) :=
  each_fold ind _ f init (fun _ _ _ => rfl)

theorem foldl_push_filter {α : Type} (pred : α → Bool) (l : List α) (acc : Array α) :
    (l.foldl (fun (res : Array α) item => if pred item then res.push item else res) acc).toList
      = acc.toList ++ l.filter pred := by
  induction l generalizing acc with
  | nil => simp
  | cons x xs ih =>
    simp only [List.foldl_cons, List.filter_cons]
    rw [ih]
    by_cases hp : pred x = true
    · simp [hp]
    · simp [hp]

/-- ★ `filter` -/
theorem filter_eq_spec {α : Type} (pred : α → Bool) (ind : List α) : Boot.filter pred ind = .ok (ind.filter pred) := by
  unfold Boot.filter
  rw [each_fold ind _ (fun (res : Array α) item => if pred item then res.push item else res) #[] (fun _ _ _ => rfl)]
  simp only [R.ok_bind, R.pure_eq]
  rw [foldl_push_filter]; simp

theorem foldl_push_map {α β : Type} (f : α → β) (l : List α) (acc : Array β) :
    (l.foldl (fun (res : Array β) x => res.push (f x)) acc).toList = acc.toList ++ l.map f := by
  induction l generalizing acc with
  | nil => simp
  | cons x xs ih => simp only [List.foldl_cons, List.map_cons]; rw [ih]; simp

/-- ★ `map` over one sequence -/
theorem map1_eq_spec {α β : Type} (f : α → β) (ind : List α) : Boot.map1 f ind = .ok (ind.map f) := by
  unfold Boot.map1
  rw [each_fold ind _ (fun (res : Array β) x => res.push (f x)) #[] (fun _ _ _ => rfl)]
  simp only [R.ok_bind, R.pure_eq]
  rw [foldl_push_map]; simp

theorem foldl_count {α : Type} (pred : α → Bool) (l : List α) (acc : Nat) :
    l.foldl (fun (res : Nat) x => if pred x then res + 1 else res) acc = acc + l.countP pred := by
  induction l generalizing acc with
  | nil => simp
  | cons x xs ih =>
    simp only [List.foldl_cons, List.countP_cons]
    rw [ih]
    by_cases hp : pred x = true
    · simp [hp]; omega
    · simp [hp]

/-- ★ `count` over one sequence -/
theorem count1_eq_spec {α : Type} (pred : α → Bool) (ind : List α) : Boot.count1 pred ind = .ok (ind.countP pred) := by
  unfold Boot.count1
  rw [each_fold ind _ (fun (res : Nat) x => if pred x then res + 1 else res) 0 (fun _ _ _ => rfl), foldl_count]
  simp

/-- ★ `sum` / `product` -/
theorem sum_eq_spec (xs : List Int) : Boot.sum xs = .ok (sumI xs) :=
  each_fold xs _ (fun accum x => accum + x) 0 (fun _ _ _ => rfl)
theorem product_eq_spec (xs : List Int) : Boot.product xs = .ok (productI xs) :=
  each_fold xs _ (fun accum x => accum * x) 1 (fun _ _ _ => rfl)

/-! ### map over two sequences stops at the shorter one -/

theorem zipWith_take_snoc {α β γ : Type} (f : α → β → γ) (a : List α) (b : List β) (i : Nat) (ha : i < a.length) (hb : i < b.length) :
    List.zipWith f (a.take (i + 1)) (b.take (i + 1)) = List.zipWith f (a.take i) (b.take i) ++ [f a[i] b[i]] := by
  rw [List.take_succ_eq_append_getElem ha, List.take_succ_eq_append_getElem hb]
  rw [List.zipWith_append (by simp; omega)]
  rfl

theorem zipWith_take_of_le {α β γ : Type} (f : α → β → γ) (a : List α) (b : List β) (n : Nat)
    (hn : min a.length b.length ≤ n) : List.zipWith f (a.take n) (b.take n) = List.zipWith f a b := by
  apply List.ext_getElem?
  intro k
  simp only [List.getElem?_zipWith, List.getElem?_take]
  by_cases hk : k < n
  · simp [hk]
  · simp only [hk, if_false]
    have : a[k]? = none ∨ b[k]? = none := by
      rcases Nat.le_total a.length b.length with h | h
      · left; rw [List.getElem?_eq_none_iff]; omega
      · right; rw [List.getElem?_eq_none_iff]; omega
    rcases this with h | h
    · simp [h]
    · cases ha : a[k]? <;> simp [h]

/-- ★ `(map f ind ind0)` (branch `map-n 1` of map-template) is `zipWith`: in particular its length is the shorter of the
    two, and neither `(in ind k)` nor `(in ind0 key0)` is ever out of range -/
theorem map2_eq_spec {α β γ : Type} (f : α → β → γ) (ind : List α) (ind0 : List β) :
    Boot.map2 f ind ind0 = .ok (List.zipWith f ind ind0) := by
  unfold Boot.map2 each
  rw [nextKey_nil]
  obtain ⟨⟨res, key0⟩, hs, hP⟩ := eachLoop_inv ind (map2Body f ind0)
    (fun i st => i ≤ ind0.length ∧ st.1.toList = List.zipWith f (ind.take i) (ind0.take i) ∧ st.2 = prevKey i)
    (fun st => st.1.toList = List.zipWith f ind ind0)
    (by
      intro i h ⟨res, key0⟩ ⟨hle, hres, hkey⟩
      simp only at hres hkey
      subst hkey
      simp only [map2Body, nextKey_prevKey, keyAt]
      by_cases hi0 : i < ind0.length
      · left
        simp only [hi0, if_true, inIdx_of_lt ind0 i hi0]
        refine ⟨_, rfl, by omega, ?_, by simp [prevKey]⟩
        simp only [Array.toList_push, hres]
        rw [zipWith_take_snoc f ind ind0 i h hi0]
      · right
        simp only [hi0, if_false]
        refine ⟨_, rfl, ?_⟩
        simp only [hres]
        exact zipWith_take_of_le f ind ind0 i (by omega))
    (ind.length + 1) 0 (#[], none) (by omega) (by omega) ⟨by omega, by simp, by simp [prevKey]⟩
  rw [hs]
  simp only [R.ok_bind, R.pure_eq]
  congr 1
  rcases hP with ⟨_, h, _⟩ | h
  · simp only at h
    rw [h]
    exact zipWith_take_of_le f ind ind0 ind.length (by omega)
  · exact h

example : Boot.map2 (fun (a b : Nat) => a + b) [1, 2, 3] [10, 20] = .ok [11, 22] ∧
    Boot.filter (fun (a : Nat) => a % 2 == 0) [1, 2, 3, 4] = .ok [2, 4] ∧ Boot.reduce (fun (a b : Nat) => a * 10 + b) 0 [1, 2, 3] = .ok 123 := by decide

/-! ### find-index and the functions built on it -/

theorem findIndexLoop_spec {α : Type} (pred : α → Bool) (ind : List α) :
    ∀ fuel i, i ≤ ind.length → ind.length - i + 1 ≤ fuel →
      findIndexLoop pred ind fuel (prevKey i) = .ok (((ind.drop i).findIdx? pred).map (· + i)) := by
  intro fuel
  induction fuel with
  | zero => intro i _ h; omega
  | succ n ih =>
    intro i hi hf
    simp only [findIndexLoop, nextKey_prevKey, keyAt]
    by_cases hlt : i < ind.length
    · simp only [hlt, if_true, inIdx_of_lt ind i hlt]
      rw [List.drop_eq_getElem_cons hlt, List.findIdx?_cons]
      by_cases hp : pred ind[i] = true
      · simp [hp]
      · simp only [hp, Bool.false_eq_true, if_false]
        have e : some i = prevKey (i + 1) := by simp [prevKey]
        rw [e, ih (i + 1) (by omega) (by omega)]
        congr 1
        cases (ind.drop (i + 1)).findIdx? pred with
        | none => rfl
        | some v => simp; omega
    · have : i = ind.length := by omega
      subst this
      simp

/-- ★ `find-index`: the least index whose element satisfies the predicate -/
theorem findIndex_eq_spec {α : Type} (pred : α → Bool) (ind : List α) :
    Boot.findIndex pred ind = .ok (ind.findIdx? pred) := by
  unfold Boot.findIndex
  have := findIndexLoop_spec pred ind (ind.length + 1) 0 (by omega) (by omega)
  simp only [prevKey, if_true, List.drop_zero, Nat.add_zero] at this
  rw [this]
  cases ind.findIdx? pred <;> rfl

theorem slice_nat {α : Type} (l : List α) (a b : Nat) (hab : a ≤ b) (hb : b ≤ l.length) :
    slice l (some (a : Int)) (some (b : Int)) = some ((l.drop a).take (b - a)) := by
  have ha : ¬ ((a : Int) < 0) := by omega
  have hb0 : ¬ ((b : Int) < 0) := by omega
  have ha2 : ¬ ((a : Int) > (l.length : Int)) := by omega
  have hb2 : ¬ ((b : Int) > (l.length : Int)) := by omega
  have hc : ¬ (b < a) := by omega
  simp [slice, getslice, startrange, endrange, halfrange, ha, hb0, ha2, hb2, hc]

theorem slice_nat_open {α : Type} (l : List α) (a : Nat) (ha : a ≤ l.length) :
    slice l (some (a : Int)) none = some (l.drop a) := by
  have h1 : ¬ ((a : Int) < 0) := by omega
  have h2 : ¬ ((a : Int) > (l.length : Int)) := by omega
  have hc : ¬ (l.length < a) := by omega
  simp [slice, getslice, startrange, endrange, halfrange, h1, h2, hc]
  apply List.take_of_length_le; simp

theorem takeWhile_not_eq_take {α : Type} (p : α → Bool) (l : List α) :
    l.takeWhile (fun x => !p x) = l.take ((l.findIdx? p).getD l.length) := by
  induction l with
  | nil => rfl
  | cons x xs ih =>
    rw [List.findIdx?_cons, List.takeWhile_cons]
    by_cases hp : p x = true
    · simp [hp]
    · simp only [hp, Bool.false_eq_true, if_false, Bool.not_eq_true] at *
      simp only [hp, Bool.not_false, if_true]
      cases h : xs.findIdx? p with
      | none => simp [h] at ih ⊢; exact ih
      | some v => simp [h] at ih ⊢; exact ih

theorem dropWhile_not_eq_drop {α : Type} (p : α → Bool) (l : List α) :
    l.dropWhile (fun x => !p x) = l.drop ((l.findIdx? p).getD l.length) := by
  induction l with
  | nil => rfl
  | cons x xs ih =>
    rw [List.findIdx?_cons, List.dropWhile_cons]
    by_cases hp : p x = true
    · simp [hp]
    · simp only [hp, Bool.false_eq_true, if_false, Bool.not_eq_true] at *
      simp only [hp, Bool.not_false, if_true]
      cases h : xs.findIdx? p with
      | none => simp [h] at ih ⊢; exact ih
      | some v => simp [h] at ih ⊢; exact ih

theorem findIdx?_le {α : Type} (p : α → Bool) (l : List α) : (l.findIdx? p).getD l.length ≤ l.length := by
  induction l with
  | nil => simp
  | cons x xs ih =>
    rw [List.findIdx?_cons]
    by_cases hp : p x = true
    · simp [hp]
    · simp only [hp, Bool.false_eq_true, if_false]
      cases h : xs.findIdx? p with
      | none => simp
      | some v => simp [h] at ih ⊢; omega

/-- ★ `take-until`: the slice call never raises and yields the longest prefix without a `pred` element -/
theorem takeUntil_eq_spec {α : Type} (pred : α → Bool) (ind : List α) :
    Boot.takeUntil pred ind = .ok (ind.takeWhile (fun x => !pred x)) := by
  unfold Boot.takeUntil
  rw [findIndex_eq_spec]
  simp only [R.ok_bind]
  have hle := findIdx?_le pred ind
  have e : idxOr (ind.findIdx? pred) (ind.length : Int) = (((ind.findIdx? pred).getD ind.length : Nat) : Int) := by
    cases ind.findIdx? pred <;> rfl
  rw [e]
  have := slice_nat ind 0 ((ind.findIdx? pred).getD ind.length) (by omega) hle
  simp only [Int.natCast_zero, List.drop_zero, Nat.sub_zero] at this
  rw [this, takeWhile_not_eq_take]
  rfl

/-- ★ `take-while` = `take-until (complement pred)` -/
theorem takeWhile_eq_spec {α : Type} (pred : α → Bool) (ind : List α) :
    Boot.takeWhile pred ind = .ok (takeWhileL pred ind) := by
  unfold Boot.takeWhile
  rw [takeUntil_eq_spec]
  unfold complement takeWhileL
  simp

/-- ★ `drop-until` / `drop-while` -/
theorem dropUntil_eq_spec {α : Type} (pred : α → Bool) (ind : List α) :
    Boot.dropUntil pred ind = .ok (ind.dropWhile (fun x => !pred x)) := by
  unfold Boot.dropUntil
  rw [findIndex_eq_spec]
  simp only [R.ok_bind]
  have hle := findIdx?_le pred ind
  have e : idxOr (ind.findIdx? pred) (ind.length : Int) = (((ind.findIdx? pred).getD ind.length : Nat) : Int) := by
    cases ind.findIdx? pred <;> rfl
  rw [e, slice_nat_open ind _ hle, dropWhile_not_eq_drop]
  rfl

theorem dropWhile_eq_spec {α : Type} (pred : α → Bool) (ind : List α) :
    Boot.dropWhile pred ind = .ok (dropWhileL pred ind) := by
  unfold Boot.dropWhile
  rw [dropUntil_eq_spec]
  unfold complement dropWhileL
  simp

/-! ### take / drop -/

/-- ★ `(take n ind)` for EVERY number `n` (also `n < -len`, `n > len`): the `tuple/slice` / `string/slice` call never
    raises and the result is the first `n` (last `-n`) elements -/
theorem take_eq_spec {α : Type} (n : Int) (ind : List α) : Boot.take n ind = .ok (takeN n ind) := by
  unfold Boot.take takeNSlice takeN
  simp only
  by_cases hn : 0 ≤ n
  · have h1 : ¬ (n < 0 ∧ 0 < (ind.length : Int) + n) := by omega
    simp only [h1, if_false, ge_iff_le, hn, if_true, true_and]
    obtain ⟨k, rfl⟩ : ∃ k : Nat, n = (k : Int) := ⟨n.toNat, by omega⟩
    by_cases hk : (k : Int) ≤ (ind.length : Int)
    · simp only [hk, if_true]
      have := slice_nat ind 0 k (by omega) (by omega)
      simp only [Int.natCast_zero, List.drop_zero, Nat.sub_zero] at this
      rw [this]; simp
    · simp only [hk, if_false]
      have := slice_nat ind 0 ind.length (by omega) (by omega)
      simp only [Int.natCast_zero, List.drop_zero, Nat.sub_zero, List.take_length] at this
      rw [this]
      simp only [R.ofOption_some, Int.toNat_natCast]
      congr 1
      symm; apply List.take_of_length_le; omega
  · have h2 : ¬ (0 ≤ n ∧ n ≤ (ind.length : Int)) := by omega
    have h3 : ¬ (n ≥ 0) := by omega
    have hend : (if 0 ≤ n ∧ n ≤ (ind.length : Int) then n else (ind.length : Int)) = (ind.length : Int) := if_neg h2
    rw [hend]
    simp only [h3, if_false]
    obtain ⟨k, hk⟩ : ∃ k : Nat, -n = (k : Int) := ⟨(-n).toNat, by omega⟩
    rw [hk]
    simp only [Int.toNat_natCast]
    by_cases hm : 0 < (ind.length : Int) + n
    · have : n < 0 ∧ 0 < (ind.length : Int) + n := ⟨by omega, hm⟩
      simp only [this, and_self, if_true]
      have e : (ind.length : Int) + n = ((ind.length - k : Nat) : Int) := by omega
      rw [e, slice_nat ind (ind.length - k) ind.length (by omega) (by omega)]
      simp only [R.ofOption_some]
      congr 1
      apply List.take_of_length_le; simp
    · have : ¬ (n < 0 ∧ 0 < (ind.length : Int) + n) := by omega
      simp only [this, if_false]
      have hs := slice_nat ind 0 ind.length (by omega) (by omega)
      simp only [Int.natCast_zero, List.drop_zero, Nat.sub_zero, List.take_length] at hs
      rw [hs]
      simp only [R.ofOption_some]
      have : ind.length - k = 0 := by omega
      rw [this]; simp

/-- ★ `(drop n ind)` for EVERY number `n` -/
theorem drop_eq_spec {α : Type} (n : Int) (ind : List α) : Boot.drop n ind = .ok (dropN n ind) := by
  unfold Boot.drop dropNSlice dropN
  simp only
  by_cases h1 : 0 ≤ n ∧ n ≤ (ind.length : Int)
  · obtain ⟨k, rfl⟩ : ∃ k : Nat, n = (k : Int) := ⟨n.toNat, by omega⟩
    have : (k : Int) ≥ 0 := by omega
    simp only [h1, and_self, if_true, this, Int.toNat_natCast]
    rw [slice_nat_open ind k (by omega)]; rfl
  · simp only [h1, if_false]
    by_cases h2 : -(ind.length : Int) < n ∧ n < 0
    · obtain ⟨k, hk⟩ : ∃ k : Nat, -n = (k : Int) := ⟨(-n).toNat, by omega⟩
      have h3 : ¬ (n ≥ 0) := by omega
      simp only [h2, and_self, if_true, h3, if_false, hk, Int.toNat_natCast]
      have e : (ind.length : Int) + n = ((ind.length - k : Nat) : Int) := by omega
      have := slice_nat ind 0 (ind.length - k) (by omega) (by omega)
      simp only [Int.natCast_zero, List.drop_zero, Nat.sub_zero] at this
      rw [e, this]; rfl
    · simp only [h2, if_false]
      rw [slice_nat_open ind ind.length (Nat.le_refl _)]
      simp only [R.ofOption_some, List.drop_length]
      congr 1
      by_cases hn : n ≥ 0
      · simp only [hn, if_true]
        symm; apply List.drop_of_length_le; omega
      · simp only [hn, if_false]
        have : ind.length - (-n).toNat = 0 := by omega
        rw [this]; simp

example : Boot.take (-2) [1, 2, 3] = .ok [2, 3] ∧ Boot.take (-7) [1, 2, 3] = .ok [1, 2, 3] ∧ Boot.drop (-1) [1, 2, 3] = .ok [1, 2]
    ∧ Boot.drop 9 [1, 2, 3] = .ok [] ∧ Boot.takeWhile (fun (x : Nat) => x < 3) [1, 2, 3, 1] = .ok [1, 2] := by decide

/-! ### extreme -/

theorem extremeLoop_spec {α : Type} (order : α → α → Bool) (ds : List α) :
    ∀ fuel i ret, 1 ≤ i → i ≤ ds.length → ds.length - i + 1 ≤ fuel →
      extremeLoop order ds fuel (some (i - 1)) ret
        = .ok ((ds.drop i).foldl (fun ret y => if order y ret then y else ret) ret) := by
  intro fuel
  induction fuel with
  | zero => intro i ret _ _ h; omega
  | succ n ih =>
    intro i ret h1 hi hf
    have e : some (i - 1) = prevKey i := by
      unfold prevKey
      have : ¬ (i = 0) := by omega
      simp [this]
    simp only [extremeLoop, e, nextKey_prevKey, keyAt]
    by_cases hlt : i < ds.length
    · simp only [hlt, if_true, inIdx_of_lt ds i hlt]
      have := ih (i + 1) (if order ds[i] ret then ds[i] else ret) (by omega) (by omega) (by omega)
      simp only [Nat.add_sub_cancel] at this
      rw [this, List.drop_eq_getElem_cons hlt, List.foldl_cons]
    · have : i = ds.length := by omega
      subst this
      simp

/-- ★ `extreme` / `max` / `min` / `max-of` / `min-of` (macro `do-extreme`): nil for an empty sequence, otherwise the left
    fold that keeps the current value unless the next one is `order`-better -/
theorem extreme_eq_spec {α : Type} (order : α → α → Bool) (ds : List α) :
    Boot.extreme order ds = .ok (Lib.extreme order ds) := by
  cases ds with
  | nil => rfl
  | cons x xs =>
    unfold Boot.extreme Lib.extreme
    simp only [nextKey, List.length_cons, Nat.zero_lt_succ, if_true, getIdx, List.getElem?_cons_zero]
    have := extremeLoop_spec order (x :: xs) ((x :: xs).length + 1) 1 x (by omega) (by simp) (by simp)
    simp only [Nat.sub_self, List.drop_one, List.tail_cons] at this
    simp only [List.length_cons] at this
    rw [this]
    rfl

example : Boot.extreme (fun (a b : Int) => decide (a > b)) [3, 9, 2, 9] = .ok (some 9) ∧
    Boot.extreme (fun (a b : Int) => decide (a < b)) [] = .ok none := by decide

end JanetModel.Lib.Boot
