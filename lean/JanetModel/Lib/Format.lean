/- C17: reference definition of the integer / character / string subset of janet's printf-style formatter
   (`string/format`, `buffer/format`; pp.c janet_buffer_format + scanformat + C `snprintf`):
       %%   %d %i   %x %X %o   %c   %s      with flags  - + space 0 #,  width (≤ 2 digits),  .precision (≤ 2 digits)
   Everything else (`%f %g %v %q %p %j …`) is reported as `unsupported` and stays test-only.  Core Lean only. -/
import JanetModel.Lib.Spec
namespace JanetModel.Lib.Format
open JanetModel.Lib

inductive FArg where
  | int (i : Int)
  | bytes (b : Bytes)
  | other
  deriving Repr

/-- result: formatted bytes, an error (with what had been appended so far — visible for `buffer/format`), or a directive
    outside the modelled subset -/
inductive FRes where
  | ok (out : Bytes)
  | err (partialOut : Bytes)
  | unsupported
  deriving Repr, DecidableEq

structure Flags where
  minus : Bool := false
  plus : Bool := false
  space : Bool := false
  hash : Bool := false
  zero : Bool := false
  deriving Repr

def isFlag (c : Nat) : Bool := c == 45 || c == 43 || c == 32 || c == 35 || c == 48     -- "-+ #0"
def isDigit (c : Nat) : Bool := 48 ≤ c && c ≤ 57

def mkFlags (fl : Bytes) : Flags :=
  { minus := fl.contains 45, plus := fl.contains 43, space := fl.contains 32, hash := fl.contains 35, zero := fl.contains 48 }

/-- digits of `n` in `base` (lower case) as bytes -/
def digits (base : Nat) (n : Nat) : Bytes := (Nat.toDigits base n).map Char.toNat

def upcase (b : Bytes) : Bytes := b.map (fun c => if 97 ≤ c ∧ c ≤ 122 then c - 32 else c)

def padLeft (c : Nat) (w : Nat) (b : Bytes) : Bytes := List.replicate (w - b.length) c ++ b

/-- C `printf` layout of a converted number: `sign/prefix`, digits with precision, then width padding -/
def layout (f : Flags) (width : Nat) (prec : Option Nat) (pre : Bytes) (digs : Bytes) : Bytes :=
  let digs := match prec with
    | some p => padLeft 48 p digs
    | none => digs
  let body := pre ++ digs
  if f.minus then body ++ List.replicate (width - body.length) 32
  else if f.zero && prec.isNone then pre ++ padLeft 48 (width - pre.length) digs
  else padLeft 32 width body

/-- `%d` / `%i` -/
def fmtSigned (f : Flags) (width : Nat) (prec : Option Nat) (n : Int) : Bytes :=
  let sign : Bytes := if n < 0 then [45] else if f.plus then [43] else if f.space then [32] else []
  let digs := if n == 0 && prec == some 0 then [] else digits 10 n.natAbs
  layout f width prec sign digs

/-- `%x` `%X` `%o` of a non-negative number -/
def fmtUnsigned (conv : Nat) (f : Flags) (width : Nat) (prec : Option Nat) (n : Nat) : Bytes :=
  let base := if conv == 111 then 8 else 16
  let digs0 := if n == 0 && prec == some 0 then [] else digits base n
  let digs0 := if conv == 88 then upcase digs0 else digs0
  if conv == 111 then
    -- '#' for octal: increase the precision so that the first digit is 0
    let digs := match prec with | some p => padLeft 48 p digs0 | none => digs0
    let digs := if f.hash && digs.head? != some 48 then 48 :: digs else digs
    layout f width (if prec.isSome then some 0 else none) [] digs
  else
    let pre : Bytes := if f.hash && n != 0 then (if conv == 88 then [48, 88] else [48, 120]) else []
    layout f width prec pre digs0

/-- `%s` with flags / width / precision (through C `snprintf`): truncated to the precision, padded to the width -/
def fmtString (f : Flags) (width : Nat) (prec : Option Nat) (s : Bytes) : Bytes :=
  let s := match prec with | some p => s.take p | none => s
  if f.minus then s ++ List.replicate (width - s.length) 32 else padLeft 32 width s

def numOf (ds : Bytes) : Nat := ds.foldl (fun acc d => acc * 10 + (d - 48)) 0

/-- `.precision` of a directive: the digits (if there is a `.`) and what follows -/
def precPart (r2 : Bytes) : Option Bytes × Bytes :=
  match r2 with
  | 46 :: r => let ds := (r.takeWhile isDigit).take 2; (some ds, r.drop ds.length)
  | _ => (none, r2)

/-- the main loop of janet_buffer_format over the format bytes -/
def go : Nat → Bytes → List FArg → Bytes → FRes
  | 0, _, _, out => .ok out
  | _, [], _, out => .ok out
  | fuel + 1, c :: rest, args, out =>
    if c != 37 then go fuel rest args (out ++ [c]) else
    match rest with
    | [] => -- a lone '%' at the end: `*++strfrmt` is the terminating NUL, treated as a format item without conversion
      .unsupported
    | 37 :: rest' => go fuel rest' args (out ++ [37])
    | _ =>
      match args with
      | [] => .err out                                   -- "not enough values for format"
      | a :: args' =>
        let fl := rest.takeWhile isFlag
        let r1 := rest.dropWhile isFlag
        if fl.length ≥ 6 then .err out else                -- "invalid format (repeated flags)"
        let w := (r1.takeWhile isDigit).take 2
        let r2 := r1.drop w.length
        let p := (precPart r2).1
        let r3 := (precPart r2).2
        match r3 with
        | [] => .unsupported
        | conv :: r4 =>
          if isDigit conv then .err out else               -- "width or precision too long"
          let f := mkFlags fl
          let width := numOf w
          let prec := p.map numOf
          if conv == 100 || conv == 105 then                -- d i
            match a with
            | .int n => go fuel r4 args' (out ++ fmtSigned f width prec n)
            | _ => .err out
          else if conv == 120 || conv == 88 || conv == 111 then   -- x X o
            match a with
            | .int n => if n < 0 then .unsupported else go fuel r4 args' (out ++ fmtUnsigned conv f width prec n.toNat)
            | _ => .err out
          else if conv == 99 then                            -- c
            match a with
            | .int n =>
              if f.zero || f.plus || f.space || f.hash || prec.isSome then .unsupported
              else if (getInt32 n).isNone then .err out
              else
                let ch := toByte n
                if ch == 0 then .unsupported else
                go fuel r4 args' (out ++ fmtString f width none [ch])
            | _ => .err out
          else if conv == 115 then                           -- s
            match a with
            | .bytes s =>
              if fl == [] && w == [] && p.isNone then go fuel r4 args' (out ++ s)   -- plain %s: raw bytes
              else if f.zero || f.plus || f.space || f.hash then .unsupported
              else if s.contains 0 then .err out               -- "string contains zeros"
              else if p.isNone && s.length ≥ 100 then .err out -- "no precision and string is too long"
              else go fuel r4 args' (out ++ fmtString f width prec s)
            | _ => .err out
          else .unsupported

/-- `(string/format fmt & args)`; the format is read as a C string (up to the first NUL) -/
def format (fmt : Bytes) (args : List FArg) : FRes :=
  let fmt := fmt.takeWhile (· != 0)
  go (fmt.length + 1) fmt args []

end JanetModel.Lib.Format
