import JanetModel.Lib.BufPushC
import JanetModel.Lib.SpecLaws
/- C17: the push family of buffer.c (Lib/BufPushC.lean) computes `Spec.bufferPushSt` / `Spec.bufferPushAt`: same contents
   on success AND at the moment of an error, `buffer/push-at`'s count restoration brings back the old tail bytes. -/
namespace JanetModel.Lib.BufPush
open JanetModel.Lib JanetModel.Lib.CLoop

/-- well-formed, and the cells of the original block `D` at positions ≥ count are still there -/
structure Inv (D : List Nat) (b : Buf) : Prop where
  wf : b.count ≤ b.data.size
  tail : ∀ k, b.count ≤ k → k < D.length → b.data.toList[k]? = D[k]?

theorem getElem?_splice_after {α : Type} (B X : List α) (p k : Nat) (h : p + X.length ≤ B.length) (hk : p + X.length ≤ k) :
    (splice B p X)[k]? = B[k]? := by
  unfold splice
  have hl : (B.take p ++ X).length = p + X.length := by simp; omega
  rw [List.getElem?_append_right (by omega), hl, List.getElem?_drop]
  congr 1; omega

theorem extra_spec (D : List Nat) (b : Buf) (n : Nat) (hI : Inv D b) (h32 : (b.count : Int) + (n : Int) ≤ int32Max) :
    ∃ b1, extra b n = .ok b1 ∧ b1.count = b.count ∧ b.count + n ≤ b1.data.size ∧ contents b1 = contents b ∧ Inv D b1 ∧
      b1.data.toList.take b.data.size = b.data.toList := by
  unfold extra
  have i64 : in64 ((n : Int) + (b.count : Int)) = true := by
    unfold int32Max at h32; unfold in64 int64Min int64Max; simp only [decide_eq_true_eq]; omega
  have hle : ¬ ((n : Int) + (b.count : Int) > int32Max) := by omega
  simp only [add64, i64, if_true, R.ok_bind, hle, if_false, R.pure_eq]
  refine ⟨_, rfl, rfl, by simp; omega, ?_, ⟨by simp; have := hI.wf; omega, ?_⟩, by simp⟩
  · unfold contents
    simp only [Array.toList_append, Array.toList_replicate]
    rw [List.take_append_of_le_length (by simpa using hI.wf)]
  · intro k hk hkD
    have h1 := hI.tail k hk hkD
    have hks : k < b.data.size := by
      rcases Nat.lt_or_ge k b.data.size with h | h
      · exact h
      · have : b.data.toList[k]? = none := by rw [List.getElem?_eq_none_iff]; simpa using h
        rw [this] at h1
        have : D[k]? ≠ none := by rw [ne_eq, List.getElem?_eq_none_iff]; omega
        exact absurd h1.symm this
    simp only [Array.toList_append, Array.toList_replicate]
    rw [List.getElem?_append_left (by simpa using hks)]
    exact h1

/-- writing `X` at `count`: the common core of push_u8 / push_bytes -/
theorem write_inv (D : List Nat) (b1 : Buf) (X : List Nat) (hI : Inv D b1) (hroom : b1.count + X.length ≤ b1.data.size) :
    let b' : Buf := { data := (splice b1.data.toList b1.count X).toArray, count := b1.count + X.length }
    contents b' = contents b1 ++ X ∧ Inv D b' := by
  have hB : b1.count + X.length ≤ b1.data.toList.length := by simpa using hroom
  refine ⟨?_, ⟨?_, ?_⟩⟩
  · unfold contents
    simp only [List.toList_toArray]
    exact take_splice _ _ _ hB
  · simp only [List.size_toArray, splice_length _ _ _ hB, Array.length_toList]; exact hroom
  · intro k hk hkD
    simp only [List.toList_toArray]
    simp only at hk
    rw [getElem?_splice_after _ _ _ _ hB hk]
    exact hI.tail k (by omega) hkD

theorem set_eq_splice (L : List Nat) (c v : Nat) (h : c < L.length) : L.set c v = splice L c [v] := by
  unfold splice
  apply List.ext_getElem?
  intro k
  rw [List.getElem?_set]
  by_cases hk : c = k
  · subst hk
    simp only [if_true, h]
    have hl : (List.take c L).length = c := by simp; omega
    rw [List.append_assoc, List.getElem?_append_right (by omega), hl]
    simp
  · simp only [hk, if_false]
    by_cases hlt : k < c
    · rw [List.append_assoc, List.getElem?_append_left (by simp; omega), List.getElem?_take_of_lt hlt]
    · have hl : (List.take c L ++ [v]).length = c + 1 := by simp; omega
      rw [List.getElem?_append_right (by omega), hl, List.getElem?_drop]
      simp only [List.length_singleton]
      congr 1; omega

theorem pushU8_spec (D : List Nat) (b : Buf) (byte : Nat) (hI : Inv D b) (h32 : (b.count : Int) + 1 ≤ int32Max) :
    ∃ b', pushU8 b byte = .ok b' ∧ contents b' = contents b ++ [byte] ∧ Inv D b' := by
  obtain ⟨b1, he, hc, hroom, hcont, hI1, _⟩ := extra_spec D b 1 hI (by simpa using h32)
  unfold pushU8
  rw [he]
  simp only [R.ok_bind]
  rw [setIdx_ok _ _ _ (by omega)]
  simp only [R.ok_bind, R.pure_eq]
  have hw := write_inv D b1 [byte] hI1 (by simp only [List.length_singleton]; omega)
  simp only [List.length_singleton] at hw
  refine ⟨_, rfl, ?_, ?_⟩
  · have : (b1.data.setIfInBounds b1.count byte) = (splice b1.data.toList b1.count [byte]).toArray := by
      apply Array.ext'
      simp only [Array.toList_setIfInBounds, List.toList_toArray]
      exact set_eq_splice _ _ _ (by simp; omega)
    rw [this, hw.1, hcont]
  · have : (b1.data.setIfInBounds b1.count byte) = (splice b1.data.toList b1.count [byte]).toArray := by
      apply Array.ext'
      simp only [Array.toList_setIfInBounds, List.toList_toArray]
      exact set_eq_splice _ _ _ (by simp; omega)
    rw [this]; exact hw.2

theorem pushBytes_spec (D : List Nat) (b : Buf) (src : Array Nat) (len : Nat) (hI : Inv D b) (hsrc : len ≤ src.size)
    (h32 : (b.count : Int) + (len : Int) ≤ int32Max) :
    ∃ b', pushBytes b src len = .ok b' ∧ contents b' = contents b ++ src.toList.take len ∧ Inv D b' := by
  unfold pushBytes
  by_cases hz : len = 0
  · subst hz
    exact ⟨b, by simp, by simp, hI⟩
  · simp only [hz, if_false]
    obtain ⟨b1, he, hc, hroom, hcont, hI1, _⟩ := extra_spec D b len hI h32
    rw [he]
    simp only [R.ok_bind]
    have m := memcpy_spec b1.data src b1.count 0 len (by omega) (by omega)
    simp only [Int.natCast_zero] at m
    rw [m]
    simp only [R.ok_bind, R.pure_eq, List.drop_zero]
    have hX : (src.toList.take len).length = len := by simp; omega
    have hw := write_inv D b1 (src.toList.take len) hI1 (by rw [hX]; omega)
    rw [hX] at hw
    unfold splice at hw
    rw [hX] at hw
    refine ⟨_, rfl, ?_, hw.2⟩
    rw [hw.1, hcont]

def argBytes (p : Bytes) : PushArg → Option Bytes
  | .byte x => (getInt32 x).map (fun v => [toByte v])
  | .bytes l => some l
  | .self => some p

theorem pushArg_spec (D : List Nat) (b : Buf) (a : PushArg) (hI : Inv D b)
    (h32 : ∀ X, argBytes (contents b) a = some X → (b.count : Int) + (X.length : Int) ≤ int32Max) :
    match argBytes (contents b) a with
    | none => pushArg b a = .panic
    | some X => ∃ b', pushArg b a = .ok b' ∧ contents b' = contents b ++ X ∧ Inv D b' := by
  cases a with
  | byte x =>
    simp only [argBytes, pushArg]
    unfold getinteger getInt32 in32
    by_cases hx : int32Min ≤ x ∧ x ≤ int32Max
    · simp only [hx, and_self, if_true, decide_true, Option.map_some, R.ok_bind]
      have := h32 [toByte x] (by simp [argBytes, getInt32, hx])
      exact pushU8_spec D b (toByte x) hI (by simpa using this)
    · simp [hx]
  | bytes l =>
    simp only [argBytes, pushArg]
    have := h32 l rfl
    obtain ⟨b', h1, h2, h3⟩ := pushBytes_spec D b l.toArray l.length hI (by simp) this
    exact ⟨b', h1, by simpa using h2, h3⟩
  | self =>
    simp only [argBytes, pushArg]
    have hlen : (contents b).length = b.count := by
      unfold contents; simp; exact Nat.min_eq_left hI.wf
    have h := h32 (contents b) rfl
    rw [hlen] at h
    obtain ⟨b1, he, hc, hroom, hcont, hI1, hpre⟩ := extra_spec D b b.count hI h
    rw [he]
    simp only [R.ok_bind]
    obtain ⟨b', h1, h2, h3⟩ := pushBytes_spec D b1 b1.data b.count hI1 (by omega) (by rw [hc]; exact h)
    refine ⟨b', h1, ?_, h3⟩
    rw [h2, hcont]
    congr 1
    -- the first `count` cells of the (grown) block are the old contents
    unfold contents
    have : List.take b.count b1.data.toList = List.take b.count (List.take b.data.size b1.data.toList) := by
      rw [List.take_take]; congr 1; have := hI.wf; omega
    rw [this, hpre]

theorem getInt32_cases (x : Int) : getInt32 x = none ∨ getInt32 x = some x := by
  unfold getInt32
  by_cases h : int32Min ≤ x ∧ x ≤ int32Max <;> simp [h]

theorem pushSt_len_ge (xs : List PushArg) (bs : Bytes) : bs.length ≤ (bufferPushSt bs xs).2.length := by
  induction xs generalizing bs with
  | nil => exact Nat.le_refl _
  | cons a rest ih =>
    cases a with
    | byte x =>
      simp only [bufferPushSt]
      rcases getInt32_cases x with hg | hg
      · simp only [hg]; exact Nat.le_refl _
      · simp only [hg]; have := ih (bs ++ [toByte x]); simp at this; omega
    | bytes l => simp only [bufferPushSt]; have := ih (bs ++ l); simp at this; omega
    | self => simp only [bufferPushSt]; have := ih (bs ++ bs); simp at this; omega

/-- ★ `buffer_push_impl` / `buffer/push` (numbers, byte sequences, the buffer itself): when the final length fits an int32,
    the buffer contents after the call — also after a call that raised on an ill-typed number — are those of the
    reference definition, the call raises exactly when the definition does, never UB, and the stale cells of the
    original block beyond the count are untouched. -/
theorem pushImpl_spec (D : List Nat) (xs : List PushArg) (b : Buf) (hI : Inv D b)
    (h32 : ((bufferPushSt (contents b) xs).2.length : Int) ≤ int32Max) :
    contents (pushImpl b xs).1 = (bufferPushSt (contents b) xs).2 ∧
    (pushImpl b xs).2 = (if (bufferPushSt (contents b) xs).1 then .ok () else .panic) ∧ Inv D (pushImpl b xs).1 := by
  induction xs generalizing b with
  | nil => exact ⟨rfl, rfl, hI⟩
  | cons a rest ih =>
    have hlen : (contents b).length = b.count := by
      unfold contents; simp; exact Nat.min_eq_left hI.wf
    have hstep := pushArg_spec D b a hI
    cases a with
    | byte x =>
      simp only [argBytes] at hstep
      simp only [bufferPushSt] at h32 ⊢
      rcases getInt32_cases x with hg | hg
      · simp only [hg, Option.map_none] at hstep ⊢
        have := hstep (fun X h => by simp at h)
        simp only [pushImpl, this]
        exact ⟨by simp, by simp, hI⟩
      · simp only [hg, Option.map_some] at hstep h32 ⊢
        have hge := pushSt_len_ge rest (contents b ++ [toByte x])
        simp only [List.length_append, hlen, List.length_singleton] at hge
        obtain ⟨b', h1, h2, h3⟩ := hstep (fun X h => by
          simp only [Option.some.injEq] at h; subst h; simp only [List.length_singleton]; omega)
        simp only [pushImpl, h1]
        have := ih b' h3 (by rw [h2]; exact h32)
        rw [h2] at this
        exact this
    | bytes l =>
      simp only [argBytes] at hstep
      simp only [bufferPushSt] at h32 ⊢
      have hge := pushSt_len_ge rest (contents b ++ l)
      simp only [List.length_append, hlen] at hge
      obtain ⟨b', h1, h2, h3⟩ := hstep (fun X h => by
        simp only [Option.some.injEq] at h; subst h; omega)
      simp only [pushImpl, h1]
      have := ih b' h3 (by rw [h2]; exact h32)
      rw [h2] at this
      exact this
    | self =>
      simp only [argBytes] at hstep
      simp only [bufferPushSt] at h32 ⊢
      have hge := pushSt_len_ge rest (contents b ++ contents b)
      simp only [List.length_append, hlen] at hge
      obtain ⟨b', h1, h2, h3⟩ := hstep (fun X h => by
        simp only [Option.some.injEq] at h; subst h; rw [hlen]; omega)
      simp only [pushImpl, h1]
      have := ih b' h3 (by rw [h2]; exact h32)
      rw [h2] at this
      exact this

theorem pushSt_ok_iff (xs : List PushArg) (bs : Bytes) :
    bufferPush bs xs = (if (bufferPushSt bs xs).1 then some (bufferPushSt bs xs).2 else none) := by
  induction xs generalizing bs with
  | nil => rfl
  | cons a rest ih =>
    cases a with
    | byte x =>
      simp only [bufferPush, bufferPushSt]
      rcases getInt32_cases x with hg | hg
      · simp [hg]
      · simp only [hg]; exact ih _
    | bytes l => simp only [bufferPush, bufferPushSt]; exact ih _
    | self => simp only [bufferPush, bufferPushSt]; exact ih _

/-- ★ `buffer/push-at buffer index & xs` on a buffer with contents `bs` (block = exactly those bytes): out-of-range index
    raises; on success the contents are `Spec.bufferPushAt` — the pushed bytes overwrite from `index`, and if they end
    before the old count the count is restored and the OLD tail bytes reappear (they were never overwritten). -/
theorem pushAt_eq_spec (bs : Bytes) (index : Int) (xs : List PushArg) (r : Bytes)
    (hspec : bufferPushAt bs index xs = some r) (h32 : (r.length : Int) ≤ int32Max) :
    contents (pushAt { data := bs.toArray, count := bs.length } index xs).1 = r ∧
    (pushAt { data := bs.toArray, count := bs.length } index xs).2 = .ok () := by
  unfold bufferPushAt at hspec
  by_cases hr : index < 0 ∨ index > (bs.length : Int)
  · simp [hr] at hspec
  · simp only [hr, if_false] at hspec
    obtain ⟨i, rfl⟩ : ∃ i : Nat, index = (i : Int) := ⟨index.toNat, by omega⟩
    have hi : i ≤ bs.length := by omega
    simp only [Int.toNat_natCast] at hspec
    cases hp : bufferPush (bs.take i) xs with
    | none => simp [hp] at hspec
    | some p =>
      simp only [hp, Option.some.injEq] at hspec
      subst hspec
      have hst := pushSt_ok_iff xs (bs.take i)
      rw [hp] at hst
      have hok : (bufferPushSt (bs.take i) xs).1 = true ∧ (bufferPushSt (bs.take i) xs).2 = p := by
        by_cases h : (bufferPushSt (bs.take i) xs).1 = true
        · simp [h] at hst; exact ⟨h, hst.symm⟩
        · simp [h] at hst
      let b1 : Buf := { data := bs.toArray, count := i }
      have hI : Inv bs b1 := ⟨by simpa [b1] using hi, fun k _ _ => by simp [b1]⟩
      have hc1 : contents b1 = bs.take i := by simp [contents, b1]
      have hplen : (p.length : Int) ≤ int32Max := by
        simp only [List.length_append, List.length_drop] at h32
        omega
      obtain ⟨g1, g2, g3⟩ := pushImpl_spec bs xs b1 hI (by rw [hc1, hok.2]; exact hplen)
      rw [hc1, hok.2] at g1
      rw [hc1, hok.1] at g2
      simp only [if_true] at g2
      unfold pushAt
      simp only [hr, if_false, Int.toNat_natCast]
      have hpair : pushImpl b1 xs = ((pushImpl b1 xs).1, R.ok ()) := by rw [← g2]
      have hb1 : ({ data := bs.toArray, count := i } : Buf) = b1 := rfl
      rw [hb1, hpair]
      simp only
      have hcnt : (pushImpl b1 xs).1.count = p.length := by
        have := congrArg List.length g1
        unfold contents at this
        simp only [List.length_take, Array.length_toList] at this
        have := g3.wf
        omega
      refine ⟨?_, trivial⟩
      by_cases hlt : (pushImpl b1 xs).1.count < bs.length
      · simp only [hlt, if_true]
        -- the restored tail
        unfold contents
        simp only
        apply List.ext_getElem?
        intro k
        by_cases hk : k < p.length
        · have e : (List.take bs.length (pushImpl b1 xs).1.data.toList)[k]? = (contents (pushImpl b1 xs).1)[k]? := by
            unfold contents
            rw [List.getElem?_take_of_lt (by omega), List.getElem?_take_of_lt (by omega)]
          rw [e, g1, List.getElem?_append_left hk]
        · rw [List.getElem?_append_right (by omega), List.getElem?_drop]
          have e : p.length + (k - p.length) = k := by omega
          rw [e]
          by_cases hkb : k < bs.length
          · rw [List.getElem?_take_of_lt hkb]
            exact g3.tail k (by omega) hkb
          · have h1 : (List.take bs.length (pushImpl b1 xs).1.data.toList)[k]? = none := by
              rw [List.getElem?_eq_none_iff]; simp; omega
            have h2 : bs[k]? = none := by rw [List.getElem?_eq_none_iff]; omega
            rw [h1, h2]
      · simp only [hlt, if_false]
        rw [g1]
        have : List.drop p.length bs = [] := List.drop_of_length_le (by omega)
        rw [this]; simp

example : contents (pushAt { data := #[1, 2, 3, 4, 5], count := 5 } 1 [.byte 9, .self]).1 = [1, 9, 1, 9, 5] := by decide
example : (push { data := #[1, 2], count := 2 } [.self, .byte 4294967296, .byte 7]).2 = .panic ∧
    contents (push { data := #[1, 2], count := 2 } [.self, .byte 4294967296, .byte 7]).1 = [1, 2, 1, 2] := by decide

end JanetModel.Lib.BufPush
