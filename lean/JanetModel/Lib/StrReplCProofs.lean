import JanetModel.Lib.StrReplC
import JanetModel.Lib.StrKmpCProofs
import JanetModel.Lib.BufPushCProofs
/- C17: `string/replace` and `string/replace-all` (string substitution values) as mirrored in Lib/StrReplC.lean compute
   the reference definitions: the int32 size/offset arithmetic of `replace` does not overflow, its three memcpys tile the
   new string exactly; the result buffer of `replace-all` grows by `janet_buffer_push_bytes` without overflow. -/
namespace JanetModel.Lib.StrC
open JanetModel.Lib JanetModel.Lib.CLoop JanetModel.Lib.BufPush

theorem memcpy_splice {α : Type} (dst src : Array α) (doff soff n : Nat) (h1 : soff + n ≤ src.size) (h2 : doff + n ≤ dst.size) :
    memcpy dst (doff : Int) src (soff : Int) n = .ok (splice dst.toList doff ((src.toList.drop soff).take n)).toArray := by
  rw [memcpy_spec dst src doff soff n h1 h2]
  unfold splice
  have : ((src.toList.drop soff).take n).length = n := by simp; omega
  rw [this]

/-- ★ `string/replace patt subst str &opt start` (string `subst`): errors as `findsetup`; without a match the text is
    copied; with a match at `r` the new string of `textlen - patlen + subst.len` bytes is tiled exactly by the three copies -/
theorem replace_eq_spec (pat subst text : Bytes) (start : Option Int)
    (hlen : (text.length : Int) - (pat.length : Int) + (subst.length : Int) ≤ int32Max) (ht : Len32 text) (hs : Len32 subst) :
    StrC.replace pat subst text start =
      match startNat start with
      | none => .panic
      | some st => R.ofOption (Lib.replace pat subst text st) := by
  unfold StrC.replace replacesetup
  rw [findsetup_spec]
  cases hst : startNat start with
  | none => rfl
  | some st =>
    simp only [Lib.replace]
    by_cases hp : pat = []
    · simp [hp]
    · simp only [hp, if_false, R.ok_bind]
      simp only [StrC.next]
      rw [Kmp.kmpNext_fresh pat text st hp]
      unfold Len32 int32Max at ht hs
      unfold int32Max at hlen
      cases hf : findFrom pat text st with
      | none =>
        simp only [R.ofOption_some]
        have := stringv_spec text 0 text.length (by omega)
        simp only [Int.natCast_zero, List.drop_zero, List.take_length] at this
        exact this
      | some r =>
        obtain ⟨_, g2, _⟩ := findFrom_some hf
        have g3 := matchAt_le g2
        simp only [R.ofOption_some]
        have i1 : in32 ((text.length : Int) - (pat.length : Int)) = true := by
          unfold in32 int32Min int32Max; simp only [decide_eq_true_eq]; omega
        have i2 : in32 ((text.length : Int) - (pat.length : Int) + (subst.length : Int)) = true := by
          unfold in32 int32Min int32Max; simp only [decide_eq_true_eq]; omega
        have i3 : in32 ((r : Int) + (subst.length : Int)) = true := by
          unfold in32 int32Min int32Max; simp only [decide_eq_true_eq]; omega
        have i4 : in32 ((r : Int) + (pat.length : Int)) = true := by
          unfold in32 int32Min int32Max; simp only [decide_eq_true_eq]; omega
        have i5 : in32 ((text.length : Int) - (r : Int)) = true := by
          unfold in32 int32Min int32Max; simp only [decide_eq_true_eq]; omega
        have i6 : in32 ((text.length : Int) - (r : Int) - (pat.length : Int)) = true := by
          unfold in32 int32Min int32Max; simp only [decide_eq_true_eq]; omega
        have n1 : ¬ ((text.length : Int) - (pat.length : Int) + (subst.length : Int) < 0) := by omega
        have n2 : ¬ ((text.length : Int) - (r : Int) - (pat.length : Int) < 0) := by omega
        simp only [sub32, add32, i1, i2, i3, i4, i5, i6, if_true, R.ok_bind, n1, n2, if_false]
        have esz : ((text.length : Int) - (pat.length : Int) + (subst.length : Int)).toNat
            = r + subst.length + (text.length - r - pat.length) := by omega
        have erest : ((text.length : Int) - (r : Int) - (pat.length : Int)).toNat = text.length - r - pat.length := by omega
        have e3 : (r : Int) + (subst.length : Int) = ((r + subst.length : Nat) : Int) := by omega
        have e4 : (r : Int) + (pat.length : Int) = ((r + pat.length : Nat) : Int) := by omega
        rw [esz, erest, e3, e4]
        generalize hZ : Array.replicate (r + subst.length + (text.length - r - pat.length)) (0 : Nat) = Z
        have hZs : Z.size = r + subst.length + (text.length - r - pat.length) := by rw [← hZ]; simp
        have m1 := memcpy_splice Z text.toArray 0 0 r (by simp; omega) (by omega)
        simp only [Int.natCast_zero] at m1
        rw [m1]
        simp only [R.ok_bind]
        have hA : ((text.toArray.toList.drop 0).take r).length = r := by simp; omega
        have hL1 : (splice Z.toList 0 ((text.toArray.toList.drop 0).take r)).length = Z.size := by
          rw [splice_length _ _ _ (by rw [hA]; simp; omega)]; simp
        rw [memcpy_whole _ subst r (by simp only [List.size_toArray, hL1]; omega)]
        simp only [R.ok_bind, List.toList_toArray]
        have hL2 : (splice (splice Z.toList 0 ((text.toArray.toList.drop 0).take r)) r subst).length = Z.size := by
          rw [splice_length _ _ _ (by rw [hL1]; omega), hL1]
        rw [memcpy_splice _ text.toArray (r + subst.length) (r + pat.length) (text.length - r - pat.length)
          (by simp; omega) (by simp only [List.size_toArray, hL2]; omega)]
        simp only [R.ok_bind, R.pure_eq, List.toList_toArray]
        congr 1
        -- the three segments tile the buffer
        have hC : ((text.drop (r + pat.length)).take (text.length - r - pat.length)) = text.drop (r + pat.length) := by
          apply List.take_of_length_le; simp; omega
        rw [hC]
        have hCl : (text.drop (r + pat.length)).length = text.length - r - pat.length := by simp; omega
        have hB3 : r + subst.length + (text.drop (r + pat.length)).length
            ≤ (splice (splice Z.toList 0 ((text.toArray.toList.drop 0).take r)) r subst).length := by
          rw [hL2, hCl]; omega
        have t3 := take_splice _ (text.drop (r + pat.length)) (r + subst.length) hB3
        have t2 := take_splice (splice Z.toList 0 ((text.toArray.toList.drop 0).take r)) subst r (by rw [hL1]; omega)
        have t1 := take_splice Z.toList ((text.toArray.toList.drop 0).take r) 0 (by rw [hA]; simp; omega)
        simp only [Nat.zero_add, hA, List.take_zero, List.nil_append] at t1
        rw [t2, t1] at t3
        have hfull : (splice (splice (splice Z.toList 0 ((text.toArray.toList.drop 0).take r)) r subst) (r + subst.length)
            (text.drop (r + pat.length))).length = r + subst.length + (text.drop (r + pat.length)).length := by
          rw [splice_length _ _ _ hB3, hL2, hZs, hCl]
        rw [← hfull, List.take_length] at t3
        rw [t3]
        simp

theorem pushBytesFrom_spec (b : Buf) (src : Array Nat) (soff len : Nat) (hI : Inv [] b) (hsrc : soff + len ≤ src.size)
    (h32 : (b.count : Int) + (len : Int) ≤ int32Max) :
    ∃ b', pushBytesFrom b src (soff : Int) (len : Int) = .ok b' ∧
      contents b' = contents b ++ (src.toList.drop soff).take len ∧ Inv [] b' := by
  unfold pushBytesFrom
  have hnn : ¬ ((len : Int) < 0) := by omega
  simp only [hnn, if_false]
  by_cases hz : len = 0
  · subst hz
    exact ⟨b, by simp, by simp, hI⟩
  · have hz' : ¬ ((len : Int) = 0) := by omega
    simp only [hz', if_false, Int.toNat_natCast]
    obtain ⟨b1, he, hc, hroom, hcont, hI1, _⟩ := extra_spec [] b len hI h32
    rw [he]
    simp only [R.ok_bind]
    rw [memcpy_splice _ _ b1.count soff len hsrc (by omega)]
    simp only [R.ok_bind, R.pure_eq]
    have hX : ((src.toList.drop soff).take len).length = len := by simp; omega
    have hw := write_inv [] b1 ((src.toList.drop soff).take len) hI1 (by rw [hX]; omega)
    rw [hX] at hw
    exact ⟨_, rfl, by rw [hw.1, hcont], hw.2⟩

theorem replaceAllLoop_spec (pat subst text : Bytes) (hp : pat ≠ []) (s0 : Kmp.State) :
    ∀ (fuel last st : Nat) (b : Buf),
      text.length + 1 - st ≤ fuel → 1 ≤ fuel → last ≤ st → last ≤ text.length → Inv [] b →
      (((contents b ++ replaceAllAux pat subst text fuel last st).length : Nat) : Int) ≤ int32Max →
      ∃ b' li, replaceAllLoop { text := text.toArray, pat := pat.toArray, lookup := Kmp.lookupTable pat.toArray, st := s0 }
            subst fuel (last : Int) { i := st, j := 0 } b = .ok (b', ((li : Nat) : Int)) ∧ li ≤ text.length ∧ Inv [] b' ∧
        contents b' ++ text.drop li = contents b ++ replaceAllAux pat subst text fuel last st := by
  intro fuel
  induction fuel with
  | zero => intro last st b _ h; omega
  | succ n ih =>
    intro last st b hfuel _ hls hll hI h32
    unfold replaceAllLoop StrC.next replaceAllAux
    have h := Kmp.kmpNext_fresh pat text st hp
    simp only
    cases hk : Kmp.kmpNext text.toArray pat.toArray (Kmp.lookupTable pat.toArray) { i := st, j := 0 } with
    | mk res s' =>
      rw [hk] at h
      simp only at h
      subst h
      unfold replaceAllAux at h32
      cases hf : findFrom pat text st with
      | none => exact ⟨b, last, by simp [hf], hll, hI, by simp [hf]⟩
      | some r =>
        obtain ⟨g1, g2, _⟩ := findFrom_some hf
        have g3 := matchAt_le g2
        have hpl : 0 < pat.length := by
          cases pat with
          | nil => exact absurd rfl hp
          | cons x xs => simp
        simp only [hf] at h32 ⊢
        have hcl : (contents b).length = b.count := by
          unfold contents; simp; exact Nat.min_eq_left hI.wf
        have hchunk : ((text.drop last).take (r - last)).length = r - last := by simp; omega
        simp only [List.length_append, hcl, hchunk] at h32
        have e1 : (r : Int) - (last : Int) = ((r - last : Nat) : Int) := by omega
        rw [e1]
        obtain ⟨b1, hb1, hc1, hI1⟩ := pushBytesFrom_spec b text.toArray last (r - last) hI (by simp; omega) (by omega)
        rw [hb1]
        simp only [R.ok_bind]
        have hc1len : b1.count = b.count + (r - last) := by
          have := congrArg List.length hc1
          have hw := hI1.wf
          unfold contents at this
          simp at this
          have hw0 := hI.wf
          omega
        have := pushBytesFrom_spec b1 subst.toArray 0 subst.length hI1 (by simp) (by omega)
        simp only [Int.natCast_zero] at this
        obtain ⟨b2, hb2, hc2, hI2⟩ := this
        rw [hb2]
        simp only [R.ok_bind]
        have hli : (r : Int) + ((pat.toArray.size : Nat) : Int) = ((r + pat.length : Nat) : Int) := by simp
        rw [hli]
        simp only [Int.toNat_natCast]
        have hc2' : contents b2 = contents b ++ (text.drop last).take (r - last) ++ subst := by
          rw [hc2, hc1]; simp
        obtain ⟨b', li, h1, h2, h3, h4⟩ := ih (r + pat.length) (r + pat.length) b2 (by omega) (by omega) (Nat.le_refl _) g3 hI2
          (by rw [hc2']; simp only [List.length_append, hcl, hchunk]; omega)
        refine ⟨b', li, h1, h2, h3, ?_⟩
        rw [h4, hc2']
        simp

/-- ★ `string/replace-all patt subst str &opt start` (string `subst`): leftmost non-overlapping occurrences from `start`;
    when the result fits an int32 no `janet_buffer_push_bytes` raises ("buffer overflow") and every pushed slice of the
    text is in range; the loop terminates within `textlen + 1` calls of `kmp_next`. -/
theorem replaceAll_eq_spec (pat subst text : Bytes) (start : Option Int)
    (h32 : ∀ st r, startNat start = some st → Lib.replaceAll pat subst text st = some r → (r.length : Int) ≤ int32Max) :
    StrC.replaceAll pat subst text start =
      match startNat start with
      | none => .panic
      | some st => R.ofOption (Lib.replaceAll pat subst text st) := by
  unfold StrC.replaceAll replacesetup
  rw [findsetup_spec]
  cases hst : startNat start with
  | none => rfl
  | some st =>
    simp only [Lib.replaceAll]
    by_cases hp : pat = []
    · simp [hp]
    · simp only [hp, if_false, R.ok_bind, R.ofOption_some]
      have hbound := h32 st (replaceAllAux pat subst text (text.length + 1) 0 st) hst (by simp [Lib.replaceAll, hp])
      have hI0 : Inv [] ({ data := #[], count := 0 } : Buf) := ⟨by simp, fun k _ h => by simp at h⟩
      by_cases hle : st ≤ text.length
      · obtain ⟨b', li, h1, h2, h3, h4⟩ := replaceAllLoop_spec pat subst text hp { i := st, j := 0 } (text.length + 1) 0 st
          { data := #[], count := 0 } (by omega) (by omega) (Nat.zero_le _) (Nat.zero_le _) hI0
          (by simpa [contents] using hbound)
        simp only [Int.natCast_zero] at h1
        rw [h1]
        simp only [R.ok_bind]
        have e : (text.length : Int) - (li : Int) = ((text.length - li : Nat) : Int) := by omega
        rw [e]
        have hcl : (contents b').length = b'.count := by
          unfold contents; simp; exact Nat.min_eq_left h3.wf
        have hfin := congrArg List.length h4
        simp only [List.length_append, List.length_drop, hcl] at hfin
        simp only [contents, List.take_zero, List.nil_append, List.length_nil, Nat.zero_add] at hfin h4
        obtain ⟨b2, hb2, hc2, _⟩ := pushBytesFrom_spec b' text.toArray li (text.length - li) h3 (by simp; omega) (by omega)
        rw [hb2]
        simp only [R.ok_bind, R.pure_eq]
        congr 1
        rw [hc2, ← h4]
        congr 1
        simp only [List.toList_toArray]
        apply List.take_of_length_le; simp
      · -- start beyond the end: no match, the text is copied
        unfold replaceAllLoop StrC.next
        have h := Kmp.kmpNext_past_end pat text { i := st, j := 0 } (by simp only; omega)
        simp only
        cases hk : Kmp.kmpNext text.toArray pat.toArray (Kmp.lookupTable pat.toArray) { i := st, j := 0 } with
        | mk res s' =>
          rw [hk] at h
          simp only at h
          subst h
          simp only [R.ok_bind]
          have hb : ((replaceAllAux pat subst text (text.length + 1) 0 st).length : Int) ≤ int32Max := hbound
          have haux : replaceAllAux pat subst text (text.length + 1) 0 st = text := by
            simp [replaceAllAux, findFrom_past_end pat text st (by omega)]
          rw [haux] at hb ⊢
          have := pushBytesFrom_spec { data := #[], count := 0 } text.toArray 0 text.length hI0 (by simp) (by simpa using hb)
          simp only [Int.natCast_zero] at this
          obtain ⟨b2, hb2, hc2, _⟩ := this
          simp only [Int.sub_zero]
          rw [hb2]
          simp only [R.ok_bind, R.pure_eq, hc2]
          simp [contents]

example : StrC.replaceAll [97, 97] [120] [97, 97, 97, 97, 97] none = .ok [120, 120, 97] ∧
    StrC.replace [98] [120, 121] [97, 98, 98] (some 2) = .ok [97, 98, 120, 121] ∧ StrC.replace [] [1] [2] none = .panic := by decide

end JanetModel.Lib.StrC
