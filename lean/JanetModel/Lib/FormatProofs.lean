/- C17: sanity laws of the formatter subset (Lib/Format.lean). -/
import JanetModel.Lib.Format
namespace JanetModel.Lib.Format
open JanetModel.Lib

theorem go_plain (l : Bytes) (h : ∀ c ∈ l, c ≠ 37) (fuel : Nat) (hf : l.length < fuel) (args : List FArg) (out : Bytes) :
    go fuel l args out = .ok (out ++ l) := by
  induction l generalizing fuel out with
  | nil =>
    cases fuel with
    | zero => omega
    | succ n => simp [go]
  | cons c rest ih =>
    cases fuel with
    | zero => omega
    | succ n =>
      have hc : c ≠ 37 := h c (by simp)
      simp only [go]
      rw [if_pos (by simpa using hc)]
      rw [ih (fun x hx => h x (by simp [hx])) n (by simp at hf; omega)]
      simp

/-- a format string without `%` (and without NUL, where the C string ends) is copied verbatim, arguments are ignored -/
theorem format_plain (s : Bytes) (args : List FArg) (h : ∀ c ∈ s, c ≠ 37 ∧ c ≠ 0) : format s args = .ok s := by
  unfold format
  have htw : ∀ l : Bytes, (∀ c ∈ l, c ≠ 0) → l.takeWhile (· != 0) = l := by
    intro l hl
    induction l with
    | nil => rfl
    | cons c rest ih =>
      have hc : c ≠ 0 := hl c (by simp)
      rw [List.takeWhile_cons, if_pos (by simpa using hc), ih (fun x hx => hl x (by simp [hx]))]
  have htw := htw s (fun c hc => (h c hc).2)
  simp only [htw]
  rw [go_plain s (fun c hc => (h c hc).1) _ (by omega)]
  simp

theorem padLeft_length (c w : Nat) (b : Bytes) : (padLeft c w b).length = max w b.length := by
  simp [padLeft]; omega

/-- `%<w>.<p>s`: at most `p` bytes of the argument, padded to at least `w` -/
theorem fmtString_length (f : Flags) (w : Nat) (p : Option Nat) (s : Bytes) :
    (fmtString f w p s).length = max w (match p with | some p => min p s.length | none => s.length) := by
  unfold fmtString
  cases p with
  | none =>
    simp only
    split
    · simp; omega
    · rw [padLeft_length]
  | some p =>
    simp only
    split
    · simp; omega
    · rw [padLeft_length]; simp

/-- the output of a numeric conversion is never shorter than the field width -/
theorem layout_width (f : Flags) (w : Nat) (p : Option Nat) (pre digs : Bytes) : w ≤ (layout f w p pre digs).length := by
  unfold layout
  simp only
  split
  · simp; omega
  · split
    · simp [padLeft]; omega
    · rw [padLeft_length]; omega

theorem fmtSigned_width (f : Flags) (w : Nat) (p : Option Nat) (n : Int) : w ≤ (fmtSigned f w p n).length :=
  layout_width _ _ _ _ _

end JanetModel.Lib.Format
