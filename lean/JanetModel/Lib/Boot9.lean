import JanetModel.Lib.Boot
/- C17 (session 4): mirror of boot.janet `flatten-into` / `flatten` — recursion over nested indexed values, one level being
   walked by the each-loop.  Core Lean only.

     (defn flatten-into [into xs] (each x xs (if (indexed? x) (flatten-into into x) (array/push into x))) into)
     (defn flatten [xs] (flatten-into @[] xs)) -/
namespace JanetModel.Lib.Boot
open JanetModel.Lib JanetModel.Lib.JIter

/-- a janet value as far as `flatten` looks at it: `(indexed? x)` (array / tuple) or anything else -/
inductive Nest (α : Type) where
  | leaf (x : α)
  | node (xs : List (Nest α))

mutual
/-- reference definition: the leaves in left-to-right order -/
def Nest.flat {α : Type} : Nest α → List α
  | .leaf x => [x]
  | .node xs => flatList xs
def flatList {α : Type} : List (Nest α) → List α
  | [] => []
  | x :: xs => x.flat ++ flatList xs
end

mutual
def Nest.depth {α : Type} : Nest α → Nat
  | .leaf _ => 0
  | .node xs => depthList xs + 1
def depthList {α : Type} : List (Nest α) → Nat
  | [] => 0
  | x :: xs => max x.depth (depthList xs)
end

/-- one iteration of the each-loop of `flatten-into`, given the recursive call `rec` -/
def flattenBody {α : Type} (rec : Array α → List (Nest α) → R (Array α)) (x : Nest α) (into : Array α) : R (Array α × Bool) :=
  match x with
  | .node ys =>                                          -- (indexed? x): (flatten-into into x)
    match rec into ys with
    | .ok into' => .ok (into', false)
    | .panic => .panic
    | .ub => .ub
  | .leaf v => .ok (into.push v, false)                  -- (array/push into x)

/-- `flatten-into`; the recursion is bounded by the nesting depth (`fuel` exhausted = `.ub`, shown unreachable when
    `fuel` exceeds the depth; the real interpreter's bound is its stack, property C19's subject) -/
def flattenInto {α : Type} : Nat → Array α → List (Nest α) → R (Array α)
  | 0, _, _ => .ub
  | fuel + 1, into, xs => each xs (fun _ x into => flattenBody (flattenInto fuel) x into) into

def flatten {α : Type} (fuel : Nat) (xs : List (Nest α)) : R (List α) := do
  let into ← flattenInto fuel #[] xs
  pure into.toList

end JanetModel.Lib.Boot
