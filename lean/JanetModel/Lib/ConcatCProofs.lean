import JanetModel.Lib.ArrCProofs
/- C17: `array/concat` (array.c cfun_array_concat) incl. concatenating an array onto itself: the pushes read `vals[j]`
   from the growing array, only its first `len` (pre-call count) cells. -/
namespace JanetModel.Lib.ArrC
open JanetModel.Lib JanetModel.Lib.CLoop

theorem push_ok {α : Type} (array : Array α) (x : α) (h : (array.size : Int) < int32Max) : push array x = .ok (array.push x) := by
  unfold push
  have : ¬ ((array.size : Int) = int32Max) := by omega
  simp [this]

theorem pushFrom_spec {α : Type} (array : Array α) (l : List α) (h : (array.size : Int) + (l.length : Int) ≤ int32Max) :
    forUp (pushFromBody l.toArray) l.length 0 array = .ok (array.toList ++ l).toArray := by
  obtain ⟨s', hf, hP⟩ := forUp_inv (pushFromBody l.toArray) (fun j (arr : Array α) => arr.toList = array.toList ++ l.take j)
    l.length 0 array (by simp)
    (by
      intro j arr _ hj hP
      have hj' : j < l.length := by omega
      have hsz : arr.size = array.size + j := by
        have := congrArg List.length hP
        simp at this; omega
      unfold pushFromBody
      rw [idx_list_ok l j hj']
      simp only [R.ok_bind]
      rw [push_ok _ _ (by omega)]
      refine ⟨_, rfl, ?_⟩
      rw [Array.toList_push, hP, List.take_succ_eq_append_getElem hj']
      simp)
  rw [hf]
  congr 1
  apply Array.ext'
  simp only [Nat.zero_add, List.take_length] at hP
  simp [hP]

theorem pushSelf_spec {α : Type} (array : Array α) (h : (array.size : Int) + (array.size : Int) ≤ int32Max) :
    forUp pushSelfBody array.size 0 array = .ok (array.toList ++ array.toList).toArray := by
  obtain ⟨s', hf, hP⟩ := forUp_inv pushSelfBody (fun j (arr : Array α) => arr.toList = array.toList ++ array.toList.take j)
    array.size 0 array (by simp)
    (by
      intro j arr _ hj hP
      have hj' : j < array.size := by omega
      have hsz : arr.size = array.size + j := by
        have := congrArg List.length hP
        simp at this; omega
      unfold pushSelfBody
      rw [idx_ok arr j (by omega)]
      simp only [R.ok_bind]
      rw [push_ok _ _ (by omega)]
      refine ⟨_, rfl, ?_⟩
      have hcell : arr[j]'(by omega) = array[j] := by
        have : arr.toList[j]? = (array.toList ++ array.toList.take j)[j]? := by rw [hP]
        rw [List.getElem?_append_left (by simpa using hj')] at this
        simp only [Array.getElem?_toList] at this
        rw [Array.getElem?_eq_getElem (by omega), Array.getElem?_eq_getElem hj'] at this
        exact Option.some.inj this
      rw [Array.toList_push, hP, hcell, List.take_succ_eq_append_getElem (by simpa using hj')]
      simp)
  rw [hf]
  congr 1
  apply Array.ext'
  simp only [Nat.zero_add] at hP
  rw [hP]
  simp only [List.toList_toArray]
  congr 1
  apply List.take_of_length_le; simp

theorem arrayConcat_length_ge {α : Type} (parts : List (ConcatArg α)) (a : List α) : a.length ≤ (arrayConcat a parts).length := by
  induction parts generalizing a with
  | nil => exact Nat.le_refl _
  | cons p rest ih =>
    cases p with
    | item x => simp only [arrayConcat]; have := ih (a ++ [x]); simp at this; omega
    | seq l => simp only [arrayConcat]; have := ih (a ++ l); simp at this; omega
    | self => simp only [arrayConcat]; have := ih (a ++ a); simp at this; omega

theorem concatLoop_spec {α : Type} (parts : List (ConcatArg α)) (array : Array α)
    (h : ((arrayConcat array.toList parts).length : Int) ≤ int32Max) :
    concatLoop array parts = .ok (arrayConcat array.toList parts).toArray := by
  induction parts generalizing array with
  | nil => simp [concatLoop, arrayConcat]
  | cons p rest ih =>
    cases p with
    | item x =>
      simp only [arrayConcat] at h ⊢
      have hge := arrayConcat_length_ge rest (array.toList ++ [x])
      simp only [List.length_append, Array.length_toList, List.length_singleton] at hge
      simp only [concatLoop, concatPart]
      rw [push_ok _ _ (by omega)]
      simp only
      have := ih (array.push x) (by simpa using h)
      simpa using this
    | seq l =>
      simp only [arrayConcat] at h ⊢
      have hge := arrayConcat_length_ge rest (array.toList ++ l)
      simp only [List.length_append, Array.length_toList] at hge
      simp only [concatLoop, concatPart]
      rw [pushFrom_spec _ _ (by omega)]
      simp only
      have := ih (array.toList ++ l).toArray (by simpa using h)
      simpa using this
    | self =>
      simp only [arrayConcat] at h ⊢
      have hge := arrayConcat_length_ge rest (array.toList ++ array.toList)
      simp only [List.length_append, Array.length_toList] at hge
      simp only [concatLoop, concatPart]
      rw [pushSelf_spec _ (by omega)]
      simp only
      have := ih (array.toList ++ array.toList).toArray (by simpa using h)
      simpa using this

/-- ★ `array/concat arr & parts` (plain values, arrays / tuples, and the array itself): when the final length fits an
    int32 no `janet_array_push` raises, no `vals[j]` is read outside the source (for the array itself: outside its
    pre-call cells), and the result is the reference definition — self-concatenation appends the OLD contents once. -/
theorem concat_eq_spec {α : Type} (a : List α) (parts : List (ConcatArg α))
    (h : ((arrayConcat a parts).length : Int) ≤ int32Max) :
    ArrC.concat a parts = .ok (arrayConcat a parts) := by
  unfold ArrC.concat
  rw [concatLoop_spec parts a.toArray (by simpa using h)]
  simp

example : ArrC.concat [1, 2] [.self, .item 9, .seq [7, 8], .self] = .ok [1, 2, 1, 2, 9, 7, 8, 1, 2, 1, 2, 9, 7, 8] := by decide

end JanetModel.Lib.ArrC
