import JanetModel.Lib.CLoop
/- C17: mirrors of src/core/array.c / tuple.c cfuns (value level: the cells `[0, count)`; capacity / realloc are owned by
   another property — `janet_array_ensure` is modelled as "the block now has at least that many cells, the new ones
   indeterminate (`default`)").  Core Lean only.  Theorems in Lib/ArrCProofs.lean. -/
namespace JanetModel.Lib.ArrC
open JanetModel.Lib JanetModel.Lib.CLoop

/-- `cfun_array_insert`:
      `int32_t at = janet_getinteger(argv, 1);
       if (at < 0) { at = array->count + at + 1; }
       if (at < 0 || at > array->count) janet_panicf("insertion index %d out of range [0,%d]", …);
       chunksize = (argc - 2) * sizeof(Janet);  restsize = (array->count - at) * sizeof(Janet);
       if (INT32_MAX - (argc - 2) < array->count) janet_panic("array overflow");
       janet_array_ensure(array, array->count + argc - 2, 2);
       if (restsize) memmove(array->data + at + argc - 2, array->data + at, restsize);
       safe_memcpy(array->data + at, argv + 2, chunksize);
       array->count += (argc - 2);` -/
def insert {α : Type} [Inhabited α] (a : List α) (at_ : Int) (xs : List α) : R (List α) := do
  let at_ ← getinteger at_
  let at_ ← (if at_ < 0 then do let t ← add32 (a.length : Int) at_; add32 t 1 else pure at_ : R Int)
  if at_ < 0 ∨ at_ > (a.length : Int) then .panic
  else if int32Max - (xs.length : Int) < (a.length : Int) then .panic
  else do
    let data := a.toArray ++ Array.replicate xs.length default
    let rest := (a.length : Int) - at_
    let data ← (if rest ≠ 0 then memmove data (at_ + (xs.length : Int)) at_ rest.toNat else pure data : R (Array α))
    let data ← memcpy data at_ xs.toArray 0 xs.length
    pure (data.toList.take (a.length + xs.length))

/-- `cfun_array_remove`:
      `int32_t at = janet_getinteger(argv, 1);  int32_t n = 1;
       if (at < 0) { at = array->count + at; }
       if (at < 0 || at > array->count) janet_panicf("removal index %d out of range [0,%d]", …);
       if (argc == 3) { n = janet_getinteger(argv, 2); if (n < 0) janet_panicf(…); }
       if (n > array->count - at) { n = array->count - at; }
       if (n > 0) { memmove(array->data + at, array->data + at + n, (size_t)(array->count - at - n) * sizeof(Janet));
                    array->count -= n; }`
    (the clamp replaced `at + n > count`, whose sum overflowed for `n = 2147483647`) -/
def decodeN (n : Option Int) : R Int :=
  match n with
  | none => pure 1                                   -- int32_t n = 1;
  | some x => do                                     -- if (argc == 3) {
    let x ← getinteger x                             --   n = janet_getinteger(argv, 2);
    if x < 0 then .panic else pure x                 --   if (n < 0) janet_panicf(…); }

def remove {α : Type} (a : List α) (at_ : Int) (n : Option Int) : R (List α) := do
  let at_ ← getinteger at_
  let at_ ← (if at_ < 0 then add32 (a.length : Int) at_ else pure at_ : R Int)
  if at_ < 0 ∨ at_ > (a.length : Int) then .panic
  else do
    let n ← decodeN n
    let d ← sub32 (a.length : Int) at_
    let n := if n > d then d else n
    if n > 0 then do
      let src ← add32 at_ n
      let m ← sub32 d n
      if m < 0 then .ub else do
        let data ← memmove a.toArray at_ src m.toNat
        let count ← sub32 (a.length : Int) n
        pure (data.toList.take count.toNat)
    else pure a

/-- `cfun_array_fill`: `for (int32_t i = 0; i < array->count; i++) array->data[i] = x;` -/
def fill {α : Type} (a : List α) (x : α) : R (List α) := do
  let data ← forUp (fun i (data : Array α) => setIdx data (i : Int) x) a.length 0 a.toArray
  pure data.toList

/-- `cfun_array_slice` / `cfun_tuple_slice`: `JanetRange range = janet_getslice(argc, argv);` then copy of
    `range.end - range.start` cells from `view.items + range.start` -/
def slice {α : Type} [Inhabited α] (l : List α) (st en : Option Int) : R (List α) :=
  match getslice st en l.length with
  | none => .panic
  | some (a, b) =>
    if (b : Int) - (a : Int) < 0 then .ub else do
      let out ← memcpy (Array.replicate (b - a) default) 0 l.toArray (a : Int) (b - a)
      pure out.toList

/-- first loop of `cfun_tuple_join`:
      `int32_t total_len = 0; for (i = 0; i < argc; i++) { … if (INT32_MAX - total_len < len) janet_panic("tuple too large");
         total_len += len; }` -/
def tupleJoinLenBody {α : Type} (parts : List (List α)) (i : Nat) (total_len : Int) : R Int := do
  let p ← idx parts.toArray (i : Int)
  if int32Max - total_len < (p.length : Int) then .panic
  else add32 total_len (p.length : Int)

/-- second loop: `Janet *tup_cursor = tup; … safe_memcpy(tup_cursor, vals, len * sizeof(Janet)); tup_cursor += len;` -/
def tupleJoinCopyBody {α : Type} (parts : List (List α)) (i : Nat) (st : Array α × Int) : R (Array α × Int) := do
  let p ← idx parts.toArray (i : Int)
  let tup ← memcpy st.1 st.2 p.toArray 0 p.length
  pure (tup, st.2 + (p.length : Int))

def tupleJoin {α : Type} [Inhabited α] (parts : List (List α)) : R (List α) := do
  let total_len ← forUp (tupleJoinLenBody parts) parts.length 0 0
  let st ← forUp (tupleJoinCopyBody parts) parts.length 0 (Array.replicate total_len.toNat default, 0)
  pure st.1.toList

/-- `janet_array_push`: `if (array->count == INT32_MAX) janet_panic("array overflow");
      int32_t newcount = array->count + 1; janet_array_ensure(array, newcount, 2); array->data[array->count] = x; array->count = newcount;` -/
def push {α : Type} (array : Array α) (x : α) : R (Array α) :=
  if (array.size : Int) = int32Max then .panic else .ok (array.push x)

def pushFromBody {α : Type} (vals : Array α) (j : Nat) (array : Array α) : R (Array α) := do
  let v ← idx vals (j : Int)
  push array v

/-- `vals[j]` read from the array that is being extended (`array->data == vals`) -/
def pushSelfBody {α : Type} (j : Nat) (array : Array α) : R (Array α) := do
  let v ← idx array (j : Int)
  push array v

/-- one iteration of the argument loop of `cfun_array_concat`:
      `switch (janet_type(argv[i])) { default: janet_array_push(array, argv[i]); break;
         case JANET_ARRAY: case JANET_TUPLE: { int32_t j, len = 0; const Janet *vals = NULL;
           janet_indexed_view(argv[i], &vals, &len);
           if (array->data == vals) { int32_t newcount = array->count + len; janet_array_ensure(array, newcount, 2);
                                      janet_indexed_view(argv[i], &vals, &len); }
           for (j = 0; j < len; j++) janet_array_push(array, vals[j]); } break; }`
    For the array itself `len` is its count *before* the pushes and `vals` is (re-fetched after the ensure) its own data. -/
def concatPart {α : Type} (array : Array α) (part : ConcatArg α) : R (Array α) :=
  match part with
  | .item x => push array x
  | .seq l => forUp (pushFromBody l.toArray) l.length 0 array
  | .self => forUp pushSelfBody array.size 0 array

/-- `for (i = 1; i < argc; i++) …` over the remaining arguments -/
def concatLoop {α : Type} : Array α → List (ConcatArg α) → R (Array α)
  | array, [] => .ok array
  | array, part :: rest =>
    match concatPart array part with
    | .ok array' => concatLoop array' rest
    | .panic => .panic
    | .ub => .ub

def concat {α : Type} (a : List α) (parts : List (ConcatArg α)) : R (List α) := do
  let array ← concatLoop a.toArray parts
  pure array.toList

end JanetModel.Lib.ArrC
