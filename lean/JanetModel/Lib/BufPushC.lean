import JanetModel.Lib.CLoop
/- C17: mirrors of the buffer.c push family at value level, with the *state at the moment of an error* (a variadic push
   that raises part-way leaves the earlier arguments pushed): `janet_buffer_extra` (only its overflow check matters for
   values), `janet_buffer_push_u8`, `janet_buffer_push_bytes`, `buffer_push_impl`, `buffer/push`, `buffer/push-at`.
   Core Lean only.  Theorems in Lib/BufPushCProofs.lean.

   Buffer state: `data` = every cell of the block that has ever been written (cells at positions ≥ `count` are stale but
   still there — `buffer/push-at` relies on that), `count` = visible length. -/
namespace JanetModel.Lib.BufPush
open JanetModel.Lib JanetModel.Lib.CLoop

structure Buf where
  data : Array Nat
  count : Nat
  deriving Repr

def contents (b : Buf) : Bytes := b.data.toList.take b.count

/-- `janet_buffer_extra(buffer, n)`: `if ((int64_t)n + buffer->count > INT32_MAX) janet_panic("buffer overflow");`
    then the block has room for `count + n` cells (new cells indeterminate: 0) -/
def extra (b : Buf) (n : Nat) : R Buf := do
  let t ← add64 (n : Int) (b.count : Int)
  if t > int32Max then .panic
  else pure { b with data := b.data ++ Array.replicate (b.count + n - b.data.size) 0 }

/-- `janet_buffer_push_u8`: `janet_buffer_extra(buffer, 1); buffer->data[buffer->count] = byte; buffer->count++;` -/
def pushU8 (b : Buf) (byte : Nat) : R Buf := do
  let b ← extra b 1
  let data ← setIdx b.data (b.count : Int) byte
  pure { data := data, count := b.count + 1 }

/-- `janet_buffer_push_bytes`: `if (0 == length) return; janet_buffer_extra(buffer, length);
      memcpy(buffer->data + buffer->count, string, length); buffer->count += length;` -/
def pushBytes (b : Buf) (src : Array Nat) (length : Nat) : R Buf :=
  if length = 0 then .ok b else do
    let b ← extra b length
    let data ← memcpy b.data (b.count : Int) src 0 length
    pure { data := data, count := b.count + length }

/-- one argument of `buffer_push_impl`:
      `if (janet_checktype(argv[i], JANET_NUMBER)) janet_buffer_push_u8(buffer, (uint8_t)(janet_getinteger(argv, i) & 0xFF));
       else { JanetByteView view = janet_getbytes(argv, i);
              if (view.bytes == buffer->data) { janet_buffer_extra(buffer, view.len); view.bytes = buffer->data; }
              janet_buffer_push_bytes(buffer, view.bytes, view.len); }`
    For the buffer itself the view is taken when the argument is reached: `view.len = buffer->count`. -/
def pushArg (b : Buf) (a : PushArg) : R Buf :=
  match a with
  | .byte x => do
    let v ← getinteger x
    pushU8 b (toByte v)
  | .bytes l => pushBytes b l.toArray l.length
  | .self => do
    let len := b.count
    let b ← extra b len
    pushBytes b b.data len

/-- `for (int32_t i = argc_offset; i < argc; i++) …`: returns the buffer as it is when the function returns or raises -/
def pushImpl : Buf → List PushArg → Buf × R Unit
  | b, [] => (b, .ok ())
  | b, a :: rest =>
    match pushArg b a with
    | .ok b' => pushImpl b' rest
    | .panic => (b, .panic)
    | .ub => (b, .ub)

/-- `cfun_buffer_push`: `buffer_push_impl(buffer, argv, 1, argc); return argv[0];` -/
def push (b : Buf) (xs : List PushArg) : Buf × R Unit := pushImpl b xs

/-- `cfun_buffer_push_at`:
      `int32_t index = janet_getinteger(argv, 1);  int32_t old_count = buffer->count;
       if (index < 0 || index > old_count) janet_panicf("index out of range [0, %d)", old_count);
       buffer->count = index;  buffer_push_impl(buffer, argv, 2, argc);
       if (buffer->count < old_count) buffer->count = old_count;` -/
def pushAt (b : Buf) (index : Int) (xs : List PushArg) : Buf × R Unit :=
  let old_count := b.count
  if index < 0 ∨ index > (old_count : Int) then (b, .panic)
  else
    match pushImpl { b with count := index.toNat } xs with
    | (b2, .ok ()) => (if b2.count < old_count then { b2 with count := old_count } else b2, .ok ())
    | (b2, e) => (b2, e)

end JanetModel.Lib.BufPush
