import JanetModel.Lib.Boot2
import JanetModel.Lib.BootProofs
import JanetModel.Lib.CLoop
/- C17: proofs for index-of, find, reverse (mirrors in Lib/Boot.lean) and reduce2, zipcoll, distinct (Lib/Boot2.lean). -/
namespace JanetModel.Lib.Boot
open JanetModel.Lib JanetModel.Lib.JIter JanetModel.Lib.CLoop

/-- ★ `index-of`: the first key whose value equals `x` (the loop breaks at the first hit) -/
theorem indexOf_eq_spec {α : Type} [BEq α] (x : α) (ind : List α) :
    Boot.indexOf x ind = .ok (ind.findIdx? (fun y => y == x)) := by
  unfold Boot.indexOf each
  rw [nextKey_nil]
  obtain ⟨s', hs, hP⟩ := eachLoop_inv ind
    (fun k y (ret : Option Nat) => if y == x then R.ok (some k, true) else R.ok (ret, false))
    (fun i ret => ret = none ∧ (ind.take i).findIdx? (fun y => y == x) = none)
    (fun ret => ret = ind.findIdx? (fun y => y == x))
    (by
      intro i h ret ⟨hr, hnone⟩
      subst hr
      by_cases hy : (ind[i] == x) = true
      · right
        refine ⟨some i, by simp [hy], ?_⟩
        have hsplit : ind = ind.take i ++ ind[i] :: ind.drop (i + 1) := by
          rw [← List.drop_eq_getElem_cons h, List.take_append_drop]
        rw [hsplit, List.findIdx?_append, hnone]
        simp only [List.findIdx?_cons, hy, if_true, Option.map_some, Option.none_or]
        simp
        omega
      · left
        refine ⟨none, by simp [hy], rfl, ?_⟩
        rw [List.take_succ_eq_append_getElem h, List.findIdx?_append, hnone]
        simp [List.findIdx?_cons, hy])
    (ind.length + 1) 0 none (by omega) (by omega) ⟨rfl, by simp⟩
  rw [hs]
  congr 1
  rcases hP with ⟨h1, h2⟩ | h
  · rw [List.take_length] at h2
    rw [h1, h2]
  · exact h

/-- ★ `find` -/
theorem find_eq_spec {α : Type} (pred : α → Bool) (ind : List α) : Boot.find pred ind = .ok (ind.find? pred) := by
  unfold Boot.find
  rw [findIndex_eq_spec]
  simp only [R.ok_bind]
  induction ind with
  | nil => rfl
  | cons x xs ih =>
    rw [List.findIdx?_cons, List.find?_cons]
    by_cases hp : pred x = true
    · simp [hp, inIdx]
    · simp only [hp, Bool.false_eq_true, if_false]
      cases h : xs.findIdx? pred with
      | none => simp [h] at ih ⊢; exact ih
      | some v =>
        simp only [h, Option.map_some] at ih ⊢
        simp only [inIdx, List.getElem?_cons_succ] at ih ⊢
        exact ih

/-- ★ `reverse` on an indexed / bytes value: `(put ret (-- n) v)` writes cells `len-1, …, 0`, never outside the new array -/
theorem reverse_eq_spec {α : Type} [Inhabited α] (t : List α) : Boot.reverse t = .ok t.reverse := by
  unfold Boot.reverse each
  rw [nextKey_nil]
  obtain ⟨⟨ret, n⟩, hs, hP⟩ := eachLoop_inv t
    (fun _ v (st : Array α × Int) => (do
      let n := st.2 - 1
      let ret ← setIdx st.1 n v
      pure ((ret, n), false) : R ((Array α × Int) × Bool)))
    (fun i st => st.2 = (t.length : Int) - (i : Int) ∧ st.1.size = t.length ∧
      ∀ k, k < i → st.1[t.length - 1 - k]? = some (t.getD k default))
    (fun _ => False)
    (by
      intro i h ⟨ret, n⟩ ⟨hn, hsz, hc⟩
      simp only at hn hsz hc
      subst hn
      left
      have e : (t.length : Int) - (i : Int) - 1 = ((t.length - 1 - i : Nat) : Int) := by omega
      simp only [e]
      rw [setIdx_ok _ _ _ (by omega)]
      refine ⟨_, rfl, by simp only; omega, by simpa using hsz, ?_⟩
      intro k hk
      simp only
      rw [Array.getElem?_setIfInBounds]
      by_cases hki : k = i
      · subst hki
        have hlt : t.length - 1 - k < ret.size := by omega
        simp only [if_true, hlt, getD_of_lt t default k h]
      · have : ¬ (t.length - 1 - i = t.length - 1 - k) := by omega
        simp only [this, if_false]
        exact hc k (by omega))
    (t.length + 1) 0 (Array.replicate t.length default, (t.length : Int)) (by omega) (by omega)
    ⟨by simp, by simp, fun k hk => by omega⟩
  rw [hs]
  simp only [R.ok_bind, R.pure_eq]
  congr 1
  rcases hP with ⟨_, hsz, hc⟩ | h
  · simp only at hsz hc
    apply List.ext_getElem?
    intro k
    by_cases hk : k < t.length
    · have := hc (t.length - 1 - k) (by omega)
      have e : t.length - 1 - (t.length - 1 - k) = k := by omega
      rw [e] at this
      rw [Array.getElem?_toList, this, List.getElem?_reverse hk, getD_of_lt t default _ (by omega)]
      rw [List.getElem?_eq_getElem (by omega)]
    · have h1 : t.reverse[k]? = none := by rw [List.getElem?_eq_none_iff]; simp; omega
      have h2 : ret.toList[k]? = none := by rw [List.getElem?_eq_none_iff]; simp; omega
      rw [h1, h2]
  · exact absurd h id

/-- ★ `reduce2`: nil for an empty sequence, otherwise the left fold seeded with the first element -/
theorem reduce2_eq_spec {α : Type} (f : α → α → α) (ind : List α) :
    Boot.reduce2 f ind = .ok (match ind with | [] => none | x :: xs => some (xs.foldl f x)) := by
  cases ind with
  | nil => rfl
  | cons x xs =>
    unfold Boot.reduce2
    simp only [nextKey, List.length_cons, Nat.zero_lt_succ, if_true, inIdx, List.getElem?_cons_zero]
    obtain ⟨s', hs, hP⟩ := eachLoop_inv (x :: xs) (fun _ y res => R.ok (f res y, false))
      (fun i s => 1 ≤ i ∧ s = ((x :: xs).take i).tail.foldl f x) (fun _ => False)
      (by
        intro i h s ⟨h1, hP⟩
        left
        refine ⟨_, rfl, by omega, ?_⟩
        rw [List.take_succ_eq_append_getElem h]
        cases i with
        | zero => omega
        | succ j =>
          simp only [List.take_succ_cons, List.tail_cons, List.cons_append, List.foldl_append, List.foldl_cons, List.foldl_nil] at hP ⊢
          rw [← hP])
      ((x :: xs).length + 1) 1 x (by simp) (by simp; omega) ⟨by omega, by simp⟩
    have hk : keyAt (x :: xs).length 1 = (if 0 + 1 < xs.length + 1 then some (0 + 1) else none) := by
      simp [keyAt]
    simp only [List.length_cons] at hs hk
    rw [← hk, hs]
    rcases hP with ⟨_, h⟩ | h
    · simp only [List.take_length, List.tail_cons] at h
      rw [h]
    · exact absurd h id

theorem zipcollLoop_spec {α β : Type} [BEq α] (ks : List α) (vs : List β) :
    ∀ fuel i res, ks.length - i + 1 ≤ fuel →
      zipcollLoop ks vs fuel (prevKey i) (prevKey i) res
        = .ok (((ks.drop i).zip (vs.drop i)).foldl (fun acc kv => assocPut acc kv.1 kv.2) res) := by
  intro fuel
  induction fuel with
  | zero => intro i res h; omega
  | succ n ih =>
    intro i res hf
    simp only [zipcollLoop, nextKey_prevKey, keyAt]
    by_cases hk : i < ks.length
    · simp only [hk, if_true]
      by_cases hv : i < vs.length
      · simp only [hv, if_true, inIdx_of_lt ks i hk, inIdx_of_lt vs i hv]
        have e : some i = prevKey (i + 1) := by simp [prevKey]
        rw [e, ih (i + 1) _ (by omega), List.drop_eq_getElem_cons hk, List.drop_eq_getElem_cons hv]
        simp only [List.zip_cons_cons, List.foldl_cons]
      · simp only [hv, if_false]
        have : vs.drop i = [] := List.drop_of_length_le (by omega)
        rw [this]; simp
    · simp only [hk, if_false]
      have : ks.drop i = [] := List.drop_of_length_le (by omega)
      rw [this]; simp

/-- ★ `zipcoll`: pairs up to the shorter of the two sequences, later duplicates of a key win -/
theorem zipcoll_eq_spec {α β : Type} [BEq α] (ks : List α) (vs : List β) : Boot.zipcoll ks vs = .ok (Lib.zipcoll ks vs) := by
  unfold Boot.zipcoll Lib.zipcoll
  have := zipcollLoop_spec ks vs (ks.length + 1) 0 [] (by omega)
  simp only [prevKey, if_true, List.drop_zero] at this
  exact this

example : Boot.zipcoll [1, 2, 1] [10, 20, 30, 40] = .ok [(1, 30), (2, 20)] ∧ Boot.reduce2 (fun (a b : Nat) => a * 10 + b) [1, 2, 3] = .ok (some 123)
    ∧ Boot.reverse [1, 2, 3] = .ok [3, 2, 1] ∧ Boot.indexOf 2 [1, 2, 2] = .ok (some 1) := by decide

end JanetModel.Lib.Boot
