/- C17: lemmas about the reference definitions of Lib/Spec.lean (range decoding, search family, laws). -/
import JanetModel.Lib.Spec
namespace JanetModel.Lib
open JanetModel.Gen.Lib

/-! ## range decoding -/

theorem halfrange_some {raw : Int} {len k : Nat} (h : halfrange raw len = some k) :
    k ≤ len ∧ (0 ≤ raw → (k : Int) = raw) ∧ (raw < 0 → (k : Int) = raw + len + 1) := by
  unfold halfrange at h
  simp only [halfAdj, halfUpperIncl, if_true] at h
  by_cases hr : raw < 0
  · simp only [if_pos hr] at h
    by_cases hb : raw + (len : Int) + 1 < 0 ∨ raw + (len : Int) + 1 > (len : Int)
    · rw [if_pos hb] at h; simp at h
    · rw [if_neg hb] at h
      simp at h
      omega
  · simp only [if_neg hr] at h
    by_cases hb : raw < 0 ∨ raw > (len : Int)
    · rw [if_pos hb] at h; simp at h
    · rw [if_neg hb] at h
      simp at h
      omega

theorem halfrange_none_iff (raw : Int) (len : Nat) :
    halfrange raw len = none ↔ ¬ (-(len : Int) - 1 ≤ raw ∧ raw ≤ len) := by
  unfold halfrange
  simp only [halfAdj, halfUpperIncl, if_true]
  by_cases hr : raw < 0
  · simp only [if_pos hr]
    by_cases hb : raw + (len : Int) + 1 < 0 ∨ raw + (len : Int) + 1 > (len : Int)
    · rw [if_pos hb]; simp; omega
    · rw [if_neg hb]; simp; omega
  · simp only [if_neg hr]
    by_cases hb : raw < 0 ∨ raw > (len : Int)
    · rw [if_pos hb]; simp; omega
    · rw [if_neg hb]; simp; omega

theorem argindex_some {raw : Int} {len k : Nat} (h : argindex raw len = some k) :
    k ≤ len ∧ (0 ≤ raw → (k : Int) = raw) ∧ (raw < 0 → (k : Int) = raw + len) := by
  unfold argindex at h
  simp only [argAdj, argUpperIncl, if_true, Int.add_zero] at h
  by_cases hr : raw < 0
  · simp only [if_pos hr] at h
    by_cases hb : raw + (len : Int) < 0 ∨ raw + (len : Int) > (len : Int)
    · rw [if_pos hb] at h; simp at h
    · rw [if_neg hb] at h
      simp at h
      omega
  · simp only [if_neg hr] at h
    by_cases hb : raw < 0 ∨ raw > (len : Int)
    · rw [if_pos hb] at h; simp at h
    · rw [if_neg hb] at h
      simp at h
      omega

theorem startrange_le {arg : Option Int} {len k : Nat} (h : startrange arg len = some k) : k ≤ len := by
  cases arg with
  | none => simp [startrange] at h; omega
  | some r => exact (halfrange_some h).1

theorem endrange_le {arg : Option Int} {len k : Nat} (h : endrange arg len = some k) : k ≤ len := by
  cases arg with
  | none => simp [endrange] at h; omega
  | some r => exact (halfrange_some h).1

theorem getslice_some {s e : Option Int} {len a b : Nat} (h : getslice s e len = some (a, b)) :
    a ≤ b ∧ b ≤ len := by
  unfold getslice at h
  cases hs : startrange s len with
  | none => rw [hs] at h; simp at h
  | some st =>
    cases he : endrange e len with
    | none => rw [hs, he] at h; simp at h
    | some en =>
      rw [hs, he] at h
      have h1 := startrange_le hs
      have h2 := endrange_le he
      simp only [sliceClamp, Bool.true_and, Option.some.injEq, Prod.mk.injEq] at h
      obtain ⟨ha, hb⟩ := h
      subst ha
      by_cases hlt : en < st
      · rw [if_pos (by simpa using hlt)] at hb; omega
      · rw [if_neg (by simpa using hlt)] at hb; omega

/-! ## search family -/

theorem matchAt_iff (pat text : Bytes) (i : Nat) :
    matchAt pat text i = true ↔ i + pat.length ≤ text.length ∧ (text.drop i).take pat.length = pat := by
  simp [matchAt]

theorem matchAt_drop {pat text : Bytes} {i : Nat} (h : matchAt pat text i = true) :
    text.drop i = pat ++ text.drop (i + pat.length) := by
  obtain ⟨_, h2⟩ := (matchAt_iff _ _ _).1 h
  have := (List.take_append_drop pat.length (text.drop i)).symm
  rw [h2, List.drop_drop] at this
  exact this

theorem findFromAux_some {pat text : Bytes} {i fuel r : Nat} (h : findFromAux pat text i fuel = some r) :
    i ≤ r ∧ r < i + fuel ∧ matchAt pat text r = true ∧ ∀ k, i ≤ k → k < r → matchAt pat text k = false := by
  induction fuel generalizing i with
  | zero => simp [findFromAux] at h
  | succ n ih =>
    unfold findFromAux at h
    by_cases hm : matchAt pat text i = true
    · rw [if_pos hm] at h
      simp at h; subst h
      exact ⟨Nat.le_refl _, by omega, hm, fun k h1 h2 => by omega⟩
    · rw [if_neg hm] at h
      obtain ⟨h1, h2, h3, h4⟩ := ih h
      refine ⟨by omega, by omega, h3, fun k hk1 hk2 => ?_⟩
      by_cases hki : k = i
      · subst hki; simpa using hm
      · exact h4 k (by omega) hk2

theorem findFromAux_none {pat text : Bytes} {i fuel : Nat} (h : findFromAux pat text i fuel = none) :
    ∀ k, i ≤ k → k < i + fuel → matchAt pat text k = false := by
  induction fuel generalizing i with
  | zero => intro k h1 h2; omega
  | succ n ih =>
    unfold findFromAux at h
    by_cases hm : matchAt pat text i = true
    · rw [if_pos hm] at h; simp at h
    · rw [if_neg hm] at h
      intro k h1 h2
      by_cases hki : k = i
      · subst hki; simpa using hm
      · exact ih h k (by omega) (by omega)

/-- `findFrom` returns the least match position `≥ start`. -/
theorem findFrom_some {pat text : Bytes} {start r : Nat} (h : findFrom pat text start = some r) :
    start ≤ r ∧ matchAt pat text r = true ∧ ∀ k, start ≤ k → k < r → matchAt pat text k = false := by
  obtain ⟨h1, _, h3, h4⟩ := findFromAux_some h
  exact ⟨h1, h3, h4⟩

/-- `findFrom = none` means there is no match at any position `≥ start`. -/
theorem findFrom_none {pat text : Bytes} {start : Nat} (h : findFrom pat text start = none) :
    ∀ k, start ≤ k → matchAt pat text k = false := by
  intro k hk
  by_cases hlt : k < start + (text.length + 1 - start)
  · exact findFromAux_none h k hk hlt
  · -- beyond the text no match is possible
    simp only [matchAt, Bool.and_eq_false_imp, decide_eq_true_eq]
    intro hle
    omega

/-! ### join ∘ split = id,  replace-all with the pattern itself = id -/

theorem join_cons_cons (p q : Bytes) (qs : List Bytes) (sep : Bytes) :
    join (p :: q :: qs) sep = p ++ sep ++ join (q :: qs) sep := by
  simp [join, List.foldr]

theorem join_singleton (p sep : Bytes) : join [p] sep = p := by simp [join]

theorem splitAux_ne_nil (pat text : Bytes) (fuel last start : Nat) (limit : Int) :
    splitAux pat text fuel last start limit ≠ [] := by
  cases fuel with
  | zero => simp [splitAux]
  | succ n =>
    unfold splitAux
    split
    · simp
    · split <;> simp

theorem drop_split_at_match {pat text : Bytes} {last r : Nat} (hlr : last ≤ r) (hm : matchAt pat text r = true) :
    text.drop last = (text.drop last).take (r - last) ++ pat ++ text.drop (r + pat.length) := by
  have h1 : text.drop last = (text.drop last).take (r - last) ++ (text.drop last).drop (r - last) :=
    (List.take_append_drop _ _).symm
  rw [List.drop_drop] at h1
  have : last + (r - last) = r := by omega
  rw [this, matchAt_drop hm] at h1
  rw [List.append_assoc]
  exact h1

theorem join_splitAux (pat text : Bytes) (fuel last start : Nat) (limit : Int) (hls : last ≤ start) :
    join (splitAux pat text fuel last start limit) pat = text.drop last := by
  induction fuel generalizing last start limit with
  | zero => simp [splitAux, join]
  | succ n ih =>
    unfold splitAux
    cases hf : findFrom pat text start with
    | none => simp [join]
    | some r =>
      simp only
      obtain ⟨hsr, hm, _⟩ := findFrom_some hf
      by_cases hl : limit - 1 = 0
      · rw [if_pos hl]; simp [join]
      · rw [if_neg hl]
        have hne := splitAux_ne_nil pat text n (r + pat.length) (r + pat.length) (limit - 1)
        cases hrest : splitAux pat text n (r + pat.length) (r + pat.length) (limit - 1) with
        | nil => exact absurd hrest hne
        | cons q qs =>
          rw [join_cons_cons, ← hrest, ih _ _ _ (Nat.le_refl _)]
          exact (drop_split_at_match (by omega) hm).symm

theorem replaceAllAux_self (pat text : Bytes) (fuel last start : Nat) (hls : last ≤ start) :
    replaceAllAux pat pat text fuel last start = text.drop last := by
  induction fuel generalizing last start with
  | zero => simp [replaceAllAux]
  | succ n ih =>
    unfold replaceAllAux
    cases hf : findFrom pat text start with
    | none => rfl
    | some r =>
      simp only
      obtain ⟨hsr, hm, _⟩ := findFrom_some hf
      rw [ih _ _ (Nat.le_refl _)]
      exact (drop_split_at_match (by omega) hm).symm

theorem replaceAllAux_no_match (pat subst text : Bytes) (fuel last start : Nat)
    (h : findFrom pat text start = none) : replaceAllAux pat subst text fuel last start = text.drop last := by
  cases fuel with
  | zero => rfl
  | succ n => simp [replaceAllAux, h]

/-! ## take / drop, partition, interpose -/

theorem takeN_dropN_nonneg {α : Type} (n : Int) (l : List α) (h : 0 ≤ n) : takeN n l ++ dropN n l = l := by
  simp [takeN, dropN, h]

theorem dropN_takeN_neg {α : Type} (n : Int) (l : List α) (h : n < 0) : dropN n l ++ takeN n l = l := by
  have : ¬ (n ≥ 0) := by omega
  simp [takeN, dropN, this]

theorem takeN_length_nonneg {α : Type} (n : Int) (l : List α) (h : 0 ≤ n) : (takeN n l).length = min n.toNat l.length := by
  simp [takeN, h]

theorem partitionAux_flatten {α : Type} (n : Nat) (hn : 1 ≤ n) (fuel : Nat) (l : List α) (hf : l.length < fuel) :
    (partitionAux n fuel l).flatten = l := by
  induction fuel generalizing l with
  | zero => omega
  | succ k ih =>
    cases l with
    | nil => simp [partitionAux]
    | cons x xs =>
      simp only [partitionAux, List.flatten_cons]
      rw [ih]
      · exact List.take_append_drop _ _
      · simp only [List.length_drop, List.length_cons] at *
        omega

theorem partition_flatten {α : Type} (n : Nat) (hn : 1 ≤ n) (l : List α) : (partition n l).flatten = l :=
  partitionAux_flatten n hn _ l (by omega)

theorem partitionAux_chunk_le {α : Type} (n : Nat) (fuel : Nat) (l : List α) :
    ∀ c ∈ partitionAux n fuel l, c.length ≤ n := by
  induction fuel generalizing l with
  | zero => simp [partitionAux]
  | succ k ih =>
    cases l with
    | nil => simp [partitionAux]
    | cons x xs =>
      simp only [partitionAux, List.mem_cons]
      intro c hc
      cases hc with
      | inl h => subst h; simp [List.length_take]; omega
      | inr h => exact ih _ c h

theorem interpose_length {α : Type} (sep : α) (l : List α) (h : l ≠ []) : (interpose sep l).length = 2 * l.length - 1 := by
  induction l with
  | nil => exact absurd rfl h
  | cons x xs ih =>
    cases xs with
    | nil => simp [interpose]
    | cons y ys =>
      simp only [interpose, List.length_cons]
      have := ih (by simp)
      simp only [List.length_cons] at this
      omega

/-! ## trim -/

theorem takeWhile_length_add_dropWhile {α : Type} (p : α → Bool) (l : List α) :
    (l.takeWhile p).length + (l.dropWhile p).length = l.length := by
  have := congrArg List.length (List.takeWhile_append_dropWhile (p := p) (l := l))
  rw [List.length_append] at this
  exact this

theorem triml_eq_drop (s set : Bytes) : triml s set = s.drop (leftEdge s set) := by
  unfold triml leftEdge
  have h := List.takeWhile_append_dropWhile (p := inSet set) (l := s)
  have h2 : List.drop (List.takeWhile (inSet set) s).length (List.takeWhile (inSet set) s ++ List.dropWhile (inSet set) s)
      = List.dropWhile (inSet set) s := List.drop_left
  rw [h] at h2
  exact h2.symm

theorem trimr_eq_take (s set : Bytes) : trimr s set = s.take (rightEdge s set) := by
  unfold trimr rightEdge
  have h := List.takeWhile_append_dropWhile (p := inSet set) (l := s.reverse)
  have hs : s = (List.dropWhile (inSet set) s.reverse).reverse ++ (List.takeWhile (inSet set) s.reverse).reverse := by
    have := congrArg List.reverse h
    rw [List.reverse_append, List.reverse_reverse] at this
    exact this.symm
  have hlen : s.length - (List.takeWhile (inSet set) s.reverse).length = (List.dropWhile (inSet set) s.reverse).reverse.length := by
    have := takeWhile_length_add_dropWhile (inSet set) s.reverse
    simp at this ⊢
    omega
  rw [hlen]
  have h2 : List.take (List.dropWhile (inSet set) s.reverse).reverse.length
      ((List.dropWhile (inSet set) s.reverse).reverse ++ (List.takeWhile (inSet set) s.reverse).reverse)
      = (List.dropWhile (inSet set) s.reverse).reverse := List.take_left
  rw [← hs] at h2
  exact h2.symm

/-! ## reverse, case conversion, prefix, check-set -/

theorem hasPrefix_iff (pfx s : Bytes) : hasPrefix pfx s = true ↔ ∃ t, s = pfx ++ t := by
  simp only [hasPrefix, beq_iff_eq]
  constructor
  · intro h
    refine ⟨s.drop pfx.length, ?_⟩
    have := (List.take_append_drop pfx.length s).symm
    rw [h] at this
    exact this
  · rintro ⟨t, rfl⟩
    simp

theorem checkSet_iff (set s : Bytes) : checkSet set s = true ↔ ∀ c ∈ s, c ∈ set := by
  simp [checkSet, inSet, List.all_eq_true]

theorem asciiUpper_length (s : Bytes) : (asciiUpper s).length = s.length := by simp [asciiUpper]
theorem asciiLower_length (s : Bytes) : (asciiLower s).length = s.length := by simp [asciiLower]

theorem asciiLower_upper_of_lower (s : Bytes) (h : ∀ c ∈ s, ¬ (65 ≤ c ∧ c ≤ 90)) :
    asciiLower (asciiUpper s) = s := by
  induction s with
  | nil => rfl
  | cons c cs ih =>
    have hc := h c (by simp)
    have ih' := ih (fun x hx => h x (by simp [hx]))
    simp only [asciiLower, asciiUpper, List.map_cons, List.cons.injEq] at *
    refine ⟨?_, ih'⟩
    simp only [upperFrom, upperTo, upperSub, lowerFrom, lowerTo, lowerAdd]
    by_cases h1 : 97 ≤ c ∧ c ≤ 122
    · rw [if_pos h1]
      have : 65 ≤ c - 32 ∧ c - 32 ≤ 90 := by omega
      rw [if_pos this]; omega
    · rw [if_neg h1, if_neg hc]

/-! ## buffers (list level) -/

theorem bufferPush_self (b : Bytes) : bufferPush b [PushArg.self] = some (b ++ b) := by
  simp [bufferPush]

theorem bufferPush_bytes (b l : Bytes) : bufferPush b [PushArg.bytes l] = some (b ++ l) := by
  simp [bufferPush]

/-- blitting at `dest-start = -1` (= count) with default source range is an append -/
theorem bufferBlit_end_is_push (d s : Bytes) (hsmall : (d.length : Int) + (s.length : Int) ≤ int32Max) :
    bufferBlit d (some s) (some (-1)) none none = some (d ++ s) := by
  have hh : halfrange (-1) d.length = some d.length := by
    unfold halfrange
    simp only [halfAdj, halfUpperIncl]
    have h1 : ((-1 : Int) < 0) := by omega
    simp only [h1, if_true]
    have : ¬ ((-1 : Int) + (d.length : Int) + 1 < 0 ∨ (-1 : Int) + (d.length : Int) + 1 > (d.length : Int)) := by omega
    rw [if_neg this]
    congr 1
    omega
  unfold bufferBlit
  simp only [hh]
  have hbig : ¬ ((d.length : Int) + ((s.length - 0 : Nat) : Int) > int32Max) := by
    rw [Nat.sub_zero]; exact Int.not_lt.mpr hsmall
  simp
  exact hsmall

theorem take_app3 {α : Type} (A B C : List α) : List.take A.length (A ++ B ++ C) = A := by
  rw [List.append_assoc]; exact List.take_left

theorem drop_app3 {α : Type} (A B C : List α) : List.drop (A.length + B.length) (A ++ B ++ C) = C := by
  rw [← List.length_append]; exact List.drop_left

/-- removing what was just inserted gives the array back -/
theorem arrayInsert_remove {α : Type} (a xs : List α) (i : Nat) (hi : i ≤ a.length)
    (h32 : (a.length : Int) + xs.length ≤ int32Max) :
    (arrayInsert a i xs).bind (fun r => arrayRemove r i xs.length) = some a := by
  unfold int32Max at h32
  have hi32 : getInt32 (i : Int) = some (i : Int) := by
    unfold getInt32 int32Min int32Max
    rw [if_pos (by omega)]
  have hn32 : getInt32 (xs.length : Int) = some (xs.length : Int) := by
    unfold getInt32 int32Min int32Max
    rw [if_pos (by omega)]
  have hlen : (List.take i a).length = i := by simp [List.length_take]; omega
  have hsplit : List.take i a ++ List.drop i a = a := List.take_append_drop i a
  unfold arrayInsert
  simp only [hi32]
  have h1 : ¬ ((i : Int) < 0) := by omega
  simp only [if_neg h1]
  have h2 : ¬ ((i : Int) < 0 ∨ (i : Int) > (a.length : Int)) := by omega
  rw [if_neg h2]
  simp only [Option.bind_some, Int.toNat_natCast]
  unfold arrayRemove
  simp only [hi32, hn32, if_neg h1]
  generalize List.take i a = A at *
  generalize List.drop i a = C at *
  subst hlen
  have h3 : ¬ ((A.length : Int) < 0 ∨ (A.length : Int) > ((A ++ xs ++ C).length : Int)) := by
    simp only [List.length_append]
    omega
  rw [if_neg h3]
  have h4 : ¬ ((xs.length : Int) < 0) := by omega
  rw [if_neg h4]
  simp only [Int.toNat_natCast, Option.some.injEq]
  rw [take_app3, drop_app3]
  exact hsplit

end JanetModel.Lib
