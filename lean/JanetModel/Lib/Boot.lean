import JanetModel.Lib.JIter
/- C17: mirrors of boot.janet sequence functions on indexed / bytes arguments, following the macro-expanded control flow
   (`each` → `next`/`in` loop of each-template; `while`/`break`; chained comparisons).  Core Lean only.
   The definitions' source text is regenerated into Gen/LibSrc.lean (`boot_*`) and compared in Lib/SrcTie.lean.

   Values are generic, user functions are Lean functions (a predicate's `Bool` is the truthiness of its result), indexed /
   bytes arguments are `List α`, calls to the C functions `tuple/slice` / `string/slice` are `R.ofOption (Spec.slice …)`
   (whose decode is the proved mirror of capi.c: out-of-range indices raise).  A `while` loop is a recursion with fuel
   `length + 1`; fuel exhaustion is `.ub` (outside the model) and shown unreachable in Lib/BootProofs.lean. -/
namespace JanetModel.Lib.Boot
open JanetModel.Lib JanetModel.Lib.JIter

/-! ## each-template -/

/-- `(each x ds body…)`:  `(var k (next ds nil)) (while (not= nil k) (def x (in ds k)) body… (set k (next ds k)))`.
    `body x s` returns the new state and whether it executed `(break)`. -/
def eachLoop {α σ : Type} (ds : List α) (body : Nat → α → σ → R (σ × Bool)) : Nat → Option Nat → σ → R σ
  | 0, k, s => match k with
    | none => .ok s
    | some _ => .ub
  | fuel + 1, k, s =>
    match k with
    | none => .ok s                                              -- (while (not= nil k) …)
    | some i =>
      match inIdx ds i with                                      -- (def x (in ds k))
      | .ok x =>
        match body i x s with                                    -- body… (may use the key)
        | .ok (s', brk) =>
          if brk then .ok s'                                     -- (break)
          else eachLoop ds body fuel (nextKey ds.length (some i)) s'   -- (set k (next ds k))
        | .panic => .panic
        | .ub => .ub
      | .panic => .panic
      | .ub => .ub

def each {α σ : Type} (ds : List α) (body : Nat → α → σ → R (σ × Bool)) (s : σ) : R σ :=
  eachLoop ds body (ds.length + 1) (nextKey ds.length none) s   -- (var k (next ds nil))

/-! ## reduce / filter / map / count / sum / product -/

/-- `(defn reduce [f init ind] (var accum init) (each el ind (set accum (f accum el))) accum)` -/
def reduce {α β : Type} (f : β → α → β) (init : β) (ind : List α) : R β :=
  each ind (fun _ el accum => .ok (f accum el, false)) init

/-- `(defn filter [pred ind] (def res @[]) (each item ind (if (pred item) (array/push res item))) res)` -/
def filter {α : Type} (pred : α → Bool) (ind : List α) : R (List α) := do
  let res ← each ind (fun _ item (res : Array α) => .ok (if pred item then res.push item else res, false)) #[]
  pure res.toList

/-- `map` with no extra sequences: `map-template` branch `0 (each x ind (map-aggregator :map res (f x)))`,
    aggregator `(array/push res val)` -/
def map1 {α β : Type} (f : α → β) (ind : List α) : R (List β) := do
  let res ← each ind (fun _ x (res : Array β) => .ok (res.push (f x), false)) #[]
  pure res.toList

/-- `count` with no extra sequences: aggregator `(if val (++ res))` -/
def count1 {α : Type} (pred : α → Bool) (ind : List α) : R Nat :=
  each ind (fun _ x (res : Nat) => .ok (if pred x then res + 1 else res, false)) 0

/-- `map` with one extra sequence: `map-n 1`:
      `(def [ind0] inds) (var key0 nil)
       (each x ind (if (= nil (set key0 (next ind0 key0))) (break)) (array/push res (f x (in ind0 key0))))` -/
def map2Body {α β γ : Type} (f : α → β → γ) (ind0 : List β) (_ : Nat) (x : α) (st : Array γ × Option Nat) :
    R ((Array γ × Option Nat) × Bool) :=
  match nextKey ind0.length st.2 with
  | none => .ok ((st.1, none), true)                                   -- (break)
  | some key0 =>
    match inIdx ind0 key0 with
    | .ok y => .ok ((st.1.push (f x y), some key0), false)
    | .panic => .panic
    | .ub => .ub

def map2 {α β γ : Type} (f : α → β → γ) (ind : List α) (ind0 : List β) : R (List γ) := do
  let st ← each ind (map2Body f ind0) (#[], none)
  pure st.1.toList

/-- `(defn sum [xs] (var accum 0) (each x xs (+= accum x)) accum)` -/
def sum (xs : List Int) : R Int := each xs (fun _ x accum => .ok (accum + x, false)) 0
/-- `(defn product [xs] (var accum 1) (each x xs (*= accum x)) accum)` -/
def product (xs : List Int) : R Int := each xs (fun _ x accum => .ok (accum * x, false)) 1

/-! ## find-index / find / index-of -/

/-- `find-index`:
      `(var k nil) (var ret dflt)
       (while true (set k (next ind k)) (if (= k nil) (break)) (def item (in ind k))
                   (when (pred item) (set ret k) (break)))
       ret`           (`dflt` = nil) -/
def findIndexLoop {α : Type} (pred : α → Bool) (ind : List α) : Nat → Option Nat → R (Option Nat)
  | 0, _ => .ub
  | fuel + 1, k =>
    match nextKey ind.length k with
    | none => .ok none
    | some k' =>
      match inIdx ind k' with
      | .ok item => if pred item then .ok (some k') else findIndexLoop pred ind fuel (some k')
      | .panic => .panic
      | .ub => .ub

def findIndex {α : Type} (pred : α → Bool) (ind : List α) : R (Option Nat) :=
  findIndexLoop pred ind (ind.length + 1) none

/-- `find`: the same loop with `(set ret item)` -/
def find {α : Type} (pred : α → Bool) (ind : List α) : R (Option α) := do
  match ← findIndex pred ind with
  | none => pure none
  | some k => do let x ← inIdx ind k; pure (some x)

/-- `index-of`: `(var k (next ind nil)) (var ret dflt)
      (while (not= nil k) (when (= (in ind k) x) (set ret k) (break)) (set k (next ind k))) ret` -/
def indexOf {α : Type} [BEq α] (x : α) (ind : List α) : R (Option Nat) :=
  each ind (fun k y (ret : Option Nat) => if y == x then .ok (some k, true) else .ok (ret, false)) none

/-! ## take / drop family (indexed and bytes branches) -/

/-- `(defn- take-n-slice [f n ind] (def len (length ind)) (def m (+ len n))
       (def start (if (< n 0 m) m 0)) (def end (if (<= 0 n len) n len)) (f ind start end))` -/
def takeNSlice {α : Type} (n : Int) (ind : List α) : R (List α) :=
  let len : Int := ind.length
  let m := len + n
  let start := if n < 0 ∧ 0 < m then m else 0
  let end_ := if 0 ≤ n ∧ n ≤ len then n else len
  R.ofOption (slice ind (some start) (some end_))

/-- `(take n ind)` for indexed (`tuple/slice`) and bytes (`string/slice`) -/
def take {α : Type} (n : Int) (ind : List α) : R (List α) := takeNSlice n ind

/-- `(defn- drop-n-slice [f n ind] (def len (length ind))
       (cond (<= 0 n len) (f ind n)  (< (- len) n 0) (f ind 0 (+ len n))  (f ind len)))` -/
def dropNSlice {α : Type} (n : Int) (ind : List α) : R (List α) :=
  let len : Int := ind.length
  if 0 ≤ n ∧ n ≤ len then R.ofOption (slice ind (some n) none)
  else if -len < n ∧ n < 0 then R.ofOption (slice ind (some 0) (some (len + n)))
  else R.ofOption (slice ind (some len) none)

def drop {α : Type} (n : Int) (ind : List α) : R (List α) := dropNSlice n ind

/-- `(if (nil? i) len i)` -/
def idxOr (i : Option Nat) (len : Int) : Int :=
  match i with
  | none => len
  | some i => (i : Int)

/-- `(defn- take-until-slice [f pred ind] (def len (length ind)) (def i (find-index pred ind))
       (def end (if (nil? i) len i)) (f ind 0 end))` -/
def takeUntil {α : Type} (pred : α → Bool) (ind : List α) : R (List α) := do
  let len : Int := ind.length
  let i ← findIndex pred ind
  let end_ : Int := idxOr i len
  R.ofOption (slice ind (some 0) (some end_))

/-- `(defn complement [f] (fn [x] (not (f x))))`, `(defn take-while [pred ind] (take-until (complement pred) ind))` -/
def complement {α : Type} (f : α → Bool) : α → Bool := fun x => !(f x)
def takeWhile {α : Type} (pred : α → Bool) (ind : List α) : R (List α) := takeUntil (complement pred) ind

/-- `(defn- drop-until-slice [f pred ind] (def len (length ind)) (def i (find-index pred ind))
       (def start (if (nil? i) len i)) (f ind start))` -/
def dropUntil {α : Type} (pred : α → Bool) (ind : List α) : R (List α) := do
  let len : Int := ind.length
  let i ← findIndex pred ind
  let start : Int := idxOr i len
  R.ofOption (slice ind (some start) none)

def dropWhile {α : Type} (pred : α → Bool) (ind : List α) : R (List α) := dropUntil (complement pred) ind

/-! ## extreme family -/

/-- `do-extreme`: `(def ds args) (var k (next ds nil)) (var ret (get ds k))
      (while (not= nil (set k (next ds k))) (def x (in ds k)) (if (order x ret) (set ret x))) ret`
    (`(get ds nil)` on an empty sequence is nil → `none`) -/
def extremeLoop {α : Type} (order : α → α → Bool) (ds : List α) : Nat → Option Nat → α → R α
  | 0, _, _ => .ub
  | fuel + 1, k, ret =>
    match nextKey ds.length k with
    | none => .ok ret
    | some k' =>
      match inIdx ds k' with
      | .ok x => extremeLoop order ds fuel (some k') (if order x ret then x else ret)
      | .panic => .panic
      | .ub => .ub

def extreme {α : Type} (order : α → α → Bool) (ds : List α) : R (Option α) :=
  match nextKey ds.length none with
  | none => .ok none                                  -- ret = (get ds nil) = nil, the loop does not run
  | some k =>
    match getIdx ds k with
    | none => .ok none
    | some ret => do let r ← extremeLoop order ds (ds.length + 1) (some k) ret; pure (some r)

/-! ## reverse -/

/-- `reverse` on a lengthable: `(var n (length t)) (def ret (array/new-filled n)) (each v t (put ret (-- n) v)) ret`;
    `put` on an array with an index outside `[0, …)`/negative would raise / extend: modelled by `setIdx` (`.ub`) and shown
    unreachable. -/
def reverse {α : Type} [Inhabited α] (t : List α) : R (List α) := do
  let (ret, _) ← each t (fun _ v (st : Array α × Int) => do
      let n := st.2 - 1
      let ret ← setIdx st.1 n v
      pure ((ret, n), false)) (Array.replicate t.length default, (t.length : Int))
  pure ret.toList

end JanetModel.Lib.Boot
