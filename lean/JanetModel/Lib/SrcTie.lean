import JanetModel.Gen.LibSrc
/- C17: the source text each mirror (Lib/StrC, Lib/Kmp, Lib/BufC, Lib/ArrC, Lib/Boot, Lib/Sort, Lib/Range, Lib/Spec range
   decoding) was transcribed from.  Written by `python3 -m tools.gen.libsrc --tie` when a mirror is (re)examined; the
   theorems compare it with the text regenerated from the current tree (Gen/LibSrc.lean) on every run. -/
namespace JanetModel.Lib.SrcTie
open JanetModel.Gen

/-- src/core/capi.c janet_gethalfrange -/
theorem janet_gethalfrange : LibSrc.janet_gethalfrange = "(const Janet *v1, int32_t v2, int32_t v3, const char *v4) { int32_t v5 = janet_getinteger(v1, v2); int32_t v6 = v5; if (v6 < 0) v6 += v3 + 1; if (v6 < 0 || v6 > v3) janet_panicf(\"%s index %d out of range [%d,%d]\", v4, (int64_t) v5, -(int64_t)v3 - 1, (int64_t) v3); return v6; }" := rfl
/-- src/core/capi.c janet_getargindex -/
theorem janet_getargindex : LibSrc.janet_getargindex = "(const Janet *v1, int32_t v2, int32_t v3, const char *v4) { int32_t v5 = janet_getinteger(v1, v2); int32_t v6 = v5; if (v6 < 0) v6 += v3; if (v6 < 0 || v6 > v3) janet_panicf(\"%s index %d out of range [%d,%d)\", v4, (int64_t)v5, -(int64_t)v3, (int64_t)v3); return v6; }" := rfl
/-- src/core/capi.c janet_getstartrange -/
theorem janet_getstartrange : LibSrc.janet_getstartrange = "(const Janet *v1, int32_t v2, int32_t v3, int32_t v4) { if (v3 >= v2 || janet_checktype(v1[v3], JANET_NIL)) { return 0; } return janet_gethalfrange(v1, v3, v4, \"start\"); }" := rfl
/-- src/core/capi.c janet_getendrange -/
theorem janet_getendrange : LibSrc.janet_getendrange = "(const Janet *v1, int32_t v2, int32_t v3, int32_t v4) { if (v3 >= v2 || janet_checktype(v1[v3], JANET_NIL)) { return v4; } return janet_gethalfrange(v1, v3, v4, \"end\"); }" := rfl
/-- src/core/capi.c janet_getslice -/
theorem janet_getslice : LibSrc.janet_getslice = "(int32_t v1, const Janet *v2) { janet_arity(v1, 1, 3); JanetRange v3; int32_t v4 = janet_length(v2[0]); v3.start = janet_getstartrange(v2, v1, 1, v4); v3.end = janet_getendrange(v2, v1, 2, v4); if (v3.end < v3.start) v3.end = v3.start; return v3; }" := rfl
/-- src/core/string.c kmp_init -/
theorem kmp_init : LibSrc.kmp_init = "( struct kmp_state *v1, const uint8_t *v2, int32_t v3, const uint8_t *v4, int32_t v5) { if (v5 == 0) { janet_panic(\"expected non-empty pattern\"); } int32_t *v6 = janet_calloc(v5, sizeof(int32_t)); if (!v6) { JANET_OUT_OF_MEMORY; } v1->lookup = v6; v1->i = 0; v1->j = 0; v1->text = v2; v1->pat = v4; v1->textlen = v3; v1->patlen = v5; { int32_t v7, v8; for (v7 = 1, v8 = 0; v7 < v5; v7++) { while (v8 && v4[v8] != v4[v7]) v8 = v6[v8 - 1]; if (v4[v8] == v4[v7]) v8++; v6[v7] = v8; } } }" := rfl
/-- src/core/string.c kmp_seti -/
theorem kmp_seti : LibSrc.kmp_seti = "(struct kmp_state *v1, int32_t v2) { v1->i = v2; v1->j = 0; }" := rfl
/-- src/core/string.c kmp_next -/
theorem kmp_next : LibSrc.kmp_next = "(struct kmp_state *v1) { int32_t v2 = v1->i; int32_t v3 = v1->j; int32_t v4 = v1->textlen; int32_t v5 = v1->patlen; const uint8_t *v6 = v1->text; const uint8_t *v7 = v1->pat; int32_t *v8 = v1->lookup; while (v2 < v4) { if (v6[v2] == v7[v3]) { if (v3 == v5 - 1) { v1->i = v2 + 1; v1->j = v8[v3]; return v2 - v3; } else { v2++; v3++; } } else { if (v3 > 0) { v3 = v8[v3 - 1]; } else { v2++; } } } return -1; }" := rfl
/-- src/core/string.c findsetup -/
theorem findsetup : LibSrc.findsetup = "(int32_t v1, Janet *v2, struct kmp_state *v3, int32_t v4) { janet_arity(v1, 2, 3 + v4); JanetByteView v5 = janet_getbytes(v2, 0); JanetByteView v6 = janet_getbytes(v2, 1); int32_t v7 = 0; if (v1 >= 3) { v7 = janet_getinteger(v2, 2); if (v7 < 0) janet_panic(\"expected non-negative start index\"); } kmp_init(v3, v6.bytes, v6.len, v5.bytes, v5.len); v3->i = v7; }" := rfl
/-- src/core/string.c replacesetup -/
theorem replacesetup : LibSrc.replacesetup = "(int32_t v1, Janet *v2, struct replace_state *v3) { janet_arity(v1, 3, 4); JanetByteView v4 = janet_getbytes(v2, 0); Janet v5 = v2[1]; JanetByteView v6 = janet_getbytes(v2, 2); int32_t v7 = 0; if (v1 == 4) { v7 = janet_getinteger(v2, 3); if (v7 < 0) janet_panic(\"expected non-negative start index\"); } kmp_init(&v3->kmp, v6.bytes, v6.len, v4.bytes, v4.len); v3->kmp.i = v7; v3->subst = v5; }" := rfl
/-- src/core/string.c cfun_string_find -/
theorem cfun_string_find : LibSrc.cfun_string_find = "(int32_t v1, Janet *v2) { int32_t v3; struct kmp_state v4; findsetup(v1, v2, &v4, 0); v3 = kmp_next(&v4); kmp_deinit(&v4); return v3 < 0 ? janet_wrap_nil() : janet_wrap_integer(v3); }" := rfl
/-- src/core/string.c cfun_string_findall -/
theorem cfun_string_findall : LibSrc.cfun_string_findall = "(int32_t v1, Janet *v2) { int32_t v3; struct kmp_state v4; findsetup(v1, v2, &v4, 0); JanetArray *v5 = janet_array(0); while ((v3 = kmp_next(&v4)) >= 0) { janet_array_push(v5, janet_wrap_integer(v3)); } kmp_deinit(&v4); return janet_wrap_array(v5); }" := rfl
/-- src/core/string.c cfun_string_replace -/
theorem cfun_string_replace : LibSrc.cfun_string_replace = "(int32_t v1, Janet *v2) { int32_t v3; struct replace_state v4; uint8_t *v5; replacesetup(v1, v2, &v4); v3 = kmp_next(&v4.kmp); if (v3 < 0) { kmp_deinit(&v4.kmp); return janet_stringv(v4.kmp.text, v4.kmp.textlen); } JanetByteView v6 = janet_text_substitution(&v4.subst, v4.kmp.text + v3, v4.kmp.patlen, NULL); v5 = janet_string_begin(v4.kmp.textlen - v4.kmp.patlen + v6.len); safe_memcpy(v5, v4.kmp.text, v3); safe_memcpy(v5 + v3, v6.bytes, v6.len); safe_memcpy(v5 + v3 + v6.len, v4.kmp.text + v3 + v4.kmp.patlen, v4.kmp.textlen - v3 - v4.kmp.patlen); kmp_deinit(&v4.kmp); return janet_wrap_string(janet_string_end(v5)); }" := rfl
/-- src/core/string.c cfun_string_replaceall -/
theorem cfun_string_replaceall : LibSrc.cfun_string_replaceall = "(int32_t v1, Janet *v2) { int32_t v3; struct replace_state v4; JanetBuffer v5; int32_t v6 = 0; replacesetup(v1, v2, &v4); janet_buffer_init(&v5, v4.kmp.textlen); while ((v3 = kmp_next(&v4.kmp)) >= 0) { JanetByteView v7 = janet_text_substitution(&v4.subst, v4.kmp.text + v3, v4.kmp.patlen, NULL); janet_buffer_push_bytes(&v5, v4.kmp.text + v6, v3 - v6); janet_buffer_push_bytes(&v5, v7.bytes, v7.len); v6 = v3 + v4.kmp.patlen; kmp_seti(&v4.kmp, v6); } janet_buffer_push_bytes(&v5, v4.kmp.text + v6, v4.kmp.textlen - v6); const uint8_t *v8 = janet_string(v5.data, v5.count); janet_buffer_deinit(&v5); kmp_deinit(&v4.kmp); return janet_wrap_string(v8); }" := rfl
/-- src/core/string.c cfun_string_split -/
theorem cfun_string_split : LibSrc.cfun_string_split = "(int32_t v1, Janet *v2) { int32_t v3; JanetArray *v4; struct kmp_state v5; int32_t v6 = -1, v7 = 0; if (v1 == 4) { v6 = janet_getinteger(v2, 3); } findsetup(v1, v2, &v5, 1); v4 = janet_array(0); while ((v3 = kmp_next(&v5)) >= 0 && (v6 < 0 || --v6)) { const uint8_t *v8 = janet_string(v5.text + v7, v3 - v7); janet_array_push(v4, janet_wrap_string(v8)); v7 = v3 + v5.patlen; kmp_seti(&v5, v7); } const uint8_t *v8 = janet_string(v5.text + v7, v5.textlen - v7); janet_array_push(v4, janet_wrap_string(v8)); kmp_deinit(&v5); return janet_wrap_array(v4); }" := rfl
/-- src/core/string.c cfun_string_join -/
theorem cfun_string_join : LibSrc.cfun_string_join = "(int32_t v1, Janet *v2) { janet_arity(v1, 1, 2); JanetView v3 = janet_getindexed(v2, 0); JanetByteView v4; if (v1 == 2) { v4 = janet_getbytes(v2, 1); } else { v4.bytes = NULL; v4.len = 0; } int32_t v5; int64_t v6 = 0; for (v5 = 0; v5 < v3.len; v5++) { const uint8_t *v7; int32_t v8 = 0; if (!janet_bytes_view(v3.items[v5], &v7, &v8)) { janet_panicf(\"item %d of parts is not a byte sequence, got %v\", v5, v3.items[v5]); } if (v5) v6 += v4.len; v6 += v8; if (v6 > INT32_MAX) janet_panic(\"result string too long\"); } uint8_t *v9, *v10; v10 = v9 = janet_string_begin((int32_t) v6); for (v5 = 0; v5 < v3.len; v5++) { const uint8_t *v7 = NULL; int32_t v8 = 0; if (v5) { safe_memcpy(v10, v4.bytes, v4.len); v10 += v4.len; } janet_bytes_view(v3.items[v5], &v7, &v8); safe_memcpy(v10, v7, v8); v10 += v8; } return janet_wrap_string(janet_string_end(v9)); }" := rfl
/-- src/core/string.c cfun_string_slice -/
theorem cfun_string_slice : LibSrc.cfun_string_slice = "(int32_t v1, Janet *v2) { janet_arity(v1, 1, 3); JanetByteView v3 = janet_getbytes(v2, 0); JanetRange v4 = janet_getslice(v1, v2); return janet_stringv(v3.bytes + v4.start, v4.end - v4.start); }" := rfl
/-- src/core/string.c cfun_string_repeat -/
theorem cfun_string_repeat : LibSrc.cfun_string_repeat = "(int32_t v1, Janet *v2) { janet_fixarity(v1, 2); JanetByteView v3 = janet_getbytes(v2, 0); int32_t v4 = janet_getinteger(v2, 1); if (v4 < 0) janet_panic(\"expected non-negative number of repetitions\"); if (v4 == 0) return janet_cstringv(\"\"); int64_t v5 = (int64_t) v4 * v3.len; if (v5 > INT32_MAX) janet_panic(\"result string is too long\"); uint8_t *v6 = janet_string_begin((int32_t) v5); uint8_t *v7 = v6 + v5; for (uint8_t *v8 = v6; v8 < v7; v8 += v3.len) { safe_memcpy(v8, v3.bytes, v3.len); } return janet_wrap_string(janet_string_end(v6)); }" := rfl
/-- src/core/string.c cfun_string_bytes -/
theorem cfun_string_bytes : LibSrc.cfun_string_bytes = "(int32_t v1, Janet *v2) { janet_fixarity(v1, 1); JanetByteView v3 = janet_getbytes(v2, 0); Janet *v4 = janet_tuple_begin(v3.len); int32_t v5; for (v5 = 0; v5 < v3.len; v5++) { v4[v5] = janet_wrap_integer((int32_t) v3.bytes[v5]); } return janet_wrap_tuple(janet_tuple_end(v4)); }" := rfl
/-- src/core/string.c cfun_string_frombytes -/
theorem cfun_string_frombytes : LibSrc.cfun_string_frombytes = "(int32_t v1, Janet *v2) { int32_t v3; uint8_t *v4 = janet_string_begin(v1); for (v3 = 0; v3 < v1; v3++) { int32_t v5 = janet_getinteger(v2, v3); v4[v3] = v5 & 0xFF; } return janet_wrap_string(janet_string_end(v4)); }" := rfl
/-- src/core/string.c cfun_string_asciilower -/
theorem cfun_string_asciilower : LibSrc.cfun_string_asciilower = "(int32_t v1, Janet *v2) { janet_fixarity(v1, 1); JanetByteView v3 = janet_getbytes(v2, 0); uint8_t *v4 = janet_string_begin(v3.len); for (int32_t v5 = 0; v5 < v3.len; v5++) { uint8_t v6 = v3.bytes[v5]; if (v6 >= 65 && v6 <= 90) { v4[v5] = v6 + 32; } else { v4[v5] = v6; } } return janet_wrap_string(janet_string_end(v4)); }" := rfl
/-- src/core/string.c cfun_string_asciiupper -/
theorem cfun_string_asciiupper : LibSrc.cfun_string_asciiupper = "(int32_t v1, Janet *v2) { janet_fixarity(v1, 1); JanetByteView v3 = janet_getbytes(v2, 0); uint8_t *v4 = janet_string_begin(v3.len); for (int32_t v5 = 0; v5 < v3.len; v5++) { uint8_t v6 = v3.bytes[v5]; if (v6 >= 97 && v6 <= 122) { v4[v5] = v6 - 32; } else { v4[v5] = v6; } } return janet_wrap_string(janet_string_end(v4)); }" := rfl
/-- src/core/string.c cfun_string_reverse -/
theorem cfun_string_reverse : LibSrc.cfun_string_reverse = "(int32_t v1, Janet *v2) { janet_fixarity(v1, 1); JanetByteView v3 = janet_getbytes(v2, 0); uint8_t *v4 = janet_string_begin(v3.len); int32_t v5, v6; for (v5 = 0, v6 = v3.len - 1; v5 < v3.len; v5++, v6--) { v4[v5] = v3.bytes[v6]; } return janet_wrap_string(janet_string_end(v4)); }" := rfl
/-- src/core/string.c cfun_string_hasprefix -/
theorem cfun_string_hasprefix : LibSrc.cfun_string_hasprefix = "(int32_t v1, Janet *v2) { janet_fixarity(v1, 2); JanetByteView v3 = janet_getbytes(v2, 0); JanetByteView v4 = janet_getbytes(v2, 1); return v4.len < v3.len ? janet_wrap_false() : janet_wrap_boolean(memcmp(v3.bytes, v4.bytes, v3.len) == 0); }" := rfl
/-- src/core/string.c cfun_string_hassuffix -/
theorem cfun_string_hassuffix : LibSrc.cfun_string_hassuffix = "(int32_t v1, Janet *v2) { janet_fixarity(v1, 2); JanetByteView v3 = janet_getbytes(v2, 0); JanetByteView v4 = janet_getbytes(v2, 1); return v4.len < v3.len ? janet_wrap_false() : janet_wrap_boolean(memcmp(v3.bytes, v4.bytes + v4.len - v3.len, v3.len) == 0); }" := rfl
/-- src/core/string.c cfun_string_checkset -/
theorem cfun_string_checkset : LibSrc.cfun_string_checkset = "(int32_t v1, Janet *v2) { uint32_t v3[8] = {0, 0, 0, 0, 0, 0, 0, 0}; janet_fixarity(v1, 2); JanetByteView v4 = janet_getbytes(v2, 0); JanetByteView v5 = janet_getbytes(v2, 1); for (int32_t v6 = 0; v6 < v4.len; v6++) { int v7 = v4.bytes[v6] >> 5; uint32_t v8 = (uint32_t) 1 << (v4.bytes[v6] & 0x1F); v3[v7] |= v8; } for (int32_t v6 = 0; v6 < v5.len; v6++) { int v7 = v5.bytes[v6] >> 5; uint32_t v8 = (uint32_t) 1 << (v5.bytes[v6] & 0x1F); if (!(v3[v7] & v8)) { return janet_wrap_false(); } } return janet_wrap_true(); }" := rfl
/-- src/core/string.c trim_help_checkset -/
theorem trim_help_checkset : LibSrc.trim_help_checkset = "(JanetByteView v1, uint8_t v2) { for (int32_t v3 = 0; v3 < v1.len; v3++) if (v1.bytes[v3] == v2) return 1; return 0; }" := rfl
/-- src/core/string.c trim_help_leftedge -/
theorem trim_help_leftedge : LibSrc.trim_help_leftedge = "(JanetByteView v1, JanetByteView v2) { for (int32_t v3 = 0; v3 < v1.len; v3++) if (!trim_help_checkset(v2, v1.bytes[v3])) return v3; return v1.len; }" := rfl
/-- src/core/string.c trim_help_rightedge -/
theorem trim_help_rightedge : LibSrc.trim_help_rightedge = "(JanetByteView v1, JanetByteView v2) { for (int32_t v3 = v1.len - 1; v3 >= 0; v3--) if (!trim_help_checkset(v2, v1.bytes[v3])) return v3 + 1; return 0; }" := rfl
/-- src/core/string.c trim_help_args -/
theorem trim_help_args : LibSrc.trim_help_args = "(int32_t v1, Janet *v2, JanetByteView *v3, JanetByteView *v4) { janet_arity(v1, 1, 2); *v3 = janet_getbytes(v2, 0); if (v1 >= 2) { *v4 = janet_getbytes(v2, 1); } else { v4->bytes = (const uint8_t *)(\" \\t\\r\\n\\v\\f\"); v4->len = 6; } }" := rfl
/-- src/core/string.c cfun_string_trim -/
theorem cfun_string_trim : LibSrc.cfun_string_trim = "(int32_t v1, Janet *v2) { JanetByteView v3, v4; trim_help_args(v1, v2, &v3, &v4); int32_t v5 = trim_help_leftedge(v3, v4); int32_t v6 = trim_help_rightedge(v3, v4); if (v6 < v5) return janet_stringv(NULL, 0); return janet_stringv(v3.bytes + v5, v6 - v5); }" := rfl
/-- src/core/string.c cfun_string_triml -/
theorem cfun_string_triml : LibSrc.cfun_string_triml = "(int32_t v1, Janet *v2) { JanetByteView v3, v4; trim_help_args(v1, v2, &v3, &v4); int32_t v5 = trim_help_leftedge(v3, v4); return janet_stringv(v3.bytes + v5, v3.len - v5); }" := rfl
/-- src/core/string.c cfun_string_trimr -/
theorem cfun_string_trimr : LibSrc.cfun_string_trimr = "(int32_t v1, Janet *v2) { JanetByteView v3, v4; trim_help_args(v1, v2, &v3, &v4); int32_t v5 = trim_help_rightedge(v3, v4); return janet_stringv(v3.bytes, v5); }" := rfl
/-- src/core/buffer.c janet_buffer_extra -/
theorem janet_buffer_extra : LibSrc.janet_buffer_extra = "(JanetBuffer *v1, int32_t v2) { if ((int64_t)v2 + v1->count > INT32_MAX) { janet_panic(\"buffer overflow\"); } int32_t v3 = v1->count + v2; if (v3 > v1->capacity) { janet_buffer_can_realloc(v1); int32_t v4 = (v3 > (INT32_MAX / 2)) ? INT32_MAX : (v3 * 2); uint8_t *v5 = janet_realloc(v1->data, v4 * sizeof(uint8_t)); janet_gcpressure(v4 - v1->capacity); if (NULL == v5) { JANET_OUT_OF_MEMORY; } v1->data = v5; v1->capacity = v4; } }" := rfl
/-- src/core/buffer.c janet_buffer_push_bytes -/
theorem janet_buffer_push_bytes : LibSrc.janet_buffer_push_bytes = "(JanetBuffer *v1, const uint8_t *v2, int32_t v3) { if (0 == v3) return; janet_buffer_extra(v1, v3); memcpy(v1->data + v1->count, v2, v3); v1->count += v3; }" := rfl
/-- src/core/buffer.c janet_buffer_push_u8 -/
theorem janet_buffer_push_u8 : LibSrc.janet_buffer_push_u8 = "(JanetBuffer *v1, uint8_t v2) { janet_buffer_extra(v1, 1); v1->data[v1->count] = v2; v1->count++; }" := rfl
/-- src/core/buffer.c janet_buffer_push_u32 -/
theorem janet_buffer_push_u32 : LibSrc.janet_buffer_push_u32 = "(JanetBuffer *v1, uint32_t v2) { janet_buffer_extra(v1, 4); v1->data[v1->count] = v2 & 0xFF; v1->data[v1->count + 1] = (v2 >> 8) & 0xFF; v1->data[v1->count + 2] = (v2 >> 16) & 0xFF; v1->data[v1->count + 3] = (v2 >> 24) & 0xFF; v1->count += 4; }" := rfl
/-- src/core/buffer.c buffer_push_impl -/
theorem buffer_push_impl : LibSrc.buffer_push_impl = "(JanetBuffer *v1, Janet *v2, int32_t v3, int32_t v4) { for (int32_t v5 = v3; v5 < v4; v5++) { if (janet_checktype(v2[v5], JANET_NUMBER)) { janet_buffer_push_u8(v1, (uint8_t)(janet_getinteger(v2, v5) & 0xFF)); } else { JanetByteView v6 = janet_getbytes(v2, v5); if (v6.bytes == v1->data) { janet_buffer_extra(v1, v6.len); v6.bytes = v1->data; } janet_buffer_push_bytes(v1, v6.bytes, v6.len); } } }" := rfl
/-- src/core/buffer.c cfun_buffer_push -/
theorem cfun_buffer_push : LibSrc.cfun_buffer_push = "(int32_t v1, Janet *v2) { janet_arity(v1, 1, -1); JanetBuffer *v3 = janet_getbuffer(v2, 0); buffer_push_impl(v3, v2, 1, v1); return v2[0]; }" := rfl
/-- src/core/buffer.c cfun_buffer_push_at -/
theorem cfun_buffer_push_at : LibSrc.cfun_buffer_push_at = "(int32_t v1, Janet *v2) { janet_arity(v1, 2, -1); JanetBuffer *v3 = janet_getbuffer(v2, 0); int32_t v4 = janet_getinteger(v2, 1); int32_t v5 = v3->count; if (v4 < 0 || v4 > v5) { janet_panicf(\"index out of range [0, %d)\", v5); } v3->count = v4; buffer_push_impl(v3, v2, 2, v1); if (v3->count < v5) { v3->count = v5; } return v2[0]; }" := rfl
/-- src/core/buffer.c cfun_buffer_u8 -/
theorem cfun_buffer_u8 : LibSrc.cfun_buffer_u8 = "(int32_t v1, Janet *v2) { int32_t v3; janet_arity(v1, 1, -1); JanetBuffer *v4 = janet_getbuffer(v2, 0); for (v3 = 1; v3 < v1; v3++) { janet_buffer_push_u8(v4, (uint8_t)(janet_getinteger(v2, v3) & 0xFF)); } return v2[0]; }" := rfl
/-- src/core/buffer.c cfun_buffer_word -/
theorem cfun_buffer_word : LibSrc.cfun_buffer_word = "(int32_t v1, Janet *v2) { int32_t v3; janet_arity(v1, 1, -1); JanetBuffer *v4 = janet_getbuffer(v2, 0); for (v3 = 1; v3 < v1; v3++) { double v5 = janet_getnumber(v2, v3); uint32_t v6 = (uint32_t) v5; if (v6 != v5) janet_panicf(\"cannot convert %v to machine word\", v2[v3]); janet_buffer_push_u32(v4, v6); } return v2[0]; }" := rfl
/-- src/core/buffer.c cfun_buffer_chars -/
theorem cfun_buffer_chars : LibSrc.cfun_buffer_chars = "(int32_t v1, Janet *v2) { int32_t v3; janet_arity(v1, 1, -1); JanetBuffer *v4 = janet_getbuffer(v2, 0); for (v3 = 1; v3 < v1; v3++) { JanetByteView v5 = janet_getbytes(v2, v3); if (v5.bytes == v4->data) { janet_buffer_extra(v4, v5.len); v5.bytes = v4->data; } janet_buffer_push_bytes(v4, v5.bytes, v5.len); } return v2[0]; }" := rfl
/-- src/core/buffer.c cfun_buffer_popn -/
theorem cfun_buffer_popn : LibSrc.cfun_buffer_popn = "(int32_t v1, Janet *v2) { janet_fixarity(v1, 2); JanetBuffer *v3 = janet_getbuffer(v2, 0); int32_t v4 = janet_getinteger(v2, 1); if (v4 < 0) janet_panic(\"n must be non-negative\"); if (v3->count < v4) { v3->count = 0; } else { v3->count -= v4; } return v2[0]; }" := rfl
/-- src/core/buffer.c cfun_buffer_fill -/
theorem cfun_buffer_fill : LibSrc.cfun_buffer_fill = "(int32_t v1, Janet *v2) { janet_arity(v1, 1, 2); JanetBuffer *v3 = janet_getbuffer(v2, 0); int32_t v4 = 0; if (v1 == 2) { v4 = janet_getinteger(v2, 1) & 0xFF; } if (v3->count) { memset(v3->data, v4, v3->count); } return v2[0]; }" := rfl
/-- src/core/buffer.c bitloc -/
theorem bitloc : LibSrc.bitloc = "(int32_t v1, Janet *v2, JanetBuffer **v3, int32_t *v4, int *v5) { janet_fixarity(v1, 2); JanetBuffer *v6 = janet_getbuffer(v2, 0); double v7 = janet_getnumber(v2, 1); int64_t v8 = (int64_t) v7; int64_t v9 = v8 >> 3; int v10 = v8 & 7; if (v8 != v7 || v8 < 0 || v9 >= v6->count) janet_panicf(\"invalid bit index %v\", v2[1]); *v3 = v6; *v4 = (int32_t) v9; *v5 = v10; }" := rfl
/-- src/core/buffer.c cfun_buffer_bitset -/
theorem cfun_buffer_bitset : LibSrc.cfun_buffer_bitset = "(int32_t v1, Janet *v2) { int v3; int32_t v4; JanetBuffer *v5; bitloc(v1, v2, &v5, &v4, &v3); v5->data[v4] |= 1 << v3; return v2[0]; }" := rfl
/-- src/core/buffer.c cfun_buffer_bitclear -/
theorem cfun_buffer_bitclear : LibSrc.cfun_buffer_bitclear = "(int32_t v1, Janet *v2) { int v3; int32_t v4; JanetBuffer *v5; bitloc(v1, v2, &v5, &v4, &v3); v5->data[v4] &= ~(1 << v3); return v2[0]; }" := rfl
/-- src/core/buffer.c cfun_buffer_bitget -/
theorem cfun_buffer_bitget : LibSrc.cfun_buffer_bitget = "(int32_t v1, Janet *v2) { int v3; int32_t v4; JanetBuffer *v5; bitloc(v1, v2, &v5, &v4, &v3); return janet_wrap_boolean(v5->data[v4] & (1 << v3)); }" := rfl
/-- src/core/buffer.c cfun_buffer_bittoggle -/
theorem cfun_buffer_bittoggle : LibSrc.cfun_buffer_bittoggle = "(int32_t v1, Janet *v2) { int v3; int32_t v4; JanetBuffer *v5; bitloc(v1, v2, &v5, &v4, &v3); v5->data[v4] ^= (1 << v3); return v2[0]; }" := rfl
/-- src/core/buffer.c cfun_buffer_blit -/
theorem cfun_buffer_blit : LibSrc.cfun_buffer_blit = "(int32_t v1, Janet *v2) { janet_arity(v1, 2, 5); JanetBuffer *v3 = janet_getbuffer(v2, 0); JanetByteView v4 = janet_getbytes(v2, 1); int v5 = v4.bytes == v3->data; int32_t v6 = 0; int32_t v7 = 0; if (v1 > 2 && !janet_checktype(v2[2], JANET_NIL)) v6 = janet_gethalfrange(v2, 2, v3->count, \"dest-start\"); if (v1 > 3 && !janet_checktype(v2[3], JANET_NIL)) v7 = janet_gethalfrange(v2, 3, v4.len, \"src-start\"); int32_t v8; if (v1 > 4) { int32_t v9 = v4.len; if (!janet_checktype(v2[4], JANET_NIL)) v9 = janet_gethalfrange(v2, 4, v4.len, \"src-end\"); v8 = v9 - v7; if (v8 < 0) v8 = 0; } else { v8 = v4.len - v7; } int64_t v10 = (int64_t) v6 + v8; if (v10 > INT32_MAX) janet_panic(\"buffer blit out of range\"); int32_t v11 = (int32_t) v10; janet_buffer_ensure(v3, v11, 2); if (v11 > v3->count) v3->count = v11; if (v8) { if (v5) { v4.bytes = v3->data; memmove(v3->data + v6, v4.bytes + v7, v8); } else { memcpy(v3->data + v6, v4.bytes + v7, v8); } } return v2[0]; }" := rfl
/-- src/core/array.c janet_array_push -/
theorem janet_array_push : LibSrc.janet_array_push = "(JanetArray *v1, Janet v2) { if (v1->count == INT32_MAX) { janet_panic(\"array overflow\"); } int32_t v3 = v1->count + 1; janet_array_ensure(v1, v3, 2); v1->data[v1->count] = v2; v1->count = v3; }" := rfl
/-- src/core/array.c cfun_array_fill -/
theorem cfun_array_fill : LibSrc.cfun_array_fill = "(int32_t v1, Janet *v2) { janet_arity(v1, 1, 2); JanetArray *v3 = janet_getarray(v2, 0); Janet v4 = (v1 == 2) ? v2[1] : janet_wrap_nil(); for (int32_t v5 = 0; v5 < v3->count; v5++) { v3->data[v5] = v4; } return v2[0]; }" := rfl
/-- src/core/array.c cfun_array_slice -/
theorem cfun_array_slice : LibSrc.cfun_array_slice = "(int32_t v1, Janet *v2) { janet_arity(v1, 1, 3); JanetView v3 = janet_getindexed(v2, 0); JanetRange v4 = janet_getslice(v1, v2); JanetArray *v5 = janet_array(v4.end - v4.start); if (v5->data) memcpy(v5->data, v3.items + v4.start, sizeof(Janet) * (v4.end - v4.start)); v5->count = v4.end - v4.start; return janet_wrap_array(v5); }" := rfl
/-- src/core/array.c cfun_array_concat -/
theorem cfun_array_concat : LibSrc.cfun_array_concat = "(int32_t v1, Janet *v2) { int32_t v3; janet_arity(v1, 1, -1); JanetArray *v4 = janet_getarray(v2, 0); for (v3 = 1; v3 < v1; v3++) { switch (janet_type(v2[v3])) { default: janet_array_push(v4, v2[v3]); break; case JANET_ARRAY: case JANET_TUPLE: { int32_t v5, v6 = 0; const Janet *v7 = NULL; janet_indexed_view(v2[v3], &v7, &v6); if (v4->data == v7) { int32_t v8 = v4->count + v6; janet_array_ensure(v4, v8, 2); janet_indexed_view(v2[v3], &v7, &v6); } for (v5 = 0; v5 < v6; v5++) janet_array_push(v4, v7[v5]); } break; } } return janet_wrap_array(v4); }" := rfl
/-- src/core/array.c cfun_array_insert -/
theorem cfun_array_insert : LibSrc.cfun_array_insert = "(int32_t v1, Janet *v2) { size_t v3, v4; janet_arity(v1, 2, -1); JanetArray *v5 = janet_getarray(v2, 0); int32_t v6 = janet_getinteger(v2, 1); if (v6 < 0) { v6 = v5->count + v6 + 1; } if (v6 < 0 || v6 > v5->count) janet_panicf(\"insertion index %d out of range [0,%d]\", v6, v5->count); v3 = (v1 - 2) * sizeof(Janet); v4 = (v5->count - v6) * sizeof(Janet); if (INT32_MAX - (v1 - 2) < v5->count) { janet_panic(\"array overflow\"); } janet_array_ensure(v5, v5->count + v1 - 2, 2); if (v4) { memmove(v5->data + v6 + v1 - 2, v5->data + v6, v4); } safe_memcpy(v5->data + v6, v2 + 2, v3); v5->count += (v1 - 2); return v2[0]; }" := rfl
/-- src/core/array.c cfun_array_remove -/
theorem cfun_array_remove : LibSrc.cfun_array_remove = "(int32_t v1, Janet *v2) { janet_arity(v1, 2, 3); JanetArray *v3 = janet_getarray(v2, 0); int32_t v4 = janet_getinteger(v2, 1); int32_t v5 = 1; if (v4 < 0) { v4 = v3->count + v4; } if (v4 < 0 || v4 > v3->count) janet_panicf(\"removal index %d out of range [0,%d]\", v4, v3->count); if (v1 == 3) { v5 = janet_getinteger(v2, 2); if (v5 < 0) janet_panicf(\"expected non-negative integer for argument n, got %v\", v2[2]); } if (v5 > v3->count - v4) { v5 = v3->count - v4; } if (v5 > 0) { memmove(v3->data + v4, v3->data + v4 + v5, (size_t)(v3->count - v4 - v5) * sizeof(Janet)); v3->count -= v5; } return v2[0]; }" := rfl
/-- src/core/tuple.c cfun_tuple_slice -/
theorem cfun_tuple_slice : LibSrc.cfun_tuple_slice = "(int32_t v1, Janet *v2) { janet_arity(v1, 1, 3); JanetView v3 = janet_getindexed(v2, 0); JanetRange v4 = janet_getslice(v1, v2); return janet_wrap_tuple(janet_tuple_n(v3.items + v4.start, v4.end - v4.start)); }" := rfl
/-- src/core/tuple.c cfun_tuple_join -/
theorem cfun_tuple_join : LibSrc.cfun_tuple_join = "(int32_t v1, Janet *v2) { janet_arity(v1, 0, -1); int32_t v3 = 0; for (int32_t v4 = 0; v4 < v1; v4++) { int32_t v5 = 0; const Janet *v6 = NULL; if (!janet_indexed_view(v2[v4], &v6, &v5)) { janet_panicf(\"expected indexed type for argument %d, got %v\", v4, v2[v4]); } if (INT32_MAX - v3 < v5) { janet_panic(\"tuple too large\"); } v3 += v5; } Janet *v7 = janet_tuple_begin(v3); Janet *v8 = v7; for (int32_t v4 = 0; v4 < v1; v4++) { int32_t v5 = 0; const Janet *v6 = NULL; janet_indexed_view(v2[v4], &v6, &v5); safe_memcpy(v8, v6, v5 * sizeof(Janet)); v8 += v5; } return janet_wrap_tuple(janet_tuple_end(v7)); }" := rfl
/-- src/core/corelib.c janet_core_range -/
theorem janet_core_range : LibSrc.janet_core_range = "(int32_t v1, Janet *v2) { janet_arity(v1, 1, 3); double v3 = 0, v4 = 0, v5 = 1, v6 = 0; if (v1 == 3) { v3 = janet_getnumber(v2, 0); v4 = janet_getnumber(v2, 1); v5 = janet_getnumber(v2, 2); v6 = (v5 > 0) ? (v4 - v3) / v5 : ((v5 < 0) ? (v4 - v3) / v5 : 0); } else if (v1 == 2) { v3 = janet_getnumber(v2, 0); v4 = janet_getnumber(v2, 1); v6 = v4 - v3; } else { v4 = janet_getnumber(v2, 0); v6 = v4; } v6 = (v6 > 0) ? v6 : 0; int32_t v7; janet_assert(v6 >= 0, \"bad range code\"); if (v6 > (double) INT32_MAX) { janet_panicf(\"range is too large, %f elements\", v6); } else { v7 = (int32_t) ceil(v6); } if (v5 > 0.0) { while (v7 < INT32_MAX && v3 + v7 * v5 < v4) v7++; } else if (v5 < 0.0) { while (v7 < INT32_MAX && v3 + v7 * v5 > v4) v7++; } JanetArray *v8 = janet_array(v7); for (int32_t v9 = 0; v9 < v7; v9++) { v8->data[v9] = janet_wrap_number((double) v3 + (double) v9 * v5); } v8->count = v7; return janet_wrap_array(v8); }" := rfl
/-- src/core/buffer.c should_reverse_bytes -/
theorem should_reverse_bytes : LibSrc.should_reverse_bytes = "(const Janet *v1, int32_t v2) { JanetKeyword v3 = janet_getkeyword(v1, v2); if (!janet_cstrcmp(v3, \"le\")) { #if JANET_BIG_ENDIAN return 1; #endif } else if (!janet_cstrcmp(v3, \"be\")) { #if JANET_LITTLE_ENDIAN return 1; #endif } else if (!janet_cstrcmp(v3, \"native\")) { return 0; } else { janet_panicf(\"expected endianness :le, :be or :native, got %v\", v1[1]); } return 0; }" := rfl
/-- src/core/buffer.c reverse_u32 -/
theorem reverse_u32 : LibSrc.reverse_u32 = "(uint8_t v1[4]) { uint8_t v2; v2 = v1[3]; v1[3] = v1[0]; v1[0] = v2; v2 = v1[2]; v1[2] = v1[1]; v1[1] = v2; }" := rfl
/-- src/core/buffer.c reverse_u64 -/
theorem reverse_u64 : LibSrc.reverse_u64 = "(uint8_t v1[8]) { uint8_t v2; v2 = v1[7]; v1[7] = v1[0]; v1[0] = v2; v2 = v1[6]; v1[6] = v1[1]; v1[1] = v2; v2 = v1[5]; v1[5] = v1[2]; v1[2] = v2; v2 = v1[4]; v1[4] = v1[3]; v1[3] = v2; }" := rfl
/-- src/core/buffer.c cfun_buffer_push_uint16 -/
theorem cfun_buffer_push_uint16 : LibSrc.cfun_buffer_push_uint16 = "(int32_t v1, Janet *v2) { janet_fixarity(v1, 3); JanetBuffer *v3 = janet_getbuffer(v2, 0); int v4 = should_reverse_bytes(v2, 1); uint16_t v5 = janet_getuinteger16(v2, 2); uint8_t v6[sizeof(v5)]; memcpy(v6, &v5, sizeof(v6)); if (v4) { uint8_t v7 = v6[1]; v6[1] = v6[0]; v6[0] = v7; } janet_buffer_push_bytes(v3, v6, sizeof(v6)); return v2[0]; }" := rfl
/-- src/core/buffer.c cfun_buffer_push_uint32 -/
theorem cfun_buffer_push_uint32 : LibSrc.cfun_buffer_push_uint32 = "(int32_t v1, Janet *v2) { janet_fixarity(v1, 3); JanetBuffer *v3 = janet_getbuffer(v2, 0); int v4 = should_reverse_bytes(v2, 1); uint32_t v5 = janet_getuinteger(v2, 2); uint8_t v6[sizeof(v5)]; memcpy(v6, &v5, sizeof(v6)); if (v4) reverse_u32(v6); janet_buffer_push_bytes(v3, v6, sizeof(v6)); return v2[0]; }" := rfl
/-- src/core/buffer.c cfun_buffer_push_uint64 -/
theorem cfun_buffer_push_uint64 : LibSrc.cfun_buffer_push_uint64 = "(int32_t v1, Janet *v2) { janet_fixarity(v1, 3); JanetBuffer *v3 = janet_getbuffer(v2, 0); int v4 = should_reverse_bytes(v2, 1); uint64_t v5 = janet_getuinteger64(v2, 2); uint8_t v6[sizeof(v5)]; memcpy(v6, &v5, sizeof(v6)); if (v4) reverse_u64(v6); janet_buffer_push_bytes(v3, v6, sizeof(v6)); return v2[0]; }" := rfl
/-- src/core/buffer.c cfun_buffer_new_filled -/
theorem cfun_buffer_new_filled : LibSrc.cfun_buffer_new_filled = "(int32_t v1, Janet *v2) { janet_arity(v1, 1, 2); int32_t v3 = janet_getinteger(v2, 0); if (v3 < 0) v3 = 0; int32_t v4 = 0; if (v1 == 2) { v4 = janet_getinteger(v2, 1) & 0xFF; } JanetBuffer *v5 = janet_buffer(v3); if (v5->data && v3 > 0) memset(v5->data, v4, v3); v5->count = v3; return janet_wrap_buffer(v5); }" := rfl
/-- src/core/array.c janet_array_pop -/
theorem janet_array_pop : LibSrc.janet_array_pop = "(JanetArray *v1) { if (v1->count) { return v1->data[--v1->count]; } else { return janet_wrap_nil(); } }" := rfl
/-- src/core/array.c janet_array_peek -/
theorem janet_array_peek : LibSrc.janet_array_peek = "(JanetArray *v1) { if (v1->count) { return v1->data[v1->count - 1]; } else { return janet_wrap_nil(); } }" := rfl
/-- src/core/array.c cfun_array_new_filled -/
theorem cfun_array_new_filled : LibSrc.cfun_array_new_filled = "(int32_t v1, Janet *v2) { janet_arity(v1, 1, 2); int32_t v3 = janet_getnat(v2, 0); Janet v4 = (v1 == 2) ? v2[1] : janet_wrap_nil(); JanetArray *v5 = janet_array(v3); for (int32_t v6 = 0; v6 < v3; v6++) { v5->data[v6] = v4; } v5->count = v3; return janet_wrap_array(v5); }" := rfl
/-- src/core/array.c cfun_array_pop -/
theorem cfun_array_pop : LibSrc.cfun_array_pop = "(int32_t v1, Janet *v2) { janet_fixarity(v1, 1); JanetArray *v3 = janet_getarray(v2, 0); return janet_array_pop(v3); }" := rfl
/-- src/core/array.c cfun_array_peek -/
theorem cfun_array_peek : LibSrc.cfun_array_peek = "(int32_t v1, Janet *v2) { janet_fixarity(v1, 1); JanetArray *v3 = janet_getarray(v2, 0); return janet_array_peek(v3); }" := rfl
/-- src/core/array.c cfun_array_push -/
theorem cfun_array_push : LibSrc.cfun_array_push = "(int32_t v1, Janet *v2) { janet_arity(v1, 1, -1); JanetArray *v3 = janet_getarray(v2, 0); if (INT32_MAX - v1 + 1 <= v3->count) { janet_panic(\"array overflow\"); } int32_t v4 = v3->count - 1 + v1; janet_array_ensure(v3, v4, 2); if (v1 > 1) memcpy(v3->data + v3->count, v2 + 1, (size_t)(v1 - 1) * sizeof(Janet)); v3->count = v4; return v2[0]; }" := rfl
/-- src/core/buffer.c cfun_buffer_slice -/
theorem cfun_buffer_slice : LibSrc.cfun_buffer_slice = "(int32_t v1, Janet *v2) { janet_arity(v1, 1, 3); JanetByteView v3 = janet_getbytes(v2, 0); JanetRange v4 = janet_getslice(v1, v2); JanetBuffer *v5 = janet_buffer(v4.end - v4.start); if (v5->data) memcpy(v5->data, v3.bytes + v4.start, v4.end - v4.start); v5->count = v4.end - v4.start; return janet_wrap_buffer(v5); }" := rfl
/-- src/core/pp.c scanformat -/
theorem scanformat : LibSrc.scanformat = "( const char *v1, char *v2, char v3[3], char v4[3]) { const char *v5 = v1; memset(v3, '\\0', 3); memset(v4, '\\0', 3); while (*v5 != '\\0' && strchr(FMT_FLAGS, *v5) != NULL) v5++; if ((size_t)(v5 - v1) >= sizeof(FMT_FLAGS)) janet_panic(\"invalid format (repeated flags)\"); if (isdigit((int)(*v5))) v3[0] = *v5++; if (isdigit((int)(*v5))) v3[1] = *v5++; if (*v5 == '.') { v5++; if (isdigit((int)(*v5))) v4[0] = *v5++; if (isdigit((int)(*v5))) v4[1] = *v5++; } if (isdigit((int)(*v5))) janet_panic(\"invalid format (width or precision too long)\"); *(v2++) = '%'; const char *v6 = v1; while (v6 <= v5) { char *v7 = strchr(FMT_REPLACE_INTTYPES, *v6); if (v7 != NULL && *v7 != '\\0') { const char *v8 = get_fmt_mapping(*v6++); size_t v9 = strlen(v8); memcpy(v2, v8, v9); v2 += v9; } else { *(v2++) = *(v6++); } } *v2 = '\\0'; return v5; }" := rfl
/-- src/core/pp.c get_fmt_mapping -/
theorem get_fmt_mapping : LibSrc.get_fmt_mapping = "(char v1) { for (size_t v2 = 0; v2 < (sizeof(format_mappings) / sizeof(struct FmtMapping)); v2++) { if (format_mappings[v2].c == v1) return format_mappings[v2].mapping; } janet_assert(0, \"bad format mapping\"); }" := rfl
/-- src/core/pp.c #define FMT_FLAGS -/
theorem define_FMT_FLAGS : LibSrc.define_FMT_FLAGS = "\"-+ #0\"" := rfl
/-- src/core/pp.c #define FMT_REPLACE_INTTYPES -/
theorem define_FMT_REPLACE_INTTYPES : LibSrc.define_FMT_REPLACE_INTTYPES = "\"diouxX\"" := rfl
/-- src/core/pp.c #define MAX_FORMAT -/
theorem define_MAX_FORMAT : LibSrc.define_MAX_FORMAT = "32" := rfl
/-- src/core/pp.c #define MAX_ITEM -/
theorem define_MAX_ITEM : LibSrc.define_MAX_ITEM = "256" := rfl
/-- boot.janet each-template -/
theorem boot_each_template : LibSrc.boot_each_template = "(defn- each-template [v1 v2 v3 v4] (with-syms [v5] (def v6 (if (idempotent? v2) v2 (gensym))) ~(do ,(unless (= v6 v2) ~(def ,ds ,inx)) (var ,k (,next ,ds nil)) (while (,not= nil ,k) (def ,binding ,(case v3 :each ~(,in ,ds ,k) :keys v5 :pairs ~[,k (,in ,ds ,k)])) ,;body (set ,k (,next ,ds ,k))))))" := rfl
/-- boot.janet median-of-three -/
theorem boot_median_of_three : LibSrc.boot_median_of_three = "(defmacro- median-of-three [x y z] ~(if (<= ,x ,y) (if (<= ,y ,z) ,y (if (<= ,z ,x) ,x ,z)) (if (<= ,z ,y) ,y (if (<= ,x ,z) ,x ,z))))" := rfl
/-- boot.janet sort-partition-template -/
theorem boot_sort_partition_template : LibSrc.boot_sort_partition_template = "(defmacro- sort-partition-template [ind before? left right pivot] ~(do (while (,before? (in ,ind ,left) ,pivot) (++ ,left)) (while (,before? ,pivot (in ,ind ,right)) (-- ,right))))" := rfl
/-- boot.janet sort-help -/
theorem boot_sort_help : LibSrc.boot_sort_help = "(defn- sort-help [v1 v2 v3 v4] (when (< v2 v3) (def [v5 v6 v7] [(in v1 v2) (in v1 (div (+ v2 v3) 2)) (in v1 v3)]) (def v8 (median-of-three v5 v6 v7)) (var v9 v2) (var v10 v3) (while true (case v4 < (sort-partition-template v1 < v9 v10 v8) > (sort-partition-template v1 > v9 v10 v8) (sort-partition-template v1 v4 v9 v10 v8)) (when (<= v9 v10) (def v11 (in v1 v9)) (set (v1 v9) (in v1 v10)) (set (v1 v10) v11) (++ v9) (-- v10)) (if (>= v9 v10) (break))) (if (< v2 v10) (sort-help v1 v2 v10 v4)) (if (< v9 v3) (sort-help v1 v9 v3 v4))) v1)" := rfl
/-- boot.janet sort -/
theorem boot_sort : LibSrc.boot_sort = "(defn sort [v1 &opt v2] (default v2 <) (sort-help v1 0 (- (length v1) 1) v2))" := rfl
/-- boot.janet sort-by -/
theorem boot_sort_by : LibSrc.boot_sort_by = "(defn sort-by [v1 v2] (sort v2 (fn :sort-by-comp [v3 v4] (< (v1 v3) (v1 v4)))))" := rfl
/-- boot.janet sorted -/
theorem boot_sorted : LibSrc.boot_sorted = "(defn sorted [v1 &opt v2] (sort (array/slice v1) v2))" := rfl
/-- boot.janet sorted-by -/
theorem boot_sorted_by : LibSrc.boot_sorted_by = "(defn sorted-by [v1 v2] (sorted v2 (fn :sorted-by-comp [v3 v4] (< (v1 v3) (v1 v4)))))" := rfl
/-- boot.janet reduce -/
theorem boot_reduce : LibSrc.boot_reduce = "(defn reduce [v1 v2 v3] (var v4 v2) (each v5 v3 (set v4 (v1 v4 v5))) v4)" := rfl
/-- boot.janet reduce2 -/
theorem boot_reduce2 : LibSrc.boot_reduce2 = "(defn reduce2 [v1 v2] (var v3 (next v2)) (if (= nil v3) (break nil)) (var v4 (in v2 v3)) (set v3 (next v2 v3)) (while (not= nil v3) (set v4 (v1 v4 (in v2 v3))) (set v3 (next v2 v3))) v4)" := rfl
/-- boot.janet map-aggregator -/
theorem boot_map_aggregator : LibSrc.boot_map_aggregator = "(defmacro- map-aggregator [maptype res val] (case maptype :map ~(array/push ,res ,val) :mapcat ~(array/concat ,res ,val) :keep ~(if (def y ,val) (array/push ,res y)) :count ~(if ,val (++ ,res)) :some ~(if (def y ,val) (do (set ,res y) (break))) :all ~(if (def y ,val) nil (do (set ,res y) (break)))))" := rfl
/-- boot.janet map-n -/
theorem boot_map_n : LibSrc.boot_map_n = "(defmacro- map-n [n maptype res f ind inds] ~(do (def ,(seq [k :range [0 n]] (symbol 'ind k)) ,inds) ,;(seq [k :range [0 n]] ~(var ,(symbol 'key k) nil)) (each x ,ind ,;(seq [k :range [0 n]] ~(if (= nil (set ,(symbol 'key k) (next ,(symbol 'ind k) ,(symbol 'key k)))) (break))) (map-aggregator ,maptype ,res (,f x ,;(seq [k :range [0 n]] ~(in ,(symbol 'ind k) ,(symbol 'key k))))))))" := rfl
/-- boot.janet map-template -/
theorem boot_map_template : LibSrc.boot_map_template = "(defmacro- map-template [maptype res f ind inds] ~(do (def ninds (length ,inds)) (case ninds 0 (each x ,ind (map-aggregator ,maptype ,res (,f x))) 1 (map-n 1 ,maptype ,res ,f ,ind ,inds) 2 (map-n 2 ,maptype ,res ,f ,ind ,inds) 3 (map-n 3 ,maptype ,res ,f ,ind ,inds) (do (def iter-keys (array/new-filled ninds)) (def call-buffer (array/new-filled ninds)) (var done false) (each x ,ind (forv i 0 ninds (let [old-key (in iter-keys i) ii (in ,inds i) new-key (next ii old-key)] (if (= nil new-key) (do (set done true) (break)) (do (set (iter-keys i) new-key) (set (call-buffer i) (in ii new-key)))))) (if done (break)) (map-aggregator ,maptype ,res (,f x ;call-buffer)))))))" := rfl
/-- boot.janet map -/
theorem boot_map : LibSrc.boot_map = "(defn map [v1 v2 & v3] (def v4 @[]) (map-template :map v4 v1 v2 v3) v4)" := rfl
/-- boot.janet filter -/
theorem boot_filter : LibSrc.boot_filter = "(defn filter [v1 v2] (def v3 @[]) (each v4 v2 (if (v1 v4) (array/push v3 v4))) v3)" := rfl
/-- boot.janet count -/
theorem boot_count : LibSrc.boot_count = "(defn count [v1 v2 & v3] (var v4 0) (map-template :count v4 v1 v2 v3) v4)" := rfl
/-- boot.janet find-index -/
theorem boot_find_index : LibSrc.boot_find_index = "(defn find-index [v1 v2 &opt v3] (var v4 nil) (var v5 v3) (while true (set v4 (next v2 v4)) (if (= v4 nil) (break)) (def v6 (in v2 v4)) (when (v1 v6) (set v5 v4) (break))) v5)" := rfl
/-- boot.janet find -/
theorem boot_find : LibSrc.boot_find = "(defn find [v1 v2 &opt v3] (var v4 nil) (var v5 v3) (while true (set v4 (next v2 v4)) (if (= v4 nil) (break)) (def v6 (in v2 v4)) (when (v1 v6) (set v5 v6) (break))) v5)" := rfl
/-- boot.janet index-of -/
theorem boot_index_of : LibSrc.boot_index_of = "(defn index-of [v1 v2 &opt v3] (var v4 (next v2 nil)) (var v5 v3) (while (not= nil v4) (when (= (in v2 v4) v1) (set v5 v4) (break)) (set v4 (next v2 v4))) v5)" := rfl
/-- boot.janet take-n-slice -/
theorem boot_take_n_slice : LibSrc.boot_take_n_slice = "(defn- take-n-slice [v1 v2 v3] (def v4 (length v3)) (def v5 (+ v4 v2)) (def v6 (if (< v2 0 v5) v5 0)) (def v7 (if (<= 0 v2 v4) v2 v4)) (v1 v3 v6 v7))" := rfl
/-- boot.janet take -/
theorem boot_take : LibSrc.boot_take = "(defn take [v1 v2] (cond (indexed? v2) (take-n-slice tuple/slice v1 v2) (bytes? v2) (take-n-slice string/slice v1 v2) (dictionary? v2) (do (var v3 v1) (tabseq [[i x] :pairs v2 :until (< (-- v3) 0)] i x)) (do (def v4 @[]) (var v5 nil) (repeat v1 (if (= nil (set v5 (next v2 v5))) (break)) (array/push v4 (in v2 v5))) v4)))" := rfl
/-- boot.janet take-until-slice -/
theorem boot_take_until_slice : LibSrc.boot_take_until_slice = "(defn- take-until-slice [v1 v2 v3] (def v4 (length v3)) (def v5 (find-index v2 v3)) (def v6 (if (nil? v5) v4 v5)) (v1 v3 0 v6))" := rfl
/-- boot.janet take-until -/
theorem boot_take_until : LibSrc.boot_take_until = "(defn take-until [v1 v2] (cond (indexed? v2) (take-until-slice tuple/slice v1 v2) (bytes? v2) (take-until-slice string/slice v1 v2) (dictionary? v2) (tabseq [[i x] :pairs v2 :until (v1 x)] i x) (seq [x :in v2 :until (v1 x)] x)))" := rfl
/-- boot.janet take-while -/
theorem boot_take_while : LibSrc.boot_take_while = "(defn take-while [v1 v2] (take-until (complement v1) v2))" := rfl
/-- boot.janet drop-n-slice -/
theorem boot_drop_n_slice : LibSrc.boot_drop_n_slice = "(defn- drop-n-slice [v1 v2 v3] (def v4 (length v3)) (cond (<= 0 v2 v4) (v1 v3 v2) (< (- v4) v2 0) (v1 v3 0 (+ v4 v2)) (v1 v3 v4)))" := rfl
/-- boot.janet drop -/
theorem boot_drop : LibSrc.boot_drop = "(defn drop [v1 v2] (cond (indexed? v2) (drop-n-slice tuple/slice v1 v2) (bytes? v2) (drop-n-slice string/slice v1 v2) (struct? v2) (drop-n-dict struct/to-table v1 v2) (table? v2) (drop-n-dict table/clone v1 v2) (do (var v3 nil) (repeat v1 (if (= nil (set v3 (next v2 v3))) (break))) v2)))" := rfl
/-- boot.janet drop-until-slice -/
theorem boot_drop_until_slice : LibSrc.boot_drop_until_slice = "(defn- drop-until-slice [v1 v2 v3] (def v4 (length v3)) (def v5 (find-index v2 v3)) (def v6 (if (nil? v5) v4 v5)) (v1 v3 v6))" := rfl
/-- boot.janet drop-until -/
theorem boot_drop_until : LibSrc.boot_drop_until = "(defn drop-until [v1 v2] (cond (indexed? v2) (drop-until-slice tuple/slice v1 v2) (bytes? v2) (drop-until-slice string/slice v1 v2) (struct? v2) (drop-until-dict struct/to-table v1 v2) (table? v2) (drop-until-dict table/clone v1 v2) (do (find v1 v2) v2)))" := rfl
/-- boot.janet drop-while -/
theorem boot_drop_while : LibSrc.boot_drop_while = "(defn drop-while [v1 v2] (drop-until (complement v1) v2))" := rfl
/-- boot.janet do-extreme -/
theorem boot_do_extreme : LibSrc.boot_do_extreme = "(defmacro- do-extreme [order args] ~(do (def ds ,args) (var k (next ds nil)) (var ret (get ds k)) (while (,not= nil (set k (next ds k))) (def x (in ds k)) (if (,order x ret) (set ret x))) ret))" := rfl
/-- boot.janet extreme -/
theorem boot_extreme : LibSrc.boot_extreme = "(defn extreme [v1 v2] (do-extreme v1 v2))" := rfl
/-- boot.janet max -/
theorem boot_max : LibSrc.boot_max = "(defn max [& v1] (do-extreme > v1))" := rfl
/-- boot.janet min -/
theorem boot_min : LibSrc.boot_min = "(defn min [& v1] (do-extreme < v1))" := rfl
/-- boot.janet max-of -/
theorem boot_max_of : LibSrc.boot_max_of = "(defn max-of [v1] (do-extreme > v1))" := rfl
/-- boot.janet min-of -/
theorem boot_min_of : LibSrc.boot_min_of = "(defn min-of [v1] (do-extreme < v1))" := rfl
/-- boot.janet sum -/
theorem boot_sum : LibSrc.boot_sum = "(defn sum [v1] (var v2 0) (each v3 v1 (+= v2 v3)) v2)" := rfl
/-- boot.janet product -/
theorem boot_product : LibSrc.boot_product = "(defn product [v1] (var v2 1) (each v3 v1 (*= v2 v3)) v2)" := rfl
/-- boot.janet reverse -/
theorem boot_reverse : LibSrc.boot_reverse = "(defn reverse [v1] (if (lengthable? v1) (do (var v2 (length v1)) (def v3 (if (bytes? v1) (buffer/new-filled v2) (array/new-filled v2))) (each v4 v1 (put v3 (-- v2) v4)) v3) (reverse! (seq [v4 :in v1] v4))))" := rfl
/-- boot.janet reverse! -/
theorem boot_reverse_bang : LibSrc.boot_reverse_bang = "(defn reverse! [v1] (var v2 0) (var v3 (length v1)) (while (< v2 (-- v3)) (def v4 (in v1 v2)) (put v1 v2 (in v1 v3)) (put v1 v3 v4) (++ v2)) v1)" := rfl
/-- boot.janet zipcoll -/
theorem boot_zipcoll : LibSrc.boot_zipcoll = "(defn zipcoll [v1 v2] (def v3 @{}) (var v4 nil) (var v5 nil) (while true (set v4 (next v1 v4)) (if (= nil v4) (break)) (set v5 (next v2 v5)) (if (= nil v5) (break)) (put v3 (in v1 v4) (in v2 v5))) v3)" := rfl
/-- boot.janet distinct -/
theorem boot_distinct : LibSrc.boot_distinct = "(defn distinct [v1] (def v2 @[]) (def v3 @{}) (each v4 v1 (if (in v3 v4) nil (do (put v3 v4 true) (array/push v2 v4)))) v2)" := rfl
/-- boot.janet frequencies -/
theorem boot_frequencies : LibSrc.boot_frequencies = "(defn frequencies [v1] (def v2 @{}) (each v3 v1 (def v4 (in v2 v3)) (set (v2 v3) (if v4 (+ 1 v4) 1))) v2)" := rfl
/-- boot.janet merge -/
theorem boot_merge : LibSrc.boot_merge = "(defn merge [& v1] (def v2 @{}) (loop [c :in v1 key :keys c] (put v2 key (in c key))) v2)" := rfl
/-- boot.janet merge-into -/
theorem boot_merge_into : LibSrc.boot_merge_into = "(defn merge-into [v1 & v2] (loop [c :in v2 key :keys c] (put v1 key (in c key))) v1)" := rfl
/-- boot.janet interleave -/
theorem boot_interleave : LibSrc.boot_interleave = "(defn interleave [& v1] (mapcat tuple ;cols))" := rfl
/-- boot.janet interpose -/
theorem boot_interpose : LibSrc.boot_interpose = "(defn interpose [v1 v2] (var v3 (next v2 nil)) (if (not= nil v3) (if (lengthable? v2) (do (def v4 (array/new-filled (- (* 2 (length v2)) 1) v1)) (var v5 0) (while (not= nil v3) (put v4 v5 (in v2 v3)) (set v3 (next v2 v3)) (+= v5 2)) v4) (do (def v4 @[(in v2 v3)]) (while (not= nil (set v3 (next v2 v3))) (array/push v4 v1 (in v2 v3))) v4)) @[]))" := rfl
/-- boot.janet partition-slice -/
theorem boot_partition_slice : LibSrc.boot_partition_slice = "(defn- partition-slice [v1 v2 v3] (var [v4 v5] [0 v2]) (def v6 (length v3)) (def v7 (div v6 v2)) (def v8 (array/new-filled v7)) (forv v9 0 v7 (put v8 v9 (v1 v3 v4 v5)) (set v4 v5) (+= v5 v2)) (if (< v4 v6) (array/push v8 (v1 v3 v4))) v8)" := rfl
/-- boot.janet partition -/
theorem boot_partition : LibSrc.boot_partition = "(defn partition [v1 v2] (cond (indexed? v2) (partition-slice tuple/slice v1 v2) (bytes? v2) (partition-slice string/slice v1 v2) (partition-slice tuple/slice v1 (values v2))))" := rfl
/-- boot.janet flatten-into -/
theorem boot_flatten_into : LibSrc.boot_flatten_into = "(defn flatten-into [v1 v2] (each v3 v2 (if (indexed? v3) (flatten-into v1 v3) (array/push v1 v3))) v1)" := rfl
/-- boot.janet flatten -/
theorem boot_flatten : LibSrc.boot_flatten = "(defn flatten [v1] (flatten-into @[] v1))" := rfl
/-- boot.janet complement -/
theorem boot_complement : LibSrc.boot_complement = "(defn complement [v1] (fn :complement [v2] (not (v1 v2))))" := rfl
/-- boot.janet keep -/
theorem boot_keep : LibSrc.boot_keep = "(defn keep [v1 v2 & v3] (def v4 @[]) (map-template :keep v4 v1 v2 v3) v4)" := rfl
/-- boot.janet mapcat -/
theorem boot_mapcat : LibSrc.boot_mapcat = "(defn mapcat [v1 v2 & v3] (def v4 @[]) (map-template :mapcat v4 v1 v2 v3) v4)" := rfl
/-- boot.janet group-by -/
theorem boot_group_by : LibSrc.boot_group_by = "(defn group-by [v1 v2] (def v3 @{}) (each v4 v2 (def v5 (v1 v4)) (if-let [v6 (get v3 v5)] (array/push v6 v4) (put v3 v5 @[v4]))) v3)" := rfl
/-- boot.janet some -/
theorem boot_some : LibSrc.boot_some = "(defn some [v1 v2 & v3] (var v4 nil) (map-template :some v4 v1 v2 v3) v4)" := rfl
/-- boot.janet all -/
theorem boot_all : LibSrc.boot_all = "(defn all [v1 v2 & v3] (var v4 true) (map-template :all v4 v1 v2 v3) v4)" := rfl

end JanetModel.Lib.SrcTie
