import JanetModel.Gen.LibSrc
/- C17: the source text each mirror (Lib/StrC, Lib/Kmp, Lib/BufC, Lib/ArrC, Lib/Boot, Lib/Sort, Lib/Range, Lib/Spec range
   decoding) was transcribed from.  Written by `python3 -m tools.gen.libsrc --tie` when a mirror is (re)examined; the
   theorems compare it with the text regenerated from the current tree (Gen/LibSrc.lean) on every run. -/
namespace JanetModel.Lib.SrcTie
open JanetModel.Gen

/-- src/core/capi.c janet_gethalfrange -/
theorem janet_gethalfrange : LibSrc.janet_gethalfrange = "{ int32_t raw = janet_getinteger(argv, n); int32_t not_raw = raw; if (not_raw < 0) not_raw += length + 1; if (not_raw < 0 || not_raw > length) janet_panicf(\"%s index %d out of range [%d,%d]\", which, (int64_t) raw, -(int64_t)length - 1, (int64_t) length); return not_raw; }" := rfl
/-- src/core/capi.c janet_getargindex -/
theorem janet_getargindex : LibSrc.janet_getargindex = "{ int32_t raw = janet_getinteger(argv, n); int32_t not_raw = raw; if (not_raw < 0) not_raw += length; if (not_raw < 0 || not_raw > length) janet_panicf(\"%s index %d out of range [%d,%d)\", which, (int64_t)raw, -(int64_t)length, (int64_t)length); return not_raw; }" := rfl
/-- src/core/capi.c janet_getstartrange -/
theorem janet_getstartrange : LibSrc.janet_getstartrange = "{ if (n >= argc || janet_checktype(argv[n], JANET_NIL)) { return 0; } return janet_gethalfrange(argv, n, length, \"start\"); }" := rfl
/-- src/core/capi.c janet_getendrange -/
theorem janet_getendrange : LibSrc.janet_getendrange = "{ if (n >= argc || janet_checktype(argv[n], JANET_NIL)) { return length; } return janet_gethalfrange(argv, n, length, \"end\"); }" := rfl
/-- src/core/capi.c janet_getslice -/
theorem janet_getslice : LibSrc.janet_getslice = "{ janet_arity(argc, 1, 3); JanetRange range; int32_t length = janet_length(argv[0]); range.start = janet_getstartrange(argv, argc, 1, length); range.end = janet_getendrange(argv, argc, 2, length); if (range.end < range.start) range.end = range.start; return range; }" := rfl
/-- src/core/string.c kmp_init -/
theorem kmp_init : LibSrc.kmp_init = "{ if (patlen == 0) { janet_panic(\"expected non-empty pattern\"); } int32_t *lookup = janet_calloc(patlen, sizeof(int32_t)); if (!lookup) { JANET_OUT_OF_MEMORY; } s->lookup = lookup; s->i = 0; s->j = 0; s->text = text; s->pat = pat; s->textlen = textlen; s->patlen = patlen; { int32_t i, j; for (i = 1, j = 0; i < patlen; i++) { while (j && pat[j] != pat[i]) j = lookup[j - 1]; if (pat[j] == pat[i]) j++; lookup[i] = j; } } }" := rfl
/-- src/core/string.c kmp_seti -/
theorem kmp_seti : LibSrc.kmp_seti = "{ state->i = i; state->j = 0; }" := rfl
/-- src/core/string.c kmp_next -/
theorem kmp_next : LibSrc.kmp_next = "{ int32_t i = state->i; int32_t j = state->j; int32_t textlen = state->textlen; int32_t patlen = state->patlen; const uint8_t *text = state->text; const uint8_t *pat = state->pat; int32_t *lookup = state->lookup; while (i < textlen) { if (text[i] == pat[j]) { if (j == patlen - 1) { state->i = i + 1; state->j = lookup[j]; return i - j; } else { i++; j++; } } else { if (j > 0) { j = lookup[j - 1]; } else { i++; } } } return -1; }" := rfl
/-- src/core/string.c findsetup -/
theorem findsetup : LibSrc.findsetup = "{ janet_arity(argc, 2, 3 + extra); JanetByteView pat = janet_getbytes(argv, 0); JanetByteView text = janet_getbytes(argv, 1); int32_t start = 0; if (argc >= 3) { start = janet_getinteger(argv, 2); if (start < 0) janet_panic(\"expected non-negative start index\"); } kmp_init(s, text.bytes, text.len, pat.bytes, pat.len); s->i = start; }" := rfl
/-- src/core/string.c replacesetup -/
theorem replacesetup : LibSrc.replacesetup = "{ janet_arity(argc, 3, 4); JanetByteView pat = janet_getbytes(argv, 0); Janet subst = argv[1]; JanetByteView text = janet_getbytes(argv, 2); int32_t start = 0; if (argc == 4) { start = janet_getinteger(argv, 3); if (start < 0) janet_panic(\"expected non-negative start index\"); } kmp_init(&s->kmp, text.bytes, text.len, pat.bytes, pat.len); s->kmp.i = start; s->subst = subst; }" := rfl
/-- src/core/string.c cfun_string_find -/
theorem cfun_string_find : LibSrc.cfun_string_find = "{ int32_t result; struct kmp_state state; findsetup(argc, argv, &state, 0); result = kmp_next(&state); kmp_deinit(&state); return result < 0 ? janet_wrap_nil() : janet_wrap_integer(result); }" := rfl
/-- src/core/string.c cfun_string_findall -/
theorem cfun_string_findall : LibSrc.cfun_string_findall = "{ int32_t result; struct kmp_state state; findsetup(argc, argv, &state, 0); JanetArray *array = janet_array(0); while ((result = kmp_next(&state)) >= 0) { janet_array_push(array, janet_wrap_integer(result)); } kmp_deinit(&state); return janet_wrap_array(array); }" := rfl
/-- src/core/string.c cfun_string_replace -/
theorem cfun_string_replace : LibSrc.cfun_string_replace = "{ int32_t result; struct replace_state s; uint8_t *buf; replacesetup(argc, argv, &s); result = kmp_next(&s.kmp); if (result < 0) { kmp_deinit(&s.kmp); return janet_stringv(s.kmp.text, s.kmp.textlen); } JanetByteView subst = janet_text_substitution(&s.subst, s.kmp.text + result, s.kmp.patlen, NULL); buf = janet_string_begin(s.kmp.textlen - s.kmp.patlen + subst.len); safe_memcpy(buf, s.kmp.text, result); safe_memcpy(buf + result, subst.bytes, subst.len); safe_memcpy(buf + result + subst.len, s.kmp.text + result + s.kmp.patlen, s.kmp.textlen - result - s.kmp.patlen); kmp_deinit(&s.kmp); return janet_wrap_string(janet_string_end(buf)); }" := rfl
/-- src/core/string.c cfun_string_replaceall -/
theorem cfun_string_replaceall : LibSrc.cfun_string_replaceall = "{ int32_t result; struct replace_state s; JanetBuffer b; int32_t lastindex = 0; replacesetup(argc, argv, &s); janet_buffer_init(&b, s.kmp.textlen); while ((result = kmp_next(&s.kmp)) >= 0) { JanetByteView subst = janet_text_substitution(&s.subst, s.kmp.text + result, s.kmp.patlen, NULL); janet_buffer_push_bytes(&b, s.kmp.text + lastindex, result - lastindex); janet_buffer_push_bytes(&b, subst.bytes, subst.len); lastindex = result + s.kmp.patlen; kmp_seti(&s.kmp, lastindex); } janet_buffer_push_bytes(&b, s.kmp.text + lastindex, s.kmp.textlen - lastindex); const uint8_t *ret = janet_string(b.data, b.count); janet_buffer_deinit(&b); kmp_deinit(&s.kmp); return janet_wrap_string(ret); }" := rfl
/-- src/core/string.c cfun_string_split -/
theorem cfun_string_split : LibSrc.cfun_string_split = "{ int32_t result; JanetArray *array; struct kmp_state state; int32_t limit = -1, lastindex = 0; if (argc == 4) { limit = janet_getinteger(argv, 3); } findsetup(argc, argv, &state, 1); array = janet_array(0); while ((result = kmp_next(&state)) >= 0 && (limit < 0 || --limit)) { const uint8_t *slice = janet_string(state.text + lastindex, result - lastindex); janet_array_push(array, janet_wrap_string(slice)); lastindex = result + state.patlen; kmp_seti(&state, lastindex); } const uint8_t *slice = janet_string(state.text + lastindex, state.textlen - lastindex); janet_array_push(array, janet_wrap_string(slice)); kmp_deinit(&state); return janet_wrap_array(array); }" := rfl
/-- src/core/string.c cfun_string_join -/
theorem cfun_string_join : LibSrc.cfun_string_join = "{ janet_arity(argc, 1, 2); JanetView parts = janet_getindexed(argv, 0); JanetByteView joiner; if (argc == 2) { joiner = janet_getbytes(argv, 1); } else { joiner.bytes = NULL; joiner.len = 0; } int32_t i; int64_t finallen = 0; for (i = 0; i < parts.len; i++) { const uint8_t *chunk; int32_t chunklen = 0; if (!janet_bytes_view(parts.items[i], &chunk, &chunklen)) { janet_panicf(\"item %d of parts is not a byte sequence, got %v\", i, parts.items[i]); } if (i) finallen += joiner.len; finallen += chunklen; if (finallen > INT32_MAX) janet_panic(\"result string too long\"); } uint8_t *buf, *out; out = buf = janet_string_begin((int32_t) finallen); for (i = 0; i < parts.len; i++) { const uint8_t *chunk = NULL; int32_t chunklen = 0; if (i) { safe_memcpy(out, joiner.bytes, joiner.len); out += joiner.len; } janet_bytes_view(parts.items[i], &chunk, &chunklen); safe_memcpy(out, chunk, chunklen); out += chunklen; } return janet_wrap_string(janet_string_end(buf)); }" := rfl
/-- src/core/string.c cfun_string_slice -/
theorem cfun_string_slice : LibSrc.cfun_string_slice = "{ JanetByteView view = janet_getbytes(argv, 0); JanetRange range = janet_getslice(argc, argv); return janet_stringv(view.bytes + range.start, range.end - range.start); }" := rfl
/-- src/core/string.c cfun_string_repeat -/
theorem cfun_string_repeat : LibSrc.cfun_string_repeat = "{ janet_fixarity(argc, 2); JanetByteView view = janet_getbytes(argv, 0); int32_t rep = janet_getinteger(argv, 1); if (rep < 0) janet_panic(\"expected non-negative number of repetitions\"); if (rep == 0) return janet_cstringv(\"\"); int64_t mulres = (int64_t) rep * view.len; if (mulres > INT32_MAX) janet_panic(\"result string is too long\"); uint8_t *newbuf = janet_string_begin((int32_t) mulres); uint8_t *end = newbuf + mulres; for (uint8_t *p = newbuf; p < end; p += view.len) { safe_memcpy(p, view.bytes, view.len); } return janet_wrap_string(janet_string_end(newbuf)); }" := rfl
/-- src/core/string.c cfun_string_bytes -/
theorem cfun_string_bytes : LibSrc.cfun_string_bytes = "{ janet_fixarity(argc, 1); JanetByteView view = janet_getbytes(argv, 0); Janet *tup = janet_tuple_begin(view.len); int32_t i; for (i = 0; i < view.len; i++) { tup[i] = janet_wrap_integer((int32_t) view.bytes[i]); } return janet_wrap_tuple(janet_tuple_end(tup)); }" := rfl
/-- src/core/string.c cfun_string_frombytes -/
theorem cfun_string_frombytes : LibSrc.cfun_string_frombytes = "{ int32_t i; uint8_t *buf = janet_string_begin(argc); for (i = 0; i < argc; i++) { int32_t c = janet_getinteger(argv, i); buf[i] = c & 0xFF; } return janet_wrap_string(janet_string_end(buf)); }" := rfl
/-- src/core/string.c cfun_string_asciilower -/
theorem cfun_string_asciilower : LibSrc.cfun_string_asciilower = "{ janet_fixarity(argc, 1); JanetByteView view = janet_getbytes(argv, 0); uint8_t *buf = janet_string_begin(view.len); for (int32_t i = 0; i < view.len; i++) { uint8_t c = view.bytes[i]; if (c >= 65 && c <= 90) { buf[i] = c + 32; } else { buf[i] = c; } } return janet_wrap_string(janet_string_end(buf)); }" := rfl
/-- src/core/string.c cfun_string_asciiupper -/
theorem cfun_string_asciiupper : LibSrc.cfun_string_asciiupper = "{ janet_fixarity(argc, 1); JanetByteView view = janet_getbytes(argv, 0); uint8_t *buf = janet_string_begin(view.len); for (int32_t i = 0; i < view.len; i++) { uint8_t c = view.bytes[i]; if (c >= 97 && c <= 122) { buf[i] = c - 32; } else { buf[i] = c; } } return janet_wrap_string(janet_string_end(buf)); }" := rfl
/-- src/core/string.c cfun_string_reverse -/
theorem cfun_string_reverse : LibSrc.cfun_string_reverse = "{ janet_fixarity(argc, 1); JanetByteView view = janet_getbytes(argv, 0); uint8_t *buf = janet_string_begin(view.len); int32_t i, j; for (i = 0, j = view.len - 1; i < view.len; i++, j--) { buf[i] = view.bytes[j]; } return janet_wrap_string(janet_string_end(buf)); }" := rfl
/-- src/core/string.c cfun_string_hasprefix -/
theorem cfun_string_hasprefix : LibSrc.cfun_string_hasprefix = "{ janet_fixarity(argc, 2); JanetByteView prefix = janet_getbytes(argv, 0); JanetByteView str = janet_getbytes(argv, 1); return str.len < prefix.len ? janet_wrap_false() : janet_wrap_boolean(memcmp(prefix.bytes, str.bytes, prefix.len) == 0); }" := rfl
/-- src/core/string.c cfun_string_hassuffix -/
theorem cfun_string_hassuffix : LibSrc.cfun_string_hassuffix = "{ janet_fixarity(argc, 2); JanetByteView suffix = janet_getbytes(argv, 0); JanetByteView str = janet_getbytes(argv, 1); return str.len < suffix.len ? janet_wrap_false() : janet_wrap_boolean(memcmp(suffix.bytes, str.bytes + str.len - suffix.len, suffix.len) == 0); }" := rfl
/-- src/core/string.c cfun_string_checkset -/
theorem cfun_string_checkset : LibSrc.cfun_string_checkset = "{ uint32_t bitset[8] = {0, 0, 0, 0, 0, 0, 0, 0}; janet_fixarity(argc, 2); JanetByteView set = janet_getbytes(argv, 0); JanetByteView str = janet_getbytes(argv, 1); for (int32_t i = 0; i < set.len; i++) { int index = set.bytes[i] >> 5; uint32_t mask = (uint32_t) 1 << (set.bytes[i] & 0x1F); bitset[index] |= mask; } for (int32_t i = 0; i < str.len; i++) { int index = str.bytes[i] >> 5; uint32_t mask = (uint32_t) 1 << (str.bytes[i] & 0x1F); if (!(bitset[index] & mask)) { return janet_wrap_false(); } } return janet_wrap_true(); }" := rfl
/-- src/core/string.c trim_help_checkset -/
theorem trim_help_checkset : LibSrc.trim_help_checkset = "{ for (int32_t j = 0; j < set.len; j++) if (set.bytes[j] == x) return 1; return 0; }" := rfl
/-- src/core/string.c trim_help_leftedge -/
theorem trim_help_leftedge : LibSrc.trim_help_leftedge = "{ for (int32_t i = 0; i < str.len; i++) if (!trim_help_checkset(set, str.bytes[i])) return i; return str.len; }" := rfl
/-- src/core/string.c trim_help_rightedge -/
theorem trim_help_rightedge : LibSrc.trim_help_rightedge = "{ for (int32_t i = str.len - 1; i >= 0; i--) if (!trim_help_checkset(set, str.bytes[i])) return i + 1; return 0; }" := rfl
/-- src/core/string.c trim_help_args -/
theorem trim_help_args : LibSrc.trim_help_args = "{ janet_arity(argc, 1, 2); *str = janet_getbytes(argv, 0); if (argc >= 2) { *set = janet_getbytes(argv, 1); } else { set->bytes = (const uint8_t *)(\" \\t\\r\\n\\v\\f\"); set->len = 6; } }" := rfl
/-- src/core/string.c cfun_string_trim -/
theorem cfun_string_trim : LibSrc.cfun_string_trim = "{ JanetByteView str, set; trim_help_args(argc, argv, &str, &set); int32_t left_edge = trim_help_leftedge(str, set); int32_t right_edge = trim_help_rightedge(str, set); if (right_edge < left_edge) return janet_stringv(NULL, 0); return janet_stringv(str.bytes + left_edge, right_edge - left_edge); }" := rfl
/-- src/core/string.c cfun_string_triml -/
theorem cfun_string_triml : LibSrc.cfun_string_triml = "{ JanetByteView str, set; trim_help_args(argc, argv, &str, &set); int32_t left_edge = trim_help_leftedge(str, set); return janet_stringv(str.bytes + left_edge, str.len - left_edge); }" := rfl
/-- src/core/string.c cfun_string_trimr -/
theorem cfun_string_trimr : LibSrc.cfun_string_trimr = "{ JanetByteView str, set; trim_help_args(argc, argv, &str, &set); int32_t right_edge = trim_help_rightedge(str, set); return janet_stringv(str.bytes, right_edge); }" := rfl
/-- src/core/buffer.c janet_buffer_extra -/
theorem janet_buffer_extra : LibSrc.janet_buffer_extra = "{ if ((int64_t)n + buffer->count > INT32_MAX) { janet_panic(\"buffer overflow\"); } int32_t new_size = buffer->count + n; if (new_size > buffer->capacity) { janet_buffer_can_realloc(buffer); int32_t new_capacity = (new_size > (INT32_MAX / 2)) ? INT32_MAX : (new_size * 2); uint8_t *new_data = janet_realloc(buffer->data, new_capacity * sizeof(uint8_t)); janet_gcpressure(new_capacity - buffer->capacity); if (NULL == new_data) { JANET_OUT_OF_MEMORY; } buffer->data = new_data; buffer->capacity = new_capacity; } }" := rfl
/-- src/core/buffer.c janet_buffer_push_bytes -/
theorem janet_buffer_push_bytes : LibSrc.janet_buffer_push_bytes = "{ if (0 == length) return; janet_buffer_extra(buffer, length); memcpy(buffer->data + buffer->count, string, length); buffer->count += length; }" := rfl
/-- src/core/buffer.c janet_buffer_push_u8 -/
theorem janet_buffer_push_u8 : LibSrc.janet_buffer_push_u8 = "{ janet_buffer_extra(buffer, 1); buffer->data[buffer->count] = byte; buffer->count++; }" := rfl
/-- src/core/buffer.c janet_buffer_push_u32 -/
theorem janet_buffer_push_u32 : LibSrc.janet_buffer_push_u32 = "{ janet_buffer_extra(buffer, 4); buffer->data[buffer->count] = x & 0xFF; buffer->data[buffer->count + 1] = (x >> 8) & 0xFF; buffer->data[buffer->count + 2] = (x >> 16) & 0xFF; buffer->data[buffer->count + 3] = (x >> 24) & 0xFF; buffer->count += 4; }" := rfl
/-- src/core/buffer.c buffer_push_impl -/
theorem buffer_push_impl : LibSrc.buffer_push_impl = "{ for (int32_t i = argc_offset; i < argc; i++) { if (janet_checktype(argv[i], JANET_NUMBER)) { janet_buffer_push_u8(buffer, (uint8_t)(janet_getinteger(argv, i) & 0xFF)); } else { JanetByteView view = janet_getbytes(argv, i); if (view.bytes == buffer->data) { janet_buffer_extra(buffer, view.len); view.bytes = buffer->data; } janet_buffer_push_bytes(buffer, view.bytes, view.len); } } }" := rfl
/-- src/core/buffer.c cfun_buffer_push -/
theorem cfun_buffer_push : LibSrc.cfun_buffer_push = "{ janet_arity(argc, 1, -1); JanetBuffer *buffer = janet_getbuffer(argv, 0); buffer_push_impl(buffer, argv, 1, argc); return argv[0]; }" := rfl
/-- src/core/buffer.c cfun_buffer_push_at -/
theorem cfun_buffer_push_at : LibSrc.cfun_buffer_push_at = "{ janet_arity(argc, 2, -1); JanetBuffer *buffer = janet_getbuffer(argv, 0); int32_t index = janet_getinteger(argv, 1); int32_t old_count = buffer->count; if (index < 0 || index > old_count) { janet_panicf(\"index out of range [0, %d)\", old_count); } buffer->count = index; buffer_push_impl(buffer, argv, 2, argc); if (buffer->count < old_count) { buffer->count = old_count; } return argv[0]; }" := rfl
/-- src/core/buffer.c cfun_buffer_u8 -/
theorem cfun_buffer_u8 : LibSrc.cfun_buffer_u8 = "{ int32_t i; janet_arity(argc, 1, -1); JanetBuffer *buffer = janet_getbuffer(argv, 0); for (i = 1; i < argc; i++) { janet_buffer_push_u8(buffer, (uint8_t)(janet_getinteger(argv, i) & 0xFF)); } return argv[0]; }" := rfl
/-- src/core/buffer.c cfun_buffer_word -/
theorem cfun_buffer_word : LibSrc.cfun_buffer_word = "{ int32_t i; janet_arity(argc, 1, -1); JanetBuffer *buffer = janet_getbuffer(argv, 0); for (i = 1; i < argc; i++) { double number = janet_getnumber(argv, i); uint32_t word = (uint32_t) number; if (word != number) janet_panicf(\"cannot convert %v to machine word\", argv[i]); janet_buffer_push_u32(buffer, word); } return argv[0]; }" := rfl
/-- src/core/buffer.c cfun_buffer_chars -/
theorem cfun_buffer_chars : LibSrc.cfun_buffer_chars = "{ int32_t i; janet_arity(argc, 1, -1); JanetBuffer *buffer = janet_getbuffer(argv, 0); for (i = 1; i < argc; i++) { JanetByteView view = janet_getbytes(argv, i); if (view.bytes == buffer->data) { janet_buffer_extra(buffer, view.len); view.bytes = buffer->data; } janet_buffer_push_bytes(buffer, view.bytes, view.len); } return argv[0]; }" := rfl
/-- src/core/buffer.c cfun_buffer_popn -/
theorem cfun_buffer_popn : LibSrc.cfun_buffer_popn = "{ janet_fixarity(argc, 2); JanetBuffer *buffer = janet_getbuffer(argv, 0); int32_t n = janet_getinteger(argv, 1); if (n < 0) janet_panic(\"n must be non-negative\"); if (buffer->count < n) { buffer->count = 0; } else { buffer->count -= n; } return argv[0]; }" := rfl
/-- src/core/buffer.c cfun_buffer_fill -/
theorem cfun_buffer_fill : LibSrc.cfun_buffer_fill = "{ janet_arity(argc, 1, 2); JanetBuffer *buffer = janet_getbuffer(argv, 0); int32_t byte = 0; if (argc == 2) { byte = janet_getinteger(argv, 1) & 0xFF; } if (buffer->count) { memset(buffer->data, byte, buffer->count); } return argv[0]; }" := rfl
/-- src/core/buffer.c bitloc -/
theorem bitloc : LibSrc.bitloc = "{ janet_fixarity(argc, 2); JanetBuffer *buffer = janet_getbuffer(argv, 0); double x = janet_getnumber(argv, 1); int64_t bitindex = (int64_t) x; int64_t byteindex = bitindex >> 3; int which_bit = bitindex & 7; if (bitindex != x || bitindex < 0 || byteindex >= buffer->count) janet_panicf(\"invalid bit index %v\", argv[1]); *b = buffer; *index = (int32_t) byteindex; *bit = which_bit; }" := rfl
/-- src/core/buffer.c cfun_buffer_bitset -/
theorem cfun_buffer_bitset : LibSrc.cfun_buffer_bitset = "{ int bit; int32_t index; JanetBuffer *buffer; bitloc(argc, argv, &buffer, &index, &bit); buffer->data[index] |= 1 << bit; return argv[0]; }" := rfl
/-- src/core/buffer.c cfun_buffer_bitclear -/
theorem cfun_buffer_bitclear : LibSrc.cfun_buffer_bitclear = "{ int bit; int32_t index; JanetBuffer *buffer; bitloc(argc, argv, &buffer, &index, &bit); buffer->data[index] &= ~(1 << bit); return argv[0]; }" := rfl
/-- src/core/buffer.c cfun_buffer_bitget -/
theorem cfun_buffer_bitget : LibSrc.cfun_buffer_bitget = "{ int bit; int32_t index; JanetBuffer *buffer; bitloc(argc, argv, &buffer, &index, &bit); return janet_wrap_boolean(buffer->data[index] & (1 << bit)); }" := rfl
/-- src/core/buffer.c cfun_buffer_bittoggle -/
theorem cfun_buffer_bittoggle : LibSrc.cfun_buffer_bittoggle = "{ int bit; int32_t index; JanetBuffer *buffer; bitloc(argc, argv, &buffer, &index, &bit); buffer->data[index] ^= (1 << bit); return argv[0]; }" := rfl
/-- src/core/buffer.c cfun_buffer_blit -/
theorem cfun_buffer_blit : LibSrc.cfun_buffer_blit = "{ janet_arity(argc, 2, 5); JanetBuffer *dest = janet_getbuffer(argv, 0); JanetByteView src = janet_getbytes(argv, 1); int same_buf = src.bytes == dest->data; int32_t offset_dest = 0; int32_t offset_src = 0; if (argc > 2 && !janet_checktype(argv[2], JANET_NIL)) offset_dest = janet_gethalfrange(argv, 2, dest->count, \"dest-start\"); if (argc > 3 && !janet_checktype(argv[3], JANET_NIL)) offset_src = janet_gethalfrange(argv, 3, src.len, \"src-start\"); int32_t length_src; if (argc > 4) { int32_t src_end = src.len; if (!janet_checktype(argv[4], JANET_NIL)) src_end = janet_gethalfrange(argv, 4, src.len, \"src-end\"); length_src = src_end - offset_src; if (length_src < 0) length_src = 0; } else { length_src = src.len - offset_src; } int64_t last = (int64_t) offset_dest + length_src; if (last > INT32_MAX) janet_panic(\"buffer blit out of range\"); int32_t last32 = (int32_t) last; janet_buffer_ensure(dest, last32, 2); if (last32 > dest->count) dest->count = last32; if (length_src) { if (same_buf) { src.bytes = dest->data; memmove(dest->data + offset_dest, src.bytes + offset_src, length_src); } else { memcpy(dest->data + offset_dest, src.bytes + offset_src, length_src); } } return argv[0]; }" := rfl
/-- src/core/array.c janet_array_push -/
theorem janet_array_push : LibSrc.janet_array_push = "{ if (array->count == INT32_MAX) { janet_panic(\"array overflow\"); } int32_t newcount = array->count + 1; janet_array_ensure(array, newcount, 2); array->data[array->count] = x; array->count = newcount; }" := rfl
/-- src/core/array.c cfun_array_fill -/
theorem cfun_array_fill : LibSrc.cfun_array_fill = "{ janet_arity(argc, 1, 2); JanetArray *array = janet_getarray(argv, 0); Janet x = (argc == 2) ? argv[1] : janet_wrap_nil(); for (int32_t i = 0; i < array->count; i++) { array->data[i] = x; } return argv[0]; }" := rfl
/-- src/core/array.c cfun_array_slice -/
theorem cfun_array_slice : LibSrc.cfun_array_slice = "{ JanetView view = janet_getindexed(argv, 0); JanetRange range = janet_getslice(argc, argv); JanetArray *array = janet_array(range.end - range.start); if (array->data) memcpy(array->data, view.items + range.start, sizeof(Janet) * (range.end - range.start)); array->count = range.end - range.start; return janet_wrap_array(array); }" := rfl
/-- src/core/array.c cfun_array_concat -/
theorem cfun_array_concat : LibSrc.cfun_array_concat = "{ int32_t i; janet_arity(argc, 1, -1); JanetArray *array = janet_getarray(argv, 0); for (i = 1; i < argc; i++) { switch (janet_type(argv[i])) { default: janet_array_push(array, argv[i]); break; case JANET_ARRAY: case JANET_TUPLE: { int32_t j, len = 0; const Janet *vals = NULL; janet_indexed_view(argv[i], &vals, &len); if (array->data == vals) { int32_t newcount = array->count + len; janet_array_ensure(array, newcount, 2); janet_indexed_view(argv[i], &vals, &len); } for (j = 0; j < len; j++) janet_array_push(array, vals[j]); } break; } } return janet_wrap_array(array); }" := rfl
/-- src/core/array.c cfun_array_insert -/
theorem cfun_array_insert : LibSrc.cfun_array_insert = "{ size_t chunksize, restsize; janet_arity(argc, 2, -1); JanetArray *array = janet_getarray(argv, 0); int32_t at = janet_getinteger(argv, 1); if (at < 0) { at = array->count + at + 1; } if (at < 0 || at > array->count) janet_panicf(\"insertion index %d out of range [0,%d]\", at, array->count); chunksize = (argc - 2) * sizeof(Janet); restsize = (array->count - at) * sizeof(Janet); if (INT32_MAX - (argc - 2) < array->count) { janet_panic(\"array overflow\"); } janet_array_ensure(array, array->count + argc - 2, 2); if (restsize) { memmove(array->data + at + argc - 2, array->data + at, restsize); } safe_memcpy(array->data + at, argv + 2, chunksize); array->count += (argc - 2); return argv[0]; }" := rfl
/-- src/core/array.c cfun_array_remove -/
theorem cfun_array_remove : LibSrc.cfun_array_remove = "{ janet_arity(argc, 2, 3); JanetArray *array = janet_getarray(argv, 0); int32_t at = janet_getinteger(argv, 1); int32_t n = 1; if (at < 0) { at = array->count + at; } if (at < 0 || at > array->count) janet_panicf(\"removal index %d out of range [0,%d]\", at, array->count); if (argc == 3) { n = janet_getinteger(argv, 2); if (n < 0) janet_panicf(\"expected non-negative integer for argument n, got %v\", argv[2]); } if (n > array->count - at) { n = array->count - at; } if (n > 0) { memmove(array->data + at, array->data + at + n, (size_t)(array->count - at - n) * sizeof(Janet)); array->count -= n; } return argv[0]; }" := rfl
/-- src/core/tuple.c cfun_tuple_slice -/
theorem cfun_tuple_slice : LibSrc.cfun_tuple_slice = "{ JanetView view = janet_getindexed(argv, 0); JanetRange range = janet_getslice(argc, argv); return janet_wrap_tuple(janet_tuple_n(view.items + range.start, range.end - range.start)); }" := rfl
/-- src/core/tuple.c cfun_tuple_join -/
theorem cfun_tuple_join : LibSrc.cfun_tuple_join = "{ janet_arity(argc, 0, -1); int32_t total_len = 0; for (int32_t i = 0; i < argc; i++) { int32_t len = 0; const Janet *vals = NULL; if (!janet_indexed_view(argv[i], &vals, &len)) { janet_panicf(\"expected indexed type for argument %d, got %v\", i, argv[i]); } if (INT32_MAX - total_len < len) { janet_panic(\"tuple too large\"); } total_len += len; } Janet *tup = janet_tuple_begin(total_len); Janet *tup_cursor = tup; for (int32_t i = 0; i < argc; i++) { int32_t len = 0; const Janet *vals = NULL; janet_indexed_view(argv[i], &vals, &len); safe_memcpy(tup_cursor, vals, len * sizeof(Janet)); tup_cursor += len; } return janet_wrap_tuple(janet_tuple_end(tup)); }" := rfl
/-- src/core/corelib.c janet_core_range -/
theorem janet_core_range : LibSrc.janet_core_range = "{ janet_arity(argc, 1, 3); double start = 0, stop = 0, step = 1, count = 0; if (argc == 3) { start = janet_getnumber(argv, 0); stop = janet_getnumber(argv, 1); step = janet_getnumber(argv, 2); count = (step > 0) ? (stop - start) / step : ((step < 0) ? (stop - start) / step : 0); } else if (argc == 2) { start = janet_getnumber(argv, 0); stop = janet_getnumber(argv, 1); count = stop - start; } else { stop = janet_getnumber(argv, 0); count = stop; } count = (count > 0) ? count : 0; int32_t int_count; janet_assert(count >= 0, \"bad range code\"); if (count > (double) INT32_MAX) { janet_panicf(\"range is too large, %f elements\", count); } else { int_count = (int32_t) ceil(count); } if (step > 0.0) { while (int_count < INT32_MAX && start + int_count * step < stop) int_count++; } else if (step < 0.0) { while (int_count < INT32_MAX && start + int_count * step > stop) int_count++; } JanetArray *array = janet_array(int_count); for (int32_t i = 0; i < int_count; i++) { array->data[i] = janet_wrap_number((double) start + (double) i * step); } array->count = int_count; return janet_wrap_array(array); }" := rfl
/-- src/core/buffer.c should_reverse_bytes -/
theorem should_reverse_bytes : LibSrc.should_reverse_bytes = "{ JanetKeyword order_kw = janet_getkeyword(argv, argc); if (!janet_cstrcmp(order_kw, \"le\")) { #if JANET_BIG_ENDIAN return 1; #endif } else if (!janet_cstrcmp(order_kw, \"be\")) { #if JANET_LITTLE_ENDIAN return 1; #endif } else if (!janet_cstrcmp(order_kw, \"native\")) { return 0; } else { janet_panicf(\"expected endianness :le, :be or :native, got %v\", argv[1]); } return 0; }" := rfl
/-- src/core/buffer.c reverse_u32 -/
theorem reverse_u32 : LibSrc.reverse_u32 = "{ uint8_t temp; temp = bytes[3]; bytes[3] = bytes[0]; bytes[0] = temp; temp = bytes[2]; bytes[2] = bytes[1]; bytes[1] = temp; }" := rfl
/-- src/core/buffer.c reverse_u64 -/
theorem reverse_u64 : LibSrc.reverse_u64 = "{ uint8_t temp; temp = bytes[7]; bytes[7] = bytes[0]; bytes[0] = temp; temp = bytes[6]; bytes[6] = bytes[1]; bytes[1] = temp; temp = bytes[5]; bytes[5] = bytes[2]; bytes[2] = temp; temp = bytes[4]; bytes[4] = bytes[3]; bytes[3] = temp; }" := rfl
/-- src/core/buffer.c cfun_buffer_push_uint16 -/
theorem cfun_buffer_push_uint16 : LibSrc.cfun_buffer_push_uint16 = "{ janet_fixarity(argc, 3); JanetBuffer *buffer = janet_getbuffer(argv, 0); int reverse = should_reverse_bytes(argv, 1); uint16_t data = janet_getuinteger16(argv, 2); uint8_t bytes[sizeof(data)]; memcpy(bytes, &data, sizeof(bytes)); if (reverse) { uint8_t temp = bytes[1]; bytes[1] = bytes[0]; bytes[0] = temp; } janet_buffer_push_bytes(buffer, bytes, sizeof(bytes)); return argv[0]; }" := rfl
/-- src/core/buffer.c cfun_buffer_push_uint32 -/
theorem cfun_buffer_push_uint32 : LibSrc.cfun_buffer_push_uint32 = "{ janet_fixarity(argc, 3); JanetBuffer *buffer = janet_getbuffer(argv, 0); int reverse = should_reverse_bytes(argv, 1); uint32_t data = janet_getuinteger(argv, 2); uint8_t bytes[sizeof(data)]; memcpy(bytes, &data, sizeof(bytes)); if (reverse) reverse_u32(bytes); janet_buffer_push_bytes(buffer, bytes, sizeof(bytes)); return argv[0]; }" := rfl
/-- src/core/buffer.c cfun_buffer_push_uint64 -/
theorem cfun_buffer_push_uint64 : LibSrc.cfun_buffer_push_uint64 = "{ janet_fixarity(argc, 3); JanetBuffer *buffer = janet_getbuffer(argv, 0); int reverse = should_reverse_bytes(argv, 1); uint64_t data = janet_getuinteger64(argv, 2); uint8_t bytes[sizeof(data)]; memcpy(bytes, &data, sizeof(bytes)); if (reverse) reverse_u64(bytes); janet_buffer_push_bytes(buffer, bytes, sizeof(bytes)); return argv[0]; }" := rfl
/-- src/core/buffer.c cfun_buffer_new_filled -/
theorem cfun_buffer_new_filled : LibSrc.cfun_buffer_new_filled = "{ janet_arity(argc, 1, 2); int32_t count = janet_getinteger(argv, 0); if (count < 0) count = 0; int32_t byte = 0; if (argc == 2) { byte = janet_getinteger(argv, 1) & 0xFF; } JanetBuffer *buffer = janet_buffer(count); if (buffer->data && count > 0) memset(buffer->data, byte, count); buffer->count = count; return janet_wrap_buffer(buffer); }" := rfl
/-- src/core/array.c janet_array_pop -/
theorem janet_array_pop : LibSrc.janet_array_pop = "{ if (array->count) { return array->data[--array->count]; } else { return janet_wrap_nil(); } }" := rfl
/-- src/core/array.c janet_array_peek -/
theorem janet_array_peek : LibSrc.janet_array_peek = "{ if (array->count) { return array->data[array->count - 1]; } else { return janet_wrap_nil(); } }" := rfl
/-- src/core/array.c cfun_array_new_filled -/
theorem cfun_array_new_filled : LibSrc.cfun_array_new_filled = "{ janet_arity(argc, 1, 2); int32_t count = janet_getnat(argv, 0); Janet x = (argc == 2) ? argv[1] : janet_wrap_nil(); JanetArray *array = janet_array(count); for (int32_t i = 0; i < count; i++) { array->data[i] = x; } array->count = count; return janet_wrap_array(array); }" := rfl
/-- src/core/array.c cfun_array_pop -/
theorem cfun_array_pop : LibSrc.cfun_array_pop = "{ janet_fixarity(argc, 1); JanetArray *array = janet_getarray(argv, 0); return janet_array_pop(array); }" := rfl
/-- src/core/array.c cfun_array_peek -/
theorem cfun_array_peek : LibSrc.cfun_array_peek = "{ janet_fixarity(argc, 1); JanetArray *array = janet_getarray(argv, 0); return janet_array_peek(array); }" := rfl
/-- src/core/array.c cfun_array_push -/
theorem cfun_array_push : LibSrc.cfun_array_push = "{ janet_arity(argc, 1, -1); JanetArray *array = janet_getarray(argv, 0); if (INT32_MAX - argc + 1 <= array->count) { janet_panic(\"array overflow\"); } int32_t newcount = array->count - 1 + argc; janet_array_ensure(array, newcount, 2); if (argc > 1) memcpy(array->data + array->count, argv + 1, (size_t)(argc - 1) * sizeof(Janet)); array->count = newcount; return argv[0]; }" := rfl
/-- boot.janet each-template -/
theorem boot_each_template : LibSrc.boot_each_template = "(defn- each-template [binding inx kind body] (with-syms [k] (def ds (if (idempotent? inx) inx (gensym))) ~(do ,(unless (= ds inx) ~(def ,ds ,inx)) (var ,k (,next ,ds nil)) (while (,not= nil ,k) (def ,binding ,(case kind :each ~(,in ,ds ,k) :keys k :pairs ~[,k (,in ,ds ,k)])) ,;body (set ,k (,next ,ds ,k))))))" := rfl
/-- boot.janet median-of-three -/
theorem boot_median_of_three : LibSrc.boot_median_of_three = "(defmacro- median-of-three [x y z] ~(if (<= ,x ,y) (if (<= ,y ,z) ,y (if (<= ,z ,x) ,x ,z)) (if (<= ,z ,y) ,y (if (<= ,x ,z) ,x ,z))))" := rfl
/-- boot.janet sort-partition-template -/
theorem boot_sort_partition_template : LibSrc.boot_sort_partition_template = "(defmacro- sort-partition-template [ind before? left right pivot] ~(do (while (,before? (in ,ind ,left) ,pivot) (++ ,left)) (while (,before? ,pivot (in ,ind ,right)) (-- ,right))))" := rfl
/-- boot.janet sort-help -/
theorem boot_sort_help : LibSrc.boot_sort_help = "(defn- sort-help [a lo hi before?] (when (< lo hi) (def [x y z] [(in a lo) (in a (div (+ lo hi) 2)) (in a hi)]) (def pivot (median-of-three x y z)) (var left lo) (var right hi) (while true (case before? < (sort-partition-template a < left right pivot) > (sort-partition-template a > left right pivot) (sort-partition-template a before? left right pivot)) (when (<= left right) (def tmp (in a left)) (set (a left) (in a right)) (set (a right) tmp) (++ left) (-- right)) (if (>= left right) (break))) (if (< lo right) (sort-help a lo right before?)) (if (< left hi) (sort-help a left hi before?))) a)" := rfl
/-- boot.janet sort -/
theorem boot_sort : LibSrc.boot_sort = "(defn sort [ind &opt before?] (default before? <) (sort-help ind 0 (- (length ind) 1) before?))" := rfl
/-- boot.janet sort-by -/
theorem boot_sort_by : LibSrc.boot_sort_by = "(defn sort-by [f ind] (sort ind (fn :sort-by-comp [x y] (< (f x) (f y)))))" := rfl
/-- boot.janet sorted -/
theorem boot_sorted : LibSrc.boot_sorted = "(defn sorted [ind &opt before?] (sort (array/slice ind) before?))" := rfl
/-- boot.janet sorted-by -/
theorem boot_sorted_by : LibSrc.boot_sorted_by = "(defn sorted-by [f ind] (sorted ind (fn :sorted-by-comp [x y] (< (f x) (f y)))))" := rfl
/-- boot.janet reduce -/
theorem boot_reduce : LibSrc.boot_reduce = "(defn reduce [f init ind] (var accum init) (each el ind (set accum (f accum el))) accum)" := rfl
/-- boot.janet reduce2 -/
theorem boot_reduce2 : LibSrc.boot_reduce2 = "(defn reduce2 [f ind] (var k (next ind)) (if (= nil k) (break nil)) (var res (in ind k)) (set k (next ind k)) (while (not= nil k) (set res (f res (in ind k))) (set k (next ind k))) res)" := rfl
/-- boot.janet map-aggregator -/
theorem boot_map_aggregator : LibSrc.boot_map_aggregator = "(defmacro- map-aggregator [maptype res val] (case maptype :map ~(array/push ,res ,val) :mapcat ~(array/concat ,res ,val) :keep ~(if (def y ,val) (array/push ,res y)) :count ~(if ,val (++ ,res)) :some ~(if (def y ,val) (do (set ,res y) (break))) :all ~(if (def y ,val) nil (do (set ,res y) (break)))))" := rfl
/-- boot.janet map-n -/
theorem boot_map_n : LibSrc.boot_map_n = "(defmacro- map-n [n maptype res f ind inds] ~(do (def ,(seq [k :range [0 n]] (symbol 'ind k)) ,inds) ,;(seq [k :range [0 n]] ~(var ,(symbol 'key k) nil)) (each x ,ind ,;(seq [k :range [0 n]] ~(if (= nil (set ,(symbol 'key k) (next ,(symbol 'ind k) ,(symbol 'key k)))) (break))) (map-aggregator ,maptype ,res (,f x ,;(seq [k :range [0 n]] ~(in ,(symbol 'ind k) ,(symbol 'key k))))))))" := rfl
/-- boot.janet map-template -/
theorem boot_map_template : LibSrc.boot_map_template = "(defmacro- map-template [maptype res f ind inds] ~(do (def ninds (length ,inds)) (case ninds 0 (each x ,ind (map-aggregator ,maptype ,res (,f x))) 1 (map-n 1 ,maptype ,res ,f ,ind ,inds) 2 (map-n 2 ,maptype ,res ,f ,ind ,inds) 3 (map-n 3 ,maptype ,res ,f ,ind ,inds) (do (def iter-keys (array/new-filled ninds)) (def call-buffer (array/new-filled ninds)) (var done false) (each x ,ind (forv i 0 ninds (let [old-key (in iter-keys i) ii (in ,inds i) new-key (next ii old-key)] (if (= nil new-key) (do (set done true) (break)) (do (set (iter-keys i) new-key) (set (call-buffer i) (in ii new-key)))))) (if done (break)) (map-aggregator ,maptype ,res (,f x ;call-buffer)))))))" := rfl
/-- boot.janet map -/
theorem boot_map : LibSrc.boot_map = "(defn map [f ind & inds] (def res @[]) (map-template :map res f ind inds) res)" := rfl
/-- boot.janet filter -/
theorem boot_filter : LibSrc.boot_filter = "(defn filter [pred ind] (def res @[]) (each item ind (if (pred item) (array/push res item))) res)" := rfl
/-- boot.janet count -/
theorem boot_count : LibSrc.boot_count = "(defn count [pred ind & inds] (var res 0) (map-template :count res pred ind inds) res)" := rfl
/-- boot.janet find-index -/
theorem boot_find_index : LibSrc.boot_find_index = "(defn find-index [pred ind &opt dflt] (var k nil) (var ret dflt) (while true (set k (next ind k)) (if (= k nil) (break)) (def item (in ind k)) (when (pred item) (set ret k) (break))) ret)" := rfl
/-- boot.janet find -/
theorem boot_find : LibSrc.boot_find = "(defn find [pred ind &opt dflt] (var k nil) (var ret dflt) (while true (set k (next ind k)) (if (= k nil) (break)) (def item (in ind k)) (when (pred item) (set ret item) (break))) ret)" := rfl
/-- boot.janet index-of -/
theorem boot_index_of : LibSrc.boot_index_of = "(defn index-of [x ind &opt dflt] (var k (next ind nil)) (var ret dflt) (while (not= nil k) (when (= (in ind k) x) (set ret k) (break)) (set k (next ind k))) ret)" := rfl
/-- boot.janet take-n-slice -/
theorem boot_take_n_slice : LibSrc.boot_take_n_slice = "(defn- take-n-slice [f n ind] (def len (length ind)) (def m (+ len n)) (def start (if (< n 0 m) m 0)) (def end (if (<= 0 n len) n len)) (f ind start end))" := rfl
/-- boot.janet take -/
theorem boot_take : LibSrc.boot_take = "(defn take [n ind] (cond (indexed? ind) (take-n-slice tuple/slice n ind) (bytes? ind) (take-n-slice string/slice n ind) (dictionary? ind) (do (var left n) (tabseq [[i x] :pairs ind :until (< (-- left) 0)] i x)) (do (def res @[]) (var key nil) (repeat n (if (= nil (set key (next ind key))) (break)) (array/push res (in ind key))) res)))" := rfl
/-- boot.janet take-until-slice -/
theorem boot_take_until_slice : LibSrc.boot_take_until_slice = "(defn- take-until-slice [f pred ind] (def len (length ind)) (def i (find-index pred ind)) (def end (if (nil? i) len i)) (f ind 0 end))" := rfl
/-- boot.janet take-until -/
theorem boot_take_until : LibSrc.boot_take_until = "(defn take-until [pred ind] (cond (indexed? ind) (take-until-slice tuple/slice pred ind) (bytes? ind) (take-until-slice string/slice pred ind) (dictionary? ind) (tabseq [[i x] :pairs ind :until (pred x)] i x) (seq [x :in ind :until (pred x)] x)))" := rfl
/-- boot.janet take-while -/
theorem boot_take_while : LibSrc.boot_take_while = "(defn take-while [pred ind] (take-until (complement pred) ind))" := rfl
/-- boot.janet drop-n-slice -/
theorem boot_drop_n_slice : LibSrc.boot_drop_n_slice = "(defn- drop-n-slice [f n ind] (def len (length ind)) (cond (<= 0 n len) (f ind n) (< (- len) n 0) (f ind 0 (+ len n)) (f ind len)))" := rfl
/-- boot.janet drop -/
theorem boot_drop : LibSrc.boot_drop = "(defn drop [n ind] (cond (indexed? ind) (drop-n-slice tuple/slice n ind) (bytes? ind) (drop-n-slice string/slice n ind) (struct? ind) (drop-n-dict struct/to-table n ind) (table? ind) (drop-n-dict table/clone n ind) (do (var key nil) (repeat n (if (= nil (set key (next ind key))) (break))) ind)))" := rfl
/-- boot.janet drop-until-slice -/
theorem boot_drop_until_slice : LibSrc.boot_drop_until_slice = "(defn- drop-until-slice [f pred ind] (def len (length ind)) (def i (find-index pred ind)) (def start (if (nil? i) len i)) (f ind start))" := rfl
/-- boot.janet drop-until -/
theorem boot_drop_until : LibSrc.boot_drop_until = "(defn drop-until [pred ind] (cond (indexed? ind) (drop-until-slice tuple/slice pred ind) (bytes? ind) (drop-until-slice string/slice pred ind) (struct? ind) (drop-until-dict struct/to-table pred ind) (table? ind) (drop-until-dict table/clone pred ind) (do (find pred ind) ind)))" := rfl
/-- boot.janet drop-while -/
theorem boot_drop_while : LibSrc.boot_drop_while = "(defn drop-while [pred ind] (drop-until (complement pred) ind))" := rfl
/-- boot.janet do-extreme -/
theorem boot_do_extreme : LibSrc.boot_do_extreme = "(defmacro- do-extreme [order args] ~(do (def ds ,args) (var k (next ds nil)) (var ret (get ds k)) (while (,not= nil (set k (next ds k))) (def x (in ds k)) (if (,order x ret) (set ret x))) ret))" := rfl
/-- boot.janet extreme -/
theorem boot_extreme : LibSrc.boot_extreme = "(defn extreme [order args] (do-extreme order args))" := rfl
/-- boot.janet max -/
theorem boot_max : LibSrc.boot_max = "(defn max [& args] (do-extreme > args))" := rfl
/-- boot.janet min -/
theorem boot_min : LibSrc.boot_min = "(defn min [& args] (do-extreme < args))" := rfl
/-- boot.janet max-of -/
theorem boot_max_of : LibSrc.boot_max_of = "(defn max-of [args] (do-extreme > args))" := rfl
/-- boot.janet min-of -/
theorem boot_min_of : LibSrc.boot_min_of = "(defn min-of [args] (do-extreme < args))" := rfl
/-- boot.janet sum -/
theorem boot_sum : LibSrc.boot_sum = "(defn sum [xs] (var accum 0) (each x xs (+= accum x)) accum)" := rfl
/-- boot.janet product -/
theorem boot_product : LibSrc.boot_product = "(defn product [xs] (var accum 1) (each x xs (*= accum x)) accum)" := rfl
/-- boot.janet reverse -/
theorem boot_reverse : LibSrc.boot_reverse = "(defn reverse [t] (if (lengthable? t) (do (var n (length t)) (def ret (if (bytes? t) (buffer/new-filled n) (array/new-filled n))) (each v t (put ret (-- n) v)) ret) (reverse! (seq [v :in t] v))))" := rfl
/-- boot.janet reverse! -/
theorem boot_reverse_bang : LibSrc.boot_reverse_bang = "(defn reverse! [t] (var i 0) (var j (length t)) (while (< i (-- j)) (def ti (in t i)) (put t i (in t j)) (put t j ti) (++ i)) t)" := rfl
/-- boot.janet zipcoll -/
theorem boot_zipcoll : LibSrc.boot_zipcoll = "(defn zipcoll [ks vs] (def res @{}) (var kk nil) (var vk nil) (while true (set kk (next ks kk)) (if (= nil kk) (break)) (set vk (next vs vk)) (if (= nil vk) (break)) (put res (in ks kk) (in vs vk))) res)" := rfl
/-- boot.janet distinct -/
theorem boot_distinct : LibSrc.boot_distinct = "(defn distinct [xs] (def ret @[]) (def seen @{}) (each x xs (if (in seen x) nil (do (put seen x true) (array/push ret x)))) ret)" := rfl
/-- boot.janet frequencies -/
theorem boot_frequencies : LibSrc.boot_frequencies = "(defn frequencies [ind] (def freqs @{}) (each x ind (def n (in freqs x)) (set (freqs x) (if n (+ 1 n) 1))) freqs)" := rfl
/-- boot.janet merge -/
theorem boot_merge : LibSrc.boot_merge = "(defn merge [& colls] (def container @{}) (loop [c :in colls key :keys c] (put container key (in c key))) container)" := rfl
/-- boot.janet merge-into -/
theorem boot_merge_into : LibSrc.boot_merge_into = "(defn merge-into [tab & colls] (loop [c :in colls key :keys c] (put tab key (in c key))) tab)" := rfl
/-- boot.janet interleave -/
theorem boot_interleave : LibSrc.boot_interleave = "(defn interleave [& cols] (mapcat tuple ;cols))" := rfl
/-- boot.janet interpose -/
theorem boot_interpose : LibSrc.boot_interpose = "(defn interpose [sep ind] (var k (next ind nil)) (if (not= nil k) (if (lengthable? ind) (do (def ret (array/new-filled (- (* 2 (length ind)) 1) sep)) (var i 0) (while (not= nil k) (put ret i (in ind k)) (set k (next ind k)) (+= i 2)) ret) (do (def ret @[(in ind k)]) (while (not= nil (set k (next ind k))) (array/push ret sep (in ind k))) ret)) @[]))" := rfl
/-- boot.janet partition-slice -/
theorem boot_partition_slice : LibSrc.boot_partition_slice = "(defn- partition-slice [f n ind] (var [start end] [0 n]) (def len (length ind)) (def parts (div len n)) (def ret (array/new-filled parts)) (forv k 0 parts (put ret k (f ind start end)) (set start end) (+= end n)) (if (< start len) (array/push ret (f ind start))) ret)" := rfl
/-- boot.janet partition -/
theorem boot_partition : LibSrc.boot_partition = "(defn partition [n ind] (cond (indexed? ind) (partition-slice tuple/slice n ind) (bytes? ind) (partition-slice string/slice n ind) (partition-slice tuple/slice n (values ind))))" := rfl
/-- boot.janet flatten-into -/
theorem boot_flatten_into : LibSrc.boot_flatten_into = "(defn flatten-into [into xs] (each x xs (if (indexed? x) (flatten-into into x) (array/push into x))) into)" := rfl
/-- boot.janet flatten -/
theorem boot_flatten : LibSrc.boot_flatten = "(defn flatten [xs] (flatten-into @[] xs))" := rfl
/-- boot.janet complement -/
theorem boot_complement : LibSrc.boot_complement = "(defn complement [f] (fn :complement [x] (not (f x))))" := rfl
/-- boot.janet keep -/
theorem boot_keep : LibSrc.boot_keep = "(defn keep [pred ind & inds] (def res @[]) (map-template :keep res pred ind inds) res)" := rfl
/-- boot.janet mapcat -/
theorem boot_mapcat : LibSrc.boot_mapcat = "(defn mapcat [f ind & inds] (def res @[]) (map-template :mapcat res f ind inds) res)" := rfl
/-- boot.janet group-by -/
theorem boot_group_by : LibSrc.boot_group_by = "(defn group-by [f ind] (def ret @{}) (each x ind (def y (f x)) (if-let [arr (get ret y)] (array/push arr x) (put ret y @[x]))) ret)" := rfl

end JanetModel.Lib.SrcTie

