import JanetModel.Lib.Boot11
/- C17 (session 4d): boot.janet `some` and `all` — map-template with an aggregator that itself executes `(break)`:

     :some ~(if (def y ,val) (do (set ,res y) (break)))
     :all  ~(if (def y ,val) nil (do (set ,res y) (break)))

     (defn some [pred ind & inds] (var res nil)  (map-template :some res pred ind inds) res)
     (defn all  [pred ind & inds] (var res true) (map-template :all  res pred ind inds) res)

   The aggregator's `(break)` is a statement of the body of `(each x ind …)` in every branch of map-template (branch 0, the
   `map-n` expansion, the general branch after `(if done (break))`), so it leaves that `each`.  The key-advancing statements,
   the argument fetch and the `forv` loop are the definitions of Lib/Boot11.lean, unchanged.  Core Lean only. -/
namespace JanetModel.Lib.Boot
open JanetModel.Lib JanetModel.Lib.JIter

/-- `(if (def y val) (do (set res y) (break)))`: new `res`, and whether `(break)` ran -/
def someAgg {γ : Type} (truthy : γ → Bool) (res val : γ) : γ × Bool :=
  if truthy val then (val, true) else (res, false)

/-- `(if (def y val) nil (do (set res y) (break)))` -/
def allAgg {γ : Type} (truthy : γ → Bool) (res val : γ) : γ × Bool :=
  if truthy val then (res, false) else (val, true)

/-- branch `0` of map-template: `(each x ind (map-aggregator maptype res (f x)))` -/
def map0B {α β γ σ : Type} (agg : σ → γ → σ × Bool) (f : α → List β → γ) (init : σ) (ind : List α) : R σ :=
  each ind (fun _ x (res : σ) => .ok (agg res (f x []))) init

/-- the body of the `each` of `map-n n` with a breaking aggregator -/
def mapNBBody {α β γ σ : Type} (agg : σ → γ → σ × Bool) (f : α → List β → γ) (inds : List (List β)) (_ : Nat) (x : α)
    (st : σ × List (Option Nat)) : R ((σ × List (Option Nat)) × Bool) :=
  match advanceKeys inds st.2 with
  | none => .ok (st, true)                                             -- (break) of a key statement
  | some ks =>
    match fetchRow inds ks with
    | .ok row =>
      let r := agg st.1 (f x row)                                      -- (map-aggregator maptype res (f x …))
      .ok ((r.1, ks.map some), r.2)                                    -- its (break), if any
    | .panic => .panic
    | .ub => .ub

def mapNB {α β γ σ : Type} (agg : σ → γ → σ × Bool) (f : α → List β → γ) (init : σ) (ind : List α) (inds : List (List β)) : R σ := do
  let st ← each ind (mapNBBody agg f inds) (init, inds.map (fun _ => none))
  pure st.1

/-- the body of the `each` of the general branch with a breaking aggregator -/
def mapGenBBody {α β γ σ : Type} (agg : σ → γ → σ × Bool) (f : α → List β → γ) (inds : Array (List β)) (_ : Nat) (x : α)
    (st : GenSt β σ) : R (GenSt β σ × Bool) :=
  match fillCallBuffer inds inds.size 0 st.iterKeys st.callBuffer with
  | .ok (ik, cb, done) =>
    if done then .ok ({ st with iterKeys := ik, callBuffer := cb, done := true }, true)     -- (if done (break))
    else
      let r := agg st.res (f x (cb.toList.filterMap id))               -- (map-aggregator maptype res (f x ;call-buffer))
      .ok ({ res := r.1, iterKeys := ik, callBuffer := cb, done := false }, r.2)
  | .panic => .panic
  | .ub => .ub

def mapGenB {α β γ σ : Type} (agg : σ → γ → σ × Bool) (f : α → List β → γ) (init : σ) (ind : List α) (inds : List (List β)) : R σ := do
  let n := inds.length
  let st ← each ind (mapGenBBody agg f inds.toArray)
    { res := init, iterKeys := Array.replicate n none, callBuffer := Array.replicate n none, done := false }
  pure st.res

/-- `(case ninds 0 … 1 (map-n 1 …) 2 (map-n 2 …) 3 (map-n 3 …) (do …))` -/
def mapTemplateB {α β γ σ : Type} (agg : σ → γ → σ × Bool) (f : α → List β → γ) (init : σ) (ind : List α) (inds : List (List β)) : R σ :=
  match inds.length with
  | 0 => map0B agg f init ind
  | 1 => mapNB agg f init ind inds
  | 2 => mapNB agg f init ind inds
  | 3 => mapNB agg f init ind inds
  | _ => mapGenB agg f init ind inds

/-- `(some pred ind ;inds)`; `nilv` is the value nil, `pred x row` the result of `(pred x ;row)` -/
def someOf {α β γ : Type} (truthy : γ → Bool) (nilv : γ) (pred : α → List β → γ) (ind : List α) (inds : List (List β)) : R γ :=
  mapTemplateB (someAgg truthy) pred nilv ind inds

/-- `(all pred ind ;inds)`; `truev` is the value true -/
def allOf {α β γ : Type} (truthy : γ → Bool) (truev : γ) (pred : α → List β → γ) (ind : List α) (inds : List (List β)) : R γ :=
  mapTemplateB (allAgg truthy) pred truev ind inds

/-! ## reference definitions -/

/-- the results `(f x_j ;row_j)` for the rows `j` below the length of the shortest sequence, in order -/
def rowVals {α β γ : Type} (f : α → List β → γ) (ind : List α) (inds : List (List β)) : List γ :=
  let m := (inds.map List.length).foldl min ind.length
  (List.range m).filterMap (fun j => ind[j]?.map (fun x => f x (inds.filterMap (fun c => c[j]?))))

/-- a left fold that stops after the first step that says so -/
def foldB {γ σ : Type} (agg : σ → γ → σ × Bool) : σ → List γ → σ
  | s, [] => s
  | s, v :: vs => if (agg s v).2 then (agg s v).1 else foldB agg (agg s v).1 vs

/-- reference definition of `some`: the first truthy result, nil when there is none (or a sequence is empty) -/
def someSpec {α β γ : Type} (truthy : γ → Bool) (nilv : γ) (pred : α → List β → γ) (ind : List α) (inds : List (List β)) : γ :=
  ((rowVals pred ind inds).find? truthy).getD nilv

/-- reference definition of `all`: the first falsey result, true when there is none (or a sequence is empty) -/
def allSpec {α β γ : Type} (truthy : γ → Bool) (truev : γ) (pred : α → List β → γ) (ind : List α) (inds : List (List β)) : γ :=
  ((rowVals pred ind inds).find? (fun v => !truthy v)).getD truev

end JanetModel.Lib.Boot
