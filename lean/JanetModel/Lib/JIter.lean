import JanetModel.Lib.C32
/- C17: the two primitives through which every boot.janet sequence function walks an indexed / bytes value, shared by the
   boot.janet mirrors (Lib/BootA.lean, Lib/BootB.lean).  Core Lean only.

   boot.janet `each-template` expands `(each x ds body…)` to

       (var k (next ds nil))
       (while (not= nil k)
         (def x (in ds k))
         body…
         (set k (next ds k)))

   and value.c `janet_next_impl` on string / buffer / array / tuple is

       if (key is nil) i = 0; else if (janet_checkint(key)) i = unwrap(key) + 1; else break;
       if (i < len && i >= 0) return i;   /* else nil */
-/
namespace JanetModel.Lib.JIter
open JanetModel.Lib

/-- `(next ds key)` on an indexed / bytes value of length `len`; keys are `none` (nil) or an index. -/
def nextKey (len : Nat) : Option Nat → Option Nat
  | none => if 0 < len then some 0 else none
  | some k => if k + 1 < len then some (k + 1) else none

/-- `(in ds k)` on an indexed value: raises for an index outside `[0, len)`. -/
def inIdx {α : Type} (l : List α) (k : Nat) : R α :=
  match l[k]? with
  | some x => .ok x
  | none => .panic

/-- `(get ds k)` on an indexed value: nil (none) for an index outside `[0, len)`. -/
def getIdx {α : Type} (l : List α) (k : Nat) : Option α := l[k]?

theorem nextKey_none (len : Nat) : nextKey len none = if 0 < len then some 0 else none := rfl
theorem nextKey_some (len k : Nat) : nextKey len (some k) = if k + 1 < len then some (k + 1) else none := rfl

/-- a key produced by `next` is a valid index, so the `(in ds k)` that follows never raises -/
theorem inIdx_of_lt {α : Type} (l : List α) (k : Nat) (h : k < l.length) : inIdx l k = .ok l[k] := by
  simp [inIdx, List.getElem?_eq_getElem h]

end JanetModel.Lib.JIter
