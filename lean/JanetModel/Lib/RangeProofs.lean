/- C17: `range` — element count formula, membership, and never-abort. -/
import JanetModel.Lib.Range
namespace JanetModel.Lib.Range
open JanetModel.Lib JanetModel.Gen.Lib

theorem ceilDiv_pos_spec (x y : Int) (hy : 0 < y) : ceilDiv x y * y - y < x ∧ x ≤ ceilDiv x y * y := by
  unfold ceilDiv
  rw [if_pos hy]
  have h1 := Int.mul_ediv_add_emod (x + y - 1) y
  have h2 := Int.emod_nonneg (x + y - 1) (by omega : y ≠ 0)
  have h3 := Int.emod_lt_of_pos (x + y - 1) hy
  have e2 : (x + y - 1) / y * y = y * ((x + y - 1) / y) := Int.mul_comm _ _
  omega

theorem ceilDiv_neg (x y : Int) (hy : y < 0) : ceilDiv x y = ceilDiv (-x) (-y) := by
  unfold ceilDiv
  rw [if_neg (by omega), if_pos (by omega)]

/-- in exact arithmetic the correcting loop never has anything to correct -/
theorem bump_id_pos (start stop step : Int) (fuel : Nat) (c : Int) (hs : 0 < step) (hc : start + c * step ≥ stop) :
    bump start stop step fuel c = c := by
  cases fuel with
  | zero => rfl
  | succ n =>
    unfold bump
    rw [if_neg (by omega)]

theorem bump_id_neg (start stop step : Int) (fuel : Nat) (c : Int) (hs : step < 0) (hc : start + c * step ≤ stop) :
    bump start stop step fuel c = c := by
  cases fuel with
  | zero => rfl
  | succ n =>
    unfold bump
    rw [if_neg (by omega)]

theorem bump_id_zero (start stop : Int) (fuel : Nat) (c : Int) : bump start stop 0 fuel c = c := by
  cases fuel with
  | zero => rfl
  | succ n =>
    unfold bump
    rw [if_neg (by omega)]

/-- the clipped count covers the range: `start + count*step` is not before `stop` (this is the C's assertion) -/
theorem count_covers_pos (start stop step : Int) (hs : 0 < step) (c0 : Int)
    (hc0 : c0 = if ceilDiv (stop - start) step > 0 then ceilDiv (stop - start) step else 0) :
    start + c0 * step ≥ stop ∧ (c0 > 0 → start + (c0 * step - step) < stop) := by
  obtain ⟨h1, h2⟩ := ceilDiv_pos_spec (stop - start) step hs
  by_cases hc : ceilDiv (stop - start) step > 0
  · rw [if_pos hc] at hc0
    subst hc0
    exact ⟨by omega, fun _ => by omega⟩
  · rw [if_neg hc] at hc0
    subst hc0
    have hle : ceilDiv (stop - start) step ≤ 0 := by omega
    have : ceilDiv (stop - start) step * step ≤ 0 := Int.mul_nonpos_of_nonpos_of_nonneg hle (by omega)
    exact ⟨by omega, fun h => by omega⟩

theorem count_covers_neg (start stop step : Int) (hs : step < 0) (c0 : Int)
    (hc0 : c0 = if ceilDiv (stop - start) step > 0 then ceilDiv (stop - start) step else 0) :
    start + c0 * step ≤ stop ∧ (c0 > 0 → start + (c0 * step - step) > stop) := by
  have hcd : ceilDiv (stop - start) step = ceilDiv (-(stop - start)) (-step) := ceilDiv_neg _ _ hs
  obtain ⟨h1, h2⟩ := ceilDiv_pos_spec (-(stop - start)) (-step) (by omega)
  rw [← hcd] at h1 h2
  have e1 : ceilDiv (stop - start) step * -step = -(ceilDiv (stop - start) step * step) := Int.mul_neg _ _
  by_cases hc : ceilDiv (stop - start) step > 0
  · rw [if_pos hc] at hc0
    subst hc0
    exact ⟨by omega, fun _ => by omega⟩
  · rw [if_neg hc] at hc0
    subst hc0
    have hle : ceilDiv (stop - start) step ≤ 0 := by omega
    have : 0 ≤ ceilDiv (stop - start) step * step := Int.mul_nonneg_of_nonpos_of_nonpos hle (by omega)
    exact ⟨by omega, fun h => by omega⟩

/-- ★ never-abort + count formula + membership for the code of the current tree (the two Gen facts are `false` / `true`
    after the fix; with the old facts this theorem does not check — see `rangeCOld_aborts`). -/
theorem rangeC_spec (start stop step : Int) :
    ∃ l, rangeC start stop step = some l ∧
      (step > 0 → (l.length : Int) = (if ceilDiv (stop - start) step > 0 then ceilDiv (stop - start) step else 0)) ∧
      (step < 0 → (l.length : Int) = (if ceilDiv (stop - start) step > 0 then ceilDiv (stop - start) step else 0)) ∧
      (step = 0 → l = []) ∧
      (∀ i (h : i < l.length), l[i] = start + (i : Int) * step) ∧
      (step > 0 → (∀ x ∈ l, start ≤ x ∧ x < stop) ∧ start + (l.length : Int) * step ≥ stop) ∧
      (step < 0 → (∀ x ∈ l, stop < x ∧ x ≤ start) ∧ start + (l.length : Int) * step ≤ stop) := by
  unfold rangeC
  simp only [rangePostAssert, rangeBump, if_true, Bool.false_eq_true, if_false]
  rcases Int.lt_trichotomy step 0 with hs | hs | hs
  · -- negative step
    simp only [if_neg (by omega : ¬ step > 0), if_pos hs]
    generalize hc0 : (if ceilDiv (stop - start) step > 0 then ceilDiv (stop - start) step else 0) = c0
    have hcov := count_covers_neg start stop step hs c0 hc0.symm
    have hc0nn : 0 ≤ c0 := by rw [← hc0]; split <;> omega
    rw [bump_id_neg _ _ _ _ _ hs hcov.1]
    refine ⟨_, rfl, fun h => by omega, fun _ => by simp; omega, fun h => by omega, fun i h => by simp, fun h => by omega, fun _ => ?_⟩
    refine ⟨fun x hx => ?_, by simp; rw [Int.max_eq_left hc0nn]; exact hcov.1⟩
    simp only [List.mem_map, List.mem_range] at hx
    obtain ⟨i, hi, rfl⟩ := hx
    have hi' : (i : Int) ≤ c0 - 1 := by omega
    have h1 : (c0 - 1) * step ≤ (i : Int) * step := Int.mul_le_mul_of_nonpos_right hi' (by omega)
    rw [Int.sub_mul, Int.one_mul] at h1
    have h2 : (i : Int) * step ≤ 0 := Int.mul_nonpos_of_nonneg_of_nonpos (by omega) (by omega)
    have := hcov.2 (by omega)
    omega
  · subst hs
    simp only [if_neg (by omega : ¬ (0 : Int) > 0)]
    rw [bump_id_zero]
    refine ⟨_, rfl, fun h => by omega, fun h => by omega, fun _ => by simp, fun i h => by simp at h, fun h => by omega, fun h => by omega⟩
  · simp only [if_pos hs]
    generalize hc0 : (if ceilDiv (stop - start) step > 0 then ceilDiv (stop - start) step else 0) = c0
    have hcov := count_covers_pos start stop step hs c0 hc0.symm
    have hc0nn : 0 ≤ c0 := by rw [← hc0]; split <;> omega
    rw [bump_id_pos _ _ _ _ _ hs hcov.1]
    refine ⟨_, rfl, fun _ => by simp; omega, fun h => by omega, fun h => by omega, fun i h => by simp, fun _ => ?_, fun h => by omega⟩
    refine ⟨fun x hx => ?_, by simp; rw [Int.max_eq_left hc0nn]; exact hcov.1⟩
    simp only [List.mem_map, List.mem_range] at hx
    obtain ⟨i, hi, rfl⟩ := hx
    have hi' : (i : Int) ≤ c0 - 1 := by omega
    have h1 : (i : Int) * step ≤ (c0 - 1) * step := Int.mul_le_mul_of_nonneg_right hi' (by omega)
    rw [Int.sub_mul, Int.one_mul] at h1
    have h2 : 0 ≤ (i : Int) * step := Int.mul_nonneg (by omega) (by omega)
    have := hcov.2 (by omega)
    omega

/-- the defect of the pinned tree, in exact arithmetic: a zero step with `start > stop` trips the assertion -/
theorem rangeCOld_aborts : rangeCOld 1 0 0 = none := by decide

end JanetModel.Lib.Range
