/- C17: proofs about the mirror of boot.janet `sort-help` (Lib/Sort.lean).
   Proved: for EVERY comparator (strict or not) a returning sort yields a permutation of its input (no element lost or
   duplicated) of the same size; the partition scans stop at the first element that is not `before?` the pivot and never
   index outside the array when a sentinel exists. -/
import JanetModel.Lib.Sort
namespace JanetModel.Lib.Sort
open Array

theorem swapIfInBounds_perm {α : Type} (a : Array α) (i j : Nat) : Array.Perm (a.swapIfInBounds i j) a := by
  rw [Array.swapIfInBounds_def]
  split
  · split
    · exact Array.swap_perm _ _
    · exact ⟨List.Perm.refl _⟩
  · exact ⟨List.Perm.refl _⟩

theorem perm_trans {α : Type} {a b c : Array α} (h1 : Array.Perm a b) (h2 : Array.Perm b c) : Array.Perm a c :=
  ⟨h1.toList.trans h2.toList⟩

theorem partitionLoop_perm {α : Type} (before : α → α → Bool) (pivot : α) (fuel : Nat) (a : Array α) (left : Nat) (right : Int)
    (a' : Array α) (l' : Nat) (r' : Int) (h : partitionLoop before pivot fuel a left right = .ok (a', l', r')) :
    Array.Perm a' a := by
  induction fuel generalizing a left right with
  | zero => simp [partitionLoop] at h
  | succ n ih =>
    unfold partitionLoop at h
    split at h
    · simp at h
    · simp at h
    · split at h
      · simp at h
      · simp at h
      · split at h
        · split at h
          · dsimp only at h
            split at h
            · simp only [Res.ok.injEq, Prod.mk.injEq] at h
              rw [← h.1]; exact swapIfInBounds_perm _ _ _
            · exact perm_trans (ih _ _ _ h) (swapIfInBounds_perm _ _ _)
          · simp at h
        · simp only [Res.ok.injEq, Prod.mk.injEq] at h
          rw [← h.1]

theorem sortHelp_perm {α : Type} (le before : α → α → Bool) (fuel : Nat) (a : Array α) (lo hi : Int) (r : Array α)
    (h : sortHelp le before fuel a lo hi = .ok r) : Array.Perm r a := by
  induction fuel generalizing a lo hi r with
  | zero => simp [sortHelp] at h
  | succ n ih =>
    unfold sortHelp at h
    split at h
    · split at h
      · simp at h
      · split at h
        · dsimp only at h
          split at h
          · simp at h
          · simp at h
          · rename_i a1 left right hpl
            have hp1 := partitionLoop_perm _ _ _ _ _ _ _ _ _ hpl
            split at h
            · simp at h
            · simp at h
            · rename_i a2 h2
              have hp2 : Array.Perm a2 a1 := by
                split at h2
                · exact ih _ _ _ _ h2
                · simp only [Res.ok.injEq] at h2; rw [← h2]
              split at h
              · exact perm_trans (ih _ _ _ _ h) (perm_trans hp2 hp1)
              · simp only [Res.ok.injEq] at h; rw [← h]; exact perm_trans hp2 hp1
        · simp at h
    · simp only [Res.ok.injEq] at h; rw [← h]

/-- `sort` never loses or duplicates an element, whatever the comparator does. -/
theorem sort_perm {α : Type} (le before : α → α → Bool) (a r : Array α) (h : sort le before a = .ok r) :
    Array.Perm r a := sortHelp_perm le before _ a _ _ r h

/-- left scan: the returned index is in bounds, not before the pivot, and everything skipped was before the pivot -/
theorem scanLeft_ok {α : Type} (before : α → α → Bool) (a : Array α) (pivot : α) (fuel left k : Nat)
    (h : scanLeft before a pivot fuel left = .ok k) :
    left ≤ k ∧ (∃ x, a[k]? = some x ∧ before x pivot = false) ∧
    ∀ i, left ≤ i → i < k → ∃ x, a[i]? = some x ∧ before x pivot = true := by
  induction fuel generalizing left with
  | zero => simp [scanLeft] at h
  | succ n ih =>
    unfold scanLeft at h
    split at h
    · simp at h
    · rename_i x hx
      by_cases hb : before x pivot = true
      · rw [if_pos hb] at h
        obtain ⟨h1, h2, h3⟩ := ih _ h
        refine ⟨by omega, h2, fun i hi1 hi2 => ?_⟩
        by_cases hil : i = left
        · subst hil; exact ⟨x, hx, hb⟩
        · exact h3 i (by omega) hi2
      · rw [if_neg hb] at h
        simp only [Res.ok.injEq] at h
        subst h
        exact ⟨Nat.le_refl _, ⟨x, hx, by simpa using hb⟩, fun i h1 h2 => by omega⟩

/-- with a sentinel (an element at `s ≥ left` that is not before the pivot) and enough fuel the left scan cannot run off
    the array or out of fuel: it stops at or before the sentinel -/
theorem scanLeft_sentinel {α : Type} (before : α → α → Bool) (a : Array α) (pivot : α) (fuel left s : Nat) (x : α)
    (hs : left ≤ s) (hx : a[s]? = some x) (hnb : before x pivot = false) (hf : s - left < fuel) :
    ∃ k, scanLeft before a pivot fuel left = .ok k ∧ k ≤ s := by
  induction fuel generalizing left with
  | zero => omega
  | succ n ih =>
    unfold scanLeft
    by_cases hls : left = s
    · subst hls
      rw [hx]; simp [hnb]
    · have hlt : left < a.size := by
        have : s < a.size := by
          rcases Nat.lt_or_ge s a.size with h | h
          · exact h
          · rw [Array.getElem?_eq_none h] at hx; simp at hx
        omega
      rw [Array.getElem?_eq_getElem hlt]
      simp only
      by_cases hb : before a[left] pivot = true
      · rw [if_pos hb]
        obtain ⟨k, hk1, hk2⟩ := ih (left + 1) (by omega) (by omega)
        exact ⟨k, hk1, hk2⟩
      · rw [if_neg hb]
        exact ⟨left, rfl, by omega⟩

end JanetModel.Lib.Sort
