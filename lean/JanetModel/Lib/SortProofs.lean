/- C17: proofs about the mirror of boot.janet `sort-help` (Lib/Sort.lean).
   Proved: for EVERY comparator (strict or not) a returning sort yields a permutation of its input (no element lost or
   duplicated) of the same size; the partition scans stop at the first element that is not `before?` the pivot and never
   index outside the array when a sentinel exists. -/
import JanetModel.Lib.Sort
namespace JanetModel.Lib.Sort
open Array

theorem swapIfInBounds_perm {α : Type} (a : Array α) (i j : Nat) : Array.Perm (a.swapIfInBounds i j) a := by
  rw [Array.swapIfInBounds_def]
  split
  · split
    · exact Array.swap_perm _ _
    · exact ⟨List.Perm.refl _⟩
  · exact ⟨List.Perm.refl _⟩

theorem perm_trans {α : Type} {a b c : Array α} (h1 : Array.Perm a b) (h2 : Array.Perm b c) : Array.Perm a c :=
  ⟨h1.toList.trans h2.toList⟩

theorem partitionLoop_perm {α : Type} (before : α → α → Bool) (pivot : α) (fuel : Nat) (a : Array α) (left : Nat) (right : Int)
    (a' : Array α) (l' : Nat) (r' : Int) (h : partitionLoop before pivot fuel a left right = .ok (a', l', r')) :
    Array.Perm a' a := by
  induction fuel generalizing a left right with
  | zero => simp [partitionLoop] at h
  | succ n ih =>
    unfold partitionLoop at h
    split at h
    · simp at h
    · simp at h
    · split at h
      · simp at h
      · simp at h
      · split at h
        · split at h
          · dsimp only at h
            split at h
            · simp only [Res.ok.injEq, Prod.mk.injEq] at h
              rw [← h.1]; exact swapIfInBounds_perm _ _ _
            · exact perm_trans (ih _ _ _ h) (swapIfInBounds_perm _ _ _)
          · simp at h
        · simp only [Res.ok.injEq, Prod.mk.injEq] at h
          rw [← h.1]

theorem sortHelp_perm {α : Type} (le before : α → α → Bool) (fuel : Nat) (a : Array α) (lo hi : Int) (r : Array α)
    (h : sortHelp le before fuel a lo hi = .ok r) : Array.Perm r a := by
  induction fuel generalizing a lo hi r with
  | zero => simp [sortHelp] at h
  | succ n ih =>
    unfold sortHelp at h
    split at h
    · split at h
      · simp at h
      · split at h
        · dsimp only at h
          split at h
          · simp at h
          · simp at h
          · rename_i a1 left right hpl
            have hp1 := partitionLoop_perm _ _ _ _ _ _ _ _ _ hpl
            split at h
            · simp at h
            · simp at h
            · rename_i a2 h2
              have hp2 : Array.Perm a2 a1 := by
                split at h2
                · exact ih _ _ _ _ h2
                · simp only [Res.ok.injEq] at h2; rw [← h2]
              split at h
              · exact perm_trans (ih _ _ _ _ h) (perm_trans hp2 hp1)
              · simp only [Res.ok.injEq] at h; rw [← h]; exact perm_trans hp2 hp1
        · simp at h
    · simp only [Res.ok.injEq] at h; rw [← h]

/-- `sort` never loses or duplicates an element, whatever the comparator does. -/
theorem sort_perm {α : Type} (le before : α → α → Bool) (a r : Array α) (h : sort le before a = .ok r) :
    Array.Perm r a := sortHelp_perm le before _ a _ _ r h

/-- left scan: the returned index is in bounds, not before the pivot, and everything skipped was before the pivot -/
theorem scanLeft_ok {α : Type} (before : α → α → Bool) (a : Array α) (pivot : α) (fuel left k : Nat)
    (h : scanLeft before a pivot fuel left = .ok k) :
    left ≤ k ∧ (∃ x, a[k]? = some x ∧ before x pivot = false) ∧
    ∀ i, left ≤ i → i < k → ∃ x, a[i]? = some x ∧ before x pivot = true := by
  induction fuel generalizing left with
  | zero => simp [scanLeft] at h
  | succ n ih =>
    unfold scanLeft at h
    split at h
    · simp at h
    · rename_i x hx
      by_cases hb : before x pivot = true
      · rw [if_pos hb] at h
        obtain ⟨h1, h2, h3⟩ := ih _ h
        refine ⟨by omega, h2, fun i hi1 hi2 => ?_⟩
        by_cases hil : i = left
        · subst hil; exact ⟨x, hx, hb⟩
        · exact h3 i (by omega) hi2
      · rw [if_neg hb] at h
        simp only [Res.ok.injEq] at h
        subst h
        exact ⟨Nat.le_refl _, ⟨x, hx, by simpa using hb⟩, fun i h1 h2 => by omega⟩

/-- with a sentinel (an element at `s ≥ left` that is not before the pivot) and enough fuel the left scan cannot run off
    the array or out of fuel: it stops at or before the sentinel -/
theorem scanLeft_sentinel {α : Type} (before : α → α → Bool) (a : Array α) (pivot : α) (fuel left s : Nat) (x : α)
    (hs : left ≤ s) (hx : a[s]? = some x) (hnb : before x pivot = false) (hf : s - left < fuel) :
    ∃ k, scanLeft before a pivot fuel left = .ok k ∧ k ≤ s := by
  induction fuel generalizing left with
  | zero => omega
  | succ n ih =>
    unfold scanLeft
    by_cases hls : left = s
    · subst hls
      rw [hx]; simp [hnb]
    · have hlt : left < a.size := by
        have : s < a.size := by
          rcases Nat.lt_or_ge s a.size with h | h
          · exact h
          · rw [Array.getElem?_eq_none h] at hx; simp at hx
        omega
      rw [Array.getElem?_eq_getElem hlt]
      simp only
      by_cases hb : before a[left] pivot = true
      · rw [if_pos hb]
        obtain ⟨k, hk1, hk2⟩ := ih (left + 1) (by omega) (by omega)
        exact ⟨k, hk1, hk2⟩
      · rw [if_neg hb]
        exact ⟨left, rfl, by omega⟩

/-- strict weak order on the values, as a Bool-valued `before?` -/
structure SWO {α : Type} (before : α → α → Bool) : Prop where
  irr : ∀ x, before x x = false
  asym : ∀ x y, before x y = true → before y x = false
  negtrans : ∀ x y z, before x y = false → before y z = false → before x z = false

theorem swap_getElem? {α : Type} (a : Array α) (i j k : Nat) (hi : i < a.size) (hj : j < a.size) :
    (a.swapIfInBounds i j)[k]? = if j = k then a[i]? else if i = k then a[j]? else a[k]? := by
  rw [Array.swapIfInBounds_def, dif_pos hi, dif_pos hj, Array.getElem?_swap]
  simp [Array.getElem?_eq_getElem hi, Array.getElem?_eq_getElem hj]

theorem lt_size_of_getElem? {α : Type} {a : Array α} {k : Nat} {x : α} (h : a[k]? = some x) : k < a.size := by
  rcases Nat.lt_or_ge k a.size with h' | h'
  · exact h'
  · rw [Array.getElem?_eq_none h'] at h; simp at h

/-- right scan: the returned index is in bounds, the pivot is not before it, and the pivot is before everything skipped -/
theorem scanRight_ok {α : Type} (before : α → α → Bool) (a : Array α) (pivot : α) (fuel : Nat) (right k : Int)
    (h : scanRight before a pivot fuel right = .ok k) :
    k ≤ right ∧ 0 ≤ k ∧ (∃ x, a[k.toNat]? = some x ∧ before pivot x = false) ∧
    ∀ i : Int, k < i → i ≤ right → ∃ x, a[i.toNat]? = some x ∧ before pivot x = true := by
  induction fuel generalizing right with
  | zero => simp [scanRight] at h
  | succ n ih =>
    unfold scanRight at h
    by_cases hneg : right < 0
    · rw [if_pos hneg] at h; simp at h
    · rw [if_neg hneg] at h
      split at h
      · simp at h
      · rename_i x hx
        by_cases hb : before pivot x = true
        · rw [if_pos hb] at h
          obtain ⟨h1, h2, h3, h4⟩ := ih _ h
          refine ⟨by omega, h2, h3, fun i hi1 hi2 => ?_⟩
          by_cases hir : i = right
          · subst hir; exact ⟨x, hx, hb⟩
          · exact h4 i hi1 (by omega)
        · rw [if_neg hb] at h
          simp only [Res.ok.injEq] at h
          subst h
          exact ⟨Int.le_refl _, by omega, ⟨x, hx, by simpa using hb⟩, fun i h1 h2 => by omega⟩

theorem scanRight_sentinel {α : Type} (before : α → α → Bool) (a : Array α) (pivot : α) (fuel : Nat) (right s : Int) (x : α)
    (hs0 : 0 ≤ s) (hs : s ≤ right) (hr : right < a.size) (hx : a[s.toNat]? = some x) (hnb : before pivot x = false)
    (hf : (right - s).toNat < fuel) :
    ∃ k, scanRight before a pivot fuel right = .ok k ∧ s ≤ k := by
  induction fuel generalizing right with
  | zero => omega
  | succ n ih =>
    unfold scanRight
    rw [if_neg (by omega)]
    by_cases hrs : right = s
    · subst hrs
      rw [hx]; simp [hnb]
    · have hlt : right.toNat < a.size := by omega
      rw [Array.getElem?_eq_getElem hlt]
      simp only
      by_cases hb : before pivot a[right.toNat] = true
      · rw [if_pos hb]
        obtain ⟨k, hk1, hk2⟩ := ih (right - 1) (by omega) (by omega) (by omega)
        exact ⟨k, hk1, hk2⟩
      · rw [if_neg hb]
        exact ⟨right, rfl, by omega⟩

/-- invariant of the `(while true …)` loop of sort-help on the range `[lo, hi]` -/
structure PInv {α : Type} (before : α → α → Bool) (pivot : α) (lo hi : Nat) (a : Array α) (left : Nat) (right : Int) : Prop where
  hlo : lo ≤ left
  hhi : right ≤ hi
  hsz : hi < a.size
  small : ∀ k x, lo ≤ k → k < left → a[k]? = some x → before pivot x = false        -- a[k] ≤ pivot
  large : ∀ (k : Nat) x, right < (k : Int) → k ≤ hi → a[k]? = some x → before x pivot = false  -- a[k] ≥ pivot
  sl : ∃ s x, left ≤ s ∧ s ≤ hi ∧ a[s]? = some x ∧ before x pivot = false
  sr : ∃ (s : Nat) (x : α), lo ≤ s ∧ (s : Int) ≤ right ∧ a[s]? = some x ∧ before pivot x = false
  prog : (lo < left ∧ right < hi) ∨ ∃ (p : Nat) (x : α), left ≤ p ∧ (p : Int) ≤ right ∧ a[p]? = some x ∧ before x pivot = false ∧ before pivot x = false

/-- what the partition loop establishes -/
structure PPost {α : Type} (before : α → α → Bool) (pivot : α) (lo hi : Nat) (a a' : Array α) (l' : Nat) (r' : Int) : Prop where
  size : a'.size = a.size
  frame : ∀ k, k < lo ∨ hi < k → a'[k]? = a[k]?
  small : ∀ k x, lo ≤ k → k < l' → a'[k]? = some x → before pivot x = false
  large : ∀ (k : Nat) x, r' < (k : Int) → k ≤ hi → a'[k]? = some x → before x pivot = false
  cross : r' ≤ (l' : Int)
  lprog : lo < l'
  rprog : r' < hi
  lbound : l' ≤ hi + 1
  rbound : (lo : Int) - 1 ≤ r'

/-- ☆ partition step for a strict weak order: from the invariant the loop of the model terminates within its fuel, never
    indexes outside `[lo, hi]`, only permutes inside `[lo, hi]`, and returns `left' > lo`, `right' < hi`, `right' ≤ left'`
    with everything left of `left'` not after the pivot and everything right of `right'` not before it. -/
theorem partitionLoop_spec {α : Type} (before : α → α → Bool) (hswo : SWO before) (pivot : α) (lo hi : Nat)
    (fuel : Nat) (a : Array α) (left : Nat) (right : Int)
    (hinv : PInv before pivot lo hi a left right) (hf : (right - left).toNat + 2 ≤ 2 * fuel) :
    ∃ a' l' r', partitionLoop before pivot fuel a left right = .ok (a', l', r') ∧ PPost before pivot lo hi a a' l' r' := by
  induction fuel generalizing a left right with
  | zero =>
    -- fuel 0 is only possible when the range is already crossed, which contradicts the sentinels
    exfalso
    obtain ⟨s, x, h1, h2, _, _⟩ := hinv.sl
    obtain ⟨s', x', h1', h2', _, _⟩ := hinv.sr
    rcases hinv.prog with ⟨_, _⟩ | ⟨p, _, hp1, hp2, _⟩
    · omega
    · omega
  | succ n ih =>
    unfold partitionLoop
    obtain ⟨s, xs, hs1, hs2, hs3, hs4⟩ := hinv.sl
    have hssz := lt_size_of_getElem? hs3
    obtain ⟨left1, hl, hls⟩ := scanLeft_sentinel before a pivot (a.size + 1) left s xs hs1 hs3 hs4 (by omega)
    obtain ⟨hl1, ⟨xl, hxl, hxlb⟩, hl3⟩ := scanLeft_ok before a pivot _ left left1 hl
    rw [hl]
    simp only
    obtain ⟨t, xt, ht1, ht2, ht3, ht4⟩ := hinv.sr
    have hhsz := hinv.hsz
    have hlo := hinv.hlo
    have hrr := hinv.hhi
    obtain ⟨right1, hr, hrs⟩ := scanRight_sentinel before a pivot (a.size + 1) right t xt (by omega) ht2 (by omega)
      (by simpa using ht3) ht4 (by omega)
    obtain ⟨hr1, hr0, ⟨xr, hxr, hxrb⟩, hr3⟩ := scanRight_ok before a pivot _ right right1 hr
    rw [hr]
    simp only
    have hl1sz := lt_size_of_getElem? hxl
    have hr1sz := lt_size_of_getElem? hxr
    -- facts after the two scans
    have small1 : ∀ k x, lo ≤ k → k < left1 → a[k]? = some x → before pivot x = false := fun k x h1 h2 h3 => by
      by_cases hk : k < left
      · exact hinv.small k x h1 hk h3
      · obtain ⟨y, hy, hyb⟩ := hl3 k (by omega) h2
        rw [h3] at hy; simp only [Option.some.injEq] at hy; subst hy
        exact hswo.asym _ _ hyb
    have large1 : ∀ (k : Nat) x, right1 < (k : Int) → k ≤ hi → a[k]? = some x → before x pivot = false := fun k x h1 h2 h3 => by
      by_cases hk : right < (k : Int)
      · exact hinv.large k x hk h2 h3
      · obtain ⟨y, hy, hyb⟩ := hr3 k h1 (by omega)
        simp only [Int.toNat_natCast] at hy
        rw [h3] at hy; simp only [Option.some.injEq] at hy; subst hy
        exact hswo.asym _ _ hyb
    by_cases hle : (left1 : Int) ≤ right1
    · rw [if_pos hle, hxl, hxr]
      simp only
      have hsw := swap_getElem? a left1 right1.toNat
      -- the array after the swap
      have small2 : ∀ k x, lo ≤ k → k < left1 + 1 → (a.swapIfInBounds left1 right1.toNat)[k]? = some x → before pivot x = false := by
        intro k x h1 h2 h3
        rw [hsw k hl1sz hr1sz] at h3
        by_cases hk1 : right1.toNat = k
        · rw [if_pos hk1] at h3
          have hkk : k = left1 := by omega
          subst hkk
          have : right1.toNat = k := hk1
          rw [hxl] at h3
          rw [← this] at hxl
          rw [hxr] at hxl
          simp only [Option.some.injEq] at hxl h3
          subst hxl; subst h3
          exact hxrb
        · rw [if_neg hk1] at h3
          by_cases hk2 : left1 = k
          · rw [if_pos hk2, hxr] at h3
            simp only [Option.some.injEq] at h3; subst h3
            exact hxrb
          · rw [if_neg hk2] at h3
            exact small1 k x h1 (by omega) h3
      have large2 : ∀ (k : Nat) x, right1 - 1 < (k : Int) → k ≤ hi → (a.swapIfInBounds left1 right1.toNat)[k]? = some x → before x pivot = false := by
        intro k x h1 h2 h3
        rw [hsw k hl1sz hr1sz] at h3
        by_cases hk1 : right1.toNat = k
        · rw [if_pos hk1, hxl] at h3
          simp only [Option.some.injEq] at h3; subst h3
          exact hxlb
        · rw [if_neg hk1] at h3
          by_cases hk2 : left1 = k
          · exfalso; omega
          · rw [if_neg hk2] at h3
            exact large1 k x (by omega) h2 h3
      have frame2 : ∀ k, k < lo ∨ hi < k → (a.swapIfInBounds left1 right1.toNat)[k]? = a[k]? := by
        intro k hk
        rw [hsw k hl1sz hr1sz, if_neg (by omega), if_neg (by omega)]
      by_cases hdone : ((left1 + 1 : Nat) : Int) ≥ right1 - 1
      · rw [if_pos hdone]
        refine ⟨_, _, _, rfl, ⟨by simp, frame2, small2, large2, by omega, by omega, by omega, by omega, by omega⟩⟩
      · rw [if_neg hdone]
        have hinv' : PInv before pivot lo hi (a.swapIfInBounds left1 right1.toNat) (left1 + 1) (right1 - 1) := by
          refine ⟨by omega, by omega, by simpa using hhsz, small2, large2, ?_, ?_, Or.inl ⟨by omega, by omega⟩⟩
          · -- old a[left1] now sits at right1
            refine ⟨right1.toNat, xl, by omega, by omega, ?_, hxlb⟩
            rw [hsw _ hl1sz hr1sz, if_pos rfl, hxl]
          · refine ⟨left1, xr, by omega, by omega, ?_, hxrb⟩
            rw [hsw _ hl1sz hr1sz, if_neg (by omega), if_pos rfl, hxr]
        obtain ⟨a', l', r', hres, hpost⟩ := ih _ _ _ hinv' (by omega)
        refine ⟨a', l', r', hres, ⟨by rw [hpost.size]; simp, fun k hk => by rw [hpost.frame k hk, frame2 k hk],
          hpost.small, hpost.large, hpost.cross, hpost.lprog, hpost.rprog, hpost.lbound, hpost.rbound⟩⟩
    · rw [if_neg hle]
      -- no swap in this iteration: possible only after an earlier swap (otherwise the common sentinel forces left1 ≤ right1)
      have hprog : lo < left ∧ right < hi := by
        rcases hinv.prog with h | ⟨p, xp, hp1, hp2, hp3, hp4, hp5⟩
        · exact h
        · exfalso
          -- the left scan stops at or before p, the right scan at or after p
          have hpsz := lt_size_of_getElem? hp3
          obtain ⟨k1, hk1, hk1p⟩ := scanLeft_sentinel before a pivot (a.size + 1) left p xp hp1 hp3 hp4 (by omega)
          rw [hl] at hk1; simp only [Res.ok.injEq] at hk1; subst hk1
          obtain ⟨k2, hk2, hk2p⟩ := scanRight_sentinel before a pivot (a.size + 1) right p xp (by omega) hp2 (by omega)
            (by simpa using hp3) hp5 (by omega)
          rw [hr] at hk2; simp only [Res.ok.injEq] at hk2; subst hk2
          omega
      refine ⟨a, left1, right1, rfl, ⟨rfl, fun _ _ => rfl, small1, large1, by omega, by omega, by omega, by omega, by omega⟩⟩

theorem medianOfThree_mem {α : Type} (le : α → α → Bool) (x y z : α) :
    medianOfThree le x y z = x ∨ medianOfThree le x y z = y ∨ medianOfThree le x y z = z := by
  unfold medianOfThree
  split <;> split <;> (try split) <;> simp

/-- ☆ the partition step exactly as `sort-help` starts it (pivot = median of first / middle / last element chosen with any
    `<=`, `left = lo`, `right = hi`, the model's fuel `size + 2`): for a strict weak order it terminates, stays in bounds and
    establishes the Hoare postcondition with `lo < left'`, `right' < hi` — so both recursive calls are on strictly smaller
    ranges. -/
theorem partition_step {α : Type} (le before : α → α → Bool) (hswo : SWO before) (a : Array α) (lo hi : Nat)
    (hlt : lo < hi) (hsz : hi < a.size) :
    let pivot := medianOfThree le a[lo] (a[(lo + hi) / 2]'(by omega)) a[hi]
    ∃ a' l' r', partitionLoop before pivot (a.size + 2) a lo hi = .ok (a', l', r') ∧ PPost before pivot lo hi a a' l' r' := by
  intro pivot
  have hmem := medianOfThree_mem le a[lo] (a[(lo + hi) / 2]'(by omega)) a[hi]
  -- the pivot occurs at some position p of [lo, hi]
  have hp : ∃ p, lo ≤ p ∧ p ≤ hi ∧ a[p]? = some pivot := by
    rcases hmem with h | h | h
    · exact ⟨lo, Nat.le_refl _, by omega, by rw [Array.getElem?_eq_getElem (by omega)]; exact congrArg some h.symm⟩
    · exact ⟨(lo + hi) / 2, by omega, by omega, by rw [Array.getElem?_eq_getElem (by omega)]; exact congrArg some h.symm⟩
    · exact ⟨hi, by omega, Nat.le_refl _, by rw [Array.getElem?_eq_getElem (by omega)]; exact congrArg some h.symm⟩
  obtain ⟨p, hp1, hp2, hp3⟩ := hp
  apply partitionLoop_spec before hswo pivot lo hi (a.size + 2) a lo hi
  · exact ⟨Nat.le_refl _, Int.le_refl _, hsz, fun k x h1 h2 => by omega, fun k x h1 h2 => by omega,
      ⟨p, pivot, hp1, hp2, hp3, hswo.irr _⟩, ⟨p, pivot, hp1, by omega, hp3, hswo.irr _⟩,
      Or.inr ⟨p, pivot, hp1, by omega, hp3, hswo.irr _, hswo.irr _⟩⟩
  · omega

end JanetModel.Lib.Sort
