/- C17: proofs about the mirror of boot.janet `sort-help` (Lib/Sort.lean).
   Proved: for EVERY comparator (strict or not) a returning sort yields a permutation of its input (no element lost or
   duplicated) of the same size; the partition scans stop at the first element that is not `before?` the pivot and never
   index outside the array when a sentinel exists. -/
import JanetModel.Lib.Sort
namespace JanetModel.Lib.Sort
open Array

theorem swapIfInBounds_perm {α : Type} (a : Array α) (i j : Nat) : Array.Perm (a.swapIfInBounds i j) a := by
  rw [Array.swapIfInBounds_def]
  split
  · split
    · exact Array.swap_perm _ _
    · exact ⟨List.Perm.refl _⟩
  · exact ⟨List.Perm.refl _⟩

theorem perm_trans {α : Type} {a b c : Array α} (h1 : Array.Perm a b) (h2 : Array.Perm b c) : Array.Perm a c :=
  ⟨h1.toList.trans h2.toList⟩

theorem partitionLoop_perm {α : Type} (before : α → α → Bool) (pivot : α) (fuel : Nat) (a : Array α) (left : Nat) (right : Int)
    (a' : Array α) (l' : Nat) (r' : Int) (h : partitionLoop before pivot fuel a left right = .ok (a', l', r')) :
    Array.Perm a' a := by
  induction fuel generalizing a left right with
  | zero => simp [partitionLoop] at h
  | succ n ih =>
    unfold partitionLoop at h
    split at h
    · simp at h
    · simp at h
    · split at h
      · simp at h
      · simp at h
      · split at h
        · split at h
          · dsimp only at h
            split at h
            · simp only [Res.ok.injEq, Prod.mk.injEq] at h
              rw [← h.1]; exact swapIfInBounds_perm _ _ _
            · exact perm_trans (ih _ _ _ h) (swapIfInBounds_perm _ _ _)
          · simp at h
        · simp only [Res.ok.injEq, Prod.mk.injEq] at h
          rw [← h.1]

theorem sortHelp_perm {α : Type} (le before : α → α → Bool) (fuel : Nat) (a : Array α) (lo hi : Int) (r : Array α)
    (h : sortHelp le before fuel a lo hi = .ok r) : Array.Perm r a := by
  induction fuel generalizing a lo hi r with
  | zero => simp [sortHelp] at h
  | succ n ih =>
    unfold sortHelp at h
    split at h
    · split at h
      · simp at h
      · split at h
        · dsimp only at h
          split at h
          · simp at h
          · simp at h
          · rename_i a1 left right hpl
            have hp1 := partitionLoop_perm _ _ _ _ _ _ _ _ _ hpl
            split at h
            · simp at h
            · simp at h
            · rename_i a2 h2
              have hp2 : Array.Perm a2 a1 := by
                split at h2
                · exact ih _ _ _ _ h2
                · simp only [Res.ok.injEq] at h2; rw [← h2]
              split at h
              · exact perm_trans (ih _ _ _ _ h) (perm_trans hp2 hp1)
              · simp only [Res.ok.injEq] at h; rw [← h]; exact perm_trans hp2 hp1
        · simp at h
    · simp only [Res.ok.injEq] at h; rw [← h]

/-- `sort` never loses or duplicates an element, whatever the comparator does. -/
theorem sort_perm {α : Type} (le before : α → α → Bool) (a r : Array α) (h : sort le before a = .ok r) :
    Array.Perm r a := sortHelp_perm le before _ a _ _ r h

/-- left scan: the returned index is in bounds, not before the pivot, and everything skipped was before the pivot -/
theorem scanLeft_ok {α : Type} (before : α → α → Bool) (a : Array α) (pivot : α) (fuel left k : Nat)
    (h : scanLeft before a pivot fuel left = .ok k) :
    left ≤ k ∧ (∃ x, a[k]? = some x ∧ before x pivot = false) ∧
    ∀ i, left ≤ i → i < k → ∃ x, a[i]? = some x ∧ before x pivot = true := by
  induction fuel generalizing left with
  | zero => simp [scanLeft] at h
  | succ n ih =>
    unfold scanLeft at h
    split at h
    · simp at h
    · rename_i x hx
      by_cases hb : before x pivot = true
      · rw [if_pos hb] at h
        obtain ⟨h1, h2, h3⟩ := ih _ h
        refine ⟨by omega, h2, fun i hi1 hi2 => ?_⟩
        by_cases hil : i = left
        · subst hil; exact ⟨x, hx, hb⟩
        · exact h3 i (by omega) hi2
      · rw [if_neg hb] at h
        simp only [Res.ok.injEq] at h
        subst h
        exact ⟨Nat.le_refl _, ⟨x, hx, by simpa using hb⟩, fun i h1 h2 => by omega⟩

/-- with a sentinel (an element at `s ≥ left` that is not before the pivot) and enough fuel the left scan cannot run off
    the array or out of fuel: it stops at or before the sentinel -/
theorem scanLeft_sentinel {α : Type} (before : α → α → Bool) (a : Array α) (pivot : α) (fuel left s : Nat) (x : α)
    (hs : left ≤ s) (hx : a[s]? = some x) (hnb : before x pivot = false) (hf : s - left < fuel) :
    ∃ k, scanLeft before a pivot fuel left = .ok k ∧ k ≤ s := by
  induction fuel generalizing left with
  | zero => omega
  | succ n ih =>
    unfold scanLeft
    by_cases hls : left = s
    · subst hls
      rw [hx]; simp [hnb]
    · have hlt : left < a.size := by
        have : s < a.size := by
          rcases Nat.lt_or_ge s a.size with h | h
          · exact h
          · rw [Array.getElem?_eq_none h] at hx; simp at hx
        omega
      rw [Array.getElem?_eq_getElem hlt]
      simp only
      by_cases hb : before a[left] pivot = true
      · rw [if_pos hb]
        obtain ⟨k, hk1, hk2⟩ := ih (left + 1) (by omega) (by omega)
        exact ⟨k, hk1, hk2⟩
      · rw [if_neg hb]
        exact ⟨left, rfl, by omega⟩

/-- strict weak order on the values, as a Bool-valued `before?` -/
structure SWO {α : Type} (before : α → α → Bool) : Prop where
  irr : ∀ x, before x x = false
  asym : ∀ x y, before x y = true → before y x = false
  negtrans : ∀ x y z, before x y = false → before y z = false → before x z = false

theorem swap_getElem? {α : Type} (a : Array α) (i j k : Nat) (hi : i < a.size) (hj : j < a.size) :
    (a.swapIfInBounds i j)[k]? = if j = k then a[i]? else if i = k then a[j]? else a[k]? := by
  rw [Array.swapIfInBounds_def, dif_pos hi, dif_pos hj, Array.getElem?_swap]
  simp [Array.getElem?_eq_getElem hi, Array.getElem?_eq_getElem hj]

theorem lt_size_of_getElem? {α : Type} {a : Array α} {k : Nat} {x : α} (h : a[k]? = some x) : k < a.size := by
  rcases Nat.lt_or_ge k a.size with h' | h'
  · exact h'
  · rw [Array.getElem?_eq_none h'] at h; simp at h

/-- right scan: the returned index is in bounds, the pivot is not before it, and the pivot is before everything skipped -/
theorem scanRight_ok {α : Type} (before : α → α → Bool) (a : Array α) (pivot : α) (fuel : Nat) (right k : Int)
    (h : scanRight before a pivot fuel right = .ok k) :
    k ≤ right ∧ 0 ≤ k ∧ (∃ x, a[k.toNat]? = some x ∧ before pivot x = false) ∧
    ∀ i : Int, k < i → i ≤ right → ∃ x, a[i.toNat]? = some x ∧ before pivot x = true := by
  induction fuel generalizing right with
  | zero => simp [scanRight] at h
  | succ n ih =>
    unfold scanRight at h
    by_cases hneg : right < 0
    · rw [if_pos hneg] at h; simp at h
    · rw [if_neg hneg] at h
      split at h
      · simp at h
      · rename_i x hx
        by_cases hb : before pivot x = true
        · rw [if_pos hb] at h
          obtain ⟨h1, h2, h3, h4⟩ := ih _ h
          refine ⟨by omega, h2, h3, fun i hi1 hi2 => ?_⟩
          by_cases hir : i = right
          · subst hir; exact ⟨x, hx, hb⟩
          · exact h4 i hi1 (by omega)
        · rw [if_neg hb] at h
          simp only [Res.ok.injEq] at h
          subst h
          exact ⟨Int.le_refl _, by omega, ⟨x, hx, by simpa using hb⟩, fun i h1 h2 => by omega⟩

theorem scanRight_sentinel {α : Type} (before : α → α → Bool) (a : Array α) (pivot : α) (fuel : Nat) (right s : Int) (x : α)
    (hs0 : 0 ≤ s) (hs : s ≤ right) (hr : right < a.size) (hx : a[s.toNat]? = some x) (hnb : before pivot x = false)
    (hf : (right - s).toNat < fuel) :
    ∃ k, scanRight before a pivot fuel right = .ok k ∧ s ≤ k := by
  induction fuel generalizing right with
  | zero => omega
  | succ n ih =>
    unfold scanRight
    rw [if_neg (by omega)]
    by_cases hrs : right = s
    · subst hrs
      rw [hx]; simp [hnb]
    · have hlt : right.toNat < a.size := by omega
      rw [Array.getElem?_eq_getElem hlt]
      simp only
      by_cases hb : before pivot a[right.toNat] = true
      · rw [if_pos hb]
        obtain ⟨k, hk1, hk2⟩ := ih (right - 1) (by omega) (by omega) (by omega)
        exact ⟨k, hk1, hk2⟩
      · rw [if_neg hb]
        exact ⟨right, rfl, by omega⟩

/-- invariant of the `(while true …)` loop of sort-help on the range `[lo, hi]` -/
structure PInv {α : Type} (before : α → α → Bool) (pivot : α) (lo hi : Nat) (a : Array α) (left : Nat) (right : Int) : Prop where
  hlo : lo ≤ left
  hhi : right ≤ hi
  hsz : hi < a.size
  small : ∀ k x, lo ≤ k → k < left → a[k]? = some x → before pivot x = false        -- a[k] ≤ pivot
  large : ∀ (k : Nat) x, right < (k : Int) → k ≤ hi → a[k]? = some x → before x pivot = false  -- a[k] ≥ pivot
  sl : ∃ s x, left ≤ s ∧ s ≤ hi ∧ a[s]? = some x ∧ before x pivot = false
  sr : ∃ (s : Nat) (x : α), lo ≤ s ∧ (s : Int) ≤ right ∧ a[s]? = some x ∧ before pivot x = false
  prog : (lo < left ∧ right < hi) ∨ ∃ (p : Nat) (x : α), left ≤ p ∧ (p : Int) ≤ right ∧ a[p]? = some x ∧ before x pivot = false ∧ before pivot x = false

/-- `r` is `a` with the positions `[lo, hi]` permuted (an injective index map `σ` on the range), nothing else touched -/
structure RPerm {α : Type} (lo hi : Nat) (a r : Array α) : Prop where
  size : r.size = a.size
  frame : ∀ k, k < lo ∨ hi < k → r[k]? = a[k]?
  perm : ∃ σ : Nat → Nat, (∀ k, lo ≤ k → k ≤ hi → lo ≤ σ k ∧ σ k ≤ hi) ∧
          (∀ k k', lo ≤ k → k ≤ hi → lo ≤ k' → k' ≤ hi → σ k = σ k' → k = k') ∧
          (∀ k, lo ≤ k → k ≤ hi → r[k]? = a[σ k]?)

theorem RPerm.refl {α : Type} (lo hi : Nat) (a : Array α) : RPerm lo hi a a :=
  ⟨rfl, fun _ _ => rfl, ⟨id, fun k h1 h2 => ⟨h1, h2⟩, fun _ _ _ _ _ _ h => h, fun _ _ _ => rfl⟩⟩

theorem RPerm.trans {α : Type} {lo hi : Nat} {a b c : Array α} (h1 : RPerm lo hi a b) (h2 : RPerm lo hi b c) :
    RPerm lo hi a c := by
  obtain ⟨σ, hs1, hs2, hs3⟩ := h1.perm
  obtain ⟨τ, ht1, ht2, ht3⟩ := h2.perm
  refine ⟨by rw [h2.size, h1.size], fun k hk => by rw [h2.frame k hk, h1.frame k hk], ⟨fun k => σ (τ k), ?_, ?_, ?_⟩⟩
  · intro k hk1 hk2
    obtain ⟨a1, a2⟩ := ht1 k hk1 hk2
    exact hs1 _ a1 a2
  · intro k k' hk1 hk2 hk1' hk2' heq
    obtain ⟨a1, a2⟩ := ht1 k hk1 hk2
    obtain ⟨b1, b2⟩ := ht1 k' hk1' hk2'
    exact ht2 k k' hk1 hk2 hk1' hk2' (hs2 _ _ a1 a2 b1 b2 heq)
  · intro k hk1 hk2
    obtain ⟨a1, a2⟩ := ht1 k hk1 hk2
    rw [ht3 k hk1 hk2, hs3 _ a1 a2]

/-- a permutation of a sub-range is a permutation of the range -/
theorem RPerm.mono {α : Type} {lo hi lo' hi' : Nat} {a r : Array α} (h : RPerm lo' hi' a r) (hl : lo ≤ lo') (hh : hi' ≤ hi) :
    RPerm lo hi a r := by
  obtain ⟨σ, hs1, hs2, hs3⟩ := h.perm
  refine ⟨h.size, fun k hk => h.frame k (by omega), ⟨fun k => if lo' ≤ k ∧ k ≤ hi' then σ k else k, ?_, ?_, ?_⟩⟩
  · intro k hk1 hk2
    by_cases hin : lo' ≤ k ∧ k ≤ hi'
    · simp only [if_pos hin]
      obtain ⟨a1, a2⟩ := hs1 k hin.1 hin.2
      omega
    · simp only [if_neg hin]; omega
  · intro k k' hk1 hk2 hk1' hk2' heq
    by_cases hin : lo' ≤ k ∧ k ≤ hi'
    · by_cases hin' : lo' ≤ k' ∧ k' ≤ hi'
      · simp only [if_pos hin, if_pos hin'] at heq
        exact hs2 k k' hin.1 hin.2 hin'.1 hin'.2 heq
      · simp only [if_pos hin, if_neg hin'] at heq
        obtain ⟨a1, a2⟩ := hs1 k hin.1 hin.2
        omega
    · by_cases hin' : lo' ≤ k' ∧ k' ≤ hi'
      · simp only [if_neg hin, if_pos hin'] at heq
        obtain ⟨a1, a2⟩ := hs1 k' hin'.1 hin'.2
        omega
      · simp only [if_neg hin, if_neg hin'] at heq
        exact heq
  · intro k hk1 hk2
    by_cases hin : lo' ≤ k ∧ k ≤ hi'
    · simp only [if_pos hin]; exact hs3 k hin.1 hin.2
    · simp only [if_neg hin]; exact h.frame k (by omega)

theorem RPerm.swap {α : Type} (lo hi : Nat) (a : Array α) (i j : Nat) (hi1 : lo ≤ i) (hi2 : i ≤ hi) (hj1 : lo ≤ j) (hj2 : j ≤ hi)
    (his : i < a.size) (hjs : j < a.size) : RPerm lo hi a (a.swapIfInBounds i j) := by
  refine ⟨by simp, fun k hk => ?_, ⟨fun k => if j = k then i else if i = k then j else k, ?_, ?_, ?_⟩⟩
  · rw [swap_getElem? a i j k his hjs, if_neg (by omega), if_neg (by omega)]
  · intro k hk1 hk2
    simp only
    split
    · omega
    · split <;> omega
  · intro k k' hk1 hk2 hk1' hk2' heq
    simp only at heq
    split at heq <;> split at heq <;> (try split at heq) <;> (try split at heq) <;> omega
  · intro k hk1 hk2
    rw [swap_getElem? a i j k his hjs]
    simp only
    split
    · rfl
    · split <;> rfl

/-- a predicate that holds on a super-range of a permuted range still holds there afterwards -/
theorem RPerm.transfer {α : Type} {lo' hi' : Nat} {a r : Array α} (h : RPerm lo' hi' a r) (lo hi : Nat) (hl : lo ≤ lo') (hh : hi' ≤ hi)
    (P : α → Prop) (hP : ∀ k x, lo ≤ k → k ≤ hi → a[k]? = some x → P x) :
    ∀ k x, lo ≤ k → k ≤ hi → r[k]? = some x → P x := by
  obtain ⟨σ, hs1, _, hs3⟩ := h.perm
  intro k x hk1 hk2 hx
  by_cases hin : lo' ≤ k ∧ k ≤ hi'
  · rw [hs3 k hin.1 hin.2] at hx
    obtain ⟨a1, a2⟩ := hs1 k hin.1 hin.2
    exact hP _ x (by omega) (by omega) hx
  · rw [h.frame k (by omega)] at hx
    exact hP k x hk1 hk2 hx

/-- what the partition loop establishes -/
structure PPost {α : Type} (before : α → α → Bool) (pivot : α) (lo hi : Nat) (a a' : Array α) (l' : Nat) (r' : Int) : Prop where
  size : a'.size = a.size
  frame : ∀ k, k < lo ∨ hi < k → a'[k]? = a[k]?
  small : ∀ k x, lo ≤ k → k < l' → a'[k]? = some x → before pivot x = false
  large : ∀ (k : Nat) x, r' < (k : Int) → k ≤ hi → a'[k]? = some x → before x pivot = false
  cross : r' ≤ (l' : Int)
  lprog : lo < l'
  rprog : r' < hi
  lbound : l' ≤ hi + 1
  rbound : (lo : Int) - 1 ≤ r'
  rperm : RPerm lo hi a a'

/-- ☆ partition step for a strict weak order: from the invariant the loop of the model terminates within its fuel, never
    indexes outside `[lo, hi]`, only permutes inside `[lo, hi]`, and returns `left' > lo`, `right' < hi`, `right' ≤ left'`
    with everything left of `left'` not after the pivot and everything right of `right'` not before it. -/
theorem partitionLoop_spec {α : Type} (before : α → α → Bool) (hswo : SWO before) (pivot : α) (lo hi : Nat)
    (fuel : Nat) (a : Array α) (left : Nat) (right : Int)
    (hinv : PInv before pivot lo hi a left right) (hf : (right - left).toNat + 2 ≤ 2 * fuel) :
    ∃ a' l' r', partitionLoop before pivot fuel a left right = .ok (a', l', r') ∧ PPost before pivot lo hi a a' l' r' := by
  induction fuel generalizing a left right with
  | zero =>
    -- fuel 0 is only possible when the range is already crossed, which contradicts the sentinels
    exfalso
    obtain ⟨s, x, h1, h2, _, _⟩ := hinv.sl
    obtain ⟨s', x', h1', h2', _, _⟩ := hinv.sr
    rcases hinv.prog with ⟨_, _⟩ | ⟨p, _, hp1, hp2, _⟩
    · omega
    · omega
  | succ n ih =>
    unfold partitionLoop
    obtain ⟨s, xs, hs1, hs2, hs3, hs4⟩ := hinv.sl
    have hssz := lt_size_of_getElem? hs3
    obtain ⟨left1, hl, hls⟩ := scanLeft_sentinel before a pivot (a.size + 1) left s xs hs1 hs3 hs4 (by omega)
    obtain ⟨hl1, ⟨xl, hxl, hxlb⟩, hl3⟩ := scanLeft_ok before a pivot _ left left1 hl
    rw [hl]
    simp only
    obtain ⟨t, xt, ht1, ht2, ht3, ht4⟩ := hinv.sr
    have hhsz := hinv.hsz
    have hlo := hinv.hlo
    have hrr := hinv.hhi
    obtain ⟨right1, hr, hrs⟩ := scanRight_sentinel before a pivot (a.size + 1) right t xt (by omega) ht2 (by omega)
      (by simpa using ht3) ht4 (by omega)
    obtain ⟨hr1, hr0, ⟨xr, hxr, hxrb⟩, hr3⟩ := scanRight_ok before a pivot _ right right1 hr
    rw [hr]
    simp only
    have hl1sz := lt_size_of_getElem? hxl
    have hr1sz := lt_size_of_getElem? hxr
    -- facts after the two scans
    have small1 : ∀ k x, lo ≤ k → k < left1 → a[k]? = some x → before pivot x = false := fun k x h1 h2 h3 => by
      by_cases hk : k < left
      · exact hinv.small k x h1 hk h3
      · obtain ⟨y, hy, hyb⟩ := hl3 k (by omega) h2
        rw [h3] at hy; simp only [Option.some.injEq] at hy; subst hy
        exact hswo.asym _ _ hyb
    have large1 : ∀ (k : Nat) x, right1 < (k : Int) → k ≤ hi → a[k]? = some x → before x pivot = false := fun k x h1 h2 h3 => by
      by_cases hk : right < (k : Int)
      · exact hinv.large k x hk h2 h3
      · obtain ⟨y, hy, hyb⟩ := hr3 k h1 (by omega)
        simp only [Int.toNat_natCast] at hy
        rw [h3] at hy; simp only [Option.some.injEq] at hy; subst hy
        exact hswo.asym _ _ hyb
    by_cases hle : (left1 : Int) ≤ right1
    · rw [if_pos hle, hxl, hxr]
      simp only
      have hsw := swap_getElem? a left1 right1.toNat
      -- the array after the swap
      have small2 : ∀ k x, lo ≤ k → k < left1 + 1 → (a.swapIfInBounds left1 right1.toNat)[k]? = some x → before pivot x = false := by
        intro k x h1 h2 h3
        rw [hsw k hl1sz hr1sz] at h3
        by_cases hk1 : right1.toNat = k
        · rw [if_pos hk1] at h3
          have hkk : k = left1 := by omega
          subst hkk
          have : right1.toNat = k := hk1
          rw [hxl] at h3
          rw [← this] at hxl
          rw [hxr] at hxl
          simp only [Option.some.injEq] at hxl h3
          subst hxl; subst h3
          exact hxrb
        · rw [if_neg hk1] at h3
          by_cases hk2 : left1 = k
          · rw [if_pos hk2, hxr] at h3
            simp only [Option.some.injEq] at h3; subst h3
            exact hxrb
          · rw [if_neg hk2] at h3
            exact small1 k x h1 (by omega) h3
      have large2 : ∀ (k : Nat) x, right1 - 1 < (k : Int) → k ≤ hi → (a.swapIfInBounds left1 right1.toNat)[k]? = some x → before x pivot = false := by
        intro k x h1 h2 h3
        rw [hsw k hl1sz hr1sz] at h3
        by_cases hk1 : right1.toNat = k
        · rw [if_pos hk1, hxl] at h3
          simp only [Option.some.injEq] at h3; subst h3
          exact hxlb
        · rw [if_neg hk1] at h3
          by_cases hk2 : left1 = k
          · exfalso; omega
          · rw [if_neg hk2] at h3
            exact large1 k x (by omega) h2 h3
      have frame2 : ∀ k, k < lo ∨ hi < k → (a.swapIfInBounds left1 right1.toNat)[k]? = a[k]? := by
        intro k hk
        rw [hsw k hl1sz hr1sz, if_neg (by omega), if_neg (by omega)]
      by_cases hdone : ((left1 + 1 : Nat) : Int) ≥ right1 - 1
      · rw [if_pos hdone]
        refine ⟨_, _, _, rfl, ⟨by simp, frame2, small2, large2, by omega, by omega, by omega, by omega, by omega,
          RPerm.swap lo hi a left1 right1.toNat (by omega) (by omega) (by omega) (by omega) hl1sz hr1sz⟩⟩
      · rw [if_neg hdone]
        have hinv' : PInv before pivot lo hi (a.swapIfInBounds left1 right1.toNat) (left1 + 1) (right1 - 1) := by
          refine ⟨by omega, by omega, by simpa using hhsz, small2, large2, ?_, ?_, Or.inl ⟨by omega, by omega⟩⟩
          · -- old a[left1] now sits at right1
            refine ⟨right1.toNat, xl, by omega, by omega, ?_, hxlb⟩
            rw [hsw _ hl1sz hr1sz, if_pos rfl, hxl]
          · refine ⟨left1, xr, by omega, by omega, ?_, hxrb⟩
            rw [hsw _ hl1sz hr1sz, if_neg (by omega), if_pos rfl, hxr]
        obtain ⟨a', l', r', hres, hpost⟩ := ih _ _ _ hinv' (by omega)
        refine ⟨a', l', r', hres, ⟨by rw [hpost.size]; simp, fun k hk => by rw [hpost.frame k hk, frame2 k hk],
          hpost.small, hpost.large, hpost.cross, hpost.lprog, hpost.rprog, hpost.lbound, hpost.rbound,
          RPerm.trans (RPerm.swap lo hi a left1 right1.toNat (by omega) (by omega) (by omega) (by omega) hl1sz hr1sz) hpost.rperm⟩⟩
    · rw [if_neg hle]
      -- no swap in this iteration: possible only after an earlier swap (otherwise the common sentinel forces left1 ≤ right1)
      have hprog : lo < left ∧ right < hi := by
        rcases hinv.prog with h | ⟨p, xp, hp1, hp2, hp3, hp4, hp5⟩
        · exact h
        · exfalso
          -- the left scan stops at or before p, the right scan at or after p
          have hpsz := lt_size_of_getElem? hp3
          obtain ⟨k1, hk1, hk1p⟩ := scanLeft_sentinel before a pivot (a.size + 1) left p xp hp1 hp3 hp4 (by omega)
          rw [hl] at hk1; simp only [Res.ok.injEq] at hk1; subst hk1
          obtain ⟨k2, hk2, hk2p⟩ := scanRight_sentinel before a pivot (a.size + 1) right p xp (by omega) hp2 (by omega)
            (by simpa using hp3) hp5 (by omega)
          rw [hr] at hk2; simp only [Res.ok.injEq] at hk2; subst hk2
          omega
      refine ⟨a, left1, right1, rfl, ⟨rfl, fun _ _ => rfl, small1, large1, by omega, by omega, by omega, by omega, by omega,
        RPerm.refl lo hi a⟩⟩

theorem medianOfThree_mem {α : Type} (le : α → α → Bool) (x y z : α) :
    medianOfThree le x y z = x ∨ medianOfThree le x y z = y ∨ medianOfThree le x y z = z := by
  unfold medianOfThree
  split <;> split <;> (try split) <;> simp

/-- ☆ the partition step exactly as `sort-help` starts it (pivot = median of first / middle / last element chosen with any
    `<=`, `left = lo`, `right = hi`, the model's fuel `size + 2`): for a strict weak order it terminates, stays in bounds and
    establishes the Hoare postcondition with `lo < left'`, `right' < hi` — so both recursive calls are on strictly smaller
    ranges. -/
theorem partition_step {α : Type} (le before : α → α → Bool) (hswo : SWO before) (a : Array α) (lo hi : Nat)
    (hlt : lo < hi) (hsz : hi < a.size) :
    let pivot := medianOfThree le a[lo] (a[(lo + hi) / 2]'(by omega)) a[hi]
    ∃ a' l' r', partitionLoop before pivot (a.size + 2) a lo hi = .ok (a', l', r') ∧ PPost before pivot lo hi a a' l' r' := by
  intro pivot
  have hmem := medianOfThree_mem le a[lo] (a[(lo + hi) / 2]'(by omega)) a[hi]
  -- the pivot occurs at some position p of [lo, hi]
  have hp : ∃ p, lo ≤ p ∧ p ≤ hi ∧ a[p]? = some pivot := by
    rcases hmem with h | h | h
    · exact ⟨lo, Nat.le_refl _, by omega, by rw [Array.getElem?_eq_getElem (by omega)]; exact congrArg some h.symm⟩
    · exact ⟨(lo + hi) / 2, by omega, by omega, by rw [Array.getElem?_eq_getElem (by omega)]; exact congrArg some h.symm⟩
    · exact ⟨hi, by omega, Nat.le_refl _, by rw [Array.getElem?_eq_getElem (by omega)]; exact congrArg some h.symm⟩
  obtain ⟨p, hp1, hp2, hp3⟩ := hp
  apply partitionLoop_spec before hswo pivot lo hi (a.size + 2) a lo hi
  · exact ⟨Nat.le_refl _, Int.le_refl _, hsz, fun k x h1 h2 => by omega, fun k x h1 h2 => by omega,
      ⟨p, pivot, hp1, hp2, hp3, hswo.irr _⟩, ⟨p, pivot, hp1, by omega, hp3, hswo.irr _⟩,
      Or.inr ⟨p, pivot, hp1, by omega, hp3, hswo.irr _, hswo.irr _⟩⟩
  · omega

/-- no element of `[lo, hi]` is strictly before an earlier one -/
def SortedOn {α : Type} (before : α → α → Bool) (r : Array α) (lo hi : Nat) : Prop :=
  ∀ i j x y, lo ≤ i → i < j → j ≤ hi → r[i]? = some x → r[j]? = some y → before y x = false

/-- ☆ `sort-help` for a strict weak order: with fuel `≥ hi - lo + 1` it returns (no `in` out of range, no fuel exhaustion),
    permutes only `[lo, hi]`, and leaves that range ordered. -/
theorem sortHelp_spec {α : Type} (le before : α → α → Bool) (hswo : SWO before) (fuel : Nat) (a : Array α) (lo : Nat) (hi : Int)
    (hsz : hi < a.size) (hf : (hi - lo).toNat + 1 ≤ fuel) :
    ∃ r, sortHelp le before fuel a lo hi = .ok r ∧ RPerm lo hi.toNat a r ∧ SortedOn before r lo hi.toNat := by
  induction fuel generalizing a lo hi with
  | zero => omega
  | succ n ih =>
    unfold sortHelp
    by_cases hlt : (lo : Int) < hi
    · rw [if_pos hlt, if_neg (by omega)]
      obtain ⟨hiN, rfl⟩ : ∃ m : Nat, hi = m := ⟨hi.toNat, by omega⟩
      have hlt' : lo < hiN := by omega
      have hsz' : hiN < a.size := by omega
      have e1 : ((lo : Nat) : Int).toNat = lo := by simp
      have e2 : (((lo : Nat) : Int) + ((hiN : Nat) : Int)) / 2 = (((lo + hiN) / 2 : Nat) : Int) := by omega
      have e3 : ((hiN : Nat) : Int).toNat = hiN := by simp
      rw [e2]
      simp only [Int.toNat_natCast]
      rw [Array.getElem?_eq_getElem (by omega : lo < a.size), Array.getElem?_eq_getElem (by omega : (lo + hiN) / 2 < a.size),
        Array.getElem?_eq_getElem hsz']
      simp only
      have hps := partition_step le before hswo a lo hiN hlt' hsz'
      simp only at hps
      generalize medianOfThree le a[lo] a[(lo + hiN) / 2] a[hiN] = pivot at hps ⊢
      obtain ⟨a1, l, r', hpl, hpost⟩ := hps
      rw [hpl]
      simp only
      have hs1 : a1.size = a.size := hpost.size
      have hcross := hpost.cross
      have hlprog := hpost.lprog
      have hrprog := hpost.rprog
      have hlbound := hpost.lbound
      have hrbound := hpost.rbound
      -- first recursive call
      have hrec1 : ∃ a2, (if (lo : Int) < r' then sortHelp le before n a1 lo r' else Res.ok a1) = .ok a2 ∧
          RPerm lo r'.toNat a1 a2 ∧ SortedOn before a2 lo r'.toNat ∧ (∀ k : Nat, r' < (k : Int) → a2[k]? = a1[k]?) := by
        by_cases h1 : (lo : Int) < r'
        · rw [if_pos h1]
          obtain ⟨a2, g1, g2, g3⟩ := ih a1 lo r' (by omega) (by omega)
          exact ⟨a2, g1, g2, g3, fun k hk => g2.frame k (by omega)⟩
        · rw [if_neg h1]
          exact ⟨a1, rfl, RPerm.refl _ _ _, fun i j x y h1 h2 h3 _ _ => by omega, fun _ _ => rfl⟩
      obtain ⟨a2, g1, P1, S1, hframe1⟩ := hrec1
      rw [g1]
      simp only
      have hs2 : a2.size = a.size := by rw [P1.size, hs1]
      have hrec2 : ∃ a3, (if (l : Int) < (hiN : Int) then sortHelp le before n a2 l hiN else Res.ok a2) = .ok a3 ∧
          RPerm l hiN a2 a3 ∧ SortedOn before a3 l hiN := by
        by_cases h2 : (l : Int) < (hiN : Int)
        · rw [if_pos h2]
          obtain ⟨a3, g1, g2, g3⟩ := ih a2 l hiN (by omega) (by omega)
          simp only [Int.toNat_natCast] at g2 g3
          exact ⟨a3, g1, g2, g3⟩
        · rw [if_neg h2]
          exact ⟨a2, rfl, RPerm.refl _ _ _, fun i j x y h1 h2 h3 _ _ => by omega⟩
      obtain ⟨a3, g2, P2, S2⟩ := hrec2
      rw [g2]
      have hframe2 : ∀ k, k < l → a3[k]? = a2[k]? := fun k hk => P2.frame k (Or.inl hk)
      refine ⟨a3, rfl, ?_, ?_⟩
      · exact RPerm.trans hpost.rperm (RPerm.trans (RPerm.mono P1 (Nat.le_refl _) (by omega)) (RPerm.mono P2 (by omega) (Nat.le_refl _)))
      · intro i j x y hi1 hij hj2 hx hy
        by_cases hcase : r' < (l : Int)
        · -- the two recursive ranges are disjoint
          have small2 : ∀ k x, lo ≤ k → k ≤ l - 1 → a2[k]? = some x → before pivot x = false :=
            P1.transfer lo (l - 1) (Nat.le_refl _) (by omega) (fun x => before pivot x = false)
              (fun k x h1 h2 h3 => hpost.small k x h1 (by omega) h3)
          have small3 : ∀ k x, lo ≤ k → k < l → a3[k]? = some x → before pivot x = false := fun k x h1 h2 h3 => by
            rw [hframe2 k h2] at h3
            exact small2 k x h1 (by omega) h3
          have large2 : ∀ (k : Nat) x, l ≤ k → k ≤ hiN → a2[k]? = some x → before x pivot = false := fun k x h1 h2 h3 => by
            rw [hframe1 k (by omega)] at h3
            exact hpost.large k x (by omega) h2 h3
          have large3 : ∀ (k : Nat) x, r' < (k : Int) → k ≤ hiN → a3[k]? = some x → before x pivot = false := fun k x h1 h2 h3 => by
            by_cases hkl : k < l
            · rw [hframe2 k hkl, hframe1 k h1] at h3
              exact hpost.large k x h1 h2 h3
            · exact P2.transfer l hiN (Nat.le_refl _) (Nat.le_refl _) (fun x => before x pivot = false) large2 k x (by omega) h2 h3
          by_cases hjr : (j : Int) ≤ r'
          · rw [hframe2 i (by omega)] at hx
            rw [hframe2 j (by omega)] at hy
            exact S1 i j x y hi1 hij (by omega) hx hy
          · by_cases hil : l ≤ i
            · exact S2 i j x y hil hij hj2 hx hy
            · exact hswo.negtrans y pivot x (large3 j y (by omega) hj2 hy) (small3 i x hi1 (by omega) hx)
        · -- left' = right' = l: both recursive ranges contain position l
          have hrl : r' = (l : Int) := by omega
          subst hrl
          simp only [Int.toNat_natCast] at P1 S1
          obtain ⟨σ, hσ1, hσ2, hσ3⟩ := P1.perm
          have hl2 : l < a2.size := by omega
          have hym : a2[l]? = some a2[l] := Array.getElem?_eq_getElem hl2
          have claimC : ∀ k x, lo ≤ k → k < l → a2[k]? = some x → before pivot x = false := by
            intro k x h1 h2 h3
            obtain ⟨b1, b2⟩ := hσ1 k h1 (by omega)
            by_cases hσk : σ k < l
            · rw [hσ3 k h1 (by omega)] at h3
              exact hpost.small _ x b1 hσk h3
            · have hσl : σ l ≠ l := fun h => by
                have := hσ2 k l h1 (by omega) (by omega) (Nat.le_refl _) (by omega)
                omega
              obtain ⟨c1, c2⟩ := hσ1 l (by omega) (Nat.le_refl _)
              have hyml := hym
              rw [hσ3 l (by omega) (Nat.le_refl _)] at hyml
              have e1 := hpost.small (σ l) a2[l] c1 (by omega) hyml
              have e2 := S1 k l x a2[l] h1 h2 (Nat.le_refl _) h3 hym
              exact hswo.negtrans pivot a2[l] x e1 e2
          by_cases hjl : j < l
          · rw [hframe2 i (by omega)] at hx
            rw [hframe2 j hjl] at hy
            exact S1 i j x y hi1 hij (by omega) hx hy
          · by_cases hil : l ≤ i
            · exact S2 i j x y hil hij hj2 hx hy
            · rw [hframe2 i (by omega)] at hx
              obtain ⟨τ, hτ1, _, hτ3⟩ := P2.perm
              obtain ⟨d1, d2⟩ := hτ1 j (by omega) hj2
              rw [hτ3 j (by omega) hj2] at hy
              by_cases hτj : τ j = l
              · rw [hτj] at hy
                exact S1 i l x y hi1 (by omega) (Nat.le_refl _) hx hy
              · rw [hframe1 (τ j) (by omega)] at hy
                exact hswo.negtrans y pivot x (hpost.large (τ j) y (by omega) d2 hy) (claimC i x hi1 (by omega) hx)
    · rw [if_neg hlt]
      refine ⟨a, rfl, RPerm.refl _ _ _, fun i j x y h1 h2 h3 _ _ => by omega⟩

/-- ☆ `sort_perm_sorted`: for every strict weak order `before?` (and whatever `<=` is used to pick the median) `sort`
    returns — within the model's fuel `length + 1`, never indexing outside the array — an ordered permutation of its input. -/
theorem sort_sorted {α : Type} (le before : α → α → Bool) (hswo : SWO before) (a : Array α) :
    ∃ r, sort le before a = .ok r ∧ Array.Perm r a ∧ r.size = a.size ∧
      ∀ i j (hij : i < j) (hj : j < r.size), before r[j] (r[i]'(by omega)) = false := by
  obtain ⟨r, h1, h2, h3⟩ := sortHelp_spec le before hswo (a.size + 1) a 0 ((a.size : Int) - 1) (by omega) (by omega)
  have h1' : sort le before a = .ok r := h1
  have hp := sort_perm le before a r h1'
  refine ⟨r, h1', hp, h2.size, fun i j hij hj => ?_⟩
  have hsz := h2.size
  exact h3 i j r[i] r[j] (Nat.zero_le _) hij (by omega) (Array.getElem?_eq_getElem (by omega)) (Array.getElem?_eq_getElem hj)

end JanetModel.Lib.Sort
