import JanetModel.Lib.Spec
/- C17: shared vocabulary of the *mirrors* of C / boot.janet library code (Lib/StrC, Lib/BufC, Lib/ArrC, Lib/Boot).
   Core Lean only (linked into the driver jm_c17).

   A mirror follows the C function statement by statement: C loops become structural / fuelled recursions over the loop
   counter, arrays are `Array`, int32 / int64 locals are `Int` and every *signed* arithmetic step that the C performs in a
   fixed-width type goes through a checked operation, so that the mirror has three outcomes:

     `.ok v`    the function returns v
     `.panic`   the function raises a janet error (`janet_panic*`, failed `janet_get*` decode)
     `.ub`      the C would execute undefined behaviour (signed overflow, out-of-bounds index, negative memcpy size,
                shift out of range) -- a theorem `mirror = ofOption spec` therefore also says "never UB".
-/
namespace JanetModel.Lib

/-- outcome of a mirrored C function -/
inductive R (α : Type) where
  | ok (a : α)
  | panic
  | ub
  deriving Repr, DecidableEq, BEq

namespace R

@[inline] def bind {α β : Type} (x : R α) (f : α → R β) : R β :=
  match x with
  | .ok a => f a
  | .panic => .panic
  | .ub => .ub

instance : Monad R where
  pure := .ok
  bind := R.bind

@[simp] theorem ok_bind {α β : Type} (a : α) (f : α → R β) : (R.ok a >>= f) = f a := rfl
@[simp] theorem panic_bind {α β : Type} (f : α → R β) : ((R.panic : R α) >>= f) = .panic := rfl
@[simp] theorem ub_bind {α β : Type} (f : α → R β) : ((R.ub : R α) >>= f) = .ub := rfl
@[simp] theorem pure_eq {α : Type} (a : α) : (pure a : R α) = .ok a := rfl

/-- the reference definitions use `Option` (`none` = the call raises): embed them -/
def ofOption {α : Type} : Option α → R α
  | some a => .ok a
  | none => .panic

@[simp] theorem ofOption_some {α : Type} (a : α) : ofOption (some a) = .ok a := rfl
@[simp] theorem ofOption_none {α : Type} : ofOption (none : Option α) = .panic := rfl

/-- for the driver: collapse to the protocol's ok / err; `ub` is reported as a distinct token by the caller -/
def toOption {α : Type} : R α → Option α
  | .ok a => some a
  | _ => none

def isUb {α : Type} : R α → Bool
  | .ub => true
  | _ => false

end R

/-! ## fixed-width signed arithmetic as the C performs it (overflow = UB) -/

def int64Min : Int := -9223372036854775808
def int64Max : Int := 9223372036854775807

def in32 (x : Int) : Bool := decide (int32Min ≤ x ∧ x ≤ int32Max)
def in64 (x : Int) : Bool := decide (int64Min ≤ x ∧ x ≤ int64Max)

/-- `a + b` on `int32_t` operands -/
def add32 (a b : Int) : R Int := if in32 (a + b) then .ok (a + b) else .ub
/-- `a - b` on `int32_t` operands -/
def sub32 (a b : Int) : R Int := if in32 (a - b) then .ok (a - b) else .ub
/-- `a * b` on `int32_t` operands -/
def mul32 (a b : Int) : R Int := if in32 (a * b) then .ok (a * b) else .ub
/-- `(int64_t) a + b` -/
def add64 (a b : Int) : R Int := if in64 (a + b) then .ok (a + b) else .ub
/-- `(int64_t) a * b` -/
def mul64 (a b : Int) : R Int := if in64 (a * b) then .ok (a * b) else .ub

/-- `arr[i]` for an `int32_t` / pointer-offset index: outside `[0, size)` is UB -/
def idx {α : Type} (a : Array α) (i : Int) : R α :=
  if i < 0 then .ub else
  match a[i.toNat]? with
  | some x => .ok x
  | none => .ub

/-- `arr[i] = v`: outside `[0, size)` is UB -/
def setIdx {α : Type} (a : Array α) (i : Int) (v : α) : R (Array α) :=
  if i < 0 then .ub else
  if i.toNat < a.size then .ok (a.setIfInBounds i.toNat v) else .ub

/-- `janet_getinteger(argv, n)`: panics unless the number is an int32 -/
def getinteger (x : Int) : R Int := if in32 x then .ok x else .panic

/-- a janet object length always fits an int32 (hypothesis of most mirror theorems) -/
def Len32 {α : Type} (l : List α) : Prop := (l.length : Int) ≤ int32Max

end JanetModel.Lib
