import JanetModel.Lib.StrCProofs
/- C17: `string/repeat` (pointer loop + int64 length check) and `string/check-set` (the 256-bit `uint32_t bitset[8]`)
   as mirrored in Lib/StrC.lean compute the reference definitions. -/
namespace JanetModel.Lib.StrC
open JanetModel.Lib JanetModel.Lib.CLoop

/-! ### string/repeat -/

theorem repeatLoop_spec (s : Bytes) (rep : Nat) (hL : 0 < s.length) :
    ∀ (fuel k : Nat) (buf : Array Nat), k + fuel = rep → buf.size = rep * s.length →
      buf.toList.take (k * s.length) = (List.replicate k s).flatten →
      ∃ buf', repeatLoop s ((rep * s.length : Nat) : Int) fuel ((k * s.length : Nat) : Int) buf = .ok buf' ∧
        buf'.toList = (List.replicate rep s).flatten := by
  intro fuel
  induction fuel with
  | zero =>
    intro k buf hk hsz hpre
    have : k = rep := by omega
    subst this
    refine ⟨buf, by simp [repeatLoop], ?_⟩
    rw [← hpre]; symm
    apply List.take_of_length_le; simp [hsz]
  | succ n ih =>
    intro k buf hk hsz hpre
    have h1 : (k + 1) * s.length ≤ rep * s.length := Nat.mul_le_mul_right _ (by omega)
    have h2 : (k + 1) * s.length = k * s.length + s.length := Nat.succ_mul k _
    have hlt : ((k * s.length : Nat) : Int) < ((rep * s.length : Nat) : Int) := by omega
    simp only [repeatLoop, hlt, if_true]
    rw [memcpy_whole buf s (k * s.length) (by omega)]
    simp only [R.ok_bind]
    have e : ((k * s.length : Nat) : Int) + (s.length : Int) = (((k + 1) * s.length : Nat) : Int) := by omega
    rw [e]
    have hB : k * s.length + s.length ≤ buf.toList.length := by simp only [Array.length_toList]; omega
    apply ih (k + 1) _ (by omega)
    · simp only [List.size_toArray, splice_length _ _ _ hB, Array.length_toList]; exact hsz
    · simp only [List.toList_toArray]
      rw [h2, take_splice _ _ _ hB, hpre, List.replicate_succ', List.flatten_append]
      simp

/-- ★ `string/repeat bytes n` for every string (length fits int32) and every int32 `n`: error for `n < 0` and when
    `n * len > INT32_MAX` (the int64 product never overflows), otherwise `n` copies; the pointer loop runs exactly `n`
    times (none for the empty string) and every `memcpy` stays inside the result buffer. -/
theorem repeat_eq_spec (s : Bytes) (rep : Int) (hs : Len32 s) (hr : in32 rep = true) :
    StrC.repeatStr s rep = R.ofOption (Lib.repeatBytes s rep) := by
  unfold StrC.repeatStr Lib.repeatBytes
  unfold Len32 int32Max at hs
  unfold in32 int32Min int32Max at hr
  simp only [decide_eq_true_eq] at hr
  by_cases hneg : rep < 0
  · simp [hneg]
  · simp only [hneg, if_false]
    by_cases hz : rep = 0
    · subst hz
      by_cases he : s = []
      · simp [he, int32Max]
      · simp [he, int32Max]
    · simp only [hz, if_false]
      have hpos : 0 < rep := by omega
      have hprod : 0 ≤ rep * (s.length : Int) ∧ rep * (s.length : Int) ≤ 2147483647 * 2147483647 := by
        constructor
        · exact Int.mul_nonneg (by omega) (by omega)
        · exact Int.mul_le_mul hr.2 hs (by omega) (by omega)
      have h64 : in64 (rep * (s.length : Int)) = true := by
        unfold in64 int64Min int64Max; simp only [decide_eq_true_eq]; omega
      simp only [mul64, h64, if_true, R.ok_bind]
      by_cases hbig : rep * (s.length : Int) > int32Max
      · simp [hbig]
      · simp only [hbig, if_false]
        obtain ⟨r, hr'⟩ : ∃ r : Nat, rep = (r : Int) := ⟨rep.toNat, by omega⟩
        subst hr'
        have em : ((r : Int) * (s.length : Int)) = ((r * s.length : Nat) : Int) := by simp
        simp only [em, Int.toNat_natCast]
        by_cases he : s = []
        · subst he
          simp [repeatLoop]
          cases r with
          | zero => simp [repeatLoop]
          | succ r => simp [repeatLoop]
        · have hL : 0 < s.length := by
            cases s with
            | nil => exact absurd rfl he
            | cons x xs => simp
          simp only [he, if_false, R.ofOption_some]
          have h0 := repeatLoop_spec s r hL r 0 (Array.replicate (r * s.length) 0) (by omega) (by simp) (by simp)
          simp only [Nat.zero_mul, Int.natCast_zero] at h0
          obtain ⟨buf', hb1, hb2⟩ := h0
          rw [hb1]
          simp [hb2]

example : StrC.repeatStr [1, 2] 3 = .ok [1, 2, 1, 2, 1, 2] ∧ StrC.repeatStr [] 5 = .ok [] ∧ StrC.repeatStr [1] (-1) = .panic
    ∧ StrC.repeatStr [1, 2] 2147483647 = .panic := by decide

/-! ### string/check-set -/

theorem and_two_pow_eq_zero (w k : Nat) : (w &&& 2 ^ k = 0) ↔ w.testBit k = false := by
  constructor
  · intro h
    have := congrArg (fun x => Nat.testBit x k) h
    simp only [Nat.testBit_and, Nat.testBit_two_pow, decide_true, Bool.and_true, Nat.zero_testBit] at this
    exact this
  · intro h
    apply Nat.eq_of_testBit_eq
    intro j
    rw [Nat.testBit_and, Nat.testBit_two_pow, Nat.zero_testBit]
    by_cases hj : k = j
    · subst hj; simp [h]
    · simp [hj]

theorem getD_arr_of_lt {α : Type} (a : Array α) (d : α) (i : Nat) (h : i < a.size) : a.getD i d = a[i] := by
  simp [Array.getD, h]

theorem byte_split (b c : Nat) : (b / 32 = c / 32 ∧ b % 32 = c % 32) ↔ b = c := by
  constructor
  · intro ⟨h1, h2⟩; omega
  · intro h; subst h; exact ⟨rfl, rfl⟩

theorem shl32_spec (c : Nat) : shl32 (c &&& 0x1F) = .ok (2 ^ (c % 32)) := by
  have e : c &&& 0x1F = c % 32 := Nat.and_two_pow_sub_one_eq_mod c 5
  rw [e]
  unfold shl32
  have hlt : c % 32 < 32 := Nat.mod_lt _ (by omega)
  simp only [hlt, if_true, Nat.one_shiftLeft]
  congr 1
  apply Nat.mod_eq_of_lt
  calc 2 ^ (c % 32) < 2 ^ 32 := Nat.pow_lt_pow_right (by omega) hlt
    _ = 4294967296 := by rfl

/-- invariant of the populate loop: bit `b % 32` of word `b / 32` is set iff `b` is among the bytes processed so far -/
def BitsetInv (seen : Bytes) (bitset : Array Nat) : Prop :=
  bitset.size = 8 ∧ ∀ b, b < 256 → ((bitset.getD (b / 32) 0).testBit (b % 32) = seen.contains b)

theorem populate_spec (set : Bytes) (hset : ∀ c ∈ set, c < 256) :
    ∃ bitset, forUp (checkSetPopBody set) set.length 0 (Array.replicate 8 0) = .ok bitset ∧
      BitsetInv set bitset := by
  obtain ⟨bs, hf, hP⟩ := forUp_inv (checkSetPopBody set) (fun i (bitset : Array Nat) => BitsetInv (set.take i) bitset) set.length 0
    (Array.replicate 8 0)
    ⟨by simp, fun b hb => by
      have : b / 32 < 8 := by omega
      simp [Array.getD, this]⟩
    (by
      intro i bitset _ hi ⟨hsz, hbits⟩
      have hi' : i < set.length := by omega
      have hc : set[i] < 256 := hset _ (List.getElem_mem hi')
      unfold checkSetPopBody
      rw [idx_list_ok set i hi']
      simp only [R.ok_bind, shl32_spec, Nat.shiftRight_eq_div_pow]
      have hidx : set[i] / 2 ^ 5 < bitset.size := by rw [hsz]; omega
      rw [idx_ok bitset _ hidx]
      simp only [R.ok_bind]
      rw [setIdx_ok _ _ _ hidx]
      refine ⟨_, rfl, by simpa using hsz, ?_⟩
      intro b hb
      rw [List.take_succ_eq_append_getElem hi', List.contains_append]
      have e5 : (2 : Nat) ^ 5 = 32 := by rfl
      simp only [e5] at hidx ⊢
      have hb8 : b / 32 < bitset.size := by rw [hsz]; omega
      by_cases hw : b / 32 = set[i] / 32
      · have : ((bitset.setIfInBounds (set[i] / 32) (bitset[set[i] / 32] ||| 2 ^ (set[i] % 32))).getD (b / 32) 0)
            = bitset[set[i] / 32] ||| 2 ^ (set[i] % 32) := by
          simp [Array.getD, hw, hidx]
        rw [this, Nat.testBit_or, Nat.testBit_two_pow]
        have hold := hbits b hb
        rw [getD_arr_of_lt _ _ _ hb8] at hold
        have e : bitset[set[i] / 32] = bitset[b / 32] := by simp only [hw]
        rw [e, hold]
        congr 1
        simp only [List.contains_cons, List.contains_nil, Bool.or_false]
        rw [Bool.eq_iff_iff]
        simp only [decide_eq_true_eq, beq_iff_eq]
        constructor
        · intro h; exact ((byte_split b set[i]).1 ⟨hw, h.symm⟩)
        · intro h; rw [h]
      · have hne : b ≠ set[i] := fun e => hw (by rw [e])
        have : ((bitset.setIfInBounds (set[i] / 32) (bitset[set[i] / 32] ||| 2 ^ (set[i] % 32))).getD (b / 32) 0)
            = bitset.getD (b / 32) 0 := by
          have hw' : ¬ (set[i] / 32 = b / 32) := fun e => hw e.symm
          simp [Array.getD, hb8, Array.getElem_setIfInBounds, hw']
        rw [this, hbits b hb]
        simp [hne])
  refine ⟨bs, hf, ?_⟩
  simp only [Nat.zero_add, List.take_length] at hP
  exact hP

theorem firstSome_all (set : Bytes) (s : Bytes) (i : Nat) :
    (firstSome (fun (_ : Nat) (c : Nat) => if inSet set c then none else some false) i s).getD true
      = s.all (inSet set) := by
  induction s generalizing i with
  | nil => rfl
  | cons c cs ih =>
    by_cases hc : inSet set c = true
    · simp only [firstSome, hc, if_true, List.all_cons, Bool.true_and]
      exact ih (i + 1)
    · simp only [Bool.not_eq_true] at hc
      simp only [firstSome, hc, Bool.false_eq_true, if_false, List.all_cons, Bool.false_and, Option.getD_some]

/-- ★ `string/check-set set str` with the real data structure (`uint32_t bitset[8]`, `>> 5`, `& 0x1F`, `(uint32_t)1 << k`):
    for byte strings it answers exactly "every byte of `str` occurs in `set`"; no shift amount reaches 32 and no word
    index reaches 8 (never UB — the signed `1 << 31` of the pinned tree is gone). -/
theorem checkSet_eq_spec (set s : Bytes) (hset : ∀ c ∈ set, c < 256) (hs : ∀ c ∈ s, c < 256) :
    StrC.checkSet set s = .ok (Lib.checkSet set s) := by
  unfold StrC.checkSet
  obtain ⟨bitset, hf, hsz, hbits⟩ := populate_spec set hset
  rw [hf]
  simp only [R.ok_bind]
  rw [scanUp_list0 s _ (fun _ c => if inSet set c then none else some false)
    (fun j hj => by
      have hc : s[j] < 256 := hs _ (List.getElem_mem hj)
      unfold checkSetChkBody
      rw [idx_list_ok s j hj]
      simp only [R.ok_bind, shl32_spec, Nat.shiftRight_eq_div_pow]
      have e5 : (2 : Nat) ^ 5 = 32 := by rfl
      have hidx : s[j] / 2 ^ 5 < bitset.size := by rw [hsz, e5]; omega
      rw [idx_ok bitset _ hidx]
      simp only [R.ok_bind, R.pure_eq]
      congr 1
      have hb := hbits s[j] hc
      simp only [e5] at hidx ⊢
      rw [getD_arr_of_lt _ _ _ hidx] at hb
      by_cases hz : bitset[s[j] / 32] &&& 2 ^ (s[j] % 32) = 0
      · have := (and_two_pow_eq_zero _ _).1 hz
        rw [hb] at this
        simp only [hz, if_true, inSet, this, Bool.false_eq_true, if_false]
      · have : ¬ ((bitset[s[j] / 32]).testBit (s[j] % 32) = false) := fun h => hz ((and_two_pow_eq_zero _ _).2 h)
        rw [hb] at this
        simp only [Bool.not_eq_false] at this
        simp only [hz, if_false, inSet, this, if_true])]
  simp only [R.ok_bind, R.pure_eq]
  rw [firstSome_all]
  rfl

example : StrC.checkSet [97, 255, 31] [255, 97, 97, 31] = .ok true ∧ StrC.checkSet [97, 255] [255, 98] = .ok false
    ∧ StrC.checkSet [] [] = .ok true := by decide

end JanetModel.Lib.StrC
