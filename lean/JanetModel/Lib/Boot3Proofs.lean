import JanetModel.Lib.Boot3
import JanetModel.Lib.BootProofs
/- C17: `partition` (boot.janet partition-slice) produces the consecutive chunks of the reference definition; none of its
   slice calls is out of range. -/
namespace JanetModel.Lib.Boot
open JanetModel.Lib JanetModel.Lib.JIter JanetModel.Lib.CLoop

/-- the k-th full chunk -/
def chunk {α : Type} (n : Nat) (l : List α) (k : Nat) : List α := (l.drop (k * n)).take n

theorem partitionAux_chunks {α : Type} (n : Nat) (hn : 1 ≤ n) :
    ∀ (fuel : Nat) (l : List α), l.length < fuel →
      partitionAux n fuel l = (List.range (l.length / n)).map (chunk n l)
        ++ (if (l.length / n) * n < l.length then [l.drop ((l.length / n) * n)] else []) := by
  intro fuel
  induction fuel with
  | zero => intro l h; omega
  | succ f ih =>
    intro l hl
    cases l with
    | nil => simp [partitionAux]
    | cons x xs =>
      simp only [partitionAux]
      generalize hL : (x :: xs) = l at *
      have hpos : 0 < l.length := by rw [← hL]; simp
      by_cases hge : n ≤ l.length
      · -- a full chunk, then the rest
        have hd : (l.drop n).length = l.length - n := by simp
        have hdiv : l.length / n = (l.length - n) / n + 1 := by
          rw [Nat.div_eq l.length n]; simp [hge]; omega
        rw [ih (l.drop n) (by rw [hd]; omega), hd, hdiv, List.range_succ_eq_map, List.map_cons, List.map_map]
        have hc0 : chunk n l 0 = l.take n := by simp [chunk]
        have hck : ∀ k, chunk n (l.drop n) k = chunk n l (k + 1) := by
          intro k
          unfold chunk
          rw [List.drop_drop]
          congr 2
          rw [Nat.add_mul]; omega
        have hmul : ((l.length - n) / n + 1) * n = (l.length - n) / n * n + n := by rw [Nat.add_mul]; omega
        rw [hc0]
        simp only [List.cons_append, List.cons.injEq, true_and]
        congr 1
        · apply List.map_congr_left
          intro k _
          exact hck k
        · rw [hmul]
          have hle : (l.length - n) / n * n ≤ l.length - n := Nat.div_mul_le_self _ _
          by_cases hlt : (l.length - n) / n * n < l.length - n
          · have : (l.length - n) / n * n + n < l.length := by omega
            simp only [hlt, if_true, this]
            rw [List.drop_drop]
            congr 2
            omega
          · have : ¬ ((l.length - n) / n * n + n < l.length) := by omega
            simp only [hlt, if_false, this]
      · -- fewer than n elements: one short chunk
        have hdiv : l.length / n = 0 := Nat.div_eq_of_lt (by omega)
        have hdn : l.drop n = [] := List.drop_of_length_le (by omega)
        have htk : l.take n = l := List.take_of_length_le (by omega)
        rw [hdn, htk, hdiv]
        cases f with
        | zero => simp [partitionAux, hpos]
        | succ f' => simp [partitionAux, hpos]

theorem partitionBody_spec {α : Type} (n : Nat) (hn : 1 ≤ n) (ind : List α) (k : Nat) (hk : (k + 1) * n ≤ ind.length)
    (ret : Array (List α)) (hsz : k < ret.size) :
    partitionBody (n : Int) ind k (ret, ((k * n : Nat) : Int), (((k + 1) * n : Nat) : Int))
      = .ok (ret.setIfInBounds k (chunk n ind k), (((k + 1) * n : Nat) : Int), (((k + 2) * n : Nat) : Int)) := by
  unfold partitionBody
  have e : (k + 1) * n = k * n + n := by rw [Nat.add_mul]; omega
  have e2 : (k + 2) * n = (k + 1) * n + n := by rw [Nat.add_mul, Nat.add_mul]; omega
  simp only
  rw [slice_nat ind (k * n) ((k + 1) * n) (by omega) hk]
  simp only [R.ofOption_some, R.ok_bind]
  rw [setIdx_ok _ _ _ hsz]
  simp only [R.ok_bind, R.pure_eq]
  have h1 : (k + 1) * n - k * n = n := by omega
  have h2 : (((k + 1) * n : Nat) : Int) + (n : Int) = (((k + 2) * n : Nat) : Int) := by rw [e2]; omega
  unfold chunk
  rw [h1, h2]


/-- ★ `(partition n ind)` for a positive integer `n`: `⌊len / n⌋` full chunks written into a pre-sized array plus one
    shorter chunk when elements remain; every `(f ind start end)` has `0 ≤ start ≤ end ≤ len` (no slice call raises) -/
theorem partition_eq_spec {α : Type} (n : Nat) (hn : 1 ≤ n) (ind : List α) :
    Boot.partition (n : Int) ind = .ok (Lib.partition n ind) := by
  unfold Boot.partition partitionSlice Lib.partition
  have hn' : ¬ ((n : Int) ≤ 0) := by omega
  simp only [hn', if_false]
  have hparts : ((ind.length : Int) / (n : Int)).toNat = ind.length / n := by
    have : (ind.length : Int) / (n : Int) = ((ind.length / n : Nat) : Int) := by simp
    rw [this]; exact Int.toNat_natCast _
  rw [hparts]
  have hle : ind.length / n * n ≤ ind.length := Nat.div_mul_le_self _ _
  obtain ⟨⟨ret, start, end_⟩, hf, hP⟩ := forUp_inv (partitionBody (n : Int) ind)
    (fun k (st : Array (List α) × Int × Int) => Filled (ind.length / n) (chunk n ind) k st.1 ∧
      st.2.1 = ((k * n : Nat) : Int) ∧ st.2.2 = (((k + 1) * n : Nat) : Int))
    (ind.length / n) 0 (Array.replicate (ind.length / n) [], 0, (n : Int))
    ⟨Filled.init _ _ _, by simp, by simp⟩
    (by
      intro k ⟨ret, start, end_⟩ _ hk ⟨hF, hs, he⟩
      simp only at hs he hF
      subst hs; subst he
      have hk' : k + 1 ≤ ind.length / n := by omega
      have hmul : (k + 1) * n ≤ ind.length / n * n := Nat.mul_le_mul_right n hk'
      rw [partitionBody_spec n hn ind k (by omega) ret (by rw [hF.1]; omega)]
      exact ⟨_, rfl, hF.step (by omega), rfl, rfl⟩)
  rw [hf]
  simp only [R.ok_bind]
  obtain ⟨hF, hs, _⟩ := hP
  rw [Nat.zero_add] at hF hs
  simp only at hs hF
  subst hs
  have hret := toList_of_cells ret (ind.length / n) (chunk n ind) hF.1 (fun k hk => hF.2 k hk)
  rw [partitionAux_chunks n hn (ind.length + 1) ind (by omega)]
  by_cases hlt : ind.length / n * n < ind.length
  · have : ((ind.length / n * n : Nat) : Int) < (ind.length : Int) := by omega
    simp only [this, if_true, hlt]
    rw [slice_nat_open ind _ hle]
    simp only [R.ofOption_some, R.ok_bind, R.pure_eq, Array.toList_push, hret]
  · have : ¬ (((ind.length / n * n : Nat) : Int) < (ind.length : Int)) := by omega
    simp only [this, if_false, hlt, R.pure_eq, R.ok_bind, hret, List.append_nil]

example : Boot.partition 2 [1, 2, 3, 4, 5] = .ok [[1, 2], [3, 4], [5]] ∧ Boot.partition 3 [1, 2, 3] = .ok [[1, 2, 3]]
    ∧ Boot.partition 4 ([] : List Nat) = .ok [] ∧ Boot.partition 0 [1] = .panic := by decide

end JanetModel.Lib.Boot
