/- C17: memory-level model of buffer.c growth + copy order, for the self-aliasing theorems
   (`(buffer/push b b)`, `(buffer/push-string b b)`, `(buffer/blit b b …)`).

   A buffer is a block of cells (`none` = indeterminate: never written since malloc / realloc growth), a count and an
   allocation generation.  `realloc` is modelled in its worst case: it always moves the block (generation + 1), so a
   pointer taken before it is dangling and reading through it is undefined (`none`).  The cfuns are mirrored with the
   C's order of  view-taking / ensure / extra / memcpy;  whether the C re-fetches the pointer after `ensure` is a
   generated fact (`Gen.Lib.pushSelfGuard`, `Gen.Lib.blitSelfGuard`).  Core Lean only. -/
import JanetModel.Gen.Lib
namespace JanetModel.Lib.BufMem

structure Buf where
  data : List (Option Nat)     -- length = capacity
  count : Nat
  gen : Nat
  deriving Repr, DecidableEq

/-- a source pointer: memory independent of the buffer, or the buffer's data block as it was at generation `gen` -/
inductive Src where
  | ext (bs : List Nat)
  | dataAt (gen : Nat)
  deriving Repr, DecidableEq

def allSome : List (Option Nat) → Option (List Nat)
  | [] => some []
  | none :: _ => none
  | some x :: rest => match allSome rest with | none => none | some l => some (x :: l)

/-- read `len` bytes at `off` through a pointer; `none` = undefined behaviour (dangling pointer / out of bounds /
    indeterminate bytes) -/
def readSrc (b : Buf) (s : Src) (off len : Nat) : Option (List Nat) :=
  match s with
  | .ext bs => if off + len ≤ bs.length then some ((bs.drop off).take len) else none
  | .dataAt g =>
    if g ≠ b.gen then none
    else if off + len ≤ b.data.length then allSome ((b.data.drop off).take len) else none

/-- worst-case realloc to `cap ≥ capacity`: the block moves, old cells are copied, new cells are indeterminate -/
def realloc (b : Buf) (cap : Nat) : Buf :=
  { data := b.data ++ List.replicate (cap - b.data.length) none, count := b.count, gen := b.gen + 1 }

/-- `janet_buffer_ensure(buffer, capacity, growth)` -/
def ensure (b : Buf) (capacity growth : Nat) : Buf :=
  if capacity ≤ b.data.length then b else realloc b (capacity * growth)

/-- `janet_buffer_extra(buffer, n)` -/
def extra (b : Buf) (n : Nat) : Buf :=
  if b.count + n > b.data.length then realloc b ((b.count + n) * 2) else b

def writeAt (data : List (Option Nat)) (off : Nat) (bs : List Nat) : List (Option Nat) :=
  data.take off ++ bs.map some ++ data.drop (off + bs.length)

/-- `janet_buffer_push_bytes(buffer, string, length)`: extra, then memcpy (which reads the source *after* the possible
    realloc and must not overlap the destination), then `count += length`. -/
def pushBytes (b : Buf) (s : Src) (len : Nat) : Option Buf :=
  if len = 0 then some b else
  let b1 := extra b len
  match readSrc b1 s 0 len with
  | none => none
  | some bs =>
    -- memcpy: source [0,len) and destination [count,count+len) of the same block must be disjoint
    if (match s with | .dataAt _ => decide (len ≤ b1.count) | .ext _ => true) then
      some { b1 with data := writeAt b1.data b1.count bs, count := b1.count + len }
    else none

/-- one `view`-argument of `buffer/push` / `buffer/push-string` that is the destination buffer itself:
      JanetByteView view = janet_getbytes(argv, i);
      if (view.bytes == buffer->data) { janet_buffer_ensure(buffer, buffer->count + view.len, 2); view.bytes = buffer->data; }
      janet_buffer_push_bytes(buffer, view.bytes, view.len);
    (`viaExtra = true`: the guard grows with `janet_buffer_extra(buffer, view.len)` instead, as /repo does since the
    64-bit length check was introduced.)  `guard = false` models the code without the `if`. -/
def pushSelf (guard : Bool) (b : Buf) (viaExtra : Bool := false) : Option Buf :=
  let len := b.count
  let view := Src.dataAt b.gen
  if guard then
    let b1 := if viaExtra then extra b len else ensure b (b.count + len) 2
    pushBytes b1 (Src.dataAt b1.gen) len
  else pushBytes b view len

/-- pushing an independent byte sequence -/
def pushExt (b : Buf) (bs : List Nat) : Option Buf := pushBytes b (Src.ext bs) bs.length

/-- `buffer/blit dest dest od os (os+len)` with already decoded offsets, `src` being `dest` itself:
      int same_buf = src.bytes == dest->data;  …  janet_buffer_ensure(dest, last, 2); if (last > count) count = last;
      if (same_buf) { src.bytes = dest->data; memmove(…) } else memcpy(…)
    `guard = false` models taking the memcpy branch with the pointer fetched before `ensure`. -/
def blitSelf (guard : Bool) (b : Buf) (od os len : Nat) : Option Buf :=
  let src0 := Src.dataAt b.gen
  let last := od + len
  let b1 := ensure b last 2
  let b2 : Buf := { b1 with count := if last > b1.count then last else b1.count }
  if len = 0 then some b2 else
  if guard then
    match readSrc b2 (Src.dataAt b2.gen) os len with
    | none => none
    | some bs => some { b2 with data := writeAt b2.data od bs }
  else
    match readSrc b2 src0 os len with
    | none => none
    | some bs => if os + len ≤ od ∨ od + len ≤ os then some { b2 with data := writeAt b2.data od bs } else none

/-- the visible contents: the first `count` cells, all of which must be determinate -/
def contents (b : Buf) : Option (List Nat) :=
  if b.count ≤ b.data.length then allSome (b.data.take b.count) else none

end JanetModel.Lib.BufMem
