import JanetModel.Lib.FormatC
/- C17 (session 4): pp.c `scanformat` (mirror Lib/FormatC.lean) reads exactly the directive syntax that the reference
   formatter `Format.go` uses (`FormatC.parse`: the same expressions), raises exactly in the two "invalid format" cases, never
   reads past the terminating NUL of the format and never writes outside `char form[MAX_FORMAT]`. -/
namespace JanetModel.Lib.FormatC
open JanetModel.Lib JanetModel.Lib.Format JanetModel.Lib.CLoop

/-- the character at offset `p` of the NUL-terminated string -/
def chr (rest : Bytes) (p : Nat) : Nat := (rest.drop p).headD 0

theorem idx_s (rest : Bytes) (p : Nat) (hp : p ≤ rest.length) : idx (rest ++ [0]).toArray (p : Int) = .ok (chr rest p) := by
  rw [idx_list_ok (rest ++ [0]) p (by simp; omega)]
  congr 1
  unfold chr
  by_cases h : p < rest.length
  · rw [List.getElem_append_left h, List.drop_eq_getElem_cons h]; rfl
  · have : p = rest.length := by omega
    subst this
    simp

theorem drop_cons_succ {α : Type} (l : List α) (p : Nat) (c : α) (t : List α) (h : l.drop p = c :: t) :
    l.drop (p + 1) = t ∧ p < l.length ∧ c ∈ l := by
  have hp : p < l.length := by
    rcases Nat.lt_or_ge p l.length with h' | h'
    · exact h'
    · rw [List.drop_of_length_le h'] at h; exact absurd h (by simp)
  refine ⟨?_, hp, ?_⟩
  · rw [← List.drop_drop, h]; rfl
  · have : c ∈ l.drop p := by rw [h]; simp
    exact List.mem_of_mem_drop this

theorem skipFlags_spec (rest : Bytes) (hz : ∀ c ∈ rest, c ≠ 0) : ∀ fuel p, p ≤ rest.length → rest.length - p < fuel →
    skipFlags (rest ++ [0]).toArray fuel p = .ok (p + ((rest.drop p).takeWhile isFlag).length) := by
  intro fuel
  induction fuel with
  | zero => intro p _ h; omega
  | succ n ih =>
    intro p hp hf
    unfold skipFlags
    rw [idx_s rest p hp]
    simp only [R.ok_bind, chr]
    cases h : rest.drop p with
    | nil => simp
    | cons c t =>
      obtain ⟨ht, hlt, hc⟩ := drop_cons_succ rest p c t h
      simp only [List.headD_cons, List.takeWhile_cons]
      by_cases hfl : isFlag c = true
      · simp only [hz c hc, ne_eq, not_false_eq_true, hfl, and_self, if_true]
        rw [ih (p + 1) (by omega) (by omega), ht]
        simp only [List.length_cons]
        congr 1; omega
      · simp [hfl]

theorem digitStep_spec (rest : Bytes) (acc : Bytes) (p : Nat) (hp : p ≤ rest.length) :
    digitStep (rest ++ [0]).toArray (acc, p) = .ok (if isDigit (chr rest p) = true then (acc ++ [chr rest p], p + 1) else (acc, p)) := by
  unfold digitStep
  rw [idx_s rest p hp]
  simp only [R.ok_bind]
  by_cases h : isDigit (chr rest p) = true <;> simp [h]

theorem chr_lt_of_digit (rest : Bytes) (p : Nat) (h : isDigit (chr rest p) = true) : p < rest.length := by
  rcases Nat.lt_or_ge p rest.length with h' | h'
  · exact h'
  · unfold chr at h
    rw [List.drop_of_length_le h'] at h
    simp [isDigit] at h

/-- ★ the two digit statements read `((rest.drop p).takeWhile isDigit).take 2` -/
theorem twoDigits_spec (rest : Bytes) (p : Nat) (hp : p ≤ rest.length) :
    twoDigits (rest ++ [0]).toArray p
      = .ok (((rest.drop p).takeWhile isDigit).take 2, p + (((rest.drop p).takeWhile isDigit).take 2).length) := by
  unfold twoDigits
  rw [digitStep_spec rest [] p hp]
  simp only [R.ok_bind]
  cases h : rest.drop p with
  | nil =>
    have : chr rest p = 0 := by simp [chr, h]
    have hd : isDigit 0 = false := by decide
    simp only [this, hd, Bool.false_eq_true, if_false]
    rw [digitStep_spec rest [] p hp]
    simp [this, hd]
  | cons c t =>
    obtain ⟨ht, hlt, _⟩ := drop_cons_succ rest p c t h
    have hc : chr rest p = c := by simp [chr, h]
    by_cases hdc : isDigit c = true
    · simp only [hc, hdc, if_true, List.nil_append]
      rw [digitStep_spec rest [c] (p + 1) (by omega)]
      have hc1 : chr rest (p + 1) = t.headD 0 := by simp [chr, ht]
      rw [hc1]
      cases t with
      | nil =>
        have hd : isDigit 0 = false := by decide
        simp [hd, hdc, List.takeWhile]
      | cons d t' =>
        by_cases hdd : isDigit d = true
        · simp [hdd, hdc, List.takeWhile]
        · simp [hdd, hdc, List.takeWhile]
    · have hdc' : isDigit c = false := by simpa using hdc
      simp only [hc, hdc', Bool.false_eq_true, if_false]
      rw [digitStep_spec rest [] p hp]
      simp [hc, hdc', List.takeWhile]

theorem drop_takeWhile_length {α : Type} (f : α → Bool) : ∀ l : List α, l.drop (l.takeWhile f).length = l.dropWhile f
  | [] => rfl
  | x :: xs => by
    by_cases h : f x = true
    · simp [List.takeWhile, List.dropWhile, h, drop_takeWhile_length f xs]
    · simp [List.takeWhile, List.dropWhile, h]

theorem takeWhile_length_le {α : Type} (f : α → Bool) : ∀ l : List α, (l.takeWhile f).length ≤ l.length
  | [] => Nat.le_refl _
  | x :: xs => by
    by_cases h : f x = true
    · simp [List.takeWhile, h]; exact takeWhile_length_le f xs
    · simp [List.takeWhile, h]

theorem take2_len (r : Bytes) : ((r.takeWhile isDigit).take 2).length ≤ 2 ∧ ((r.takeWhile isDigit).take 2).length ≤ r.length := by
  constructor
  · simp [List.length_take]; omega
  · have := takeWhile_length_le isDigit r
    simp only [List.length_take]; omega

/-- ★ the copy loop stays inside `form[MAX_FORMAT]` and inside the format string -/
theorem writeForm_ok (rest : Bytes) (p : Nat) (hp : p ≤ rest.length) : ∀ (fuel p2 : Nat) (form : Array Nat) (pos : Nat),
    form.size = maxFormat → p2 ≤ p + 1 → p + 1 - p2 < fuel → pos + 2 * (p + 1 - p2) < maxFormat →
    ∃ form' pos', writeForm (rest ++ [0]).toArray p fuel p2 form pos = .ok (form', pos') ∧ form'.size = maxFormat ∧
      pos' ≤ pos + 2 * (p + 1 - p2) := by
  intro fuel
  induction fuel with
  | zero => intro p2 form pos _ _ h; omega
  | succ n ih =>
    intro p2 form pos hsz hp2 hf hroom
    unfold writeForm
    by_cases hle : p2 ≤ p
    · simp only [hle, if_true]
      rw [idx_s rest p2 (by omega)]
      simp only [R.ok_bind]
      by_cases hc : chr rest p2 ≠ 0 ∧ isIntType (chr rest p2) = true
      · simp only [hc.1, hc.2, ne_eq, not_false_eq_true, and_self, if_true]
        rw [setIdx_ok form pos 108 (by rw [hsz]; omega)]
        simp only [R.ok_bind]
        rw [setIdx_ok (form.setIfInBounds pos 108) (pos + 1) _ (by rw [Array.size_setIfInBounds, hsz]; omega)]
        simp only [R.ok_bind]
        obtain ⟨f', q', h1, h2, h3⟩ := ih (p2 + 1) ((form.setIfInBounds pos 108).setIfInBounds (pos + 1) (chr rest p2)) (pos + 2)
          (by rw [Array.size_setIfInBounds, Array.size_setIfInBounds]; exact hsz) (by omega) (by omega) (by omega)
        exact ⟨f', q', h1, h2, by omega⟩
      · simp only [hc, if_false]
        rw [setIdx_ok form pos _ (by rw [hsz]; omega)]
        simp only [R.ok_bind]
        obtain ⟨f', q', h1, h2, h3⟩ := ih (p2 + 1) (form.setIfInBounds pos (chr rest p2)) (pos + 1)
          (by rw [Array.size_setIfInBounds]; exact hsz) (by omega) (by omega) (by omega)
        exact ⟨f', q', h1, h2, by omega⟩
    · simp only [hle, if_false]
      exact ⟨form, pos, rfl, hsz, by omega⟩

/-- the end of the scan, at an offset inside the string and at most 10 (5 flags, 2 + 1 + 2 characters of width / precision) -/
theorem finish_spec (rest : Bytes) (p : Nat) (w pr : Bytes) (hp : p ≤ rest.length) (h10 : p ≤ 10) :
    (isDigit (chr rest p) = true → finish (rest ++ [0]).toArray p w pr = .panic) ∧
    (isDigit (chr rest p) = false →
      ∃ form, finish (rest ++ [0]).toArray p w pr = .ok { p := p, width := w, precision := pr, form := form } ∧
        form.length < maxFormat) := by
  unfold finish
  rw [idx_s rest p hp]
  simp only [R.ok_bind]
  refine ⟨fun h => by simp [h], fun h => ?_⟩
  simp only [h, Bool.false_eq_true, if_false]
  have h0 : setIdx (Array.replicate maxFormat 0) 0 37 = .ok ((Array.replicate maxFormat 0).setIfInBounds 0 37) := by
    have := setIdx_ok (Array.replicate maxFormat 0) 0 37 (by simp [maxFormat])
    simpa using this
  rw [h0]
  simp only [R.ok_bind]
  obtain ⟨form', pos', hw, hsz, hpos⟩ := writeForm_ok rest p hp (p + 2) 0 ((Array.replicate maxFormat 0).setIfInBounds 0 37) 1
    (by simp) (by omega) (by omega) (by unfold maxFormat; omega)
  rw [hw]
  simp only [R.ok_bind]
  have hlt : pos' < form'.size := by rw [hsz]; unfold maxFormat; omega
  rw [setIdx_ok form' pos' 0 hlt]
  simp only [R.ok_bind, R.pure_eq]
  refine ⟨_, rfl, ?_⟩
  simp only [List.length_take, Array.toList_setIfInBounds, List.length_set, Array.length_toList, hsz]
  unfold maxFormat at *
  omega

/-- the last step of `parse`, in terms of the character at the offset -/
theorem parse_tail (rest : Bytes) (p3 : Nat) (hp3 : p3 ≤ rest.length) (w : Bytes) (pr : Option Bytes) :
    parseTail rest.length w pr (rest.drop p3) = if isDigit (chr rest p3) = true then none else some (p3, w, pr.getD []) := by
  unfold chr parseTail
  cases h : rest.drop p3 with
  | nil =>
    have hd : isDigit 0 = false := by decide
    have : p3 = rest.length := by
      have := List.drop_eq_nil_iff.mp h; omega
    simp [hd, this]
  | cons c t =>
    have hl : (rest.drop p3).length = rest.length - p3 := by simp
    rw [h] at hl
    simp only [List.headD_cons]
    by_cases hd : isDigit c = true
    · simp [hd]
    · simp only [hd, Bool.false_eq_true, if_false]
      congr 2
      rw [hl]; omega

theorem precPart_other (c : Nat) (r : Bytes) (h : c ≠ 46) : precPart (c :: r) = (none, c :: r) := by
  unfold precPart
  split
  · rename_i heq; simp only [List.cons.injEq] at heq; exact absurd heq.1 h
  · rfl

/-- ★★ `scanformat` = the directive syntax of the reference formatter: same offset of the conversion character, same width
    and precision digits, an error exactly for ≥ 6 flags or a third digit; every read is before the terminating NUL's
    successor, every write inside `form[MAX_FORMAT]` (the mirror never returns `.ub`) -/
theorem scanformat_spec (rest : Bytes) (hz : ∀ c ∈ rest, c ≠ 0) :
    (parse rest = none → scanformat rest = .panic) ∧
    (∀ p w pr, parse rest = some (p, w, pr) →
      ∃ form, scanformat rest = .ok { p := p, width := w, precision := pr, form := form } ∧ form.length < maxFormat) := by
  have hp0 : (rest.takeWhile isFlag).length ≤ rest.length := takeWhile_length_le isFlag rest
  have hskip := skipFlags_spec rest hz (rest ++ [0]).toArray.size 0 (Nat.zero_le _) (by simp)
  simp only [List.drop_zero, Nat.zero_add] at hskip
  unfold scanformat parse
  simp only [hskip, R.ok_bind, sizeofFmtFlags]
  by_cases h6 : (rest.takeWhile isFlag).length ≥ 6
  · simp [h6]
  · simp only [h6, if_false]
    rw [twoDigits_spec rest _ hp0, drop_takeWhile_length]
    simp only [R.ok_bind]
    -- the width digits
    generalize hw : ((rest.dropWhile isFlag).takeWhile isDigit).take 2 = w
    have hwl := take2_len (rest.dropWhile isFlag)
    rw [hw] at hwl
    have hr1 : (rest.dropWhile isFlag).length = rest.length - (rest.takeWhile isFlag).length := by
      rw [← drop_takeWhile_length]; simp
    have hp1 : (rest.takeWhile isFlag).length + w.length ≤ rest.length := by omega
    have hr2 : rest.drop ((rest.takeWhile isFlag).length + w.length) = (rest.dropWhile isFlag).drop w.length := by
      rw [← drop_takeWhile_length, List.drop_drop]
    rw [idx_s rest _ hp1]
    simp only [R.ok_bind]
    unfold chr
    rw [hr2]
    cases hr : (rest.dropWhile isFlag).drop w.length with
    | nil =>
      have hne : ¬ ((0 : Nat) = 46) := by decide
      simp only [List.headD_nil, hne, if_false, R.pure_eq, R.ok_bind]
      have hf := finish_spec rest ((rest.takeWhile isFlag).length + w.length) w [] hp1 (by omega)
      have hpt := parse_tail rest ((rest.takeWhile isFlag).length + w.length) hp1 w none
      rw [hr2, hr] at hpt
      have hpp : precPart ([] : Bytes) = (none, []) := rfl
      rw [hpp]
      simp only
      rw [hpt]
      simp only [Option.getD_none]
      by_cases hd : isDigit (chr rest ((rest.takeWhile isFlag).length + w.length)) = true
      · simp only [hd, if_true]
        exact ⟨fun _ => hf.1 hd, fun p w' pr h => by simp at h⟩
      · have hd' : isDigit (chr rest ((rest.takeWhile isFlag).length + w.length)) = false := by simpa using hd
        simp only [hd', Bool.false_eq_true, if_false]
        refine ⟨fun h => by simp at h, fun p w' pr h => ?_⟩
        simp only [Option.some.injEq, Prod.mk.injEq] at h
        obtain ⟨rfl, rfl, rfl⟩ := h
        exact hf.2 hd'
    | cons c r =>
      simp only [List.headD_cons]
      by_cases h46 : c = 46
      · subst h46
        simp only [if_true]
        have hlt : (rest.takeWhile isFlag).length + w.length < rest.length := by
          have : ((rest.dropWhile isFlag).drop w.length).length = rest.length - ((rest.takeWhile isFlag).length + w.length) := by
            rw [← hr2]; simp
          rw [hr] at this
          simp only [List.length_cons] at this
          omega
        rw [twoDigits_spec rest _ (by omega)]
        have hr3 : rest.drop ((rest.takeWhile isFlag).length + w.length + 1) = r := by
          rw [← List.drop_drop, hr2, hr]; rfl
        rw [hr3]
        simp only [R.ok_bind]
        generalize hds : (r.takeWhile isDigit).take 2 = ds
        have hdl := take2_len r
        rw [hds] at hdl
        have hrl : r.length = rest.length - ((rest.takeWhile isFlag).length + w.length + 1) := by
          rw [← hr3]; simp
        have hp3 : (rest.takeWhile isFlag).length + w.length + 1 + ds.length ≤ rest.length := by omega
        have hf := finish_spec rest ((rest.takeWhile isFlag).length + w.length + 1 + ds.length) w ds hp3 (by omega)
        have hpt := parse_tail rest ((rest.takeWhile isFlag).length + w.length + 1 + ds.length) hp3 w (some ds)
        have hr4 : rest.drop ((rest.takeWhile isFlag).length + w.length + 1 + ds.length) = r.drop ds.length := by
          rw [← List.drop_drop, hr3]
        rw [hr4] at hpt
        have hpp : precPart (46 :: r) = (some ds, r.drop ds.length) := by
          unfold precPart; simp only [hds]
        rw [hpp]
        simp only
        rw [hpt]
        simp only [Option.getD_some]
        by_cases hd : isDigit (chr rest ((rest.takeWhile isFlag).length + w.length + 1 + ds.length)) = true
        · simp only [hd, if_true]
          exact ⟨fun _ => hf.1 hd, fun p w' pr h => by simp at h⟩
        · have hd' : isDigit (chr rest ((rest.takeWhile isFlag).length + w.length + 1 + ds.length)) = false := by simpa using hd
          simp only [hd', Bool.false_eq_true, if_false]
          refine ⟨fun h => by simp at h, fun p w' pr h => ?_⟩
          simp only [Option.some.injEq, Prod.mk.injEq] at h
          obtain ⟨rfl, rfl, rfl⟩ := h
          exact hf.2 hd'
      · simp only [h46, if_false, R.pure_eq, R.ok_bind]
        have hf := finish_spec rest ((rest.takeWhile isFlag).length + w.length) w [] hp1 (by omega)
        have hpt := parse_tail rest ((rest.takeWhile isFlag).length + w.length) hp1 w none
        rw [hr2, hr] at hpt
        rw [precPart_other c r h46]
        simp only
        rw [hpt]
        simp only [Option.getD_none]
        by_cases hd : isDigit (chr rest ((rest.takeWhile isFlag).length + w.length)) = true
        · simp only [hd, if_true]
          exact ⟨fun _ => hf.1 hd, fun p w' pr h => by simp at h⟩
        · have hd' : isDigit (chr rest ((rest.takeWhile isFlag).length + w.length)) = false := by simpa using hd
          simp only [hd', Bool.false_eq_true, if_false]
          refine ⟨fun h => by simp at h, fun p w' pr h => ?_⟩
          simp only [Option.some.injEq, Prod.mk.injEq] at h
          obtain ⟨rfl, rfl, rfl⟩ := h
          exact hf.2 hd'

/-- ★ the reference formatter raises on a directive exactly where `scanformat` does: if the scanner raises (≥ 6 flags, a
    third digit), `Format.go` — which reads the directive with the same expressions — stops with an error and the output
    produced so far -/
theorem go_error_of_scan_panic (fuel : Nat) (rest : Bytes) (hz : ∀ c ∈ rest, c ≠ 0) (c0 : Nat) (r0 : Bytes) (hr : rest = c0 :: r0)
    (h37 : c0 ≠ 37) (a : FArg) (args : List FArg) (out : Bytes) (hs : scanformat rest = .panic) :
    go (fuel + 1) (37 :: rest) (a :: args) out = .err out := by
  have hpn : parse rest = none := by
    cases hp : parse rest with
    | none => rfl
    | some t =>
      obtain ⟨p, w, pr⟩ := t
      obtain ⟨form, hok, _⟩ := (scanformat_spec rest hz).2 p w pr hp
      rw [hok] at hs
      exact absurd hs (by simp)
  subst hr
  unfold parse at hpn
  simp only at hpn
  unfold go
  have h1 : ((37 : Nat) != 37) = false := by decide
  simp only [h1, Bool.false_eq_true, if_false]
  split
  · rename_i heq; simp at heq
  · rename_i heq; simp only [List.cons.injEq] at heq; exact absurd heq.1 h37
  · by_cases h6 : ((c0 :: r0).takeWhile isFlag).length ≥ 6
    · simp only [h6, if_true]
    · simp only [h6, if_false] at hpn ⊢
      unfold parseTail at hpn
      split at hpn
      · rename_i conv tl heq
        by_cases hd : isDigit conv = true
        · simp only [heq, hd, if_true]
        · simp [hd] at hpn
      · simp at hpn

/-! ## the item step -/

/-- with `item[n]`, `snprintf(item, n, …)` and the test `nb >= n` (n ≥ 1): the item is appended exactly or the call raises -/
theorem itemStep_ge (n : Nat) (hn : 1 ≤ n) (out full : Bytes) :
    itemStep n n n true out full = if full.length ≥ n then .panic else .ok (out ++ full) := by
  unfold itemStep snprintfItem
  have hb : ¬ n = 0 := by omega
  have hk : ¬ (List.take (n - 1) full).length + 1 > n := by simp only [List.length_take]; omega
  simp only [hb, hk, if_false, R.ok_bind, if_true]
  by_cases hL : full.length ≥ n
  · have : ((full.length : Int) ≥ (n : Int)) := by exact_mod_cast hL
    simp [hL, this]
  · have h1 : ¬ ((full.length : Int) ≥ (n : Int)) := by omega
    simp only [h1, hL, if_false]
    by_cases h0 : (full.length : Int) > 0
    · simp only [h0, if_true]
      unfold pushItem
      have hneg : ¬ ((full.length : Int) < 0) := by omega
      have htake : List.take (n - 1) full = full := List.take_of_length_le (by omega)
      simp only [hneg, if_false, Int.toNat_natCast, htake, List.size_toArray, List.length_append, List.length_cons,
        List.length_nil, List.length_replicate]
      have hsz : full.length ≤ full.length + (0 + 1) + (n - (full.length + 1)) := by omega
      simp only [hsz, if_true, List.append_assoc, List.take_left']
    · have : full = [] := by
        cases full with
        | nil => rfl
        | cons a t => simp at h0
      subst this
      simp

/-- the strict test `nb > n` lets an item of exactly `n` bytes through: the `n − 1` bytes that fit and the terminating NUL
    are appended (what the merged check `if (nb > 0) { if (nb > MAX_ITEM) …` would do) -/
theorem itemStep_gt_pushes_terminator (n : Nat) (hn : 1 ≤ n) (out full : Bytes) (hL : full.length = n) :
    itemStep n n n false out full = .ok (out ++ full.take (n - 1) ++ [0]) := by
  unfold itemStep snprintfItem
  have hb : ¬ n = 0 := by omega
  have hk : ¬ (List.take (n - 1) full).length + 1 > n := by simp only [List.length_take]; omega
  have h1 : ¬ ((full.length : Int) > (n : Int)) := by omega
  have h0 : (full.length : Int) > 0 := by omega
  simp only [hb, hk, if_false, R.ok_bind, h1, h0, if_true, Bool.false_eq_true]
  unfold pushItem
  have hneg : ¬ ((full.length : Int) < 0) := by omega
  have hlen : (List.take (n - 1) full).length = n - 1 := by simp only [List.length_take]; omega
  simp only [Int.toNat_natCast, List.size_toArray, List.length_append, List.length_cons,
    List.length_nil, List.length_replicate, hlen, hL]
  have hneg' : ¬ ((n : Int) < 0) := by omega
  have hsz : n ≤ n - 1 + (0 + 1) + (n - (n - 1 + 1)) := by omega
  simp only [hneg', hsz, if_false, if_true]
  have e : List.take n (List.take (n - 1) full ++ [0] ++ List.replicate (n - (n - 1 + 1)) indeterminate)
      = List.take (n - 1) full ++ [0] := by
    have hl2 : (List.take (n - 1) full ++ [0]).length = n := by
      simp only [List.length_append, hlen, List.length_cons, List.length_nil]; omega
    rw [List.take_append, List.take_of_length_le (by omega), hl2, Nat.sub_self, List.take_zero, List.append_nil]
  rw [e, List.append_assoc]

example : scanformat [45, 48, 49, 50, 46, 51, 100, 65]
    = .ok { p := 6, width := [49, 50], precision := [51], form := [37, 45, 48, 49, 50, 46, 51, 108, 100] } ∧
    scanformat [45, 45, 45, 45, 45, 45, 100] = .panic ∧ scanformat [49, 50, 51, 100] = .panic := by decide

end JanetModel.Lib.FormatC
