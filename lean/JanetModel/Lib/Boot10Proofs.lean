import JanetModel.Lib.Boot10
import JanetModel.Lib.BootProofs
import JanetModel.Lib.CLoop
/- C17 (session 4): `reverse!` reverses in place for every length (no `in` / `put` outside the array, the loop ends within
   `count + 1` tests); `merge` / `merge-into` equal the fold of `assocPut` (later collections win). -/
namespace JanetModel.Lib.Boot
open JanetModel.Lib JanetModel.Lib.JIter JanetModel.Lib.CLoop

theorem inInt_ok {α : Type} (t : Array α) (i : Nat) (h : i < t.size) : inInt t (i : Int) = .ok t[i] := by
  unfold inInt
  have : ¬ ((i : Int) < 0) := by omega
  simp [this, h]

/-- the array after `k` swaps: the outer `k` cells on both sides are mirrored, the middle is untouched -/
def RevInv {α : Type} (t a : Array α) (k : Nat) : Prop :=
  a.size = t.size ∧ ∀ p, a[p]? = if p < t.size ∧ (p < k ∨ t.size - k ≤ p) then t[t.size - 1 - p]? else t[p]?

theorem reverseBangLoop_spec {α : Type} (t : Array α) : ∀ (fuel k : Nat) (a : Array α), 2 * k ≤ t.size →
    t.size + 1 ≤ fuel + k → RevInv t a k →
    ∃ r, reverseBangLoop fuel a (k : Int) ((t.size : Int) - (k : Int)) = .ok r ∧ r.size = t.size ∧
      ∀ p, p < t.size → r[p]? = t[t.size - 1 - p]? := by
  intro fuel
  induction fuel with
  | zero => intro k a h2 hf _; omega
  | succ n ih =>
    intro k a h2 hf ⟨hsz, hc⟩
    unfold reverseBangLoop
    simp only
    by_cases hlt : (k : Int) < (t.size : Int) - (k : Int) - 1
    · simp only [hlt, if_true]
      have hj : (t.size : Int) - (k : Int) - 1 = ((t.size - k - 1 : Nat) : Int) := by omega
      have hkn : k < a.size := by omega
      have hjn : t.size - k - 1 < a.size := by omega
      rw [hj, inInt_ok a k hkn, inInt_ok a (t.size - k - 1) hjn]
      simp only [R.ok_bind]
      rw [setIdx_ok _ _ _ hkn]
      simp only [R.ok_bind]
      rw [setIdx_ok _ _ _ (by simp; omega)]
      simp only [R.ok_bind]
      have hk1 : (k : Int) + 1 = ((k + 1 : Nat) : Int) := by omega
      have hj1 : ((t.size - k - 1 : Nat) : Int) = (t.size : Int) - ((k + 1 : Nat) : Int) := by omega
      rw [hk1, hj1]
      apply ih (k + 1) _ (by omega) (by omega)
      refine ⟨by simp [hsz], fun p => ?_⟩
      simp only [Array.getElem?_setIfInBounds, Array.size_setIfInBounds]
      have hak : a[k]? = t[k]? := by
        rw [hc k]
        have : ¬ (k < t.size ∧ (k < k ∨ t.size - k ≤ k)) := by omega
        rw [if_neg this]
      have haj : a[t.size - k - 1]? = t[t.size - k - 1]? := by
        rw [hc (t.size - k - 1)]
        have : ¬ (t.size - k - 1 < t.size ∧ (t.size - k - 1 < k ∨ t.size - k ≤ t.size - k - 1)) := by omega
        rw [if_neg this]
      by_cases hp1 : t.size - k - 1 = p
      · subst hp1
        have c1 : t.size - k - 1 < t.size ∧ (t.size - k - 1 < k + 1 ∨ t.size - (k + 1) ≤ t.size - k - 1) := by omega
        simp only [if_true, hjn, c1, and_self]
        rw [← Array.getElem?_eq_getElem hkn, hak]
        congr 1; omega
      · simp only [hp1, if_false]
        by_cases hp2 : k = p
        · subst hp2
          have c2 : k < t.size ∧ (k < k + 1 ∨ t.size - (k + 1) ≤ k) := by omega
          simp only [if_true, hkn, c2, and_self]
          rw [← Array.getElem?_eq_getElem hjn, haj]
          congr 1; omega
        · simp only [hp2, if_false]
          rw [hc p]
          by_cases hc1 : p < t.size ∧ (p < k ∨ t.size - k ≤ p)
          · have : p < t.size ∧ (p < k + 1 ∨ t.size - (k + 1) ≤ p) := by omega
            simp only [hc1, this, and_self, if_true]
          · have : ¬ (p < t.size ∧ (p < k + 1 ∨ t.size - (k + 1) ≤ p)) := by omega
            simp only [hc1, this, if_false]
    · simp only [hlt, if_false]
      refine ⟨a, rfl, hsz, fun p hp => ?_⟩
      rw [hc p]
      by_cases hc1 : p < t.size ∧ (p < k ∨ t.size - k ≤ p)
      · simp only [hc1, and_self, if_true]
      · simp only [hc1, if_false]
        congr 1; omega

/-- ★ `reverse!` -/
theorem reverseBang_eq_spec {α : Type} (t : List α) : Boot.reverseBang t = .ok t.reverse := by
  unfold Boot.reverseBang
  obtain ⟨r, hr, hsz, hc⟩ := reverseBangLoop_spec t.toArray (t.length + 1) 0 t.toArray (by omega) (by simp)
    ⟨rfl, fun p => by
      have : ¬ (p < t.toArray.size ∧ (p < 0 ∨ t.toArray.size - 0 ≤ p)) := by omega
      rw [if_neg this]⟩
  simp only [List.size_toArray, Int.natCast_zero, Int.sub_zero] at hr hsz hc
  rw [hr]
  simp only [R.ok_bind, R.pure_eq]
  congr 1
  apply List.ext_getElem?
  intro p
  by_cases hp : p < t.length
  · rw [Array.getElem?_toList, hc p hp, List.getElem?_reverse hp]
    simp
  · rw [List.getElem?_eq_none (by simp [hsz]; omega), List.getElem?_eq_none (by simp; omega)]

example : Boot.reverseBang [1, 2, 3, 4, 5] = .ok [5, 4, 3, 2, 1] ∧ Boot.reverseBang ([] : List Nat) = .ok [] := by decide

/-! ### merge -/

theorem assocGet_of_nodup {α β : Type} [BEq α] [LawfulBEq α] : ∀ (c : List (α × β)) (i : Nat) (h : i < c.length),
    (c.map (·.1)).Nodup → assocGet c c[i].1 = some c[i].2
  | [], i, h, _ => by simp at h
  | (k, v) :: rest, 0, _, _ => by simp [assocGet]
  | (k, v) :: rest, i + 1, h, hnd => by
    simp only [List.map_cons, List.nodup_cons] at hnd
    have hi : i < rest.length := by simpa using h
    simp only [List.getElem_cons_succ, assocGet]
    have hne : (k == rest[i].1) = false := by
      cases hh : (k == rest[i].1) with
      | false => rfl
      | true =>
        have : k = rest[i].1 := eq_of_beq hh
        exact absurd (this ▸ List.mem_map_of_mem (List.getElem_mem _)) hnd.1
    simp only [hne, Bool.false_eq_true, if_false]
    exact assocGet_of_nodup rest i hi hnd.2

/-- the inner `:keys` loop of one collection -/
theorem mergeOne_spec {α β : Type} [BEq α] [LawfulBEq α] (c : List (α × β)) (hnd : (c.map (·.1)).Nodup) (tab : List (α × β)) :
    each (c.map (·.1)) (fun _ key tab => mergeKeyStep c key tab) tab
      = .ok (c.foldl (fun acc kv => assocPut acc kv.1 kv.2) tab) := by
  unfold each
  rw [nextKey_nil]
  obtain ⟨s', hs, hP⟩ := eachLoop_inv (c.map (·.1)) (fun _ key tab => mergeKeyStep c key tab)
    (fun i s => s = (c.take i).foldl (fun acc kv => assocPut acc kv.1 kv.2) tab) (fun _ => False)
    (by
      intro i h s hP
      left
      have hi : i < c.length := by simpa using h
      refine ⟨assocPut s c[i].1 c[i].2, ?_, ?_⟩
      · simp only [List.getElem_map, mergeKeyStep]
        rw [assocGet_of_nodup c i hi hnd]
      · rw [List.take_succ_eq_append_getElem hi, List.foldl_append, ← hP]; rfl)
    ((c.map (·.1)).length + 1) 0 tab (by omega) (by omega) (by simp)
  rw [hs]
  rcases hP with h | h
  · rw [h]; simp
  · exact absurd h id

/-- ★ `merge-into` / `merge`: later collections win, a key keeps the position of its first insertion (collections with
    distinct keys, as every janet table / struct has) -/
theorem mergeInto_eq_spec {α β : Type} [BEq α] [LawfulBEq α] (tab : List (α × β)) (colls : List (List (α × β)))
    (hnd : ∀ c ∈ colls, (c.map (·.1)).Nodup) :
    Boot.mergeInto tab colls = .ok (colls.foldl (fun acc c => c.foldl (fun acc kv => assocPut acc kv.1 kv.2) acc) tab) := by
  unfold Boot.mergeInto each
  rw [nextKey_nil]
  obtain ⟨s', hs, hP⟩ := eachLoop_inv colls (fun _ c tab => mergeCollStep c tab)
    (fun i s => s = (colls.take i).foldl (fun acc c => c.foldl (fun acc kv => assocPut acc kv.1 kv.2) acc) tab) (fun _ => False)
    (by
      intro i h s hP
      left
      refine ⟨colls[i].foldl (fun acc kv => assocPut acc kv.1 kv.2) s, ?_, ?_⟩
      · simp only [mergeCollStep]
        rw [mergeOne_spec colls[i] (hnd _ (List.getElem_mem h)) s]; rfl
      · rw [List.take_succ_eq_append_getElem h, List.foldl_append, ← hP]; rfl)
    (colls.length + 1) 0 tab (by omega) (by omega) (by simp)
  rw [hs]
  rcases hP with h | h
  · rw [h]; simp
  · exact absurd h id

theorem merge_eq_spec {α β : Type} [BEq α] [LawfulBEq α] (colls : List (List (α × β)))
    (hnd : ∀ c ∈ colls, (c.map (·.1)).Nodup) : Boot.merge colls = .ok (Lib.merge colls) :=
  mergeInto_eq_spec [] colls hnd

example : Boot.merge [[(1, 10), (2, 20)], [(2, 21), (3, 30)]] = .ok [(1, 10), (2, 21), (3, 30)] := by decide

end JanetModel.Lib.Boot
