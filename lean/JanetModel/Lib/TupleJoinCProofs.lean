import JanetModel.Lib.ArrCProofs
/- C17: `tuple/join` (tuple.c cfun_tuple_join: int32 length pass guarded by `INT32_MAX - total_len < len`, then the cursor
   copy pass) computes the concatenation, and raises exactly when it would be too long. -/
namespace JanetModel.Lib.ArrC
open JanetModel.Lib JanetModel.Lib.CLoop

/-- total length of the first `i` parts -/
def fl {α : Type} (parts : List (List α)) (i : Nat) : Nat := (parts.take i).flatten.length

theorem fl_succ {α : Type} (parts : List (List α)) (i : Nat) (h : i < parts.length) :
    (parts.take (i + 1)).flatten = (parts.take i).flatten ++ parts[i] := by
  rw [List.take_succ_eq_append_getElem h, List.flatten_append]; simp

theorem fl_succ_len {α : Type} (parts : List (List α)) (i : Nat) (h : i < parts.length) :
    fl parts (i + 1) = fl parts i + parts[i].length := by
  unfold fl; rw [fl_succ parts i h]; simp

theorem fl_mono {α : Type} (parts : List (List α)) (i n : Nat) (h : i + n ≤ parts.length) : fl parts i ≤ fl parts (i + n) := by
  induction n with
  | zero => exact Nat.le_refl _
  | succ n ih =>
    have := fl_succ_len parts (i + n) (by omega)
    have e : i + (n + 1) = i + n + 1 := by omega
    rw [e, this]
    have := ih (by omega)
    omega

theorem fl_all {α : Type} (parts : List (List α)) : fl parts parts.length = parts.flatten.length := by
  unfold fl; rw [List.take_length]

theorem tupleJoinLen_aux {α : Type} (parts : List (List α)) (hp : ∀ p ∈ parts, Len32 p) :
    ∀ n i, i + n = parts.length → (fl parts i : Int) ≤ int32Max →
      forUp (tupleJoinLenBody parts) n i (fl parts i)
        = if (fl parts parts.length : Int) ≤ int32Max then .ok (fl parts parts.length : Int) else .panic := by
  intro n
  induction n with
  | zero =>
    intro i hi hle
    have : i = parts.length := by omega
    subst this
    simp [forUp, hle]
  | succ n ih =>
    intro i hi hle
    have hlt : i < parts.length := by omega
    have hc : Len32 parts[i] := hp _ (List.getElem_mem hlt)
    have hs := fl_succ_len parts i hlt
    simp only [forUp, tupleJoinLenBody, idx_list_ok parts i hlt, R.ok_bind]
    unfold Len32 int32Max at *
    by_cases hb : ((fl parts (i + 1) : Nat) : Int) ≤ 2147483647
    · have h1 : ¬ ((2147483647 : Int) - (fl parts i : Int) < (parts[i].length : Int)) := by omega
      have i1 : in32 ((fl parts i : Int) + (parts[i].length : Int)) = true := by
        unfold in32 int32Min int32Max; simp only [decide_eq_true_eq]; omega
      have e : (fl parts i : Int) + (parts[i].length : Int) = ((fl parts (i + 1) : Nat) : Int) := by omega
      rw [e] at i1
      simp only [h1, if_false, add32, e, i1, if_true]
      exact ih (i + 1) (by omega) hb
    · have h1 : (2147483647 : Int) - (fl parts i : Int) < (parts[i].length : Int) := by omega
      have hm := fl_mono parts (i + 1) n (by omega)
      have e : i + 1 + n = parts.length := by omega
      rw [e] at hm
      have : ¬ ((fl parts parts.length : Int) ≤ 2147483647) := by omega
      simp [h1, this]

theorem tupleJoinCopy_spec {α : Type} [Inhabited α] (parts : List (List α)) (total : Nat) (ht : total = parts.flatten.length) :
    ∃ st, forUp (tupleJoinCopyBody parts) parts.length 0 (Array.replicate total default, 0) = .ok st ∧
      st.1.toList = parts.flatten := by
  obtain ⟨⟨tup, cur⟩, hf, hP⟩ := forUp_inv (tupleJoinCopyBody parts)
    (fun i (st : Array α × Int) => st.2 = (fl parts i : Int) ∧ st.1.size = total ∧
      st.1.toList.take (fl parts i) = (parts.take i).flatten)
    parts.length 0 (Array.replicate total default, 0)
    ⟨by simp [fl], by simp, by simp [fl]⟩
    (by
      intro i ⟨tup, cur⟩ _ hi ⟨hc, hsz, hpre⟩
      simp only at hc hsz hpre
      subst hc
      have hi' : i < parts.length := by omega
      have hs := fl_succ_len parts i hi'
      have hm := fl_mono parts (i + 1) (parts.length - (i + 1)) (by omega)
      have e : i + 1 + (parts.length - (i + 1)) = parts.length := by omega
      rw [e, fl_all, ← ht] at hm
      unfold tupleJoinCopyBody
      rw [idx_list_ok parts i hi']
      simp only [R.ok_bind]
      rw [memcpy_whole tup parts[i] (fl parts i) (by omega)]
      simp only [R.ok_bind, R.pure_eq]
      have hB : fl parts i + parts[i].length ≤ tup.toList.length := by simp only [Array.length_toList]; omega
      have hsl := splice_length tup.toList parts[i] (fl parts i) hB
      refine ⟨_, rfl, by simp only; omega, by simp only [List.size_toArray, hsl, Array.length_toList]; exact hsz, ?_⟩
      simp only [List.toList_toArray]
      rw [hs, take_splice _ _ _ hB, hpre, fl_succ parts i hi'])
  refine ⟨(tup, cur), hf, ?_⟩
  simp only [Nat.zero_add] at hP
  obtain ⟨_, hsz, hpre⟩ := hP
  rw [fl_all, List.take_length] at hpre
  rw [← hpre]
  symm
  apply List.take_of_length_le
  simp only [Array.length_toList]; omega

/-- ★ `tuple/join & parts`: the int32 accumulator `total_len` never overflows (the check `INT32_MAX - total_len < len`
    precedes the addition), the call raises "tuple too large" iff the concatenation is longer than INT32_MAX, and the
    cursor copy writes exactly the concatenation, inside the new tuple. -/
theorem tupleJoin_eq_spec {α : Type} [Inhabited α] (parts : List (List α)) (hp : ∀ p ∈ parts, Len32 p) :
    ArrC.tupleJoin parts = if (parts.flatten.length : Int) ≤ int32Max then .ok parts.flatten else .panic := by
  unfold ArrC.tupleJoin
  have h0 : fl parts 0 = 0 := by simp [fl]
  have hl := tupleJoinLen_aux parts hp parts.length 0 (by omega) (by rw [h0]; unfold int32Max; omega)
  rw [h0, fl_all] at hl
  simp only [Int.natCast_zero] at hl
  rw [hl]
  by_cases hb : (parts.flatten.length : Int) ≤ int32Max
  · simp only [hb, if_true, R.ok_bind, Int.toNat_natCast]
    obtain ⟨st, hf, hres⟩ := tupleJoinCopy_spec parts _ rfl
    rw [hf]
    simp [hres]
  · simp only [hb, if_false, R.panic_bind]

example : ArrC.tupleJoin [[1, 2], [], [3]] = .ok [1, 2, 3] ∧ ArrC.tupleJoin ([] : List (List Nat)) = .ok [] := by decide

end JanetModel.Lib.ArrC
